#!/venv/bin/python
"""Per-property check: proof obligations (Lean build + axiom audit) and the correspondence between
the proved model and /repo's working tree.  See DESIGN.md §2.3 for the verdict procedure.

exit 0: property held on everything explored;  exit 1 + `VIOLATION property=<id> replay=<path>`;
exit 2: infrastructure failure / timeout (never a VIOLATION line).
"""
import argparse
import os as _os
_os.environ.setdefault("OMP_NUM_THREADS", "1")
_os.environ.setdefault("OPENBLAS_NUM_THREADS", "1")
import hashlib
import json
import multiprocessing as mp
import os
import random
import sys
import time
import traceback

HERE = os.path.dirname(os.path.abspath(__file__))
ROOT = os.path.dirname(HERE)
OUT = os.environ.get("VERIF_OUT") or ROOT      # where evidence/ and replays/ are written (default: /verif)
sys.path.insert(0, HERE)

import compare  # noqa: E402
import leanside  # noqa: E402
import model_runner  # noqa: E402
import props  # noqa: E402
import known  # noqa: E402


def _run_chunk(chunk):
    from impl_runner import Impl
    out = []
    for prog in chunk:
        try:
            out.append(Impl(prog["domain"]).run(prog["lines"]))
        except Exception as exc:  # noqa: BLE001
            out.append([("err", "harness:" + type(exc).__name__ + ":" + str(exc)[:100])] * len(prog["lines"]))
    return out


def run_impl(programs, procs):
    if procs <= 1 or len(programs) < 32:
        return _run_chunk(programs)
    size = max(8, len(programs) // (procs * 4))
    chunks = [programs[i:i + size] for i in range(0, len(programs), size)]
    with mp.get_context("fork").Pool(procs) as pool:
        parts = pool.map(_run_chunk, chunks)
    return [r for part in parts for r in part]


def run_model(programs, procs):
    if not programs:
        return []
    size = max(50, len(programs) // max(1, procs))
    chunks = [[p["lines"] for p in programs[i:i + size]] for i in range(0, len(programs), size)]
    if len(chunks) == 1:
        return model_runner.run_model(chunks[0])
    with mp.get_context("fork").Pool(min(procs, len(chunks))) as pool:
        parts = pool.map(model_runner.run_model, chunks)
    return [r for part in parts for r in part]


def find_mismatches(pc, programs, impl_res, model_res):
    """first divergence of every program: dict(program index, statement index, impl, model)"""
    out = []
    for pi, (prog, ri, rm) in enumerate(zip(programs, impl_res, model_res)):
        focus = set(prog["focus"]) if prog.get("focus") else set(range(len(prog["lines"])))
        for si in range(len(prog["lines"])):
            a, b = ri[si], rm[si]
            if a[0] == "err" or b[0] == "err":
                if a != b and not compare.results_equal(prog["lines"][si], a, b, pc.mode):
                    out.append(dict(pi=pi, si=si, impl=a, model=b, setup=si not in focus))
                    break
                continue
            if si in focus and not compare.results_equal(prog["lines"][si], a, b, pc.mode):
                out.append(dict(pi=pi, si=si, impl=a, model=b))
                break
    return out


def write_replay(prop, prog, mm, seed, tier, note):
    os.makedirs(os.path.join(OUT, "replays"), exist_ok=True)
    body = dict(property=prop, domain=prog["domain"], lines=prog["lines"], statement=mm["si"],
                expected_from_proved_model=compare.show(mm["model"]), observed_on_implementation=compare.show(mm["impl"]),
                seed=seed, tier=tier, note=note, tags=prog.get("tags", {}))
    h = hashlib.sha1(json.dumps(body, sort_keys=True, default=str).encode()).hexdigest()[:12]
    path = os.path.join("replays", f"{prop}-{h}.json")
    with open(os.path.join(OUT, path), "w") as fh:
        json.dump(body, fh, indent=1, default=str)
    return path


def shrink(pc, prog, mm, rounds=8):
    """greedy statement dropping while the divergence at the same statement persists; all
    single-deletion candidates of a round go through the model in one batch"""
    from impl_runner import Impl
    cur = list(prog["lines"])
    target = cur[mm["si"]]
    best = mm
    for _ in range(rounds):
        cands = [cur[:i] + cur[i + 1:] for i in range(len(cur)) if cur[i] != target]
        if not cands:
            break
        rms = model_runner.run_model(cands)
        found = None
        for ls, rm in zip(cands, rms):
            si = ls.index(target)
            if rm[si][0] == "err" and rm[si][1] in ("unbound", "model-bad-op"):
                continue
            ri = Impl(prog["domain"]).run(ls)
            if not compare.results_equal(target, ri[si], rm[si], pc.mode):
                found = (ls, dict(pi=0, si=si, impl=ri[si], model=rm[si]))
                break
        if not found:
            break
        cur, best = found
    return dict(prog, lines=cur), best


def main():
    ap = argparse.ArgumentParser()
    ap.add_argument("--property", required=True)
    ap.add_argument("--tier", default=os.environ.get("VERIF_TIER", "quick"))
    ap.add_argument("--procs", type=int, default=0)
    ap.add_argument("--skip-lean", action="store_true")
    ap.add_argument("--dump", action="store_true", help="print every mismatch")
    args = ap.parse_args()
    prop, tier = args.property, args.tier
    seed = int(os.environ.get("VERIF_SEED", "0") or 0)
    procs = args.procs or min(16, os.cpu_count() or 1)
    t0 = time.time()
    pc = props.PROPS[prop]
    rng = random.Random(f"{prop}-{tier}-{seed}")

    rdir = os.path.join(OUT, "replays")
    if os.path.isdir(rdir):
        for fn in os.listdir(rdir):
            if fn.startswith(prop + "-"):
                os.remove(os.path.join(rdir, fn))
    # 1. proof obligations ---------------------------------------------------------------
    lean = leanside.build_and_audit(prop, tier, skip=args.skip_lean)

    # 2./3. correspondence ----------------------------------------------------------------
    corpus = props.load_corpus(prop)
    programs = corpus + pc.generate(rng, tier)
    impl_res = run_impl(programs, procs)
    model_res = run_model(programs, procs)
    mism = find_mismatches(pc, programs, impl_res, model_res)

    if args.dump:
        for mm in mism:
            p = programs[mm["pi"]]
            print("---- mismatch in", p["domain"], p.get("tags"))
            for i, l in enumerate(p["lines"]):
                print(("  >> " if i == mm["si"] else "     ") + l)
            print("     model:", compare.show(mm["model"]))
            print("     impl :", compare.show(mm["impl"]))
    # 4. classify ------------------------------------------------------------------------
    violations = []
    known_hits = {}
    seen_sig = set()
    for mm in mism:
        prog = programs[mm["pi"]]
        kf = known.match(prop, prog, mm)
        if kf:
            known_hits.setdefault(kf, 0)
            known_hits[kf] += 1
            continue
        sig = (prog["lines"][mm["si"]].split()[0:3], compare.show(mm["impl"])[:40])
        sig = json.dumps(sig)
        if sig in seen_sig and len(violations) >= 3:
            continue
        seen_sig.add(sig)
        if os.environ.get("VERIF_NOSHRINK") and violations:
            continue        # matrix mode: one unshrunk replay is enough
        if len(violations) < 3:
            try:
                if os.environ.get("VERIF_NOSHRINK"):
                    raise RuntimeError("no shrinking in matrix mode")
                sprog, smm = shrink(pc, prog, mm)
            except Exception:  # noqa: BLE001
                sprog, smm = prog, mm
            kf = known.match(prop, sprog, smm)
            if kf:
                known_hits.setdefault(kf, 0)
                known_hits[kf] += 1
                continue
            path = write_replay(prop, sprog, smm, seed, tier,
                                "implementation disagrees with the proved model on this program; "
                                "the model's answer is the one the property's theorems determine")
            violations.append((path, False))
        else:
            violations.append((None, False))
    lean_broken = [o for o in lean["obligations"] if not o["ok"]]
    if lean_broken and not [v for v in violations if v[0]]:
        body = dict(property=prop, broken_obligations=lean_broken,
                    note="a proof obligation / source tie no longer checks and the search over "
                         f"{len(programs)} programs found no input on which the implementation fails the property")
        os.makedirs(os.path.join(OUT, "replays"), exist_ok=True)
        path = os.path.join("replays", f"{prop}-obligation.json")
        json.dump(body, open(os.path.join(OUT, path), "w"), indent=1)
        violations.append((path, True))

    # 5. evidence -------------------------------------------------------------------------
    nontrivial = set()
    hist = {}
    for prog, rm in zip(programs, model_res):
        key = hashlib.sha1("\n".join(model_runner.strip_opts(l) for l in prog["lines"]).encode()).hexdigest()
        nt = False
        for si in (prog["focus"] or range(len(prog["lines"]))):
            r = rm[si]
            if r[0] == "frame" and (r[3] or r[2] is None):
                nt = True
            if r[0] in ("vals", "pairs", "corrparts") and r[1]:
                nt = True
            if r[0] == "err":
                nt = True
        if nt:
            nontrivial.add(key)
        for k, v in prog.get("tags", {}).items():
            if isinstance(v, (str, int)):
                hist.setdefault(k, {}).setdefault(str(v), 0)
                hist[k][str(v)] += 1
        hist.setdefault("domain", {}).setdefault(prog["domain"], 0)
        hist["domain"][prog["domain"]] += 1
    samples = []
    for i in range(min(3, len(programs))):
        j = (i * 7919) % len(programs)
        p = programs[j]
        si = (p["focus"] or [len(p["lines"]) - 1])[0]
        samples.append(dict(domain=p["domain"], lines=p["lines"],
                            model=[compare.show(r) for r in model_res[j]],
                            impl=[compare.show(r) for r in impl_res[j]]))
    ok_obl = [o for o in lean["obligations"] if o["ok"]]
    ev = dict(
        property_id=prop, tier=tier, seed=seed, level="proof",
        coverage=dict(
            obligations=len(lean["obligations"]), discharged=len(ok_obl),
            checker_cmd=lean["checker_cmd"], trusted_base=lean["trusted_base"],
            theorems=[o["name"] for o in lean["obligations"]],
            axioms_used=lean["axioms"],
            evaluations=len(programs),
            distinct_nontrivial=len(nontrivial),
            rule="seeded programs (corpus first, bounded-exhaustive block, random block) run on the "
                 "implementation and on the proved Lean model; distinct = distinct statement text; "
                 "non-trivial = a compared result has steps, an undefined piece, a non-empty value list or an error",
            traces_validated_against_impl=len(programs) - len({m['pi'] for m in mism}),
            samples=samples, histograms=hist,
            known_findings_hit=known_hits,
            mismatches=len(mism),
            exhaustive=bool(pc.exhaustive and tier == "thorough"),
            source_fingerprints=leanside.fingerprints(pc.anchors),
            translator=lean.get("translator", {}),
        ),
        assumptions=lean["assumptions"],
        wall_s=round(time.time() - t0, 2),
        violations=len([v for v in violations if v[0]]),
    )
    os.makedirs(os.path.join(OUT, "evidence"), exist_ok=True)
    with open(os.path.join(OUT, "evidence", f"{prop}.json"), "w") as fh:
        json.dump(ev, fh, indent=1, default=str)

    for kf, n in sorted(known_hits.items()):
        print(f"KNOWN-FINDING: property={prop} {kf} ({n} programs)")
    rc = 0
    for path, nofail in violations:
        if path:
            print(f"VIOLATION property={prop} replay={path}" + (" no-failing-input-found" if nofail else ""))
            rc = 1
    print(f"{prop} {tier}: obligations {len(ok_obl)}/{len(lean['obligations'])}, programs {len(programs)}, "
          f"mismatches {len(mism)}, violations {len([v for v in violations if v[0]])}, {time.time() - t0:.1f}s")
    return rc


if __name__ == "__main__":
    try:
        sys.exit(main())
    except SystemExit:
        raise
    except Exception:  # noqa: BLE001
        traceback.print_exc()
        sys.exit(2)
