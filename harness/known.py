"""Known findings: genuine defects of the pinned tree that are recorded rather than repaired.
The list lives in /verif/KNOWN_FINDINGS.txt (never written at run time); each `known:` entry names a
predicate below.  A mismatch is suppressed only when its (shrunk) program satisfies the predicate of a
listed entry for the same property; everything else is a VIOLATION."""
import os
import re

ROOT = os.path.dirname(os.path.dirname(os.path.abspath(__file__)))

PREDICATES = {}


def predicate(name):
    def deco(fn):
        PREDICATES[name] = fn
        return fn
    return deco


def load():
    path = os.path.join(ROOT, "KNOWN_FINDINGS.txt")
    out = []
    if not os.path.exists(path):
        return out
    for line in open(path):
        line = line.strip()
        m = re.match(r"known:\s+property=(\S+)\s+id=(\S+)\s+class=(\S+)\s+(.*)", line)
        if m:
            out.append(dict(prop=m.group(1), id=m.group(2), cls=m.group(3), what=m.group(4)))
    return out


_ENTRIES = None


def match(prop, prog, mm):
    global _ENTRIES
    if _ENTRIES is None:
        _ENTRIES = load()
    for e in _ENTRIES:
        if e["prop"] != prop:
            continue
        fn = PREDICATES.get(e["cls"])
        if fn is None:
            continue
        try:
            if fn(prog, mm):
                return f"{e['id']} {e['what']}"
        except Exception:  # noqa: BLE001
            pass
    return None
