"""Executes protocol programs against the real staircase library (imported from /repo's working tree).

Every statement yields exactly one structured result (see `results` in README section of DESIGN §5):
  ("ok",) | ("err", kind) | ("frame", closed, init, rows) | ("vals", [v...]) | ("text", s) | ("pairs", [(a,b)...])
Points are mapped back to ticks exactly, values to Fractions (None = NaN, "inf"/"-inf" tokens for infinities).
"""
import math
import signal
import threading
import os
import sys
import warnings
from fractions import Fraction

REPO = os.environ.get("VERIF_REPO", "/repo")
if REPO not in sys.path:
    sys.path.insert(0, REPO)

import numpy as np  # noqa: E402
import pandas as pd  # noqa: E402
import staircase as sc  # noqa: E402
from staircase.core.exceptions import ClosedMismatchError  # noqa: E402

from domains import DOMAINS  # noqa: E402

warnings.simplefilter("ignore")


def F(tok):
    return Fraction(tok)


def optF(tok):
    return None if tok == "none" else Fraction(tok)


def num(q, flavour="py"):
    """exact rational -> python/numpy number as a user would pass it"""
    if q is None:
        return np.nan
    q = Fraction(q)
    if flavour == "npf":
        return np.float64(float(q))
    if flavour == "npi" and q.denominator == 1:
        return np.int64(int(q))
    if flavour == "pyf":
        return float(q)
    if flavour == "bool" and q in (0, 1):
        return bool(q)
    return int(q) if q.denominator == 1 else float(q)


def val(x):
    """library value -> canonical value"""
    if x is None:
        return None
    if isinstance(x, (pd.Timedelta, np.timedelta64)):
        raise TypeError("timedelta where a value was expected")
    if isinstance(x, (bool, np.bool_)):
        return Fraction(int(x))
    if isinstance(x, (int, np.integer)):
        return Fraction(int(x))
    x = float(x)
    if math.isnan(x):
        return None
    if math.isinf(x):
        return "inf" if x > 0 else "-inf"
    return Fraction(x)


def err_kind(exc):
    if isinstance(exc, ClosedMismatchError):
        return "ClosedMismatch"
    if isinstance(exc, ValueError):
        return "ValueError"
    if isinstance(exc, AssertionError):
        return "Assertion"
    return "Other:" + type(exc).__name__


def _same(a, b):
    return (pd.isna(a) and pd.isna(b)) or a == b


class StatementTimeout(BaseException):
    pass


class Unbound(Exception):
    pass


def parse_opts(toks):
    if ";;" in toks:
        i = toks.index(";;")
        opts = dict(t.split("=", 1) for t in toks[i + 1:])
        return toks[:i], opts
    return toks, {}


class Impl:
    def __init__(self, domain="int"):
        self.dom = DOMAINS[domain]
        self.env = {}

    # ------------------------------------------------------------------ helpers
    def get(self, r):
        if r not in self.env:
            raise Unbound(r)
        return self.env[r]

    def operand(self, tok, flavour="py"):
        if tok.startswith("#"):
            t = tok[1:]
            return num(None if t == "nan" else Fraction(t), flavour)
        return self.get(tok)

    def tick(self, x):
        d = self.dom
        if d.datetime_like and not d.name.startswith("td"):
            x = pd.Timestamp(x)
            o = d.origin
            if o.tzinfo is not None and x.tzinfo is None:
                x = x.tz_localize("UTC")
            elif o.tzinfo is None and x.tzinfo is not None:
                x = x.tz_convert("UTC").tz_localize(None)
            return Fraction(int((x - o).value), d.unit_ns)
        return d.tick(x)

    def frame_of(self, s, raw=False):
        """(closed, init, rows) read through public views of a copy (so reads do not disturb `s`)"""
        t = s if raw else s.copy()
        pts = t.step_points
        vals = t.step_values
        rows = [(self.tick(p), val(v)) for p, v in zip(list(pts), list(vals.values))]
        return ("frame", "L" if t.closed == "left" else "R", val(t.initial_value), rows)

    def window(self, lo, hi, style="tuple"):
        lo = optF(lo)
        hi = optF(hi)
        if lo is None and hi is None and style == "default":
            return None
        if style == "inf":
            return (-sc.inf if lo is None else self.dom.pt(lo), sc.inf if hi is None else self.dom.pt(hi))
        return (self.dom.opt(lo), self.dom.opt(hi))

    # ------------------------------------------------------------------ statements
    def run(self, lines):
        out = []
        for line in lines:
            out.append(self.step(line))
        return out

    STATEMENT_TIMEOUT = 60   # seconds; ordinary statements take milliseconds
    _timeouts = 0

    def step(self, line):
        toks, opts = parse_opts(line.split())
        # watchdog: a statement that does not come back (a loop that no longer terminates) is an outcome, not a hang of
        # the whole check
        use_alarm = hasattr(signal, "setitimer") and threading.current_thread() is threading.main_thread()
        if use_alarm:
            def _on_alarm(signum, frame):
                raise StatementTimeout()
            old_handler = signal.signal(signal.SIGALRM, _on_alarm)
            # once something in this worker has hung, later statements get a short leash (the check must finish)
            signal.setitimer(signal.ITIMER_REAL, self.STATEMENT_TIMEOUT if Impl._timeouts == 0 else 5)
        try:
            with warnings.catch_warnings():
                warnings.simplefilter("ignore")
                return self.exec(toks, opts)
        except Unbound:
            return ("err", "unbound")
        except StatementTimeout:
            Impl._timeouts += 1
            return ("err", "Other:Timeout")
        except Exception as exc:  # noqa: BLE001
            return ("err", err_kind(exc))
        finally:
            if use_alarm:
                signal.setitimer(signal.ITIMER_REAL, 0)
                signal.signal(signal.SIGALRM, old_handler)

    def exec(self, toks, o):
        d = self.dom
        cmd = toks[0]
        if cmd == "reset":
            self.env = {}
            return ("ok",)
        if cmd == "new":
            _, r, cl, init = toks
            self.env[r] = sc.Stairs(initial_value=num(None if init == "nan" else F(init), o.get("sf", "py")),
                                    closed="left" if cl == "L" else "right")
            return ("ok",)
        if cmd == "fromvalues":
            r, cl, init = toks[1:4]
            rows = [t.split(":") for t in toks[4:]]
            idx = [d.pt(F(p)) for p, _ in rows]
            vals = [np.nan if v == "nan" else float(F(v)) for _, v in rows]
            if o.get("vdtype") == "int" and all(v != "nan" and F(v).denominator == 1 for _, v in rows):
                vals = [int(F(v)) for _, v in rows]
            if o.get("vdtype") == "bool" and all(v in ("0", "1") for _, v in rows):
                vals = [v == "1" for _, v in rows]
            if o.get("vdtype") == "uint8" and all(v != "nan" and F(v).denominator == 1 and 0 <= F(v) < 256 for _, v in rows):
                vals = np.array([int(F(v)) for _, v in rows], dtype="uint8")
            ser = pd.Series(vals, index=pd.Index(idx))
            self.env[r] = sc.Stairs.from_values(
                initial_value=num(None if init == "nan" else F(init)), values=ser,
                closed="left" if cl == "L" else "right")
            return ("ok",)
        if cmd == "layer":
            _, r, s, e, v = toks
            f = self.get(r)
            s, e, v = optF(s), optF(e), F(v)
            style = o.get("none", "None")
            if style == "inf":
                sa = -sc.inf if s is None else d.pt(s)
                ea = sc.inf if e is None else d.pt(e)
            elif style == "nan" and not d.datetime_like:
                sa = np.nan if s is None else d.pt(s)
                ea = np.nan if e is None else d.pt(e)
            elif style == "nan":
                sa = pd.NaT if s is None else d.pt(s)
                ea = pd.NaT if e is None else d.pt(e)
            else:
                sa, ea = d.opt(s), d.opt(e)
            va = num(v, o.get("sf", "py"))
            if o.get("omit") == "1" and v == 1:
                res = f.layer(sa, ea)
            elif o.get("kw") == "1":
                res = f.layer(start=sa, end=ea, value=va)
            else:
                res = f.layer(sa, ea, va)
            return ("text", "same" if res is f else "different")
        if cmd == "layerv":
            r = toks[1]
            f = self.get(r)
            trip = [t.split(":") for t in toks[2:]]
            starts = [optF(a) for a, _, _ in trip]
            ends = [optF(b) for _, b, _ in trip]
            vals = [F(v) for _, _, v in trip]
            res = self.layer_vector(f, starts, ends, vals, o)
            return ("text", "same" if res is f else "different")
        if cmd == "ctor":
            # constructor shorthand: Stairs(start=, end=, value=, initial_value=, closed=)
            r, cl, init = toks[1:4]
            trip = [t.split(":") for t in toks[4:]]
            starts = [optF(a) for a, _, _ in trip]
            ends = [optF(b) for _, b, _ in trip]
            vals = [F(v) for _, _, v in trip]
            sa, ea, va = self.vec_args(starts, ends, vals, o)
            self.env[r] = sc.Stairs(start=sa, end=ea, value=va,
                                    initial_value=num(None if init == "nan" else F(init)),
                                    closed="left" if cl == "L" else "right")
            return ("ok",)
        if cmd == "copy":
            self.env[toks[1]] = self.get(toks[2]).copy()
            return ("ok",)
        if cmd == "touch":
            f = self.get(toks[1])
            what = toks[2]
            if what in ("deltas", "both"):
                f.step_changes
            if what in ("values", "both"):
                f.step_values
            if what == "frame":
                f.to_frame()
            if what == "stat":
                try:
                    f.mean(); f.percentile(50); f.ecdf
                except Exception:  # noqa: BLE001
                    pass
            return ("ok",)
        if cmd == "un":
            _, r2, op, r = toks
            f = self.get(r)
            if o.get("form") == "dunder" and op in ("neg", "invert"):
                res = -f if op == "neg" else ~f
            else:
                res = {"neg": f.negate, "invert": f.invert, "make_boolean": f.make_boolean,
                       "isna": f.isna, "notna": f.notna}[op]()
            self.env[r2] = res
            return ("ok",)
        if cmd == "bin":
            _, r2, op, a, b = toks
            x = self.operand(a, o.get("sf", "py"))
            y = self.operand(b, o.get("sf", "py"))
            self.env[r2] = self.binop(op, x, y, o.get("form", "dunder"))
            return ("ok",)
        if cmd in ("clip", "wheret", "maskt"):
            _, r2, r, lo, hi = toks
            f = self.get(r)
            lo, hi = optF(lo), optF(hi)
            if o.get("str") == "1" and d.name == "dt":
                la = None if lo is None else str(d.pt(lo))
                ha = None if hi is None else str(d.pt(hi))
            elif o.get("none") == "inf":
                la = -sc.inf if lo is None else d.pt(lo)
                ha = sc.inf if hi is None else d.pt(hi)
            else:
                la, ha = d.opt(lo), d.opt(hi)
            if cmd == "clip":
                if o.get("kw") == "1":
                    kw = {}
                    if lo is not None:
                        kw["lower"] = la
                    if hi is not None:
                        kw["upper"] = ha
                    res = f.clip(**kw)
                else:
                    res = f.clip(la, ha)
            elif cmd == "wheret":
                res = f.where((la, ha))
            else:
                res = f.mask((la, ha))
            self.env[r2] = res
            return ("ok",)
        if cmd in ("mask", "where"):
            _, r2, r, g = toks
            f, g = self.get(r), self.get(g)
            self.env[r2] = f.mask(g) if cmd == "mask" else f.where(g)
            return ("ok",)
        if cmd == "fillna":
            _, r2, r, x = toks
            f = self.get(r)
            if x.startswith("#"):
                arg = self.operand(x, o.get("sf", "py"))
            elif x.startswith("@"):
                arg = x[1:]
            else:
                arg = self.get(x)
            self.env[r2] = f.fillna(arg)
            return ("ok",)
        if cmd in ("shift", "diff"):
            _, r2, r, dd = toks
            f = self.get(r)
            delta = d.delta(F(dd))
            self.env[r2] = f.shift(delta) if cmd == "shift" else f.diff(delta)
            return ("ok",)
        if cmd == "agg":
            r2, name = toks[1:3]
            members = [self.get(t) for t in toks[3:]]
            self.env[r2] = self.aggregate(name, members, o.get("container", "list"))
            return ("ok",)
        # ---------------------------------------------------------------- observations
        if cmd == "frame":
            return self.frame_of(self.get(toks[1]))
        if cmd == "rawframe":
            return self.frame_of(self.get(toks[1]), raw=True)
        if cmd in ("limit", "sample"):
            f = self.get(toks[1])
            if cmd == "limit":
                side = "left" if toks[2] in ("left", "L") else "right"
                xs = [F(t) for t in toks[3:]]
                call = lambda x, **kw: f.limit(x, side, **kw)  # noqa: E731
            else:
                xs = [F(t) for t in toks[2:]]
                if o.get("call") == "1":
                    call = lambda x, **kw: f(x, **kw)  # noqa: E731
                else:
                    call = lambda x, **kw: f.sample(x, **kw)  # noqa: E731
            return ("vals", self.evaluate(call, xs, o.get("form", "scalar")))
        if cmd == "ident":
            a = self.operand(toks[1])
            b = self.operand(toks[2])
            return ("text", "true" if a.identical(b) else "false")
        if cmd == "bool":
            return ("text", "true" if bool(self.get(toks[1])) else "false")
        if cmd == "nsteps":
            return ("text", str(self.get(toks[1]).number_of_steps))
        if cmd == "closed":
            return ("text", "L" if self.get(toks[1]).closed == "left" else "R")
        if cmd == "stat":
            _, r, name, lo, hi, c = toks
            return self.stat(self.get(r), name, lo, hi, c, o)
        if cmd == "vir":
            _, r, lo, hi, c = toks
            f = self.get(r)
            kw = {}
            if not (lo == "none" and hi == "none" and o.get("win") == "default"):
                kw["where"] = self.window(lo, hi, o.get("win", "tuple"))
            if c != "default":
                kw["closed"] = c
            res = f.values_in_range(**kw)
            vals = sorted(v for v in (val(x) for x in res) if v is not None)
            return ("vals", vals)
        if cmd == "vsums":
            f = self.get(toks[1])
            vs = f.value_sums()
            if vs is None:
                return ("pairs", [])
            return ("pairs", sorted((val(k), d.length(v)) for k, v in vs.items()))
        if cmd == "ecdf":
            f = self.get(toks[1])
            side = "left" if toks[2] in ("left", "L") else "right"
            ys = [float(F(t)) for t in toks[3:]]
            return ("vals", [val(f.ecdf.limit(y, side)) for y in ys])
        if cmd == "ecdfs":
            # the ECDF evaluated like any step function: ecdf(y) = P(f <= y)
            f = self.get(toks[1])
            ys = [float(F(t)) for t in toks[2:]]
            if o.get("form") == "list":
                return ("vals", [val(v) for v in f.ecdf(ys)])
            return ("vals", [val(f.ecdf(y)) for y in ys])
        if cmd in ("perc", "frac"):
            f = self.get(toks[1])
            ps = [num(F(t)) for t in toks[2:]]
            fn = f.percentile if cmd == "perc" else f.fractile
            if o.get("form") == "list":
                return ("vals", [val(v) for v in fn(ps)])
            return ("vals", [val(fn(p)) for p in ps])
        if cmd == "quant":
            f = self.get(toks[1])
            return ("vals", [val(v) for v in f.quantiles(int(toks[2]))])
        if cmd == "hist":
            f = self.get(toks[1])
            cl = "left" if toks[2] in ("left", "L") else "right"
            stat = toks[3]
            if toks[4:] == ["unit"]:
                res = f.hist(closed=cl, stat=stat) if not (cl == "left" and o.get("dflt") == "1") else f.hist(stat=stat)
                if res.index.closed != cl:
                    return ("err", "Other:UnitBinsClosed")
                return ("pairs", [((Fraction(iv.left), Fraction(iv.right)),
                                   d.length(v) if isinstance(v, (pd.Timedelta, np.timedelta64)) else val(v))
                                  for iv, v in res.items()])
            bins = [tuple(F(x) for x in t.split(":")) for t in toks[4:]]
            how = o.get("bins", "breaks")
            contiguous = all(bins[i][1] == bins[i + 1][0] for i in range(len(bins) - 1))
            if how == "breaks" and contiguous:
                b = [num(bins[0][0])] + [num(x[1]) for x in bins]
                res = f.hist(bins=b, closed=cl, stat=stat)
            elif how == "unit":
                res = f.hist(closed=cl, stat=stat)
            else:
                ii = pd.IntervalIndex.from_arrays([float(x[0]) for x in bins], [float(x[1]) for x in bins], closed=cl)
                res = f.hist(bins=ii, stat=stat)
            if how == "unit":
                got = [(Fraction(iv.left), Fraction(iv.right)) for iv in res.index]
                if got != bins or res.index.closed != cl:
                    return ("err", "Other:UnitBins:" + str(got)[:60])
            return ("vals", [d.length(v) if isinstance(v, (pd.Timedelta, np.timedelta64)) else val(v)
                             for v in list(res)])
        if cmd == "views":
            return self.views(self.get(toks[1]))
        if cmd == "stepchanges":
            # read through a copy (which carries both columns verbatim) so the read does not disturb the object
            f = self.get(toks[1]).copy()
            sc_ = f.step_changes
            return ("pairs", [(self.tick(k), val(v)) for k, v in sc_.items()])
        if cmd == "deltaroundtrip":
            # force the delta form, drop the value form the way layer() does, and read the values back
            f = self.get(toks[1]).copy()
            if f._data is None:
                return self.frame_of(f)
            f.step_changes
            g = sc.Stairs._new(initial_value=f.initial_value, data=f._data[["delta"]].copy(), closed=f.closed)
            return self.frame_of(g)
        if cmd == "consistent":
            # internal consistency of all structural views of the object itself (no comparison of the frame)
            r = self.views(self.get(toks[1]))
            return r if r[0] == "err" else ("text", "consistent")
        if cmd == "arraybin":
            op, other = toks[1:3]
            rest = toks[3:]
            if "/" in rest:
                i = rest.index("/")
                ms, tail = rest[:i], rest[i + 1:]
            else:
                ms, tail = rest, []
            members = [self.get(m) for m in ms]
            arr = sc.StairsArray(members)
            if other == "scalar":
                oth = self.operand(tail[0])
            elif other == "stairs":
                oth = members[0]
            else:
                oth = sc.StairsArray(members[::-1])
            res = self.binop(op, arr, oth, "dunder" if op not in ("and", "or", "xor") else "method")
            if isinstance(res, Exception):
                raise res
            return ("frames", [self.frame_of(x) for x in res])
        if cmd == "arrayneg":
            members = [self.get(m) for m in toks[1:]]
            arr = sc.StairsArray(members)
            res = -arr if o.get("form") == "dunder" else arr.negate()
            return ("frames", [self.frame_of(x) for x in res])
        if cmd == "slicehist":
            # slicehist r binclosed stat b0 b1 ... / l:r ...
            r, bcl, stat = toks[1:4]
            rest = toks[4:]
            i = rest.index("/")
            breaks = [num(F(t)) for t in rest[:i]]
            ivs = [tuple(F(x) for x in t.split(":")) for t in rest[i + 1:]]
            f = self.get(r)
            ii = pd.IntervalIndex.from_arrays([d.pt(iv[0]) for iv in ivs], [d.pt(iv[1]) for iv in ivs], closed="left")
            df = f.slice(ii).hist(bins=breaks, closed=bcl, stat=stat)
            outv = []
            for row in df.values:
                for v in row:
                    outv.append(d.length(v) if isinstance(v, (pd.Timedelta, np.timedelta64)) else val(v))
            return ("vals", outv)
        if cmd == "arraysample":
            kind = toks[1]
            rest = toks[3:]
            i = rest.index("/")
            members = [self.get(m) for m in rest[:i]]
            xs = [d.pt(F(t)) for t in rest[i + 1:]]
            arr = sc.StairsArray(members)
            if o.get("acc") == "reuse":
                # the pandas accessor is cached on the Series: use it, reorder the Series in place, use it again -
                # the table must follow the Series (rows are put back into member order by their labels)
                ser = pd.Series(members, index=list(range(len(members))), dtype="Stairs")
                call = (lambda: ser.sc.sample(xs)) if kind == "sample" else (lambda: ser.sc.limit(xs, side=kind[5:]))
                call()
                ser.sort_index(ascending=False, inplace=True)
                df = call()
                df = df.loc[list(range(len(members)))]
            elif o.get("top") == "1":
                df = sc.sample(members, xs) if kind == "sample" else sc.limit(members, xs, side=kind[5:])
            elif kind == "sample":
                df = arr.sample(xs)
            else:
                df = arr.limit(xs, side=kind[5:])
            return ("vals", [val(v) for row in df.values for v in row])
        if cmd == "covm":
            which, lo, hi = toks[1:4]
            members = [self.get(m) for m in toks[4:]]
            fn = sc.cov if which == "cov" else sc.corr
            if o.get("via") == "accessor":
                ser = pd.Series(members, dtype="Stairs")
                mat = np.asarray(getattr(ser.sc, which)(where=self.window(lo, hi)))
            elif o.get("via") == "sarray":
                mat = np.asarray(getattr(sc.StairsArray(members), which)(where=self.window(lo, hi)))
            else:
                mat = np.asarray(fn(members, where=self.window(lo, hi)))
            n = len(members)
            for i in range(n):
                for j in range(n):
                    a, b2 = mat[i, j], mat[j, i]
                    if not ((np.isnan(a) and np.isnan(b2)) or a == b2):
                        return ("err", "Other:AsymmetricMatrix")
                if which == "corr" and mat[i, i] != 1:
                    return ("err", "Other:CorrDiagonalNotOne")
            outv = []
            for i in range(n):
                for j in range(n):
                    if (which == "cov" and i <= j) or (which == "corr" and i < j):
                        outv.append(val(mat[i, j]))
            return ("vals", outv)
        if cmd == "q":
            f = self.get(toks[1])
            name = toks[2]
            if name in ("integral", "mean", "var", "median", "min", "max"):
                res = getattr(f, name)()
                if name == "integral" and d.datetime_like:
                    return ("vals", [None if pd.isna(res) else d.length(res)])
                return ("vals", [val(res)])
            if name == "modes":
                return ("vals", [val(f.mode())])
            if name == "vsums":
                vs = f.value_sums()
                if vs is None:
                    return ("vals", [])
                out = []
                for k, v in sorted((val(k), d.length(v)) for k, v in vs.items()):
                    out += [k, v]
                return ("vals", out)
            if name == "perc":
                return ("vals", [val(f.percentile(num(F(toks[3]))))])
            if name == "frac":
                return ("vals", [val(f.fractile(num(F(toks[3]))))])
            if name == "ecdf":
                side = "left" if toks[3] in ("left", "L") else "right"
                return ("vals", [val(f.ecdf.limit(float(F(toks[4])), side))])
            raise ValueError("bad query")
        if cmd in ("slicer", "resample"):
            if cmd == "slicer":
                _, r, name, c = toks[:4]
                ivs = toks[4:]
            else:
                _, r2, r, name, c = toks[:5]
                ivs = toks[5:]
            f = self.get(r)
            ivs = [tuple(F(x) for x in t.split(":")) for t in ivs]
            cc = ("left" if f.closed == "left" else "right") if c == "default" else c
            contiguous = all(ivs[i][1] == ivs[i + 1][0] for i in range(len(ivs) - 1))
            how = o.get("cuts", "breaks" if contiguous else "ii")
            unit = all(iv[1] - iv[0] == 1 and iv[0].denominator == 1 for iv in ivs)
            if how == "period" and d.name == "dt" and unit:
                # PeriodIndex of hourly periods (the implementation closes the 1 ns gap at the end of each period);
                # the periods need not be consecutive
                if contiguous and o.get("pform") != "list":
                    pi = pd.period_range(start=d.pt(ivs[0][0]), periods=len(ivs), freq="h")
                else:
                    pi = pd.PeriodIndex([pd.Period(d.pt(iv[0]), freq="h") for iv in ivs])
                slicer = f.slice(pi, closed=cc)
            elif how == "breaks" and contiguous:
                breaks = [d.pt(ivs[0][0])] + [d.pt(iv[1]) for iv in ivs]
                if o.get("cutsform") == "index":
                    breaks = pd.Index(breaks)
                slicer = f.slice(breaks, closed=cc) if c != "default" or cc != "left" else f.slice(breaks)
            else:
                ii = pd.IntervalIndex.from_arrays([d.pt(iv[0]) for iv in ivs], [d.pt(iv[1]) for iv in ivs], closed=cc)
                slicer = f.slice(ii)
            pyname = {"modes": "mode"}.get(name, name)
            if cmd == "resample":
                self.env[r2] = slicer.resample(pyname)
                return ("ok",)
            via = o.get("via", "method")
            if via == "agg":
                res = slicer.agg([pyname])[pyname]
            elif via == "apply" and name not in ("min", "max"):
                res = slicer.apply(getattr(sc.Stairs, pyname))
            else:
                res = getattr(slicer, pyname)()
            outv = []
            for v in list(res.values if hasattr(res, "values") else res):
                if name == "integral" and d.datetime_like:
                    outv.append(None if pd.isna(v) else d.length(v))
                else:
                    outv.append(val(v))
            return ("vals", outv)
        if cmd == "rolling":
            _, r, l, rr, lo, hi = toks
            f = self.get(r)
            kw = {}
            if not (lo == "none" and hi == "none"):
                kw["where"] = self.window(lo, hi, o.get("win", "tuple"))
            res = f.rolling_mean(window=(d.delta(F(l)), d.delta(F(rr))), **kw)
            return ("pairs", [(self.tick(k), val(v)) for k, v in res.items()])
        if cmd == "describe":
            _, r, lo, hi = toks[:4]
            ps = [F(t) for t in toks[4:]]
            f = self.get(r)
            kw = {}
            if not (lo == "none" and hi == "none"):
                kw["where"] = self.window(lo, hi, o.get("win", "tuple"))
            if ps or o.get("percs") == "explicit":
                kw["percentiles"] = [num(p) for p in ps]
            else:
                ps = [F(25), F(50), F(75)]
            res = f.describe(**kw)
            outv = []
            for key in ["mean", "std", "min", "max"] + [f"{num(p)}%" for p in ps]:
                x = res[key]
                if not isinstance(x, (int, float, np.integer, np.floating)):
                    return ("err", "Other:NotANumber:" + key)
                v = val(x)
                if key == "std" and v is not None and not isinstance(v, str):
                    v = Fraction(float(x) ** 2) if x >= 0 else "negative-std"
                outv.append(v)
            return ("vals", outv)
        if cmd in ("cov", "corr"):
            _, a, b, lo, hi, lag, cp = toks
            f, g = self.get(a), self.get(b)
            kw = {}
            if not (lo == "none" and hi == "none"):
                kw["where"] = self.window(lo, hi, o.get("win", "tuple"))
            if F(lag) != 0:
                kw["lag"] = d.delta(F(lag))
                kw["clip"] = cp
            res = f.cov(g, **kw) if cmd == "cov" else f.corr(g, **kw)
            return ("vals", [val(res)])
        raise ValueError("bad statement: " + " ".join(toks))

    # ------------------------------------------------------------------ pieces
    def views(self, f):
        """all structural views of the object itself, cross-checked against each other (C03)"""
        frame = f.to_frame()
        pts = list(f.step_points)
        sv = f.step_values
        scs = f.step_changes
        init = f.initial_value
        n = f.number_of_steps
        starts, ends, values = list(frame["start"]), list(frame["end"]), list(frame["value"])
        if n != len(pts):
            return ("err", "views:number_of_steps")
        if len(starts) != n + 1 or starts[0] is not -sc.inf or ends[-1] is not sc.inf:
            return ("err", "views:frame-ends")
        if starts[1:] != ends[:-1] or [self.tick(x) for x in starts[1:]] != [self.tick(p) for p in pts]:
            return ("err", "views:frame-tiling")
        ticks = [self.tick(p) for p in pts]
        if any(a >= b for a, b in zip(ticks, ticks[1:])):
            return ("err", "views:not-increasing")
        if not _same(values[0], init):
            return ("err", "views:initial_value")
        if len(sv) != n or any(not _same(a, b) for a, b in zip(values[1:], list(sv.values))):
            return ("err", "views:step_values")
        if [self.tick(x) for x in sv.index] != ticks or [self.tick(x) for x in scs.index] != ticks:
            return ("err", "views:index")
        if len(scs) != n:
            return ("err", "views:step_changes-length")
        allv = [init] + list(sv.values)
        if not any(pd.isna(v) for v in allv):
            run = float(init)
            for dlt, v in zip(list(scs.values), list(sv.values)):
                run += float(dlt)
                if abs(run - float(v)) > 1e-9:
                    return ("err", "views:step_changes-sum")
        rows = [(t, val(v)) for t, v in zip(ticks, values[1:])]
        return ("frame", "L" if f.closed == "left" else "R", val(init), rows)

    def binop(self, op, x, y, form):
        import operator as _op
        dunder = {"add": _op.add, "sub": _op.sub, "mul": _op.mul, "div": _op.truediv,
                  "lt": _op.lt, "le": _op.le, "gt": _op.gt, "ge": _op.ge, "eq": _op.eq, "ne": _op.ne,
                  "and": _op.and_, "or": _op.or_, "xor": _op.xor}
        meth = {"add": "add", "sub": "subtract", "mul": "multiply", "div": "divide",
                "lt": "lt", "le": "le", "gt": "gt", "ge": "ge", "eq": "eq", "ne": "ne",
                "and": "logical_and", "or": "logical_or", "xor": "logical_xor"}
        rmeth = {"add": "radd", "sub": "rsubtract", "mul": "rmultiply", "div": "rdivide",
                 "and": "logical_rand", "or": "logical_ror", "xor": "logical_rxor"}
        xs, ys = isinstance(x, (sc.Stairs, sc.StairsArray)), isinstance(y, (sc.Stairs, sc.StairsArray))
        if not xs and not ys:
            raise ValueError("two scalars")
        if form == "method":
            if xs:
                return getattr(x, meth[op])(y)
            if op in rmeth:
                return getattr(y, rmeth[op])(x)
            return dunder[op](x, y)
        return dunder[op](x, y)

    @staticmethod
    def _check_index(res, pts):
        """include_index=True: the result is indexed by the query points themselves (same labels, timezone kept)"""
        if not hasattr(res, "index"):
            raise ValueError("include_index: result has no index")
        labels = list(res.index)
        if len(labels) != len(pts):
            raise ValueError("include_index: index length differs from the query")
        for a, b in zip(labels, pts):
            try:
                if isinstance(b, (pd.Timestamp, np.datetime64)) or hasattr(b, "tzinfo"):
                    a, b = pd.Timestamp(a), pd.Timestamp(b)
                    same = (a.tzinfo is None) == (b.tzinfo is None) and a == b
                elif isinstance(b, (pd.Timedelta, np.timedelta64)) or hasattr(b, "total_seconds"):
                    same = pd.Timedelta(a) == pd.Timedelta(b)
                else:
                    same = bool(a == b)
            except TypeError:
                same = False
            if not same:
                raise ValueError(f"include_index: label {a!r} differs from the query point {b!r}")

    def evaluate(self, call, xs, form):
        d = self.dom
        pts = [d.pt(x) for x in xs]
        if form == "scalar" or not pts:
            return [val(call(p)) for p in pts]
        if form == "list":
            res = call(pts)
        elif form == "array":
            res = call(np.array(pts) if not d.datetime_like else pd.Series(pts).values)
        elif form == "series":
            res = call(pd.Series(pts))
        elif form == "index":
            res = call(pts, include_index=True)
            self._check_index(res, pts)
            return [val(v) for v in list(getattr(res, "values", res))]
        elif form == "indexscalar":
            out = []
            for p in pts:
                res = call(p, include_index=True)
                vals_ = list(getattr(res, "values", [res]))
                if len(vals_) != 1:
                    raise ValueError("include_index with a scalar must give one value")
                self._check_index(res, [p])
                out.append(val(vals_[0]))
            return out
        else:
            raise ValueError(form)
        return [val(v) for v in list(res)]

    def vec_args(self, starts, ends, vals, o):
        d = self.dom
        route = o.get("route", "list")
        sa = [d.opt(s) for s in starts]
        ea = [d.opt(e) for e in ends]
        if o.get("trime") == "1":
            while ea and ea[-1] is None:
                ea = ea[:-1]
        if o.get("trims") == "1":
            while sa and sa[-1] is None:
                sa = sa[:-1]
        va = [num(v) for v in vals]
        if d.datetime_like:
            nat = pd.NaT
            sa = [nat if s is None else s for s in sa]
            ea = [nat if e is None else e for e in ea]
        else:
            if any(s is None for s in sa):
                sa = [np.nan if s is None else float(s) for s in sa]
            if any(e is None for e in ea):
                ea = [np.nan if e is None else float(e) for e in ea]
        if o.get("allone") == "1" and all(v == 1 for v in vals):
            va = None
        if route == "tuple":
            return tuple(sa), tuple(ea), (tuple(va) if va is not None else None)
        if route == "ndarray":
            # tz-aware points cannot live in a plain ndarray without losing the zone: use the index class
            if d.name.startswith("td"):
                mk = pd.TimedeltaIndex
            elif d.datetime_like:
                mk = pd.DatetimeIndex
            else:
                mk = np.array
            return mk(sa), mk(ea), (np.array(va) if va is not None else None)
        if route == "series":
            n = max(len(sa), len(ea))
            return (pd.Series(sa, index=range(10, 10 + len(sa))), pd.Series(ea, index=range(5, 5 + len(ea))),
                    (pd.Series(va, index=range(100, 100 + n)) if va is not None else None))
        return sa, ea, va

    def layer_vector(self, f, starts, ends, vals, o):
        route = o.get("route", "list")
        if route == "frame":
            d = self.dom
            sa, ea, va = self.vec_args(starts, ends, vals, dict(o, route="list"))
            n = len(vals)
            df = pd.DataFrame({"s": pd.Series(sa), "e": pd.Series(ea), "v": pd.Series(va if va is not None else [1] * n)})
            return f.layer("s", "e", "v", frame=df)
        sa, ea, va = self.vec_args(starts, ends, vals, o)
        if va is None:
            return f.layer(sa, ea)
        return f.layer(sa, ea, va)

    def aggregate(self, name, members, container):
        if container == "tuple":
            coll = tuple(members)
        elif container == "dict":
            coll = {i: m for i, m in enumerate(members)}
        elif container == "ndarray":
            coll = np.array(members, dtype=object)
        elif container == "series":
            coll = pd.Series(members)
        elif container == "sarray":
            coll = sc.StairsArray(members)
            return getattr(coll, name)()
        elif container == "accessor":
            ser = pd.Series(members, dtype="Stairs")
            if name.startswith("logical"):
                return getattr(ser.sc, name)()
            return getattr(ser, name)()      # Series reductions dispatch to StairsArray._reduce
        else:
            coll = list(members)
        return getattr(sc, name)(coll)

    def stat(self, f, name, lo, hi, c, o):
        d = self.dom
        nowin = lo == "none" and hi == "none"
        if name == "minmax":
            # the list form of agg with both extremes at once
            kw = {}
            if not nowin:
                kw["where"] = self.window(lo, hi, o.get("win", "tuple"))
            if c != "default":
                kw["closed"] = c
            res = f.agg(["min", "max"], **kw)
            return ("vals", [val(res["min"]), val(res["max"])])
        via = o.get("via", "agg" if not nowin or c != "default" else "method")
        pyname = {"modes": "mode"}.get(name, name)
        if name == "std2":
            pyname = "std"
        if via == "method" and nowin and c == "default":
            res = getattr(f, pyname)()
        elif via == "clipmethod" and name not in ("min", "max"):
            g = f if nowin else f.clip(d.opt(optF(lo)), d.opt(optF(hi)))
            res = getattr(g, pyname)()
        else:
            kw = {}
            if not nowin:
                kw["where"] = self.window(lo, hi, o.get("win", "tuple"))
            if c != "default":
                kw["closed"] = c
            if o.get("aggform") == "list":
                res = f.agg([pyname], **kw)[pyname]
            else:
                res = f.agg(pyname, **kw)
        if name == "integral" and d.datetime_like:
            res = None if (res is None or pd.isna(res)) else d.length(res)
            return ("vals", [res])
        if name == "std2":
            v = val(res)
            if v is None or isinstance(v, str):
                return ("vals", [v])
            if v < 0:
                return ("vals", ["negative-std"])
            return ("vals", [Fraction(float(res) ** 2)])
        return ("vals", [val(res)])
