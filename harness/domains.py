"""Domain maps: ticks (exact rationals) <-> concrete staircase domains (C17's configurations)."""
from fractions import Fraction
import datetime
import numpy as np
import pandas as pd

NS_PER_TICK = 3600 * 10**9  # one tick = one hour on datetime-like domains


class Domain:
    name = "?"
    datetime_like = False

    def pt(self, q):            # tick -> domain point
        raise NotImplementedError

    def tick(self, x):          # domain point -> tick (Fraction)
        raise NotImplementedError

    def delta(self, q):         # tick difference -> domain difference (shift, lag, window)
        raise NotImplementedError

    def length(self, L):        # domain length -> ticks
        raise NotImplementedError

    def opt(self, q):
        return None if q is None else self.pt(q)


class IntDomain(Domain):
    name = "int"

    def pt(self, q):
        q = Fraction(q)
        return int(q) if q.denominator == 1 else float(q)

    def tick(self, x):
        return Fraction(x)

    delta = pt

    def length(self, L):
        return Fraction(L)


class FloatDomain(IntDomain):
    name = "float"

    def pt(self, q):
        return float(Fraction(q))

    delta = pt


class NpDomain(IntDomain):
    """numpy scalar flavour of numeric points"""
    name = "npfloat"

    def pt(self, q):
        return np.float64(float(Fraction(q)))

    delta = pt


class DtDomain(Domain):
    name = "dt"
    datetime_like = True
    origin = pd.Timestamp("2020-01-01")
    unit_ns = NS_PER_TICK

    def _ns(self, q):
        n = Fraction(q) * self.unit_ns
        assert n.denominator == 1, q
        return int(n)

    def pt(self, q):
        return self.origin + pd.Timedelta(self._ns(q), unit="ns")

    def tick(self, x):
        x = pd.Timestamp(x)
        if x.tzinfo is not None and self.origin.tzinfo is None:
            x = x.tz_convert(None)
        return Fraction(int((x - self.origin).value), self.unit_ns)

    def delta(self, q):
        return pd.Timedelta(self._ns(q), unit="ns")

    def length(self, L):
        return Fraction(int(pd.Timedelta(L).value), self.unit_ns)


class DtBigDomain(DtDomain):
    """one tick = 365 days: value x length overflows int64 nanoseconds for values in the hundreds, which sends
    integral/mean through the library's overflow fallback"""
    name = "dtbig"
    origin = pd.Timestamp("1900-01-01")
    unit_ns = 365 * 24 * NS_PER_TICK


class DtNsDomain(DtDomain):
    """one tick = 8 ns, origin with a sub-microsecond part: every point carries nanoseconds (conversions through
    python datetime / microsecond resolution lose them).  Only used for evaluation, windows and masking - value x length
    would be quantised to 1 ns."""
    name = "dtns"
    origin = pd.Timestamp("2020-01-01 00:00:00.000000003")
    unit_ns = 8


class TzDomain(DtDomain):
    name = "tz"
    # DST ends 2020-04-05 03:00 local = tick 7: pieces spanning it have a wall-clock length that differs from the
    # elapsed length, and local times between tick 6 and tick 8 are ambiguous
    origin = pd.Timestamp("2020-04-04 20:00", tz="Australia/Sydney")


class TzFixedDomain(DtDomain):
    name = "tzfixed"
    origin = pd.Timestamp("2020-01-01", tz=datetime.timezone(datetime.timedelta(hours=5, minutes=30)))


class PyDtDomain(DtDomain):
    """python datetime flavour of the naive timestamp domain"""
    name = "pydt"

    def pt(self, q):
        ns = self._ns(q)
        if ns % 1000 == 0:
            return (self.origin + pd.Timedelta(ns, unit="ns")).to_pydatetime()
        return self.origin + pd.Timedelta(ns, unit="ns")


class NpDtDomain(DtDomain):
    """numpy datetime64 flavour"""
    name = "npdt"

    def pt(self, q):
        return (self.origin + pd.Timedelta(self._ns(q), unit="ns")).to_datetime64()


class TdDomain(Domain):
    name = "td"
    datetime_like = True
    unit_ns = NS_PER_TICK

    def _ns(self, q):
        n = Fraction(q) * self.unit_ns
        assert n.denominator == 1, q
        return int(n)

    def pt(self, q):
        return pd.Timedelta(self._ns(q), unit="ns")

    def tick(self, x):
        return Fraction(int(pd.Timedelta(x).value), self.unit_ns)

    delta = pt

    def length(self, L):
        return Fraction(int(pd.Timedelta(L).value), self.unit_ns)


class TdBigDomain(TdDomain):
    name = "tdbig"
    unit_ns = 365 * 24 * NS_PER_TICK


DOMAINS = {d.name: d for d in [IntDomain(), FloatDomain(), NpDomain(), DtDomain(), DtNsDomain(), DtBigDomain(), TdBigDomain(), TzDomain(),
                               TzFixedDomain(), PyDtDomain(), NpDtDomain(), TdDomain()]}
