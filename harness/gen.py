"""Program generators (seeded).  A program is dict(lines=[...], domain=str, focus=[statement indices
whose results are compared], tags={...}).  Ticks are exact rationals written as `n` or `n/d`."""
import itertools
import random
from fractions import Fraction

DOMS_ALL = ["int", "float", "npfloat", "dt", "tz", "tzfixed", "pydt", "npdt", "td"]
DOMS_MAIN = ["int", "float", "dt", "tz", "td"]

BINOPS_ARITH = ["add", "sub", "mul", "div"]
BINOPS_REL = ["lt", "le", "gt", "ge", "eq", "ne"]
BINOPS_LOGIC = ["and", "or", "xor"]
UNOPS = ["neg", "invert", "make_boolean", "isna", "notna"]


def fs(q):
    if q is None:
        return "none"
    q = Fraction(q)
    return str(q.numerator) if q.denominator == 1 else f"{q.numerator}/{q.denominator}"


def vs(v):
    return "nan" if v is None else fs(v)


class Spec:
    """a step function: closed 'L'/'R', init (Fraction|None), rows [(tick, Fraction|None)]"""

    def __init__(self, closed, init, rows):
        self.closed, self.init, self.rows = closed, init, list(rows)

    def has_nan(self):
        return self.init is None or any(v is None for _, v in self.rows)

    def points(self):
        return [p for p, _ in self.rows]

    def key(self):
        return (self.closed, self.init, tuple(self.rows))

    def is_minimal(self):
        prev = self.init
        for _, v in self.rows:
            if v == prev:
                return False
            prev = v
        return True


def universe(k, pts, vals, closed="L", minimal_only=True):
    """every step function with <= k steps at points in pts, values/init in vals + NaN"""
    allv = list(vals) + [None]
    out = []
    for n in range(k + 1):
        for ps in itertools.combinations(pts, n):
            for init in allv:
                for vv in itertools.product(allv, repeat=n):
                    s = Spec(closed, init, list(zip(ps, vv)))
                    if minimal_only and not s.is_minimal():
                        continue
                    out.append(s)
    return out


DYADIC = [Fraction(n, 2) for n in range(-6, 7)]


def rand_spec(rng, closed=None, maxsteps=6, span=10, nanp=0.25, vals=None, stepfree_p=0.1, quarter=False):
    closed = closed or rng.choice("LR")
    vals = vals or DYADIC

    def rv():
        return None if rng.random() < nanp else rng.choice(vals)
    if rng.random() < stepfree_p:
        return Spec(closed, rv(), [])
    n = rng.randint(1, maxsteps)
    grid = [Fraction(i, 2) for i in range(0, 2 * span + 1)] if quarter else list(range(0, span + 1))
    pts = sorted(rng.sample(grid, min(n, len(grid))))
    init = rv()
    rows = []
    prev = init
    for p in pts:
        v = rv()
        tries = 0
        while v == prev and tries < 5:
            v = rv()
            tries += 1
        rows.append((Fraction(p), v))
        prev = v
    return Spec(closed, init, rows)


class Builder:
    def __init__(self, domain="int"):
        self.lines = []
        self.focus = []
        self.domain = domain
        self.n = 0
        self.pts = set()
        self.tags = {}

    def reg(self, prefix="r"):
        self.n += 1
        return f"{prefix}{self.n}"

    def add(self, line, focus=False):
        self.lines.append(line)
        if focus:
            self.focus.append(len(self.lines) - 1)
        return len(self.lines) - 1

    def note_points(self, pts):
        self.pts.update(Fraction(p) for p in pts if p is not None)

    def critical(self, extra=()):
        pts = set(self.pts) | set(Fraction(x) for x in extra)
        if not pts:
            pts = {Fraction(0)}
        s = sorted(pts)
        crit = set(s)
        for a, b in zip(s, s[1:]):
            crit.add((a + b) / 2)
        crit.add(s[0] - 1)
        crit.add(s[-1] + 1)
        crit.add(s[0] - 50)
        crit.add(s[-1] + 50)
        return sorted(crit)

    def program(self):
        return dict(lines=self.lines, domain=self.domain, focus=self.focus, tags=self.tags)

    # -------------------------------------------------------------- construction routes
    def emit(self, spec, route, rng, reg=None):
        """build `spec` in a fresh register by the given route; returns the register"""
        r = reg or self.reg()
        self.note_points(spec.points())
        cl = spec.closed
        if not spec.rows:
            if route in ("layers", "layerv", "ctor") and spec.init is not None and rng.random() < 0.5:
                # step-free with non-zero initial value via an unbounded layer
                self.add(f"new {r} {cl} 0")
                self.add(f"layer {r} none none {vs(spec.init)}")
            else:
                self.add(f"new {r} {cl} {vs(spec.init)}")
            return r
        if route == "fromvalues":
            rows = " ".join(f"{fs(p)}:{vs(v)}" for p, v in spec.rows)
            # the dtype of the Series handed to from_values: float (default), integer, boolean
            opt = ""
            vals_ = [v for _, v in spec.rows]
            if all(v is not None and v in (0, 1) for v in vals_) and rng.random() < 0.4:
                opt = " ;; vdtype=bool"
            elif all(v is not None and Fraction(v).denominator == 1 for v in vals_) and rng.random() < 0.3:
                opt = " ;; vdtype=" + ("uint8" if all(0 <= v < 256 for v in vals_) and rng.random() < 0.5 else "int")
            self.add(f"fromvalues {r} {cl} {vs(spec.init)} {rows}" + opt)
            return r
        # delta routes need a NaN-free function; NaN pieces are cut out afterwards by a mask
        base_init = spec.init if spec.init is not None else Fraction(0)
        rows = [(p, v if v is not None else Fraction(0)) for p, v in spec.rows]
        triples = []
        prev = base_init
        for i, (p, v) in enumerate(rows):
            d = v - prev
            prev = v
            if d != 0:
                triples.append((p, None, d))
        # randomly turn some half-lines into bounded intervals (start,end,value)+(end,None,value)
        trip2 = []
        for (p, e, d) in triples:
            if rng.random() < 0.3:
                q = p + rng.choice([1, 2, 3])
                trip2.append((p, q, d))
                trip2.append((q, None, d))
                self.note_points([q])
            else:
                trip2.append((p, e, d))
        rng.shuffle(trip2)
        target = r if not spec.has_nan() else self.reg("b")
        if route == "layers":
            self.add(f"new {target} {cl} {vs(base_init)}")
            for (p, e, d) in trip2:
                self.add(f"layer {target} {fs(p)} {fs(e)} {fs(d)}")
        elif route == "layerv":
            self.add(f"new {target} {cl} {vs(base_init)}")
            if trip2:
                opts = rng.choice(["route=list", "route=tuple", "route=ndarray", "route=series", "route=frame"])
                self.add(f"layerv {target} " + " ".join(f"{fs(p)}:{fs(e)}:{fs(d)}" for p, e, d in trip2) + f" ;; {opts}")
        elif route == "ctor":
            if trip2:
                self.add(f"ctor {target} {cl} {vs(base_init)} " + " ".join(f"{fs(p)}:{fs(e)}:{fs(d)}" for p, e, d in trip2))
            else:
                self.add(f"new {target} {cl} {vs(base_init)}")
        else:
            raise ValueError(route)
        if spec.has_nan():
            m = self.reg("m")
            mrows = " ".join(f"{fs(p)}:{1 if v is None else 0}" for p, v in spec.rows)
            self.add(f"fromvalues {m} {cl} {1 if spec.init is None else 0} {mrows}")
            self.add(f"mask {r} {target} {m}")
        return r

    def emit_any(self, spec, rng, reg=None):
        route = rng.choice(["fromvalues", "fromvalues", "layers", "layerv", "ctor"])
        r = self.emit(spec, route, rng, reg)
        t = rng.random()
        if t < 0.15:
            self.add(f"touch {r} deltas")
        elif t < 0.3:
            self.add(f"touch {r} values")
        elif t < 0.4:
            self.add(f"touch {r} both")
        elif t < 0.45:
            self.add(f"touch {r} stat")
        elif t < 0.55:
            r2 = self.reg()
            self.add(f"copy {r2} {r}")
            r = r2
        self.tags.setdefault("routes", []).append(route)
        return r

    def observe(self, r, extra=(), closed=False):
        self.add(f"frame {r}", focus=True)
        self.add(f"consistent {r}", focus=True)
        self.add(f"stepchanges {r}", focus=True)
        xs = " ".join(fs(x) for x in self.critical(extra))
        self.add(f"limit {r} left {xs}", focus=True)
        self.add(f"limit {r} right {xs}", focus=True)
        self.add(f"sample {r} {xs}", focus=True)      # the value AT each point (depends on the result's closed side)


def scalar_token(rng, allow_nan=True, vals=None):
    vals = vals or [Fraction(0), Fraction(1), Fraction(-1), Fraction(2), Fraction(-3, 2), Fraction(1, 2), Fraction(5)]
    if allow_nan and rng.random() < 0.12:
        return "#nan"
    return "#" + fs(rng.choice(vals))


def pick_domain(rng, main_only=True):
    return rng.choice(DOMS_MAIN if main_only else DOMS_ALL) if rng.random() < 0.5 else "int"


def gen_binop_programs(rng, n, ops, small, domain_mix=True):
    """programs `h = a op b` with observation of h; operands Stairs or scalars, all routes"""
    progs = []
    for i in range(n):
        b = Builder(pick_domain(rng) if domain_mix else "int")
        op = rng.choice(ops)
        cl = rng.choice("LR")
        mode = rng.random()
        if small:
            f = rng.choice(small)
            g = rng.choice(small)
            f = Spec(cl, f.init, f.rows)
            g = Spec(cl, g.init, g.rows)
        else:
            f = rand_spec(rng, cl)
            g = rand_spec(rng, cl)
        if not f.rows and rng.random() < 0.5:
            f.closed = rng.choice("LR")
        if not g.rows and rng.random() < 0.5:
            g.closed = rng.choice("LR")
        if mode < 0.6:
            a = b.emit_any(f, rng)
            c = b.emit_any(g, rng)
        elif mode < 0.8:
            a = b.emit_any(f, rng)
            c = scalar_token(rng)
        else:
            a = scalar_token(rng)
            c = b.emit_any(g, rng)
        h = b.reg("h")
        opts = []
        if rng.random() < 0.4:
            opts.append("form=method")
        if rng.random() < 0.4:
            opts.append("sf=" + rng.choice(["npf", "npi", "pyf", "py"]))
        b.add(f"bin {h} {op} {a} {c}" + (" ;; " + " ".join(opts) if opts else ""), focus=True)
        b.observe(h)
        b.tags.update(op=op, mode="ss" if mode < 0.6 else ("s#" if mode < 0.8 else "#s"))
        progs.append(b.program())
    return progs


def gen_unop_programs(rng, n, ops, small):
    progs = []
    for i in range(n):
        b = Builder(pick_domain(rng))
        op = rng.choice(ops)
        f = rng.choice(small) if small and rng.random() < 0.5 else rand_spec(rng)
        f = Spec(rng.choice("LR"), f.init, f.rows)
        a = b.emit_any(f, rng)
        h = b.reg("h")
        b.add(f"un {h} {op} {a}" + (" ;; form=dunder" if rng.random() < 0.5 else ""), focus=True)
        b.observe(h)
        b.tags.update(op=op, mode="un")
        progs.append(b.program())
    return progs
