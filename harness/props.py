"""Registry: per property, the program generator, the comparison mode and the anchored sources."""
import json
import os

import gen

ROOT = os.path.dirname(os.path.dirname(os.path.abspath(__file__)))


class PropCheck:
    def __init__(self, generate, mode=None, anchors=(), exhaustive=False):
        self.generate = generate
        self.mode = mode or dict(normalise=True, closed=False)
        self.anchors = list(anchors)
        self.exhaustive = exhaustive


def load_corpus(prop):
    d = os.path.join(ROOT, "corpus", prop)
    out = []
    if os.path.isdir(d):
        for fn in sorted(os.listdir(d)):
            if fn.endswith(".json"):
                p = json.load(open(os.path.join(d, fn)))
                out.append(dict(lines=p["lines"], domain=p.get("domain", "int"), focus=p.get("focus", []),
                                tags=dict(p.get("tags", {}), corpus=fn)))
    return out


def budget(tier, quick, thorough):
    return thorough if tier == "thorough" else quick


SMALL = gen.universe(2, [2, 4, 6], [0, 1, -1, 2])


def gen_c01(rng, tier):
    n = budget(tier, 1200, 20000)
    progs = gen.gen_binop_programs(rng, n // 2, gen.BINOPS_ARITH, SMALL)
    progs += gen.gen_binop_programs(rng, n // 3, gen.BINOPS_ARITH, None)
    progs += gen.gen_unop_programs(rng, n // 6, ["neg"], SMALL)
    return progs


ARITH_ANCHORS = ["staircase/core/ops/arithmetic.py", "staircase/core/ops/common.py", "staircase/core/ops/rops.py",
                 "staircase/util/__init__.py", "staircase/core/stairs.py"]

PROPS = {
    "C01": PropCheck(gen_c01, anchors=ARITH_ANCHORS),
}
