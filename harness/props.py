"""Registry: per property, the program generator, the comparison mode and the anchored sources."""
import json
import os

import gen
import gen2

ROOT = os.path.dirname(os.path.dirname(os.path.abspath(__file__)))


class PropCheck:
    def __init__(self, generate, mode=None, anchors=(), exhaustive=False):
        self.generate = generate
        self.mode = mode or dict(normalise=True, closed=False)
        self.anchors = list(anchors)
        self.exhaustive = exhaustive


def load_corpus(prop):
    d = os.path.join(ROOT, "corpus", prop)
    out = []
    if os.path.isdir(d):
        for fn in sorted(os.listdir(d)):
            if fn.endswith(".json"):
                p = json.load(open(os.path.join(d, fn)))
                out.append(dict(lines=p["lines"], domain=p.get("domain", "int"), focus=p.get("focus", []),
                                tags=dict(p.get("tags", {}), corpus=fn)))
    return out


def B(tier, quick, thorough):
    return thorough if tier == "thorough" else quick


def gen_c01(rng, tier):
    n = B(tier, 900, 20000)
    return (gen2.gen_pointwise(rng, n, gen.BINOPS_ARITH) + gen2.gen_unary(rng, n // 6, ["neg"]) +
            gen2.gen_tolerance_block(rng, B(tier, 60, 1000), ["arith"]))


def gen_c02(rng, tier):
    return gen2.gen_c02(rng, tier, B(tier, 350, 8000), B(tier, 300, 2304))   # thorough: all 48 x 48 two-call histories


def gen_c03(rng, tier):
    return gen2.gen_c03(rng, B(tier, 700, 12000))


def gen_c04(rng, tier):
    return (gen2.gen_pointwise(rng, B(tier, 600, 12000), gen.BINOPS_REL, followups=True, requery_p=0.3) +
            gen2.gen_tolerance_block(rng, B(tier, 60, 1000), ["rel"]) + gen2.gen_decimal_block(rng, B(tier, 100, 1500)) +
            gen2.gen_rel_constants(rng, B(tier, 48, 720)))


def gen_c05(rng, tier):
    n = B(tier, 700, 12000)
    sv = [gen2.Fraction(x) for x in (0, 0, 1, -2, gen2.Fraction(1, 2))]
    return (gen2.gen_pointwise(rng, n, gen.BINOPS_LOGIC, scalar_vals=sv) +
            gen2.gen_unary(rng, n // 4, ["invert", "make_boolean"]) +
            gen2.gen_tolerance_block(rng, B(tier, 40, 600), ["logic"]))


def gen_c06(rng, tier):
    return gen2.gen_c06(rng, B(tier, 900, 15000)) + gen2.gen_tolerance_block(rng, B(tier, 50, 800), ["mask"])


def gen_c07(rng, tier):
    return gen2.gen_c07(rng, B(tier, 900, 15000))


def gen_c08(rng, tier):
    return (gen2.gen_c08(rng, B(tier, 500, 8000)) + gen2.gen_overflow_block(rng, B(tier, 60, 600)) +
            gen2.gen_offset_block(rng, B(tier, 60, 600)) + gen2.gen_tiny_stats(rng, B(tier, 40, 400), ["moments"]))


def gen_c09(rng, tier):
    return gen2.gen_c09(rng, B(tier, 350, 6000)) + gen2.gen_tiny_stats(rng, B(tier, 30, 300), ["dist", "moments"])


def gen_c10(rng, tier):
    progs = (gen2.gen_c10(rng, B(tier, 350, 4000)) + gen2.gen_tiny_stats(rng, B(tier, 20, 200), ["dist"]) +
             gen2.gen_slicer_extrema(rng, B(tier, 40, 600)))
    if tier == "thorough":
        progs += gen2.gen_c10(rng, 0, exhaustive=True)
    return progs


def gen_c11(rng, tier):
    return gen2.gen_c11(rng, B(tier, 350, 6000))


def gen_c12(rng, tier):
    return gen2.gen_c12(rng, B(tier, 600, 12000)) + gen2.gen_tolerance_block(rng, B(tier, 60, 1000), ["ident", "arith", "mask"])


def gen_c13(rng, tier):
    return gen2.gen_c13(rng, B(tier, 400, 8000)) + gen2.gen_c13_chain(rng, B(tier, 150, 3000))


def gen_c14(rng, tier):
    return gen2.gen_c14(rng, B(tier, 400, 8000))


def gen_c15(rng, tier):
    if tier == "thorough":
        return gen2.gen_c15(rng, 6000, exhaustive=True)
    return gen2.gen_c15(rng, 1500, exhaustive=True)


def gen_c16(rng, tier):
    # (the chain block: composed histories result -> copy / shift / fill -> in-place layer; all objects stay first-class)
    return (gen2.gen_c16(rng, B(tier, 350, 6000)) + gen2.gen_c13_chain(rng, B(tier, 80, 1500)) +
            gen2.gen_decimal_block(rng, B(tier, 40, 600)))


def gen_c17(rng, tier):
    k = B(tier, 25, 400)
    base = (gen2.gen_pointwise(rng, k * 2, gen.BINOPS_ARITH + gen.BINOPS_REL + gen.BINOPS_LOGIC) +
            gen2.gen_c02(rng, tier, k, k) + gen2.gen_c03(rng, k) + gen2.gen_c06(rng, k) + gen2.gen_c07(rng, k) +
            gen2.gen_c08(rng, k) + gen2.gen_c09(rng, k) + gen2.gen_c10(rng, k) + gen2.gen_c11(rng, k) +
            gen2.gen_c18(rng, k) + gen2.gen_c19(rng, k) + gen2.gen_c20(rng, k))
    return (gen2.across_domains(base, rng, per=B(tier, 2, 8)) + gen2.gen_overflow_block(rng, B(tier, 60, 600)) +
            gen2.gen_single_stepped(rng, B(tier, 36, 360), gen.DOMS_ALL) + gen2.gen_c11_periods(rng, B(tier, 24, 240)))


def gen_c18(rng, tier):
    return gen2.gen_c18(rng, B(tier, 600, 10000))


def gen_c19(rng, tier):
    return (gen2.gen_c19(rng, B(tier, 250, 4000)) + gen2.gen_tiny_stats(rng, B(tier, 40, 400), ["cov"]) +
            gen2.gen_cov_overflow(rng, B(tier, 50, 500)))


def gen_c20(rng, tier):
    return gen2.gen_c20(rng, B(tier, 500, 8000))


OPS = "staircase/core/ops/"
A_STAIRS = "staircase/core/stairs.py"
A_UTIL = "staircase/util/__init__.py"

PROPS = {
    "C01": PropCheck(gen_c01, anchors=[OPS + "arithmetic.py", OPS + "common.py", OPS + "rops.py", A_UTIL, A_STAIRS]),
    "C02": PropCheck(gen_c02, anchors=["staircase/core/layering.py", A_STAIRS], exhaustive=True),
    "C03": PropCheck(gen_c03, mode=dict(normalise=False, closed=True), anchors=["staircase/core/sampling.py", A_STAIRS, A_UTIL]),
    "C04": PropCheck(gen_c04, anchors=[OPS + "relational.py", OPS + "common.py"]),
    "C05": PropCheck(gen_c05, anchors=[OPS + "logical.py", OPS + "common.py"]),
    "C06": PropCheck(gen_c06, anchors=[OPS + "masking.py", OPS + "common.py"]),
    "C07": PropCheck(gen_c07, anchors=[OPS + "masking.py"]),
    "C08": PropCheck(gen_c08, anchors=["staircase/core/stats/statistic.py", "staircase/core/stats/distribution.py"]),
    "C09": PropCheck(gen_c09, anchors=["staircase/core/stats/distribution.py", "staircase/core/stats/statistic.py", A_STAIRS]),
    "C10": PropCheck(gen_c10, anchors=["staircase/core/stats/statistic.py", A_UTIL, OPS + "masking.py", "staircase/constants.py"], exhaustive=True),
    "C11": PropCheck(gen_c11, anchors=["staircase/core/slicing.py", OPS + "masking.py", "staircase/core/stats/statistic.py"]),
    "C12": PropCheck(gen_c12, mode=dict(normalise=False, closed=False),
                     anchors=[A_STAIRS, OPS + "relational.py", OPS + "arithmetic.py", OPS + "masking.py", "staircase/core/layering.py"]),
    "C13": PropCheck(gen_c13, mode=dict(normalise=True, closed=True),
                     anchors=[A_UTIL, A_STAIRS, "staircase/core/layering.py", OPS + "masking.py", OPS + "arithmetic.py"]),
    "C14": PropCheck(gen_c14, anchors=[A_STAIRS, "staircase/core/layering.py", "staircase/core/stats/statistic.py",
                                       "staircase/core/stats/distribution.py", "staircase/core/accessor.py"]),
    "C15": PropCheck(gen_c15, mode=dict(normalise=True, closed=True),
                     anchors=[OPS + "common.py", "staircase/core/exceptions/__init__.py", OPS + "masking.py", A_STAIRS,
                              "staircase/core/arrays/extension.py", "staircase/core/slicing.py"], exhaustive=True),
    "C16": PropCheck(gen_c16, anchors=[A_STAIRS, OPS + "arithmetic.py", OPS + "common.py", OPS + "relational.py", "staircase/core/layering.py"]),
    "C17": PropCheck(gen_c17, anchors=["staircase/core/sampling.py", OPS + "masking.py", "staircase/core/stats/statistic.py",
                                       "staircase/core/layering.py", "staircase/core/slicing.py", "staircase/core/arrays/extension.py", A_UTIL]),
    "C18": PropCheck(gen_c18, anchors=["staircase/core/arrays/extension.py", "staircase/core/arrays/__init__.py", "staircase/core/arrays/accessor.py"]),
    "C19": PropCheck(gen_c19, anchors=["staircase/core/stats/statistic.py"]),
    "C20": PropCheck(gen_c20, anchors=[A_STAIRS, "staircase/core/slicing.py"]),
}
