"""Runs protocol programs through the Lean model (`lake env lean --run Driver.lean`) and parses its
output lines into the same structured results that impl_runner produces."""
import os
import subprocess
from fractions import Fraction

HERE = os.path.dirname(os.path.abspath(__file__))
LEAN_DIR = os.path.join(os.path.dirname(HERE), "lean")

IMPL_ONLY = {"touch"}


def strip_opts(line):
    i = line.find(";;")
    return (line if i < 0 else line[:i]).strip()


def pval(tok):
    return None if tok == "nan" else Fraction(tok)


def parse(stmt, line):
    """model output line -> structured result, by statement kind"""
    cmd = stmt.split()[0]
    line = line.strip()
    if line.startswith("ERR "):
        return ("err", line[4:])
    if line == "bad-op":
        return ("err", "model-bad-op")
    if cmd == "arrayneg":
        return ("frames", [parse("frame x", part) for part in line.split(" ;; ")])
    if cmd == "slicehist":
        return ("vals", [pval(t) for t in line.split()])
    if cmd == "arraybin":
        return ("frames", [parse("frame x", part) for part in line.split(" ;; ")])
    if cmd == "arraysample":
        return ("vals", [pval(t) for t in line.split()])
    if cmd == "covm":
        if stmt.split()[1] == "cov":
            return ("vals", ["err" if t == "err" else pval(t) for t in line.split()])
        return ("corrpartslist", [None if t == "err" else [pval(x) for x in t.split(",")] for t in line.split()])
    if cmd in ("frame", "rawframe", "views"):
        head, _, rows = line.partition("|")
        cl, init = head.split()
        rr = []
        for t in rows.split():
            p, v = t.split(":")
            rr.append((Fraction(p), pval(v)))
        return ("frame", cl, pval(init), rr)
    if cmd == "hist" and stmt.split()[4:5] == ["unit"]:
        out = []
        for t in line.split():
            iv, v = t.split("=")
            l, r = iv.split(":")
            out.append(((Fraction(l), Fraction(r)), pval(v)))
        return ("pairs", out)
    if cmd in ("limit", "sample", "ecdf", "ecdfs", "perc", "frac", "quant", "hist", "stat", "vir", "cov"):
        return ("vals", [pval(t) for t in line.split()])
    if cmd == "q":
        return ("vals", [pval(t) for t in line.split()])
    if cmd == "slicer":
        name = stmt.split()[2]
        if name == "modes":
            return ("modesets", [None if t == "err" else [Fraction(x) for x in t.split("|")] for t in line.split()])
        return ("vals", ["err" if t == "err" else pval(t) for t in line.split()])
    if cmd == "stepchanges":
        return ("pairs", [(Fraction(t.split(":")[0]), pval(t.split(":")[1])) for t in line.split()])
    if cmd == "deltaroundtrip":
        return parse("frame x", line)
    if cmd == "rolling":
        return ("pairs", [(Fraction(t.split(":")[0]), pval(t.split(":")[1])) for t in line.split()])
    if cmd == "describe":
        return ("vals", [pval(t) for t in line.split()])
    if cmd == "corr":
        return ("corrparts", [pval(t) for t in line.split()])
    if cmd == "vsums":
        return ("pairs", [tuple(Fraction(x) for x in t.split(":")) for t in line.split()])
    if cmd in ("ident", "bool", "nsteps", "closed", "layer", "layerv", "consistent"):
        return ("text", line)
    if line == "ok":
        return ("ok",)
    return ("text", line)


def run_model(programs, timeout=600):
    """programs: list of list-of-lines.  Returns list of list-of-results (aligned with the lines)."""
    sent = []
    layout = []
    for prog in programs:
        sent.append("reset")
        idxs = []
        for line in prog:
            s = strip_opts(line)
            if s.split()[0] in IMPL_ONLY:
                idxs.append(None)
            else:
                idxs.append(len(sent))
                sent.append(s)
        layout.append(idxs)
    proc = subprocess.run(["lake", "env", "lean", "--run", "Driver.lean"], cwd=LEAN_DIR,
                          input="\n".join(sent) + "\n", capture_output=True, text=True, timeout=timeout)
    if proc.returncode != 0:
        raise RuntimeError("model driver failed: " + proc.stderr[-2000:] + proc.stdout[-500:])
    outs = proc.stdout.split("\n")
    if outs and outs[-1] == "":
        outs = outs[:-1]
    if len(outs) != len(sent):
        raise RuntimeError(f"model driver returned {len(outs)} lines for {len(sent)} statements")
    res = []
    for prog, idxs in zip(programs, layout):
        r = []
        for line, i in zip(prog, idxs):
            r.append(("ok",) if i is None else parse(strip_opts(line), outs[i]))
        res.append(r)
    return res
