"""Per-property program generators (C02 … C20).  See gen.py for the building blocks."""
import itertools
from fractions import Fraction

from gen import (BINOPS_ARITH, BINOPS_LOGIC, BINOPS_REL, DOMS_ALL, DOMS_MAIN, DYADIC, UNOPS, Builder, Spec, fs,
                 pick_domain, rand_spec, scalar_token, universe, vs)

SMALL = universe(2, [2, 4, 6], [0, 1, -1, 2])
SMALL3 = universe(3, [1, 2, 3, 4], [0, 1, 2])
SMALL_NONAN = [s for s in SMALL if not s.has_nan()]


def with_closed(spec, cl):
    return Spec(cl, spec.init, spec.rows)


def gap_shape(rng, cl):
    """shapes on which reasoning through step changes goes wrong: a genuine step point whose step change is zero
    (equal values on both sides of an undefined piece; undefined towards minus infinity with first defined value 0)"""
    v = Fraction(rng.choice([2, 1, -3]))
    p0 = Fraction(rng.choice([0, 1, 2]))
    if rng.random() < 0.6:
        return Spec(cl, Fraction(0), [(p0 + 1, v), (p0 + 2, None), (p0 + 3, v), (p0 + 6, Fraction(0))])
    return Spec(cl, None, [(p0 + 1, Fraction(0)), (p0 + 2, Fraction(5)), (p0 + 4, Fraction(0)), (p0 + 6, None)])


def pick_spec(rng, cl=None, small_p=0.5, **kw):
    cl = cl or rng.choice("LR")
    if kw.get("nanp", 0.25) > 0 and kw.get("vals") is None and not kw.get("quarter") and rng.random() < 0.06:
        return gap_shape(rng, cl)
    if rng.random() < small_p:
        return with_closed(rng.choice(SMALL), cl)
    return rand_spec(rng, cl, **kw)


def opt_suffix(opts):
    return (" ;; " + " ".join(opts)) if opts else ""



TINY = Fraction(1, 2 ** 40)
OFFSET = Fraction(2 ** 17)


def gen_tolerance_block(rng, n, kinds):
    """operations on functions whose values are tiny (k * 2^-40) or share a large offset (2^17 + d): equality of
    values means equality, not closeness.  An `isclose`-style tolerance anywhere in the code (zero tests of the
    maskers, redundant-step removal, `==`) merges such values; every observation here is compared with a purely
    relative tolerance (`reltol=1`).  kinds: subset of arith, rel, logic, mask, ident."""
    progs = []
    for _ in range(n):
        mode = rng.choice(["tiny", "tiny", "offset"])
        if mode == "tiny":
            vals = [TINY * k for k in (0, 1, 2, -1, 3, 0)]
            scal = [TINY * k for k in (1, 2, -1)] + [Fraction(0), Fraction(2)]
        else:
            vals = [OFFSET + d for d in (0, 1, 2, -1, Fraction(1, 2))]
            scal = [OFFSET, OFFSET + 1, Fraction(2), Fraction(1, 2)]
        b = Builder(rng.choice(["int", "int", "float", "dt"]))
        cl = rng.choice("LR")
        nanp = rng.choice([0.0, 0.2])
        f = rand_spec(rng, cl, maxsteps=5, span=8, nanp=nanp, vals=vals, stepfree_p=0.0)
        g = rand_spec(rng, cl, maxsteps=4, span=8, nanp=nanp, vals=vals, stepfree_p=0.1)
        A = b.emit(f, rng.choice(["fromvalues", "layers", "layerv"]), rng)
        B = b.emit(g, rng.choice(["fromvalues", "layers", "layerv"]), rng)
        if rng.random() < 0.3:
            b.add(f"touch {A} {rng.choice(['deltas', 'values', 'both'])}")
        c = "#" + fs(rng.choice(scal))
        h = b.reg("h")
        kind = rng.choice(kinds)
        if kind == "arith":
            op = rng.choice(BINOPS_ARITH)
            x, y = rng.choice([(A, B), (A, B), (A, c), (c, A)])
            if op == "div" and mode == "tiny":
                # 1 / tiny is huge: mixing 2^40 and 2^-40 in a later sum is beyond 53 bits (float absorption, not a defect)
                x, y = A, "#2"
            b.add(f"bin {h} {op} {x} {y}", focus=True)
        elif kind == "rel":
            op = rng.choice(BINOPS_REL + ["eq", "ne"])
            x, y = rng.choice([(A, B), (A, c), (c, A), (A, c)])
            b.add(f"bin {h} {op} {x} {y}", focus=True)
        elif kind == "logic":
            x, y = rng.choice([(A, B), (A, c), (c, A)])
            b.add(f"bin {h} {rng.choice(BINOPS_LOGIC)} {x} {y}", focus=True)
        elif kind == "mask":
            b.add(f"{rng.choice(['mask', 'where'])} {h} {B} {A}", focus=True)
        else:
            # the same function reached two ways must be identical; a different one must not
            op = rng.choice(["add", "sub"])
            b.add(f"bin {h} {op} {A} {B}", focus=True)
            b.add(f"ident {h} {A} ;; reltol=1", focus=True)
            b.add(f"ident {A} {B} ;; reltol=1", focus=True)
        for r in (h, A):
            b.add(f"frame {r} ;; reltol=1", focus=True)
            b.add(f"nsteps {r}", focus=True)
            xs = " ".join(fs(x) for x in b.critical())
            b.add(f"sample {r} {xs} ;; reltol=1", focus=True)
        if kind == "ident" or (kind == "arith" and op in ("add", "sub")):
            # the result is a first-class operand (not after mul / div: sums of values of very different magnitude
            # are beyond 53 bits - float absorption, not a defect)
            k = b.reg("k")
            b.add(f"bin {k} {rng.choice(['add', 'sub'])} {h} {B}", focus=True)
            b.add(f"frame {k} ;; reltol=1", focus=True)
        b.tags.update(kind="tolerance", mode=mode, op=kind)
        progs.append(b.program())
    return progs


def gen_tiny_stats(rng, n, kinds):
    """statistics of functions whose values are tiny (k * 2^-40): every moment simply scales, so an absolute tolerance
    anywhere in the code (a zero test with `isclose`, ...) shows; compared with a purely relative tolerance.
    kinds: subset of moments, dist, cov"""
    progs = []
    vals = [TINY * k for k in (1, 2, 3, -1, 5, 0)]
    for _ in range(n):
        # numeric domains only: on datetime domains value x length is a Timedelta, quantised to 1 ns
        b = Builder(rng.choice(["int", "int", "float", "npfloat"]))
        cl = rng.choice("LR")
        while True:
            f = rand_spec(rng, cl, maxsteps=5, span=8, nanp=0.15, vals=vals, stepfree_p=0.0)
            g = rand_spec(rng, cl, maxsteps=5, span=8, nanp=0.15, vals=vals, stepfree_p=0.0)
            if len(f.rows) >= 2 and len(g.rows) >= 2 and spec_pieces(f) and spec_pieces(g):
                break
        A = b.emit(f, rng.choice(["fromvalues", "layers", "layerv"]), rng)
        Bq = b.emit(g, rng.choice(["fromvalues", "layers", "layerv"]), rng)
        b.note_points([0, 8])
        kind = rng.choice(kinds)
        if kind == "moments":
            b.add(f"vsums {A} ;; reltol=1", focus=True)
            for name in ("mean", "var", "std2", "integral"):
                b.add(f"stat {A} {name} none none default ;; via=method reltol=1", focus=True)
            b.add(f"stat {A} var 0 8 default ;; via=agg reltol=1", focus=True)
        elif kind == "dist":
            ys = " ".join(fs(TINY * k) for k in (0, 1, 2, 3, 5, -1))
            b.add(f"ecdf {A} right {ys} ;; reltol=1", focus=True)
            b.add(f"ecdf {A} left {ys} ;; reltol=1", focus=True)
            b.add(f"stat {A} min none none default ;; reltol=1", focus=True)
            b.add(f"stat {A} max none none default ;; reltol=1", focus=True)
            b.add(f"vir {A} none none default ;; reltol=1", focus=True)
        else:
            for which in ("cov", "corr"):
                b.add(f"{which} {A} {Bq} 0 8 0 pre ;; reltol=1", focus=True)
                b.add(f"{which} {A} {A} 0 8 0 pre ;; reltol=1", focus=True)
            b.add(f"stat {A} var 0 8 default ;; reltol=1", focus=True)
        b.tags.update(kind="tinystats", op=kind)
        progs.append(b.program())
    return progs


def gen_rel_constants(rng, n):
    """every relation between a stepped function and a constant given as a step-free Stairs OBJECT (either side, either
    closed side), the constant being a value the function actually takes: `c R g` is not routed through Python's
    reflection, so the library has a branch of its own for it"""
    progs = []
    for i in range(n):
        b = Builder(pick_domain(rng))
        cl = rng.choice("LR")
        g = pick_spec(rng, cl, small_p=0.4, nanp=0.2, stepfree_p=0.0)
        while not g.rows:
            g = pick_spec(rng, cl, small_p=0.4, nanp=0.2, stepfree_p=0.0)
        G = b.emit_any(g, rng)
        own = [v for _, v in g.rows if v is not None] + ([g.init] if g.init is not None else [])
        c0 = rng.choice(own or [Fraction(1)])
        C = b.reg("c")
        b.add(f"new {C} {rng.choice('LR')} {vs(c0)}")
        op = BINOPS_REL[i % len(BINOPS_REL)]
        for (x, y) in ((C, G), (G, C)):
            h = b.reg("h")
            b.add(f"bin {h} {op} {x} {y}" + opt_suffix(["form=" + rng.choice(["dunder", "method"])]), focus=True)
            b.add(f"frame {h}", focus=True)
            xs = " ".join(fs(q) for q in b.critical())
            b.add(f"sample {h} {xs}", focus=True)
        b.tags.update(kind="relconst", op=op)
        progs.append(b.program())
    return progs


def gen_decimal_block(rng, n):
    """relational operators on functions built from non-dyadic decimal values (0.1, 0.3, 0.7 ...) straight from
    `from_values`: the stored values are the floats the user passed, so comparisons with those same numbers are exact,
    whatever has been read from the operand before (a route that re-accumulates the step changes, 0.5 - 0.4 =
    0.09999999999999998, is not).  No arithmetic on the operands: float addition of decimals is outside the model."""
    progs = []
    vals = [Fraction(1, 10), Fraction(3, 10), Fraction(1, 2), Fraction(7, 10), Fraction(0), Fraction(1, 5), Fraction(9, 10)]
    for _ in range(n):
        b = Builder(rng.choice(["int", "int", "float", "dt"]))
        cl = rng.choice("LR")
        f = rand_spec(rng, cl, maxsteps=5, span=8, nanp=rng.choice([0.0, 0.2]), vals=vals, stepfree_p=0.0)
        g = rand_spec(rng, cl, maxsteps=4, span=8, nanp=0.0, vals=vals, stepfree_p=0.1)
        A = b.emit(f, "fromvalues", rng)
        Bq = b.emit(g, "fromvalues", rng)
        t = rng.choice(["none", "deltas", "deltas", "both", "stepchanges", "addright"])
        if t in ("deltas", "both"):
            b.add(f"touch {A} {t}")
        elif t == "stepchanges":
            b.add(f"stepchanges {A}")
        elif t == "addright":
            x = b.reg("x")
            b.add(f"bin {x} add {Bq} {A}")      # being a right operand reads the step changes
        own = [v for _, v in f.rows if v is not None] or vals
        for _ in range(2):
            h = b.reg("h")
            op = rng.choice(BINOPS_REL + ["eq", "ne", "le", "ge"])
            c = "#" + fs(rng.choice(own + own + vals))      # mostly a value the operand actually takes
            x, y = rng.choice([(A, c), (A, c), (A, c), (c, A), (A, Bq), (Bq, A)])
            b.add(f"bin {h} {op} {x} {y}", focus=True)
            b.add(f"frame {h}", focus=True)
            xs = " ".join(fs(q) for q in b.critical())
            b.add(f"sample {h} {xs}", focus=True)
        b.add(f"frame {A}", focus=True)
        b.tags.update(kind="decimal", touch=t, op=op)
        progs.append(b.program())
    return progs


def requery_probe(b, rng, operand, stmt_builder, p=0.15):
    """query - mutate - query: recompute the same operation after an in-place layer on the operand; a memo that
    layer() does not reset would answer from the past"""
    if operand.startswith("#") or rng.random() >= p:
        return
    if rng.random() < 0.3:
        # an unbounded layer after the value column has been read (a shortcut that only bumps the initial value
        # would leave that column stale)
        b.add(f"touch {operand} {rng.choice(['values', 'both'])}")
        b.add(f"layer {operand} none none {rng.choice([1, -2, 3])}")
    else:
        b.add(f"layer {operand} {fs(rng.choice([None, 1, 2, 4]))} {fs(rng.choice([None, 5, 6, 9]))} {rng.choice([1, -2, 3])}")
    h2 = b.reg("q")
    b.add(stmt_builder(h2), focus=True)
    b.add(f"frame {h2}", focus=True)


def alias_probe(b, rng, operand, result, p=0.2):
    """write-after-operation: mutate an operand in place, the earlier result must not move (and vice versa)"""
    if operand.startswith("#") or rng.random() >= p:
        return
    victim, witness = (operand, result) if rng.random() < 0.6 else (result, operand)
    b.add(f"layer {victim} {fs(rng.choice([None, 1, 3]))} {fs(rng.choice([None, 5, 7]))} {rng.choice([1, -2, 5])}")
    b.add(f"frame {witness}", focus=True)


# ----------------------------------------------------------------------------- C02 layering
def layer_stmt(rng, r, s, e, v, vector=None):
    if vector is None:
        vector = rng.random() < 0.3
    if vector:
        route = rng.choice(["list", "tuple", "ndarray", "series", "frame"])
        return f"layerv {r} {fs(s)}:{fs(e)}:{fs(v)} ;; route={route}"
    opts = []
    t = rng.random()
    if t < 0.15:
        opts.append("none=inf")
    elif t < 0.3:
        opts.append("none=nan")
    if v == 1 and rng.random() < 0.5:
        opts.append("omit=1")
    elif rng.random() < 0.2:
        opts.append("kw=1")
    return f"layer {r} {fs(s)} {fs(e)} {fs(v)}" + opt_suffix(opts)


def gen_c02(rng, tier, n_random, n_exh):
    progs = []
    pts = [None, 2, 4, 6]
    vals = [1, -1, 2]
    calls = [(s, e, v) for s in pts for e in pts for v in vals]
    # bounded-exhaustive 2-call histories (sampled in quick, complete in thorough)
    pairs = list(itertools.product(calls, calls))
    if n_exh < len(pairs):
        pairs = rng.sample(pairs, n_exh)
    for (c1, c2) in pairs:
        b = Builder(pick_domain(rng))
        cl = rng.choice("LR")
        r = b.reg()
        b.add(f"new {r} {cl} {rng.choice(['0', '0', '1', '-2'])}")
        b.note_points([2, 4, 6])
        for c in (c1, c2):
            b.add(layer_stmt(rng, r, *c), focus=True)
            b.observe(r)
            if rng.random() < 0.5:
                b.add(f"touch {r} {rng.choice(['values', 'deltas', 'both', 'stat'])}")
        b.tags.update(kind="exh2")
        progs.append(b.program())
    # random histories on all kinds of receivers
    for _ in range(n_random):
        b = Builder(pick_domain(rng))
        cl = rng.choice("LR")
        kind = rng.choice(["fresh", "const", "layered", "partial", "partial", "allnan", "result"])
        if kind == "fresh":
            r = b.reg()
            b.add(f"new {r} {cl} 0")
        elif kind == "const":
            r = b.reg()
            b.add(f"new {r} {cl} {vs(rng.choice(DYADIC))}")
        elif kind == "layered":
            r = b.emit_any(rand_spec(rng, cl, nanp=0), rng)
        elif kind == "partial":
            r = b.emit_any(rand_spec(rng, cl, nanp=0.35), rng)
        elif kind == "allnan":
            r = b.reg()
            b.add(f"new {r} {cl} nan")
        else:
            a = b.emit_any(rand_spec(rng, cl, nanp=0.1), rng)
            c = b.emit_any(rand_spec(rng, cl, nanp=0.1), rng)
            r = b.reg()
            b.add(f"bin {r} {rng.choice(['add', 'mul', 'lt', 'or'])} {a} {c}")
        b.note_points(range(0, 11, 2))
        for _ in range(rng.randint(1, 4)):
            if rng.random() < 0.35:
                # query-mutate-query: materialise one or both internal forms between the calls
                b.add(f"touch {r} {rng.choice(['values', 'deltas', 'both', 'stat', 'frame'])}")
            if rng.random() < 0.55:
                s = rng.choice([None, None] + list(range(0, 11)))
                e = rng.choice([None, None] + list(range(0, 11)))
                if rng.random() < 0.12:
                    s, e = None, None       # a constant over the whole line
                if rng.random() < 0.15 and b.pts:
                    e = s
                v = rng.choice([1, 1, -1, 2, Fraction(1, 2), -3, 0])
                b.add(layer_stmt(rng, r, s, e, v, vector=False), focus=True)
            else:
                k = rng.randint(1, 4)
                trips = []
                for _ in range(k):
                    s = rng.choice([None] + list(range(0, 11)))
                    e = rng.choice([None] + list(range(0, 11)))
                    v = rng.choice([1, 1, -1, 2, Fraction(1, 2), -3])
                    trips.append(f"{fs(s)}:{fs(e)}:{fs(v)}")
                opts = ["route=" + rng.choice(["list", "tuple", "ndarray", "series", "frame"])]
                # "a shorter start or end vector is padded": one of them may be shorter, the other gives the length
                t = rng.random()
                if t < 0.3:
                    opts.append("trime=1")
                elif t < 0.45:
                    opts.append("trims=1")
                if rng.random() < 0.2:
                    opts.append("allone=1")
                b.add(f"layerv {r} " + " ".join(trips) + opt_suffix(opts), focus=True)
            b.observe(r)
        b.tags.update(kind=kind)
        progs.append(b.program())
    return progs


# ----------------------------------------------------------------------------- C03 evaluation / views
def gen_c03(rng, n):
    progs = []
    for _ in range(n):
        b = Builder(pick_domain(rng, main_only=False) if rng.random() < 0.9 else "dtns")
        f = pick_spec(rng, quarter=rng.random() < 0.3)
        r = b.emit_any(f, rng)
        u0 = rng.random()
        if u0 < 0.3:
            # a result of an operation rather than a directly built function
            g = pick_spec(rng, f.closed)
            r2 = b.emit_any(g, rng)
            r3 = b.reg()
            b.add(f"bin {r3} {rng.choice(['add', 'sub', 'mul', 'le', 'and'])} {r} {r2}")
            r = r3
        elif u0 < 0.5:
            # … or of an operation with a constant on either side, after the operand has been read
            b.add(f"touch {r} {rng.choice(['both', 'values', 'deltas', 'both'])}")
            r3 = b.reg()
            c0 = scalar_token(rng, allow_nan=False)
            op0 = rng.choice(["add", "sub", "sub", "mul"])
            if rng.random() < 0.6:
                b.add(f"bin {r3} {op0} {c0} {r}")
            else:
                b.add(f"bin {r3} {op0} {r} {c0}")
            r = r3
        if rng.random() < 0.35:
            # query, then mutate in place, then look at every view again
            b.add(f"touch {r} {rng.choice(['values', 'both', 'frame', 'stat', 'deltas'])}")
            if rng.random() < 0.6:
                # … and evaluate before the mutation: anything limit / sample memoises must not survive the layer call
                # (seeded C03-13: lookup arrays kept on the instance, not reset on the undefined-region path of layer)
                xs0 = " ".join(fs(x) for x in b.critical())
                if xs0:
                    b.add(f"limit {r} {rng.choice(['left', 'right'])} {xs0} ;; form=list")
                    b.add(f"sample {r} {xs0} ;; form=list")
            u = rng.random()
            if u < 0.4:
                b.add(f"layer {r} none none {rng.choice([1, -2, 3])}" + rng.choice(["", " ;; kw=1", " ;; none=inf"]))
            else:
                s0 = rng.choice([None, 1, 3, 5])
                e0 = rng.choice([None, 2, 6, 8])
                b.note_points([s0, e0])
                b.add(layer_stmt(rng, r, s0, e0, rng.choice([1, -1, 2])))
        crit = b.critical()
        xs = crit + rng.sample(crit, min(3, len(crit)))   # unsorted with repeats
        rng.shuffle(xs)
        xstr = " ".join(fs(x) for x in xs)
        b.add(f"views {r}", focus=True)
        for side in ("left", "right"):
            b.add(f"limit {r} {side} {xstr} ;; form={rng.choice(['scalar', 'list', 'array', 'series', 'index', 'indexscalar'])}", focus=True)
        b.add(f"sample {r} {xstr} ;; form={rng.choice(['scalar', 'list', 'array', 'series', 'index', 'indexscalar'])}" +
              (" call=1" if rng.random() < 0.4 else ""), focus=True)
        b.add(f"closed {r}", focus=True)
        b.add(f"nsteps {r}", focus=True)
        b.add(f"stepchanges {r}", focus=True)
        b.add(f"deltaroundtrip {r}", focus=True)
        b.add(f"views {r}", focus=True)
        if rng.random() < 0.3:
            # evaluation through the collection API must agree with evaluation of each member
            other = b.emit_any(pick_spec(rng, rng.choice("LR")), rng)
            xs2 = " ".join(fs(x) for x in b.critical())
            kindc = rng.choice(["sample", "sample", "limitleft", "limitright"])
            b.add(f"arraysample {kindc} 2 {r} {other} / {xs2}" + (" ;; top=1" if rng.random() < 0.5 else ""), focus=True)
        progs.append(b.program())
    return progs


# ----------------------------------------------------------------------------- C04 / C05 follow-ups
def add_followups(b, rng, h):
    """the result must be an ordinary step function: use it in further operations"""
    k = b.reg("k")
    b.add(f"bin {k} add {h} #1", focus=True)
    b.add(f"frame {k}", focus=True)
    c = b.reg("c")
    b.add(f"copy {c} {h}", focus=True)
    b.add(f"layer {c} {fs(rng.choice([1, 2, 3, 4]))} {fs(rng.choice([5, 6, 7, None]))} 1", focus=True)
    b.add(f"frame {c}", focus=True)
    b.add(f"ident {h} {h}", focus=True)
    m = b.reg("m")
    b.add(f"bin {m} mul {h} {h}", focus=True)
    b.add(f"frame {m}", focus=True)
    # 0/1 results are numbers, not booleans: -h, h + h, h - h are -1/0, 2/0, 0 (a bool-typed value anywhere breaks these)
    ng, dbl, zz = b.reg("n"), b.reg("d"), b.reg("z")
    b.add(f"un {ng} neg {h}", focus=True)
    b.add(f"frame {ng}", focus=True)
    b.add(f"bin {dbl} add {h} {h}", focus=True)
    b.add(f"frame {dbl}", focus=True)
    b.add(f"bin {zz} sub {h} {h}", focus=True)
    b.add(f"frame {zz}", focus=True)


def gen_pointwise(rng, n, ops, followups=False, scalar_vals=None, requery_p=0.12):
    """h = a op b over all operand kinds, operand orders and provenances"""
    progs = []
    for _ in range(n):
        b = Builder(pick_domain(rng))
        op = rng.choice(ops)
        cl = rng.choice("LR")
        f = pick_spec(rng, cl)
        g = pick_spec(rng, cl)
        for s in (f, g):
            if not s.rows and rng.random() < 0.5:
                s.closed = rng.choice("LR")
        mode = rng.random()
        if mode < 0.06:
            a = b.emit_any(f, rng)
            c = a                      # the very same object on both sides (f == f, f - f, f & f …)
            tag = "same"
        elif mode < 0.55:
            a, c = b.emit_any(f, rng), b.emit_any(g, rng)
            tag = "ss"
        elif mode < 0.8:
            a, c = b.emit_any(f, rng), scalar_token(rng, vals=scalar_vals)
            tag = "s#"
        else:
            a, c = scalar_token(rng, vals=scalar_vals), b.emit_any(g, rng)
            tag = "#s"
        h = b.reg("h")
        opts = []
        if rng.random() < 0.4:
            opts.append("form=method")
        if rng.random() < 0.4:
            opts.append("sf=" + rng.choice(["npf", "npi", "pyf", "py", "bool"]))
        b.add(f"bin {h} {op} {a} {c}" + opt_suffix(opts), focus=True)
        b.observe(h)
        if followups:
            add_followups(b, rng, h)
        alias_probe(b, rng, a if not a.startswith("#") else c, h, p=0.12)
        requery_probe(b, rng, a if not a.startswith("#") else c, lambda q: f"bin {q} {op} {a} {c}", p=requery_p)
        if rng.random() < 0.5 and op != "div":
            # a stale internal form only shows downstream: feed the result to another operation
            # (not after a division: float arithmetic on non-dyadic quotients is outside the model)
            other = a if not a.startswith("#") else c
            k = b.reg("k")
            if rng.random() < 0.5:
                b.add(f"bin {k} {rng.choice(['add', 'sub'])} {h} {other}", focus=True)
            else:
                b.add(f"bin {k} {rng.choice(['add', 'sub'])} {other} {h}", focus=True)
            b.observe(k)
        b.tags.update(op=op, mode=tag)
        progs.append(b.program())
    return progs


def gen_unary(rng, n, ops, followups=False):
    progs = []
    for _ in range(n):
        b = Builder(pick_domain(rng))
        op = rng.choice(ops)
        a = b.emit_any(pick_spec(rng), rng)
        h = b.reg("h")
        b.add(f"un {h} {op} {a}" + (" ;; form=dunder" if rng.random() < 0.5 else ""), focus=True)
        b.observe(h)
        if followups:
            add_followups(b, rng, h)
        requery_probe(b, rng, a, lambda q: f"un {q} {op} {a}", p=0.3)
        b.tags.update(op=op, mode="un")
        progs.append(b.program())
    return progs


# ----------------------------------------------------------------------------- C06 masking
def bound_choice(rng, b, allow_none=True):
    crit = b.critical()
    pool = crit[2:-2] if len(crit) > 4 else crit
    x = rng.choice(pool + pool + [crit[1], crit[-2]])
    if allow_none and rng.random() < 0.2:
        return None
    return x


def gen_null_pair(rng, n):
    """isna and notna of the SAME object, in either order, together: they are complementary indicators"""
    progs = []
    for _ in range(n):
        b = Builder(pick_domain(rng))
        f = pick_spec(rng, nanp=0.4, stepfree_p=0.1)
        A = b.emit_any(f, rng)
        first, second = rng.sample(["isna", "notna"], 2)
        h1, h2, s0 = b.reg("h"), b.reg("h"), b.reg("s")
        b.add(f"un {h1} {first} {A}", focus=True)
        b.add(f"un {h2} {second} {A}", focus=True)
        b.add(f"frame {h1}", focus=True)
        b.add(f"frame {h2}", focus=True)
        b.add(f"bin {s0} add {h1} {h2}", focus=True)
        b.add(f"frame {s0}", focus=True)
        if rng.random() < 0.5:
            b.add(f"layer {A} {fs(rng.choice([None, 1, 2]))} {fs(rng.choice([None, 5, 7]))} 1")
            h3 = b.reg("h")
            b.add(f"un {h3} {first} {A}", focus=True)
            b.add(f"frame {h3}", focus=True)
        b.tags.update(kind="nullpair")
        progs.append(b.program())
    return progs


def gen_c06(rng, n):
    progs = gen_null_pair(rng, max(12, n // 40))
    for _ in range(n):
        dom = pick_domain(rng)
        b = Builder(dom)
        f = pick_spec(rng)
        a = b.emit_any(f, rng)
        kind = rng.choice(["clip", "clip", "wheret", "maskt", "mask", "where", "isna", "notna", "clipclip", "whereconst", "maskconst"])
        h = b.reg("h")
        opts = []
        if kind in ("clip", "wheret", "maskt", "clipclip"):
            lo, hi = bound_choice(rng, b), bound_choice(rng, b)
            if lo is not None and hi is not None and lo > hi and rng.random() < 0.8:
                lo, hi = hi, lo
            if dom == "dt" and rng.random() < 0.3:
                opts.append("str=1")
            elif rng.random() < 0.2:
                opts.append("none=inf")
            elif kind == "clip" and rng.random() < 0.2:
                opts.append("kw=1")
            cmd = "clip" if kind == "clipclip" else kind
            b.add(f"{cmd} {h} {a} {fs(lo)} {fs(hi)}" + opt_suffix(opts), focus=True)
            b.note_points([lo, hi])
            if kind == "clipclip":
                b.observe(h)
                h2 = b.reg("h")
                lo2, hi2 = bound_choice(rng, b), bound_choice(rng, b)
                if lo2 is not None and hi2 is not None and lo2 > hi2:
                    lo2, hi2 = hi2, lo2
                b.add(f"clip {h2} {h} {fs(lo2)} {fs(hi2)}", focus=True)
                b.note_points([lo2, hi2])
                h = h2
        elif kind in ("mask", "where"):
            g = pick_spec(rng, f.closed if f.rows else None, vals=[Fraction(0), Fraction(0), Fraction(1), Fraction(-2), Fraction(1, 2)], nanp=0.3)
            if f.rows and g.rows:
                g.closed = f.closed
            c = b.emit_any(g, rng)
            b.add(f"{kind} {h} {a} {c}", focus=True)
        elif kind in ("whereconst", "maskconst"):
            c = b.reg()
            b.add(f"new {c} {rng.choice('LR')} {rng.choice(['0', '1', 'nan', '-2'])}")
            b.add(f"{kind[:-5]} {h} {a} {c}", focus=True)
        else:
            b.add(f"un {h} {kind} {a}", focus=True)
        b.observe(h)
        alias_probe(b, rng, a, h, p=0.3)
        b.tags.update(kind=kind)
        progs.append(b.program())
    return progs


# ----------------------------------------------------------------------------- C07 fillna
def gen_c07(rng, n):
    progs = []
    for _ in range(n):
        b = Builder(pick_domain(rng))
        f = pick_spec(rng, nanp=0.45)
        a = b.emit_any(f, rng)
        kind = rng.choice(["scalar", "method", "method", "stairs", "stairs"])
        h = b.reg("h")
        if kind == "scalar":
            b.add(f"fillna {h} {a} {scalar_token(rng, allow_nan=False)}" +
                  opt_suffix(["sf=" + rng.choice(["npf", "npi", "py"])] if rng.random() < 0.3 else []), focus=True)
        elif kind == "method":
            b.add(f"fillna {h} {a} @{rng.choice(['ffill', 'pad', 'bfill', 'backfill'])}", focus=True)
        else:
            g = pick_spec(rng, f.closed, nanp=0.3)
            if not g.rows and rng.random() < 0.5:
                g.closed = rng.choice("LR")
            c = b.emit_any(g, rng)
            b.add(f"fillna {h} {a} {c}", focus=True)
        b.observe(h)
        alias_probe(b, rng, a, h, p=0.25)
        b.tags.update(kind=kind)
        progs.append(b.program())
    return progs


# ----------------------------------------------------------------------------- exact helpers for the distribution
def spec_pieces(spec, lo=None, hi=None):
    """finite defined pieces (value, length) of spec restricted to [lo, hi] (exact)"""
    # canonical rows first: a redundant row (same value as its left neighbour) is not a step point, so it does not
    # delimit a finite piece (rand_spec may give up avoiding equal neighbours)
    rows_, prev_ = [], spec.init
    for p_, v_ in spec.rows:
        if v_ != prev_:
            rows_.append((p_, v_))
            prev_ = v_
    spec = Spec(spec.closed, spec.init, rows_)
    pts = [p for p, _ in spec.rows]
    vals = [v for _, v in spec.rows]
    cuts = sorted(set(pts + [x for x in (lo, hi) if x is not None]))

    def value_at(x):  # right limit
        v = spec.init
        for p, w in spec.rows:
            if p <= x:
                v = w
        return v
    out = []
    for a, c in zip(cuts, cuts[1:]):
        if lo is not None and a < lo:
            continue
        if hi is not None and c > hi:
            continue
        v = value_at(a)
        if v is not None:
            out.append((v, c - a))
    return out


def cum_boundaries(pieces):
    tot = sum(l for _, l in pieces)
    if tot == 0:
        return tot, []
    agg = {}
    for v, l in pieces:
        agg[v] = agg.get(v, 0) + l
    c = Fraction(0)
    bs = []
    for v in sorted(agg):
        c += agg[v] / tot
        bs.append(c)
    return tot, bs


def is_pow2(q):
    q = Fraction(q)
    n, d = q.numerator, q.denominator
    return n > 0 and (n & (n - 1)) == 0 and (d & (d - 1)) == 0


def window_choice(rng, b, p_none=0.4):
    if rng.random() < p_none:
        return None, None
    crit = b.critical()
    pool = crit[1:-1]
    lo, hi = rng.choice(pool), rng.choice(pool)
    if lo == hi:
        hi = lo + 1
    if lo > hi:
        lo, hi = hi, lo
    t = rng.random()
    if t < 0.1:
        lo = None
    elif t < 0.2:
        hi = None
    return lo, hi



def spec_layer(spec, s0, e0, v):
    """exact effect of layer(s0, e0, v) on a spec (undefined stays undefined)"""
    pts = sorted(set([p for p, _ in spec.rows] + [x for x in (s0, e0) if x is not None]))

    def val_at(x):
        w = spec.init
        for p, u in spec.rows:
            if p <= x:
                w = u
        return w

    def contrib(x):
        a = v if (s0 is None or s0 <= x) else 0
        c = v if (e0 is not None and e0 <= x) else 0
        return a - c
    init = spec.init
    if init is not None:
        init = init + (v if s0 is None else 0)
    rows = []
    for p in pts:
        w = val_at(p)
        rows.append((Fraction(p), None if w is None else w + contrib(p)))
    # canonicalise
    out, prev = [], init
    for p, w in rows:
        if w != prev:
            out.append((p, w))
            prev = w
    return Spec(spec.closed, init, out)


def stat_spec(rng):
    """a directly specified function with >= 1 finite defined piece"""
    while True:
        f = pick_spec(rng, small_p=0.3, nanp=0.2, stepfree_p=0.0, quarter=rng.random() < 0.3,
                      vals=[Fraction(x) for x in (-2, -1, 0, 1, 1, 2, 3)] + [Fraction(1, 2), Fraction(-3, 2)])
        if len(f.rows) >= 2 and spec_pieces(f):
            return f


# ----------------------------------------------------------------------------- C08
def gen_c08(rng, n):
    progs = []
    for _ in range(n):
        b = Builder(pick_domain(rng))
        f = stat_spec(rng)
        a = b.emit_any(f, rng)
        b.add(f"vsums {a}", focus=True)
        for _ in range(3):
            lo, hi = window_choice(rng, b)
            if not spec_pieces(f, lo, hi):
                continue
            for name in rng.sample(["integral", "mean", "var", "std2"], 3):
                opts = []
                if lo is None and hi is None:
                    opts.append("via=" + rng.choice(["method", "agg"]))
                else:
                    opts.append("via=" + rng.choice(["agg", "clipmethod"]))
                    if rng.random() < 0.3:
                        opts.append("win=inf")
                if rng.random() < 0.2:
                    opts.append("aggform=list")
                b.add(f"stat {a} {name} {fs(lo)} {fs(hi)} default" + opt_suffix(opts), focus=True)
        # describe(): mean / std / min / max (+ percentiles away from share boundaries) over a window, half-bounded ones
        # included (a half-bounded window is a window, not the whole line)
        for (lo, hi) in rng.sample([(None, Fraction(rng.choice([3, 5, 6]))), (Fraction(rng.choice([2, 4])), None),
                                    (Fraction(1), Fraction(7)), (None, None)], 2):
            wp = spec_pieces(f, lo, hi)
            if not wp:
                continue
            wtot, wb = cum_boundaries(wp)
            okp = [p for p in (25, 50, 75, 10, 90) if is_pow2(wtot) or all(Fraction(p) != c * 100 for c in wb)]
            if okp:
                b.note_points([x for x in (lo, hi) if x is not None])
                b.add(f"describe {a} {fs(lo)} {fs(hi)} " + " ".join(str(p) for p in okp) + " ;; percs=explicit", focus=True)
        if rng.random() < 0.3:
            # query - mutate - query on the same object (the cached integral/mean pair must not survive)
            b.add(f"q {a} mean", focus=True)
            b.add(f"q {a} integral", focus=True)
            b.add(f"layer {a} {fs(rng.choice([None, 1, 3]))} {fs(rng.choice([None, 6, 8]))} {rng.choice([1, -2, 3])}")
            for qq in ("mean", "integral", "var", "vsums"):
                b.add(f"q {a} {qq}", focus=True)
        progs.append(b.program())
    return progs



def gen_overflow_block(rng, n):
    """datetime-like domains with a one-year unit and values in the thousands: value x length overflows int64 ns, so
    mean / var go through the library's overflow fallback (integral itself is documented to raise there)"""
    progs = []
    big = [Fraction(x) for x in (500, 1000, 4000, 5000, 9000, -2000)]
    for _ in range(n):
        b = Builder(rng.choice(["dtbig", "tdbig"]))
        while True:
            f = rand_spec(rng, None, maxsteps=6, span=10, nanp=0.3, vals=big, stepfree_p=0.0)
            if len(f.rows) >= 2 and spec_pieces(f):
                break
        a = b.emit(f, rng.choice(["fromvalues", "layers", "layerv"]), rng)
        b.add(f"vsums {a}", focus=True)
        b.add(f"stat {a} mean none none default ;; via=method", focus=True)
        lo, hi = window_choice(rng, b, p_none=0.0)
        if lo is not None and hi is not None and spec_pieces(f, lo, hi):
            b.add(f"stat {a} mean {fs(lo)} {fs(hi)} default", focus=True)
        b.tags.update(kind="overflow")
        progs.append(b.program())
    return progs


def gen_offset_block(rng, n):
    """values with a large common offset (2^17 + small): mean / var / std must still be the moments of the values.
    The offset is chosen so that the documented computation (deviations from the mean, then squares) stays within
    the comparison tolerance (|error| <= 2*dev*ulp(2^17) ~ 2^-33) while any algebraically equal but numerically
    different route (E[X^2] - E[X]^2: ulp(2^34) ~ 2^-19) does not."""
    progs = []
    base = 2 ** 17
    vals = [Fraction(base + d) for d in (0, 1, 2, 3, -1, -2)] + [Fraction(2 * base + 1, 2)]
    for _ in range(n):
        b = Builder(rng.choice(["int", "float", "dt", "td"]))
        while True:
            f = rand_spec(rng, None, maxsteps=6, span=10, nanp=0.25, vals=vals, stepfree_p=0.0)
            if len(f.rows) >= 3 and spec_pieces(f):
                break
        a = b.emit(f, rng.choice(["fromvalues", "layers", "layerv"]), rng)
        b.add(f"vsums {a}", focus=True)
        for name in ("mean", "var", "std2"):
            b.add(f"stat {a} {name} none none default ;; via=method", focus=True)
        lo, hi = window_choice(rng, b, p_none=0.0)
        if lo is not None and hi is not None and spec_pieces(f, lo, hi):
            for name in ("mean", "var"):
                b.add(f"stat {a} {name} {fs(lo)} {fs(hi)} default ;; via=agg", focus=True)
        b.tags.update(kind="offset")
        progs.append(b.program())
    return progs


# ----------------------------------------------------------------------------- C09
P_POOL = [Fraction(x) for x in (0, 100, 50, 25, 75, 10, 90, 1, 99)] + [Fraction(75, 2), Fraction(125, 2), Fraction(100, 3)]


def gen_c09(rng, n):
    progs = []
    for _ in range(n):
        b = Builder(pick_domain(rng))
        f = stat_spec(rng)
        a = b.emit_any(f, rng)
        pieces = spec_pieces(f)
        tot, bounds = cum_boundaries(pieces)
        exact = is_pow2(tot)
        vals = sorted({v for v, _ in pieces})
        ys = sorted(set(vals + [v + Fraction(1, 4) for v in vals] + [vals[0] - 1, vals[-1] + 1]))
        for side in ("left", "right"):
            b.add(f"ecdf {a} {side} " + " ".join(fs(y) for y in ys), focus=True)
        b.add(f"ecdfs {a} " + " ".join(fs(y) for y in ys) + (" ;; form=list" if rng.random() < 0.5 else ""), focus=True)
        ps = [p for p in P_POOL if exact or all(p != c * 100 for c in bounds[:-1])]
        if exact:
            ps += [c * 100 for c in bounds]
        ps = sorted(set(ps))
        b.add(f"perc {a} " + " ".join(fs(p) for p in ps) + (" ;; form=list" if rng.random() < 0.5 else ""), focus=True)
        b.add(f"frac {a} " + " ".join(fs(p / 100) for p in ps if (p / 100).denominator in (1, 2, 4, 8, 16)), focus=True)
        if exact or all(c != Fraction(1, 2) for c in bounds):
            b.add(f"stat {a} median none none default ;; via=method", focus=True)
        b.add(f"stat {a} modes none none default ;; via=method", focus=True)
        for q in (2, 3, 4, 5, 8):
            if exact or all(Fraction(i, q) not in bounds for i in range(1, q)):
                if exact and q in (3, 5) and any(Fraction(i, q) in bounds for i in range(1, q)):
                    continue
                b.add(f"quant {a} {q}", focus=True)
        # histograms
        lo_v, hi_v = vals[0], vals[-1]
        for _ in range(2):
            cl = rng.choice(["left", "right"])
            stat = rng.choice(["sum", "frequency", "density", "probability"])
            how = rng.choice(["breaks", "ii", "unit"])
            if how == "unit":
                b.add(f"hist {a} {cl} {stat} unit" + (" ;; dflt=1" if rng.random() < 0.3 else ""), focus=True)
                continue
            elif how == "breaks":
                start = lo_v - rng.choice([0, Fraction(1, 2), 1])
                br = [start]
                while br[-1] <= hi_v and len(br) < 8:
                    br.append(br[-1] + rng.choice([Fraction(1, 2), 1, Fraction(3, 2)]))
                bins = list(zip(br, br[1:]))
            else:
                bins = []
                x = lo_v - 1
                for _ in range(rng.randint(1, 4)):
                    w = rng.choice([Fraction(1, 2), 1, 2])
                    bins.append((x, x + w))
                    x = x + w + rng.choice([0, 0, Fraction(1, 2)])
            if not bins:
                continue
            b.add(f"hist {a} {cl} {stat} " + " ".join(f"{fs(l)}:{fs(r)}" for l, r in bins) + f" ;; bins={how}", focus=True)
        if rng.random() < 0.3:
            # query - mutate - query: the distribution accessor must be rebuilt after an in-place layer
            s1, e1, v1 = rng.choice([None, 1, 3]), rng.choice([None, 6, 8]), rng.choice([1, -2, 3])
            b.add(f"layer {a} {fs(s1)} {fs(e1)} {v1}")
            f2 = spec_layer(f, s1, e1, Fraction(v1))
            p2 = spec_pieces(f2)
            if p2:
                tot2, bounds2 = cum_boundaries(p2)
                ex2 = is_pow2(tot2)
                fr = [Fraction(x, 8) for x in range(0, 9) if ex2 or all(Fraction(x, 8) != c for c in bounds2[:-1])]
                b.add(f"frac {a} " + " ".join(fs(x) for x in fr), focus=True)
                b.add(f"perc {a} " + " ".join(fs(x * 100) for x in fr), focus=True)
                for q in (2, 4, 3):
                    if ex2 and q == 3:
                        continue
                    if ex2 or all(Fraction(i, q) not in bounds2 for i in range(1, q)):
                        b.add(f"quant {a} {q}", focus=True)
            b.add(f"ecdf {a} right " + " ".join(fs(y) for y in ys), focus=True)
            b.add(f"ecdfs {a} " + " ".join(fs(y) for y in ys), focus=True)
            b.add(f"vsums {a}", focus=True)
            b.add(f"stat {a} modes none none default ;; via=method", focus=True)
            b.add(f"hist {a} left sum unit", focus=True)
            progs.append(b.program())
            continue
        # describe over a window
        lo, hi = window_choice(rng, b)
        wp = spec_pieces(f, lo, hi)
        if wp:
            wtot, wb = cum_boundaries(wp)
            okp = [p for p in (25, 50, 75, 10, 90) if is_pow2(wtot) or all(Fraction(p) != c * 100 for c in wb)]
            if all(p in okp for p in (25, 50, 75)) and rng.random() < 0.5:
                b.add(f"describe {a} {fs(lo)} {fs(hi)}", focus=True)
            elif okp:
                b.add(f"describe {a} {fs(lo)} {fs(hi)} " + " ".join(str(p) for p in okp) + " ;; percs=explicit", focus=True)
        progs.append(b.program())
    return progs


# ----------------------------------------------------------------------------- C10
ICLOSED = ["left", "right", "both", "neither", "default"]


def gen_c10(rng, n, exhaustive=False):
    progs = []
    if exhaustive:
        funcs = [s for s in universe(2, [2, 4, 6], [0, 1, 2]) if True]
        ends = [None, 1, 2, 3, 4, 6, 7]
        for f0 in funcs:
            for cl in "LR":
                f = with_closed(f0, cl)
                b = Builder("int")
                a = b.emit(f, "fromvalues", rng)
                for lo in ends:
                    for hi in ends:
                        if lo is not None and hi is not None and lo >= hi:
                            continue
                        for c in ["left", "right", "both", "neither"]:
                            b.add(f"vir {a} {fs(lo)} {fs(hi)} {c}", focus=True)
                progs.append(b.program())
        return progs
    for _ in range(n):
        b = Builder(pick_domain(rng) if rng.random() < 0.85 else "dtns")
        f = pick_spec(rng, small_p=0.6, nanp=0.3)
        tail_only = rng.random() < 0.15
        if tail_only:
            # defined on an unbounded piece only: every step value undefined (left tail) or only the last one defined
            pts = sorted(rng.sample(range(0, 9), rng.randint(1, 3)))
            v = rng.choice([Fraction(x) for x in (4, -1, 2, Fraction(1, 2))])
            if rng.random() < 0.6:
                f = Spec(rng.choice("LR"), v, [(Fraction(pts[0]), None)])
            else:
                f = Spec(rng.choice("LR"), None, [(Fraction(pts[-1]), v)])
        a = b.emit_any(f, rng)
        if tail_only:
            for name in ("min", "max"):
                b.add(f"stat {a} {name} none none default" + opt_suffix([rng.choice(["via=method", "via=agg"])]), focus=True)
            b.add(f"stat {a} minmax none none default", focus=True)
            b.add(f"vir {a} none none default", focus=True)
            if rng.random() < 0.5:
                # the same through an operation result (the step values of the result are all undefined too)
                r = b.reg()
                b.add(f"bin {r} {rng.choice(['add', 'mul'])} {a} #{rng.choice([1, 2, -1])}")
                for name in ("min", "max"):
                    b.add(f"stat {r} {name} none none default ;; via=method", focus=True)
        for _ in range(6):
            crit = b.critical()
            pool = crit[1:-1] + [None]
            lo, hi = rng.choice(pool), rng.choice(pool)
            if lo is not None and hi is not None:
                if lo == hi:
                    continue
                if lo > hi:
                    lo, hi = hi, lo
            c = rng.choice(ICLOSED)
            opts = []
            if rng.random() < 0.3:
                opts.append("win=inf")
            if lo is None and hi is None and rng.random() < 0.5:
                opts.append("win=default")
            b.add(f"vir {a} {fs(lo)} {fs(hi)} {c}" + opt_suffix(opts), focus=True)
            if rng.random() < 0.4:
                b.add(f"stat {a} minmax {fs(lo)} {fs(hi)} {c}" + opt_suffix([o for o in opts if not o.startswith("win=default")]), focus=True)
            for name in ("min", "max"):
                o2 = list(opts)
                if lo is None and hi is None and c == "default" and rng.random() < 0.5:
                    o2 = ["via=method"]
                elif rng.random() < 0.3:
                    o2.append("aggform=list")
                b.add(f"stat {a} {name} {fs(lo)} {fs(hi)} {c}" + opt_suffix(o2), focus=True)
            if rng.random() < 0.12:
                # query - mutate - query
                b.add(f"touch {a} {rng.choice(['values', 'both', 'stat'])}")
                s1, e1 = rng.choice([(None, None), (None, None), (1, 5), (None, 3), (2, None)])
                b.add(f"layer {a} {fs(s1)} {fs(e1)} {rng.choice([1, -2, 10])}")
                b.note_points([s1, e1])
        progs.append(b.program())
    return progs


# ----------------------------------------------------------------------------- C11
def gen_intervals(rng, b, kind=None):
    crit = b.critical()
    lo, hi = crit[1], crit[-2]
    kind = kind or rng.choice(["breaks", "breaks", "gapped", "overlap", "unordered"])
    grid = [x for x in crit if lo <= x <= hi]
    if kind == "breaks":
        if rng.random() < 0.3:
            a0 = int(rng.choice([x for x in grid if Fraction(x).denominator == 1] or [0]))
            n0 = rng.randint(1, 4)
            br = [Fraction(a0 + i) for i in range(n0 + 1)]       # consecutive unit intervals (also used as hourly periods)
            return kind, list(zip(br, br[1:]))
        k = rng.randint(2, min(5, len(grid)))
        br = sorted(rng.sample(grid, k))
        return kind, list(zip(br, br[1:]))
    ivs = []
    for _ in range(rng.randint(1, 4)):
        a, c = rng.choice(grid), rng.choice(grid)
        if a == c:
            c = a + 1
        ivs.append((min(a, c), max(a, c)))
    if kind == "gapped":
        ivs = sorted(set(ivs))
        out = []
        last = None
        for iv in ivs:
            if last is None or iv[0] >= last:
                out.append(iv)
                last = iv[1]
        return kind, out
    if kind == "overlap":
        return kind, sorted(set(ivs))
    return kind, ivs


def gen_c11_periods(rng, n):
    """PeriodIndex cuts on the naive datetime domain: hourly periods = unit tick intervals, every closedness"""
    progs = []
    for _ in range(n):
        b = Builder("dt")
        f = pick_spec(rng, small_p=0.3, nanp=0.2, stepfree_p=0.0)
        a = b.emit_any(f, rng)
        ints = sorted({int(p) for p in f.points() if Fraction(p).denominator == 1} | {0})
        a0 = rng.choice(ints) - rng.choice([0, 1])
        n0 = rng.randint(1, 4)
        extra = ""
        if rng.random() < 0.5:
            # periods with gaps between them (each period is still exactly one slice)
            starts = sorted(rng.sample(range(a0, a0 + 8), n0))
            extra = " pform=list"
        else:
            starts = [a0 + i for i in range(n0)]
            if rng.random() < 0.3:
                extra = " pform=list"
        ivs = [(Fraction(s0), Fraction(s0 + 1)) for s0 in starts]
        ivstr = " ".join(f"{fs(l)}:{fs(r)}" for l, r in ivs)
        c = rng.choice(["left", "right", "both", "neither", "default"])
        for name in ("min", "max", "mean", "integral"):
            b.add(f"slicer {a} {name} {c} {ivstr} ;; cuts=period" + extra, focus=True)
        b.tags.update(kind="period", iclosed=c)
        progs.append(b.program())
    return progs


def gen_slicer_extrema(rng, n):
    """the slicer's min / max over an interval are the windowed min / max with that interval's closedness
    (`C10b.slicer_extremes_eq_windows`): both forms side by side"""
    progs = []
    for _ in range(n):
        b = Builder(pick_domain(rng))
        f = pick_spec(rng, small_p=0.3, nanp=0.3, stepfree_p=0.02)
        a = b.emit_any(f, rng)
        kind, ivs = gen_intervals(rng, b)
        if not ivs:
            continue
        ivstr = " ".join(f"{fs(l)}:{fs(r)}" for l, r in ivs)
        c = rng.choice(["left", "right", "both", "neither", "default"])
        for name in ("min", "max"):
            b.add(f"slicer {a} {name} {c} {ivstr}" + opt_suffix(["via=" + rng.choice(["method", "agg"])]), focus=True)
            for (l, r) in ivs[:3]:
                b.add(f"stat {a} {name} {fs(l)} {fs(r)} {c}", focus=True)
        b.tags.update(kind="slicerextrema", ikind=kind, iclosed=c)
        progs.append(b.program())
    return progs


def gen_c11(rng, n):
    progs = gen_c11_periods(rng, max(10, n // 8))
    for _ in range(n):
        b = Builder(pick_domain(rng))
        f = pick_spec(rng, small_p=0.3, nanp=0.25, stepfree_p=0.02)
        a = b.emit_any(f, rng)
        kind, ivs = gen_intervals(rng, b)
        if not ivs:
            continue
        ivstr = " ".join(f"{fs(l)}:{fs(r)}" for l, r in ivs)
        c = rng.choice(["left", "right", "both", "neither", "default"])
        if kind == "breaks" and b.domain == "dt" and all(Fraction(l).denominator == 1 and r - l == 1 for l, r in ivs):
            period = True
        else:
            period = False
        if all(spec_pieces(f, l, r) for l, r in ivs) and rng.random() < 0.4:
            vals_f = sorted({v for l, r in ivs for v, _ in spec_pieces(f, l, r)})
            br = [vals_f[0] - 1, vals_f[0], (vals_f[0] + vals_f[-1]) / 2 + Fraction(1, 4), vals_f[-1] + 1]
            br = sorted(set(br))
            if len(br) >= 2:
                b.add(f"slicehist {a} {rng.choice(['left', 'right'])} {rng.choice(['sum', 'probability', 'frequency'])} " +
                      " ".join(fs(x) for x in br) + " / " + ivstr, focus=True)
        for name in rng.sample(["mean", "integral", "median", "modes", "min", "max"], 4):
            if name == "median":
                ok = True
                for (l, r) in ivs:
                    tot, bs = cum_boundaries(spec_pieces(f, l, r))
                    if tot and not is_pow2(tot) and Fraction(1, 2) in bs[:-1]:
                        ok = False
                if not ok:
                    continue
            opts = ["via=" + rng.choice(["method", "method", "agg", "apply"])]
            if period and rng.random() < 0.6:
                opts.append("cuts=period")
            b.add(f"slicer {a} {name} {c} {ivstr}" + opt_suffix(opts), focus=True)
        if kind in ("breaks", "gapped") and rng.random() < 0.7:
            name = rng.choice(["mean", "max", "min", "median", "mode"])
            ok = True
            if name == "median":
                for (l, r) in ivs:
                    tot, bs = cum_boundaries(spec_pieces(f, l, r))
                    if tot and not is_pow2(tot) and Fraction(1, 2) in bs[:-1]:
                        ok = False
            if ok:
                h = b.reg("h")
                b.add(f"resample {h} {a} {name} {c} {ivstr}", focus=True)
                b.note_points([x for iv in ivs for x in iv])
                b.observe(h)
        b.tags.update(kind=kind, iclosed=c)
        progs.append(b.program())
    return progs


# ----------------------------------------------------------------------------- C12 minimality / identical / identities
IDENTITIES = ["comm", "assoc", "distrib", "demorgan", "selfsub", "dblinvert", "maskwhere", "addzero", "mulone",
              "scalarcomm", "scalarsub", "scalarsub"]


def gen_c12_coincidences(rng, n, funcs=None):
    """value coincidences that must collapse to fewer steps: (scalar op f), (f op scalar), (f op f) over the
    bounded universe (f*0, c/f with f = 0 next to an undefined piece, f - f, comparisons that come out constant…)"""
    progs = []
    funcs = funcs or SMALL
    for _ in range(n):
        b = Builder("int")
        f = with_closed(rng.choice(funcs), rng.choice("LR"))
        A = b.emit(f, "fromvalues", rng)
        if rng.random() < 0.3:
            b.add(f"touch {A} {rng.choice(['both', 'deltas'])}")
        h = b.reg("h")
        op = rng.choice(["div", "div", "div", "mul", "mul", "add", "sub"] + BINOPS_REL[:2] + ["eq", "and", "or"])
        c0 = "#" + fs(rng.choice([0, 1, -1, 2]))
        u = rng.random()
        if u < 0.45:
            b.add(f"bin {h} {op} {c0} {A}", focus=True)
        elif u < 0.8:
            b.add(f"bin {h} {op} {A} {c0}", focus=True)
        else:
            b.add(f"bin {h} {op} {A} {A}", focus=True)
        b.add(f"rawframe {h}", focus=True)
        b.add(f"nsteps {h}", focus=True)
        b.add(f"consistent {h}", focus=True)
        b.add(f"ident {h} {h}", focus=True)
        b.tags.update(kind="coincidence", op=op)
        progs.append(b.program())
    return progs


def gen_c12_across_sides(rng, n):
    """the same constant (or the all-undefined function) reached through right-closed and through left-closed
    operands: step-free results denote the same function whatever side they carry, so `identical` holds both ways"""
    progs = []
    for _ in range(n):
        b = Builder(pick_domain(rng))
        base = pick_spec(rng, "L", small_p=0.5, nanp=0.0, stepfree_p=0.0)
        while not base.rows:
            base = pick_spec(rng, "L", small_p=0.5, nanp=0.0, stepfree_p=0.0)
        fl = b.emit_any(with_closed(base, "L"), rng)
        fr = b.emit_any(with_closed(base, "R"), rng)
        route = rng.choice(["sub", "mul0", "ge", "maskall", "aggsum", "ne"])
        outs = []
        for f in (fl, fr):
            z = b.reg("z")
            if route == "sub":
                b.add(f"bin {z} sub {f} {f}")
            elif route == "mul0":
                b.add(f"bin {z} mul {f} #0")
            elif route == "ge":
                b.add(f"bin {z} ge {f} {f}")
            elif route == "ne":
                b.add(f"bin {z} ne {f} {f}")
            elif route == "maskall":
                b.add(f"maskt {z} {f} none none")
            else:
                ng = b.reg("n")
                b.add(f"un {ng} neg {f}")
                b.add(f"agg {z} sum {f} {ng}")
            b.add(f"nsteps {z}", focus=True)
            outs.append(z)
        c = b.reg("c")
        b.add(f"copy {c} {outs[0]}")
        b.add(f"ident {outs[0]} {outs[1]}", focus=True)
        b.add(f"ident {outs[1]} {outs[0]}", focus=True)
        b.add(f"ident {outs[1]} {c}", focus=True)
        b.add(f"bool {outs[1]}", focus=True)
        b.tags.update(kind="acrosssides", route=route)
        progs.append(b.program())
    return progs


def gen_c12(rng, n):
    progs = gen_c12_coincidences(rng, n // 2) + gen_c12_across_sides(rng, max(20, n // 15))
    for _ in range(n):
        b = Builder(pick_domain(rng))
        cl = rng.choice("LR")
        A = b.emit_any(pick_spec(rng, cl, small_p=0.7), rng)
        B = b.emit_any(pick_spec(rng, cl, small_p=0.7), rng)
        C = b.emit_any(pick_spec(rng, cl, small_p=0.7), rng)
        kind = rng.choice(["result", "result", "identity", "fromvalues"])
        if kind == "fromvalues":
            # a directly constructed function given with redundant rows must come out minimal too
            base = pick_spec(rng, cl, small_p=0.5, stepfree_p=0.0)
            while not base.rows:
                base = pick_spec(rng, cl, small_p=0.5, stepfree_p=0.0)
            rows = []
            prev = base.init
            for p, v in base.rows:
                rows.append((p, v))
                if rng.random() < 0.5:
                    rows.append((p + Fraction(1, 2), v))
            if rng.random() < 0.4 and rows:
                rows = [(rows[0][0] - 1, base.init)] + rows
            h = b.reg("h")
            b.add(f"fromvalues {h} {cl} {vs(base.init)} " + " ".join(f"{fs(p)}:{vs(v)}" for p, v in rows), focus=True)
            b.add(f"rawframe {h}", focus=True)
            b.add(f"nsteps {h}", focus=True)
            g = b.emit(base, "fromvalues", rng)
            b.add(f"ident {h} {g}", focus=True)
            b.add(f"ident {g} {h}", focus=True)
            b.add(f"touch {h} deltas")
            b.add(f"views {h}", focus=True)
            k = b.reg("k")
            b.add(f"bin {k} add {h} #1", focus=True)
            b.add(f"rawframe {k}", focus=True)
            b.tags.update(kind="fromvalues")
        elif kind == "result":
            h = b.reg("h")
            t = rng.random()
            if t < 0.5:
                op = rng.choice(BINOPS_ARITH + BINOPS_REL + BINOPS_LOGIC)
                u = rng.random()
                if u < 0.6:
                    b.add(f"bin {h} {op} {A} {B}", focus=True)
                elif u < 0.8:
                    b.add(f"bin {h} {op} {A} {scalar_token(rng)}", focus=True)
                else:
                    b.add(f"bin {h} {op} {scalar_token(rng)} {A}", focus=True)
            elif t < 0.6:
                b.add(f"un {h} {rng.choice(UNOPS)} {A}", focus=True)
            elif t < 0.7:
                lo, hi = sorted(rng.sample(range(0, 9), 2))
                b.add(f"{rng.choice(['clip', 'maskt', 'wheret'])} {h} {A} {lo} {hi}", focus=True)
            elif t < 0.8:
                b.add(f"{rng.choice(['mask', 'where'])} {h} {A} {B}", focus=True)
            elif t < 0.9:
                b.add(f"fillna {h} {A} {rng.choice(['#0', '#1', '@ffill', '@bfill', B])}", focus=True)
            else:
                b.add(f"copy {h} {A}", focus=True)
                s, e = rng.choice([None, 2, 4, 6]), rng.choice([None, 2, 4, 6])
                b.add(f"layer {h} {fs(s)} {fs(e)} {rng.choice([1, -1, 2, 0])}", focus=True)
                b.add(f"layer {h} {fs(rng.choice([s, 3, 5]))} {fs(rng.choice([e, 7]))} {rng.choice([1, -1, -2, 0, 0])}", focus=True)
            b.add(f"rawframe {h}", focus=True)
            b.add(f"consistent {h}", focus=True)
            b.add(f"nsteps {h}", focus=True)
            b.add(f"bool {h}", focus=True)
            b.add(f"ident {h} {h}", focus=True)
            b.add(f"ident {h} {A}", focus=True)
            b.add(f"ident {A} {h}", focus=True)
            h2 = b.reg("h")
            b.add(f"copy {h2} {h}")
            b.add(f"touch {h2} {rng.choice(['deltas', 'values', 'both'])}")
            b.add(f"ident {h} {h2}", focus=True)
            b.add(f"ident {h2} {h}", focus=True)
            b.add(f"ident {h} #{rng.choice(['0', '1', 'nan'])}", focus=True)
            b.tags.update(kind="result")
        else:
            idn = rng.choice(IDENTITIES)
            x, y = b.reg("x"), b.reg("y")
            t1, t2 = b.reg("t"), b.reg("t")
            if idn == "comm":
                op = rng.choice(["add", "mul", "and", "or", "xor", "eq", "ne"])
                b.add(f"bin {x} {op} {A} {B}")
                b.add(f"bin {y} {op} {B} {A}")
            elif idn == "assoc":
                op = rng.choice(["add", "mul", "and", "or", "xor"])
                b.add(f"bin {t1} {op} {A} {B}")
                b.add(f"bin {x} {op} {t1} {C}")
                b.add(f"bin {t2} {op} {B} {C}")
                b.add(f"bin {y} {op} {A} {t2}")
            elif idn == "distrib":
                b.add(f"bin {t1} add {B} {C}")
                b.add(f"bin {x} mul {A} {t1}")
                t3 = b.reg("t")
                b.add(f"bin {t2} mul {A} {B}")
                b.add(f"bin {t3} mul {A} {C}")
                b.add(f"bin {y} add {t2} {t3}")
            elif idn == "demorgan":
                o1, o2 = rng.choice([("and", "or"), ("or", "and")])
                b.add(f"bin {t1} {o1} {A} {B}")
                b.add(f"un {x} invert {t1}")
                t3 = b.reg("t")
                b.add(f"un {t2} invert {A}")
                b.add(f"un {t3} invert {B}")
                b.add(f"bin {y} {o2} {t2} {t3}")
            elif idn == "selfsub":
                b.add(f"bin {x} sub {A} {A}")
                b.add(f"un {t1} notna {A}")
                b.add(f"bin {t2} mul {A} #0")
                b.add(f"copy {y} {t2}")
            elif idn == "dblinvert":
                b.add(f"un {t1} invert {A}")
                b.add(f"un {x} invert {t1}")
                b.add(f"un {y} make_boolean {A}")
            elif idn == "maskwhere":
                b.add(f"mask {x} {A} {B}")
                b.add(f"un {t1} invert {B}")
                b.add(f"where {y} {A} {t1}")
            elif idn == "scalarcomm":
                op = rng.choice(["add", "mul", "and", "or", "xor", "eq", "ne"])
                c0 = scalar_token(rng, allow_nan=False)
                b.add(f"touch {A} {rng.choice(['both', 'values', 'deltas'])}")
                b.add(f"bin {x} {op} {c0} {A}")
                b.add(f"bin {y} {op} {A} {c0}")
            elif idn == "scalarsub":
                # c - f  =  (-f) + c, whatever has been read from f before
                c0 = scalar_token(rng, allow_nan=False)
                b.add(f"touch {A} {rng.choice(['both', 'both', 'values', 'deltas'])}")
                b.add(f"bin {x} sub {c0} {A}")
                b.add(f"un {t1} neg {A}")
                b.add(f"bin {y} add {t1} {c0}")
                # and the result is a first-class operand: (c - f) + f = c on f's domain
                z, w = b.reg("z"), b.reg("w")
                b.add(f"bin {z} add {x} {A}")
                b.add(f"bin {w} add {y} {A}")
                b.add(f"ident {z} {w}", focus=True)
                b.add(f"rawframe {z}", focus=True)
            elif idn == "addzero":
                b.add(f"bin {x} add {A} #0")
                b.add(f"copy {y} {A}")
            else:
                b.add(f"bin {x} mul {A} #1")
                b.add(f"copy {y} {A}")
            b.add(f"ident {x} {y}", focus=True)
            b.add(f"ident {y} {x}", focus=True)
            b.add(f"rawframe {x}", focus=True)
            b.add(f"rawframe {y}", focus=True)
            b.tags.update(kind="identity", identity=idn)
        progs.append(b.program())
    return progs


# ----------------------------------------------------------------------------- C13 aliasing histories
def emit_op(b, rng, A, B, want=None):
    """one public operation producing a Stairs result in a fresh register; returns (register, kind)"""
    h = b.reg("h")
    kind = want or rng.choice(["bin", "binscalar", "un", "clip", "clipnone", "maskt", "wheret", "mask", "where",
                               "maskconst", "whereconst", "fillna", "fillnam", "fillnas", "shift", "diff", "copy", "agg"])
    if kind == "bin":
        b.add(f"bin {h} {rng.choice(BINOPS_ARITH + BINOPS_REL + BINOPS_LOGIC)} {A} {B}")
    elif kind == "binscalar":
        if rng.random() < 0.5:
            b.add(f"bin {h} {rng.choice(BINOPS_ARITH + BINOPS_REL + BINOPS_LOGIC)} {A} {scalar_token(rng)}")
        else:
            b.add(f"bin {h} {rng.choice(BINOPS_ARITH + BINOPS_REL + BINOPS_LOGIC)} {scalar_token(rng)} {A}")
    elif kind == "un":
        b.add(f"un {h} {rng.choice(UNOPS)} {A}")
    elif kind == "clip":
        lo, hi = sorted(rng.sample(range(0, 11), 2))
        b.add(f"clip {h} {A} {rng.choice([lo, 'none'])} {hi}")
    elif kind == "clipnone":
        b.add(f"clip {h} {A} none none" + opt_suffix([rng.choice(["none=inf", "kw=1", "x=1"])]))
    elif kind in ("maskt", "wheret"):
        lo, hi = sorted(rng.sample(range(0, 11), 2))
        b.add(f"{kind} {h} {A} {lo} {hi}")
    elif kind in ("mask", "where"):
        b.add(f"{kind} {h} {A} {B}")
    elif kind in ("maskconst", "whereconst"):
        c = b.reg()
        b.add(f"new {c} {rng.choice('LR')} {rng.choice(['0', '1', '-2'])}")
        b.add(f"{kind[:-5]} {h} {A} {c}")
    elif kind == "fillna":
        b.add(f"fillna {h} {A} {B}")
    elif kind == "fillnam":
        b.add(f"fillna {h} {A} @{rng.choice(['ffill', 'pad', 'bfill', 'backfill'])}")
    elif kind == "fillnas":
        b.add(f"fillna {h} {A} #{rng.choice(['0', '2'])}")
    elif kind == "shift":
        d0 = rng.choice([0, 1, -2])
        b.add(f"shift {h} {A} {d0}")
        b.note_points([p + d0 for p in list(b.pts)])
    elif kind == "diff":
        b.add(f"diff {h} {A} {rng.choice([1, -2])}")
    elif kind == "copy":
        b.add(f"copy {h} {A}")
    else:
        b.add(f"agg {h} {rng.choice(['sum', 'mean', 'max', 'min', 'median', 'logical_or', 'logical_and'])} {A} {B}" +
              opt_suffix(["container=" + rng.choice(["list", "tuple", "sarray", "series"])]))
    return h, kind


def mutate(b, rng, r):
    pts = sorted(b.pts) or [Fraction(1)]
    s = rng.choice(pts + pts + [None, rng.choice(pts) + Fraction(1, 2)])
    if rng.random() < 0.2:
        s = None            # an open left end updates the initial value in place
    e = rng.choice(pts + pts + [None])
    v = rng.choice([1, -1, 2, 5])
    if rng.random() < 0.65:
        b.add(f"layer {r} {fs(s)} {fs(e)} {v}")
    else:
        b.add(f"layerv {r} {fs(s)}:{fs(e)}:{v} {fs(e)}:none:{-v} ;; route={rng.choice(['list', 'ndarray', 'series'])}")


def gen_c13(rng, n):
    progs = []
    for _ in range(n):
        b = Builder(pick_domain(rng))
        cl = rng.choice("LR")
        fa = pick_spec(rng, cl, small_p=0.4, nanp=0.2)
        fb = pick_spec(rng, cl, small_p=0.4, nanp=0.2)
        if rng.random() < 0.15:
            # a step-free operand closed on the OTHER side (legal: it has no step points, so its side is not
            # compared) – the operation must leave that object, including its closed side, as it was
            other = "R" if cl == "L" else "L"
            fb = Spec(other, rng.choice([Fraction(0), Fraction(1), Fraction(-2), None]), [])
            if rng.random() < 0.5:
                fa, fb = fb, with_closed(fa, cl)
        A = b.emit_any(fa, rng)
        B = b.emit_any(fb, rng)
        want = None
        u = rng.random()
        if u < 0.2:
            # operations that may re-use the operand's frame (shift, copy, negate, unbounded clip): the operand holds
            # only its step-change column, which is what scalar layering edits in place
            want = rng.choice(["shift", "shift", "copy", "un", "clipnone"])
            fa2 = Spec(cl, fa.init if fa.init is not None else Fraction(0),
                       [(p, v if v is not None else Fraction(1)) for p, v in fa.rows] or [(Fraction(1), Fraction(2)), (Fraction(3), Fraction(0))])
            A = b.emit(fa2, rng.choice(["layers", "layerv", "ctor"]), rng)
        elif u < 0.3:
            # method fills write the spliced initial value / first value into a value column: must be a copy
            want = "fillnam"
            v0, v1 = rng.choice([1, 2, -1]), rng.choice([3, 0, 5])
            shape = rng.choice(["gap_after_first", "gap_at_start", "gap_at_end"])
            if shape == "gap_after_first":
                rows = [(Fraction(1), None), (Fraction(3), Fraction(v1)), (Fraction(6), Fraction(0))]
                init = Fraction(v0)
            elif shape == "gap_at_start":
                rows = [(Fraction(2), Fraction(v1)), (Fraction(5), Fraction(v0))]
                init = None
            else:
                rows = [(Fraction(2), Fraction(v1)), (Fraction(5), None)]
                init = Fraction(v0)
            A = b.emit(Spec(cl, init, rows), "fromvalues", rng)
            if rng.random() < 0.5:
                b.add(f"touch {A} {rng.choice(['values', 'both'])}")
        elif u < 0.6:
            # in-place writes go to the cached step-change column: make sure it exists on the operand
            b.add(f"touch {A} {rng.choice(['deltas', 'deltas', 'both'])}")
        b.add(f"frame {A}", focus=True)
        b.add(f"frame {B}", focus=True)
        h, kind = emit_op(b, rng, A, B, want=want)
        h2, kind2 = emit_op(b, rng, A, B) if rng.random() < 0.4 else (None, None)
        if h2 is None and rng.random() < 0.5:
            # a second-generation object: derived from the RESULT by an operation that may pass attributes on by
            # reference (copy, shift, scalar fill); writes to either must not reach the other
            h2, kind2 = emit_op(b, rng, h, B, want=rng.choice(["copy", "copy", "shift", "fillnas", "fillnam"]))
            kind2 = "derived:" + kind2
        regs = [A, B, h] + ([h2] if h2 else [])
        for r in regs:
            b.add(f"frame {r}", focus=True)
            b.add(f"closed {r}", focus=True)
        # also queries must not disturb anything
        if rng.random() < 0.5:
            b.add(f"touch {rng.choice(regs)} {rng.choice(['stat', 'both', 'frame'])}")
        for _ in range(rng.randint(1, 2)):
            victim = rng.choice([h, h, A, B] + ([h2] if h2 else []))
            mutate(b, rng, victim)
            for r in regs:
                b.add(f"frame {r}", focus=True)
        b.tags.update(op=kind, op2=str(kind2))
        progs.append(b.program())
    return progs


def gen_c13_chain(rng, n):
    """result -> second-generation object (copy / shift / fill of the result) -> a layer with an open left end on one
    of the two: the other one must not move.  (The initial value is handed on by reference by several operations and
    updated in place by `layer`; a mutable scalar anywhere in that chain is shared state.)"""
    progs = []
    for _ in range(n):
        b = Builder(pick_domain(rng))
        cl = rng.choice("LR")
        fa = pick_spec(rng, cl, small_p=0.4, nanp=0.0, stepfree_p=0.0)
        fb = pick_spec(rng, cl, small_p=0.4, nanp=0.0, stepfree_p=0.1)
        A = b.emit_any(fa, rng)
        B = b.emit_any(fb, rng)
        h = b.reg("h")
        kind = rng.choice(["agg", "agg", "mulc", "divc", "cmul", "bin", "rel", "logic", "un", "un", "unna", "clipnone"])
        if kind == "agg":
            b.add(f"agg {h} {rng.choice(['logical_or', 'logical_and', 'sum', 'max', 'mean'])} {A} {B}" +
                  opt_suffix(["container=" + rng.choice(["list", "tuple", "sarray", "series"])]))
        elif kind == "mulc":
            b.add(f"bin {h} mul {A} #{rng.choice([2, -1, 3])}")
        elif kind == "divc":
            b.add(f"bin {h} div {A} #{rng.choice([2, -2])}")
        elif kind == "cmul":
            b.add(f"bin {h} mul #{rng.choice([2, 3])} {A}")
        elif kind == "bin":
            b.add(f"bin {h} {rng.choice(BINOPS_ARITH)} {A} {B}")
        elif kind == "rel":
            b.add(f"bin {h} {rng.choice(BINOPS_REL)} {A} {B}")
        elif kind == "logic":
            b.add(f"bin {h} {rng.choice(BINOPS_LOGIC)} {A} {B}")
        elif kind == "un":
            b.add(f"un {h} {rng.choice(UNOPS)} {A}")
        elif kind == "unna":
            m0 = b.reg("m")
            b.add(f"maskt {m0} {A} {rng.choice([1, 2, 3])} {rng.choice([4, 6])}")
            b.add(f"un {h} {rng.choice(['isna', 'notna'])} {m0}")
        else:
            b.add(f"clip {h} {A} none none")
        if rng.random() < (0.7 if kind in ("un", "unna") else 0.35):
            # sibling results: the SAME call made twice must give two independent objects (a memoised result object
            # handed out twice is shared state)
            kd = "sibling"
            d = b.reg("h")
            last = b.lines[-1]
            parts = last.split(" ")
            parts[1] = d
            b.add(" ".join(parts))
        else:
            d, kd = emit_op(b, rng, h, B, want=rng.choice(["copy", "copy", "shift", "fillnas", "fillnam"]))
        regs = [A, B, h, d]
        for r in regs:
            b.add(f"frame {r}", focus=True)
        for _ in range(2):
            victim = rng.choice([h, d, d])
            e = rng.choice(sorted(b.pts) + [None])
            v = rng.choice([1, -2, 5])
            if rng.random() < 0.7:
                b.add(f"layer {victim} none {fs(e)} {v}")
            else:
                b.add(f"layerv {victim} none:{fs(e)}:{v} ;; route={rng.choice(['list', 'ndarray', 'series'])}")
            for r in regs:
                b.add(f"frame {r}", focus=True)
            # the answers of an object are its own too (a shared distribution accessor would answer for the other one)
            # (only `var`: it goes through the distribution object but is compared with a tolerance; percentile and
            # ecdf queries sit on share / value boundaries that quotients from a preceding division can blur)
            for r in (h, d):
                b.add(f"q {r} var", focus=True)
        b.tags.update(kind="chain", op=kind, derived=kd)
        progs.append(b.program())
    return progs


# ----------------------------------------------------------------------------- C14 caches
QUERIES = ["integral", "mean", "var", "median", "modes", "min", "max", "vsums", "perc 25", "perc 75", "frac 1/2",
           "ecdf left 1", "ecdf right 1", "ecdf right 0"]


def gen_c14(rng, n):
    progs = []
    for _ in range(n):
        b = Builder(pick_domain(rng))
        cl = rng.choice("LR")
        r = b.reg()
        b.add(f"new {r} {cl} {rng.choice(['0', '0', '1'])}")
        if rng.random() < 0.3:
            # a step-free function already answers (NaN) for integral / mean: that answer must not survive the first layer
            for q0 in rng.sample(["integral", "mean", "max", "min"], 2):
                b.add(f"q {r} {q0}", focus=True)
        # power-of-two total length keeps share boundaries exact in floats (see DESIGN §5.5)
        pts = [0, 1, 2, 3, 4, 8]
        s0, e0 = 0, 8
        b.add(f"layer {r} {s0} {e0} 1")
        b.note_points(pts)
        queries = QUERIES
        if rng.random() < 0.35:
            # a receiver with an undefined region (layer takes a different path there); the cached objects live on
            # the new object.  No percentile queries: the defined length is no longer a power of two (§5.5).
            r2 = b.reg()
            lo0, hi0 = rng.choice([(2, 3), (1, 2), (3, 4), (0, 1), (4, 8)])
            b.add(f"maskt {r2} {r} {lo0} {hi0}")
            r = r2
            queries = [q for q in QUERIES if not q.startswith(("perc", "frac", "median"))]
        hist = []
        others = []
        for _ in range(rng.randint(3, 9)):
            t = rng.random()
            if t < 0.55:
                b.add(f"q {r} {rng.choice(queries)}", focus=True)
            elif t < 0.85:
                s, e = sorted(rng.sample(pts, 2))
                u = rng.random()
                if u < 0.15:
                    s, e = "none", "none"
                elif u < 0.25:
                    s = "none"
                elif u < 0.35:
                    e = "none"
                v = rng.choice([1, -1, 2])
                vec = rng.random() < 0.4
                if vec:
                    b.add(f"layerv {r} {s}:{e}:{v} ;; route={rng.choice(['list', 'ndarray', 'series'])}")
                else:
                    b.add(f"layer {r} {s} {e} {v}")
                hist.append((s, e, v, vec))
            elif t < 0.91 and len(others) < 2:
                # a copy is a new object with caches of its own: from here on the history continues on one of the
                # two, the other one is queried again at the end (and sometimes right away)
                r2 = b.reg()
                b.add(f"copy {r2} {r}")
                if rng.random() < 0.5:
                    others.append(r)
                    r = r2
                else:
                    others.append(r2)
                if rng.random() < 0.5:
                    b.add(f"q {others[-1]} {rng.choice(queries)}", focus=True)
            elif hist:
                s, e, v, vec = hist.pop()
                # return to an earlier state
                b.add(f"layer {r} {s} {e} {-v}")
            if rng.random() < 0.3:
                q = rng.choice(queries)
                b.add(f"q {r} {q}", focus=True)
                b.add(f"q {r} {q}", focus=True)
        for q in rng.sample(queries, 5):
            b.add(f"q {r} {q}", focus=True)
        b.add(f"frame {r}", focus=True)
        for o_ in others:
            for q in rng.sample(queries, 4):
                b.add(f"q {o_} {q}", focus=True)
            b.add(f"frame {o_}", focus=True)
        progs.append(b.program())
    return progs


# ----------------------------------------------------------------------------- C15 closed side
def shape_spec(rng, shape, cl):
    if shape == "steps":
        return rand_spec(rng, cl, nanp=0.15, stepfree_p=0.0, maxsteps=3)
    if shape == "const":
        return Spec(cl, rng.choice([Fraction(0), Fraction(1), Fraction(-2)]), [])
    return Spec(cl, None, [])


C15_OPS = (["bin:" + o for o in BINOPS_ARITH + BINOPS_REL + BINOPS_LOGIC] +
           ["mask", "where", "fillna", "cov", "corr", "agg:sum", "agg:mean", "agg:max", "agg:min", "agg:median",
            "agg:logical_or", "agg:logical_and"])
C15_UNARY = (["un:" + u for u in UNOPS] + ["clip", "clipnone", "maskt", "wheret", "fillnas", "fillnam", "shift", "diff",
                                           "copy", "resample", "binscalar", "rbinscalar", "layer", "layer", "layerv"])


def gen_c15_masked_receivers(rng, n):
    """operations that go through an internal helper object (layer, resample, fillna by a function) on receivers of
    either side that have an undefined region: they must neither raise a mismatch nor change the side"""
    progs = []
    for i in range(n):
        b = Builder("int" if rng.random() < 0.7 else pick_domain(rng))
        cl = "LR"[i % 2]
        f = rand_spec(rng, cl, nanp=0.0, stepfree_p=0.0, maxsteps=4, span=8)
        A0 = b.emit_any(f, rng)
        A = b.reg("m")
        lo0, hi0 = rng.choice([(1, 3), (2, 5), (9, 11), (-3, -1), (6, 10), (3, 4)])
        b.add(f"maskt {A} {A0} {lo0} {hi0}")
        h = b.reg("h")
        kind = ["resample", "layer", "layerv", "fillnag"][(i // 2) % 4]
        if kind == "resample":
            b.add(f"resample {h} {A} {rng.choice(['mean', 'max', 'median'])} default 0:4 4:8 ;; lenient=1", focus=True)
        elif kind == "layer":
            b.add(f"copy {h} {A}")
            b.add(f"layer {h} {fs(rng.choice([None, 0, 2]))} {fs(rng.choice([5, 7]))} {rng.choice([1, -2])}", focus=True)
        elif kind == "layerv":
            b.add(f"copy {h} {A}")
            b.add(f"layerv {h} 0:5:1 2:none:-2 ;; route={rng.choice(['list', 'ndarray', 'series'])}", focus=True)
        else:
            g = b.emit_any(rand_spec(rng, cl, nanp=0.0, stepfree_p=0.3, maxsteps=3, span=8), rng)
            b.add(f"fillna {h} {A} {g}", focus=True)
        b.add(f"closed {h}", focus=True)
        b.add(f"frame {h}", focus=True)
        xs = " ".join(fs(x) for x in b.critical())
        b.add(f"sample {h} {xs}", focus=True)
        b.tags.update(op="masked:" + kind, ca=cl)
        progs.append(b.program())
    return progs


def gen_c15(rng, n, exhaustive=False):
    progs = gen_c15_masked_receivers(rng, max(16, n // 30))
    combos = [(op, ca, cb, sa, sb) for op in C15_OPS for ca in "LR" for cb in "LR"
              for sa in ("steps", "const", "allnan") for sb in ("steps", "const", "allnan")]
    ucombos = [(op, ca, None, sa, None) for op in C15_UNARY for ca in "LR" for sa in ("steps", "const", "allnan")]
    allc = combos + ucombos
    reps = max(1, n // len(allc)) if exhaustive else 1
    chosen = allc * reps if exhaustive else [rng.choice(allc) for _ in range(n)]
    for (op, ca, cb, sa, sb) in chosen:
        b = Builder("int" if rng.random() < 0.7 else pick_domain(rng))
        fa = shape_spec(rng, sa, ca)
        A = b.emit_any(fa, rng)
        h = b.reg("h")
        if cb is not None:
            fb = shape_spec(rng, sb, cb)
            B = b.emit_any(fb, rng)
            if op.startswith("bin:"):
                b.add(f"bin {h} {op[4:]} {A} {B}", focus=True)
            elif op in ("mask", "where", "fillna"):
                b.add(f"{op} {h} {A} {B}", focus=True)
            elif op in ("cov", "corr"):
                # also windows in which an operand is constant (zero standard deviation) or that contain no step
                # point at all: whether the sides clash does not depend on the window
                win = rng.choice(["0 10", "0 10", "20 30", "-10 -1", "none none", "3 4", "5 3", "4 4"])   # last two: degenerate
                b.add(f"{op} {A} {B} {win} 0 pre ;; errorsonly=1", focus=True)
                b.tags.update(op=op, ca=ca, cb=cb, sa=sa, sb=sb)
                progs.append(b.program())
                continue
            else:
                b.add(f"agg {h} {op[4:]} {A} {B}" + opt_suffix(["container=" + rng.choice(["list", "tuple", "dict", "ndarray", "series", "sarray"])]), focus=True)
        else:
            if op.startswith("un:"):
                b.add(f"un {h} {op[3:]} {A}", focus=True)
            elif op == "clip":
                b.add(f"clip {h} {A} 1 5", focus=True)
            elif op == "clipnone":
                b.add(f"clip {h} {A} none none", focus=True)
            elif op in ("maskt", "wheret"):
                b.add(f"{op} {h} {A} {rng.choice(['1', 'none'])} {rng.choice(['5', 'none'])}", focus=True)
            elif op == "fillnas":
                b.add(f"fillna {h} {A} #1", focus=True)
            elif op == "fillnam":
                b.add(f"fillna {h} {A} @{rng.choice(['ffill', 'bfill'])}", focus=True)
            elif op == "shift":
                b.add(f"shift {h} {A} 2", focus=True)
            elif op == "diff":
                b.add(f"diff {h} {A} 2", focus=True)
            elif op == "copy":
                b.add(f"copy {h} {A}", focus=True)
            elif op in ("layer", "layerv"):
                # layering never combines two user functions: it must not raise a mismatch and must keep the side,
                # whatever the receiver looks like (undefined regions take a different path inside layer)
                if sa == "steps" and rng.random() < 0.7:
                    m = b.reg("m")
                    b.add(f"maskt {m} {A} {rng.choice([1, 2, 3])} {rng.choice([4, 6])}")
                    A = m
                b.add(f"copy {h} {A}")
                if op == "layer":
                    b.add(f"layer {h} {fs(rng.choice([None, 0, 2]))} {fs(rng.choice([None, 5, 7]))} {rng.choice([1, -2])}", focus=True)
                else:
                    b.add(f"layerv {h} 0:5:1 2:none:-2 ;; route={rng.choice(['list', 'ndarray', 'series'])}", focus=True)
            elif op == "resample":
                if sa != "steps":
                    continue
                if rng.random() < 0.7:
                    # an undefined region inside or outside the span of the slices (resample re-masks through a helper
                    # object that must carry the receiver's side)
                    m = b.reg("m")
                    lo0, hi0 = rng.choice([(1, 3), (2, 5), (9, 11), (-3, -1), (6, 10)])
                    b.add(f"maskt {m} {A} {lo0} {hi0}")
                    A = m
                b.add(f"resample {h} {A} {rng.choice(['mean', 'max', 'median'])} default 0:4 4:8 ;; lenient=1", focus=True)
            elif op == "binscalar":
                b.add(f"bin {h} {rng.choice(BINOPS_ARITH + BINOPS_REL + BINOPS_LOGIC)} {A} {scalar_token(rng)}", focus=True)
            else:
                b.add(f"bin {h} {rng.choice(BINOPS_ARITH + BINOPS_REL + BINOPS_LOGIC)} {scalar_token(rng)} {A}", focus=True)
        b.add(f"closed {h}", focus=True)
        b.add(f"frame {h}", focus=True)
        xs = " ".join(fs(x) for x in b.critical())
        b.add(f"sample {h} {xs}", focus=True)
        b.tags.update(op=op, ca=ca, cb=str(cb), sa=sa, sb=str(sb))
        progs.append(b.program())
    return progs


# ----------------------------------------------------------------------------- C16 expression trees
def gen_tree(b, rng, leaves, depth):
    """emit statements computing a random expression tree; returns the result register"""
    if depth == 0 or rng.random() < 0.2:
        return rng.choice(leaves)
    if rng.random() < 0.25:
        x = gen_tree(b, rng, leaves, depth - 1)
        h = b.reg("e")
        t = rng.random()
        if t < 0.4:
            b.add(f"un {h} {rng.choice(UNOPS)} {x}")
        elif t < 0.6:
            lo, hi = sorted(rng.sample(range(0, 11), 2))
            b.add(f"{rng.choice(['clip', 'wheret', 'maskt'])} {h} {x} {lo} {hi}")
        elif t < 0.75:
            b.add(f"fillna {h} {x} {rng.choice(['#0', '#3', '@ffill', '@bfill'])}")
        elif t < 0.9:
            b.add(f"shift {h} {x} {rng.choice([1, -1, 2])}")
        else:
            op = rng.choice(BINOPS_ARITH + BINOPS_REL + BINOPS_LOGIC)
            sc0 = scalar_token(rng) if op != "div" else "#" + rng.choice(["2", "-2", "1/2", "4", "-1", "0", "nan"])
            if op != "div" and rng.random() < 0.45:
                b.add(f"bin {h} {op} {sc0} {x}" + opt_suffix(["sf=" + rng.choice(["npf", "npi", "pyf", "py"])]))
            else:
                b.add(f"bin {h} {op} {x} {sc0}" + opt_suffix(["sf=" + rng.choice(["npf", "npi", "pyf", "py"])]))
        if rng.random() < 0.3:
            b.add(f"touch {h} {rng.choice(['deltas', 'values', 'both', 'stat', 'frame'])}")
        return h
    x = gen_tree(b, rng, leaves, depth - 1)
    y = gen_tree(b, rng, leaves, depth - 1)
    h = b.reg("e")
    t = rng.random()
    if t < 0.7:
        op = rng.choice(BINOPS_ARITH + BINOPS_REL + BINOPS_LOGIC)
        if op == "div":
            # quotients of step functions are not exactly representable and further float arithmetic on them is
            # outside the model (DESIGN 5.5): inside trees divide by power-of-two scalars only
            b.add(f"bin {h} div {x} #{rng.choice(['2', '-2', '1/2', '4', '-1'])}")
        else:
            b.add(f"bin {h} {op} {x} {y}")
    elif t < 0.8:
        b.add(f"{rng.choice(['mask', 'where'])} {h} {x} {y}")
    elif t < 0.9:
        b.add(f"fillna {h} {x} {y}")
    else:
        b.add(f"agg {h} {rng.choice(['sum', 'mean', 'max', 'min'])} {x} {y}")
    if rng.random() < 0.3:
        b.add(f"touch {h} {rng.choice(['deltas', 'values', 'both', 'stat', 'frame'])}")
    return h


def gen_c16_provenance(rng, n):
    """one operation on one function under every provenance / materialisation state, then the result and the operand are
    both used again: the outcome may not depend on how the operand was built or what has been read from it"""
    progs = []
    shapes = ["random", "random", "gap_after_first", "leading_gap", "trailing_gap", "equal_around_gap", "equal_around_gap",
              "leading_gap_zero"]
    for _ in range(n):
        b = Builder(pick_domain(rng))
        cl = rng.choice("LR")
        shape = rng.choice(shapes)
        if shape == "random":
            f = pick_spec(rng, cl, small_p=0.4, nanp=0.2, stepfree_p=0.0)
        elif shape == "gap_after_first":
            f = Spec(cl, Fraction(rng.choice([1, 3, -2])), [(Fraction(1), None), (Fraction(3), Fraction(rng.choice([2, 5]))), (Fraction(6), Fraction(0))])
        elif shape == "leading_gap":
            f = Spec(cl, None, [(Fraction(2), Fraction(rng.choice([2, 5]))), (Fraction(5), Fraction(1))])
        elif shape == "equal_around_gap":
            # the same value on both sides of an undefined piece: the step change across the gap is zero although the
            # step point is genuine
            v = Fraction(rng.choice([2, 1, -3]))
            f = Spec(cl, Fraction(0), [(Fraction(1), v), (Fraction(2), None), (Fraction(3), v), (Fraction(6), Fraction(0))])
        elif shape == "leading_gap_zero":
            # undefined towards minus infinity, first defined value 0 (again a zero step change at a genuine step point)
            f = Spec(cl, None, [(Fraction(1), Fraction(0)), (Fraction(2), Fraction(5)), (Fraction(4), Fraction(0)), (Fraction(6), None)])
        else:
            f = Spec(cl, Fraction(2), [(Fraction(2), Fraction(4)), (Fraction(5), None)])
        route = rng.choice(["fromvalues", "layers", "layerv", "ctor"])
        x = b.emit(f, route, rng)
        t = rng.choice(["none", "deltas", "values", "both", "both", "stat", "frame"])
        if t != "none":
            b.add(f"touch {x} {t}")
        g = b.emit_any(pick_spec(rng, cl, small_p=0.5, nanp=0.0, stepfree_p=0.0), rng)
        h = b.reg("h")
        kind = rng.choice(["csub", "csub", "cadd", "subc", "cmul", "cdiv", "ffill", "ffill", "bfill", "fills", "neg", "rel"])
        c0 = "#" + fs(rng.choice([5, -1, 2, Fraction(1, 2)]))
        sf = opt_suffix(["sf=" + rng.choice(["npf", "npi", "pyf", "py"])])
        if kind == "csub":
            b.add(f"bin {h} sub {c0} {x}" + sf, focus=True)
        elif kind == "cadd":
            b.add(f"bin {h} add {c0} {x}" + sf, focus=True)
        elif kind == "subc":
            b.add(f"bin {h} sub {x} {c0}" + sf, focus=True)
        elif kind == "cmul":
            b.add(f"bin {h} mul {c0} {x}" + sf, focus=True)
        elif kind == "cdiv":
            b.add(f"bin {h} div {x} #{rng.choice(['2', '-2', '1/2'])}", focus=True)
        elif kind == "ffill":
            b.add(f"fillna {h} {x} @{rng.choice(['ffill', 'pad'])}", focus=True)
        elif kind == "bfill":
            b.add(f"fillna {h} {x} @{rng.choice(['bfill', 'backfill'])}", focus=True)
        elif kind == "fills":
            b.add(f"fillna {h} {x} #{rng.choice(['0', '7'])}", focus=True)
        elif kind == "neg":
            b.add(f"un {h} neg {x}", focus=True)
        else:
            b.add(f"bin {h} {rng.choice(BINOPS_REL)} {c0} {x}", focus=True)
        b.add(f"frame {h}", focus=True)
        b.add(f"consistent {h}", focus=True)
        b.add(f"stepchanges {h}", focus=True)
        b.add(f"frame {x}", focus=True)                 # the operand is untouched …
        b.add(f"stepchanges {x}", focus=True)
        k, k2 = b.reg("k"), b.reg("k")
        b.add(f"bin {k} {rng.choice(['add', 'sub'])} {h} {g}", focus=True)     # … the result is a first-class operand …
        b.add(f"frame {k}", focus=True)
        b.add(f"bin {k2} add {x} {g}", focus=True)                             # … and so, still, is the operand
        b.add(f"frame {k2}", focus=True)
        b.tags.update(kind="provenance", op=kind, touch=t, route=route, shape=shape)
        progs.append(b.program())
    return progs


def gen_c16(rng, n):
    progs = gen_c16_provenance(rng, max(40, n // 2))
    for _ in range(n):
        dom = pick_domain(rng)
        cl = rng.choice("LR")
        specs = [pick_spec(rng, cl, small_p=0.4, nanp=0.2, stepfree_p=0.15) for _ in range(3)]
        tree_seed = rng.random()
        import random as _r
        # the same tree under several provenance variants of the same leaves
        for variant in range(2):
            b = Builder(dom)
            leaves = [b.emit_any(s, rng) for s in specs]
            trng = _r.Random(tree_seed)
            b.n = 100  # keep tree register names identical across variants
            res = gen_tree(b, trng, leaves, 3)
            b.add(f"frame {res}", focus=True)
            b.add(f"consistent {res}", focus=True)
            b.add(f"stepchanges {res}", focus=True)
            b.add(f"deltaroundtrip {res}", focus=True)
            xs = " ".join(fs(x) for x in b.critical(range(0, 11)))
            b.add(f"limit {res} left {xs}", focus=True)
            b.add(f"limit {res} right {xs}", focus=True)
            for lf in leaves:
                b.add(f"frame {lf}", focus=True)      # the leaves must come out of the evaluation untouched
            b.tags.update(variant=variant)
            progs.append(b.program())
    return progs


# ----------------------------------------------------------------------------- C18 aggregation
def gen_matrices(rng, n):
    """cov / corr matrices of 2-5 members (some with undefined regions the others do not share): every entry is the
    pairwise Stairs result, the matrix is symmetric, corr has a unit diagonal"""
    progs = []
    for _ in range(n):
        b = Builder(pick_domain(rng))
        cl = rng.choice("LR")
        k = rng.choice([2, 3, 4, 4, 5])
        members = [b.emit_any(pick_spec(rng, cl, small_p=0.2, nanp=rng.choice([0.0, 0.25, 0.4]), stepfree_p=0.0, maxsteps=5), rng)
                   for _ in range(k)]
        b.note_points([0, 10])
        via = rng.choice(["", " ;; via=accessor", " ;; via=sarray"])
        for which in ("cov", "corr"):
            b.add(f"covm {which} 0 10 " + " ".join(members) + via, focus=True)
        # and pairwise, the same numbers
        i, j = rng.sample(range(k), 2)
        b.add(f"cov {members[i]} {members[j]} 0 10 0 pre", focus=True)
        b.add(f"corr {members[i]} {members[j]} 0 10 0 pre", focus=True)
        b.tags.update(kind="matrix", size=k)
        progs.append(b.program())
    return progs


def gen_single_stepped(rng, n, domains):
    """collections in which exactly one member has step points (the others are step-free constants, or there are no
    others): the result is an ordinary step function of the same domain - combined again with a member afterwards"""
    progs = []
    for i in range(n):
        b = Builder(domains[i % len(domains)])
        cl = rng.choice("LR")
        f = pick_spec(rng, cl, small_p=0.3, nanp=0.15, stepfree_p=0.0)
        while not f.rows:
            f = pick_spec(rng, cl, small_p=0.3, nanp=0.15, stepfree_p=0.0)
        A = b.emit_any(f, rng)
        members = [A]
        for _ in range(rng.choice([0, 1, 2])):
            c0 = b.reg()
            b.add(f"new {c0} {rng.choice('LR')} {rng.choice(['0', '1', '-2', '3'])}")
            members.append(c0)
        rng.shuffle(members)
        h = b.reg("h")
        name = rng.choice(["sum", "mean", "max", "min", "median", "logical_or", "logical_and"])
        cont = rng.choice(["list", "tuple", "dict", "ndarray", "series", "sarray"])
        b.add(f"agg {h} {name} " + " ".join(members) + f" ;; container={cont}", focus=True)
        b.observe(h)
        k = b.reg("k")
        b.add(f"bin {k} {rng.choice(['add', 'sub', 'mul'])} {h} {A}", focus=True)
        b.add(f"frame {k}", focus=True)
        b.tags.update(kind="singlestepped", name=name, container=cont)
        progs.append(b.program())
    return progs


def gen_c18(rng, n):
    progs = gen_matrices(rng, max(20, n // 10)) + gen_single_stepped(rng, max(18, n // 30), DOMS_ALL)
    for _ in range(n):
        b = Builder(pick_domain(rng))
        cl = rng.choice("LR")
        k = rng.randint(1, 5)
        members = []
        for _ in range(k):
            s = pick_spec(rng, cl, small_p=0.4, nanp=0.15, stepfree_p=0.2)
            if not s.rows and rng.random() < 0.3:
                s.closed = rng.choice("LR")
            members.append(b.emit_any(s, rng))
        if rng.random() < 0.3:
            members.append(rng.choice(members))   # duplicate member
        kind = rng.random()
        if kind < 0.7:
            name = rng.choice(["sum", "mean", "median", "min", "max", "logical_or", "logical_and"])
            h = b.reg("h")
            cont = rng.choice(["list", "tuple", "dict", "ndarray", "series", "sarray", "accessor"])
            if cont == "accessor" and name.startswith("logical"):
                cont = "sarray"
            b.add(f"agg {h} {name} " + " ".join(members) + f" ;; container={cont}", focus=True)
            b.observe(h)
            if name == "sum":
                acc = members[0]
                for m in members[1:]:
                    t = b.reg("t")
                    b.add(f"bin {t} add {acc} {m}")
                    acc = t
                b.add(f"ident {h} {acc}", focus=True)
            b.tags.update(kind="agg", name=name, container=cont)
        elif kind < 0.74:
            b.add("arrayneg " + " ".join(members) + (" ;; form=dunder" if rng.random() < 0.5 else ""), focus=True)
            b.tags.update(kind="arrayneg")
        elif kind < 0.85:
            op = rng.choice(BINOPS_ARITH + BINOPS_REL)
            other = rng.choice(["scalar", "stairs", "array"])
            b.add(f"arraybin {op} {other} " + " ".join(members) +
                  (" / " + scalar_token(rng, allow_nan=False) if other == "scalar" else ""), focus=True)
            b.tags.update(kind="arraybin", name=op)
        else:
            # tables never combine members, so the members may have any mix of closed sides
            extra = []
            for _ in range(rng.randint(1, 3)):
                s2 = pick_spec(rng, rng.choice("LR"), small_p=0.4, nanp=0.15, stepfree_p=0.3)
                extra.append(b.emit_any(s2, rng))
            allm = extra + members if rng.random() < 0.5 else members + extra
            crit = b.critical()
            if rng.random() < 0.5:
                crit = crit + rng.sample(crit, min(2, len(crit)))     # repeated, unsorted query points
                rng.shuffle(crit)
            xs = " ".join(fs(x) for x in crit)
            b.add(f"arraysample {rng.choice(['sample', 'sample', 'limitleft', 'limitright'])} {len(allm)} " + " ".join(allm) + " / " + xs +
                  rng.choice(["", "", " ;; top=1", " ;; top=1", " ;; acc=reuse"]), focus=True)
            b.tags.update(kind="arraysample")
        progs.append(b.program())
    return progs


# ----------------------------------------------------------------------------- C19 cov / corr
def gen_c19(rng, n):
    progs = []
    for _ in range(n):
        b = Builder(pick_domain(rng))
        cl = rng.choice("LR")
        f = pick_spec(rng, cl, small_p=0.2, nanp=0.2, stepfree_p=0.0, maxsteps=5)
        g = pick_spec(rng, cl, small_p=0.2, nanp=0.2, stepfree_p=0.0, maxsteps=5)
        A = b.emit_any(f, rng)
        B = b.emit_any(g, rng)
        b.note_points([0, 10])
        for _ in range(3):
            lo, hi = window_choice(rng, b, p_none=0.15)
            if lo is None or hi is None:
                lo, hi = (Fraction(0), Fraction(10)) if rng.random() < 0.7 else (lo, hi)
            lag = rng.choice([0, 0, 1, -1, 2, Fraction(1, 2)])
            cp = rng.choice(["pre", "post"])
            for which in ("cov", "corr"):
                b.add(f"{which} {A} {B} {fs(lo)} {fs(hi)} {fs(lag)} {cp}", focus=True)
            b.add(f"cov {B} {A} {fs(lo)} {fs(hi)} 0 pre", focus=True)
            b.add(f"cov {A} {A} {fs(lo)} {fs(hi)} 0 pre", focus=True)
            b.add(f"stat {A} var {fs(lo)} {fs(hi)} default", focus=True)
        if rng.random() < 0.3:
            C = b.emit_any(pick_spec(rng, cl, nanp=0.1, stepfree_p=0.0), rng)
            via = rng.choice(["", " ;; via=accessor", " ;; via=sarray"])
            b.add(f"covm cov 0 10 {A} {B} {C}" + via, focus=True)
            b.add(f"covm corr 0 10 {A} {B} {C}" + via, focus=True)
        progs.append(b.program())
    return progs + gen_matrices(rng, max(15, n // 10))


def gen_cov_overflow(rng, n):
    """one-year-per-tick datetime domains with values around 10: f and g alone stay inside the Timedelta range, the
    product f*g times a length does not, so mean(f*g) runs through the library's overflow fallback"""
    progs = []
    vals = [Fraction(x) for x in (8, 10, 12, 15, -9, 12)]
    for _ in range(n):
        b = Builder(rng.choice(["dtbig", "tdbig"]))
        cl = rng.choice("LR")
        while True:
            f = rand_spec(rng, cl, maxsteps=5, span=10, nanp=0.3, vals=vals, stepfree_p=0.0)
            g = rand_spec(rng, cl, maxsteps=5, span=10, nanp=0.3, vals=vals, stepfree_p=0.0)
            def interior_gap(sp):
                vs_ = [v for _, v in sp.rows]
                return any(v is None and any(u is not None for u in vs_[:i]) and any(u is not None for u in vs_[i + 1:])
                           for i, v in enumerate(vs_))
            if (len(f.rows) >= 2 and len(g.rows) >= 2 and spec_pieces(f, 0, 10) and spec_pieces(g, 0, 10)
                    and (interior_gap(f) or interior_gap(g))):
                break
        A = b.emit(f, rng.choice(["fromvalues", "layers", "layerv"]), rng)
        Bq = b.emit(g, rng.choice(["fromvalues", "layers", "layerv"]), rng)
        b.note_points([0, 10])
        for which in ("cov", "corr"):
            b.add(f"{which} {A} {Bq} 0 10 0 pre", focus=True)
        b.add(f"cov {Bq} {A} 0 10 0 pre", focus=True)
        b.tags.update(kind="covoverflow")
        progs.append(b.program())
    return progs


# ----------------------------------------------------------------------------- C20 shift / diff / rolling
def gen_c20(rng, n):
    progs = []
    for _ in range(n):
        b = Builder(pick_domain(rng))
        f = pick_spec(rng, small_p=0.3, nanp=0.2, stepfree_p=0.1)
        A = b.emit_any(f, rng)
        t = rng.random()
        if t < 0.35:
            d = rng.choice([0, 1, -1, 2, -3, Fraction(1, 2), Fraction(-3, 2)])
            h = b.reg("h")
            b.add(f"shift {h} {A} {fs(d)}", focus=True)
            b.note_points([p + d for p in f.points()])
            b.observe(h)
            b.add(f"closed {h}", focus=True)
            if f.rows and rng.random() < 0.5:
                # the shifted function is a new object: layering onto it (on one of its step points) must not move f
                p0 = rng.choice(f.points()) + d
                b.add(f"layer {h} {fs(p0)} {fs(p0 + rng.choice([1, 2]))} {rng.choice([10, -3])}")
                b.add(f"frame {A}", focus=True)
                b.add(f"stepchanges {A}", focus=True)
                p1 = rng.choice(f.points())
                b.add(f"layer {A} {fs(p1)} {fs(p1 + 1)} 7")
                b.add(f"frame {h}", focus=True)
        elif t < 0.6:
            d = rng.choice([1, -1, 2, -3, Fraction(1, 2)])
            h = b.reg("h")
            b.add(f"diff {h} {A} {fs(d)}", focus=True)
            b.note_points([p + d for p in f.points()])
            b.observe(h)
            s, x = b.reg("s"), b.reg("x")
            b.add(f"shift {s} {A} {fs(d)}")
            b.add(f"bin {x} sub {A} {s}")
            b.add(f"ident {h} {x}", focus=True)
        else:
            if not f.rows:
                continue
            l, r = rng.choice([(-1, 0), (0, 1), (-1, 1), (-2, 1), (Fraction(-1, 2), Fraction(1, 2)), (-3, -1), (1, 2)])
            lo, hi = window_choice(rng, b, p_none=0.4)
            b.add(f"rolling {A} {fs(l)} {fs(r)} {fs(lo)} {fs(hi)}", focus=True)
        progs.append(b.program())
    return progs


def across_domains(progs, rng, domains=DOMS_ALL, per=3):
    """C17: replay each program in several domains"""
    out = []
    for p in progs:
        doms = ["int"] + rng.sample([d for d in domains if d != "int"], per)
        for d in doms:
            q = dict(p, domain=d, tags=dict(p.get("tags", {}), src_domain=p["domain"]))
            out.append(q)
    return out
