"""Comparison of structured results from the implementation and from the model."""
from fractions import Fraction

TOL = Fraction(1, 2**30)


# purely relative comparison (statements carrying the option `reltol=1`: programs over tiny or huge values, where an
# absolute floor of 2^-30 would hide exactly the differences they are meant to show)
_RELATIVE = False


def veq(a, b, tol=TOL):
    """value equality: None = NaN; strings (inf tokens, markers) never equal a model value"""
    if a is None or b is None:
        return a is None and b is None
    if isinstance(a, str) or isinstance(b, str):
        return False
    if a == b:
        return True
    if _RELATIVE:
        return abs(a - b) <= tol * abs(b)
    return abs(a - b) <= tol * max(1, abs(b))


def normalise_rows(init, rows):
    """merge adjacent equal pieces (so that only the denoted function is compared)"""
    out = []
    prev = init
    for p, v in rows:
        # float noise: pieces whose values agree to 2^-30 relative are one piece (non-dyadic quotients that are equal as
        # rationals may differ in the last bit after further float arithmetic)
        # (in relative mode - tiny / offset values - only exactly equal neighbours are one piece)
        if _RELATIVE or isinstance(v, str) or isinstance(prev, str):
            same = v == prev
        else:
            same = veq(v, prev)
        if same:
            continue
        out.append((p, v))
        prev = v
    return out


def frames_equal(fi, fm, normalise=True, closed=False):
    if fi[0] != "frame" or fm[0] != "frame":
        return fi == fm
    _, ci, ii, ri = fi
    _, cm, im, rm = fm
    if closed and ci != cm:
        return False
    if not veq(ii, im):
        return False
    if normalise:
        ri = normalise_rows(ii, ri)
    if len(ri) != len(rm):
        return False
    return all(p == q and veq(v, w) for (p, v), (q, w) in zip(ri, rm))


def vals_equal(a, b):
    if a[0] != "vals" or b[0] != "vals":
        return a == b
    return len(a[1]) == len(b[1]) and all(veq(x, y) for x, y in zip(a[1], b[1]))


def pairs_equal(a, b):
    if a[0] != "pairs" or b[0] != "pairs":
        return a == b
    if len(a[1]) != len(b[1]):
        return False
    for (k1, v1), (k2, v2) in zip(a[1], b[1]):
        if isinstance(k1, tuple):
            if not (len(k1) == len(k2) and all(veq(x, y) for x, y in zip(k1, k2))):
                return False
        elif not veq(k1, k2):
            return False
        if not veq(v1, v2):
            return False
    return True


def results_equal(stmt, ri, rm, mode):
    global _RELATIVE
    _RELATIVE = "reltol=1" in stmt
    try:
        return _results_equal(stmt, ri, rm, mode)
    finally:
        _RELATIVE = False


def _results_equal(stmt, ri, rm, mode):
    """mode: dict(normalise=bool, closed=bool)"""
    cmd = stmt.split()[0]
    if "errorsonly=1" in stmt:
        # C15 only asks whether the closed-side mismatch is reported
        cm = ("err", "ClosedMismatch")
        return (ri == cm) == (rm == cm)
    if rm == ("err", "Undefined"):
        # the statistic does not exist (empty value set / no finite defined piece): the implementation
        # either raises or answers NaN; the properties do not say which
        # (C08/C09 are stated for functions with at least one finite defined piece); whatever the
        # implementation does there - raise, NaN, or a degenerate number - is outside the properties
        return True
    if ri[0] == "err" or rm[0] == "err":
        return ri == rm
    if cmd == "deltaroundtrip":
        return frames_equal(ri, rm, normalise=False, closed=False)
    if cmd in ("frame", "rawframe", "views"):
        return frames_equal(ri, rm, normalise=mode.get("normalise", True) and cmd == "frame",
                            closed=mode.get("closed", False) or cmd == "views")
    if rm[0] == "frames":
        return (ri[0] == "frames" and len(ri[1]) == len(rm[1]) and
                all(frames_equal(a, b, normalise=mode.get("normalise", True), closed=mode.get("closed", False))
                    for a, b in zip(ri[1], rm[1])))
    if rm[0] == "corrpartslist":
        return (ri[0] == "vals" and len(ri[1]) == len(rm[1]) and
                all(parts is not None and corr_equal(("vals", [y]), ("corrparts", parts)) for y, parts in zip(ri[1], rm[1])))
    if cmd == "stat" and stmt.split()[2] == "modes":
        # "a value of maximal total length": membership in the model's arg-max set
        if ri[0] != "vals" or rm[0] != "vals" or len(ri[1]) != 1:
            return False
        return any(veq(ri[1][0], m) for m in rm[1])
    if cmd == "corr":
        return corr_equal(ri, rm)
    if cmd == "cov" and _RELATIVE and ri[0] == "vals" and rm[0] == "vals" and len(ri[1]) == len(rm[1]) == 1:
        # a covariance is a difference of two moments: its float noise is relative to those moments (values are
        # k * 2^-40 in these programs, the moments of order 2^-80), not to the possibly vanishing difference
        a, b = ri[1][0], rm[1][0]
        if a is None or b is None or isinstance(a, str) or isinstance(b, str):
            return veq(a, b)
        return abs(a - b) <= TOL * max(abs(b), Fraction(1, 2 ** 80))
    if cmd == "q" and stmt.split()[2] == "modes":
        return ri[0] == "vals" and len(ri[1]) == 1 and any(veq(ri[1][0], m) for m in rm[1])
    if rm[0] == "modesets":
        if ri[0] != "vals" or len(ri[1]) != len(rm[1]):
            return False
        return all(ms is not None and any(veq(v, m) for m in ms) for v, ms in zip(ri[1], rm[1]))
    if ri[0] == "vals":
        return vals_equal(ri, rm)
    if ri[0] == "pairs":
        return pairs_equal(ri, rm)
    return ri == rm


def corr_equal(ri, rm):
    """model gives (cov, var f, var g); implementation gives cov / (std f * std g), NaN when that is 0"""
    if rm[0] != "corrparts" or ri[0] != "vals":
        return ri == rm
    c, vf, vg = rm[1]
    y = ri[1][0]
    if c is None or vf is None or vg is None or vf == 0 or vg == 0:
        return y is None
    if y is None or isinstance(y, str):
        return False
    # y^2 * vf * vg == c^2 and sign(y) == sign(c)
    if (y > 0) != (c > 0) and not (abs(y) < TOL and (abs(c) < TOL and not _RELATIVE or c == 0)):
        return False
    lhs = y * y * vf * vg
    rhs = c * c
    if _RELATIVE:
        # scale-free form: y^2 against cov^2 / (var f * var g), which lies in [0, 1]
        return abs(y * y - rhs / (vf * vg)) <= Fraction(1, 2**24)
    return abs(lhs - rhs) <= Fraction(1, 2**24) * max(1, abs(rhs))


def show(r):
    def sv(v):
        if v is None:
            return "nan"
        if isinstance(v, Fraction):
            f = float(v)
            return str(v) if v.denominator <= 1024 else repr(f)
        return str(v)
    if r[0] == "frame":
        return f"{r[1]} {sv(r[2])} | " + " ".join(f"{sv(p)}:{sv(v)}" for p, v in r[3])
    if r[0] == "frames":
        return " ;; ".join(show(x) for x in r[1])
    if r[0] in ("vals", "corrparts"):
        return " ".join(sv(v) for v in r[1])
    if r[0] == "pairs":
        return " ".join(f"{k}:{sv(v)}" for k, v in r[1])
    if r[0] == "err":
        return "ERR " + r[1]
    return " ".join(str(x) for x in r)
