#!/venv/bin/python
"""Replays a violation file written by check.py against /repo's working tree.
exit 1 while the implementation still disagrees with the proved model's answer, exit 0 otherwise."""
import json
import os
import sys

HERE = os.path.dirname(os.path.abspath(__file__))
sys.path.insert(0, HERE)
import compare  # noqa: E402
import model_runner  # noqa: E402
import props  # noqa: E402
from impl_runner import Impl  # noqa: E402


def main():
    path = sys.argv[1]
    if not os.path.isabs(path) and not os.path.exists(path):
        path = os.path.join(os.path.dirname(HERE), path)
    d = json.load(open(path))
    if "lines" not in d:
        print("this replay names a proof obligation / source tie that no longer checks (no failing input was found):")
        print(json.dumps(d, indent=1)[:3000])
        return 1
    verbose = "-v" in sys.argv
    pc = props.PROPS[d["property"]]
    ri = Impl(d.get("domain", "int")).run(d["lines"])
    rm = model_runner.run_model([d["lines"]])[0]
    bad = 0
    for i, (l, a, b) in enumerate(zip(d["lines"], ri, rm)):
        eq = compare.results_equal(l, a, b, pc.mode)
        mark = "  " if eq else "XX"
        if verbose or not eq or i == d.get("statement"):
            print(f"{mark} {l}\n      impl : {compare.show(a)}\n      model: {compare.show(b)}")
        if not eq and (i == d.get("statement") or a[0] == "err" or b[0] == "err"):
            bad += 1
    print("still failing" if bad else "no longer failing")
    return 1 if bad else 0


if __name__ == "__main__":
    sys.exit(main())
