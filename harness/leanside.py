"""Lean side of a check: regenerate the source-derived tables, build the property's modules,
audit the axioms of every theorem in Props/<prop>.lean, (thorough) re-check with leanchecker."""
import ast
import fcntl
import hashlib
import os
import re
import subprocess
import sys

HERE = os.path.dirname(os.path.abspath(__file__))
ROOT = os.path.dirname(HERE)
LEAN_DIR = os.path.join(ROOT, "lean")
REPO = os.environ.get("VERIF_REPO", "/repo")
ALLOWED_AXIOMS = {"propext", "Classical.choice", "Quot.sound"}
FORBIDDEN = re.compile(r"\b(sorry|admit|native_decide|bv_decide|implemented_by|unsafe)\b|^axiom |maxHeartbeats 0")

TRUSTED = [
    "Lean 4.33 kernel (thorough tier: re-checked by leanchecker)",
    "axioms: propext, Classical.choice, Quot.sound only (audited per theorem with #print axioms on every run)",
    "Mathlib v4.33 modules imported by the proof files",
    "tools/extract_tables.py (Python-ast -> Lean table translator; output compared by decide)",
    "harness/ (program generators, impl_runner canonicalisation, comparison tolerances)",
    "pandas 2.3.3 / numpy 1.26 / CPython 3.12 executing /repo's working tree",
]
ASSUMPTIONS = [
    "the model's value type is exact rationals; float64 rounding/overflow in the implementation is outside the model "
    "(inputs are small dyadic numbers so structural results are exact; statistics compared to 2^-30 relative)",
    "the tie between model and code is a checked correspondence on generated programs, not a proof about pandas",
    "dtypes, index classes, timezone objects and warnings are observed only through their effect on results",
]


def strip_comments(src):
    src = re.sub(r"/-.*?-/", "", src, flags=re.S)
    return "\n".join(l.split("--")[0] for l in src.split("\n"))


def theorem_names(path):
    src = strip_comments(open(path).read())
    ns = []
    names = []
    for line in src.split("\n"):
        m = re.match(r"\s*namespace\s+(\S+)", line)
        if m:
            ns.append(m.group(1))
            continue
        m = re.match(r"\s*end\s+(\S+)", line)
        if m and ns and ns[-1] == m.group(1):
            ns.pop()
            continue
        m = re.match(r"\s*(?:@\[[^\]]*\]\s*)?(?:protected\s+)?theorem\s+(\S+)", line)   # private helpers are covered transitively
        if m:
            names.append(".".join(ns + [m.group(1)]))
    return names


def lock():
    os.makedirs(os.path.join(ROOT, ".locks"), exist_ok=True)
    fh = open(os.path.join(ROOT, ".locks", "lean.lock"), "w")
    fcntl.flock(fh, fcntl.LOCK_EX)
    return fh


def run(cmd, timeout=3000):
    p = subprocess.run(cmd, cwd=LEAN_DIR, capture_output=True, text=True, timeout=timeout)
    return p.returncode, p.stdout + p.stderr


def build_and_audit(prop, tier, skip=False):
    res = dict(obligations=[], axioms=[], checker_cmd="", trusted_base=TRUSTED, assumptions=ASSUMPTIONS, translator={})
    props_file = os.path.join(LEAN_DIR, "SCModel", "Props", f"{prop}.lean")
    if skip or not os.path.exists(props_file):
        return res
    names = theorem_names(props_file)
    extra_files = [os.path.join(LEAN_DIR, "SCModel", "Props", f"{x}.lean") for x in EXTRA_FILES.get(prop, [])]
    extra_files = [f for f in extra_files if os.path.exists(f)]
    for f in extra_files:
        names += theorem_names(f)
    tie_file = os.path.join(LEAN_DIR, "SCModel", "Props", "Tie.lean")
    fh = lock()
    try:
        try:
            tools = os.path.join(ROOT, "tools")
            if tools not in sys.path:
                sys.path.insert(0, tools)
            import extract_tables
            res["translator"] = extract_tables.regenerate()
        except Exception as exc:  # noqa: BLE001
            res["translator"] = {"error": repr(exc)}
        targets = [f"SCModel.Props.{prop}"] + [f"SCModel.Props.{x}" for x in EXTRA_FILES.get(prop, [])
                                               if os.path.exists(os.path.join(LEAN_DIR, "SCModel", "Props", f"{x}.lean"))]
        tie_names = []
        if os.path.exists(tie_file) and prop in tie_props():
            targets.append("SCModel.Props.Tie")
            tie_names = [n for n in theorem_names(tie_file) if prop in tie_props_of(n)]
        cmd = ["lake", "build"] + targets
        res["checker_cmd"] = "cd lean && " + " ".join(cmd) + f" && lake env lean <#print axioms of {len(names) + len(tie_names)} theorems>"
        rc, out = run(cmd)
        build_ok = rc == 0
        tie_ok = True
        if not build_ok and len(targets) > 1:
            rc1, out1 = run(["lake", "build", targets[0]])
            if rc1 == 0:
                build_ok, tie_ok = True, False
        # forbidden constructs in the property's own sources
        bad = []
        closure = set(source_closure(props_file))
        for ef in extra_files:
            closure |= set(source_closure(ef))
        for f in closure:
            for i, line in enumerate(strip_comments(open(f).read()).split("\n")):
                if FORBIDDEN.search(line):
                    bad.append(f"{os.path.relpath(f, LEAN_DIR)}:{i + 1}: {line.strip()[:80]}")
        axioms = {}
        if build_ok:
            allnames = names + (tie_names if tie_ok else [])
            audit = os.path.join(LEAN_DIR, ".lake", f"audit_{prop}.lean")
            imports = "".join(f"import {t}\n" for t in targets if not t.endswith(".Tie")) + \
                ("import SCModel.Props.Tie\n" if tie_names and tie_ok else "")
            with open(audit, "w") as a:
                a.write(imports + "\n".join(f"#print axioms {n}" for n in allnames) + "\n")
            rc2, out2 = run(["lake", "env", "lean", audit])
            for m in re.finditer(r"'(\S+)' depends on axioms: \[([^\]]*)\]", out2.replace("\n", " ")):
                axioms[m.group(1)] = [a.strip() for a in m.group(2).split(",") if a.strip()]
            for m in re.finditer(r"'(\S+)' does not depend on any axioms", out2):
                axioms[m.group(1)] = []
        for n in names:
            ok = build_ok and n in axioms and set(axioms[n]) <= ALLOWED_AXIOMS and not bad
            why = "" if ok else ("build failed: " + out[-600:] if not build_ok else
                                 ("forbidden construct: " + "; ".join(bad[:3]) if bad else f"axioms: {axioms.get(n)}"))
            res["obligations"].append(dict(name=n, ok=ok, why=why))
        for n in tie_names:
            ok = build_ok and tie_ok and n in axioms and set(axioms[n]) <= ALLOWED_AXIOMS
            res["obligations"].append(dict(name=n, ok=ok, kind="source-tie",
                                           why="" if ok else "generated table no longer equals the model's table"))
        res["axioms"] = sorted({a for v in axioms.values() for a in v})
        if tier == "thorough" and build_ok:
            # the property's own module, its extension modules and (where it serves the property) the Tie module
            mods = list(targets)
            rc3, out3 = run(["lake", "env", "leanchecker"] + mods, timeout=3000)
            res["leanchecker"] = dict(rc=rc3, tail=out3[-300:])
            res["checker_cmd"] += " && lake env leanchecker " + " ".join(mods)
            if rc3 != 0:
                for o in res["obligations"]:
                    o["ok"] = False
                    o["why"] = "leanchecker rejected the module: " + out3[-300:]
    finally:
        fh.close()
    return res


def source_closure(path, seen=None):
    """the Lean files of this project imported (transitively) by `path`"""
    seen = seen if seen is not None else set()
    if path in seen or not os.path.exists(path):
        return seen
    seen.add(path)
    for m in re.finditer(r"^import\s+(SCModel\.\S+)", open(path).read(), flags=re.M):
        source_closure(os.path.join(LEAN_DIR, m.group(1).replace(".", "/") + ".lean"), seen)
    return seen


def tie_props():
    return TIE_MAP.keys()


# further proof files whose theorems belong to a property (delta-form model -> C16; second cov file -> C19)
EXTRA_FILES = {"C01": ["C04b", "C01b"], "C02": ["C02b"], "C03": ["C03b"], "C04": ["C04b"], "C05": ["C04b", "C06b"], "C06": ["C07b", "C06b"],
               "C07": ["C07b"], "C08": ["C08b", "C08c"], "C09": ["C09b", "C09c"], "C10": ["C10b"], "C11": ["C10b", "C11b"], "C12": ["C12b"],
               "C13": ["C14b"], "C14": ["C14b", "C14cA", "C14cB", "C14cC", "C14cD", "C14c", "C14d"], "C15": ["C15b"], "C16": ["Forms", "C16c"], "C17": ["C17b"], "C18": ["C18b", "C18c"],
               "C19": ["C19b", "C19c"], "C20": ["C20b", "C20c", "C20d"]}

# which Tie theorems (source-regenerated tables = model tables) serve which property
TIE_MAP = {
    "C02": ["tie_layerScalar"],
    "C03": ["tie_sampleSide", "tie_formConversions"],
    "C16": ["tie_formConversions"],
    "C05": ["tie_scalarLogic"],
    "C06": ["tie_clipSides", "tie_maskify"],
    "C12": ["tie_removeViaValues", "tie_removeViaDeltas"],
    "C10": ["tie_getLims"],
    "C11": ["tie_slicerEndpoint", "tie_slicerCombine"],
    "C14": ["tie_layerPrefix"],
    "C15": ["tie_mismatchCond", "tie_ctorCensus"],
}


def tie_props_of(name):
    return [p for p, names in TIE_MAP.items() if name.split(".")[-1] in names]


def fingerprints(anchors):
    """normalised-AST hash of anchored source files (informational)"""
    out = {}
    for rel in anchors:
        p = os.path.join(REPO, rel)
        try:
            tree = ast.parse(open(p).read())
            out[rel] = hashlib.sha1(ast.dump(tree, annotate_fields=False).encode()).hexdigest()[:12]
        except Exception as exc:  # noqa: BLE001
            out[rel] = "unreadable:" + type(exc).__name__
    return out
