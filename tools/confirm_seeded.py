#!/venv/bin/python
"""Confirms candidate seeded changes produced by sub-agents and files the confirmed ones under /verif/seeded/.

usage: tools/confirm_seeded.py <property> <outdir> [<outdir> ...]
For every changeN.diff / demoN.py pair in <outdir>: in a fresh scratch worktree of /repo (under /tmp)
  * the patch applies, the library imports, the FULL test suite passes with it,
  * the demonstration exits non-zero with the change and 0 without it.
Confirmed changes are copied to /verif/seeded/<property>-<k>/ {patch.diff, demo.py, meta.json, notes.md}.
The scratch worktree is removed afterwards.
"""
import json
import os
import re
import shutil
import subprocess
import sys

ROOT = os.path.dirname(os.path.dirname(os.path.abspath(__file__)))
REPO = "/repo"
WT = "/tmp/confirm_wt"


def sh(cmd, **kw):
    return subprocess.run(cmd, capture_output=True, text=True, **kw)


def main():
    prop = sys.argv[1]
    outdirs = sys.argv[2:]
    sh(["git", "-C", REPO, "worktree", "remove", "--force", WT])
    shutil.rmtree(WT, ignore_errors=True)
    r = sh(["git", "-C", REPO, "worktree", "add", "-q", "--detach", WT, "HEAD"])
    if r.returncode != 0:
        print("cannot create worktree", r.stderr)
        return 2
    head = sh(["git", "-C", REPO, "rev-parse", "--short", "HEAD"]).stdout.strip()
    try:
        for outdir in outdirs:
            notes = open(os.path.join(outdir, "notes.md")).read() if os.path.exists(os.path.join(outdir, "notes.md")) else ""
            for k in (1, 2, 3):
                diff = os.path.join(outdir, f"change{k}.diff")
                demo = os.path.join(outdir, f"demo{k}.py")
                if not (os.path.exists(diff) and os.path.exists(demo)):
                    continue
                sh(["git", "-C", WT, "checkout", "--", "."])
                d0 = sh(["/venv/bin/python", demo], cwd=WT, env=dict(os.environ, PYTHONPATH=WT))
                ap = sh(["git", "-C", WT, "apply", diff])
                if ap.returncode != 0:
                    print(f"{outdir} change{k}: patch does not apply: {ap.stderr[:200]}")
                    continue
                imp = sh(["/venv/bin/python", "-c", "import staircase, sys; print(staircase.__file__)"], cwd=WT)
                d1 = sh(["/venv/bin/python", demo], cwd=WT, env=dict(os.environ, PYTHONPATH=WT))
                t = sh(["/venv/bin/python", "-m", "pytest", "-q", "-p", "no:cacheprovider", "-x", "-n", "8"], cwd=WT)
                summary = [l for l in t.stdout.strip().split("\n") if "passed" in l or "failed" in l][-1:] or [t.stdout[-200:]]
                files = sh(["git", "-C", WT, "diff", "--stat"]).stdout.strip()
                sh(["git", "-C", WT, "checkout", "--", "."])
                ok = (d0.returncode == 0 and d1.returncode != 0 and t.returncode == 0 and WT in imp.stdout)
                print(f"{outdir} change{k}: demo without={d0.returncode} with={d1.returncode} suite_rc={t.returncode} {summary[0].strip()}  -> {'CONFIRMED' if ok else 'REJECTED'}")
                if not ok:
                    continue
                n = 1
                while os.path.exists(os.path.join(ROOT, "seeded", f"{prop}-{n}")):
                    n += 1
                name = f"{prop}-{n}"
                dest = os.path.join(ROOT, "seeded", name)
                os.makedirs(dest, exist_ok=True)
                shutil.copy(diff, os.path.join(dest, "patch.diff"))
                shutil.copy(demo, os.path.join(dest, "demo.py"))
                # the part of the notes about this change
                sec = notes
                m = re.split(r"(?im)^#+\s*change\s*%d.*$" % k, notes)
                if len(m) > 1:
                    sec = re.split(r"(?im)^#+\s*change\s*\d.*$", m[1])[0]
                with open(os.path.join(dest, "notes.md"), "w") as fh:
                    fh.write(sec.strip() + "\n")
                meta = dict(
                    property=prop, source="independent sub-agent given only the property text and a scratch worktree",
                    repo_head=head, files_changed=files,
                    needs_to_manifest=sec.strip()[:1500],
                    confirmed=dict(
                        worktree=WT,
                        demo_exit_without_change=d0.returncode, demo_exit_with_change=d1.returncode,
                        demo_output_with_change=(d1.stdout + d1.stderr)[-600:],
                        test_suite="cd <worktree> && /venv/bin/python -m pytest -q -p no:cacheprovider -x -n 8",
                        test_suite_result=summary[0].strip()))
                with open(os.path.join(dest, "meta.json"), "w") as fh:
                    json.dump(meta, fh, indent=1)
    finally:
        sh(["git", "-C", REPO, "worktree", "remove", "--force", WT])
        shutil.rmtree(WT, ignore_errors=True)
    return 0


if __name__ == "__main__":
    sys.exit(main())
