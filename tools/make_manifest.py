#!/usr/bin/env python3
"""Regenerates /verif/MANIFEST.json from the registry (which properties have a Props/<id>.lean file)."""
import json
import os

ROOT = os.path.dirname(os.path.dirname(os.path.abspath(__file__)))

TITLES = {}
for line in open(os.path.join(ROOT, "properties.jsonl")):
    p = json.loads(line)
    TITLES[p["id"]] = p["title"]

# per property: (DESIGN section, what the theorems say, what stays on the correspondence side)
TEXT = {
    "C01": ("every successful arithmetic operation of the model is pointwise for both one-sided limits, undefined exactly where an operand is undefined or the divisor is zero, total unless the closed sides mismatch, also with scalars on either side; negation; the +-inf clean-up as a lemma",
            "float64 rounding/overflow for large or non-dyadic values"),
    "C02": ("layer = initial function + sum over the triples of (+v from start, -v from end) wherever the receiver is defined, undefined stays undefined, permutation invariance, successive calls = one vector call, exact cancellation",
            "argument normalisation (lists, tuples, ndarrays, Series, frames, sentinels) is tied by correspondence only"),
    "C03": ("limit() is the one-sided limit of the denoted function (dense unbounded order), sample() picks the limit by the closed side, all limits coincide off step points, the frame tiles (-inf, inf), step values are the right limits at the step points, initial value is the value below all steps, running sum of step changes reproduces step values",
            "vector / include_index call forms are compared element-wise by the harness"),
    "C04": ("relational results are the pointwise 0/1 indicator, undefined exactly where an operand is, canonical (usable in further operations), scalars (incl. NaN) on either side",
            "dtype leakage is observable only through follow-up operations run by the harness"),
    "C05": ("logical results are the pointwise truth value, undefined exactly where an operand is - including against absorbing constants; invert / make_boolean",
            "-"),
    "C06": ("clip = f inside the window and undefined outside (both limits), ValueError iff not lower < upper; mask / where pointwise; tuple forms; isna / notna; re-clipping composes",
            "string bounds and sentinel flavours are tied by correspondence only"),
    "C07": ("every form of fillna leaves defined points unchanged; scalar / function / ffill / bfill fill exactly as specified (explicit nearest-defined-piece characterisations)",
            "-"),
    "C08": ("value_sums / integral / mean / var as length-weighted sums over the finite defined pieces; independence of the row representation; var = E[v^2] - mean^2; bounds",
            "std = sqrt(var) is float glue (checked as std^2 = var, std >= 0); Timedelta scaling by correspondence"),
    "C09": ("ecdf limits are the shares of values <= y / < y; percentile = fractile(p/100) and its boundary midpoint rule; mode maximises total length; hist entries are shares of values in the bin and the stat normalisations",
            "share boundaries are only queried where float cumsum is exact (DESIGN 5.5)"),
    "C10": ("values_in_range is exactly the set of values taken at defined points of the window for all 8 (function side x interval closedness) rows; min/max are its least/greatest element",
            "-"),
    "C11": ("slices are clips; slicer min/max ignore undefined points and add the closed endpoint; resample = f outside the span, the constants inside",
            "PeriodIndex / IntervalIndex construction is tied by correspondence only"),
    "C12": ("every operation returns a canonical (sorted, minimal) result; identical() <-> same denoted function; constant result has no steps; bool(f) <-> constant 1; commutativity, associativity, distributivity, De Morgan, f-f, ~~f, mask/where duality up to identical",
            "float normalisation inside identical() is tied by correspondence only"),
    "C13": ("in the object-world model every operation other than layer leaves every existing object's function and closed side unchanged and creates a fresh object; layer changes only its receiver",
            "that pandas calls used by the code copy rather than alias is an assumption validated only by write-after-operation histories"),
    "C14": ("cache invariant: each cache is empty or holds the statistic of the current function; preserved by layer (which resets) and by queries; every answer of every interleaving equals the fresh answer; queries never change the function",
            "-"),
    "C15": ("binary operators, mask/where/fillna by a function and collection aggregations raise ClosedMismatch exactly when members with steps disagree, otherwise carry the side of the operand(s) with steps; unary operations keep the side; tuple forms and resample never mismatch",
            "cov / corr side logic is tied by the exhaustive configuration enumeration only"),
    "C16": ("expression trees: evaluation = pointwise definitions applied step by step; never an internal error on consistently closed leaves; the result depends only on the functions the leaves denote",
            "dtypes do not exist in the model; provenance / materialisation variants are run by the harness"),
    "C17": ("re-labelling the domain by a strictly monotone map commutes with every order-only operation; an affine map scales lengths and integrals and leaves mean / var / shares invariant",
            "per-dtype glue of the implementation is exactly what the cross-domain replay exercises"),
    "C18": ("aggregations are the pointwise reduction of the members' values, undefined where any member is; sum = folding +",
            "container normalisation and table forms by correspondence"),
    "C19": ("cov = E[fg] - E[f]E[g] over the common defined window; symmetric; cov(f,f) = var; lag = shifting the second operand",
            "corr = cov / sqrt(var var) compared in squared form; |corr| <= 1 not proved"),
    "C20": ("shift(d)(x) = f(x - d), closed kept; diff = f - shift; rolling_mean knots and values",
            "linear interpolation between knots is not proved (checked by correspondence)"),
}


def main():
    checks = []
    na = []
    for pid in sorted(TITLES):
        has = os.path.exists(os.path.join(ROOT, "lean", "SCModel", "Props", f"{pid}.lean"))
        if not has:
            na.append(dict(property_id=pid, reason="proof file SCModel/Props/%s.lean not finished yet; the correspondence "
                                                   "generator exists (harness/gen2.py) but no check is claimed without theorems" % pid))
            continue
        thm, rest = TEXT[pid]
        checks.append(dict(
            property_id=pid,
            quick_cmd=f"/venv/bin/python harness/check.py --property {pid} --tier quick",
            thorough_cmd=f"/venv/bin/python harness/check.py --property {pid} --tier thorough",
            evidence_file=f"evidence/{pid}.json",
            replay_cmd_template="/venv/bin/python harness/replay.py {path}",
            engine="lean4-proof+correspondence",
            level_claimed=dict(
                category="proof",
                text=f"{TITLES[pid]}: Lean 4 theorems over ALL step lists / points / values (lean/SCModel/Props/{pid}.lean): {thm}. "
                     "The hand-written model is tied to /repo's working tree on every run by a differential correspondence check "
                     "(generated programs run on the real library and on the model's executable definitions); a mismatch is shrunk and "
                     "reported as the failing input, a broken proof obligation without a failing input as no-failing-input-found.",
                design_ref=f"DESIGN.md §6 {pid}"),
            level_note="trusted: Lean 4.33 kernel; axioms propext, Classical.choice, Quot.sound (audited per theorem every run; no sorry / "
                       "native_decide / own axioms); single Mathlib modules; the correspondence harness (generators, canonicalisation, "
                       f"2^-30 tolerance for statistics); pandas/numpy. Modelled rather than verified: {rest}; float64 arithmetic.",
            technique="Lean 4 theorem proving over an executable model + differential correspondence against the implementation",
        ))
    m = dict(
        version=1,
        setup_cmd="cd lean && lake build SCModel SCModel.AllProps",
        hooks=dict(guard="STAIRCASE_VERIF",
                   enable="no hooks: every observation goes through the public API of /repo's working tree (harness puts /repo first on sys.path)",
                   baseline_off_cmd="cd /repo && /venv/bin/python -m pytest -q -p no:cacheprovider --timeout=900",
                   source_commits=[], add_only=True),
        engines=[dict(name="lean4-proof+correspondence", path="lean/ + harness/",
                      serves_properties=[c["property_id"] for c in checks],
                      kind_free_text="Lean 4 model and theorems; Python differential harness driving `lake env lean --run Driver.lean`")],
        checks=checks,
        not_applicable=na,
        notes=str(sum(1 for l in open(os.path.join(ROOT, "KNOWN_FINDINGS.txt")) if l.startswith("fixed:"))) +
              " genuine defects of the pinned tree were repaired by separate `fix:` commits in /repo (see KNOWN_FINDINGS.txt); "
              "no known: entries remain. Exit codes: 0 held, 1 VIOLATION line, 2 infrastructure.",
    )
    json.dump(m, open(os.path.join(ROOT, "MANIFEST.json"), "w"), indent=1)
    with open(os.path.join(ROOT, "lean", "SCModel", "AllProps.lean"), "w") as fh:
        fh.write("-- generated by tools/make_manifest.py: every property file, so that one target builds all proofs\n")
        for c in checks:
            fh.write(f"import SCModel.Props.{c['property_id']}\n")
        fh.write("import SCModel.Props.Tie\n")
        for extra in ("Forms", "C19b", "C20b", "C17b", "C08b", "C09b", "C18b", "C20c", "C02b", "C04b", "C10b", "C07b", "C12b", "C14b", "C16c", "C19c", "C01b", "C03b", "C11b", "C18c", "C15b", "C08c", "C09c", "C20d", "C06b", "C14c", "C14d"):
            if os.path.exists(os.path.join(ROOT, "lean", "SCModel", "Props", extra + ".lean")):
                fh.write(f"import SCModel.Props.{extra}\n")
    print("checks:", [c["property_id"] for c in checks], "not_applicable:", [n["property_id"] for n in na])


if __name__ == "__main__":
    main()
