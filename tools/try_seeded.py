#!/venv/bin/python
"""Applies a seeded change (seeded/<id>/patch.diff) to /repo, runs the given checks, reverts the change.

usage: tools/try_seeded.py seeded/<id> [Cxx,Cyy,...|all] [quick|thorough]
Prints one line per check and writes seeded/<id>/result.json.  /repo is always restored
(`git -C /repo checkout -- .`), also when a check crashes.
"""
import json
import os
import subprocess
import sys
import time

ROOT = os.path.dirname(os.path.dirname(os.path.abspath(__file__)))
REPO = "/repo"


def sh(cmd, **kw):
    return subprocess.run(cmd, capture_output=True, text=True, **kw)


def main():
    d = sys.argv[1].rstrip("/")
    if not os.path.isabs(d):
        d = os.path.join(ROOT, d)
    meta = json.load(open(os.path.join(d, "meta.json"))) if os.path.exists(os.path.join(d, "meta.json")) else {}
    props = sys.argv[2] if len(sys.argv) > 2 else meta.get("property", "all")
    tier = sys.argv[3] if len(sys.argv) > 3 else "quick"
    props = [f"C{i:02d}" for i in range(1, 21)] if props == "all" else props.split(",")
    patch = os.path.join(d, "patch.diff")
    st = sh(["git", "-C", REPO, "status", "--short", "--untracked-files=no"])
    if st.stdout.strip():
        print("refusing: /repo has uncommitted changes:\n" + st.stdout)
        return 2
    ap = sh(["git", "-C", REPO, "apply", patch])
    if ap.returncode != 0:
        print("patch does not apply:", ap.stderr[:500])
        return 2
    results = {}
    try:
        demo = os.path.join(d, "demo.py")
        if os.path.exists(demo):
            r = sh(["/venv/bin/python", demo], cwd=REPO)
            results["demo_exit_with_change"] = r.returncode
            print(f"demo with change: exit {r.returncode}")
        for p in props:
            t0 = time.time()
            env = dict(os.environ, VERIF_SEED=os.environ.get("VERIF_SEED", "0"))
            r = sh(["/venv/bin/python", "harness/check.py", "--property", p, "--tier", tier], cwd=ROOT, env=env)
            viol = [l for l in r.stdout.split("\n") if l.startswith("VIOLATION")]
            last = r.stdout.strip().split("\n")[-1] if r.stdout.strip() else r.stderr[-300:]
            results[p] = dict(exit=r.returncode, violations=viol, summary=last, wall_s=round(time.time() - t0, 1))
            print(f"{p}: exit {r.returncode}  {last}")
            for v in viol[:2]:
                print("    ", v)
                # keep a copy of the first replay next to the seeded change
                path = v.split("replay=")[1].split()[0]
                src = os.path.join(ROOT, path)
                if os.path.exists(src) and "replay" not in results[p]:
                    results[p]["replay"] = json.load(open(src))
    finally:
        sh(["git", "-C", REPO, "checkout", "--", "."])
    demo = os.path.join(d, "demo.py")
    if os.path.exists(demo):
        r = sh(["/venv/bin/python", demo], cwd=REPO)
        results["demo_exit_without_change"] = r.returncode
        print(f"demo without change: exit {r.returncode}")
    results["detected_by"] = [p for p in props if isinstance(results.get(p), dict) and results[p]["exit"] == 1]
    with open(os.path.join(d, "result.json"), "w") as fh:
        json.dump(results, fh, indent=1, default=str)
    print("detected by:", results["detected_by"])
    return 0


if __name__ == "__main__":
    sys.exit(main())
