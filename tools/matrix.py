#!/venv/bin/python
"""Detection matrix: which checks (correspondence part only) catch which seeded change.

Every seeded change is applied in its own scratch worktree of /repo (under /tmp, removed afterwards); the checks
run against that worktree (VERIF_REPO) and write their evidence/replays to a scratch directory (VERIF_OUT), so
/repo and /verif/evidence are never touched and several changes can be tried in parallel.
The Lean side is skipped here (the shared Generated/Tables.lean must not be regenerated from a mutated tree);
Tie-theorem detections are recorded by tools/try_seeded.py.

usage: tools/matrix.py [props=all|target|C01,C02] [seeded ids…]   -> writes seeded/MATRIX.json and prints a table
"""
import concurrent.futures as cf
import json
import os
import shutil
import subprocess
import sys

ROOT = os.path.dirname(os.path.dirname(os.path.abspath(__file__)))
REPO = "/repo"


def sh(cmd, **kw):
    return subprocess.run(cmd, capture_output=True, text=True, **kw)


def run_one(sid, props):
    wt = f"/tmp/mx_{sid}"
    out = f"/tmp/mxout_{sid}"
    sh(["git", "-C", REPO, "worktree", "remove", "--force", wt])
    shutil.rmtree(wt, ignore_errors=True)
    shutil.rmtree(out, ignore_errors=True)
    os.makedirs(out, exist_ok=True)
    r = sh(["git", "-C", REPO, "worktree", "add", "-q", "--detach", wt, "HEAD"])
    res = {}
    try:
        ap = sh(["git", "-C", wt, "apply", os.path.join(ROOT, "seeded", sid, "patch.diff")])
        if ap.returncode != 0:
            return sid, {"error": "patch does not apply: " + ap.stderr[:200]}
        env = dict(os.environ, VERIF_REPO=wt, VERIF_OUT=out, VERIF_NOSHRINK="1", VERIF_SEED=os.environ.get("VERIF_SEED", "0"))
        for p in props:
            c = sh(["/venv/bin/python", "harness/check.py", "--property", p, "--tier", "quick", "--skip-lean", "--procs", "4"],
                   cwd=ROOT, env=env)
            res[p] = c.returncode
    finally:
        sh(["git", "-C", REPO, "worktree", "remove", "--force", wt])
        shutil.rmtree(wt, ignore_errors=True)
        shutil.rmtree(out, ignore_errors=True)
    return sid, res


def main():
    props = sys.argv[1] if len(sys.argv) > 1 else "all"
    target_only = props == "target"      # every change against the check of the property it was written for
    props = [f"C{i:02d}" for i in range(1, 21)] if props in ("all", "target") else props.split(",")
    ids = sys.argv[2:] or sorted(d for d in os.listdir(os.path.join(ROOT, "seeded"))
                                 if os.path.isdir(os.path.join(ROOT, "seeded", d)))
    path = os.environ.get("MATRIX_FILE") or os.path.join(ROOT, "seeded", "MATRIX.json")
    matrix = json.load(open(path)) if os.path.exists(path) else {}
    with cf.ThreadPoolExecutor(max_workers=5) as ex:
        for sid, res in ex.map(lambda s: run_one(s, [s.split("-")[0]] if target_only else props), ids):
            matrix.setdefault(sid, {}).update(res)
            caught = [p for p, rc in sorted(matrix[sid].items()) if rc == 1]
            print(f"{sid}: caught by {caught}", flush=True)
            json.dump(matrix, open(path, "w"), indent=1, sort_keys=True)
    return 0


if __name__ == "__main__":
    sys.exit(main())
