#!/venv/bin/python
"""False-alarm test: applies a behaviour-preserving patch in a scratch worktree and runs every check against it.

usage: tools/try_refactor.py <patch.diff> [props=all]
 1. regenerates the source tables from the patched tree into a scratch file and compares them with
    lean/SCModel/Generated/Tables.lean (identical tables => every Tie theorem checks exactly as on the clean tree);
 2. runs the correspondence part of every check (seed from VERIF_SEED) against the patched tree.
Prints one line per patch: tables same/different, the properties that raised an alarm.
"""
import os
import shutil
import subprocess
import sys

ROOT = os.path.dirname(os.path.dirname(os.path.abspath(__file__)))


def sh(cmd, **kw):
    return subprocess.run(cmd, capture_output=True, text=True, **kw)


def main():
    patch = os.path.abspath(sys.argv[1])
    props = sys.argv[2] if len(sys.argv) > 2 else "all"
    props = [f"C{i:02d}" for i in range(1, 21)] if props == "all" else props.split(",")
    tag = os.path.basename(os.path.dirname(patch)) + "_" + os.path.splitext(os.path.basename(patch))[0]
    wt, out = f"/tmp/rfw_{tag}", f"/tmp/rfwout_{tag}"
    sh(["git", "-C", "/repo", "worktree", "remove", "--force", wt])
    shutil.rmtree(wt, ignore_errors=True)
    shutil.rmtree(out, ignore_errors=True)
    os.makedirs(out)
    sh(["git", "-C", "/repo", "worktree", "add", "-q", "--detach", wt, "HEAD"])
    try:
        ap = sh(["git", "-C", wt, "apply", patch])
        if ap.returncode:
            print(f"{tag}: patch does not apply: {ap.stderr[:200]}")
            return 2
        env = dict(os.environ, VERIF_REPO=wt, VERIF_OUT=out, VERIF_NOSHRINK="1", VERIF_TABLES_OUT=os.path.join(out, "Tables.lean"),
                   VERIF_SEED=os.environ.get("VERIF_SEED", "0"))
        t = sh(["/venv/bin/python", "tools/extract_tables.py"], cwd=ROOT, env=env)
        same = False
        try:
            same = open(os.path.join(out, "Tables.lean")).read() == open(os.path.join(ROOT, "lean/SCModel/Generated/Tables.lean")).read()
        except OSError:
            pass
        if not same:
            d = sh(["diff", os.path.join(ROOT, "lean/SCModel/Generated/Tables.lean"), os.path.join(out, "Tables.lean")])
            print(f"{tag}: TABLES DIFFER\n{d.stdout[:1500]}")
        alarms = []
        for p in props:
            c = sh(["/venv/bin/python", "harness/check.py", "--property", p, "--tier", "quick", "--skip-lean", "--procs", "4"], cwd=ROOT, env=env)
            if c.returncode != 0:
                alarms.append((p, c.returncode, [l for l in c.stdout.split("\n") if "VIOLATION" in l][:2]))
        print(f"{tag}: tables {'same' if same else 'DIFFERENT'}; alarms: {alarms}", flush=True)
    finally:
        sh(["git", "-C", "/repo", "worktree", "remove", "--force", wt])
        shutil.rmtree(wt, ignore_errors=True)
        shutil.rmtree(out, ignore_errors=True)
    return 0


if __name__ == "__main__":
    sys.exit(main())
