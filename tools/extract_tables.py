#!/venv/bin/python
"""Source -> Lean translator for the finite decision tables in staircase (DESIGN §2.2 (T)).

Every table is regenerated from /repo's *current* source on every run, either by evaluating the pure
source function over its complete (finite) abstract domain, or by reading the relevant syntax with `ast`.
The output is plain data in lean/SCModel/Generated/Tables.lean; lean/SCModel/Props/Tie.lean proves that each
generated table equals the table of the hand-written model (by case analysis, no axioms).  If an item cannot
be extracted it is emitted as a value no model table equals, so the Tie obligation fails and the check falls
through to its failing-input search.
"""
import ast
import importlib
import math
import os
import sys
import types

ROOT = os.path.dirname(os.path.dirname(os.path.abspath(__file__)))
REPO = os.environ.get("VERIF_REPO", "/repo")
OUT = os.environ.get("VERIF_TABLES_OUT") or os.path.join(ROOT, "lean", "SCModel", "Generated", "Tables.lean")

SIDE = {"left": ".left", "right": ".right"}


def _fresh_import():
    if REPO not in sys.path:
        sys.path.insert(0, REPO)
    import staircase  # noqa: F401
    return staircase


def extract_get_lims(status):
    """util._get_lims evaluated on all 2 x 4 rows"""
    try:
        _fresh_import()
        from staircase.util import _get_lims
        rows = []
        for fc in ("left", "right"):
            dummy = types.SimpleNamespace(_closed=fc, closed=fc)
            for ic in ("left", "right", "both", "neither"):
                lo, hi = _get_lims(dummy, ic)
                rows.append((fc, ic, lo, hi))
        status["getLims"] = "ok"
        lines = ["def getLims : Side → IClosed → Side × Side"]
        for fc, ic, lo, hi in rows:
            lines.append(f"  | {SIDE[fc]}, .{ic} => ({SIDE[lo]}, {SIDE[hi]})")
        return "\n".join(lines)
    except Exception as exc:  # noqa: BLE001
        status["getLims"] = "failed: " + repr(exc)[:200]
        return "def getLims : Side → IClosed → Side × Side := fun _ _ => (.left, .right)  -- extraction failed"


def _sample_side_by_evaluation():
    """run `sample` on a real function of each closed side with the module-level `limit` replaced by a recorder"""
    _fresh_import()
    import staircase as sc
    import staircase.core.sampling as S
    out = {}
    real = S.limit
    try:
        for fc in ("left", "right"):
            seen = []

            def rec(self, x, side="right", *a, **k):
                seen.append(side)
                return real(self, x, side, *a, **k)
            S.limit = rec
            sc.Stairs(closed=fc).layer(1, 2).sample(1)
            if len(set(seen)) != 1 or seen[0] not in SIDE:
                raise ValueError(f"limit sides recorded: {seen}")
            out[fc] = seen[0]
    finally:
        S.limit = real
    return out


def _sample_side_by_ast():
    src = open(os.path.join(REPO, "staircase/core/sampling.py")).read()
    tree = ast.parse(src)
    fn = next(n for n in ast.walk(tree) if isinstance(n, ast.FunctionDef) and n.name == "sample")
    assign = next(n for n in ast.walk(fn) if isinstance(n, ast.Assign) and
                  any(isinstance(t, ast.Name) and t.id == "side" for t in n.targets))
    expr = ast.Expression(assign.value)
    ast.fix_missing_locations(expr)
    code = compile(expr, "<sample-side>", "eval")
    out = {}
    for fc in ("left", "right"):
        ns = types.SimpleNamespace(_closed=fc, closed=fc)
        out[fc] = eval(code, {"self": ns})  # noqa: S307 - expression from the repository under test
    return out


def extract_sample_side(status):
    """sampling.sample: which limit side is used for each closed side.  First by evaluation (the `limit` the method
    calls is replaced by a recorder – robust against renamed locals / extracted helpers), else from the syntax (the
    assignment to `side`)."""
    errs = []
    for how, fn in (("evaluated", _sample_side_by_evaluation), ("ast", _sample_side_by_ast)):
        try:
            out = fn()
            status["sampleSide"] = "ok (" + how + ")"
            return ("def sampleSide : Side → Side\n" +
                    "\n".join(f"  | {SIDE[k]} => {SIDE[out[k]]}" for k in ("left", "right")))
        except Exception as exc:  # noqa: BLE001
            errs.append(how + ": " + repr(exc)[:120])
    status["sampleSide"] = "failed: " + "; ".join(errs)
    return "def sampleSide : Side → Side := fun s => s  -- extraction failed"


def extract_slicer_endpoint(status):
    """StairsSlicer.max/min: which endpoint is sampled for which (function closed, interval closed), and whether the
    combining ufunc ignores NaN.  Obtained by running the methods on a stub slicer that records what is sampled."""
    try:
        _fresh_import()
        import numpy as np
        import pandas as pd
        from staircase.core.slicing import StairsSlicer
        table = {}
        ignores = {}
        for which in ("max", "min"):
            for fc in ("left", "right"):
                for ic in ("left", "right", "both", "neither"):
                    sampled = []

                    class StubStairs:
                        _closed = fc
                        closed = fc

                        def __call__(self, x):
                            sampled.append("right" if list(x) == [20.0] else "left" if list(x) == [10.0] else "?")
                            return np.array([np.nan])
                    ii = pd.IntervalIndex.from_arrays([10.0], [20.0], closed=ic)
                    sl = StairsSlicer.__new__(StairsSlicer)
                    sl._stairs = StubStairs()
                    sl._interval_index = ii
                    sl._slices = None
                    sl._max = lambda: np.array([5.0])
                    sl._min = lambda: np.array([5.0])
                    res = getattr(sl, which)()
                    end = sampled[0] if sampled else None
                    table[(which, fc, ic)] = end
                    if end is not None:
                        # the stub returned NaN at the endpoint: a NaN-ignoring combine keeps 5.0
                        ignores[(which, fc, ic)] = bool(np.asarray(res)[0] == 5.0)
        for fc in ("left", "right"):
            for ic in ("left", "right", "both", "neither"):
                if table[("max", fc, ic)] != table[("min", fc, ic)]:
                    raise ValueError("max and min sample different endpoints")
        status["slicerEndpoint"] = "ok"
        lines = ["def slicerEndpoint : Side → IClosed → Option Side"]
        for fc in ("left", "right"):
            for ic in ("left", "right", "both", "neither"):
                e = table[("max", fc, ic)]
                lines.append(f"  | {SIDE[fc]}, .{ic} => " + ("none" if e is None else f"some {SIDE[e]}"))
        lines.append("")
        lines.append("/-- does the ufunc combining the slice extreme with the endpoint sample ignore NaN (fmax/fmin)? -/")
        lines.append("def slicerCombineIgnoresNaN : Bool := " + ("true" if ignores and all(ignores.values()) else "false"))
        return "\n".join(lines)
    except Exception as exc:  # noqa: BLE001
        status["slicerEndpoint"] = "failed: " + repr(exc)[:200]
        return ("def slicerEndpoint : Side → IClosed → Option Side := fun _ _ => none  -- extraction failed\n"
                "def slicerCombineIgnoresNaN : Bool := false")


def extract_scalar_logic(status):
    """logical.scalar_and/or/xor on {nan, 0, non-zero}^2"""
    try:
        _fresh_import()
        from staircase.core.ops import logical
        dom = {"nan": float("nan"), "zero": 0.0, "nonzero": -2.5}
        lean_in = {"nan": "none", "zero": "(some 0)", "nonzero": "(some (-5/2))"}
        lines = []
        for name, fn in (("And", logical.scalar_and), ("Or", logical.scalar_or), ("Xor", logical.scalar_xor)):
            lines.append(f"def scalar{name} : Tri → Tri → Val")
            for a in dom:
                for b in dom:
                    r = fn(dom[a], dom[b])
                    if isinstance(r, float) and math.isnan(r):
                        out = "none"
                    elif r == 0:
                        out = "some 0"
                    elif r == 1:
                        out = "some 1"
                    else:
                        raise ValueError(f"scalar_{name.lower()}({a},{b}) = {r!r}")
                    lines.append(f"  | .{a}, .{b} => {out}")
            lines.append("")
        status["scalarLogic"] = "ok"
        return "\n".join(lines)
    except Exception as exc:  # noqa: BLE001
        status["scalarLogic"] = "failed: " + repr(exc)[:200]
        return "\n".join(f"def scalar{n} : Tri → Tri → Val := fun _ _ => some 7  -- extraction failed" for n in ("And", "Or", "Xor"))


def extract_mismatch_cond(status):
    """common._assert_closeds_equal over (is Stairs?, has steps?, closed) for both operands"""
    try:
        st = _fresh_import()
        from staircase.core.ops.common import _assert_closeds_equal
        from staircase.core.exceptions import ClosedMismatchError
        import pandas as pd
        rows = []
        for s1 in (False, True):
            for s2 in (False, True):
                for c1 in ("left", "right"):
                    for c2 in ("left", "right"):
                        a = st.Stairs(closed=c1)
                        b = st.Stairs(closed=c2)
                        if s1:
                            a.layer(1, 2)
                        if s2:
                            b.layer(1, 2)
                        try:
                            _assert_closeds_equal(a, b)
                            r = False
                        except ClosedMismatchError:
                            r = True
                        rows.append((s1, c1, s2, c2, r))
        # a scalar operand never raises
        for c in ("left", "right"):
            a = st.Stairs(closed=c).layer(1, 2)
            _assert_closeds_equal(a, 3)
            _assert_closeds_equal(3, a)
        status["mismatchCond"] = "ok"
        lines = ["def mismatchCond : Bool → Side → Bool → Side → Bool"]
        for s1, c1, s2, c2, r in rows:
            lines.append(f"  | {str(s1).lower()}, {SIDE[c1]}, {str(s2).lower()}, {SIDE[c2]} => {str(r).lower()}")
        return "\n".join(lines)
    except Exception as exc:  # noqa: BLE001
        status["mismatchCond"] = "failed: " + repr(exc)[:200]
        return "def mismatchCond : Bool → Side → Bool → Side → Bool := fun _ _ _ _ => true  -- extraction failed"


def _clip_sides_by_evaluation():
    """run `clip` with both bounds on step points while the `bisect` module seen by masking.py records which bisect
    function is applied to which bound"""
    _fresh_import()
    import bisect as _bisect
    import staircase as sc
    import staircase.core.ops.masking as M
    calls = []

    def wrap(name):
        real = getattr(_bisect, "bisect_" + name)

        def f(a, x, *args, **kw):
            calls.append((name, x))
            return real(a, x, *args, **kw)
        return f
    fake = types.SimpleNamespace(**{k: getattr(_bisect, k) for k in dir(_bisect) if not k.startswith("__")})
    fake.bisect_left, fake.bisect_right, fake.bisect = wrap("left"), wrap("right"), wrap("right")
    real_mod = M.bisect
    try:
        M.bisect = fake
        sc.Stairs().layer(1, 3).layer(2, 4).clip(2, 3)
    finally:
        M.bisect = real_mod
    lower = {n for n, x in calls if x == 2}
    upper = {n for n, x in calls if x == 3}
    if len(lower) != 1 or len(upper) != 1:
        raise ValueError(f"bisect calls recorded: {calls}")
    return lower.pop(), upper.pop()


def _clip_sides_by_ast():
    src = open(os.path.join(REPO, "staircase/core/ops/masking.py")).read()
    tree = ast.parse(src)
    fn = next(n for n in ast.walk(tree) if isinstance(n, ast.FunctionDef) and n.name == "clip")
    call = next(n for n in ast.walk(fn) if isinstance(n, ast.Call) and
                any(k.arg in ("lower_how", "upper_how") for k in n.keywords))
    kw = {k.arg: k.value.value for k in call.keywords if isinstance(k.value, ast.Constant)}
    return kw["lower_how"], kw["upper_how"]


def extract_clip_sides(status):
    """masking.clip: the bisect sides used for the lower and the upper bound.  First by evaluation (recording bisect
    wrappers – robust against renamed helpers), else from the syntax (the call carrying lower_how= / upper_how=)."""
    errs = []
    for how, fn in (("evaluated", _clip_sides_by_evaluation), ("ast", _clip_sides_by_ast)):
        try:
            lower, upper = fn()
            status["clipSides"] = "ok (" + how + ")"
            return f"def clipSides : Side × Side := ({SIDE[lower]}, {SIDE[upper]})"
        except Exception as exc:  # noqa: BLE001
            errs.append(how + ": " + repr(exc)[:120])
    status["clipSides"] = "failed: " + "; ".join(errs)
    return "def clipSides : Side × Side := (.left, .right)  -- extraction failed"


def _is_self_attr(node, name):
    return isinstance(node, ast.Attribute) and isinstance(node.value, ast.Name) and node.value.id == "self" and node.attr == name


def extract_layer_skeleton(status):
    """layering.layer: everything that happens before `self._clear_cache()` (syntax).
    Expected: only the early return for an everywhere-undefined receiver."""
    try:
        src = open(os.path.join(REPO, "staircase/core/layering.py")).read()
        tree = ast.parse(src)
        fn = next(n for n in tree.body if isinstance(n, ast.FunctionDef) and n.name == "layer")
        events = []
        for stmt in fn.body:
            if isinstance(stmt, ast.Expr) and isinstance(stmt.value, ast.Constant) and isinstance(stmt.value.value, str):
                continue  # docstring
            if (isinstance(stmt, ast.Expr) and isinstance(stmt.value, ast.Call) and
                    _is_self_attr(stmt.value.func, "_clear_cache")):
                events.append("clearCache")
                break
            if isinstance(stmt, ast.If):
                body_ok = (len(stmt.body) == 1 and isinstance(stmt.body[0], ast.Return) and
                           isinstance(stmt.body[0].value, ast.Name) and stmt.body[0].value.id == "self" and not stmt.orelse)
                test_src = ast.unparse(stmt.test).replace(" ", "")
                undefined_test = test_src in ("self._dataisNoneandnp.isnan(self.initial_value)",
                                              "np.isnan(self.initial_value)andself._dataisNone")
                events.append("returnSelfIfAllUndefined" if (body_ok and undefined_test) else "otherEarlyExit")
                continue
            events.append("otherStatement")
        if "clearCache" not in events:
            events.append("noClearCache")
        # _clear_cache itself must reset both caches
        ssrc = open(os.path.join(REPO, "staircase/core/stairs.py")).read()
        stree = ast.parse(ssrc)
        cc = next(n for n in ast.walk(stree) if isinstance(n, ast.FunctionDef) and n.name == "_clear_cache")
        resets = set()
        for n in ast.walk(cc):
            if isinstance(n, ast.Call) and isinstance(n.func, ast.Attribute) and n.func.attr == "_reset":
                resets.add("dist")
            if isinstance(n, ast.Assign) and any(_is_self_attr(t, "_integral_and_mean") for t in n.targets) and \
                    isinstance(n.value, ast.Constant) and n.value.value is None:
                resets.add("integralAndMean")
        status["layerSkeleton"] = "ok"
        return ("def layerPrefix : List LayerEvent := [" + ", ".join("." + e for e in events) + "]\n"
                "def clearCacheResetsDist : Bool := " + str("dist" in resets).lower() + "\n"
                "def clearCacheResetsIntegralAndMean : Bool := " + str("integralAndMean" in resets).lower())
    except Exception as exc:  # noqa: BLE001
        status["layerSkeleton"] = "failed: " + repr(exc)[:200]
        return ("def layerPrefix : List LayerEvent := [.otherStatement]  -- extraction failed\n"
                "def clearCacheResetsDist : Bool := false\ndef clearCacheResetsIntegralAndMean : Bool := false")


# constructor call sites that may legitimately omit closed= (distribution helper objects on the value axis, which are
# documented as left-closed, and the squared-deviation helper inside var whose integral does not depend on the side)
CTOR_ALLOW = {
    ("staircase/core/stats/distribution.py", "from_ecdf"),
    ("staircase/core/stats/distribution.py", "to_percentiles"),
    ("staircase/core/stats/statistic.py", "var"),
}


def extract_ctor_census(status):
    """every internal Stairs(...) / Stairs._new(...) / cls(...) / cls._new(...) call: is closed= passed?"""
    try:
        sites = []
        base = os.path.join(REPO, "staircase", "core")
        for dirpath, _, files in os.walk(base):
            for fn in sorted(files):
                if not fn.endswith(".py") or fn == "docstrings.py":
                    continue
                path = os.path.join(dirpath, fn)
                rel = os.path.relpath(path, REPO)
                tree = ast.parse(open(path).read())
                for func in [n for n in ast.walk(tree) if isinstance(n, (ast.FunctionDef,))]:
                    for call in [n for n in ast.walk(func) if isinstance(n, ast.Call)]:
                        f = call.func
                        name = None
                        if isinstance(f, ast.Name) and (f.id == "Stairs" or (f.id == "cls" and fn == "stairs.py")):
                            name = f.id
                        elif isinstance(f, ast.Attribute) and f.attr == "Stairs":
                            name = "Stairs"
                        elif isinstance(f, ast.Attribute) and f.attr == "_new" and \
                                (ast.unparse(f.value).endswith("Stairs") or ast.unparse(f.value) in ("cls", "ECDF", "Percentiles")):
                            name = "_new"
                        if name is None:
                            continue
                        has_closed = any(k.arg == "closed" for k in call.keywords)
                        if name == "_new" and len(call.args) >= 3:
                            has_closed = True
                        if name in ("Stairs", "cls") and len(call.args) >= 6:
                            has_closed = True
                        sites.append((rel, func.name, call.lineno, has_closed))
        # nested function defs are walked from every enclosing def: de-duplicate by line
        seen = {}
        for rel, fname, line, hc in sites:
            seen.setdefault((rel, line), (rel, fname, line, hc))
        # the statistics modules only ever build helper objects on the VALUE axis (ecdf, percentiles, squared
        # deviations) - results over the domain come from the ops / layering / arrays modules
        missing = sorted({(rel, fname) for rel, fname, line, hc in seen.values()
                          if not hc and not rel.startswith("staircase/core/stats/")} - CTOR_ALLOW)
        status["ctorCensus"] = f"ok ({len(seen)} call sites, {len(missing)} without closed= outside the allow-list)"
        status["ctorCensusMissing"] = [f"{a}:{b}" for a, b in missing]
        return ("/-- constructor call sites that build a result without passing `closed=` (outside the reviewed allow-list) -/\n"
                "def ctorCallsWithoutClosed : List String := [" + ", ".join('"%s:%s"' % m for m in missing) + "]")
    except Exception as exc:  # noqa: BLE001
        status["ctorCensus"] = "failed: " + repr(exc)[:200]
        return 'def ctorCallsWithoutClosed : List String := ["extraction failed"]'



def _lean_val(x):
    import math as _m
    from fractions import Fraction as _F
    if x is None or (isinstance(x, float) and _m.isnan(x)):
        return "none"
    q = _F(float(x))
    if q.denominator == 1:
        return f"some {q.numerator}" if q >= 0 else f"some ({q.numerator})"
    return f"some ({q.numerator}/{q.denominator})"


def extract_form_conversions(status):
    """stairs._make_deltas_from_vals / _make_vals_from_deltas evaluated on every (initial value, column) with up to
    3 rows over {NaN, 0, 1, 3} (canonical inputs only for the first: a NaN initial value followed by a NaN first row
    is not a reachable state)"""
    try:
        _fresh_import()
        import itertools
        import numpy as np
        import pandas as pd
        from staircase.core.stairs import _make_deltas_from_vals, _make_vals_from_deltas
        dom = [float("nan"), 0.0, 1.0, 3.0]
        d_rows, v_rows = [], []
        for init in dom:
            for n in (1, 2, 3):
                for col in itertools.product(dom, repeat=n):
                    ser = pd.Series(list(col), index=range(10, 10 + n), dtype="float64")
                    vals = list(_make_vals_from_deltas(init, ser.copy()).values)
                    v_rows.append((init, col, vals))
                    # minimal (canonical) value columns only: no value equal to its left neighbour (NaN = NaN)
                    prev, ok = init, True
                    for v in col:
                        same = (np.isnan(v) and np.isnan(prev)) or v == prev
                        if same:
                            ok = False
                        prev = v
                    if ok:
                        with np.errstate(all="ignore"):
                            ds = list(_make_deltas_from_vals(init, ser.copy()).values)
                        d_rows.append((init, col, ds))
        status["formConversions"] = f"ok ({len(d_rows)} + {len(v_rows)} cases)"

        def fmt(rows, name):
            out = [f"def {name} : List (Val × List Val × List Val) := ["]
            out.append(",\n".join(f"  ({_lean_val(i)}, [{', '.join(_lean_val(x) for x in c)}], [{', '.join(_lean_val(x) for x in r)}])"
                                  for i, c, r in rows))
            out.append("]")
            return "\n".join(out)
        return fmt(d_rows, "deltasFromValsCases") + "\n\n" + fmt(v_rows, "valsFromDeltasCases")
    except Exception as exc:  # noqa: BLE001
        status["formConversions"] = "failed: " + repr(exc)[:200]
        return ("def deltasFromValsCases : List (Val × List Val × List Val) := [(none, [], [some 1])]  -- extraction failed\n"
                "def valsFromDeltasCases : List (Val × List Val × List Val) := [(none, [], [some 1])]")



def extract_remove_redundant(status):
    """Stairs._remove_redundant_step_points on every value column / change column with <= 3 rows over {NaN, 0, 1}
    (both code paths: via values and via step changes); the result is the list of kept row positions"""
    try:
        st = _fresh_import()
        import itertools
        import numpy as np
        import pandas as pd
        dom = [float("nan"), 0.0, 1.0]
        vrows, drows = [], []
        for init in dom:
            for n in (1, 2, 3):
                for col in itertools.product(dom, repeat=n):
                    idx = list(range(10, 10 + n))
                    f = st.Stairs._new(initial_value=init, data=pd.DataFrame({"value": list(col)}, index=idx))
                    f._remove_redundant_step_points()
                    kept = [] if f._data is None else [int(i) - 10 for i in f._data.index]
                    vrows.append((init, col, kept))
                    g = st.Stairs._new(initial_value=init, data=pd.DataFrame({"delta": list(col)}, index=idx))
                    g._remove_redundant_step_points()
                    keptd = [] if g._data is None else [int(i) - 10 for i in g._data.index]
                    drows.append((col, keptd))
        status["removeRedundant"] = f"ok ({len(vrows)} + {len(drows)} cases)"
        out = ["def removeViaValuesCases : List (Val × List Val × List Nat) := ["]
        out.append(",\n".join(f"  ({_lean_val(i)}, [{', '.join(_lean_val(x) for x in c)}], {k})" for i, c, k in vrows))
        out.append("]\n")
        seen = set()
        d2 = []
        for c, k in drows:
            if c not in seen:
                seen.add(c)
                d2.append((c, k))
        out.append("def removeViaDeltasCases : List (List Val × List Nat) := [")
        out.append(",\n".join(f"  ([{', '.join(_lean_val(x) for x in c)}], {k})" for c, k in d2))
        out.append("]")
        return "\n".join(out)
    except Exception as exc:  # noqa: BLE001
        status["removeRedundant"] = "failed: " + repr(exc)[:200]
        return ("def removeViaValuesCases : List (Val × List Val × List Nat) := [(none, [some 1], [])]  -- extraction failed\n"
                "def removeViaDeltasCases : List (List Val × List Nat) := [([some 1], [])]")


def extract_maskify(status):
    """masking._maskify: what a masker value in {NaN, 0, non-zero} becomes (NaN = masked, 0 = kept), for mask and where,
    both for step values and for the initial value"""
    try:
        st = _fresh_import()
        import numpy as np
        import pandas as pd
        from staircase.core.ops.masking import _maskify
        dom = {"nan": float("nan"), "zero": 0.0, "nonzero": -2.5}
        lines = ["def maskify : Bool → Tri → Val × Val   -- inverse?, masker value ↦ (as a step value, as the initial value)"]
        for inverse in (False, True):
            for name, x in dom.items():
                g = st.Stairs._new(initial_value=x, data=pd.DataFrame({"value": [x]}, index=[10]))
                m = _maskify(g, inverse=inverse)
                sv = m._get_values().iloc[0]
                lines.append(f"  | {str(inverse).lower()}, .{name} => ({_lean_val(sv)}, {_lean_val(m.initial_value)})")
        status["maskify"] = "ok"
        return "\n".join(lines)
    except Exception as exc:  # noqa: BLE001
        status["maskify"] = "failed: " + repr(exc)[:200]
        return "def maskify : Bool → Tri → Val × Val := fun _ _ => (some 7, some 7)  -- extraction failed"



def extract_layer_scalar(status):
    """layering._layer_scalar run on every small NaN-free receiver (initial value in {0, 1}, step changes +-1 at a subset of
    {1, 2, 3} with at most two entries) x every call (start, end in {None, 1, 2, 3}, value in {1, -1}); the outcome is
    the new initial value and the new step-change series"""
    try:
        st = _fresh_import()
        import itertools
        import pandas as pd
        pts = [1, 2, 3]
        receivers = []
        for init in (0, 1):
            receivers.append((init, []))
            for p in pts:
                for d in (1, -1):
                    receivers.append((init, [(p, d)]))
            for p, q in itertools.combinations(pts, 2):
                for d, e in itertools.product((1, -1), repeat=2):
                    receivers.append((init, [(p, d), (q, e)]))
        rows = []
        for init, ds in receivers:
            for s0 in (None, 1, 2, 3):
                for e0 in (None, 1, 2, 3):
                    for v in (1, -1):
                        f = st.Stairs(initial_value=init)
                        if ds:
                            f._data = pd.DataFrame({"delta": [float(d) for _, d in ds]}, index=[p for p, _ in ds])
                            f._valid_deltas = True
                        g = f.layer(s0, e0, v)
                        out = [] if g._data is None else [(int(k), x) for k, x in g._get_deltas().items()]
                        rows.append((init, ds, s0, e0, v, g.initial_value, out))
        status["layerScalar"] = f"ok ({len(rows)} cases)"

        def opt(x):
            return "none" if x is None else f"some {x}"

        def dl(l):
            return "[" + ", ".join(f"({p}, {_lean_val(float(d))})" for p, d in l) + "]"
        ty = "List ((Val × List (Int × Val) × Option Int × Option Int × Rat) × (Val × List (Int × Val)))"
        out = ["/-- (initial value, step changes, start, end, value) ↦ (new initial value, new step changes); in chunks, a single",
               "literal of this size exceeds the elaborator's default budget -/"]
        chunks = [rows[k:k + 80] for k in range(0, len(rows), 80)]
        for ci, ch in enumerate(chunks):
            out.append(f"def layerScalarCases{ci} : {ty} := [")
            out.append(",\n".join(
                f"  (({_lean_val(float(i))}, {dl(ds)}, {opt(s0)}, {opt(e0)}, {v}), ({_lean_val(float(ni))}, {dl(o)}))"
                for i, ds, s0, e0, v, ni, o in ch))
            out.append("]")
        out.append(f"def layerScalarCases : List ({ty}) := [" + ", ".join(f"layerScalarCases{ci}" for ci in range(len(chunks))) + "]")
        return "\n".join(out)
    except Exception as exc:  # noqa: BLE001
        status["layerScalar"] = "failed: " + repr(exc)[:200]
        return ("def layerScalarCases : List (List ((Val × List (Int × Val) × Option Int × Option Int × Rat) × (Val × List (Int × Val)))) := "
                "[[((none, [], none, none, 1), (some 7, []))]]  -- extraction failed")


HEADER = """import SCModel.Model.Stats
/-!
# SCModel.Generated.Tables — REGENERATED from /repo's source on every run by tools/extract_tables.py.
Do not edit.  `SCModel/Props/Tie.lean` proves each table equal to the hand-written model's table.
-/
namespace SC.Generated
open SC

/-- abstract scalar: NaN, zero, or some non-zero number -/
inductive Tri | nan | zero | nonzero
  deriving DecidableEq, Repr

/-- what `layer` does before it resets the caches -/
inductive LayerEvent | returnSelfIfAllUndefined | otherEarlyExit | otherStatement | clearCache | noClearCache
  deriving DecidableEq, Repr

"""


def regenerate():
    status = {}
    parts = [extract_get_lims(status), extract_sample_side(status), extract_slicer_endpoint(status),
             extract_scalar_logic(status), extract_mismatch_cond(status), extract_clip_sides(status),
             extract_layer_skeleton(status), extract_ctor_census(status),
             extract_form_conversions(status), extract_remove_redundant(status), extract_maskify(status),
             extract_layer_scalar(status)]
    text = HEADER + "\n\n".join(parts) + "\n\nend SC.Generated\n"
    os.makedirs(os.path.dirname(OUT), exist_ok=True)
    old = open(OUT).read() if os.path.exists(OUT) else None
    if old != text:
        with open(OUT, "w") as fh:
            fh.write(text)
        status["rewritten"] = True
    return status


if __name__ == "__main__":
    import json
    print(json.dumps(regenerate(), indent=1))
