#!/usr/bin/env python3
"""Regenerate the table of DESIGN.md §11 from seeded/MATRIX.json and tools/seeded_desc.json.

usage: tools/design_table.py            -> prints the markdown table
       tools/design_table.py --write    -> replaces the table between the markers in DESIGN.md
"""
import json
import os
import sys

ROOT = os.path.dirname(os.path.dirname(os.path.abspath(__file__)))
BEGIN = "<!-- seeded-table:begin -->"
END = "<!-- seeded-table:end -->"


def table():
    desc = json.load(open(os.path.join(ROOT, "tools", "seeded_desc.json")))
    mpath = os.path.join(ROOT, "seeded", "MATRIX.json")
    matrix = json.load(open(mpath)) if os.path.exists(mpath) else {}
    ids = sorted((d for d in os.listdir(os.path.join(ROOT, "seeded")) if os.path.isdir(os.path.join(ROOT, "seeded", d))),
                 key=lambda d: (d.split("-")[0], int(d.split("-")[1])))
    lines = ["| id | change | needs | caught by (quick tier, correspondence only) |", "|---|---|---|---|"]
    for sid in ids:
        what, needs = desc.get(sid, ["?", "?"])
        row = matrix.get(sid, {})
        caught = ", ".join(p for p, rc in sorted(row.items()) if rc == 1) or ("(not run)" if not row else "–")
        lines.append(f"| {sid} | {what} | {needs} | {caught} |")
    return "\n".join(lines)


def main():
    t = table()
    if "--write" not in sys.argv:
        print(t)
        return 0
    path = os.path.join(ROOT, "DESIGN.md")
    s = open(path).read()
    a, b = s.index(BEGIN), s.index(END)
    s = s[: a + len(BEGIN)] + "\n" + t + "\n" + s[b:]
    open(path, "w").write(s)
    return 0


if __name__ == "__main__":
    sys.exit(main())
