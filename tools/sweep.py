#!/venv/bin/python
"""Runs every property's correspondence check (optionally skipping the Lean audit) over several seeds."""
import os
import subprocess
import sys

ROOT = os.path.dirname(os.path.dirname(os.path.abspath(__file__)))
seeds = [int(s) for s in (sys.argv[1] if len(sys.argv) > 1 else "1,2,3").split(",")]
tier = sys.argv[2] if len(sys.argv) > 2 else "quick"
props = sys.argv[3].split(",") if len(sys.argv) > 3 else [f"C{i:02d}" for i in range(1, 21)]
extra = [] if os.environ.get("WITH_LEAN") else ["--skip-lean"]
bad = 0
for seed in seeds:
    for p in props:
        env = dict(os.environ, VERIF_SEED=str(seed))
        r = subprocess.run(["/venv/bin/python", "harness/check.py", "--property", p, "--tier", tier] + extra,
                           cwd=ROOT, env=env, capture_output=True, text=True)
        last = r.stdout.strip().split("\n")[-1] if r.stdout.strip() else r.stderr[-300:]
        flag = "" if r.returncode == 0 else f"  <<<<<< rc={r.returncode}"
        print(f"seed {seed} {last}{flag}", flush=True)
        if r.returncode != 0:
            bad += 1
            for line in r.stdout.split("\n"):
                if line.startswith("VIOLATION"):
                    print("   ", line, flush=True)
sys.exit(1 if bad else 0)
