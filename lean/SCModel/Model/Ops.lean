import SCModel.Model.Basic
/-!
# SCModel.Model.Ops — pointwise operators, masking, filling, shifting

Every public operation that returns a `Stairs` is one of
* `Stairs.map u f`            – apply `u : Val → Val` to every value (negate, invert, isna, scalar fillna …)
* `Stairs.combine op f g cl`  – the general two-operand path (union of step points, conform, operate)
both followed by `canon` (`_remove_redundant_step_points`), or one of a few list algorithms
(method fill, shift, clip).
-/
namespace SC

/-! ## value-level operators (what happens at one point) -/

def vlift2 (f : Rat → Rat → Rat) : Val → Val → Val
  | some a, some b => some (f a b)
  | _, _ => none

def vadd : Val → Val → Val := vlift2 (· + ·)
def vsub : Val → Val → Val := vlift2 (· - ·)
def vmul : Val → Val → Val := vlift2 (· * ·)
/-- division: undefined where the divisor is zero (the code produces ±inf / NaN and cleans them up) -/
def vdiv : Val → Val → Val
  | some a, some b => if b = 0 then none else some (a / b)
  | _, _ => none

def b2r (b : Bool) : Rat := if b then 1 else 0

inductive Rel | lt | le | gt | ge | eq | ne
  deriving DecidableEq, Repr, Inhabited

def Rel.eval : Rel → Rat → Rat → Bool
  | .lt, a, b => decide (a < b)
  | .le, a, b => decide (a ≤ b)
  | .gt, a, b => decide (b < a)
  | .ge, a, b => decide (b ≤ a)
  | .eq, a, b => decide (a = b)
  | .ne, a, b => !decide (a = b)

def vrel (r : Rel) : Val → Val → Val
  | some a, some b => some (b2r (r.eval a b))
  | _, _ => none

inductive Logic | and | or | xor
  deriving DecidableEq, Repr, Inhabited

/-- a value is true when it is non-zero -/
def truth (a : Rat) : Bool := !decide (a = 0)

def Logic.eval : Logic → Bool → Bool → Bool
  | .and, a, b => a && b
  | .or, a, b => a || b
  | .xor, a, b => a != b

def vlogic (l : Logic) : Val → Val → Val
  | some a, some b => some (b2r (l.eval (truth a) (truth b)))
  | _, _ => none

inductive BinOp | add | sub | mul | div | rel (r : Rel) | logic (l : Logic)
  deriving DecidableEq, Repr, Inhabited

def BinOp.eval : BinOp → Val → Val → Val
  | .add => vadd
  | .sub => vsub
  | .mul => vmul
  | .div => vdiv
  | .rel r => vrel r
  | .logic l => vlogic l

inductive UnOp | neg | invert | makeBoolean | isna | notna
  deriving DecidableEq, Repr, Inhabited

def UnOp.eval : UnOp → Val → Val
  | .neg, a => a.map (fun q => -q)
  | .invert, a => a.map (fun q => b2r (!truth q))
  | .makeBoolean, a => a.map (fun q => b2r (truth q))
  | .isna, a => some (b2r a.isNone)
  | .notna, a => some (b2r a.isSome)

/-- `mask`: keep `a` where the masker is defined and zero -/
def maskOp (a m : Val) : Val := if m = some 0 then a else none
/-- `where`: keep `a` where the masker is defined and non-zero -/
def whereOp (a m : Val) : Val :=
  match m with
  | some q => if q = 0 then none else a
  | none => none
/-- `fillna` with a function: keep `a` where defined, else take `b` -/
def fillOp (a b : Val) : Val := a.orElse fun _ => b

/-! ## Stairs-level operations -/
namespace Stairs
variable {P : Type}

/-- apply `u` to every value, then canonicalise -/
def map (u : Val → Val) (f : Stairs P) : Stairs P :=
  canon ⟨u f.init, f.steps.map fun pv => (pv.1, u pv.2), f.closed⟩

/-- The closed side of a two-operand result (C15): error when both operands have steps and disagree;
otherwise the side of the operand that has steps, the receiver's when neither has. -/
def closedFor (f g : Stairs P) : Except Err Side :=
  if f.hasSteps && g.hasSteps && f.closed != g.closed then .error .closedMismatch
  else .ok (if f.hasSteps then f.closed else if g.hasSteps then g.closed else f.closed)

variable [LT P] [DecidableRel (α := P) (· < ·)]

/-- general two-operand path + canonicalisation -/
def combine (op : Val → Val → Val) (f g : Stairs P) (cl : Side) : Stairs P :=
  canon ⟨op f.init g.init, combineSteps op f.init f.steps g.init g.steps, cl⟩

def combineChecked (op : Val → Val → Val) (f g : Stairs P) : Except Err (Stairs P) := do
  let cl ← closedFor f g
  pure (combine op f g cl)

def binop (o : BinOp) (f g : Stairs P) : Except Err (Stairs P) := combineChecked o.eval f g

/-- an operand of a binary operator: a step function or a real scalar (`none` = NaN) -/
inductive Operand (P : Type) | st (f : Stairs P) | sc (c : Val)

/-- `_sanitize_binary_operands`: a scalar becomes a step-free function with the other operand's side -/
def sanitize : Operand P → Operand P → Option (Stairs P × Stairs P)
  | .st f, .st g => some (f, g)
  | .st f, .sc c => some (f, const c f.closed)
  | .sc c, .st g => some (const c g.closed, g)
  | .sc _, .sc _ => none

/-- a binary operator applied to operands of either kind (`none`: two scalars – not a Stairs operation) -/
def binopO (o : BinOp) (a b : Operand P) : Option (Except Err (Stairs P)) :=
  (sanitize a b).map fun fg => binop o fg.1 fg.2
def unop (u : UnOp) (f : Stairs P) : Stairs P := map u.eval f

def mask (f g : Stairs P) : Except Err (Stairs P) := combineChecked maskOp f g
def where_ (f g : Stairs P) : Except Err (Stairs P) := combineChecked whereOp f g
def fillnaStairs (f g : Stairs P) : Except Err (Stairs P) := combineChecked fillOp f g
def fillnaScalar (f : Stairs P) (v : Val) : Stairs P := map (fun a => fillOp a v) f

/-- `values.ffill()` with the initial value spliced in front -/
def ffillSteps (prev : Val) : List (P × Val) → List (P × Val)
  | [] => []
  | (p, v) :: r => let v' := fillOp v prev; (p, v') :: ffillSteps v' r

/-- `values.bfill()` -/
def bfillSteps : List (P × Val) → List (P × Val)
  | [] => []
  | (p, v) :: r =>
    let r' := bfillSteps r
    match r' with
    | [] => [(p, v)]
    | (_, w) :: _ => (p, fillOp v w) :: r'

def firstVal : List (P × Val) → Val
  | [] => none
  | (_, v) :: _ => v

def ffill (f : Stairs P) : Stairs P := canon ⟨f.init, ffillSteps f.init f.steps, f.closed⟩
def bfill (f : Stairs P) : Stairs P :=
  let s := bfillSteps f.steps
  canon ⟨fillOp f.init (firstVal s), s, f.closed⟩

/-- the indicator of the interval from `lo` to `hi` (`none` = unbounded) -/
def indicator (lo hi : Option P) (cl : Side) : Stairs P :=
  ⟨some (if lo.isNone then 1 else 0),
   (match lo with | some a => [(a, some 1)] | none => []) ++
   (match hi with | some b => [(b, some 0)] | none => []), cl⟩

/-- is `lo < hi` in the sense of `clip`'s argument check (with ±inf sentinels)? -/
def boundsOk (lo hi : Option P) : Bool :=
  match lo, hi with
  | some a, some b => decide (a < b)
  | _, _ => true

/-- `clip(lower, upper)`: `f` between the bounds, undefined elsewhere; `ValueError` unless lower < upper -/
def clip (f : Stairs P) (lo hi : Option P) : Except Err (Stairs P) :=
  if boundsOk lo hi then .ok (combine whereOp f (indicator lo hi f.closed) f.closed)
  else .error .valueError

/-- `where((a, b))` defers to clip -/
def whereTuple (f : Stairs P) (lo hi : Option P) : Except Err (Stairs P) := clip f lo hi
/-- `mask((a, b))`: masks by the indicator built by layering (start = end gives the zero function,
start > end the negative indicator, i.e. still non-zero exactly between the bounds) -/
def layerIndicator (lo hi : Option P) (cl : Side) : Stairs P :=
  canon (match lo, hi with
  | some a, some b =>
      if a < b then ⟨some 0, [(a, some 1), (b, some 0)], cl⟩
      else if b < a then ⟨some 0, [(b, some (-1)), (a, some 0)], cl⟩
      else ⟨some 0, [], cl⟩
  | some a, none => ⟨some 0, [(a, some 1)], cl⟩
  | none, some b => ⟨some 1, [(b, some 0)], cl⟩
  | none, none => ⟨some 1, [], cl⟩)

def maskTuple (f : Stairs P) (lo hi : Option P) : Stairs P :=
  combine maskOp f (layerIndicator lo hi f.closed) f.closed

/-- `shift(d)` -/
def shift [Add P] (f : Stairs P) (d : P) : Stairs P :=
  ⟨f.init, f.steps.map fun pv => (pv.1 + d, pv.2), f.closed⟩

/-- `diff(d) = f - f.shift(d)` -/
def diff [Add P] (f : Stairs P) (d : P) : Except Err (Stairs P) := binop .sub f (shift f d)

/-- `identical`: same initial value and same step rows (on canonical operands this is equality of
functions – see `Props/C12`) -/
def identical [DecidableEq P] (f g : Stairs P) : Bool :=
  decide (f.init = g.init) && decide (f.steps = g.steps)

/-- `bool(f)`: true exactly for the constant 1 -/
def toBool (f : Stairs P) : Bool := decide (f.init = some 1) && f.steps.isEmpty

end Stairs
end SC
