import SCModel.Model.Slicing
/-!
# SCModel.Model.World — objects with caches, and histories (C13, C14)

An `Obj` is a step function together with the two caches of the implementation: the memoised
`(integral, mean)` pair and the per-instance distribution accessor (the cumulative value distribution
from which the ECDF / fractile / percentile objects are built).  Queries read the caches when they are
filled and fill them otherwise; `layer` is the only mutator and resets both caches *unless* it returns
early for an everywhere-undefined receiver (which it leaves unchanged).
-/
namespace SC
open Stairs

structure Obj where
  f : Stairs Rat
  im : Option (Val × Val) := none
  dist : Option (List (Rat × Rat)) := none
  deriving Repr

inductive Query
  | integral | mean | var | median | modes | min | max | vsums
  | percentile (p : Rat) | fractile (p : Rat) | ecdf (side : Side) (y : Rat)
  deriving Repr

namespace Obj

def fresh (f : Stairs Rat) : Obj := { f := f }

def allUndefined (f : Stairs Rat) : Bool := f.steps.isEmpty && f.init.isNone

/-- `layer` on an object: early return (nothing changes, caches kept) for an everywhere-undefined
receiver, otherwise caches are reset and the function is updated in place -/
def layer (o : Obj) (ts : List (Triple Rat)) : Obj :=
  if allUndefined o.f then o else { f := Stairs.layer o.f ts, im := none, dist := none }

/-- the cumulative value distribution `[(v₁,c₁),…]` -/
def cumShares (f : Stairs Rat) : List (Rat × Rat) := cumsum 0 (shares f)

def ensureIM (o : Obj) : Obj × (Val × Val) :=
  match o.im with
  | some p => (o, p)
  | none => let p := (integral o.f, mean o.f); ({ o with im := some p }, p)

def ensureDist (o : Obj) : Obj × List (Rat × Rat) :=
  match o.dist with
  | some d => (o, d)
  | none => let d := cumShares o.f; ({ o with dist := some d }, d)

/-- step function of the percentile / fractile object built from a cumulative distribution -/
def xtilesOf (scale : Rat) (d : List (Rat × Rat)) : Option (Stairs Rat) :=
  match d with
  | [] => none
  | (v, c) :: r => some ⟨some v, xtileRows scale 0 ((v, c) :: r), .left⟩

def ecdfOf (d : List (Rat × Rat)) : Stairs Rat := ⟨some 0, d.map fun vc => (vc.1, some vc.2), .left⟩

/-- shares recovered from the cumulative distribution -/
def uncum (prev : Rat) : List (Rat × Rat) → List (Rat × Rat)
  | [] => []
  | (v, c) :: r => (v, c - prev) :: uncum c r

/-- the answer to a query computed from the (possibly cached) components -/
def answerFrom (f : Stairs Rat) (im : Val × Val) (d : List (Rat × Rat)) : Query → List Val
  | .integral => [im.1]
  | .mean => [im.2]
  | .var => [match im.2 with
      | none => none
      | some m => some (sumBy (fun vs => vs.2 * ((vs.1 - m) * (vs.1 - m))) (uncum 0 d))]
  | .median => [(xtilesOf 100 d).bind fun t => xtileSample t 50]
  | .percentile p => [(xtilesOf 100 d).bind fun t => xtileSample t p]
  | .fractile p => [(xtilesOf 1 d).bind fun t => xtileSample t p]
  | .ecdf s y => [(ecdfOf d).limit s y]
  | .modes => (modes f).map some
  | .min => [minIn f none none (defaultIClosed f.closed)]
  | .max => [maxIn f none none (defaultIClosed f.closed)]
  | .vsums => (valueSums f).flatMap fun vl => [some vl.1, some vl.2]

/-- which caches a query touches -/
def needsIM : Query → Bool
  | .integral | .mean | .var => true
  | _ => false
def needsDist : Query → Bool
  | .var | .median | .percentile _ | .fractile _ | .ecdf _ _ => true
  | _ => false

/-- a query through the caches: returns the updated object and the answer -/
def query (o : Obj) (q : Query) : Obj × List Val :=
  let (o1, im) := if needsIM q then ensureIM o else (o, (integral o.f, mean o.f))
  let (o2, d) := if needsDist q then ensureDist o1 else (o1, cumShares o1.f)
  (o2, answerFrom o2.f im d q)

/-- the answer a freshly built equal function gives -/
def freshAnswer (f : Stairs Rat) (q : Query) : List Val :=
  answerFrom f (integral f, mean f) (cumShares f) q

end Obj

/-- one step of a single-object history -/
inductive HOp
  | layer (ts : List (Triple Rat))
  | query (q : Query)

def Obj.step (o : Obj) : HOp → Obj × List Val
  | .layer ts => (o.layer ts, [])
  | .query q => o.query q

/-- run a history, collecting every answer -/
def Obj.run (o : Obj) : List HOp → Obj × List (List Val)
  | [] => (o, [])
  | op :: rest =>
    let (o1, a) := o.step op
    let (o2, as) := Obj.run o1 rest
    (o2, a :: as)

end SC

/-! ## several objects: which operations create, which mutate (C13) -/
namespace SC
open Stairs

/-- operations of a multi-object history; operands are object indices -/
inductive WOp
  | new (f : Stairs Rat)                         -- constructor / from_values
  | copy (i : Nat)
  | un (u : UnOp) (i : Nat)
  | bin (o : BinOp) (i j : Nat)
  | binR (o : BinOp) (i : Nat) (c : Val)
  | binL (o : BinOp) (c : Val) (j : Nat)
  | clip (i : Nat) (lo hi : Option Rat)
  | maskT (i : Nat) (lo hi : Option Rat)
  | mask (i j : Nat)
  | wher (i j : Nat)
  | fillS (i j : Nat)
  | fillC (i : Nat) (v : Val)
  | ffill (i : Nat)
  | bfill (i : Nat)
  | shift (i : Nat) (d : Rat)
  | agg (F : AggFn) (is : List Nat)
  | layer (i : Nat) (ts : List (Triple Rat))
  | query (i : Nat) (q : Query)

abbrev World := List Obj

def World.fn (w : World) (i : Nat) : Option (Stairs Rat) := (w[i]?).map (·.f)

def allSomeW {α : Type} : List (Option α) → Option (List α)
  | [] => some []
  | none :: _ => none
  | some x :: r => (allSomeW r).map (x :: ·)

/-- the function computed by a creating operation (`none`: not a creating operation, or a bad index) -/
def World.compute (w : World) : WOp → Option (Except Err (Stairs Rat))
  | .new f => some (.ok f.canon)
  | .copy i => (w.fn i).map .ok
  | .un u i => (w.fn i).map fun f => .ok (unop u f)
  | .bin o i j => do let f ← w.fn i; let g ← w.fn j; pure (binop o f g)
  | .binR o i c => (w.fn i).map fun f => binop o f (const c f.closed)
  | .binL o c j => (w.fn j).map fun g => binop o (const c g.closed) g
  | .clip i lo hi => (w.fn i).map fun f => Stairs.clip f lo hi
  | .maskT i lo hi => (w.fn i).map fun f => .ok (maskTuple f lo hi)
  | .mask i j => do let f ← w.fn i; let g ← w.fn j; pure (Stairs.mask f g)
  | .wher i j => do let f ← w.fn i; let g ← w.fn j; pure (where_ f g)
  | .fillS i j => do let f ← w.fn i; let g ← w.fn j; pure (fillnaStairs f g)
  | .fillC i v => (w.fn i).map fun f => .ok (fillnaScalar f v)
  | .ffill i => (w.fn i).map fun f => .ok (Stairs.ffill f)
  | .bfill i => (w.fn i).map fun f => .ok (Stairs.bfill f)
  | .shift i d => (w.fn i).map fun f => .ok (Stairs.shift f d)
  | .agg F is => (allSomeW (is.map w.fn)).map fun ms => aggregate F ms
  | .layer _ _ => none
  | .query _ _ => none

/-- one step: a creating operation appends a *fresh* object (nothing else changes; an error changes
nothing at all); `layer` updates its receiver in place; a query may only fill its receiver's caches -/
def World.step (w : World) (op : WOp) : World :=
  match op with
  | .layer i ts => w.modify i (·.layer ts)
  | .query i q => w.modify i (fun o => (o.query q).1)
  | _ =>
    match w.compute op with
    | some (.ok r) => w ++ [Obj.fresh r]
    | _ => w

def World.run (w : World) (ops : List WOp) : World := ops.foldl World.step w

end SC
