/-!
# SCModel.Model.Basic — executable core of the staircase model (Mathlib-free)

A step function is an initial value (the value towards −∞) together with a list of
`(step point, right-limit value)` rows.  `none : Val` plays the role of NaN ("undefined here").
Everything in `Model/` is computable and is what `Driver.lean` runs against the real library.
-/
namespace SC

/-- `Stairs.closed`; also used for `limit`'s `side` argument. -/
inductive Side | left | right
  deriving DecidableEq, Repr, Inhabited

/-- interval closedness for windows (`values_in_range`, `slice`). -/
inductive IClosed | left | right | both | neither
  deriving DecidableEq, Repr, Inhabited

/-- a value of the step function: `none` = NaN = undefined -/
abbrev Val := Option Rat

inductive Err | closedMismatch | valueError | assertion
  deriving DecidableEq, Repr, Inhabited

section generic
variable {P V W : Type}

/-- has the step at `p` taken effect when we look at `x`?  `strict = true` is the left limit
(`searchsorted(side='left')`: steps strictly before `x`), `strict = false` the right limit
(`side='right'`: steps at or before `x`). -/
def reached [LT P] [DecidableRel (α := P) (· < ·)] (strict : Bool) (p x : P) : Bool :=
  if strict then decide (p < x) else !decide (x < p)

/-- one-sided limit of the step function `(init, steps)` at `x` (mirrors `sampling.limit`). -/
def lim [LT P] [DecidableRel (α := P) (· < ·)] (strict : Bool) (init : V) : List (P × V) → P → V
  | [], _ => init
  | (p, v) :: rest, x => if reached strict p x then lim strict v rest x else init

/-- `Index.union` of two strictly increasing point lists (sorted, de-duplicated). -/
def unionIdx [LT P] [DecidableRel (α := P) (· < ·)] : List P → List P → List P
  | [], ys => ys
  | xs, [] => xs
  | x :: xs, y :: ys =>
      if x < y then x :: unionIdx xs (y :: ys)
      else if y < x then y :: unionIdx (x :: xs) ys
      else x :: unionIdx xs ys
termination_by xs ys => xs.length + ys.length

/-- `_remove_redundant_step_points` (value form): drop a row whose value equals the value to its
left (for `Option`, `none = none` covers "NaN after NaN"). -/
def removeRedundant [DecidableEq V] (a : V) : List (P × V) → List (P × V)
  | [] => []
  | (p, v) :: r => if v = a then removeRedundant a r else (p, v) :: removeRedundant v r

/-- no row repeats the value to its left -/
def Minimal [DecidableEq V] (a : V) : List (P × V) → Prop
  | [] => True
  | (_, v) :: r => v ≠ a ∧ Minimal v r

def decMinimal [DecidableEq V] : (a : V) → (s : List (P × V)) → Decidable (Minimal a s)
  | _, [] => isTrue trivial
  | a, (_, v) :: r =>
    match decEq v a, decMinimal v r with
    | isTrue h, _ => isFalse (fun hm => hm.1 h)
    | isFalse _, isFalse h2 => isFalse (fun hm => h2 hm.2)
    | isFalse h1, isTrue h2 => isTrue ⟨h1, h2⟩

instance [DecidableEq V] (a : V) (s : List (P × V)) : Decidable (Minimal a s) := decMinimal a s

/-- sample the right limits of `(a, s)` on `idx` (`reindex(method="ffill")` + initial-value patch) -/
def resample [LT P] [DecidableRel (α := P) (· < ·)] (idx : List P) (a : V) (s : List (P × V)) : List (P × V) :=
  idx.map fun p => (p, lim false a s p)

/-- the general two-operand path of `ops/common.py`: union of the step points, both value series
conformed to it, element-wise operator. -/
def combineSteps {V' : Type} [LT P] [DecidableRel (α := P) (· < ·)] (op : V → V' → W)
    (a : V) (f : List (P × V)) (b : V') (g : List (P × V')) : List (P × W) :=
  (unionIdx (f.map Prod.fst) (g.map Prod.fst)).map
    fun p => (p, op (lim false a f p) (lim false b g p))

end generic

/-- The model of a `Stairs` object (value form). -/
structure Stairs (P : Type) where
  init : Val
  steps : List (P × Val)
  closed : Side
  deriving Repr, DecidableEq

namespace Stairs
variable {P : Type}

def hasSteps (f : Stairs P) : Bool := !f.steps.isEmpty
def idx (f : Stairs P) : List P := f.steps.map Prod.fst
def numberOfSteps (f : Stairs P) : Nat := f.steps.length

/-- canonical (minimal) form -/
def canon (f : Stairs P) : Stairs P := { f with steps := removeRedundant f.init f.steps }

def const (c : Val) (cl : Side) : Stairs P := ⟨c, [], cl⟩

variable [LT P] [DecidableRel (α := P) (· < ·)]

/-- `limit(x, side)`: `Side.left` is the left limit -/
def limit (f : Stairs P) (side : Side) (x : P) : Val := lim (side == .left) f.init f.steps x

/-- `sample(x)` / `f(x)`: the right limit for a left-closed, the left limit for a right-closed function -/
def sampleSide : Side → Side
  | .left => .right
  | .right => .left

def sample (f : Stairs P) (x : P) : Val := f.limit (sampleSide f.closed) x

end Stairs
end SC
