import SCModel.Model.Stats
/-!
# SCModel.Model.Arrays — collection aggregations (`arrays/extension.py::StairsArray.agg`)

Sample every member on the union of the members' step points, reduce the column of values with a
NaN-propagating reduction, reduce the initial values the same way, canonicalise.
-/
namespace SC
namespace Stairs
variable {P : Type} [LT P] [DecidableRel (α := P) (· < ·)]

/-- all values defined, or NaN -/
def allDefined : List Val → Option (List Rat)
  | [] => some []
  | none :: _ => none
  | some x :: r => (allDefined r).map (x :: ·)

def insertSorted (v : Rat) : List Rat → List Rat
  | [] => [v]
  | w :: r => if v ≤ w then v :: w :: r else w :: insertSorted v r
def sortRat (l : List Rat) : List Rat := l.foldl (fun acc v => insertSorted v acc) []

inductive AggFn | sum | mean | median | min | max | logicalOr | logicalAnd
  deriving DecidableEq, Repr, Inhabited

def medianOf (l : List Rat) : Option Rat :=
  let s := sortRat l
  let n := s.length
  if n = 0 then none
  else if n % 2 = 1 then s[n / 2]?
  else match s[n / 2 - 1]?, s[n / 2]? with
    | some a, some b => some ((a + b) / 2)
    | _, _ => none

/-- the reduction at one point: NaN if any member is undefined there -/
def AggFn.eval (F : AggFn) (vs : List Val) : Val :=
  match allDefined vs with
  | none => none
  | some xs =>
    match F with
    | .sum => some xs.sum
    | .mean => if xs.length = 0 then none else some (xs.sum / (xs.length : Rat))
    | .median => medianOf xs
    | .min => listMin xs
    | .max => listMax xs
    | .logicalOr => some (b2r (xs.any truth))
    | .logicalAnd => some (b2r (xs.all truth))

def unionAll : List (List P) → List P
  | [] => []
  | l :: r => unionIdx l (unionAll r)

/-- closed side of a collection result: mismatch if two members with steps disagree; otherwise the
side of the members with steps (of the first member when none has). -/
def closedOfMembers (ms : List (Stairs P)) : Except Err Side :=
  match ms.filter (·.hasSteps) with
  | [] => .ok (match ms with | [] => .left | m :: _ => m.closed)
  | m :: r => if r.all (fun x => x.closed == m.closed) then .ok m.closed else .error .closedMismatch

def aggregate (F : AggFn) (ms : List (Stairs P)) : Except Err (Stairs P) := do
  let cl ← closedOfMembers ms
  let idx := unionAll (ms.map (·.idx))
  pure (canon ⟨F.eval (ms.map (·.init)),
    idx.map (fun p => (p, F.eval (ms.map fun m => lim false m.init m.steps p))), cl⟩)

end Stairs
end SC
