import SCModel.Model.Ops
/-!
# SCModel.Model.Layer — `layer` as a fold of pointwise additions

`layer(start, end, value)` adds `value` from `start` on and takes it away again from `end` on
(`none` start = −∞: always in effect; `none` end = +∞: never).  That reading needs no case split on
nested / overlapping / empty (`start = end`) / reversed (`start > end`) intervals.
-/
namespace SC
namespace Stairs
variable {P : Type} [LT P] [DecidableRel (α := P) (· < ·)]

/-- a layered triple -/
structure Triple (P : Type) where
  start : Option P
  stop : Option P
  value : Rat
  deriving Repr

/-- `+v` from `s` on (everywhere when `s` is missing) -/
def startRay (s : Option P) (v : Rat) (cl : Side) : Stairs P :=
  match s with
  | none => ⟨some v, [], cl⟩
  | some p => ⟨some 0, [(p, some v)], cl⟩

/-- `+v` from `e` on (nowhere when `e` is missing) -/
def stopRay (e : Option P) (v : Rat) (cl : Side) : Stairs P :=
  match e with
  | none => ⟨some 0, [], cl⟩
  | some p => ⟨some 0, [(p, some v)], cl⟩

def layer1 (f : Stairs P) (t : Triple P) : Stairs P :=
  combine vadd (combine vadd f (startRay t.start t.value f.closed) f.closed)
    (stopRay t.stop (-t.value) f.closed) f.closed

/-- any sequence of layer calls / one vector layer call -/
def layer (f : Stairs P) (ts : List (Triple P)) : Stairs P := ts.foldl layer1 f

end Stairs
end SC
