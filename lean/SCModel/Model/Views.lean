import SCModel.Model.Ops
/-!
# SCModel.Model.Views — the structural views of a `Stairs` (`to_frame`, `step_points`, `step_values`,
`step_changes`, `initial_value`, `number_of_steps`)
-/
namespace SC
namespace Stairs
variable {P : Type}

/-- one row of `to_frame()`: `(start, end, value)`, `none` = −∞ / +∞ -/
abbrev FrameRow (P : Type) := Option P × Option P × Val

/-- rows from `start` (left end of the current piece) with the value `v` of that piece -/
def frameFrom (start : Option P) (v : Val) : List (P × Val) → List (FrameRow P)
  | [] => [(start, none, v)]
  | (p, w) :: r => (start, some p, v) :: frameFrom (some p) w r

/-- `to_frame()` -/
def toFrame (f : Stairs P) : List (FrameRow P) := frameFrom none f.init f.steps

def stepPoints (f : Stairs P) : List P := f.steps.map Prod.fst
def stepValues (f : Stairs P) : List Val := f.steps.map Prod.snd

/-- step changes of an everywhere-defined function: each value minus the value to its left -/
def changesFrom (prev : Rat) : List Rat → List Rat
  | [] => []
  | v :: r => (v - prev) :: changesFrom v r

/-- running sum starting from `acc` -/
def runningSum (acc : Rat) : List Rat → List Rat
  | [] => []
  | d :: r => (acc + d) :: runningSum (acc + d) r

end Stairs
end SC
