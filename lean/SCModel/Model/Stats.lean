import SCModel.Model.Layer
/-!
# SCModel.Model.Stats — length-weighted statistics and the value distribution (domain = ℚ)

Mirrors `stats/statistic.py` and `stats/distribution.py`.  Lengths need subtraction, so the point
type is fixed to `Rat` here (the driver runs every domain through ticks in ℚ).
-/
namespace SC
namespace Stairs

/-- finite pieces `(left, right, value)` between consecutive step points -/
def pieces : List (Rat × Val) → List (Rat × Rat × Val)
  | (p, v) :: (q, w) :: r => (p, q, v) :: pieces ((q, w) :: r)
  | _ => []

/-- `(value, length)` of every finite piece on which the function is defined -/
def definedPieces (s : List (Rat × Val)) : List (Rat × Rat) :=
  (pieces s).filterMap fun (p, q, v) => v.map fun x => (x, q - p)

/-- add `len` to the entry for `v` in a list sorted by value -/
def insertSum (v len : Rat) : List (Rat × Rat) → List (Rat × Rat)
  | [] => [(v, len)]
  | (w, l) :: r =>
    if v < w then (v, len) :: (w, l) :: r
    else if v = w then (w, l + len) :: r
    else (w, l) :: insertSum v len r

/-- `value_sums()`: value ↦ total length of the finite pieces taking it, sorted by value -/
def valueSums (f : Stairs Rat) : List (Rat × Rat) :=
  (definedPieces f.steps).foldl (fun acc vl => insertSum vl.1 vl.2 acc) []

def sumBy {α : Type} (g : α → Rat) (l : List α) : Rat := (l.map g).sum

/-- total length of the finite defined pieces -/
def definedLength (f : Stairs Rat) : Rat := sumBy (·.2) (definedPieces f.steps)

/-- `integral()`: NaN with fewer than two step points, else Σ value × length -/
def integral (f : Stairs Rat) : Val :=
  if f.steps.length < 2 then none else some (sumBy (fun vl => vl.1 * vl.2) (definedPieces f.steps))

/-- `mean()` -/
def mean (f : Stairs Rat) : Val :=
  if f.steps.length < 2 then none
  else if definedLength f = 0 then none
  else some (sumBy (fun vl => vl.1 * vl.2) (definedPieces f.steps) / definedLength f)

/-- `(value, share of the defined length)`, sorted by value -/
def shares (f : Stairs Rat) : List (Rat × Rat) :=
  let vs := valueSums f
  let tot := sumBy (·.2) vs
  vs.map fun vl => (vl.1, vl.2 / tot)

/-- `var()`: length-weighted mean squared deviation from the mean -/
def var (f : Stairs Rat) : Val :=
  match mean f with
  | none => none
  | some m => some (sumBy (fun vs => vs.2 * ((vs.1 - m) * (vs.1 - m))) (shares f))

/-- running sums: `[a, b, c] ↦ [a, a+b, a+b+c]` (starting from `acc`) -/
def cumsum (acc : Rat) : List (Rat × Rat) → List (Rat × Rat)
  | [] => []
  | (v, s) :: r => (v, acc + s) :: cumsum (acc + s) r

/-- the ECDF as a left-closed step function on the value axis -/
def ecdf (f : Stairs Rat) : Stairs Rat :=
  ⟨some 0, (cumsum 0 (shares f)).map fun vc => (vc.1, some vc.2), .left⟩

/-- rows of the percentile / fractile function built from the cumulative distribution
`[(v₁,c₁),…,(v_k,c_k)]`: points `0, c₁·s, …, c_k·s`, values `v₁, v₂, …, v_k, v_k`. -/
def xtileRows (scale : Rat) (prevPoint : Rat) : List (Rat × Rat) → List (Rat × Val)
  | [] => []
  | [(v, c)] => [(prevPoint, some v), (c * scale, some v)]
  | (v, c) :: r => (prevPoint, some v) :: xtileRows scale (c * scale) r

def xtiles (scale : Rat) (f : Stairs Rat) : Option (Stairs Rat) :=
  match cumsum 0 (shares f) with
  | [] => none
  | (v, c) :: r => some ⟨some v, xtileRows scale 0 ((v, c) :: r), .left⟩

/-- `Xtiles.sample`: the average of the two one-sided limits -/
def xtileSample (t : Stairs Rat) (x : Rat) : Val :=
  match t.limit .left x, t.limit .right x with
  | some a, some b => some ((a + b) / 2)
  | _, _ => none

def percentile (f : Stairs Rat) (p : Rat) : Val := (xtiles 100 f).bind fun t => xtileSample t p
def fractile (f : Stairs Rat) (p : Rat) : Val := (xtiles 1 f).bind fun t => xtileSample t p
def median (f : Stairs Rat) : Val := percentile f 50

/-- `quantiles(q)`: the fractiles at `i/q`, `0 < i < q` -/
def quantiles (f : Stairs Rat) (q : Nat) : List Val :=
  (List.range (q - 1)).map fun i => fractile f (((i + 1 : Nat) : Rat) / (q : Rat))

/-- all values of maximal total length (the code returns the smallest: `idxmax`) -/
def modes (f : Stairs Rat) : List Rat :=
  let vs := valueSums f
  match vs with
  | [] => []
  | (_, l) :: r =>
    let m := r.foldl (fun acc vl => if acc < vl.2 then vl.2 else acc) l
    (vs.filter fun vl => vl.2 = m).map (·.1)

def mode (f : Stairs Rat) : Option Rat := (modes f).head?

inductive HistStat | sum | frequency | density | probability
  deriving DecidableEq, Repr, Inhabited

/-- `hist(bins, closed, stat)` for explicit bins `(left, right)`; `closed` = the bins' closed side -/
def hist (f : Stairs Rat) (bins : List (Rat × Rat)) (closed : Side) (stat : HistStat) : List Val :=
  let e := ecdf f
  let tot := sumBy (·.2) (valueSums f)
  let raw : List Rat := bins.map fun lr =>
    match e.limit closed lr.2, e.limit closed lr.1 with
    | some a, some b => a - b
    | _, _ => 0
  match stat with
  | .probability => raw.map some
  | .sum => raw.map fun x => some (x * tot)
  | .frequency => (raw.zip bins).map fun (x, lr) => vdiv (some (x * tot)) (some (lr.2 - lr.1))
  | .density =>
    let vals := raw.map (· * tot)
    let dot := ((vals.zip bins).map fun (x, lr) => x * (lr.2 - lr.1)).sum
    vals.map fun x => vdiv (some x) (some dot)

def ratFloor (q : Rat) : Int := q.num / (q.den : Int)
def ratCeil (q : Rat) : Int := -ratFloor (-q)

/-- consecutive integer breaks `a, a+1, …` (`n+1` of them) as bins -/
def intBins (a : Int) : Nat → List (Rat × Rat)
  | 0 => []
  | n + 1 => ((a : Rat), ((a + 1 : Int) : Rat)) :: intBins (a + 1) n

/-- the `bins="unit"` default of `hist`: unit-length bins covering the range of values -/
def unitBins (f : Stairs Rat) (closed : Side) : List (Rat × Rat) :=
  match (valueSums f).map (·.1) with
  | [] => []
  | v :: r =>
    let lo := v
    let hi := (v :: r).getLast!
    match closed with
    | .left => intBins (ratFloor lo) ((ratFloor hi + 1 - ratFloor lo).toNat)
    | .right => intBins (ratCeil lo - 1) ((ratCeil hi - (ratCeil lo - 1)).toNat)

/-! ## windows: `values_in_range`, `min`, `max` -/

/-- table from `util._get_lims`: (function closed, interval closed) ↦ (lower bisect side, upper bisect side) -/
def getLims : Side → IClosed → Side × Side
  | .left, .both => (.right, .right)
  | .left, .left => (.right, .left)
  | .left, .right => (.right, .right)
  | .left, .neither => (.right, .left)
  | .right, .both => (.left, .left)
  | .right, .left => (.left, .left)
  | .right, .right => (.right, .left)
  | .right, .neither => (.right, .left)

/-- `bisect_left` (number of points `< x`) / `bisect_right` (number of points `≤ x`);
`none` is the −∞ / +∞ sentinel depending on `isUpper`. -/
def bisect (side : Side) (idx : List Rat) (x : Option Rat) (isUpper : Bool) : Nat :=
  match x with
  | none => if isUpper then idx.length else 0
  | some x =>
    match side with
    | .left => (idx.filter fun p => decide (p < x)).length
    | .right => (idx.filter fun p => decide (p ≤ x)).length

/-- insert into a sorted duplicate-free list (`np.unique`) -/
def insertUniq (v : Rat) : List Rat → List Rat
  | [] => [v]
  | w :: r => if v < w then v :: w :: r else if v = w then w :: r else w :: insertUniq v r

def uniqueDefined (vs : List Val) : List Rat :=
  vs.foldl (fun acc v => match v with | some x => insertUniq x acc | none => acc) []

/-- `values_in_range(where, closed)` following the code: bisect, slice, initial value when the window
starts before the first step point, NaN dropped, unique. -/
def valuesInRange (f : Stairs Rat) (lo hi : Option Rat) (c : IClosed) : List Rat :=
  match f.steps with
  | [] => uniqueDefined [f.init]
  | _ =>
    let (lowerHow, upperHow) := getLims f.closed c
    let idx := f.idx
    let leftIndex : Int := (bisect lowerHow idx lo false : Int) - 1
    let rightIndex := bisect upperHow idx hi true
    let start := leftIndex.toNat
    let vals := ((f.steps.map Prod.snd).take rightIndex).drop start
    let vals := if leftIndex < 0 then f.init :: vals else vals
    uniqueDefined vals

def defaultIClosed : Side → IClosed
  | .left => .left
  | .right => .right

def listMin : List Rat → Option Rat
  | [] => none
  | x :: r => some (r.foldl (fun a b => if b < a then b else a) x)
def listMax : List Rat → Option Rat
  | [] => none
  | x :: r => some (r.foldl (fun a b => if a < b then b else a) x)

def minIn (f : Stairs Rat) (lo hi : Option Rat) (c : IClosed) : Option Rat := listMin (valuesInRange f lo hi c)
def maxIn (f : Stairs Rat) (lo hi : Option Rat) (c : IClosed) : Option Rat := listMax (valuesInRange f lo hi c)

/-! ## cov / corr -/

def okOr (d : Stairs Rat) (r : Except Err (Stairs Rat)) : Stairs Rat :=
  match r with | .ok x => x | .error _ => d

/-- window and operands after lag handling, mutually masked (shared by cov and corr) -/
def covPrep (f g : Stairs Rat) (lo hi : Option Rat) (lag : Rat) (clipPre : Bool) :
    Except Err (Stairs Rat × Stairs Rat × Option Rat × Option Rat) := do
  let hi' := if lag ≠ 0 ∧ clipPre then hi.map (· - lag) else hi
  let g' := if lag ≠ 0 then shift g (-lag) else g
  let m ← binop (.logic .or) (unop .isna f) (unop .isna g')
  let f1 ← mask f m
  let g1 ← mask g' m
  pure (f1, g1, lo, hi')

def clipW (f : Stairs Rat) (lo hi : Option Rat) : Except Err (Stairs Rat) :=
  match lo, hi with
  | none, none => .ok f
  | _, _ => clip f lo hi

def vsubv (a b : Val) : Val := vsub a b

/-- `cov(other, where, lag, clip)` = E[fg] − E[f]E[g] over the common defined part of the window -/
def cov (f g : Stairs Rat) (lo hi : Option Rat) (lag : Rat) (clipPre : Bool) : Except Err Val := do
  let (f1, g1, lo', hi') ← covPrep f g lo hi lag clipPre
  let fg ← binop .mul f1 g1
  let a ← clipW fg lo' hi'
  let b ← clipW f1 lo' hi'
  let c ← clipW g1 lo' hi'
  pure (vsub (mean a) (vmul (mean b) (mean c)))

/-- `corr` in squared form is not convenient to compare; we return `(cov, var f, var g)` over the
same region and let the comparison form `cov / sqrt(var f · var g)` (square root is float glue). -/
def corrParts (f g : Stairs Rat) (lo hi : Option Rat) (lag : Rat) (clipPre : Bool) :
    Except Err (Val × Val × Val) := do
  let (f1, g1, lo', hi') ← covPrep f g lo hi lag clipPre
  -- `self.cov(other, where)` is called first, on the masked operands with the adjusted window and lag 0 (so that
  -- operands closed on different sides raise even when a standard deviation is zero)
  let cv ← cov f1 g1 lo' hi' 0 true
  let b ← clipW f1 lo' hi'
  let c ← clipW g1 lo' hi'
  pure (cv, var b, var c)

end Stairs
end SC
