import SCModel.Model.Stats
/-!
# SCModel.Model.Relabel — re-labelling the domain (numbers ↔ Timestamps ↔ Timedeltas)
-/
namespace SC
namespace Stairs

/-- the image of a step function under a re-labelling of the domain: step points moved, values kept -/
def mapPoints {P Q : Type} (φ : P → Q) (f : Stairs P) : Stairs Q :=
  ⟨f.init, f.steps.map fun pv => (φ pv.1, pv.2), f.closed⟩

end Stairs
end SC
