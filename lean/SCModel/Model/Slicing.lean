import SCModel.Model.Arrays
/-!
# SCModel.Model.Slicing — `slice`, slicer statistics, `resample`, `rolling_mean`, `describe`
(mirrors `slicing.py` and the tail of `stairs.py`; domain = ℚ)
-/
namespace SC
namespace Stairs

/-- one interval of the slicing index -/
abbrev Iv := Rat × Rat

/-- `_create_slices`: `clip(f, i.left, i.right)` per interval -/
def slices (f : Stairs Rat) (ivs : List Iv) : List (Except Err (Stairs Rat)) :=
  ivs.map fun iv => clip f (some iv.1) (some iv.2)

def fmaxV : Val → Val → Val
  | some a, some b => some (if a < b then b else a)
  | some a, none => some a
  | none, b => b
def fminV : Val → Val → Val
  | some a, some b => some (if b < a then b else a)
  | some a, none => some a
  | none, b => b

/-- which endpoint (if any) `StairsSlicer.max/min` has to add by sampling `f` there -/
def slicerEndpoint : Side → IClosed → Option Side
  | .left, .right => some .right
  | .left, .both => some .right
  | .right, .left => some .left
  | .right, .both => some .left
  | _, _ => none

/-- slicer max / min for one interval: extreme of the slice, combined (ignoring NaN) with the
sample at the closed endpoint the slice itself cannot see -/
def slicerExtreme (isMax : Bool) (f : Stairs Rat) (c : IClosed) (iv : Iv) : Except Err Val := do
  let s ← clip f (some iv.1) (some iv.2)
  let base : Val := if isMax then maxIn s none none (defaultIClosed s.closed)
                    else minIn s none none (defaultIClosed s.closed)
  let comb := if isMax then fmaxV else fminV
  pure (match slicerEndpoint f.closed c with
    | none => base
    | some .right => comb base (f.sample iv.2)
    | some .left => comb base (f.sample iv.1))

/-- `resample`: f outside the span of the slices, the given constants on the slices.
`vals` are the per-slice statistics (computed by the caller with the slicer statistic). -/
def resampleWith (f : Stairs Rat) (ivs : List Iv) (vals : List Rat) : Except Err (Stairs Rat) := do
  match ivs with
  | [] => .error .valueError
  | iv0 :: _ =>
    let lb := ivs.foldl (fun a iv => if iv.1 < a then iv.1 else a) iv0.1
    let rb := ivs.foldl (fun a iv => if a < iv.2 then iv.2 else a) iv0.2
    let stairsNa := fillnaScalar (maskTuple (unop .isna f) (some lb) (some rb)) (some 0)
    let base ← mask (fillnaScalar (maskTuple f (some lb) (some rb)) (some 0)) stairsNa
    pure (layer base ((ivs.zip vals).map fun (iv, v) => ⟨some iv.1, some iv.2, v⟩))

/-- are the slices increasing and non-overlapping (`is_non_overlapping_monotonic`)? -/
def nonOverlapping (c : IClosed) : List Iv → Bool
  | a :: b :: r =>
    (if c = .both then decide (a.2 < b.1) else decide (a.2 ≤ b.1)) && nonOverlapping c (b :: r)
  | _ => true

/-- `rolling_mean(window=(l, r), where=(lo, hi))`: knots and window means -/
def rollingMean (f : Stairs Rat) (l r : Rat) (lo hi : Option Rat) : Except Err (List (Rat × Val)) := do
  let c ← clipW f lo hi
  match c.steps with
  | [] =>
    -- nothing to roll over: the code returns the constant at the two ends of `where`
    match lo, hi with
    | some a, some b => pure [(a, c.init), (b, c.init)]
    | _, _ => .error .assertion
  | _ =>
    let sp := c.idx
    let pts := unionIdx (sp.map (· - l)) (sp.map (· - r))
    let rows ← pts.mapM fun x => do
      let s ← clip c (some (x + l)) (some (x + r))
      pure (x, mean s)
    let rows := match lo with | some a => rows.filter (fun xy => decide (a - l ≤ xy.1)) | none => rows
    let rows := match hi with | some b => rows.filter (fun xy => decide (xy.1 ≤ b - r)) | none => rows
    pure rows

end Stairs
end SC
