import SCModel.Model.Views
import SCModel.Model.Layer
/-!
# SCModel.Model.Forms — the second internal form of a `Stairs`: step CHANGES ("deltas")

The library keeps two interchangeable columns per step point, the step *values* (right limits, what
`Stairs P` stores) and the step *changes*, converts lazily between them (`_make_deltas_from_vals`,
`_make_vals_from_deltas`) and runs several code paths on the change column
(`_remove_redundant_step_points` "via deltas", delta-wise `+`/`-`, `layer`).  This file mirrors those
code paths.  Everything is total, computable and Mathlib-free.  `none : Val` is NaN.
-/
namespace SC

/-! ## the two conversions on bare columns -/

/-- `temp[notnull].diff()` merged back with the NaN rows: an undefined value gives an undefined
change, a defined value gives its difference to the **previous defined** value `last`;
when there is no previous defined value the pandas result is NaN (the first row of `.diff()`). -/
def diffSkip (last : Val) : List Val → List Val
  | [] => []
  | none :: r => none :: diffSkip last r
  | some v :: r => last.map (fun l => v - l) :: diffSkip (some v) r

/-- `_make_deltas_from_vals(init_val, vals)`: `diffSkip` plus the patch
`if isnan(init_val): result.iloc[0] = vals.iloc[0]`. -/
def deltasFromVals (init : Val) (vals : List Val) : List Val :=
  match init, vals with
  | none, v :: _ => (diffSkip none vals).set 0 v
  | _, _ => diffSkip init vals

/-- the simplified reading of `_make_deltas_from_vals` ("thread the last defined value; a defined value
with nothing defined before it is its own change").  Agrees with `deltasFromVals` on every canonical
input (`Props.Forms.deltasFromVals_eq_thread`); differs only where pandas NaN-contaminates. -/
def deltasThread (last : Val) : List Val → List Val
  | [] => []
  | none :: r => none :: deltasThread last r
  | some v :: r => some (match last with | some l => v - l | none => v) :: deltasThread (some v) r

/-- pandas `cumsum`: running sum that skips NaN entries and leaves them NaN. -/
def cumsumSkip (acc : Rat) : List Val → List Val
  | [] => []
  | none :: r => none :: cumsumSkip acc r
  | some d :: r => some (acc + d) :: cumsumSkip (acc + d) r

/-- `base = 0 if isnan(init_val) else init_val` -/
def baseOf (init : Val) : Rat := init.getD 0

/-- `_make_vals_from_deltas(init_val, deltas) = deltas.cumsum() + base` -/
def valsFromDeltas (init : Val) (deltas : List Val) : List Val :=
  (cumsumSkip 0 deltas).map fun c => c.map (· + baseOf init)

section rows
variable {P : Type}

/-- keep the index (step points) of `s`, replace its data column by `g` of the old column -/
def recolumn (s : List (P × Val)) (g : List Val → List Val) : List (P × Val) :=
  (s.map Prod.fst).zip (g (s.map Prod.snd))

/-- `_remove_redundant_step_points`, `remove_via_deltas`:
`remove = (delta.isna() & delta.isna().shift()) | (delta == 0)`.
`prevNa` is `delta.isna().shift()` for the current row (the ORIGINAL previous row; for the first row
the shifted value is missing and counts as `False`). -/
def removeRedundantDeltasFrom (prevNa : Bool) : List (P × Val) → List (P × Val)
  | [] => []
  | (p, none) :: r =>
      if prevNa then removeRedundantDeltasFrom true r else (p, none) :: removeRedundantDeltasFrom true r
  | (p, some d) :: r =>
      if d = 0 then removeRedundantDeltasFrom false r else (p, some d) :: removeRedundantDeltasFrom false r

def removeRedundantDeltas (ds : List (P × Val)) : List (P × Val) := removeRedundantDeltasFrom false ds

end rows

/-- The delta form of a `Stairs` object: initial value and `(step point, step change)` rows. -/
structure DStairs (P : Type) where
  init : Val
  deltas : List (P × Val)
  closed : Side
  deriving Repr, DecidableEq

namespace Stairs
variable {P : Type}

/-- `step_changes` / `_get_deltas()` -/
def stepChanges (f : Stairs P) : List (P × Val) := recolumn f.steps (deltasFromVals f.init)

/-- `_create_deltas` -/
def toDeltaForm (f : Stairs P) : DStairs P := ⟨f.init, stepChanges f, f.closed⟩

/-- every value (initial and step values) is defined: `not _has_na()` -/
def noNa (f : Stairs P) : Bool := f.init.isSome && f.steps.all (·.2.isSome)

end Stairs

namespace DStairs
variable {P : Type}

/-- `_get_values()` -/
def stepValues (d : DStairs P) : List (P × Val) := recolumn d.deltas (valsFromDeltas d.init)

/-- `_create_values` -/
def toValueForm (d : DStairs P) : Stairs P := ⟨d.init, stepValues d, d.closed⟩

/-- `_remove_redundant_step_points` when the deltas are the valid column -/
def removeRedundant (d : DStairs P) : DStairs P := { d with deltas := removeRedundantDeltas d.deltas }

def noNa (d : DStairs P) : Bool := d.init.isSome && d.deltas.all (·.2.isSome)

end DStairs

abbrev fromDeltaForm {P : Type} (d : DStairs P) : Stairs P := d.toValueForm

/-! ## delta-wise `+` / `-` -/

/-- `Series.add/sub(…, fill_value=0)` at one index label: a missing side (absent label or NaN) counts
as 0, unless both sides are missing. -/
def vfill0 (op : Rat → Rat → Rat) : Val → Val → Val
  | none, none => none
  | a, b => some (op (a.getD 0) (b.getD 0))

section merge
variable {P : Type} [LT P] [DecidableRel (α := P) (· < ·)]

/-- outer join of two sorted delta series on the union of their step points -/
def mergeDeltas (op : Rat → Rat → Rat) : List (P × Val) → List (P × Val) → List (P × Val)
  | [], ys => ys.map fun qw => (qw.1, vfill0 op none qw.2)
  | xs, [] => xs.map fun pv => (pv.1, vfill0 op pv.2 none)
  | (p, v) :: xs, (q, w) :: ys =>
      if p < q then (p, vfill0 op v none) :: mergeDeltas op xs ((q, w) :: ys)
      else if q < p then (q, vfill0 op none w) :: mergeDeltas op ((p, v) :: xs) ys
      else (p, vfill0 op v w) :: mergeDeltas op xs ys
termination_by xs ys => xs.length + ys.length

/-- the delta path of `ops/arithmetic.py`: operate on the change columns, on the initial values, then
`_remove_redundant_step_points` (delta form). -/
def opDeltas (op : Rat → Rat → Rat) (d e : DStairs P) (cl : Side) : DStairs P :=
  DStairs.removeRedundant ⟨vlift2 op d.init e.init, mergeDeltas op d.deltas e.deltas, cl⟩

def addDeltas (d e : DStairs P) (cl : Side) : DStairs P := opDeltas (· + ·) d e cl
def subDeltas (d e : DStairs P) (cl : Side) : DStairs P := opDeltas (· - ·) d e cl

/-! ## `layer` on the delta form -/

/-- `deltas[p] = deltas.get(p, 0) + v`, entry dropped if it became 0, result sorted by point -/
def upsertDelta (p : P) (v : Rat) : List (P × Val) → List (P × Val)
  | [] => if v = 0 then [] else [(p, some v)]
  | (q, w) :: r =>
      if p < q then (if v = 0 then (q, w) :: r else (p, some v) :: (q, w) :: r)
      else if q < p then (q, w) :: upsertDelta p v r
      else
        let n := vadd w (some v)
        if n = some 0 then r else (q, n) :: r

/-- `_layer_scalar(self, start, end, value)` -/
def layerScalarDeltas [DecidableEq P] (d : DStairs P) (s e : Option P) (v : Rat) : DStairs P :=
  if s.isSome && e.isSome && decide (s = e) then d
  else
    let init' := match s with | none => vadd d.init (some v) | some _ => d.init
    let ds1 := match s with | none => d.deltas | some p => upsertDelta p v d.deltas
    let ds2 := match e with | none => ds1 | some q => upsertDelta q (-v) ds1
    ⟨init', ds2, d.closed⟩

/-- one key of `groupby(index).sum()` (NaN entries are skipped by the sum), keys kept sorted -/
def groupInsert (p : P) (d : Val) : List (P × Val) → List (P × Val)
  | [] => [(p, some (d.getD 0))]
  | (q, w) :: r =>
      if p < q then (p, some (d.getD 0)) :: (q, w) :: r
      else if q < p then (q, w) :: groupInsert p d r
      else (q, some (w.getD 0 + d.getD 0)) :: r

/-- `deltas.groupby(deltas.index).sum()` -/
def groupSum (l : List (P × Val)) : List (P × Val) :=
  l.foldl (fun acc pd => groupInsert pd.1 pd.2 acc) []

/-- `+value` at every present start -/
def startEntries (ts : List (Stairs.Triple P)) : List (P × Val) :=
  ts.filterMap fun t => t.start.map fun p => (p, some t.value)
/-- `-value` at every present end (missing ends are dropped by the group-by) -/
def stopEntries (ts : List (Stairs.Triple P)) : List (P × Val) :=
  ts.filterMap fun t => t.stop.map fun p => (p, some (-t.value))
/-- `start_series[start_series.index.isna()].sum()` -/
def missingStartSum (ts : List (Stairs.Triple P)) : Rat :=
  ((ts.filter fun t => t.start.isNone).map (·.value)).sum

/-- the vector form of `layer`: concat, group by point and sum, bump the initial value by the values
with a missing start, remove redundant step points (delta form). -/
def layerVectorDeltas (d : DStairs P) (ts : List (Stairs.Triple P)) : DStairs P :=
  DStairs.removeRedundant
    ⟨vadd d.init (some (missingStartSum ts)), groupSum (startEntries ts ++ stopEntries ts ++ d.deltas), d.closed⟩

end merge
end SC
