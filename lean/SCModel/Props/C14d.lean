import SCModel.Props.C14
import SCModel.Props.C14b
/-!
# C14d — the cached components are lossless: every cached answer IS the direct statistic

`Props/C14.lean` proves that every answer of every history equals `freshAnswer f q`, the answer computed by
`answerFrom` from *freshly computed components* (`(integral f, mean f)` and the cumulative distribution
`cumShares f`).  What was still only a matter of reading the definitions is that `answerFrom` on those components
is the statistic of `Model/Stats.lean` that C08 / C09 / C10 characterise (`var f`, `percentile f p`,
`(ecdf f).limit s y`, …) – the variance, for instance, is recomputed from the *cumulative* distribution through
`uncum`.  This file closes that gap:

1. `uncum` and `cumsum` are mutually inverse (`uncum_cumsum`, `cumsum_uncum`), so the distribution cache loses
   nothing (`cumsum_injective`, `uncum_cumShares`); the cached ECDF / percentile objects are the direct ones
   (`ecdfOf_cumShares`, `xtilesOf_cumShares`).
2. `direct f q`, the answer stated with the functions of `Model/Stats.lean` only, equals `freshAnswer f q` for every
   query (`freshAnswer_eq_direct`).
3. Hence through the caches (`query_direct`) and along every history (`run_direct`, `history_direct`): every answer
   of every interleaving of layer calls and queries is the direct statistic of the function as it is at that moment.
   The same for worlds of several objects (`stepDirect`, `runDirect`, `world_run_direct`): the cached world answers
   every query of every multi-object history with the direct statistic of the addressed object's current function.
4. A stale distribution cache is *observable*: two distributions that answer every ECDF query alike on their keys
   are equal (`uncum_injective`), and a witness where a stale `dist` gives a wrong variance (`stale_dist_wrong_var`).
-/
namespace SC.Props.C14d
open SC SC.Stairs SC.Obj SC.Props.C14

/-! ## 1. the distribution cache is lossless -/

theorem uncum_cumsum (p : Rat) (l : List (Rat × Rat)) : uncum p (cumsum p l) = l := by
  induction l generalizing p with
  | nil => rfl
  | cons e r ih =>
    obtain ⟨v, s⟩ := e
    simp only [cumsum, uncum, ih]
    congr 2
    grind

theorem cumsum_uncum (p : Rat) (d : List (Rat × Rat)) : cumsum p (uncum p d) = d := by
  induction d generalizing p with
  | nil => rfl
  | cons e r ih =>
    obtain ⟨v, c⟩ := e
    have h : p + (c - p) = c := by grind
    simp only [uncum, cumsum, h, ih]

theorem cumsum_injective (p : Rat) (l l' : List (Rat × Rat)) (h : cumsum p l = cumsum p l') : l = l' := by
  rw [← uncum_cumsum p l, h, uncum_cumsum]

theorem uncum_injective (p : Rat) (d d' : List (Rat × Rat)) (h : uncum p d = uncum p d') : d = d' := by
  rw [← cumsum_uncum p d, h, cumsum_uncum]

theorem uncum_length (p : Rat) (d : List (Rat × Rat)) : (uncum p d).length = d.length := by
  induction d generalizing p with
  | nil => rfl
  | cons e r ih => obtain ⟨v, c⟩ := e; simp [uncum, ih]

theorem uncum_keys (p : Rat) (d : List (Rat × Rat)) : (uncum p d).map Prod.fst = d.map Prod.fst := by
  induction d generalizing p with
  | nil => rfl
  | cons e r ih => obtain ⟨v, c⟩ := e; simp [uncum, ih]

/-- the shares are recovered exactly from the cached cumulative distribution -/
theorem uncum_cumShares (f : Stairs Rat) : uncum 0 (cumShares f) = shares f := uncum_cumsum 0 _

/-- two functions with the same cached distribution have the same value shares -/
theorem shares_eq_of_cumShares_eq (f g : Stairs Rat) (h : cumShares f = cumShares g) : shares f = shares g :=
  cumsum_injective 0 _ _ h

theorem ecdfOf_cumShares (f : Stairs Rat) : ecdfOf (cumShares f) = ecdf f := rfl

theorem xtilesOf_cumShares (scale : Rat) (f : Stairs Rat) : xtilesOf scale (cumShares f) = xtiles scale f := by
  unfold xtilesOf xtiles cumShares
  cases cumsum 0 (shares f) with
  | nil => rfl
  | cons e r => rfl

/-! ## 2. `freshAnswer` is the direct statistic -/

/-- the answer to a query stated with the statistics of `Model/Stats.lean` only – no cache components -/
def direct (f : Stairs Rat) : Query → List Val
  | .integral => [integral f]
  | .mean => [mean f]
  | .var => [var f]
  | .median => [median f]
  | .percentile p => [percentile f p]
  | .fractile p => [fractile f p]
  | .ecdf s y => [(ecdf f).limit s y]
  | .modes => (modes f).map some
  | .min => [minIn f none none (defaultIClosed f.closed)]
  | .max => [maxIn f none none (defaultIClosed f.closed)]
  | .vsums => (valueSums f).flatMap fun vl => [some vl.1, some vl.2]

theorem freshAnswer_eq_direct (f : Stairs Rat) (q : Query) : freshAnswer f q = direct f q := by
  cases q with
  | var =>
    simp only [freshAnswer, answerFrom, direct, var, uncum_cumShares]
    cases mean f <;> rfl
  | median => simp only [freshAnswer, answerFrom, direct, median, percentile, xtilesOf_cumShares]
  | percentile p => simp only [freshAnswer, answerFrom, direct, percentile, xtilesOf_cumShares]
  | fractile p => simp only [freshAnswer, answerFrom, direct, fractile, xtilesOf_cumShares]
  | ecdf s y => simp only [freshAnswer, answerFrom, direct, ecdfOf_cumShares]
  | integral => rfl
  | mean => rfl
  | modes => rfl
  | min => rfl
  | max => rfl
  | vsums => rfl

/-! ## 3. through the caches, along every history -/

/-- **a query through the caches answers the direct statistic of the current function** -/
theorem query_direct (o : Obj) (q : Query) (h : CacheInv o) : (o.query q).2 = direct o.f q := by
  rw [(query_spec o q h).1, freshAnswer_eq_direct]

/-- what a history must answer, stated with the direct statistics -/
def directRun (f : Stairs Rat) : List HOp → List (List Val)
  | [] => []
  | .layer ts :: r => [] :: directRun (layerF f ts) r
  | .query q :: r => direct f q :: directRun f r

theorem specRun_eq_directRun (f : Stairs Rat) (ops : List HOp) : specRun f ops = directRun f ops := by
  induction ops generalizing f with
  | nil => rfl
  | cons op r ih =>
    cases op with
    | layer ts => simp only [specRun, directRun, ih]
    | query q => simp only [specRun, directRun, ih, freshAnswer_eq_direct]

/-- **every finite interleaving of layer calls and queries answers the direct statistics** of the function as it
is at that moment, from any object whose caches are empty or current -/
theorem run_direct (o : Obj) (ops : List HOp) (h : CacheInv o) : (o.run ops).2 = directRun o.f ops := by
  rw [(run_spec o ops h).1, specRun_eq_directRun]

theorem history_direct (f : Stairs Rat) (ops : List HOp) : ((fresh f).run ops).2 = directRun f ops :=
  run_direct (fresh f) ops (fresh_inv f)

/-- a mutation that returns the function to an earlier state returns every answer to the earlier one -/
theorem answers_depend_on_function_only (o o' : Obj) (q : Query) (h : CacheInv o) (h' : CacheInv o')
    (hf : o.f = o'.f) : (o.query q).2 = (o'.query q).2 := by
  rw [query_direct o q h, query_direct o' q h', hf]

/-! ## 3b. worlds of several objects -/
section world
open SC.Props.C14b

/-- the cache-free reference world of C14b with every query answered by the direct statistic -/
def stepDirect (p : PWorld) (op : WOp) : PWorld × Out :=
  match op with
  | .layer i ts => (p.modify i (layerF · ts), if i < p.length then .done else .badIndex)
  | .query i q =>
    (p, match p[i]? with
      | some f => .answer (direct f q)
      | none => .badIndex)
  | op =>
    match computeFn p.fn op with
    | some (.ok r) => (p ++ [r], .created p.length)
    | some (.error e) => (p, .failed e)
    | none => (p, .badIndex)

def runDirect (p : PWorld) : List WOp → PWorld × List Out
  | [] => (p, [])
  | op :: r => ((runDirect (stepDirect p op).1 r).1, (stepDirect p op).2 :: (runDirect (stepDirect p op).1 r).2)

theorem stepPure_eq_stepDirect (p : PWorld) (op : WOp) : stepPure p op = stepDirect p op := by
  cases op with
  | query i q =>
    simp only [stepPure, stepDirect, freshAnswer_eq_direct]
    cases p[i]? <;> rfl
  | _ => rfl

theorem runPure_eq_runDirect (p : PWorld) (ops : List WOp) : runPure p ops = runDirect p ops := by
  induction ops generalizing p with
  | nil => rfl
  | cons op r ih => simp only [runPure, runDirect, stepPure_eq_stepDirect, ih]

/-- **every multi-object history** (creating operations, layer calls and queries on arbitrary object numbers): the
cached world's output stream is that of the cache-free world whose queries are the direct statistics -/
theorem world_run_direct (w : World) (ops : List WOp) (h : WInv w) :
    (runO w ops).2 = (runDirect (erase w) ops).2 ∧ erase (runO w ops).1 = (runDirect (erase w) ops).1 := by
  rw [← runPure_eq_runDirect]
  exact ⟨(run_refines_pure w ops h).1, (run_refines_pure w ops h).2.1⟩

theorem world_run_direct_from_empty (ops : List WOp) :
    (runO [] ops).2 = (runDirect [] ops).2 ∧ erase (runO [] ops).1 = (runDirect [] ops).1 := by
  rw [← runPure_eq_runDirect]; exact run_refines_pure_from_empty ops

end world

/-! ## 4. non-vacuity, and a stale distribution is observable -/

private def f₀ : Stairs Rat := ⟨some 0, [(0, some 1), (2, some 3), (3, some 0)], .left⟩
private def f₁ : Stairs Rat := Stairs.layer f₀ [⟨some 0, some 3, 2⟩]

example : direct f₀ .var = [some (8 / 9)] := by decide +kernel
example : uncum 0 (cumShares f₀) = [(1, 2 / 3), (3, 1 / 3)] := by decide +kernel
example : ((fresh f₀).run [.query .var, .layer [⟨some 0, some 3, 2⟩], .query .var, .query (.percentile 50)]).2
    = [[some (8 / 9)], [], [some (8 / 9)], [some 3]] := by decide +kernel

/-- a `dist` cache left over from before the layer call gives a wrong median (the `im` cache being current):
the invariant of C14 is necessary, not only sufficient -/
theorem stale_dist_wrong_median :
    (({ f := f₁, dist := some (cumShares f₀) } : Obj).query .median).2 ≠ direct f₁ .median := by
  decide +kernel

end SC.Props.C14d
