import SCModel.Lemmas.Forms
import Mathlib.Data.Int.Order.Basic
/-!
# Forms — the two internal forms (step VALUES / step CHANGES) denote the same function

The library stores, per step point, the step *value* (right limit) and/or the step *change* ("delta"),
converts lazily between them and runs several code paths on the delta column.  `Model/Forms.lean`
mirrors those code paths; here they are tied to the value-form model:

1. `_make_vals_from_deltas ∘ _make_deltas_from_vals = id` on canonical data (and the converse), with the
   counterexample for the excluded "NaN initial value, NaN first row" case;
2. for everywhere-defined data the deltas are the plain successive differences and
   `initial value + running sum` gives the values back;
3. a delta is `0` exactly when the value repeats the previous *defined* value; hence removing redundant
   step points on the delta column is canonicalisation for NaN-free data — and is NOT for data with
   undefined pieces (refutation);
4. delta-wise `+` / `-` (outer join with fill 0) = the general value-wise path, NaN-free operands;
5. scalar `layer` on the deltas (insert-or-update, drop zeros) = `layer1`;
6. vector `layer` (concat + group-sum + remove redundant) = any fold of scalar layers = `layer`.

`Den h st x` is the one-sided limit (`st = true`: left limit).  "NaN-free" is `Stairs.noNa` (initial value
and every step value defined), resp. `DStairs.Good` (defined initial value, strictly increasing points,
every change defined) for a delta form.
-/
set_option linter.unusedSectionVars false
namespace SC.Props.Forms
open SC SC.Stairs
variable {P : Type} [LinearOrder P]

/-! ## 1. round trips -/

/-- **values → deltas → values** on a canonical (minimal) column -/
theorem roundtrip_canonical (init : Val) (rows : List (P × Val)) (h : Minimal init rows) :
    valsFromDeltas init (deltasFromVals init (rows.map Prod.snd)) = rows.map Prod.snd :=
  valsFromDeltas_deltasFromVals init _ (headOk_of_minimal init rows h)

/-- … more generally whenever the first row is not "NaN after a NaN initial value"
(in particular for every defined initial value, canonical or not) -/
theorem roundtrip_vals (init : Val) (vals : List Val) (h : init = none → vals.head? ≠ some none) :
    valsFromDeltas init (deltasFromVals init vals) = vals := valsFromDeltas_deltasFromVals init vals h

/-- **deltas → values → deltas**, same proviso -/
theorem roundtrip_deltas (init : Val) (ds : List Val) (h : init = none → ds.head? ≠ some none) :
    deltasFromVals init (valsFromDeltas init ds) = ds := deltasFromVals_valsFromDeltas init ds h

/-- the round trip on whole objects -/
theorem fromDeltaForm_toDeltaForm (f : Stairs P) (hf : f.IsMinimal) : fromDeltaForm (toDeltaForm f) = f :=
  toValueForm_toDeltaForm f (headOk_of_minimal _ _ hf)

theorem fromDeltaForm_toDeltaForm_canonical (f : Stairs P) (hf : f.Canonical) :
    fromDeltaForm (toDeltaForm f) = f := fromDeltaForm_toDeltaForm f hf.2

theorem fromDeltaForm_toDeltaForm_noNa (f : Stairs P) (hf : f.noNa = true) :
    fromDeltaForm (toDeltaForm f) = f :=
  toValueForm_toDeltaForm f (headOk_of_some _ _ ((noNa_iff f).mp hf).1)

theorem toDeltaForm_fromDeltaForm (d : DStairs P) (h : d.init = none → (d.deltas.map Prod.snd).head? ≠ some none) :
    toDeltaForm (fromDeltaForm d) = d := DStairs.toDeltaForm_toValueForm d h

/-- the conversions keep the index, the initial value and the closed side -/
theorem toDeltaForm_index (f : Stairs P) :
    (toDeltaForm f).deltas.map Prod.fst = stepPoints f ∧ (toDeltaForm f).init = f.init ∧
      (toDeltaForm f).closed = f.closed := ⟨map_fst_stepChanges f, rfl, rfl⟩

theorem fromDeltaForm_index (d : DStairs P) :
    stepPoints (fromDeltaForm d) = d.deltas.map Prod.fst ∧ (fromDeltaForm d).init = d.init ∧
      (fromDeltaForm d).closed = d.closed := ⟨DStairs.map_fst_stepValues d, rfl, rfl⟩

/-- `deltas.cumsum() + base` is the NaN-skipping running sum started at `base` -/
theorem valsFromDeltas_is_cumsum (init : Val) (ds : List Val) :
    valsFromDeltas init ds = cumsumSkip (baseOf init) ds := valsFromDeltas_eq init ds

/-- on canonical data `_make_deltas_from_vals` is "difference to the last defined value, a value with
nothing defined before it is its own change" -/
theorem deltasFromVals_is_thread (init : Val) (rows : List (P × Val)) (h : Minimal init rows) :
    deltasFromVals init (rows.map Prod.snd) = deltasThread init (rows.map Prod.snd) :=
  deltasFromVals_eq_thread init _ (headOk_of_minimal init rows h)

/-- **the excluded case** (NaN initial value and NaN first row – never canonical): the first defined
value is lost, as in pandas, where the first row of `.diff()` is NaN -/
example : deltasFromVals none [none, some 3, some 5] = [none, none, some 2] := by decide +kernel
example : valsFromDeltas none (deltasFromVals none [none, some 3, some 5]) = [none, none, some 2] := by
  decide +kernel
example : valsFromDeltas none (deltasFromVals none [none, some 3, some 5]) ≠ [none, some 3, some 5] := by
  decide +kernel
example : ¬ Minimal (none : Val) [((0 : Int), (none : Val)), (1, some 3), (2, some 5)] := by decide +kernel
/-- the simplified reading and the pandas-faithful one differ exactly there -/
example : deltasThread none [none, some 3, some 5] = [none, some 3, some 2] ∧
    valsFromDeltas none (deltasThread none [none, some 3, some 5]) = [none, some 3, some 5] := by decide +kernel

/-! ## 2. everywhere-defined functions -/

/-- the deltas are the plain successive differences -/
theorem deltas_defined (a : Rat) (vals : List Rat) :
    deltasFromVals (some a) (vals.map some) = (changesFrom a vals).map some := by
  rw [deltasFromVals_some, diffSkip_map_some]

/-- the values are the plain running sum from the initial value -/
theorem vals_defined (a : Rat) (ds : List Rat) :
    valsFromDeltas (some a) (ds.map some) = (runningSum a ds).map some := by
  rw [valsFromDeltas_eq, cumsumSkip_map_some]; rfl

/-- `init + running sum of the step changes` reproduces the step values -/
theorem running_sum_reproduces (a : Rat) (vals : List Rat) :
    valsFromDeltas (some a) (deltasFromVals (some a) (vals.map some)) = vals.map some ∧
    runningSum a (changesFrom a vals) = vals := by
  refine ⟨roundtrip_vals _ _ (by simp), ?_⟩
  induction vals generalizing a with
  | nil => rfl
  | cons v r ih =>
    have h : a + (v - a) = v := by grind
    simp only [changesFrom, runningSum, h, ih]

/-- a NaN-free function has a NaN-free delta column, and vice versa -/
theorem toDeltaForm_good (f : Stairs P) (hn : f.noNa = true) (hf : f.WF) : (toDeltaForm f).Good :=
  good_toDeltaForm f hn hf

/-! ## 3. zero changes and redundant step points -/

/-- **a change is `0` exactly when the value equals the previous defined value**
(`lastDef last l` = the last defined entry of `last :: l`) -/
theorem delta_zero_iff (a : Rat) (vals : List Val) (i : Nat) :
    (deltasFromVals (some a) vals)[i]? = some (some 0) ↔
      ∃ v, vals[i]? = some (some v) ∧ lastDef (some a) (vals.take i) = some v := by
  rw [deltasFromVals_some]; exact diffSkip_zero_iff (some a) vals i

/-- a change is NaN exactly when the value is -/
theorem delta_none_iff (a : Rat) (vals : List Val) (i : Nat) :
    (deltasFromVals (some a) vals)[i]? = some none ↔ vals[i]? = some none := by
  rw [deltasFromVals_some]; exact diffSkip_none_iff a vals i

/-- for a NaN-free column "previous defined value" is just "previous value" (entry `i` of `init :: vals`) -/
theorem lastDef_defined (a : Rat) (vals : List Rat) (i : Nat) (hi : i ≤ vals.length) :
    lastDef (some a) ((vals.map some).take i) = (a :: vals)[i]? := by
  induction vals generalizing a i with
  | nil => cases i with
    | zero => rfl
    | succ i => simp at hi
  | cons v r ih =>
    cases i with
    | zero => rfl
    | succ i =>
      rw [List.map_cons, List.take_succ_cons, lastDef_cons_some, ih v i (by simpa using hi)]
      simp

/-- **NaN-free: removing redundant step points on the delta column is canonicalisation**
(no well-formedness needed) -/
theorem removeRedundant_delta_form (f : Stairs P) (hn : f.noNa = true) :
    (toDeltaForm f).removeRedundant = toDeltaForm f.canon := by
  rw [noNa_iff] at hn
  cases h : f.init with
  | none => exact absurd h hn.1
  | some a =>
    have h' : f.canon.init = some a := h
    show (⟨f.init, removeRedundantDeltas (stepChanges f), f.closed⟩ : DStairs P)
        = ⟨f.canon.init, stepChanges f.canon, f.canon.closed⟩
    rw [stepChanges_eq f a h, stepChanges_eq f.canon a h', removeRedundantDeltas,
      removeRedundantDeltasFrom_diffSkip false a f.steps hn.2]
    simp [canon, h]

/-- … so converting back gives the canonical form -/
theorem fromDeltaForm_removeRedundant (f : Stairs P) (hn : f.noNa = true) :
    fromDeltaForm (toDeltaForm f).removeRedundant = f.canon := by
  rw [removeRedundant_delta_form f hn]
  exact fromDeltaForm_toDeltaForm f.canon (minimal_canon f)

/-- a canonical NaN-free function has no zero change and its delta form is a fixed point of the removal -/
theorem canonical_noZero (f : Stairs P) (hn : f.noNa = true) (hf : f.IsMinimal) :
    NoZero (toDeltaForm f).deltas ∧ (toDeltaForm f).removeRedundant = toDeltaForm f := by
  refine ⟨?_, by rw [removeRedundant_delta_form f hn, canon_of_minimal f hf]⟩
  rw [noNa_iff] at hn
  cases h : f.init with
  | none => exact absurd h hn.1
  | some a =>
    show NoZero (stepChanges f)
    rw [stepChanges_eq f a h]
    exact noZero_recolumn_diffSkip f.steps a hn.2 (by have := hf; rwa [IsMinimal, h] at this)

/-- the delta-form removal never leaves a zero change, and keeps the sum of the changes in effect -/
theorem removeRedundantDeltas_spec (ds : List (P × Val)) :
    NoZero (removeRedundantDeltas ds) ∧ (removeRedundantDeltas ds).Sublist ds ∧
    ∀ st x, reachedSum st x (removeRedundantDeltas ds) = reachedSum st x ds :=
  ⟨noZero_removeRedundantDeltas ds, removeRedundantDeltasFrom_sublist false ds,
   fun st x => reachedSum_removeRedundantDeltas st x ds⟩

/-! **Refutation for data with undefined pieces**: values `1, NaN, 1` after initial value `1`.  The first row
repeats the initial value (really redundant); the re-entry to `1` after the gap has change `0` (the previous
*defined* value is `1`) and is dropped too — the function is then undefined forever after the gap.  This is
why the code must not canonicalise via deltas when NaN is present. -/
def gap : Stairs Int := ⟨some 1, [(1, some 1), (2, none), (3, some 1)], .left⟩
example : gap.WF ∧ gap.noNa = false := by decide +kernel
example : (toDeltaForm gap).deltas = [(1, some 0), (2, none), (3, some 0)] := by decide +kernel
example : gap.canon = ⟨some 1, [(2, none), (3, some 1)], .left⟩ := by decide +kernel
example : (toDeltaForm gap).removeRedundant = ⟨some 1, [(2, none)], .left⟩ := by decide +kernel
example : (toDeltaForm gap).removeRedundant ≠ toDeltaForm gap.canon := by decide +kernel
example : fromDeltaForm (toDeltaForm gap).removeRedundant ≠ gap.canon := by decide +kernel
/-- not merely another representation: the function itself changes -/
example : Den (fromDeltaForm (toDeltaForm gap).removeRedundant) false 3 = none ∧ Den gap false 3 = some 1 := by
  decide +kernel
/-- and `NaN` first row after a `NaN` initial value is kept by the delta-form removal (the shifted
`isna()` of the first row is missing = False), although it is redundant -/
example : removeRedundantDeltas [((1 : Int), (none : Val)), (2, none), (3, some 1)] = [(1, none), (3, some 1)] ∧
    removeRedundant (none : Val) [((1 : Int), (none : Val)), (2, none), (3, some 1)] = [(3, some 1)] := by decide +kernel

/-! ## 4. delta-wise `+` / `-` -/

theorem opDeltas_good (op : Rat → Rat → Rat) (d e : DStairs P) (cl : Side) (hd : d.Good) (he : e.Good) :
    (opDeltas op d e cl).Good ∧ NoZero (opDeltas op d e cl).deltas ∧ (opDeltas op d e cl).closed = cl := by
  obtain ⟨hdi, hds, hda⟩ := hd
  obtain ⟨hei, hes, hea⟩ := he
  refine ⟨DStairs.good_removeRedundant _ ⟨?_, sorted_mergeDeltas op _ _ hds hes, allDef_mergeDeltas op _ _ hda hea⟩,
    noZero_removeRedundantDeltas _, rfl⟩
  show vlift2 op d.init e.init ≠ none
  cases h1 : d.init with
  | none => exact absurd h1 hdi
  | some a =>
    cases h2 : e.init with
    | none => exact absurd h2 hei
    | some b => simp [vlift2]

/-- **the delta path is pointwise**, for both one-sided limits (`op` = `+` or `-`) -/
theorem den_opDeltas (op : Rat → Rat → Rat) (hop : Additive2 op) (d e : DStairs P) (cl : Side)
    (hd : d.Good) (he : e.Good) (st : Bool) (x : P) :
    Den (fromDeltaForm (opDeltas op d e cl)) st x
      = vlift2 op (Den (fromDeltaForm d) st x) (Den (fromDeltaForm e) st x) := by
  rw [DStairs.den_toValueForm _ (opDeltas_good op d e cl hd he).1, DStairs.den_toValueForm d hd,
    DStairs.den_toValueForm e he]
  show some (baseOf (vlift2 op d.init e.init) + reachedSum st x (removeRedundantDeltas (mergeDeltas op d.deltas e.deltas))) = _
  rw [reachedSum_removeRedundantDeltas, reachedSum_mergeDeltas op hop]
  obtain ⟨hdi, -, -⟩ := hd
  obtain ⟨hei, -, -⟩ := he
  cases h1 : d.init with
  | none => exact absurd h1 hdi
  | some a =>
    cases h2 : e.init with
    | none => exact absurd h2 hei
    | some b => simp only [vlift2, baseOf, Option.getD_some, hop.add]

/-- the result is already canonical: no zero change is left, so no value repeats -/
theorem opDeltas_canonical (op : Rat → Rat → Rat) (d e : DStairs P) (cl : Side) (hd : d.Good) (he : e.Good) :
    (fromDeltaForm (opDeltas op d e cl)).Canonical :=
  DStairs.canonical_toValueForm _ (opDeltas_good op d e cl hd he).1 (opDeltas_good op d e cl hd he).2.1

/-- **delta-wise add = value-wise add**, NaN-free well-formed operands, both limits -/
theorem den_addDeltas (f g : Stairs P) (cl : Side) (hnf : f.noNa = true) (hng : g.noNa = true)
    (hf : f.WF) (hg : g.WF) (st : Bool) (x : P) :
    Den (fromDeltaForm (addDeltas (toDeltaForm f) (toDeltaForm g) cl)) st x = Den (combine vadd f g cl) st x := by
  rw [addDeltas, den_opDeltas _ additive2_add _ _ cl (good_toDeltaForm f hnf hf) (good_toDeltaForm g hng hg),
    fromDeltaForm_toDeltaForm_noNa f hnf, fromDeltaForm_toDeltaForm_noNa g hng, den_combine _ f g cl hf hg]
  rfl

theorem den_subDeltas (f g : Stairs P) (cl : Side) (hnf : f.noNa = true) (hng : g.noNa = true)
    (hf : f.WF) (hg : g.WF) (st : Bool) (x : P) :
    Den (fromDeltaForm (subDeltas (toDeltaForm f) (toDeltaForm g) cl)) st x = Den (combine vsub f g cl) st x := by
  rw [subDeltas, den_opDeltas _ additive2_sub _ _ cl (good_toDeltaForm f hnf hf) (good_toDeltaForm g hng hg),
    fromDeltaForm_toDeltaForm_noNa f hnf, fromDeltaForm_toDeltaForm_noNa g hng, den_combine _ f g cl hf hg]
  rfl

/-- … and the very same object (same initial value, rows and closed side) as the general path -/
theorem addDeltas_eq_combine [NoMinOrder P] [Nonempty P] (f g : Stairs P) (cl : Side)
    (hnf : f.noNa = true) (hng : g.noNa = true) (hf : f.WF) (hg : g.WF) :
    fromDeltaForm (addDeltas (toDeltaForm f) (toDeltaForm g) cl) = combine vadd f g cl :=
  canonical_ext _ _ (opDeltas_canonical _ _ _ cl (good_toDeltaForm f hnf hf) (good_toDeltaForm g hng hg))
    (canonical_combine _ f g cl hf hg) rfl (fun x => den_addDeltas f g cl hnf hng hf hg false x)

theorem subDeltas_eq_combine [NoMinOrder P] [Nonempty P] (f g : Stairs P) (cl : Side)
    (hnf : f.noNa = true) (hng : g.noNa = true) (hf : f.WF) (hg : g.WF) :
    fromDeltaForm (subDeltas (toDeltaForm f) (toDeltaForm g) cl) = combine vsub f g cl :=
  canonical_ext _ _ (opDeltas_canonical _ _ _ cl (good_toDeltaForm f hnf hf) (good_toDeltaForm g hng hg))
    (canonical_combine _ f g cl hf hg) rfl (fun x => den_subDeltas f g cl hnf hng hf hg false x)

/-- "after canonicalisation the same rows" (canonicalising is a no-op here) -/
theorem canon_addDeltas [NoMinOrder P] [Nonempty P] (f g : Stairs P) (cl : Side)
    (hnf : f.noNa = true) (hng : g.noNa = true) (hf : f.WF) (hg : g.WF) :
    (fromDeltaForm (addDeltas (toDeltaForm f) (toDeltaForm g) cl)).canon = combine vadd f g cl := by
  rw [addDeltas_eq_combine f g cl hnf hng hf hg, canon_of_minimal _ (minimal_combine _ f g cl)]

theorem canon_subDeltas [NoMinOrder P] [Nonempty P] (f g : Stairs P) (cl : Side)
    (hnf : f.noNa = true) (hng : g.noNa = true) (hf : f.WF) (hg : g.WF) :
    (fromDeltaForm (subDeltas (toDeltaForm f) (toDeltaForm g) cl)).canon = combine vsub f g cl := by
  rw [subDeltas_eq_combine f g cl hnf hng hf hg, canon_of_minimal _ (minimal_combine _ f g cl)]

/-- the outer join lives on the union of the step points -/
theorem mergeDeltas_index (op : Rat → Rat → Rat) (xs ys : List (P × Val)) :
    (mergeDeltas op xs ys).map Prod.fst = unionIdx (xs.map Prod.fst) (ys.map Prod.fst) :=
  map_fst_mergeDeltas op xs ys


/-! ## 5. scalar `layer` on the delta form -/

theorem map_add_zero (o : Val) : o.map (· + (0 : Rat)) = o := by
  cases o <;> simp [Rat.add_zero]

/-- start = end: nothing is added anywhere -/
theorem contribution_same (p : P) (v : Rat) (st : Bool) (x : P) :
    contribution ⟨some p, some p, v⟩ st x = 0 := by
  simp only [contribution, startReached, stopReached]; grind

/-- **start = end: the receiver is returned unchanged** -/
theorem layerScalarDeltas_same (d : DStairs P) (p : P) (v : Rat) :
    layerScalarDeltas d (some p) (some p) v = d := by
  simp [layerScalarDeltas]

/-- **missing start: the initial value is bumped**, the changes only get `-value` at the end -/
theorem layerScalarDeltas_no_start (d : DStairs P) (e : Option P) (v : Rat) :
    layerScalarDeltas d none e v =
      ⟨vadd d.init (some v), (match e with | none => d.deltas | some q => upsertDelta q (-v) d.deltas), d.closed⟩ := by
  cases e <;> simp [layerScalarDeltas]

/-- present start (≠ end): the initial value is untouched -/
theorem layerScalarDeltas_start (d : DStairs P) (p : P) (e : Option P) (v : Rat) (h : e ≠ some p) :
    layerScalarDeltas d (some p) e v =
      ⟨d.init, (match e with | none => upsertDelta p v d.deltas | some q => upsertDelta q (-v) (upsertDelta p v d.deltas)),
        d.closed⟩ := by
  cases e with
  | none => simp [layerScalarDeltas]
  | some q =>
    have : ¬ p = q := fun h' => h (by rw [h'])
    simp [layerScalarDeltas, this]

theorem layerScalarDeltas_closed (d : DStairs P) (s e : Option P) (v : Rat) :
    (layerScalarDeltas d s e v).closed = d.closed := by
  unfold layerScalarDeltas; split <;> rfl

/-- the scalar layer keeps a NaN-free delta form NaN-free and sorted, creates no zero change, and adds the
triple's contribution to `initial value + changes in effect` -/
theorem layerScalarDeltas_spec (d : DStairs P) (s e : Option P) (v : Rat) (hd : d.Good) :
    (layerScalarDeltas d s e v).Good ∧
    (NoZero d.deltas → NoZero (layerScalarDeltas d s e v).deltas) ∧
    ∀ st x, baseOf (layerScalarDeltas d s e v).init + reachedSum st x (layerScalarDeltas d s e v).deltas
      = baseOf d.init + reachedSum st x d.deltas + contribution ⟨s, e, v⟩ st x := by
  have hd' := hd
  obtain ⟨hi, hs, ha⟩ := hd
  obtain ⟨a, hia⟩ : ∃ a, d.init = some a := by
    cases h : d.init with
    | none => exact absurd h hi
    | some a => exact ⟨a, rfl⟩
  have hbump : vadd d.init (some v) ≠ none := by rw [hia]; simp [vadd, vlift2]
  cases s with
  | none =>
    rw [layerScalarDeltas_no_start]
    cases e with
    | none =>
      refine ⟨⟨hbump, hs, ha⟩, id, fun st x => ?_⟩
      simp only [hia, vadd, vlift2, baseOf, Option.getD_some, contribution, startReached, stopReached]; grind
    | some q =>
      refine ⟨⟨hbump, sorted_upsertDelta q (-v) _ hs, allDef_upsertDelta q (-v) _ ha⟩,
        noZero_upsertDelta q (-v) _, fun st x => ?_⟩
      simp only [hia, vadd, vlift2, baseOf, Option.getD_some, contribution, startReached, stopReached,
        reachedSum_upsertDelta st x q (-v) _ ha]
      split <;> grind
  | some p =>
    by_cases hpe : e = some p
    · subst hpe
      rw [layerScalarDeltas_same]
      refine ⟨hd', id, fun st x => ?_⟩
      rw [contribution_same, Rat.add_zero]
    · rw [layerScalarDeltas_start d p e v hpe]
      have h1s := sorted_upsertDelta p v _ hs
      have h1a := allDef_upsertDelta p v _ ha
      cases e with
      | none =>
        refine ⟨⟨hi, h1s, h1a⟩, noZero_upsertDelta p v _, fun st x => ?_⟩
        simp only [hia, baseOf, Option.getD_some, contribution, startReached, stopReached,
          reachedSum_upsertDelta st x p v _ ha]
        split <;> grind
      | some q =>
        refine ⟨⟨hi, sorted_upsertDelta q (-v) _ h1s, allDef_upsertDelta q (-v) _ h1a⟩,
          fun hz => noZero_upsertDelta q (-v) _ (noZero_upsertDelta p v _ hz), fun st x => ?_⟩
        simp only [hia, baseOf, Option.getD_some, contribution, startReached, stopReached,
          reachedSum_upsertDelta st x q (-v) _ h1a, reachedSum_upsertDelta st x p v _ ha]
        split <;> split <;> grind

/-- **one scalar layer on a NaN-free delta form**: previous value plus the triple's contribution, both limits -/
theorem den_layerScalarDeltas_good (d : DStairs P) (s e : Option P) (v : Rat) (hd : d.Good) (st : Bool) (x : P) :
    Den (fromDeltaForm (layerScalarDeltas d s e v)) st x
      = (Den (fromDeltaForm d) st x).map (· + contribution ⟨s, e, v⟩ st x) := by
  obtain ⟨hg, -, hsum⟩ := layerScalarDeltas_spec d s e v hd
  rw [DStairs.den_toValueForm _ hg, DStairs.den_toValueForm d hd, hsum]; rfl

/-- **scalar layer on the delta form = the model's `layer1`** (NaN-free well-formed receiver, both limits) -/
theorem den_layerScalarDeltas (f : Stairs P) (s e : Option P) (v : Rat) (hn : f.noNa = true) (hf : f.WF)
    (st : Bool) (x : P) :
    Den (fromDeltaForm (layerScalarDeltas (toDeltaForm f) s e v)) st x = Den (layer1 f ⟨s, e, v⟩) st x := by
  rw [den_layerScalarDeltas_good _ s e v (good_toDeltaForm f hn hf), fromDeltaForm_toDeltaForm_noNa f hn,
    den_layer1_map f _ hf]

/-- the result has no zero change if the input had none -/
theorem layerScalarDeltas_noZero (d : DStairs P) (s e : Option P) (v : Rat) (hd : d.Good) (hz : NoZero d.deltas) :
    NoZero (layerScalarDeltas d s e v).deltas := (layerScalarDeltas_spec d s e v hd).2.1 hz

/-- … hence its value form is canonical -/
theorem layerScalarDeltas_canonical (d : DStairs P) (s e : Option P) (v : Rat) (hd : d.Good) (hz : NoZero d.deltas) :
    (fromDeltaForm (layerScalarDeltas d s e v)).Canonical :=
  DStairs.canonical_toValueForm _ (layerScalarDeltas_spec d s e v hd).1 (layerScalarDeltas_noZero d s e v hd hz)

/-- **for a canonical NaN-free receiver the scalar delta path yields the very object `layer1` does** -/
theorem layerScalarDeltas_eq_layer1 [NoMinOrder P] [Nonempty P] (f : Stairs P) (s e : Option P) (v : Rat)
    (hn : f.noNa = true) (hf : f.Canonical) :
    fromDeltaForm (layerScalarDeltas (toDeltaForm f) s e v) = layer1 f ⟨s, e, v⟩ :=
  canonical_ext _ _
    (layerScalarDeltas_canonical _ s e v (good_toDeltaForm f hn hf.1) (canonical_noZero f hn hf.2).1)
    (canonical_layer1 f _ hf.1) (layerScalarDeltas_closed _ s e v)
    (fun x => den_layerScalarDeltas f s e v hn hf.1 false x)

/-- for a merely well-formed receiver: the same rows after canonicalisation -/
theorem canon_layerScalarDeltas [NoMinOrder P] [Nonempty P] (f : Stairs P) (s e : Option P) (v : Rat)
    (hn : f.noNa = true) (hf : f.WF) :
    (fromDeltaForm (layerScalarDeltas (toDeltaForm f) s e v)).canon = layer1 f ⟨s, e, v⟩ := by
  have hg := (layerScalarDeltas_spec (toDeltaForm f) s e v (good_toDeltaForm f hn hf)).1
  have hw := DStairs.wf_toValueForm _ hg.2.1
  refine canonical_ext _ _ (canonical_canon _ hw) (canonical_layer1 f _ hf) ?_ (fun x => ?_)
  · rw [closed_canon]; exact layerScalarDeltas_closed _ s e v
  · rw [den_canon _ hw]; exact den_layerScalarDeltas f s e v hn hf false x

/-- **entries that cancel to zero are dropped**: layering `v` at a point whose change is `-v` removes
the point from the index … -/
theorem upsert_cancels (p : P) (v : Rat) (ds : List (P × Val)) (hs : Sorted ds) (h : (p, some (-v)) ∈ ds) :
    p ∉ (upsertDelta p v ds).map Prod.fst := upsertDelta_cancel p v ds hs h

/-- … an absent point gets the new change, and a zero value never creates an entry -/
theorem upsert_inserts (p : P) (v : Rat) (ds : List (P × Val)) (hv : v ≠ 0) (hp : p ∉ ds.map Prod.fst) :
    (p, some v) ∈ upsertDelta p v ds := upsertDelta_insert p v ds hv hp

theorem upsert_spec (p : P) (v : Rat) (ds : List (P × Val)) (hs : Sorted ds) (ha : AllDef ds) :
    Sorted (upsertDelta p v ds) ∧ AllDef (upsertDelta p v ds) ∧ (NoZero ds → NoZero (upsertDelta p v ds)) ∧
    (∀ q ∈ (upsertDelta p v ds).map Prod.fst, q = p ∨ q ∈ ds.map Prod.fst) ∧
    ∀ st x, reachedSum st x (upsertDelta p v ds) = reachedSum st x ds + (if reached st p x then v else 0) :=
  ⟨sorted_upsertDelta p v ds hs, allDef_upsertDelta p v ds ha, noZero_upsertDelta p v ds,
   mem_fst_upsertDelta p v ds, fun st x => reachedSum_upsertDelta st x p v ds ha⟩

/-! ## 6. vector `layer` = concat + group-sum = any fold of scalar layers -/

/-- a fold of scalar layers over the delta form -/
def layerFoldDeltas (d : DStairs P) (ts : List (Triple P)) : DStairs P :=
  ts.foldl (fun d t => layerScalarDeltas d t.start t.stop t.value) d

theorem layerVectorDeltas_spec (d : DStairs P) (ts : List (Triple P)) (hd : d.Good) :
    (layerVectorDeltas d ts).Good ∧ NoZero (layerVectorDeltas d ts).deltas ∧
    (layerVectorDeltas d ts).closed = d.closed ∧
    ∀ st x, baseOf (layerVectorDeltas d ts).init + reachedSum st x (layerVectorDeltas d ts).deltas
      = baseOf d.init + reachedSum st x d.deltas + (ts.map (contribution · st x)).sum := by
  obtain ⟨hi, hs, ha⟩ := hd
  obtain ⟨a, hia⟩ : ∃ a, d.init = some a := by
    cases h : d.init with
    | none => exact absurd h hi
    | some a => exact ⟨a, rfl⟩
  refine ⟨DStairs.good_removeRedundant _ ⟨?_, sorted_groupSum _, allDef_groupSum _⟩,
    noZero_removeRedundantDeltas _, rfl, fun st x => ?_⟩
  · show vadd d.init (some (missingStartSum ts)) ≠ none
    rw [hia]; simp [vadd, vlift2]
  · show baseOf (vadd d.init (some (missingStartSum ts)))
        + reachedSum st x (removeRedundantDeltas (groupSum (startEntries ts ++ stopEntries ts ++ d.deltas))) = _
    rw [reachedSum_removeRedundantDeltas, reachedSum_groupSum, reachedSum_append, reachedSum_append,
      ← reachedSum_entries st x ts, hia]
    simp only [vadd, vlift2, baseOf, Option.getD_some]; grind

/-- **the vector layer on a NaN-free delta form**: previous value plus the sum of all contributions -/
theorem den_layerVectorDeltas_good (d : DStairs P) (ts : List (Triple P)) (hd : d.Good) (st : Bool) (x : P) :
    Den (fromDeltaForm (layerVectorDeltas d ts)) st x
      = (Den (fromDeltaForm d) st x).map (· + (ts.map (contribution · st x)).sum) := by
  obtain ⟨hg, -, -, hsum⟩ := layerVectorDeltas_spec d ts hd
  rw [DStairs.den_toValueForm _ hg, DStairs.den_toValueForm d hd, hsum]; rfl

theorem layerFoldDeltas_spec (d : DStairs P) (ts : List (Triple P)) (hd : d.Good) :
    (layerFoldDeltas d ts).Good ∧ (NoZero d.deltas → NoZero (layerFoldDeltas d ts).deltas) ∧
    (layerFoldDeltas d ts).closed = d.closed ∧
    ∀ st x, baseOf (layerFoldDeltas d ts).init + reachedSum st x (layerFoldDeltas d ts).deltas
      = baseOf d.init + reachedSum st x d.deltas + (ts.map (contribution · st x)).sum := by
  induction ts generalizing d with
  | nil => exact ⟨hd, id, rfl, fun st x => by simp [layerFoldDeltas, Rat.add_zero]⟩
  | cons t r ih =>
    obtain ⟨h1, h2, h3⟩ := layerScalarDeltas_spec d t.start t.stop t.value hd
    obtain ⟨i1, i2, i3, i4⟩ := ih _ h1
    refine ⟨i1, fun hz => i2 (h2 hz), ?_, fun st x => ?_⟩
    · show (layerFoldDeltas (layerScalarDeltas d t.start t.stop t.value) r).closed = _
      rw [i3, layerScalarDeltas_closed]
    · show baseOf (layerFoldDeltas (layerScalarDeltas d t.start t.stop t.value) r).init
          + reachedSum st x (layerFoldDeltas (layerScalarDeltas d t.start t.stop t.value) r).deltas = _
      rw [i4, h3, List.map_cons, List.sum_cons, Rat.add_assoc]

/-- **any fold of scalar layers on a NaN-free delta form**: previous value plus the sum of the contributions -/
theorem den_layerFoldDeltas_good (d : DStairs P) (ts : List (Triple P)) (hd : d.Good) (st : Bool) (x : P) :
    Den (fromDeltaForm (layerFoldDeltas d ts)) st x
      = (Den (fromDeltaForm d) st x).map (· + (ts.map (contribution · st x)).sum) := by
  obtain ⟨hg, -, -, hsum⟩ := layerFoldDeltas_spec d ts hd
  rw [DStairs.den_toValueForm _ hg, DStairs.den_toValueForm d hd, hsum]; rfl

/-- **vector layer = fold of scalar layers, in any order** (as functions, both limits) -/
theorem den_vector_eq_fold (d : DStairs P) (ts ts' : List (Triple P)) (hd : d.Good) (hp : ts.Perm ts')
    (st : Bool) (x : P) :
    Den (fromDeltaForm (layerVectorDeltas d ts)) st x = Den (fromDeltaForm (layerFoldDeltas d ts')) st x := by
  rw [den_layerVectorDeltas_good d ts hd, den_layerFoldDeltas_good d ts' hd, perm_contributions hp]

/-- both delta paths agree with the model's `layer` (fold of `layer1`) -/
theorem den_layerVectorDeltas (f : Stairs P) (ts : List (Triple P)) (hn : f.noNa = true) (hf : f.WF)
    (st : Bool) (x : P) :
    Den (fromDeltaForm (layerVectorDeltas (toDeltaForm f) ts)) st x = Den (layer f ts) st x := by
  rw [den_layerVectorDeltas_good _ ts (good_toDeltaForm f hn hf), fromDeltaForm_toDeltaForm_noNa f hn,
    den_layer f ts hf]

theorem den_layerFoldDeltas (f : Stairs P) (ts : List (Triple P)) (hn : f.noNa = true) (hf : f.WF)
    (st : Bool) (x : P) :
    Den (fromDeltaForm (layerFoldDeltas (toDeltaForm f) ts)) st x = Den (layer f ts) st x := by
  rw [den_layerFoldDeltas_good _ ts (good_toDeltaForm f hn hf), fromDeltaForm_toDeltaForm_noNa f hn,
    den_layer f ts hf]

/-- the vector path always returns a canonical value form (it ends with the delta-form removal) -/
theorem layerVectorDeltas_canonical (d : DStairs P) (ts : List (Triple P)) (hd : d.Good) :
    (fromDeltaForm (layerVectorDeltas d ts)).Canonical :=
  DStairs.canonical_toValueForm _ (layerVectorDeltas_spec d ts hd).1 (layerVectorDeltas_spec d ts hd).2.1

/-- a delta form with a defined initial value is determined by its value form -/
theorem fromDeltaForm_injective (d e : DStairs P) (hd : d.init ≠ none) (he : e.init ≠ none)
    (h : fromDeltaForm d = fromDeltaForm e) : d = e := by
  rw [← toDeltaForm_fromDeltaForm d (fun h' => absurd h' hd), h, toDeltaForm_fromDeltaForm e (fun h' => absurd h' he)]

/-- **the vector path yields the very object the model's `layer` does** (well-formed NaN-free receiver;
the empty vector call canonicalises the receiver) -/
theorem layerVectorDeltas_eq_layer [NoMinOrder P] [Nonempty P] (f : Stairs P) (ts : List (Triple P))
    (hn : f.noNa = true) (hf : f.WF) :
    fromDeltaForm (layerVectorDeltas (toDeltaForm f) ts) = (layer f ts).canon :=
  canonical_ext _ _ (layerVectorDeltas_canonical _ ts (good_toDeltaForm f hn hf))
    (canonical_canon _ (wf_layer f ts hf))
    (by rw [closed_canon, closed_layer]; rfl)
    (fun x => by rw [den_layerVectorDeltas f ts hn hf, den_canon _ (wf_layer f ts hf)])

/-- **as objects: vector layer = fold of scalar layers in any order**, for a canonical NaN-free receiver –
the same delta form (initial value, points, changes, closed side), not just the same function -/
theorem layerVectorDeltas_eq_fold [NoMinOrder P] [Nonempty P] (f : Stairs P) (ts ts' : List (Triple P))
    (hn : f.noNa = true) (hf : f.Canonical) (hp : ts.Perm ts') :
    layerVectorDeltas (toDeltaForm f) ts = layerFoldDeltas (toDeltaForm f) ts' := by
  have hd := good_toDeltaForm f hn hf.1
  obtain ⟨v1, v2, v3, -⟩ := layerVectorDeltas_spec (toDeltaForm f) ts hd
  obtain ⟨f1, f2, f3, -⟩ := layerFoldDeltas_spec (toDeltaForm f) ts' hd
  apply fromDeltaForm_injective _ _ v1.1 f1.1
  exact canonical_ext _ _ (DStairs.canonical_toValueForm _ v1 v2)
    (DStairs.canonical_toValueForm _ f1 (f2 (canonical_noZero f hn hf.2).1))
    (v3.trans f3.symm)
    (fun x => den_vector_eq_fold _ ts ts' hd hp false x)

/-- the fold of scalar delta layers is the model's `layer`, as objects (canonical NaN-free receiver) -/
theorem layerFoldDeltas_eq_layer [NoMinOrder P] [Nonempty P] (f : Stairs P) (ts : List (Triple P))
    (hn : f.noNa = true) (hf : f.Canonical) :
    fromDeltaForm (layerFoldDeltas (toDeltaForm f) ts) = layer f ts := by
  have hd := good_toDeltaForm f hn hf.1
  obtain ⟨f1, f2, f3, -⟩ := layerFoldDeltas_spec (toDeltaForm f) ts hd
  exact canonical_ext _ _ (DStairs.canonical_toValueForm _ f1 (f2 (canonical_noZero f hn hf.2).1))
    (canonical_layer_of_canonical f ts hf)
    (by rw [closed_layer]; exact f3)
    (fun x => den_layerFoldDeltas f ts hn hf.1 false x)

/-- **order independence of the vector path, as objects**: permuting the triples gives the identical delta form -/
theorem layerVectorDeltas_perm [NoMinOrder P] [Nonempty P] (d : DStairs P) (ts ts' : List (Triple P))
    (hd : d.Good) (hp : ts.Perm ts') : layerVectorDeltas d ts = layerVectorDeltas d ts' := by
  obtain ⟨v1, v2, v3, -⟩ := layerVectorDeltas_spec d ts hd
  obtain ⟨w1, w2, w3, -⟩ := layerVectorDeltas_spec d ts' hd
  apply fromDeltaForm_injective _ _ v1.1 w1.1
  exact canonical_ext _ _ (DStairs.canonical_toValueForm _ v1 v2) (DStairs.canonical_toValueForm _ w1 w2)
    (v3.trans w3.symm)
    (fun x => by rw [den_layerVectorDeltas_good d ts hd, den_layerVectorDeltas_good d ts' hd, perm_contributions hp])

theorem contribution_negate (t : Triple P) (st : Bool) (x : P) :
    contribution ⟨t.start, t.stop, -t.value⟩ st x = -contribution t st x := by
  simp only [contribution]
  split <;> split <;> grind

/-- **exact cancellation on the delta form**: layering a triple and then its negative gives back the identical
delta form of a canonical NaN-free receiver (no leftover zero changes) -/
theorem layerFoldDeltas_cancel [NoMinOrder P] [Nonempty P] (f : Stairs P) (t : Triple P)
    (hn : f.noNa = true) (hf : f.Canonical) :
    layerFoldDeltas (toDeltaForm f) [t, ⟨t.start, t.stop, -t.value⟩] = toDeltaForm f := by
  have hd := good_toDeltaForm f hn hf.1
  obtain ⟨f1, f2, f3, -⟩ := layerFoldDeltas_spec (toDeltaForm f) [t, ⟨t.start, t.stop, -t.value⟩] hd
  apply fromDeltaForm_injective _ _ f1.1 hd.1
  rw [fromDeltaForm_toDeltaForm_noNa f hn]
  refine canonical_ext _ _ (DStairs.canonical_toValueForm _ f1 (f2 (canonical_noZero f hn hf.2).1)) hf f3 (fun x => ?_)
  rw [den_layerFoldDeltas f _ hn hf.1, den_layer f _ hf.1]
  simp only [List.map_cons, List.map_nil, List.sum_cons, List.sum_nil, contribution_negate]
  cases Den f false x with
  | none => rfl
  | some a => simp only [Option.map_some]; congr 1; grind

/-- the group-sum is sorted, NaN-free and has the same total effect as the concatenation -/
theorem groupSum_spec (l : List (P × Val)) :
    Sorted (groupSum l) ∧ AllDef (groupSum l) ∧ ∀ st x, reachedSum st x (groupSum l) = reachedSum st x l :=
  ⟨sorted_groupSum l, allDef_groupSum l, fun st x => reachedSum_groupSum st x l⟩



/-! ## 7. non-vacuity over `Stairs Int` -/

/-- well-formed, NaN-free, NOT canonical (the row at 4 repeats its left neighbour) -/
def f₀ : Stairs Int := ⟨some 1, [(2, some 3), (4, some 3), (6, some 0)], .left⟩
def g₀ : Stairs Int := ⟨some 2, [(1, some 5), (4, some 2), (6, some 5)], .left⟩
/-- canonical with undefined pieces, undefined initial value -/
def h₀ : Stairs Int := ⟨none, [(1, some 2), (3, none), (5, some 4), (7, none), (8, some 4)], .right⟩

example : f₀.WF ∧ f₀.noNa = true ∧ ¬ f₀.IsMinimal ∧ g₀.Canonical ∧ g₀.noNa = true := by decide +kernel
example : h₀.Canonical ∧ h₀.noNa = false := by decide +kernel

-- 1/2: the two forms and the round trips
example : toDeltaForm f₀ = ⟨some 1, [(2, some 2), (4, some 0), (6, some (-3))], .left⟩ := by decide +kernel
example : fromDeltaForm (toDeltaForm f₀) = f₀ ∧ fromDeltaForm (toDeltaForm g₀) = g₀ := by decide +kernel
example : toDeltaForm h₀ = ⟨none, [(1, some 2), (3, none), (5, some 2), (7, none), (8, some 0)], .right⟩ := by
  decide +kernel
example : fromDeltaForm (toDeltaForm h₀) = h₀ ∧ toDeltaForm (fromDeltaForm (toDeltaForm h₀)) = toDeltaForm h₀ := by
  decide +kernel
example : valsFromDeltas (some 1) [some 2, none, some (-3), none, none, some 5] =
    [some 3, none, some 0, none, none, some 5] := by decide +kernel
example : deltasFromVals (some 1) ([3, 3, 0].map some) = (changesFrom 1 [3, 3, 0]).map some := by decide +kernel

-- 3: delta-form removal = canon on NaN-free data
example : (toDeltaForm f₀).removeRedundant = toDeltaForm f₀.canon ∧
    fromDeltaForm (toDeltaForm f₀).removeRedundant = ⟨some 1, [(2, some 3), (6, some 0)], .left⟩ := by decide +kernel
-- … and on `h₀` it wrongly drops the re-entry at 8 (change 0 w.r.t. the last defined value 4)
example : (toDeltaForm h₀).removeRedundant ≠ toDeltaForm h₀.canon := by decide +kernel

-- 4: delta-wise add / sub, including changes that cancel (at 6: −3 + 3) and the union of the indices
example : mergeDeltas (· + ·) (toDeltaForm f₀).deltas (toDeltaForm g₀).deltas =
    [(1, some 3), (2, some 2), (4, some (-3)), (6, some 0)] := by decide +kernel
example : addDeltas (toDeltaForm f₀) (toDeltaForm g₀) .left =
    ⟨some 3, [(1, some 3), (2, some 2), (4, some (-3))], .left⟩ := by decide +kernel
example : fromDeltaForm (addDeltas (toDeltaForm f₀) (toDeltaForm g₀) .left) = combine vadd f₀ g₀ .left := by
  decide +kernel
example : fromDeltaForm (subDeltas (toDeltaForm f₀) (toDeltaForm g₀) .left) = combine vsub f₀ g₀ .left := by
  decide +kernel
example : fromDeltaForm (subDeltas (toDeltaForm f₀) (toDeltaForm f₀) .left) = ⟨some 0, [], .left⟩ := by decide +kernel
-- with NaN the `fill_value=0` outer join is NOT the value-wise operator (NaN would be treated as "no change")
example : fromDeltaForm (addDeltas (toDeltaForm h₀) (toDeltaForm g₀) .right) ≠ combine vadd h₀ g₀ .right := by
  decide +kernel

-- 5: scalar layer: start = end, missing start, missing end, new points, exact cancellation, zero value
example : layerScalarDeltas (toDeltaForm g₀) (some 3) (some 3) 7 = toDeltaForm g₀ := by decide +kernel
example : layerScalarDeltas (toDeltaForm g₀) none (some 1) 3 =
    ⟨some 5, [(4, some (-3)), (6, some 3)], .left⟩ := by decide +kernel
example : layerScalarDeltas (toDeltaForm g₀) (some 3) none 2 =
    ⟨some 2, [(1, some 3), (3, some 2), (4, some (-3)), (6, some 3)], .left⟩ := by decide +kernel
example : layerScalarDeltas (toDeltaForm g₀) (some 4) (some 1) 3 = ⟨some 2, [(6, some 3)], .left⟩ := by decide +kernel
example : layerScalarDeltas (toDeltaForm g₀) (some 0) (some 9) 0 = toDeltaForm g₀ := by decide +kernel
example : layerScalarDeltas (toDeltaForm g₀) none none 3 = ⟨some 5, (toDeltaForm g₀).deltas, .left⟩ := by decide +kernel
example : layerScalarDeltas (layerScalarDeltas (toDeltaForm g₀) (some 0) (some 9) 5) (some 0) (some 9) (-5) =
    toDeltaForm g₀ := by decide +kernel
example : fromDeltaForm (layerScalarDeltas (toDeltaForm g₀) (some 4) (some 1) 3) = layer1 g₀ ⟨some 4, some 1, 3⟩ ∧
    fromDeltaForm (layerScalarDeltas (toDeltaForm g₀) none (some 4) 3) = layer1 g₀ ⟨none, some 4, 3⟩ ∧
    fromDeltaForm (layerScalarDeltas (toDeltaForm g₀) (some 5) (some 2) 1) = layer1 g₀ ⟨some 5, some 2, 1⟩ := by
  decide +kernel
-- a non-canonical receiver keeps its redundant row in the scalar path (no removal there): same function,
-- same rows only after `canon`
example : fromDeltaForm (layerScalarDeltas (toDeltaForm f₀) (some 0) none 1) ≠ layer1 f₀ ⟨some 0, none, 1⟩ ∧
    (fromDeltaForm (layerScalarDeltas (toDeltaForm f₀) (some 0) none 1)).canon = layer1 f₀ ⟨some 0, none, 1⟩ := by
  decide +kernel

-- 6: vector layer: repeated / missing starts and ends, cancellation, order independence
def ts₀ : List (Triple Int) := [⟨some 4, some 1, 3⟩, ⟨none, some 6, 2⟩, ⟨some 3, none, 1⟩, ⟨some 3, some 3, 9⟩, ⟨none, none, 1⟩]
example : startEntries ts₀ = [(4, some 3), (3, some 1), (3, some 9)] ∧
    stopEntries ts₀ = [(1, some (-3)), (6, some (-2)), (3, some (-9))] ∧ missingStartSum ts₀ = 3 := by decide +kernel
example : groupSum (startEntries ts₀ ++ stopEntries ts₀ ++ (toDeltaForm g₀).deltas) =
    [(1, some 0), (3, some 1), (4, some 0), (6, some 1)] := by decide +kernel
example : layerVectorDeltas (toDeltaForm g₀) ts₀ = ⟨some 5, [(3, some 1), (6, some 1)], .left⟩ := by decide +kernel
example : layerVectorDeltas (toDeltaForm g₀) ts₀ = layerFoldDeltas (toDeltaForm g₀) ts₀ ∧
    layerVectorDeltas (toDeltaForm g₀) ts₀ = layerFoldDeltas (toDeltaForm g₀) ts₀.reverse := by decide +kernel
example : fromDeltaForm (layerVectorDeltas (toDeltaForm g₀) ts₀) = layer g₀ ts₀ := by decide +kernel
example : fromDeltaForm (layerVectorDeltas (toDeltaForm f₀) ts₀) = layer f₀ ts₀ := by decide +kernel
-- the empty vector call canonicalises a non-canonical receiver, the empty fold does not
example : fromDeltaForm (layerVectorDeltas (toDeltaForm f₀) []) = f₀.canon ∧ layerFoldDeltas (toDeltaForm f₀) [] = toDeltaForm f₀ := by
  decide +kernel

end SC.Props.Forms
