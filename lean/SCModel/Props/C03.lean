import SCModel.Lemmas.Den
import SCModel.Model.Views
import Mathlib.Order.Max
import Mathlib.Data.Int.Order.Basic
/-!
# C03 — Evaluation honours one-sided limits and the closed side; all views agree
-/
set_option linter.unusedSectionVars false
namespace SC.Props.C03
open SC SC.Stairs
variable {P : Type} [LinearOrder P]

/-- the value of the represented function AT a point, by the closed convention -/
def valueAt (f : Stairs P) (x : P) : Val :=
  match f.closed with
  | .left => Den f false x
  | .right => Den f true x

/-- `sample` / `__call__` is the value at the point: right limit when left-closed, left limit when right-closed -/
theorem sample_eq_valueAt (f : Stairs P) (x : P) : f.sample x = valueAt f x := by
  unfold valueAt sample sampleSide limit Den; cases f.closed <;> rfl

theorem sample_left_closed (f : Stairs P) (x : P) (h : f.closed = .left) : f.sample x = f.limit .right x := by
  unfold sample sampleSide; rw [h]
theorem sample_right_closed (f : Stairs P) (x : P) (h : f.closed = .right) : f.sample x = f.limit .left x := by
  unfold sample sampleSide; rw [h]

/-- the limit only depends on which step points have been passed -/
theorem lim_congr_reached {V : Type} (st st' : Bool) (a : V) (s : List (P × V)) (x x' : P)
    (h : ∀ p ∈ s.map Prod.fst, reached st p x = reached st' p x') : lim st a s x = lim st' a s x' := by
  induction s generalizing a with
  | nil => rfl
  | cons pv r ih =>
    obtain ⟨p, v⟩ := pv
    simp only [lim_cons]
    rw [h p (by simp), ih v (fun q hq => h q (by simp only [List.map_cons, List.mem_cons]; exact Or.inr hq))]

/-- **away from step points all three coincide** -/
theorem limits_agree_off_steps (f : Stairs P) (x : P) (hx : x ∉ f.steps.map Prod.fst) :
    Den f true x = Den f false x ∧ f.sample x = Den f false x := by
  have h : Den f true x = Den f false x := by
    apply lim_congr_reached
    intro p hp
    have hne : p ≠ x := fun h => hx (h ▸ hp)
    simp only [reached, ite_true]
    rcases lt_trichotomy p x with hlt | heq | hgt
    · simp [hlt, not_lt_of_gt hlt]
    · exact absurd heq hne
    · simp [hgt, not_lt_of_gt hgt]
  refine ⟨h, ?_⟩
  rw [sample_eq_valueAt]; unfold valueAt; cases f.closed <;> simp [h]

/-- there is a point below `x` above all step points that lie below `x` -/
theorem exists_gap_below [NoMinOrder P] (pts : List P) (x : P) :
    ∃ y, y < x ∧ ∀ p ∈ pts, p < x → p ≤ y := by
  induction pts with
  | nil => obtain ⟨y, hy⟩ := exists_lt x; exact ⟨y, hy, by simp⟩
  | cons q r ih =>
    obtain ⟨y, hy, hr⟩ := ih
    by_cases hq : q < x
    · refine ⟨max y q, max_lt hy hq, ?_⟩
      intro p hp hpx
      rcases List.mem_cons.mp hp with h | h
      · rw [h]; exact le_max_right _ _
      · exact le_trans (hr p h hpx) (le_max_left _ _)
    · refine ⟨y, hy, ?_⟩
      intro p hp hpx
      rcases List.mem_cons.mp hp with h | h
      · rw [h] at hpx; exact absurd hpx hq
      · exact hr p h hpx

theorem exists_gap_above [NoMaxOrder P] (pts : List P) (x : P) :
    ∃ y, x < y ∧ ∀ p ∈ pts, x < p → y ≤ p := by
  induction pts with
  | nil => obtain ⟨y, hy⟩ := exists_gt x; exact ⟨y, hy, by simp⟩
  | cons q r ih =>
    obtain ⟨y, hy, hr⟩ := ih
    by_cases hq : x < q
    · refine ⟨min y q, lt_min hy hq, ?_⟩
      intro p hp hpx
      rcases List.mem_cons.mp hp with h | h
      · rw [h]; exact min_le_right _ _
      · exact le_trans (min_le_left _ _) (hr p h hpx)
    · refine ⟨y, hy, ?_⟩
      intro p hp hpx
      rcases List.mem_cons.mp hp with h | h
      · rw [h] at hpx; exact absurd hpx hq
      · exact hr p h hpx

/-- **`limit(x, 'left')` is the left-hand limit of the represented function**: on a whole interval `(y, x)`
the function (under either convention, and both of its one-sided limits) equals `limit(x, 'left')`.
(In a dense order such as ℚ or the reals the interval is non-empty, so this is the limit `z → x⁻`.) -/
theorem limit_left_is_limit [NoMinOrder P] (f : Stairs P) (x : P) :
    ∃ y, y < x ∧ ∀ z, y < z → z < x →
      Den f false z = f.limit .left x ∧ Den f true z = f.limit .left x ∧ valueAt f z = f.limit .left x := by
  obtain ⟨y, hy, hpts⟩ := exists_gap_below (f.steps.map Prod.fst) x
  refine ⟨y, hy, fun z hyz hzx => ?_⟩
  have key : ∀ st', Den f st' z = Den f true x := by
    intro st'
    apply lim_congr_reached
    intro p hp
    by_cases hpx : p < x
    · have hpz : p < z := lt_of_le_of_lt (hpts p hp hpx) hyz
      rw [reached_of_lt hpz, (reached_left_iff p x).mpr hpx]
    · have hzp : z < p := lt_of_lt_of_le hzx (not_lt.mp hpx)
      rw [not_reached_of_lt hzp]
      cases h : reached true p x
      · rfl
      · exact absurd ((reached_left_iff p x).mp h) hpx
  refine ⟨key false, key true, ?_⟩
  unfold valueAt; cases f.closed
  · exact key false
  · exact key true

/-- **`limit(x, 'right')` is the right-hand limit of the represented function** -/
theorem limit_right_is_limit [NoMaxOrder P] (f : Stairs P) (x : P) :
    ∃ y, x < y ∧ ∀ z, x < z → z < y →
      Den f false z = f.limit .right x ∧ Den f true z = f.limit .right x ∧ valueAt f z = f.limit .right x := by
  obtain ⟨y, hy, hpts⟩ := exists_gap_above (f.steps.map Prod.fst) x
  refine ⟨y, hy, fun z hxz hzy => ?_⟩
  have key : ∀ st', Den f st' z = Den f false x := by
    intro st'
    apply lim_congr_reached
    intro p hp
    by_cases hpx : p ≤ x
    · have hpz : p < z := lt_of_le_of_lt hpx hxz
      rw [reached_of_lt hpz, (reached_right_iff p x).mpr hpx]
    · have hxp : x < p := not_le.mp hpx
      have hzp : z < p := lt_of_lt_of_le hzy (hpts p hp hxp)
      rw [not_reached_of_lt hzp, not_reached_of_lt hxp]
  refine ⟨key false, key true, ?_⟩
  unfold valueAt; cases f.closed
  · exact key false
  · exact key true

/-- vector forms are the scalar form applied element by element (unsorted, repeated points alike) -/
theorem vector_forms (f : Stairs P) (side : Side) (xs : List P) :
    (xs.map (f.limit side)).length = xs.length ∧ ∀ i (h : i < xs.length),
      (xs.map (f.limit side))[i]'(by simpa using h) = f.limit side xs[i] := by
  simp

/-! ## the structural views describe that same function -/

theorem frameFrom_length (start : Option P) (v : Val) (s : List (P × Val)) :
    (frameFrom start v s).length = s.length + 1 := by
  induction s generalizing start v with
  | nil => rfl
  | cons pv r ih => obtain ⟨p, w⟩ := pv; simp [frameFrom, ih]

/-- `to_frame` has one row per piece: `number_of_steps + 1` -/
theorem toFrame_length (f : Stairs P) : (toFrame f).length = f.numberOfSteps + 1 := frameFrom_length _ _ _

theorem frameFrom_starts (start : Option P) (v : Val) (s : List (P × Val)) :
    (frameFrom start v s).map (·.1) = start :: s.map (fun pv => some pv.1) := by
  induction s generalizing start v with
  | nil => rfl
  | cons pv r ih => obtain ⟨p, w⟩ := pv; simp [frameFrom, ih]

theorem frameFrom_ends (start : Option P) (v : Val) (s : List (P × Val)) :
    (frameFrom start v s).map (·.2.1) = s.map (fun pv => some pv.1) ++ [none] := by
  induction s generalizing start v with
  | nil => rfl
  | cons pv r ih => obtain ⟨p, w⟩ := pv; simp [frameFrom, ih]

theorem frameFrom_values (start : Option P) (v : Val) (s : List (P × Val)) :
    (frameFrom start v s).map (·.2.2) = v :: s.map Prod.snd := by
  induction s generalizing start v with
  | nil => rfl
  | cons pv r ih => obtain ⟨p, w⟩ := pv; simp [frameFrom, ih]

/-- **the rows tile (−∞, ∞)**: starts are `−∞, p₁, …, pₙ`, ends are `p₁, …, pₙ, +∞` (each row starts where the
previous one ends), the values are `initial_value` followed by `step_values`, and for a well-formed function
the step points strictly increase -/
theorem toFrame_tiles (f : Stairs P) (hf : f.WF) :
    (toFrame f).map (·.1) = none :: (stepPoints f).map some ∧
    (toFrame f).map (·.2.1) = (stepPoints f).map some ++ [none] ∧
    (toFrame f).map (·.2.2) = f.init :: stepValues f ∧
    (stepPoints f).Pairwise (· < ·) := by
  refine ⟨?_, ?_, ?_, hf⟩
  · simp [toFrame, frameFrom_starts, stepPoints, List.map_map, Function.comp_def]
  · simp [toFrame, frameFrom_ends, stepPoints, List.map_map, Function.comp_def]
  · simp [toFrame, frameFrom_values, stepValues]

theorem number_of_steps_eq (f : Stairs P) :
    f.numberOfSteps = (stepPoints f).length ∧ f.numberOfSteps = (stepValues f).length := by
  simp [numberOfSteps, stepPoints, stepValues]

/-- **`step_values` are the right limits at the `step_points`** -/
theorem step_values_are_right_limits (f : Stairs P) (hf : f.WF) :
    ∀ pv ∈ f.steps, f.limit .right pv.1 = pv.2 := by
  intro pv hpv
  show lim false f.init f.steps pv.1 = pv.2
  have : ∀ (a : Val) (s : List (P × Val)), Sorted s → pv ∈ s → lim false a s pv.1 = pv.2 := by
    intro a s
    induction s generalizing a with
    | nil => intro _ h; cases h
    | cons qw r ih =>
      obtain ⟨q, w⟩ := qw
      intro hs hmem
      rcases List.mem_cons.mp hmem with h | h
      · rw [h]; exact lim_at_head a q w r hs
      · have hr := sorted_tail hs
        have hq : q < pv.1 := hr.2 pv.1 (List.mem_map_of_mem (f := Prod.fst) h)
        rw [lim_cons, reached_of_lt_right hq]
        exact ih w hr.1 h
  exact this f.init f.steps hf hpv

/-- **`initial_value` is the value towards −∞**: below all step points every limit is the initial value -/
theorem initial_value_is_value_at_minus_infinity (f : Stairs P) (st : Bool) (x : P)
    (hx : ∀ q ∈ stepPoints f, x < q) : Den f st x = f.init ∧ f.sample x = f.init := by
  have h : ∀ st, Den f st x = f.init := fun st => lim_before st f.init f.steps x hx
  refine ⟨h st, ?_⟩
  rw [sample_eq_valueAt]; unfold valueAt; cases f.closed <;> simp [h]

/-- … and such points exist -/
theorem exists_below_all_steps [NoMinOrder P] [Nonempty P] (f : Stairs P) : ∃ x, ∀ q ∈ stepPoints f, x < q := by
  have : ∀ (pts : List P), ∃ x, ∀ q ∈ pts, x < q := by
    intro pts
    induction pts with
    | nil => exact ⟨Classical.arbitrary P, by simp⟩
    | cons q r ih =>
      obtain ⟨x, hx⟩ := ih
      obtain ⟨z, hz⟩ := exists_lt (min x q)
      exact ⟨z, fun p hp => by
        rcases List.mem_cons.mp hp with h | h
        · rw [h]; exact lt_of_lt_of_le hz (min_le_right _ _)
        · exact lt_trans (lt_of_lt_of_le hz (min_le_left _ _)) (hx p h)⟩
  exact this (stepPoints f)

/-- **for an everywhere-defined function, initial value plus the running sum of `step_changes`
reproduces `step_values`** -/
theorem running_sum_of_changes (init : Rat) (vals : List Rat) :
    runningSum init (changesFrom init vals) = vals := by
  induction vals generalizing init with
  | nil => rfl
  | cons v r ih =>
    simp only [changesFrom, runningSum]
    have : init + (v - init) = v := by
      rw [Rat.add_comm, Rat.sub_eq_add_neg, Rat.add_assoc, Rat.neg_add_cancel, Rat.add_zero]
    rw [this, ih]

/-- `step_changes` is indexed by the step points (one change per step point) -/
theorem changes_length (init : Rat) (vals : List Rat) : (changesFrom init vals).length = vals.length := by
  induction vals generalizing init with
  | nil => rfl
  | cons v r ih => simp [changesFrom, ih]

/-! non-vacuity -/
def f₀ : Stairs Int := ⟨some 1, [(2, some 3), (4, none), (6, some 5)], .right⟩
example : f₀.WF := by decide +kernel
example : f₀.sample 2 = some 1 ∧ f₀.limit .right 2 = some 3 ∧ f₀.limit .left 2 = some 1 := by decide +kernel
example : toFrame f₀ = [(none, some 2, some 1), (some 2, some 4, some 3), (some 4, some 6, none), (some 6, none, some 5)] := by
  decide +kernel
example : runningSum 1 (changesFrom 1 [3, 0, 5]) = [3, 0, 5] := by decide +kernel

end SC.Props.C03
