import SCModel.Props.C09b
import SCModel.Props.C08c
import SCModel.Props.C10b
/-!
# C09c — histogram, quantiles and `describe` in depth

(C09: closed forms of `ecdf`, `percentile`, `hist`; C09b: order laws, partitions, telescoping over breaks, unit bins;
C11b §3: `hist` per slice.  Nothing of that is repeated here.)

1. **`hist` is a map over the bins** – `hist_entry`: `hist f bins closed stat = bins.map (histEntry …)`, for ARBITRARY
   bins (unsorted, gapped, overlapping, reversed, repeated); `hist_getElem?`, `hist_entry_of_mem` (the entry of a bin
   depends on that bin only – for `probability`, `sum`, `frequency`; the `density` entry also reads the normaliser
   `histNorm`, refuted as a local statistic in `hist_density_not_local`); `hist_perm` (all four statistics),
   `hist_reverse`, `hist_append`, `hist_sublist`, `hist_filter`, `hist_duplicate`; `hist_entry_eq`: every entry is
   `ecdf.limit closed right − ecdf.limit closed left`, the limit side being the BINS' closed side.
   * seeded defect `np.diff(ecdf(bins.left ++ [last right]))` = `histDiff`: it is the histogram over the bins
     *extended to the next left end* (`histDiff_eq`, `histDiff_probability`); equal to `hist` on chained bins, in
     particular the consecutive bins of a break list (`histDiff_chained`, `histDiff_consecutive`; the extension is
     the identity iff the bins are chained: `consecutive_binBreaks_iff`); refuted on gapped bins with a value in the
     gap (`histDiff_refuted`, `histDiff_refuted'`), negative "probabilities" on overlapping bins.
   * seeded defect "limit side from another `closed` keyword" = `histSideOf c'`: the two sides of the ecdf differ at
     `y` by the share of the value `y` (`cdfAt_jump`, `cdfAt_sides_eq_iff`), so the raw entries differ by
     `share(right end) − share(left end)` (`histRaw_sides`); the variant agrees when the sides coincide
     (`histSideOf_same`), when no value lies on a bin edge (`histSideOf_off_edges`) or the two edge shares are equal
     (`histSideOf_equal_edge_shares`); refuted in general for a bin with a value on exactly one edge
     (`histSideOf_refuted_of_edge`) and on a witness (`histSideOf_refuted`).
2. **`quantiles`** – `quantiles_getElem?` (entry `i` = fractile at `(i+1)/q`), `quantiles_eq_percentiles`,
   `quantiles_sorted` / `quantiles_mono`, `quantiles_isSome_iff`, `quantiles_between`, `quantiles_two` (= `[median]`),
   `quantiles_four` (= the default percentiles 25/50/75 of `describe`), `quantiles_even_middle`.
   * seeded defect floor division = `quantilesFloor`: entry `i` correct when `q ∣ 100·(i+1)` (`quantilesFloor_entry`),
     the whole list when `q ∣ 100` (`quantilesFloor_of_dvd`); refuted for `q = 8` on eight equal pieces
     (`quantilesFloor_refuted`, `quantilesFloor_refuted'`).
3. **`describe`** (`describeRow` = what `Driver.lean` prints: mean, var, min, max, percentiles of the clipped
   function): `describeRow_ok`, `describeRow_whole`, `describeRow_window` (bounded window: statistics of `window f a b`;
   the `min`/`max` rows are the windowed extremes of `f` on its own side and equal `percentile 0 / 100` of the window),
   `describeRow_improper`, `describeRow_length`, `describeRow_default` (default rows = `quantiles 4`);
   consistency: `describe_order` (`min ≤ 25 % ≤ 50 % ≤ 75 % ≤ max`, `min ≤ mean ≤ max`, `0 ≤ var`, everything defined
   as soon as there is a defined finite piece), `describe_percentiles_order` (any sorted percentile list),
   `describe_undefined`, `describe_window_order`.  (`unique` / `mode` rows do not exist in `describe`; `std = √var`.)
4. **transformed functions** `k·f + d` (table level → `mapVals` → any representation over a window, e.g. the
   library's `f * k + d` = `affineLib`): `ecdf(k·y + d) = ecdf_f(y)` for `k > 0` (`cdfAt_table_mono`,
   `ecdf_table_mono`, `ecdf_affine_pos` – both limits, in fact for every strictly increasing `φ`),
   `ecdf(k·y + d) = 1 − ecdf_f(y⁻)` for `k < 0` (`cdfAt_table_anti`, `ecdf_table_anti`, `ecdf_affine_neg`,
   `ecdf_affine_at`; the naive `1 − ecdf_f(y)` is refuted: `affine_neg_naive_refuted`);
   `percentile (k·f + d) p = k · percentile f p + d` for `k > 0`, `= k · percentile f (100 − p) + d` for `k < 0` –
   EXACT for every `p`, share boundaries included, since lower and upper quantile swap (`d9c_FU_reverse`,
   `quantile_table_anti`) and the midpoint rule is symmetric (`percentile_table_affine_pos/_neg`,
   `percentile_affine`, `percentile_const` for `k = 0`, `percentile_affine_all`), `fractile_table_affine`
   (`p ↦ 1 − p`), `median_affine` (every `k ≠ 0`), `quantiles_affine` (mapped; mapped and REVERSED for `k < 0`),
   `window_affine`, `histRaw_table` (bins mapped; for `k < 0` ends and closed side swapped).
5. **the ECDF is left-closed on the value axis** (`C15b.ecdf_closed`): `ecdf_sample_le` (`ecdf(y)` = share of value
   `≤ y` whatever `f.closed`), `ecdf_closed_irrelevant`; seeded defect "inherits the function's side" =
   `ecdfInherit` / `ecdfSampleInherit`: identical for left-closed `f` (`ecdfSampleInherit_left`), off the attained
   values (`ecdfSampleInherit_off_values`); for right-closed `f` it is the share of value `< y`
   (`ecdfSampleInherit_right`), loses exactly the share of `y` (`ecdfSampleInherit_deficit`), is wrong exactly at
   the attained values (`ecdfSampleInherit_eq_iff`), never reports `1` at the maximum (`ecdfSampleInherit_max`);
   refuted on `hR` (`ecdfSampleInherit_refuted`, `ecdfSampleInherit_refuted'`).
-/
set_option linter.unusedSectionVars false
set_option linter.unusedVariables false
namespace SC.Props.C09c
open SC SC.Stairs SC.Props.C08 SC.Props.C09 SC.Props.C09b

/-! ## Helpers -/
section Helpers

theorem d9c_sumBy_perm {α : Type} (g : α → Rat) (l l' : List α) (h : l.Perm l') : sumBy g l = sumBy g l' := by
  induction h with
  | nil => rfl
  | cons a _ ih => simp only [sumBy_cons, ih]
  | swap a b l => simp only [sumBy_cons]; ring
  | trans _ _ ih1 ih2 => rw [ih1, ih2]

/-- `reached` is antitone in the step point (non-strict version of `reached_mono`) -/
theorem d9c_reached_mono_le {st : Bool} {p q x : Rat} (hpq : p ≤ q) (h : reached st q x = true) :
    reached st p x = true := by
  rcases lt_or_eq_of_le hpq with h1 | h1
  · exact reached_mono h1 h
  · rw [h1]; exact h

end Helpers

/-! ## 1. `hist` is a map over the bins -/

/-- the raw entry of one bin: ecdf-limit difference, limits on the bins' closed side -/
def histRaw (f : Stairs Rat) (closed : Side) (lr : Rat × Rat) : Rat :=
  cdfAt f closed lr.2 - cdfAt f closed lr.1

/-- the post-processing of `hist` (the `stat` argument), given the raw differences -/
def histFrom (raw : List Rat) (bins : List (Rat × Rat)) (tot : Rat) (stat : HistStat) : List Val :=
  match stat with
  | .probability => raw.map some
  | .sum => raw.map fun x => some (x * tot)
  | .frequency => (raw.zip bins).map fun (x, lr) => vdiv (some (x * tot)) (some (lr.2 - lr.1))
  | .density =>
    let vals := raw.map (· * tot)
    let dot := ((vals.zip bins).map fun (x, lr) => x * (lr.2 - lr.1)).sum
    vals.map fun x => vdiv (some x) (some dot)

/-- `hist` = post-processing of the per-bin raw entries -/
theorem hist_eq_histFrom (f : Stairs Rat) (bins : List (Rat × Rat)) (closed : Side) (stat : HistStat) :
    hist f bins closed stat = histFrom (bins.map (histRaw f closed)) bins (definedLength f) stat := by
  unfold hist histFrom
  simp only [ecdf_limit, valueSums_total]
  rfl

/-- the normaliser of the `density` statistic – the only thing an entry reads from the *other* bins -/
def histNorm (f : Stairs Rat) (bins : List (Rat × Rat)) (closed : Side) : Rat :=
  sumBy (fun lr => histRaw f closed lr * definedLength f * (lr.2 - lr.1)) bins

/-- the entry of ONE bin (`norm` is only read by `density`) -/
def histEntry (f : Stairs Rat) (closed : Side) (stat : HistStat) (norm : Rat) (lr : Rat × Rat) : Val :=
  match stat with
  | .probability => some (histRaw f closed lr)
  | .sum => some (histRaw f closed lr * definedLength f)
  | .frequency => vdiv (some (histRaw f closed lr * definedLength f)) (some (lr.2 - lr.1))
  | .density => vdiv (some (histRaw f closed lr * definedLength f)) (some norm)

/-- **`hist` is a map over the bins** (arbitrary bins: unsorted, gapped, overlapping, reversed, repeated) -/
theorem hist_entry (f : Stairs Rat) (bins : List (Rat × Rat)) (closed : Side) (stat : HistStat) :
    hist f bins closed stat = bins.map (histEntry f closed stat (histNorm f bins closed)) := by
  rw [hist_unfold]
  cases stat <;> rfl

/-- for `probability`, `sum`, `frequency` the entry depends on the bin alone -/
theorem histEntry_local (f : Stairs Rat) (closed : Side) (stat : HistStat) (hs : stat ≠ .density) (n n' : Rat)
    (lr : Rat × Rat) : histEntry f closed stat n lr = histEntry f closed stat n' lr := by
  cases stat <;> first | rfl | exact absurd rfl hs

theorem hist_length (f : Stairs Rat) (bins : List (Rat × Rat)) (closed : Side) (stat : HistStat) :
    (hist f bins closed stat).length = bins.length := by
  rw [hist_entry, List.length_map]

/-- the `i`-th entry only reads the `i`-th bin -/
theorem hist_getElem? (f : Stairs Rat) (bins : List (Rat × Rat)) (closed : Side) (stat : HistStat) (i : Nat) :
    (hist f bins closed stat)[i]? = bins[i]?.map (histEntry f closed stat (histNorm f bins closed)) := by
  rw [hist_entry, List.getElem?_map]

/-- **`hist_entry_eq`**: each entry is (ecdf limit at the bin's right end) − (ecdf limit at its left end), both limits
taken on the side given by the BINS' closedness; `sum` multiplies by the defined length, `frequency` divides that by
the bin width -/
theorem hist_entry_eq (f : Stairs Rat) (bins : List (Rat × Rat)) (closed : Side) (i : Nat) (lr : Rat × Rat)
    (h : bins[i]? = some lr) :
    ∃ a b, (ecdf f).limit closed lr.2 = some a ∧ (ecdf f).limit closed lr.1 = some b ∧
      (hist f bins closed .probability)[i]? = some (some (a - b)) ∧
      (hist f bins closed .sum)[i]? = some (some ((a - b) * definedLength f)) ∧
      (hist f bins closed .frequency)[i]? =
        some (vdiv (some ((a - b) * definedLength f)) (some (lr.2 - lr.1))) ∧
      (hist f bins closed .density)[i]? =
        some (vdiv (some ((a - b) * definedLength f)) (some (histNorm f bins closed))) := by
  refine ⟨_, _, ecdf_limit f closed lr.2, ecdf_limit f closed lr.1, ?_, ?_, ?_, ?_⟩ <;>
    rw [hist_getElem?, h] <;> rfl

/-- the same bin gives the same entry wherever it stands and whatever the other bins are -/
theorem hist_entry_of_mem (f : Stairs Rat) (bins bins' : List (Rat × Rat)) (closed : Side) (stat : HistStat)
    (hs : stat ≠ .density) (i j : Nat) (lr : Rat × Rat) (hi : bins[i]? = some lr) (hj : bins'[j]? = some lr) :
    (hist f bins closed stat)[i]? = (hist f bins' closed stat)[j]? := by
  rw [hist_getElem?, hist_getElem?, hi, hj, Option.map_some, Option.map_some,
    histEntry_local f closed stat hs _ (histNorm f bins' closed)]

/-- concatenating bin lists concatenates the histograms -/
theorem hist_append (f : Stairs Rat) (b₁ b₂ : List (Rat × Rat)) (closed : Side) (stat : HistStat)
    (hs : stat ≠ .density) :
    hist f (b₁ ++ b₂) closed stat = hist f b₁ closed stat ++ hist f b₂ closed stat := by
  rw [hist_entry, hist_entry, hist_entry, List.map_append]
  congr 1 <;> exact List.map_congr_left fun lr _ => histEntry_local f closed stat hs _ _ lr

/-- **dropping bins drops entries** -/
theorem hist_sublist (f : Stairs Rat) (bins bins' : List (Rat × Rat)) (closed : Side) (stat : HistStat)
    (hs : stat ≠ .density) (h : bins'.Sublist bins) :
    (hist f bins' closed stat).Sublist (hist f bins closed stat) := by
  rw [hist_entry, hist_entry,
    List.map_congr_left fun lr _ => histEntry_local f closed stat hs (histNorm f bins' closed) (histNorm f bins closed) lr]
  exact h.map _

theorem hist_filter (f : Stairs Rat) (bins : List (Rat × Rat)) (closed : Side) (stat : HistStat)
    (hs : stat ≠ .density) (keep : Rat × Rat → Bool) :
    hist f (bins.filter keep) closed stat
      = ((hist f bins closed stat).zip bins).filterMap fun (e, lr) => if keep lr then some e else none := by
  rw [hist_entry, hist_entry, zip_map_self,
    List.map_congr_left fun lr _ => histEntry_local f closed stat hs (histNorm f (bins.filter keep) closed)
      (histNorm f bins closed) lr]
  generalize histEntry f closed stat (histNorm f bins closed) = e
  induction bins with
  | nil => rfl
  | cons a r ih =>
    cases hk : keep a
    · simp only [List.filter_cons, List.map_cons, List.filterMap_cons, hk, Bool.false_eq_true, if_false]
      exact ih
    · simp only [List.filter_cons, List.map_cons, List.filterMap_cons, hk, if_true]
      exact congrArg _ ih

/-- **duplicating a bin duplicates its entry** -/
theorem hist_duplicate (f : Stairs Rat) (lr : Rat × Rat) (bins : List (Rat × Rat)) (closed : Side) (stat : HistStat)
    (hs : stat ≠ .density) :
    hist f (lr :: lr :: bins) closed stat
      = histEntry f closed stat 0 lr :: histEntry f closed stat 0 lr :: hist f bins closed stat := by
  rw [hist_entry, hist_entry, List.map_cons, List.map_cons,
    histEntry_local f closed stat hs _ 0 lr]
  congr 2
  exact List.map_congr_left fun b _ => histEntry_local f closed stat hs _ _ b

/-- the `density` normaliser does not depend on the order of the bins -/
theorem histNorm_perm (f : Stairs Rat) (bins bins' : List (Rat × Rat)) (closed : Side) (h : bins.Perm bins') :
    histNorm f bins closed = histNorm f bins' closed := d9c_sumBy_perm _ _ _ h

/-- **permuting the bins permutes the entries** – for every statistic, `density` included -/
theorem hist_perm (f : Stairs Rat) (bins bins' : List (Rat × Rat)) (closed : Side) (stat : HistStat)
    (h : bins.Perm bins') : (hist f bins closed stat).Perm (hist f bins' closed stat) := by
  rw [hist_entry, hist_entry, histNorm_perm f bins bins' closed h]
  exact h.map _

theorem hist_reverse (f : Stairs Rat) (bins : List (Rat × Rat)) (closed : Side) (stat : HistStat) :
    hist f bins.reverse closed stat = (hist f bins closed stat).reverse := by
  rw [hist_entry, hist_entry, histNorm_perm f _ _ closed (List.reverse_perm bins), List.map_reverse]

example : (hist h₀ [(0, 2), (5/2, 7/2), (0, 4)] .left .density).Perm (hist h₀ [(0, 4), (0, 2), (5/2, 7/2)] .left .density) :=
  hist_perm h₀ _ _ .left .density (by decide +kernel)
example : (hist h₀ [(5/2, 7/2)] .left .sum).Sublist (hist h₀ [(0, 2), (5/2, 7/2), (0, 4)] .left .sum) :=
  hist_sublist h₀ _ _ .left .sum (by decide) (by decide +kernel)

/-- the `density` entry is NOT local: dropping / duplicating another bin changes it (same function, same bin `(0,2)`) -/
theorem hist_density_not_local :
    hist h₀ [(0, 2), (2, 4)] .left .density = [some (1/8), some (3/8)] ∧
    hist h₀ [(0, 2)] .left .density = [some (1/2)] ∧
    hist h₀ [(0, 2), (2, 4), (2, 4)] .left .density = [some (1/14), some (3/14), some (3/14)] := by decide +kernel

/-- gaps, overlaps, repetitions, any order: one function, the bin `(0, 2)` always has the entry `1/4` -/
example : hist h₀ [(0, 2), (5/2, 7/2)] .left .probability = [some (1/4), some (3/4)] ∧
    hist h₀ [(5/2, 7/2), (0, 2), (0, 4), (0, 2)] .left .probability = [some (3/4), some (1/4), some 1, some (1/4)] ∧
    hist h₀ [(0, 4), (0, 2)] .left .sum = [some 4, some 1] := by decide +kernel

/-! ### 1a. the seeded defect `np.diff(ecdf(bins.left ++ [last right]))` -/

/-- the break points the defective code evaluates the ecdf at: all left ends, then the last right end -/
def binBreaks (bins : List (Rat × Rat)) : List Rat :=
  bins.map (·.1) ++ (match bins.getLast? with | some lr => [lr.2] | none => [])

/-- `np.diff` -/
def diffs : List Rat → List Rat
  | a :: b :: r => (b - a) :: diffs (b :: r)
  | _ => []

/-- the defective `hist`: `np.diff` of the ecdf limits at `binBreaks bins` (same post-processing) -/
def histDiff (f : Stairs Rat) (bins : List (Rat × Rat)) (closed : Side) (stat : HistStat) : List Val :=
  let e := ecdf f
  let cd := (binBreaks bins).map fun y => match e.limit closed y with | some a => a | none => 0
  histFrom (diffs cd) bins (sumBy (·.2) (valueSums f)) stat

/-- each bin's right end is the next bin's left end -/
def Chained : List (Rat × Rat) → Prop
  | a :: b :: r => a.2 = b.1 ∧ Chained (b :: r)
  | _ => True

def decChained : (l : List (Rat × Rat)) → Decidable (Chained l)
  | [] => isTrue trivial
  | [_] => isTrue trivial
  | a :: b :: r =>
    match decEq a.2 b.1, decChained (b :: r) with
    | isTrue h1, isTrue h2 => isTrue ⟨h1, h2⟩
    | isFalse h1, _ => isFalse fun h => h1 h.1
    | _, isFalse h2 => isFalse fun h => h2 h.2
instance (l : List (Rat × Rat)) : Decidable (Chained l) := decChained l

theorem binBreaks_singleton (a : Rat × Rat) : binBreaks [a] = [a.1, a.2] := rfl
theorem binBreaks_cons_cons (a b : Rat × Rat) (r : List (Rat × Rat)) :
    binBreaks (a :: b :: r) = a.1 :: binBreaks (b :: r) := by
  simp [binBreaks, List.getLast?_cons_cons]
theorem binBreaks_cons_head (b : Rat × Rat) (r : List (Rat × Rat)) :
    ∃ t, binBreaks (b :: r) = b.1 :: t := ⟨_, rfl⟩

theorem binBreaks_length (bins : List (Rat × Rat)) (h : bins ≠ []) : (binBreaks bins).length = bins.length + 1 := by
  cases hl : bins.getLast? with
  | none => exact absurd (List.getLast?_eq_none_iff.mp hl) h
  | some lr => simp [binBreaks, hl]

theorem diffs_map (g : Rat → Rat) (l : List Rat) :
    diffs (l.map g) = (consecutive l).map fun lr => g lr.2 - g lr.1 := by
  induction l with
  | nil => rfl
  | cons a t ih =>
    cases t with
    | nil => rfl
    | cons b r =>
      simp only [List.map_cons, diffs, consecutive_cons_cons] at ih ⊢
      rw [ih]

/-- **what the defective code computes**: the histogram over the bins *extended to the next left end*
`(l₀, l₁), (l₁, l₂), …, (l_{n-1}, r_{n-1})` – post-processed with the widths of the original bins -/
theorem histDiff_eq (f : Stairs Rat) (bins : List (Rat × Rat)) (closed : Side) (stat : HistStat) :
    histDiff f bins closed stat
      = histFrom ((consecutive (binBreaks bins)).map (histRaw f closed)) bins (definedLength f) stat := by
  unfold histDiff
  simp only [ecdf_limit, valueSums_total]
  rw [diffs_map (cdfAt f closed)]
  rfl

theorem consecutive_binBreaks (bins : List (Rat × Rat)) (h : Chained bins) : consecutive (binBreaks bins) = bins := by
  induction bins with
  | nil => rfl
  | cons a t ih =>
    cases t with
    | nil => rfl
    | cons b r =>
      obtain ⟨t', ht'⟩ := binBreaks_cons_head b r
      have ih' := ih h.2
      rw [binBreaks_cons_cons, ht', consecutive_cons_cons, ← ht', ih']
      congr 1
      exact Prod.ext rfl h.1.symm

/-- and conversely: the extended bins are the bins only for chained bins -/
theorem consecutive_binBreaks_iff (bins : List (Rat × Rat)) : consecutive (binBreaks bins) = bins ↔ Chained bins := by
  refine ⟨fun h => ?_, consecutive_binBreaks bins⟩
  induction bins with
  | nil => trivial
  | cons a t ih =>
    cases t with
    | nil => trivial
    | cons b r =>
      obtain ⟨t', ht'⟩ := binBreaks_cons_head b r
      rw [binBreaks_cons_cons, ht', consecutive_cons_cons, ← ht'] at h
      injection h with h1 h2
      exact ⟨by rw [← h1], ih h2⟩

theorem chained_consecutive (l : List Rat) : Chained (consecutive l) := by
  induction l with
  | nil => trivial
  | cons a t ih =>
    cases t with
    | nil => trivial
    | cons b r =>
      cases r with
      | nil => trivial
      | cons c r' => exact ⟨rfl, ih⟩

/-- **(a) why the tests passed**: on chained bins – in particular the consecutive bins of a break list, the only
kind the tests used – the defective code agrees with `hist`, for every statistic -/
theorem histDiff_chained (f : Stairs Rat) (bins : List (Rat × Rat)) (closed : Side) (stat : HistStat)
    (h : Chained bins) : histDiff f bins closed stat = hist f bins closed stat := by
  rw [histDiff_eq, consecutive_binBreaks bins h, hist_eq_histFrom]

theorem histDiff_consecutive (f : Stairs Rat) (breaks : List Rat) (closed : Side) (stat : HistStat) :
    histDiff f (consecutive breaks) closed stat = hist f (consecutive breaks) closed stat :=
  histDiff_chained f _ closed stat (chained_consecutive breaks)

/-- the probabilities of the defective code: those of the extended bins -/
theorem histDiff_probability (f : Stairs Rat) (bins : List (Rat × Rat)) (closed : Side) :
    histDiff f bins closed .probability = hist f (consecutive (binBreaks bins)) closed .probability := by
  rw [histDiff_eq, hist_eq_histFrom]; rfl

/-- **(b) refuted on gapped bins** `[0, 1/2), [2, 4)` when the function takes a value (`1`) inside the gap: the
defective code counts the gap into the first bin.  `h₀` = `1` on `[0,1)`, `3` on `[1,4)`. -/
theorem histDiff_refuted :
    h₀.WF ∧ ¬ Chained [((0 : Rat), (1/2 : Rat)), (2, 4)] ∧
    hist h₀ [(0, 1/2), (2, 4)] .left .probability = [some 0, some (3/4)] ∧
    histDiff h₀ [(0, 1/2), (2, 4)] .left .probability = [some (1/4), some (3/4)] ∧
    hist h₀ [(0, 1/2), (2, 4)] .left .sum = [some 0, some 3] ∧
    histDiff h₀ [(0, 1/2), (2, 4)] .left .sum = [some 1, some 3] ∧
    histDiff h₀ [(0, 1/2), (2, 4)] .left .frequency = [some 2, some (3/2)] ∧
    hist h₀ [(0, 1/2), (2, 4)] .left .frequency = [some 0, some (3/2)] := by decide +kernel

theorem histDiff_refuted' :
    ¬ ∀ (f : Stairs Rat) (bins : List (Rat × Rat)) (closed : Side) (stat : HistStat), f.WF →
      (∀ lr ∈ bins, lr.1 ≤ lr.2) → histDiff f bins closed stat = hist f bins closed stat := by
  intro h
  have := h h₀ [(0, 1/2), (2, 4)] .left .probability (by decide +kernel) (by decide +kernel)
  revert this; decide +kernel

/-- overlapping bins: the defective code gives a NEGATIVE probability -/
example : histDiff h₀ [(0, 4), (0, 2)] .left .probability = [some 0, some (1/4)] ∧
    hist h₀ [(0, 4), (0, 2)] .left .probability = [some 1, some (1/4)] ∧
    histDiff h₀ [(2, 4), (0, 2)] .left .probability = [some (-1/4), some (1/4)] := by decide +kernel
/-- hypotheses of (a) satisfiable, conclusion checked -/
example : Chained (consecutive [0, 2, 3, 4]) ∧ Chained [((0 : Rat), (2 : Rat)), (2, 3), (3, 4)] ∧
    histDiff h₀ (consecutive [0, 2, 3, 4]) .right .density = hist h₀ (consecutive [0, 2, 3, 4]) .right .density ∧
    hist h₀ (consecutive [0, 2, 3, 4]) .right .density = [some (1/5), some (3/5), some 0] := by decide +kernel

/-! ### 1b. the seeded defect "limit side from a separate `closed` keyword" -/

/-- the defective `hist`: the ecdf limits are taken on the side `c'` (another keyword / a default) instead of the
bins' own closed side -/
def histSideOf (c' : Side) (f : Stairs Rat) (bins : List (Rat × Rat)) (closed : Side) (stat : HistStat) : List Val :=
  hist f bins c' stat

/-- the share of the defined length on which the value IS `y` -/
def shareAt (f : Stairs Rat) (y : Rat) : Rat := entry (shares f) y

/-- **the jump of the ecdf at `y` is the share of the value `y`** -/
theorem cdfAt_jump (f : Stairs Rat) (y : Rat) : cdfAt f .right y - cdfAt f .left y = shareAt f y := by
  unfold cdfAt shareAt entry
  simp only [sumBy_filter]
  rw [← sumBy_sub]
  apply sumBy_congr
  intro a _
  by_cases h1 : a.1 < y
  · simp [h1, le_of_lt h1, ne_of_lt h1]
  · by_cases h2 : a.1 = y
    · simp [h2]
    · have : ¬ a.1 ≤ y := fun h => h1 (lt_of_le_of_ne h h2)
      simp [h1, h2, this]

theorem shareAt_nonneg (f : Stairs Rat) (hf : f.WF) (y : Rat) : 0 ≤ shareAt f y :=
  a09b_filter_nonneg _ (a09b_shares_nonneg f hf) _

/-- the share at `y` vanishes exactly when `y` is not a value of a defined finite piece -/
theorem shareAt_eq_zero_iff (f : Stairs Rat) (hf : f.WF) (y : Rat) :
    shareAt f y = 0 ↔ ¬ ∃ len, (y, len) ∈ definedPieces f.steps := by
  unfold shareAt entry
  rw [a09b_filter_eq_zero_iff _ (shares_pos f hf)]
  constructor
  · rintro h ⟨len, hlen⟩
    obtain ⟨s, hs⟩ := a09b_share_of_piece f (y, len) hlen
    have := h _ hs
    simp at this
  · intro h e he
    obtain ⟨len, hlen⟩ := a09b_share_key_of_mem f e he
    by_cases hy : e.1 = y
    · exact absurd ⟨len, hy ▸ hlen⟩ h
    · simp [hy]

theorem shareAt_of_not_attained (f : Stairs Rat) (y : Rat) (h : ¬ ∃ len, (y, len) ∈ definedPieces f.steps) :
    shareAt f y = 0 := by
  unfold shareAt
  apply entry_of_not_mem
  rw [a09b_mem_share_keys]; exact h

/-- off the attained values the two limits of the ecdf coincide -/
theorem cdfAt_side_irrelevant (f : Stairs Rat) (y : Rat) (h : ¬ ∃ len, (y, len) ∈ definedPieces f.steps)
    (c c' : Side) : cdfAt f c y = cdfAt f c' y := by
  have := cdfAt_jump f y
  rw [shareAt_of_not_attained f y h] at this
  cases c <;> cases c' <;> first | rfl | linarith

/-- the two limits differ exactly at the attained values -/
theorem cdfAt_sides_eq_iff (f : Stairs Rat) (hf : f.WF) (y : Rat) :
    cdfAt f .left y = cdfAt f .right y ↔ ¬ ∃ len, (y, len) ∈ definedPieces f.steps := by
  rw [← shareAt_eq_zero_iff f hf, ← cdfAt_jump]
  constructor <;> intro h <;> linarith

/-- the raw entries on the two sides differ by (share at the right end) − (share at the left end) -/
theorem histRaw_sides (f : Stairs Rat) (lr : Rat × Rat) :
    histRaw f .right lr - histRaw f .left lr = shareAt f lr.2 - shareAt f lr.1 := by
  unfold histRaw
  rw [← cdfAt_jump, ← cdfAt_jump]; ring

/-- the variant is correct when the two closednesses coincide … -/
theorem histSideOf_same (f : Stairs Rat) (bins : List (Rat × Rat)) (closed : Side) (stat : HistStat) :
    histSideOf closed f bins closed stat = hist f bins closed stat := rfl

/-- … **or when no value of the function lies on a bin edge** -/
theorem histSideOf_off_edges (c' : Side) (f : Stairs Rat) (bins : List (Rat × Rat)) (closed : Side) (stat : HistStat)
    (h : ∀ lr ∈ bins, (¬ ∃ len, (lr.1, len) ∈ definedPieces f.steps) ∧ ¬ ∃ len, (lr.2, len) ∈ definedPieces f.steps) :
    histSideOf c' f bins closed stat = hist f bins closed stat := by
  unfold histSideOf
  rw [hist_eq_histFrom, hist_eq_histFrom]
  congr 1
  apply List.map_congr_left
  intro lr hlr
  unfold histRaw
  rw [cdfAt_side_irrelevant f lr.1 (h lr hlr).1 c' closed, cdfAt_side_irrelevant f lr.2 (h lr hlr).2 c' closed]

/-- more generally whenever the shares on the two edges of every bin are equal -/
theorem histSideOf_equal_edge_shares (c' : Side) (f : Stairs Rat) (bins : List (Rat × Rat)) (closed : Side)
    (stat : HistStat) (h : ∀ lr ∈ bins, shareAt f lr.1 = shareAt f lr.2) :
    histSideOf c' f bins closed stat = hist f bins closed stat := by
  unfold histSideOf
  rw [hist_eq_histFrom, hist_eq_histFrom]
  congr 1
  apply List.map_congr_left
  intro lr hlr
  have := histRaw_sides f lr
  rw [h lr hlr] at this
  cases c' <;> cases closed <;> first | rfl | linarith

/-- **refuted, in general**: a single bin with a value of the function on exactly one of its two edges gets a
different probability on the two sides -/
theorem histSideOf_refuted_of_edge (f : Stairs Rat) (hf : f.WF) (lr : Rat × Rat)
    (h : ((∃ len, (lr.1, len) ∈ definedPieces f.steps) ∧ ¬ ∃ len, (lr.2, len) ∈ definedPieces f.steps) ∨
         ((∃ len, (lr.2, len) ∈ definedPieces f.steps) ∧ ¬ ∃ len, (lr.1, len) ∈ definedPieces f.steps)) :
    histSideOf .left f [lr] .right .probability ≠ hist f [lr] .right .probability ∧
    histSideOf .right f [lr] .left .probability ≠ hist f [lr] .left .probability := by
  have hne : histRaw f .left lr ≠ histRaw f .right lr := by
    intro he
    have hd := histRaw_sides f lr
    rw [he, sub_self] at hd
    rcases h with ⟨h1, h2⟩ | ⟨h1, h2⟩
    · rw [(shareAt_eq_zero_iff f hf lr.2).mpr h2] at hd
      exact ((shareAt_eq_zero_iff f hf lr.1).not.mpr (not_not.mpr h1)) (by linarith)
    · rw [(shareAt_eq_zero_iff f hf lr.1).mpr h2] at hd
      exact ((shareAt_eq_zero_iff f hf lr.2).not.mpr (not_not.mpr h1)) (by linarith)
  unfold histSideOf
  rw [hist_entry, hist_entry]
  constructor
  · intro he
    simp only [List.map_cons, List.map_nil, histEntry, List.cons.injEq, Option.some.injEq, and_true] at he
    exact hne he
  · intro he
    simp only [List.map_cons, List.map_nil, histEntry, List.cons.injEq, Option.some.injEq, and_true] at he
    exact hne he.symm

/-- **refuted on a witness**: `h₀` takes the value `1`, the bins `(0,1), (1,3)` have it on an edge; right-closed bins
put it into the first bin, the variant reading `closed="left"` into the second -/
theorem histSideOf_refuted :
    hist h₀ [(0, 1), (1, 3)] .right .probability = [some (1/4), some (3/4)] ∧
    histSideOf .left h₀ [(0, 1), (1, 3)] .right .probability = [some 0, some (1/4)] ∧
    hist h₀ [(0, 1), (1, 3)] .right .sum = [some 1, some 3] ∧
    histSideOf .left h₀ [(0, 1), (1, 3)] .right .sum = [some 0, some 1] ∧
    (∃ len, ((1 : Rat), len) ∈ definedPieces h₀.steps) := by
  refine ⟨by decide +kernel, by decide +kernel, by decide +kernel, by decide +kernel, 1, by decide +kernel⟩

/-- `histSideOf_refuted_of_edge` applies to `h₀` and the bin `(1, 2)`: the value `1` lies on its left edge only -/
example : histSideOf .left h₀ [(1, 2)] .right .probability ≠ hist h₀ [(1, 2)] .right .probability :=
  (histSideOf_refuted_of_edge h₀ (by decide +kernel) (1, 2) (Or.inl ⟨⟨1, by decide +kernel⟩,
    (shareAt_eq_zero_iff h₀ (by decide +kernel) 2).mp (by decide +kernel)⟩)).1

/-- hypotheses of `histSideOf_off_edges` satisfiable: bins whose edges avoid the values `1`, `3` -/
example : histSideOf .left h₀ [(1/2, 2), (2, 7/2)] .right .density = hist h₀ [(1/2, 2), (2, 7/2)] .right .density ∧
    hist h₀ [(1/2, 2), (2, 7/2)] .right .probability = [some (1/4), some (3/4)] ∧
    shareAt h₀ 1 = 1/4 ∧ shareAt h₀ 2 = 0 ∧ shareAt h₀ 3 = 3/4 := by decide +kernel

/-! ## 2. `quantiles`

`C09.quantiles_eq` (the definition: fractiles at `i/q`, `0 < i < q`) and `C09.quantiles_length` (`q − 1` entries)
are in C09. -/

/-- the `i`-th quantile (0-based) is the fractile at `(i+1)/q` -/
theorem quantiles_getElem? (f : Stairs Rat) (q i : Nat) :
    (quantiles f q)[i]? = if i < q - 1 then some (fractile f (((i + 1 : Nat) : Rat) / (q : Rat))) else none := by
  unfold quantiles
  rw [List.getElem?_map]
  by_cases h : i < q - 1
  · rw [if_pos h, List.getElem?_range h]; rfl
  · rw [if_neg h, List.getElem?_eq_none (by simpa using h)]; rfl

/-- in percent: the percentiles at `100·i/q` -/
theorem quantiles_eq_percentiles (f : Stairs Rat) (q : Nat) :
    quantiles f q = (List.range (q - 1)).map fun i => percentile f (100 * ((i + 1 : Nat) : Rat) / (q : Rat)) := by
  unfold quantiles
  apply List.map_congr_left
  intro i _
  rw [fractile_eq_percentile, mul_div_assoc]

/-- **the quantiles are increasing** (wherever defined) -/
theorem quantiles_sorted (f : Stairs Rat) (hf : f.WF) (q : Nat) :
    (quantiles f q).Pairwise fun u v => ∀ a b, u = some a → v = some b → a ≤ b := by
  unfold quantiles
  rcases Nat.eq_zero_or_pos q with h0 | hq
  · subst h0; exact List.Pairwise.nil
  · have hq' : (0 : Rat) < (q : Rat) := by exact_mod_cast hq
    refine List.Pairwise.map _ ?_ List.pairwise_lt_range
    intro i j hij a b ha hb
    refine fractile_mono f hf _ _ ?_ a b ha hb
    apply div_le_div_of_nonneg_right _ (le_of_lt hq')
    exact_mod_cast Nat.succ_le_succ (le_of_lt hij)

theorem quantiles_mono (f : Stairs Rat) (hf : f.WF) (q i j : Nat) (hij : i ≤ j) (a b : Rat)
    (ha : (quantiles f q)[i]? = some (some a)) (hb : (quantiles f q)[j]? = some (some b)) : a ≤ b := by
  rw [quantiles_getElem?] at ha hb
  split at ha
  · rename_i hi
    split at hb
    · injection ha with ha; injection hb with hb
      have hq' : (0 : Rat) < (q : Rat) := by
        have : 0 < q := by omega
        exact_mod_cast this
      refine fractile_mono f hf _ _ ?_ a b ha hb
      apply div_le_div_of_nonneg_right _ (le_of_lt hq')
      exact_mod_cast Nat.succ_le_succ hij
    · cases hb
  · cases ha

/-- all quantiles are defined, or none: they are defined exactly when there is a defined finite piece -/
theorem quantiles_isSome_iff (f : Stairs Rat) (hf : f.WF) (q : Nat) (v : Val) (hv : v ∈ quantiles f q) :
    v.isSome = true ↔ definedPieces f.steps ≠ [] := by
  rw [quantiles_eq_percentiles] at hv
  obtain ⟨i, _, rfl⟩ := List.mem_map.mp hv
  exact percentile_isSome_iff f hf _

/-- every quantile lies between the extreme values of the finite defined pieces -/
theorem quantiles_between (f : Stairs Rat) (hf : f.WF) (q : Nat) (a : Rat) (ha : some a ∈ quantiles f q) (lo hi : Rat)
    (hlo : ∀ vl ∈ definedPieces f.steps, lo ≤ vl.1) (hhi : ∀ vl ∈ definedPieces f.steps, vl.1 ≤ hi) :
    lo ≤ a ∧ a ≤ hi := by
  unfold quantiles at ha
  obtain ⟨i, _, hi'⟩ := List.mem_map.mp ha
  exact fractile_between f hf _ a hi' lo hi hlo hhi

/-- **`median` is the only 2-quantile** -/
theorem quantiles_two (f : Stairs Rat) : quantiles f 2 = [median f] := by
  rw [quantiles_eq_percentiles, median_eq]
  show [percentile f (100 * ((0 + 1 : Nat) : Rat) / ((2 : Nat) : Rat))] = _
  norm_num

theorem median_eq_quantiles_head (f : Stairs Rat) : (quantiles f 2).head? = some (median f) := by
  rw [quantiles_two]; rfl

/-- **the quartiles** – the default percentiles of `describe` -/
theorem quantiles_four (f : Stairs Rat) :
    quantiles f 4 = [percentile f 25, percentile f 50, percentile f 75] := by
  rw [quantiles_eq_percentiles]
  show [percentile f (100 * ((0 + 1 : Nat) : Rat) / ((4 : Nat) : Rat)),
        percentile f (100 * ((1 + 1 : Nat) : Rat) / ((4 : Nat) : Rat)),
        percentile f (100 * ((2 + 1 : Nat) : Rat) / ((4 : Nat) : Rat))] = _
  norm_num

/-- the median is the middle quartile, and the middle one of the `2m`-quantiles in general -/
theorem quantiles_even_middle (f : Stairs Rat) (m : Nat) (hm : 0 < m) :
    (quantiles f (2 * m))[m - 1]? = some (median f) := by
  rw [quantiles_getElem?, if_pos (by omega), fractile_eq_percentile, median_eq]
  congr 2
  have hm' : ((m : Nat) : Rat) ≠ 0 := by exact_mod_cast (Nat.pos_iff_ne_zero.mp hm)
  have : ((m - 1 + 1 : Nat) : Rat) = (m : Rat) := by congr 1; omega
  rw [this]
  push_cast
  field_simp
  norm_num

/-! ### the seeded defect: floor division `percentile(100 * i // q)` -/

/-- the defective `quantiles`: the percentile at the INTEGER `⌊100·i/q⌋` -/
def quantilesFloor (f : Stairs Rat) (q : Nat) : List Val :=
  (List.range (q - 1)).map fun i => percentile f (((100 * (i + 1) / q : Nat)) : Rat)

/-- entry by entry: correct whenever `q` divides `100·i` -/
theorem quantilesFloor_entry (f : Stairs Rat) (q i : Nat) (hd : q ∣ 100 * (i + 1)) :
    (quantilesFloor f q)[i]? = (quantiles f q)[i]? := by
  rw [quantiles_eq_percentiles]
  unfold quantilesFloor
  rw [List.getElem?_map, List.getElem?_map]
  by_cases hi : i < q - 1
  · rw [List.getElem?_range hi, Option.map_some, Option.map_some]
    have hq : 0 < q := by omega
    obtain ⟨m, hm⟩ := hd
    have hR : (100 : Rat) * ((i + 1 : Nat) : Rat) = (q : Rat) * (m : Rat) := by exact_mod_cast hm
    have hq' : (q : Rat) ≠ 0 := by exact_mod_cast (Nat.pos_iff_ne_zero.mp hq)
    rw [hm, Nat.mul_div_cancel_left m hq, hR, mul_div_cancel_left₀ _ hq']
  · rw [List.getElem?_eq_none (by simpa using hi)]; rfl

/-- **why the tests passed**: for every `q` dividing 100 (2, 4, 5, 10, 20, 25, 50, 100) the defective code is correct -/
theorem quantilesFloor_of_dvd (f : Stairs Rat) (q : Nat) (hq : q ∣ 100) : quantilesFloor f q = quantiles f q := by
  apply List.ext_getElem?
  intro i
  exact quantilesFloor_entry f q i (Dvd.dvd.mul_right hq _)

/-- `e₈`: the values `1, …, 8` on eight pieces of equal length -/
def e₈ : Stairs Rat :=
  ⟨none, [(0, some 1), (1, some 2), (2, some 3), (3, some 4), (4, some 5), (5, some 6), (6, some 7), (7, some 8),
    (8, none)], .left⟩

/-- **refuted for `q = 8`**: the octiles of `e₈` sit exactly on the share boundaries `12.5 %, 25 %, …` (midpoints of
neighbouring values); the floored percentages `12, 37, 62, 87` fall inside a piece -/
theorem quantilesFloor_refuted :
    e₈.Canonical ∧ ¬ (8 ∣ 100) ∧
    quantiles e₈ 8 = [some (3/2), some (5/2), some (7/2), some (9/2), some (11/2), some (13/2), some (15/2)] ∧
    quantilesFloor e₈ 8 = [some 1, some (5/2), some 3, some (9/2), some 5, some (13/2), some 7] := by
  decide +kernel

theorem quantilesFloor_refuted' : ¬ ∀ (f : Stairs Rat) (q : Nat), f.WF → quantilesFloor f q = quantiles f q := by
  intro h
  have := h e₈ 8 (by decide +kernel)
  revert this; decide +kernel

/-- non-vacuity -/
example : quantiles h₀ 4 = [some 2, some 3, some 3] ∧ quantilesFloor h₀ 4 = quantiles h₀ 4 ∧
    quantiles h₀ 2 = [median h₀] ∧ (quantiles h₀ 4)[1]? = some (median h₀) ∧
    quantiles e₈ 4 = [some (5/2), some (9/2), some (13/2)] ∧ quantilesFloor e₈ 4 = quantiles e₈ 4 ∧
    quantiles e₈ 0 = [] ∧ quantiles e₈ 1 = [] := by decide +kernel
example : (quantiles e₈ 8).Pairwise fun u v => ∀ a b, u = some a → v = some b → a ≤ b :=
  quantiles_sorted e₈ (by decide +kernel) 8

/-! ## 3. `describe`

`Driver.lean` (`describe r lo hi ps…`) clips the function to the window and prints
`mean, var, min, max` followed by the requested percentiles (default `25 50 75`); the library's
`describe` has the same rows (`unique`, `mode` are not part of it; the `std` row is `√var`, the square root being
float glue outside the exact model). -/

/-- the row that `Driver.lean` prints for `describe` -/
def describeRow (f : Stairs Rat) (lo hi : Option Rat) (ps : List Rat) : Except Err (List Val) :=
  match clipW f lo hi with
  | .error err => .error err
  | .ok g =>
    let ps := if ps.isEmpty then [25, 50, 75] else ps
    let c := defaultIClosed g.closed
    .ok ([mean g, var g, minIn g none none c, maxIn g none none c] ++ ps.map (percentile g))

/-- the percentiles actually reported -/
def describePs (ps : List Rat) : List Rat := if ps.isEmpty then [25, 50, 75] else ps

/-- **the entries are the model statistics of the clipped function** `g = f.clip(lo, hi)` -/
theorem describeRow_ok (f g : Stairs Rat) (lo hi : Option Rat) (ps : List Rat) (hg : clipW f lo hi = .ok g) :
    describeRow f lo hi ps = .ok ([mean g, var g, minIn g none none (defaultIClosed g.closed),
      maxIn g none none (defaultIClosed g.closed)] ++ (describePs ps).map (percentile g)) := by
  unfold describeRow; rw [hg]; rfl

theorem describeRow_error (f : Stairs Rat) (lo hi : Option Rat) (ps : List Rat) (e : Err)
    (hg : clipW f lo hi = .error e) : describeRow f lo hi ps = .error e := by
  unfold describeRow; rw [hg]

/-- no window: the statistics of `f` itself -/
theorem describeRow_whole (f : Stairs Rat) (ps : List Rat) :
    describeRow f none none ps = .ok ([mean f, var f, minIn f none none (defaultIClosed f.closed),
      maxIn f none none (defaultIClosed f.closed)] ++ (describePs ps).map (percentile f)) := rfl

/-- **a bounded window `a < b`**: mean / var / percentiles of the window `f|[a,b)`, and the `min` / `max` entries are
the windowed extremes of `f` itself over the interval closed on `f`'s own side – which are also the window's
`percentile 0` / `percentile 100` -/
theorem describeRow_window (f : Stairs Rat) (hf : f.WF) (a b : Rat) (hab : a < b) (ps : List Rat) :
    describeRow f (some a) (some b) ps = .ok ([mean (window f a b), var (window f a b),
      minIn f (some a) (some b) (defaultIClosed f.closed), maxIn f (some a) (some b) (defaultIClosed f.closed)]
        ++ (describePs ps).map (percentile (window f a b))) ∧
    minIn f (some a) (some b) (defaultIClosed f.closed) = percentile (window f a b) 0 ∧
    maxIn f (some a) (some b) (defaultIClosed f.closed) = percentile (window f a b) 100 := by
  obtain ⟨h1, h2, h3, h4⟩ := C10b.percentile_window_eq_min f hf a b hab (defaultIClosed (window f a b).closed)
  refine ⟨?_, h3.symm, h4.symm⟩
  rw [describeRow_ok f (window f a b) (some a) (some b) ps (clip_window f a b hab), ← h1, ← h2, h3, h4]

/-- an improper window raises -/
theorem describeRow_improper (f : Stairs Rat) (a b : Rat) (hab : ¬ a < b) (ps : List Rat) :
    describeRow f (some a) (some b) ps = .error .valueError :=
  describeRow_error f _ _ ps _ (clip_error f (some a) (some b) (by simpa [boundsOk] using hab))

theorem describeRow_length (f : Stairs Rat) (lo hi : Option Rat) (ps : List Rat) (row : List Val)
    (h : describeRow f lo hi ps = .ok row) : row.length = 4 + (describePs ps).length := by
  unfold describeRow at h
  split at h
  · cases h
  · injection h with h; rw [← h]; simp [describePs]; omega

/-- **the default percentile rows are the quartiles** `quantiles 4` -/
theorem describeRow_default (f g : Stairs Rat) (lo hi : Option Rat) (hg : clipW f lo hi = .ok g) :
    describeRow f lo hi [] = .ok ([mean g, var g, minIn g none none (defaultIClosed g.closed),
      maxIn g none none (defaultIClosed g.closed)] ++ quantiles g 4) ∧
    (quantiles g 4)[1]? = some (median g) := by
  rw [describeRow_ok f g lo hi [] hg, quantiles_four]
  exact ⟨rfl, rfl⟩

/-- **consistency of a `describe` row** of a well-formed function with a defined finite piece: every entry is
defined and `min ≤ 25 % ≤ 50 % ≤ 75 % ≤ max`, `min ≤ mean ≤ max`, `0 ≤ var` -/
theorem describe_order (g : Stairs Rat) (hg : g.WF) (hne : definedPieces g.steps ≠ []) (c : IClosed) :
    ∃ mu s m M q1 q2 q3, mean g = some mu ∧ var g = some s ∧ minIn g none none c = some m ∧
      maxIn g none none c = some M ∧ percentile g 25 = some q1 ∧ percentile g 50 = some q2 ∧
      percentile g 75 = some q3 ∧
      m ≤ q1 ∧ q1 ≤ q2 ∧ q2 ≤ q3 ∧ q3 ≤ M ∧ m ≤ mu ∧ mu ≤ M ∧ 0 ≤ s := by
  have hD := a09b_definedLength_ne_zero g hg hne
  obtain ⟨mu, hmu⟩ := Option.isSome_iff_exists.mp ((mean_isSome_iff g).mpr hD)
  have hs := var_eq g mu hmu
  obtain ⟨q0, h0⟩ := Option.isSome_iff_exists.mp ((percentile_isSome_iff g hg 0).mpr hne)
  obtain ⟨q1, h1⟩ := Option.isSome_iff_exists.mp ((percentile_isSome_iff g hg 25).mpr hne)
  obtain ⟨q2, h2⟩ := Option.isSome_iff_exists.mp ((percentile_isSome_iff g hg 50).mpr hne)
  obtain ⟨q3, h3⟩ := Option.isSome_iff_exists.mp ((percentile_isSome_iff g hg 75).mpr hne)
  obtain ⟨m, q100, M, hm, h100, hM, a1, a2, a3⟩ := C10b.min_le_percentiles_le_max g hg c q0 h0
  obtain ⟨lo, hi, hlo, hhi, b1, b2⟩ := C10b.mean_between_min_max_whole g hg c mu hmu
  rw [hm] at hlo; rw [hM] at hhi
  injection hlo with hlo; injection hhi with hhi
  subst hlo hhi
  refine ⟨mu, _, m, M, q1, q2, q3, hmu, hs, hm, hM, h1, h2, h3, ?_, ?_, ?_, ?_, b1, b2, var_nonneg g hg _ hs⟩
  · exact le_trans a1 (percentile_mono g hg 0 25 (by norm_num) q0 q1 h0 h1)
  · exact percentile_mono g hg 25 50 (by norm_num) q1 q2 h1 h2
  · exact percentile_mono g hg 50 75 (by norm_num) q2 q3 h2 h3
  · exact le_trans (percentile_mono g hg 75 100 (by norm_num) q3 q100 h3 h100) a3

/-- for ANY requested percentile list sorted increasingly the percentile rows are increasing and between the
`min` and `max` rows (also for `p` outside `[0, 100]`) -/
theorem describe_percentiles_order (g : Stairs Rat) (hg : g.WF) (c : IClosed) (ps : List Rat)
    (hps : ps.Pairwise (· ≤ ·)) :
    ((ps.map (percentile g)).Pairwise fun u v => ∀ a b, u = some a → v = some b → a ≤ b) ∧
    ∀ a, some a ∈ ps.map (percentile g) →
      ∃ m M, minIn g none none c = some m ∧ maxIn g none none c = some M ∧ m ≤ a ∧ a ≤ M := by
  constructor
  · exact List.Pairwise.map _ (fun p p' hpp a b ha hb => percentile_mono g hg p p' hpp a b ha hb) hps
  · intro a ha
    obtain ⟨p, _, hp⟩ := List.mem_map.mp ha
    obtain ⟨q0, q100, h0, h100, e1, e2⟩ := percentile_between_extremes g hg p a hp
    obtain ⟨m, q100', M, hm, h100', hM, a1, a2, a3⟩ := C10b.min_le_percentiles_le_max g hg c q0 h0
    rw [h100] at h100'; injection h100' with h100'; subst h100'
    exact ⟨m, M, hm, hM, le_trans a1 e1, le_trans e2 a3⟩

/-- without a defined finite piece `mean`, `var` and all percentile rows are NaN (the extremes may still exist:
`C10b.extremes_without_distribution`) -/
theorem describe_undefined (g : Stairs Rat) (h : definedPieces g.steps = []) (p : Rat) :
    mean g = none ∧ var g = none ∧ percentile g p = none := by
  have hD : definedLength g = 0 := by unfold definedLength; rw [h]; rfl
  have hm := mean_none g hD
  exact ⟨hm, var_none g hm, C10b.percentile_none g h p⟩

/-- the whole row of a window, with all consistency facts, in one statement -/
theorem describe_window_order (f : Stairs Rat) (hf : f.WF) (a b : Rat) (hab : a < b)
    (hne : definedPieces (window f a b).steps ≠ []) :
    ∃ mu s m M q1 q2 q3, describeRow f (some a) (some b) [] =
        .ok [some mu, some s, some m, some M, some q1, some q2, some q3] ∧
      m ≤ q1 ∧ q1 ≤ q2 ∧ q2 ≤ q3 ∧ q3 ≤ M ∧ m ≤ mu ∧ mu ≤ M ∧ 0 ≤ s ∧
      percentile (window f a b) 0 = some m ∧ percentile (window f a b) 100 = some M := by
  obtain ⟨mu, s, m, M, q1, q2, q3, e1, e2, e3, e4, e5, e6, e7, rest⟩ :=
    describe_order (window f a b) (wf_window f a b hf hab) hne (defaultIClosed (window f a b).closed)
  obtain ⟨h1, h2, _, _⟩ := C10b.percentile_window_eq_min f hf a b hab (defaultIClosed (window f a b).closed)
  refine ⟨mu, s, m, M, q1, q2, q3, ?_, rest.1, rest.2.1, rest.2.2.1, rest.2.2.2.1, rest.2.2.2.2.1,
    rest.2.2.2.2.2.1, rest.2.2.2.2.2.2, by rw [h1, e3], by rw [h2, e4]⟩
  rw [describeRow_ok f (window f a b) (some a) (some b) [] (clip_window f a b hab), e1, e2, e3, e4]
  show Except.ok [some mu, some s, some m, some M, percentile _ 25, percentile _ 50, percentile _ 75] = _
  rw [e5, e6, e7]

/-- non-vacuity (`C08.f₀`: `1` on `[0,1)`, NaN on `[1,2)`, `3` on `[2,4)`, `1` on `[4,5)`; `2` before, `3` after) -/
example : describeRow C08.f₀ none none [] = .ok [some 2, some 1, some 1, some 3, some 1, some 2, some 3] ∧
    describeRow C08.f₀ (some (1/2)) (some (9/2)) [] =
      .ok [some (7/3), some (8/9), some 1, some 3, some 1, some 3, some 3] ∧
    describeRow C08.f₀ (some (1/2)) (some (9/2)) [10, 90] = .ok [some (7/3), some (8/9), some 1, some 3, some 1, some 3] ∧
    describeRow C08.f₀ (some 3) (some 3) [] = .error .valueError ∧
    describeRow C08.f₀ (some 1) (some 2) [] = .ok [none, none, none, none, none, none, none] := by decide +kernel
example : C08.f₀.WF ∧ definedPieces (window C08.f₀ (1/2) (9/2)).steps ≠ [] := by decide +kernel
/-- whole line: the `min` / `max` rows see the unbounded pieces, the percentile rows do not (`C10b.g₃`) -/
example : describeRow C10b.g₃ none none [0, 100] = .ok [some 6, some 1, some 0, some 100, some 5, some 7] := by
  decide +kernel

/-! ## 4. the distribution of a transformed function

Everything here is derived from the *table* (`value_sums`) of the transformed function `g`: strictly increasing `φ`
maps the keys and keeps the order (`C08c.valueSums_mapVals_mono`), strictly decreasing `φ` reverses it
(`C08c.valueSums_mapVals_anti`).  The statements are given (i) at table level, (ii) for `C08b.mapVals φ f` (rows kept,
values mapped), (iii) for ANY representation `h` of `k·f + d` over a bounded window (`C08c.valueSums_window_map`: e.g.
the library's `f * k + d`, which re-canonicalises). -/
section Helpers

/-- send the keys of a table through `φ` -/
def mapKeys (φ : Rat → Rat) (L : List (Rat × Rat)) : List (Rat × Rat) := L.map fun vl => (φ vl.1, vl.2)

theorem d9c_sumBy_mapKeys (φ : Rat → Rat) (L : List (Rat × Rat)) : sumBy (·.2) (mapKeys φ L) = sumBy (·.2) L := by
  unfold mapKeys; rw [sumBy_map]

theorem d9c_sumBy_reverse {α : Type} (g : α → Rat) (L : List α) : sumBy g L.reverse = sumBy g L :=
  d9c_sumBy_perm g _ _ (List.reverse_perm L)

theorem d9c_shares_mapKeys (φ : Rat → Rat) (f g : Stairs Rat) (h : valueSums g = mapKeys φ (valueSums f)) :
    shares g = mapKeys φ (shares f) := by
  rw [shares_eq, shares_eq, h, d9c_sumBy_mapKeys]
  unfold mapKeys
  rw [List.map_map, List.map_map]; rfl

theorem d9c_shares_mapKeys_rev (φ : Rat → Rat) (f g : Stairs Rat)
    (h : valueSums g = (mapKeys φ (valueSums f)).reverse) : shares g = (mapKeys φ (shares f)).reverse := by
  rw [shares_eq, shares_eq, h, d9c_sumBy_reverse, d9c_sumBy_mapKeys]
  unfold mapKeys
  rw [List.map_reverse, List.map_map, List.map_map]; rfl

theorem d9c_filter_mapKeys (φ : Rat → Rat) (L : List (Rat × Rat)) (P : Rat → Bool) :
    sumBy (·.2) ((mapKeys φ L).filter fun vs => P vs.1) = sumBy (·.2) (L.filter fun vs => P (φ vs.1)) := by
  unfold mapKeys
  rw [sumBy_filter, sumBy_filter, sumBy_map]

theorem d9c_filter_reverse (L : List (Rat × Rat)) (P : Rat × Rat → Bool) :
    sumBy (·.2) (L.reverse.filter P) = sumBy (·.2) (L.filter P) := by
  rw [List.filter_reverse, d9c_sumBy_reverse]

theorem d9c_mono_lt_iff (φ : Rat → Rat) (hφ : ∀ x y, x < y → φ x < φ y) (x y : Rat) : φ x < φ y ↔ x < y := by
  refine ⟨fun h => ?_, hφ x y⟩
  by_contra hn
  rcases lt_or_eq_of_le (not_lt.mp hn) with h1 | h1
  · exact absurd (hφ y x h1) (not_lt.mpr (le_of_lt h))
  · rw [h1] at h; exact lt_irrefl _ h

theorem d9c_mono_le_iff (φ : Rat → Rat) (hφ : ∀ x y, x < y → φ x < φ y) (x y : Rat) : φ x ≤ φ y ↔ x ≤ y := by
  rw [← not_lt, ← not_lt, d9c_mono_lt_iff φ hφ]

theorem d9c_anti_lt_iff (φ : Rat → Rat) (hφ : ∀ x y, x < y → φ y < φ x) (x y : Rat) : φ x < φ y ↔ y < x := by
  have := d9c_mono_lt_iff (fun v => -φ v) (fun a b hab => neg_lt_neg (hφ a b hab)) y x
  simpa using this

theorem d9c_anti_le_iff (φ : Rat → Rat) (hφ : ∀ x y, x < y → φ y < φ x) (x y : Rat) : φ x ≤ φ y ↔ y ≤ x := by
  rw [← not_lt, ← not_lt, d9c_anti_lt_iff φ hφ]

theorem d9c_reached_left_false (p x : Rat) : reached true p x = false ↔ x ≤ p := by
  rw [Bool.eq_false_iff, Ne, reached_left_iff, not_lt]
theorem d9c_reached_right_false (p x : Rat) : reached false p x = false ↔ x < p := by
  rw [Bool.eq_false_iff, Ne, reached_right_iff, not_le]

theorem d9c_cumsum_mapKeys (φ : Rat → Rat) (acc : Rat) (S : List (Rat × Rat)) :
    cumsum acc (mapKeys φ S) = mapKeys φ (cumsum acc S) := by
  induction S generalizing acc with
  | nil => rfl
  | cons a r ih =>
    obtain ⟨v, s⟩ := a
    show cumsum acc ((φ v, s) :: mapKeys φ r) = _
    rw [cumsum_cons, ih]; rfl

theorem d9c_FU_mapKeys (φ : Rat → Rat) (st : Bool) (scale x d : Rat) (C : List (Rat × Rat)) :
    firstUnreached st scale x (φ d) (mapKeys φ C) = φ (firstUnreached st scale x d C) := by
  induction C generalizing d with
  | nil => rfl
  | cons a r ih =>
    obtain ⟨v, c⟩ := a
    show firstUnreached st scale x (φ d) ((φ v, c) :: mapKeys φ r) = _
    simp only [firstUnreached]
    split
    · exact ih v
    · rfl

theorem d9c_FU_default (st : Bool) (scale x d d' : Rat) (C : List (Rat × Rat)) (hC : C ≠ []) :
    firstUnreached st scale x d C = firstUnreached st scale x d' C := by
  cases C with
  | nil => exact absurd rfl hC
  | cons a r => obtain ⟨v, c⟩ := a; rfl

theorem d9c_FU_mapKeys_ne (φ : Rat → Rat) (st : Bool) (scale x d d' : Rat) (C : List (Rat × Rat)) (hC : C ≠ []) :
    firstUnreached st scale x d' (mapKeys φ C) = φ (firstUnreached st scale x d C) := by
  rw [← d9c_FU_mapKeys φ st scale x d C]
  apply d9c_FU_default
  unfold mapKeys; simpa using hC

/-- the quantile read off a decomposition of the shares: everything before `(v, s)` reached, `(v, s)` itself not
(or last) -/
theorem d9c_FU_decomp (st : Bool) (scale x d acc : Rat) (hs : 0 ≤ scale) (S₁ S₂ : List (Rat × Rat)) (v s : Rat)
    (hnn : ∀ e ∈ S₁, 0 ≤ e.2)
    (h1 : S₁ = [] ∨ reached st ((acc + sumBy (·.2) S₁) * scale) x = true)
    (h2 : S₂ = [] ∨ reached st ((acc + sumBy (·.2) S₁ + s) * scale) x = false) :
    firstUnreached st scale x d (cumsum acc (S₁ ++ (v, s) :: S₂)) = v := by
  have hl : ∀ e ∈ cumsum acc S₁, reached st (e.2 * scale) x = true := by
    intro e he
    rcases h1 with h1 | h1
    · subst h1; simp [cumsum_nil] at he
    · exact d9c_reached_mono_le (mul_le_mul_of_nonneg_right (cumsum_le acc S₁ hnn e he) hs) h1
  rw [cumsum_append, cumsum_cons]
  cases hc : reached st ((acc + sumBy (·.2) S₁ + s) * scale) x
  · exact firstUnreached_append st scale x d v _ _ _ hl hc
  · rcases h2 with h2 | h2
    · subst h2
      rw [cumsum_nil]
      apply firstUnreached_all
      intro e he
      rcases List.mem_append.mp he with he | he
      · exact hl e he
      · simp only [List.mem_singleton] at he; subst he; exact hc
    · rw [hc] at h2; cases h2

/-- such a decomposition always exists -/
theorem d9c_FU_exists_decomp (st : Bool) (scale x acc : Rat) (S : List (Rat × Rat)) (hS : S ≠ []) :
    ∃ S₁ v s S₂, S = S₁ ++ (v, s) :: S₂ ∧
      (S₁ = [] ∨ reached st ((acc + sumBy (·.2) S₁) * scale) x = true) ∧
      (S₂ = [] ∨ reached st ((acc + sumBy (·.2) S₁ + s) * scale) x = false) := by
  induction S generalizing acc with
  | nil => exact absurd rfl hS
  | cons a r ih =>
    obtain ⟨v, s⟩ := a
    cases hc : reached st ((acc + s) * scale) x
    · exact ⟨[], v, s, r, rfl, Or.inl rfl, Or.inr (by simpa using hc)⟩
    · by_cases hr : r = []
      · exact ⟨[], v, s, r, rfl, Or.inl rfl, Or.inl hr⟩
      · obtain ⟨R₁, v', s', R₂, hdec, g1, g2⟩ := ih (acc + s) hr
        refine ⟨(v, s) :: R₁, v', s', R₂, by rw [hdec]; rfl, Or.inr ?_, ?_⟩
        · rcases g1 with g1 | g1
          · subst g1; simpa using hc
          · rw [sumBy_cons, ← add_assoc]; exact g1
        · rcases g2 with g2 | g2
          · exact Or.inl g2
          · right; rw [sumBy_cons, ← add_assoc]; exact g2

/-- **reversing the order of the values swaps the lower and the upper quantile and reflects the level**:
with `T` the total share, the `st`-quantile at `x` of the reversed, key-mapped table is `φ` of the opposite quantile
at `T·scale − x` of the original one -/
theorem d9c_FU_reverse (φ : Rat → Rat) (st : Bool) (scale : Rat) (hs : 0 ≤ scale) (x d d' : Rat)
    (S : List (Rat × Rat)) (hS : S ≠ []) (hnn : ∀ e ∈ S, 0 ≤ e.2) :
    firstUnreached st scale x d (cumsum 0 (mapKeys φ S).reverse)
      = φ (firstUnreached (!st) scale (sumBy (·.2) S * scale - x) d' (cumsum 0 S)) := by
  obtain ⟨S₁, v, s, S₂, hdec, h1, h2⟩ := d9c_FU_exists_decomp (!st) scale (sumBy (·.2) S * scale - x) 0 S hS
  have hnn1 : ∀ e ∈ S₁, 0 ≤ e.2 := fun e he => hnn e (by rw [hdec]; simp [he])
  have hnn2 : ∀ e ∈ S₂, 0 ≤ e.2 := fun e he => hnn e (by rw [hdec]; simp [he])
  have hT : sumBy (·.2) S = sumBy (·.2) S₁ + s + sumBy (·.2) S₂ := by
    rw [hdec, sumBy_append, sumBy_cons]; ring
  have hR : firstUnreached (!st) scale (sumBy (·.2) S * scale - x) d' (cumsum 0 S) = v := by
    generalize sumBy (·.2) S * scale - x = x' at h1 h2 ⊢
    rw [hdec]; exact d9c_FU_decomp _ _ _ _ _ hs S₁ S₂ v s hnn1 h1 h2
  rw [hR]
  have hrev : (mapKeys φ S).reverse = (mapKeys φ S₂).reverse ++ (φ v, s) :: (mapKeys φ S₁).reverse := by
    rw [hdec]; unfold mapKeys; simp
  have hsum2 : sumBy (·.2) (mapKeys φ S₂).reverse = sumBy (·.2) S₂ := by
    rw [d9c_sumBy_reverse, d9c_sumBy_mapKeys]
  rw [hrev]
  apply d9c_FU_decomp _ _ _ _ _ hs
  · intro e he
    rw [List.mem_reverse] at he
    obtain ⟨a, ha, rfl⟩ := List.mem_map.mp he
    exact hnn2 a ha
  · rcases h2 with h2 | h2
    · left; subst h2; rfl
    · right
      rw [hsum2]
      cases st
      · rw [reached_right_iff]
        rw [Bool.not_false, d9c_reached_left_false] at h2
        rw [hT] at h2; nlinarith
      · rw [reached_left_iff]
        rw [Bool.not_true, d9c_reached_right_false] at h2
        rw [hT] at h2; nlinarith
  · rcases h1 with h1 | h1
    · left; subst h1; rfl
    · right
      rw [hsum2]
      cases st
      · rw [d9c_reached_right_false]
        rw [Bool.not_false, reached_left_iff] at h1
        rw [hT] at h1; nlinarith
      · rw [d9c_reached_left_false]
        rw [Bool.not_true, reached_right_iff] at h1
        rw [hT] at h1; nlinarith

end Helpers

/-! ### 4a. table level -/

/-- **strictly increasing `φ`**: `ecdf_g(φ y) = ecdf_f(y)`, for both one-sided limits -/
theorem cdfAt_table_mono (φ : Rat → Rat) (hφ : ∀ x y, x < y → φ x < φ y) (f g : Stairs Rat)
    (h : valueSums g = mapKeys φ (valueSums f)) (side : Side) (y : Rat) :
    cdfAt g side (φ y) = cdfAt f side y := by
  unfold cdfAt
  rw [d9c_shares_mapKeys φ f g h]
  cases side
  · refine (d9c_filter_mapKeys φ (shares f) (fun v => decide (v < φ y))).trans ?_
    congr 1
    apply List.filter_congr
    intro a _
    simp [d9c_mono_lt_iff φ hφ]
  · refine (d9c_filter_mapKeys φ (shares f) (fun v => decide (v ≤ φ y))).trans ?_
    congr 1
    apply List.filter_congr
    intro a _
    simp [d9c_mono_le_iff φ hφ]

/-- **strictly decreasing `φ`**: `ecdf_g(φ y) = T − ecdf_f(y⁻)` and `ecdf_g((φ y)⁻) = T − ecdf_f(y)` with `T` the total
share (`1` when there is a defined finite piece: `C09b.shares_total`) -/
theorem cdfAt_table_anti (φ : Rat → Rat) (hφ : ∀ x y, x < y → φ y < φ x) (f g : Stairs Rat)
    (h : valueSums g = (mapKeys φ (valueSums f)).reverse) (y : Rat) :
    cdfAt g .right (φ y) = sumBy (·.2) (shares f) - cdfAt f .left y ∧
    cdfAt g .left (φ y) = sumBy (·.2) (shares f) - cdfAt f .right y := by
  constructor
  · show sumBy (·.2) ((shares g).filter fun vs => decide (vs.1 ≤ φ y))
      = sumBy (·.2) (shares f) - sumBy (·.2) ((shares f).filter fun vs => decide (vs.1 < y))
    rw [d9c_shares_mapKeys_rev φ f g h, d9c_filter_reverse,
      (d9c_filter_mapKeys φ (shares f) (fun v => decide (v ≤ φ y)))]
    have hc := a09b_filter_compl (shares f) fun vs => decide (vs.1 < y)
    have : ((shares f).filter fun vs => decide (φ vs.1 ≤ φ y)) = (shares f).filter fun vs => !decide (vs.1 < y) := by
      apply List.filter_congr
      intro a _
      have hiff : φ a.1 ≤ φ y ↔ ¬ a.1 < y := by rw [d9c_anti_le_iff φ hφ, not_lt]
      show decide (φ a.1 ≤ φ y) = !decide (a.1 < y)
      by_cases hh : a.1 < y
      · have hn : ¬ φ a.1 ≤ φ y := fun h' => (hiff.mp h') hh
        simp only [hh, hn, decide_false, decide_true, Bool.not_true]
      · simp only [hh, hiff.mpr hh, decide_false, decide_true, Bool.not_false]
    rw [this]; linarith
  · show sumBy (·.2) ((shares g).filter fun vs => decide (vs.1 < φ y))
      = sumBy (·.2) (shares f) - sumBy (·.2) ((shares f).filter fun vs => decide (vs.1 ≤ y))
    rw [d9c_shares_mapKeys_rev φ f g h, d9c_filter_reverse,
      (d9c_filter_mapKeys φ (shares f) (fun v => decide (v < φ y)))]
    have hc := a09b_filter_compl (shares f) fun vs => decide (vs.1 ≤ y)
    have : ((shares f).filter fun vs => decide (φ vs.1 < φ y)) = (shares f).filter fun vs => !decide (vs.1 ≤ y) := by
      apply List.filter_congr
      intro a _
      have hiff : φ a.1 < φ y ↔ ¬ a.1 ≤ y := by rw [d9c_anti_lt_iff φ hφ, not_le]
      show decide (φ a.1 < φ y) = !decide (a.1 ≤ y)
      by_cases hh : a.1 ≤ y
      · have hn : ¬ φ a.1 < φ y := fun h' => (hiff.mp h') hh
        simp only [hh, hn, decide_false, decide_true, Bool.not_true]
      · simp only [hh, hiff.mpr hh, decide_false, decide_true, Bool.not_false]
    rw [this]; linarith

/-- the ecdf of `g` at the image point, as limits of the ecdf objects (increasing `φ`) -/
theorem ecdf_table_mono (φ : Rat → Rat) (hφ : ∀ x y, x < y → φ x < φ y) (f g : Stairs Rat)
    (h : valueSums g = mapKeys φ (valueSums f)) (side : Side) (y : Rat) :
    (ecdf g).limit side (φ y) = (ecdf f).limit side y ∧ (ecdf g).sample (φ y) = (ecdf f).sample y := by
  rw [ecdf_sample, ecdf_sample, ecdf_limit, ecdf_limit, ecdf_limit, ecdf_limit,
    cdfAt_table_mono φ hφ f g h, cdfAt_table_mono φ hφ f g h]
  exact ⟨rfl, rfl⟩

/-- decreasing `φ`, a well-formed `f` with a defined finite piece: `ecdf_g(φ y) = 1 − ecdf_f(y⁻)` (the sampled ecdf
is the right limit), `ecdf_g((φ y)⁻) = 1 − ecdf_f(y)` -/
theorem ecdf_table_anti (φ : Rat → Rat) (hφ : ∀ x y, x < y → φ y < φ x) (f g : Stairs Rat) (hf : f.WF)
    (hne : definedPieces f.steps ≠ []) (h : valueSums g = (mapKeys φ (valueSums f)).reverse) (y : Rat) :
    (ecdf g).limit .right (φ y) = ((ecdf f).limit .left y).map (fun a => 1 - a) ∧
    (ecdf g).sample (φ y) = ((ecdf f).limit .left y).map (fun a => 1 - a) ∧
    (ecdf g).limit .left (φ y) = ((ecdf f).limit .right y).map (fun a => 1 - a) := by
  obtain ⟨h1, h2⟩ := cdfAt_table_anti φ hφ f g h y
  rw [shares_sum_one f (a09b_definedLength_ne_zero f hf hne)] at h1 h2
  rw [ecdf_sample, ecdf_limit, ecdf_limit, ecdf_limit, ecdf_limit, h1, h2]
  exact ⟨rfl, rfl, rfl⟩

/-- **percentiles, `k > 0`**: `percentile (k·f + d) p = k · percentile f p + d`, every `p` -/
theorem percentile_table_affine_pos (k d : Rat) (hk : 0 < k) (f g : Stairs Rat) (hf : f.WF) (hg : g.WF)
    (h : valueSums g = mapKeys (fun v => k * v + d) (valueSums f)) (p : Rat) :
    percentile g p = (percentile f p).map fun v => k * v + d := by
  have hsg := d9c_shares_mapKeys _ f g h
  by_cases hsh : shares f = []
  · rw [C09.percentile_none f hsh, C09.percentile_none g (by rw [hsg, hsh]; rfl)]; rfl
  · have hsh' : shares g ≠ [] := by
      rw [hsg]; unfold mapKeys; simpa using hsh
    have hC : cumsum 0 (shares f) ≠ [] := a09b_cum_ne_nil f hsh
    rw [percentile_eq_midpoint f hf hsh, percentile_eq_midpoint g hg hsh', hsg, d9c_cumsum_mapKeys,
      d9c_FU_mapKeys_ne _ true 100 p 0 0 _ hC, d9c_FU_mapKeys_ne _ false 100 p 0 0 _ hC, Option.map_some]
    congr 1; ring

/-- **percentiles, `k < 0`**: `percentile (k·f + d) p = k · percentile f (100 − p) + d`, every `p` – exact also at the
share boundaries, because the midpoint rule is symmetric: the lower quantile of `k·f + d` at `p` is the image of the
UPPER quantile of `f` at `100 − p` and vice versa -/
theorem percentile_table_affine_neg (k d : Rat) (hk : k < 0) (f g : Stairs Rat) (hf : f.WF) (hg : g.WF)
    (h : valueSums g = (mapKeys (fun v => k * v + d) (valueSums f)).reverse) (p : Rat) :
    percentile g p = (percentile f (100 - p)).map fun v => k * v + d := by
  have hsg := d9c_shares_mapKeys_rev _ f g h
  by_cases hsh : shares f = []
  · rw [C09.percentile_none f hsh, C09.percentile_none g (by rw [hsg, hsh]; rfl)]; rfl
  · have hsh' : shares g ≠ [] := by
      rw [hsg]; unfold mapKeys; simpa using hsh
    have hne : definedPieces f.steps ≠ [] := fun hd => hsh ((a09b_shares_eq_nil_iff f).mpr hd)
    have hT : sumBy (·.2) (shares f) * 100 - p = 100 - p := by
      rw [shares_sum_one f (a09b_definedLength_ne_zero f hf hne)]; ring
    have hnn := a09b_shares_nonneg f hf
    rw [percentile_eq_midpoint f hf hsh, percentile_eq_midpoint g hg hsh', hsg,
      d9c_FU_reverse _ true 100 (by norm_num) p 0 0 _ hsh hnn,
      d9c_FU_reverse _ false 100 (by norm_num) p 0 0 _ hsh hnn, hT, Option.map_some]
    simp only [Bool.not_true, Bool.not_false]
    congr 1; ring

/-- the quantiles themselves (not only their midpoint), any strictly increasing `φ`: lower ↦ lower, upper ↦ upper -/
theorem quantile_table_mono (φ : Rat → Rat) (f g : Stairs Rat) (h : valueSums g = mapKeys φ (valueSums f))
    (hsh : shares f ≠ []) (st : Bool) (scale x : Rat) :
    firstUnreached st scale x 0 (cumsum 0 (shares g)) = φ (firstUnreached st scale x 0 (cumsum 0 (shares f))) := by
  have hC : cumsum 0 (shares f) ≠ [] := a09b_cum_ne_nil f hsh
  rw [d9c_shares_mapKeys _ f g h, d9c_cumsum_mapKeys, d9c_FU_mapKeys_ne φ st scale x 0 0 _ hC]

/-- … and any strictly decreasing `φ`: the lower quantile at `x` is the image of the upper quantile at
`scale − x`, and vice versa -/
theorem quantile_table_anti (φ : Rat → Rat) (f g : Stairs Rat) (hf : f.WF)
    (h : valueSums g = (mapKeys φ (valueSums f)).reverse) (hsh : shares f ≠ []) (st : Bool) (scale : Rat)
    (hs : 0 ≤ scale) (x : Rat) :
    firstUnreached st scale x 0 (cumsum 0 (shares g))
      = φ (firstUnreached (!st) scale (scale - x) 0 (cumsum 0 (shares f))) := by
  have hne : definedPieces f.steps ≠ [] := fun hd => hsh ((a09b_shares_eq_nil_iff f).mpr hd)
  rw [d9c_shares_mapKeys_rev _ f g h, d9c_FU_reverse φ st scale hs x 0 0 _ hsh (a09b_shares_nonneg f hf),
    shares_sum_one f (a09b_definedLength_ne_zero f hf hne), one_mul]

/-- fractiles: `p ↦ 1 − p` -/
theorem fractile_table_affine (k d : Rat) (f g : Stairs Rat) (hf : f.WF) (hg : g.WF) (p : Rat) :
    (0 < k → valueSums g = mapKeys (fun v => k * v + d) (valueSums f) →
      fractile g p = (fractile f p).map fun v => k * v + d) ∧
    (k < 0 → valueSums g = (mapKeys (fun v => k * v + d) (valueSums f)).reverse →
      fractile g p = (fractile f (1 - p)).map fun v => k * v + d) := by
  constructor
  · intro hk h
    rw [fractile_eq_percentile, fractile_eq_percentile, percentile_table_affine_pos k d hk f g hf hg h]
  · intro hk h
    rw [fractile_eq_percentile, fractile_eq_percentile, percentile_table_affine_neg k d hk f g hf hg h]
    congr 2; ring

/-- **the median commutes with every non-constant affine map** (`100 − 50 = 50`) -/
theorem median_table_affine (k d : Rat) (f g : Stairs Rat) (hf : f.WF) (hg : g.WF)
    (h : (0 < k ∧ valueSums g = mapKeys (fun v => k * v + d) (valueSums f)) ∨
         (k < 0 ∧ valueSums g = (mapKeys (fun v => k * v + d) (valueSums f)).reverse)) :
    median g = (median f).map fun v => k * v + d := by
  rw [median_eq, median_eq]
  rcases h with ⟨hk, h⟩ | ⟨hk, h⟩
  · exact percentile_table_affine_pos k d hk f g hf hg h 50
  · rw [percentile_table_affine_neg k d hk f g hf hg h 50]; norm_num

/-- `hist` of the transformed function over the transformed bins (raw entries): increasing `φ` keeps the bins'
side, decreasing `φ` swaps the ends of each bin AND the closed side -/
theorem histRaw_table (φ : Rat → Rat) (f g : Stairs Rat) (lr : Rat × Rat) :
    ((∀ x y, x < y → φ x < φ y) → valueSums g = mapKeys φ (valueSums f) →
      ∀ closed, histRaw g closed (φ lr.1, φ lr.2) = histRaw f closed lr) ∧
    ((∀ x y, x < y → φ y < φ x) → valueSums g = (mapKeys φ (valueSums f)).reverse →
      histRaw g .right (φ lr.2, φ lr.1) = histRaw f .left lr ∧
      histRaw g .left (φ lr.2, φ lr.1) = histRaw f .right lr) := by
  constructor
  · intro hφ h closed
    unfold histRaw
    rw [cdfAt_table_mono φ hφ f g h, cdfAt_table_mono φ hφ f g h]
  · intro hφ h
    unfold histRaw
    obtain ⟨a1, a2⟩ := cdfAt_table_anti φ hφ f g h lr.1
    obtain ⟨b1, b2⟩ := cdfAt_table_anti φ hφ f g h lr.2
    simp only
    rw [a1, a2, b1, b2]
    constructor <;> ring

/-! ### 4b. where the table hypotheses hold -/

/-- `C08b.mapVals φ f` (rows kept, values mapped) -/
theorem table_mapVals (φ : Rat → Rat) (f : Stairs Rat) (hf : f.WF) :
    (C08b.mapVals φ f).WF ∧
    ((∀ x y, x < y → φ x < φ y) → valueSums (C08b.mapVals φ f) = mapKeys φ (valueSums f)) ∧
    ((∀ x y, x < y → φ y < φ x) → valueSums (C08b.mapVals φ f) = (mapKeys φ (valueSums f)).reverse) :=
  ⟨sorted_mapVals (fun v : Val => v.map φ) f.steps hf,
   fun hφ => C08c.valueSums_mapVals_mono φ hφ f hf, fun hφ => C08c.valueSums_mapVals_anti φ hφ f hf⟩

/-- ANY well-formed `h` denoting `φ ∘ f` on `[a, b)`, cut to that window – whatever its rows -/
theorem table_window_map (φ : Rat → Rat) (f h : Stairs Rat) (hf : f.WF) (hh : h.WF) (a b : Rat) (hab : a < b)
    (hden : ∀ x, a ≤ x → x < b → Den h false x = (Den f false x).map φ) :
    (window h a b).WF ∧ (window f a b).WF ∧
    ((∀ x y, x < y → φ x < φ y) → valueSums (window h a b) = mapKeys φ (valueSums (window f a b))) ∧
    ((∀ x y, x < y → φ y < φ x) → valueSums (window h a b) = (mapKeys φ (valueSums (window f a b))).reverse) := by
  have hW := wf_window f a b hf hab
  refine ⟨wf_window h a b hh hab, hW, fun hφ => ?_, fun hφ => ?_⟩
  · rw [C08c.valueSums_window_map φ f h hf hh a b hab hden]
    exact C08c.valueSums_mapVals_mono φ hφ _ hW
  · rw [C08c.valueSums_window_map φ f h hf hh a b hab hden]
    exact C08c.valueSums_mapVals_anti φ hφ _ hW

theorem d9c_affine_mono (k d : Rat) (hk : 0 < k) : ∀ x y : Rat, x < y → k * x + d < k * y + d :=
  fun x y hxy => by nlinarith
theorem d9c_affine_anti (k d : Rat) (hk : k < 0) : ∀ x y : Rat, x < y → k * y + d < k * x + d :=
  fun x y hxy => by nlinarith

/-- the library's `f * k + d` -/
def affineLib (f : Stairs Rat) (k d : Rat) : Stairs Rat := C08b.addConst (C08b.scale f k) d

theorem affineLib_wf (f : Stairs Rat) (hf : f.WF) (k d : Rat) : (affineLib f k d).WF :=
  C08b.wf_addConst _ (C08b.wf_scale f hf k) d

theorem den_affineLib (f : Stairs Rat) (hf : f.WF) (k d : Rat) (st : Bool) (x : Rat) :
    Den (affineLib f k d) st x = (Den f st x).map fun v => k * v + d := by
  unfold affineLib
  rw [C08b.den_addConst _ (C08b.wf_scale f hf k), C08b.den_scale f hf]
  cases Den f st x with
  | none => rfl
  | some v => exact congrArg some (by ring)

/-! ### 4c. headline statements -/

/-- **ecdf of `k·f + d`, `k > 0`** (rows kept): `ecdf(k·y + d) = ecdf_f(y)`, both limits and the sampled value -/
theorem ecdf_affine_pos (f : Stairs Rat) (hf : f.WF) (k d : Rat) (hk : 0 < k) (side : Side) (y : Rat) :
    (ecdf (C08b.mapVals (fun v => k * v + d) f)).limit side (k * y + d) = (ecdf f).limit side y ∧
    (ecdf (C08b.mapVals (fun v => k * v + d) f)).sample (k * y + d) = (ecdf f).sample y :=
  ecdf_table_mono _ (d9c_affine_mono k d hk) f _ ((table_mapVals _ f hf).2.1 (d9c_affine_mono k d hk)) side y

/-- **`k < 0`**: `ecdf(k·y + d) = 1 − ecdf_f(y⁻)` – the LEFT limit of the original ecdf -/
theorem ecdf_affine_neg (f : Stairs Rat) (hf : f.WF) (hne : definedPieces f.steps ≠ []) (k d : Rat) (hk : k < 0)
    (y : Rat) :
    (ecdf (C08b.mapVals (fun v => k * v + d) f)).sample (k * y + d) = ((ecdf f).limit .left y).map (fun a => 1 - a) ∧
    (ecdf (C08b.mapVals (fun v => k * v + d) f)).limit .left (k * y + d)
      = ((ecdf f).limit .right y).map (fun a => 1 - a) := by
  obtain ⟨_, h2, h3⟩ := ecdf_table_anti _ (d9c_affine_anti k d hk) f _ hf hne
    ((table_mapVals _ f hf).2.2 (d9c_affine_anti k d hk)) y
  exact ⟨h2, h3⟩

/-- at an arbitrary point `z` of the value axis -/
theorem ecdf_affine_at (f : Stairs Rat) (hf : f.WF) (hne : definedPieces f.steps ≠ []) (k d : Rat) (z : Rat) :
    (0 < k → (ecdf (C08b.mapVals (fun v => k * v + d) f)).sample z = (ecdf f).sample ((z - d) / k)) ∧
    (k < 0 → (ecdf (C08b.mapVals (fun v => k * v + d) f)).sample z
      = ((ecdf f).limit .left ((z - d) / k)).map (fun a => 1 - a)) := by
  constructor
  · intro hk
    have hk0 : k ≠ 0 := ne_of_gt hk
    have := (ecdf_affine_pos f hf k d hk .right ((z - d) / k)).2
    rwa [show k * ((z - d) / k) + d = z by field_simp; ring] at this
  · intro hk
    have hk0 : k ≠ 0 := ne_of_lt hk
    have := (ecdf_affine_neg f hf hne k d hk ((z - d) / k)).1
    rwa [show k * ((z - d) / k) + d = z by field_simp; ring] at this

/-- **percentiles of `k·f + d`** (rows kept) -/
theorem percentile_affine (f : Stairs Rat) (hf : f.WF) (k d p : Rat) :
    (0 < k → percentile (C08b.mapVals (fun v => k * v + d) f) p = (percentile f p).map fun v => k * v + d) ∧
    (k < 0 → percentile (C08b.mapVals (fun v => k * v + d) f) p
      = (percentile f (100 - p)).map fun v => k * v + d) := by
  obtain ⟨hW, t1, t2⟩ := table_mapVals (fun v => k * v + d) f hf
  exact ⟨fun hk => percentile_table_affine_pos k d hk f _ hf hW (t1 (d9c_affine_mono k d hk)) p,
    fun hk => percentile_table_affine_neg k d hk f _ hf hW (t2 (d9c_affine_anti k d hk)) p⟩

theorem median_affine (f : Stairs Rat) (hf : f.WF) (k d : Rat) (hk : k ≠ 0) :
    median (C08b.mapVals (fun v => k * v + d) f) = (median f).map fun v => k * v + d := by
  obtain ⟨hW, t1, t2⟩ := table_mapVals (fun v => k * v + d) f hf
  apply median_table_affine k d f _ hf hW
  rcases lt_or_gt_of_ne hk with h | h
  · exact Or.inr ⟨h, t2 (d9c_affine_anti k d h)⟩
  · exact Or.inl ⟨h, t1 (d9c_affine_mono k d h)⟩

/-- **over a bounded window, for the library's `f * k + d`** (re-canonicalised rows) – and, through
`table_window_map`, for any other representation of `k·f + d` -/
theorem window_affine (f : Stairs Rat) (hf : f.WF) (k d a b : Rat) (hab : a < b) (p y : Rat) :
    (0 < k →
      percentile (window (affineLib f k d) a b) p = (percentile (window f a b) p).map (fun v => k * v + d) ∧
      (ecdf (window (affineLib f k d) a b)).sample (k * y + d) = (ecdf (window f a b)).sample y) ∧
    (k < 0 →
      percentile (window (affineLib f k d) a b) p = (percentile (window f a b) (100 - p)).map (fun v => k * v + d) ∧
      (definedPieces (window f a b).steps ≠ [] →
        (ecdf (window (affineLib f k d) a b)).sample (k * y + d)
          = ((ecdf (window f a b)).limit .left y).map (fun a => 1 - a))) := by
  obtain ⟨hW', hW, t1, t2⟩ := table_window_map (fun v => k * v + d) f (affineLib f k d) hf (affineLib_wf f hf k d)
    a b hab (fun x _ _ => den_affineLib f hf k d false x)
  constructor
  · intro hk
    exact ⟨percentile_table_affine_pos k d hk _ _ hW hW' (t1 (d9c_affine_mono k d hk)) p,
      (ecdf_table_mono _ (d9c_affine_mono k d hk) _ _ (t1 (d9c_affine_mono k d hk)) .right y).2⟩
  · intro hk
    refine ⟨percentile_table_affine_neg k d hk _ _ hW hW' (t2 (d9c_affine_anti k d hk)) p, fun hne => ?_⟩
    exact (ecdf_table_anti _ (d9c_affine_anti k d hk) _ _ hW hne (t2 (d9c_affine_anti k d hk)) y).2.1

/-- non-vacuity on `h₀` (`1` on `[0,1)`, `3` on `[1,4)`; shares `1/4`, `3/4`) -/
example : percentile (C08b.mapVals (fun v => 2 * v + 1) h₀) 25 = some 5 ∧ percentile h₀ 25 = some 2 ∧
    percentile (C08b.mapVals (fun v => -2 * v + 1) h₀) 75 = some (-3) ∧
    percentile (C08b.mapVals (fun v => -2 * v + 1) h₀) 25 = some (-5) ∧ percentile h₀ 75 = some 3 ∧
    (ecdf (C08b.mapVals (fun v => -2 * v + 1) h₀)).sample (-5) = some (3/4) ∧ (ecdf h₀).limit .left 3 = some (1/4) ∧
    (ecdf h₀).sample 3 = some 1 := by decide +kernel
example : percentile (C08b.mapVals (fun v => -2 * v + 1) h₀) 75 = (percentile h₀ (100 - 75)).map fun v => -2 * v + 1 :=
  (percentile_affine h₀ (by decide +kernel) (-2) 1 75).2 (by norm_num)
/-- `p ↦ 100 − p` is needed, and the ecdf needs the LEFT limit: the naive statements are false -/
theorem affine_neg_naive_refuted :
    percentile (C08b.mapVals (fun v => -1 * v + 0) h₀) 10 ≠ (percentile h₀ 10).map (fun v => -1 * v + 0) ∧
    (ecdf (C08b.mapVals (fun v => -1 * v + 0) h₀)).sample (-1 * 3 + 0) ≠ ((ecdf h₀).sample 3).map (fun a => 1 - a) := by
  decide +kernel
example : percentile (window (affineLib C08.f₀ (-2) 1) (1/2) (9/2)) 30 = some (-5) ∧
    percentile (window C08.f₀ (1/2) (9/2)) 70 = some 3 ∧
    (affineLib C08.g₁ (-2) 1).steps ≠ (C08b.mapVals (fun v => -2 * v + 1) C08.g₁).steps := by decide +kernel

/-! ### 4d. `k = 0` and the whole `quantiles` list -/

/-- **`k = 0`**: the constant map collapses the distribution; every percentile that exists is `d` -/
theorem percentile_const (f : Stairs Rat) (hf : f.WF) (d p : Rat) :
    percentile (C08b.mapVals (fun _ => d) f) p = (percentile f p).map fun _ => d := by
  have hW : (C08b.mapVals (fun _ => d) f).WF := sorted_mapVals (fun v : Val => v.map fun _ => d) f.steps hf
  have hvs := C08c.valueSums_mapVals_const d f hf
  by_cases hne : definedPieces f.steps = []
  · have hD : definedLength f = 0 := by unfold definedLength; rw [hne]; rfl
    rw [if_pos hD] at hvs
    rw [C10b.percentile_none f hne, C10b.percentile_none _ ((valueSums_eq_nil_iff _).mp hvs)]; rfl
  · have hD := a09b_definedLength_ne_zero f hf hne
    rw [if_neg hD] at hvs
    have hne' : definedPieces (C08b.mapVals (fun _ => d) f).steps ≠ [] := by
      intro h0
      rw [(valueSums_eq_nil_iff _).mpr h0] at hvs; cases hvs
    obtain ⟨a, ha⟩ := Option.isSome_iff_exists.mp ((percentile_isSome_iff _ hW p).mpr hne')
    obtain ⟨b, hb⟩ := Option.isSome_iff_exists.mp ((percentile_isSome_iff f hf p).mpr hne)
    have hall : ∀ vl ∈ definedPieces (C08b.mapVals (fun _ => d) f).steps, vl.1 = d := by
      intro vl hvl
      have := (valueSums_keys _ vl.1).mpr ⟨vl.2, hvl⟩
      rw [hvs] at this
      simpa using this
    obtain ⟨h1, h2⟩ := percentile_between _ hW p a ha d d (fun vl hvl => le_of_eq (hall vl hvl).symm)
      (fun vl hvl => le_of_eq (hall vl hvl))
    rw [ha, hb, le_antisymm h2 h1]; rfl

/-- **all three cases of `percentile (k·f + d)`** in one statement -/
theorem percentile_affine_all (f : Stairs Rat) (hf : f.WF) (k d p : Rat) :
    percentile (C08b.mapVals (fun v => k * v + d) f) p =
      if 0 ≤ k then (percentile f p).map fun v => k * v + d
      else (percentile f (100 - p)).map fun v => k * v + d := by
  by_cases hk : 0 ≤ k
  · rw [if_pos hk]
    rcases lt_or_eq_of_le hk with h | h
    · exact (percentile_affine f hf k d p).1 h
    · subst h
      have : (fun v : Rat => 0 * v + d) = fun _ => d := by funext v; ring
      rw [this]; exact percentile_const f hf d p
  · rw [if_neg hk]; exact (percentile_affine f hf k d p).2 (not_le.mp hk)

/-- **`quantiles` of `k·f + d`**: mapped for `k > 0`; mapped AND reversed for `k < 0` -/
theorem quantiles_table_affine (k d : Rat) (f g : Stairs Rat) (hf : f.WF) (hg : g.WF) (q : Nat) :
    (0 < k → valueSums g = mapKeys (fun v => k * v + d) (valueSums f) →
      quantiles g q = (quantiles f q).map (Option.map fun v => k * v + d)) ∧
    (k < 0 → valueSums g = (mapKeys (fun v => k * v + d) (valueSums f)).reverse →
      quantiles g q = ((quantiles f q).map (Option.map fun v => k * v + d)).reverse) := by
  constructor
  · intro hk h
    unfold quantiles
    rw [List.map_map]
    apply List.map_congr_left
    intro i _
    exact (fractile_table_affine k d f g hf hg _).1 hk h
  · intro hk h
    apply List.ext_getElem?
    intro i
    by_cases hi : i < q - 1
    · have hlen : i < ((quantiles f q).map (Option.map fun v => k * v + d)).length := by
        rw [List.length_map, quantiles_length]; exact hi
      rw [List.getElem?_reverse hlen, List.getElem?_map, quantiles_getElem?, quantiles_getElem?, if_pos hi,
        List.length_map, quantiles_length, if_pos (by omega), Option.map_some]
      congr 1
      rw [(fractile_table_affine k d f g hf hg _).2 hk h]
      congr 2
      have hq : (q : Rat) ≠ 0 := by
        have : 0 < q := by omega
        exact_mod_cast (Nat.pos_iff_ne_zero.mp this)
      have hc : ((q - 1 - 1 - i + 1 : Nat) : Rat) = (q : Rat) - ((i + 1 : Nat) : Rat) := by
        rw [show q - 1 - 1 - i + 1 = q - (i + 1) by omega, Nat.cast_sub (by omega)]
      rw [hc]; field_simp
    · rw [List.getElem?_eq_none (by rw [quantiles_length]; omega),
        List.getElem?_eq_none (by rw [List.length_reverse, List.length_map, quantiles_length]; omega)]

theorem quantiles_affine (f : Stairs Rat) (hf : f.WF) (k d : Rat) (q : Nat) :
    (0 < k → quantiles (C08b.mapVals (fun v => k * v + d) f) q
      = (quantiles f q).map (Option.map fun v => k * v + d)) ∧
    (k < 0 → quantiles (C08b.mapVals (fun v => k * v + d) f) q
      = ((quantiles f q).map (Option.map fun v => k * v + d)).reverse) := by
  obtain ⟨hW, t1, t2⟩ := table_mapVals (fun v => k * v + d) f hf
  obtain ⟨q1, q2⟩ := quantiles_table_affine k d f _ hf hW q
  exact ⟨fun hk => q1 hk (t1 (d9c_affine_mono k d hk)), fun hk => q2 hk (t2 (d9c_affine_anti k d hk))⟩

example : quantiles (C08b.mapVals (fun v => -1 * v + 10) e₈) 4 = [some (7/2), some (11/2), some (15/2)] ∧
    quantiles e₈ 4 = [some (5/2), some (9/2), some (13/2)] ∧
    percentile (C08b.mapVals (fun v => 0 * v + 7) h₀) 33 = some 7 := by decide +kernel

/-! ## 5. the ECDF is left-closed on the value axis, whatever the function's closed side

`C15b.ecdf_closed`: `(ecdf f).closed = .left` for every `f`; `C09.ecdf_sample`: hence `ecdf(y)` is the right limit,
`C09.ecdf_right_pieces`: the share of the defined length with value `≤ y`. -/

/-- **`ecdf(y)` sampled at any `y` – attained or not – is the share of the defined length with value `≤ y`**, for
left- and right-closed functions alike -/
theorem ecdf_sample_le (f : Stairs Rat) (y : Rat) :
    (ecdf f).sample y = some (lengthWhere f (fun v => v ≤ y) / definedLength f) ∧ (ecdf f).closed = .left :=
  ⟨by rw [ecdf_sample, ecdf_right_pieces], rfl⟩

/-- the ecdf does not read the function's closed side (nor its initial value) at all -/
theorem ecdf_closed_irrelevant (a a' : Val) (s : List (Rat × Val)) (c c' : Side) :
    ecdf ⟨a, s, c⟩ = ecdf ⟨a', s, c'⟩ := rfl

/-- the defective ecdf object: it inherits the closed side of the function -/
def ecdfInherit (f : Stairs Rat) : Stairs Rat := { ecdf f with closed := f.closed }

/-- the defective `ecdf(y)`: sampled on the function's side -/
def ecdfSampleInherit (f : Stairs Rat) (y : Rat) : Val := (ecdfInherit f).sample y

theorem ecdfSampleInherit_eq (f : Stairs Rat) (y : Rat) :
    ecdfSampleInherit f y = (ecdf f).limit (sampleSide f.closed) y := rfl

/-- for a left-closed function nothing changes (why the tests passed) -/
theorem ecdfSampleInherit_left (f : Stairs Rat) (hc : f.closed = .left) (y : Rat) :
    ecdfSampleInherit f y = (ecdf f).sample y := by
  rw [ecdfSampleInherit_eq, hc]; rfl

/-- for a right-closed function it is the LEFT limit: the share with value `< y` -/
theorem ecdfSampleInherit_right (f : Stairs Rat) (hc : f.closed = .right) (y : Rat) :
    ecdfSampleInherit f y = some (lengthWhere f (fun v => v < y) / definedLength f) := by
  rw [ecdfSampleInherit_eq, hc]; exact ecdf_left_pieces f y

/-- **it agrees off the attained values** (either side) -/
theorem ecdfSampleInherit_off_values (f : Stairs Rat) (y : Rat)
    (h : ¬ ∃ len, (y, len) ∈ definedPieces f.steps) : ecdfSampleInherit f y = (ecdf f).sample y := by
  rw [ecdfSampleInherit_eq, ecdf_sample, ecdf_limit, ecdf_limit, cdfAt_side_irrelevant f y h _ .right]

/-- what is lost at `y`: exactly the share of the value `y` -/
theorem ecdfSampleInherit_deficit (f : Stairs Rat) (hc : f.closed = .right) (y : Rat) :
    ∃ a b, (ecdf f).sample y = some a ∧ ecdfSampleInherit f y = some b ∧ a - b = shareAt f y := by
  refine ⟨_, _, by rw [ecdf_sample]; exact ecdf_limit f .right y,
    by rw [ecdfSampleInherit_eq, hc]; exact ecdf_limit f .left y, cdfAt_jump f y⟩

/-- **for a right-closed function it is wrong exactly AT the attained values** -/
theorem ecdfSampleInherit_eq_iff (f : Stairs Rat) (hf : f.WF) (hc : f.closed = .right) (y : Rat) :
    ecdfSampleInherit f y = (ecdf f).sample y ↔ ¬ ∃ len, (y, len) ∈ definedPieces f.steps := by
  rw [ecdfSampleInherit_eq, hc, ecdf_sample, ecdf_limit, ecdf_limit, Option.some.injEq]
  exact cdfAt_sides_eq_iff f hf y

/-- consequently the defective ecdf of a right-closed function never reports `1` at the maximum -/
theorem ecdfSampleInherit_max (f : Stairs Rat) (hf : f.WF) (hc : f.closed = .right) (M len : Rat)
    (hM : (M, len) ∈ definedPieces f.steps) (hmax : ∀ vl ∈ definedPieces f.steps, vl.1 ≤ M) :
    (ecdf f).sample M = some 1 ∧ ecdfSampleInherit f M ≠ some 1 := by
  have hne : definedPieces f.steps ≠ [] := fun h => by rw [h] at hM; cases hM
  refine ⟨by rw [ecdf_sample]; exact (ecdf_right_eq_one_iff f hf hne M).mpr hmax, fun h => ?_⟩
  rw [ecdfSampleInherit_eq, hc] at h
  exact absurd ((ecdf_left_eq_one_iff f hf hne M).mp h (M, len) hM) (lt_irrefl _)

/-- `h₀` re-closed on the right: `1` on `(0,1]`, `3` on `(1,4]` -/
def hR : Stairs Rat := ⟨none, [(0, some 1), (1, some 3), (4, none)], .right⟩

/-- **refuted on a right-closed witness at the attained values `1` and `3`** -/
theorem ecdfSampleInherit_refuted :
    hR.Canonical ∧ hR.closed = .right ∧ (ecdf hR).closed = .left ∧
    (ecdf hR).sample 1 = some (1/4) ∧ ecdfSampleInherit hR 1 = some 0 ∧
    (ecdf hR).sample 3 = some 1 ∧ ecdfSampleInherit hR 3 = some (1/4) ∧
    (ecdf hR).sample 2 = some (1/4) ∧ ecdfSampleInherit hR 2 = some (1/4) ∧
    lengthWhere hR (fun v => v ≤ 1) / definedLength hR = 1/4 ∧ ecdf hR = ecdf h₀ := by decide +kernel

theorem ecdfSampleInherit_refuted' : ¬ ∀ (f : Stairs Rat) (y : Rat), f.WF → ecdfSampleInherit f y = (ecdf f).sample y := by
  intro h
  have := h hR 1 (by decide +kernel)
  revert this; decide +kernel

example : ¬ ∃ len, ((2 : Rat), len) ∈ definedPieces hR.steps :=
  (shareAt_eq_zero_iff hR (by decide +kernel) 2).mp (by decide +kernel)
example : (ecdf hR).sample 3 = some 1 ∧ ecdfSampleInherit hR 3 ≠ some 1 :=
  ecdfSampleInherit_max hR (by decide +kernel) rfl 3 3 (by decide +kernel) (by decide +kernel)

end SC.Props.C09c
