import SCModel.Props.C08
/-!
# C09 — the value distribution: ecdf, percentiles / fractiles / quantiles / median, mode, hist

Everything is over the finite defined pieces, through `valueSums` (C08) and
`shares f` = `(value, value_sums[value] / total defined length)`, sorted by value.
-/
set_option linter.unusedSectionVars false
set_option linter.unusedVariables false
namespace SC.Props.C09
open SC SC.Stairs SC.Props.C08

/-! ## 0. shares -/

/-- total length of the defined pieces whose value satisfies `P` -/
def lengthWhere (f : Stairs Rat) (P : Rat → Bool) : Rat :=
  sumBy (·.2) ((definedPieces f.steps).filter fun vl => P vl.1)

/-- the shares of the values satisfying `P` add up to the fraction of the defined length on which
`P (f x)` holds -/
theorem shares_where (f : Stairs Rat) (P : Rat → Bool) :
    sumBy (·.2) ((shares f).filter fun vs => P vs.1) = lengthWhere f P / definedLength f := by
  unfold lengthWhere
  rw [sumBy_filter, sumBy_filter]
  have h1 : sumBy (fun a : Rat × Rat => if P a.1 then a.2 else 0) (shares f)
      = sumBy (fun vs => vs.2 * (fun v => if P v then (1 : Rat) else 0) vs.1) (shares f) := by
    apply sumBy_congr; intro a _; by_cases h : P a.1 <;> simp [h]
  have h2 : sumBy (fun a : Rat × Rat => if P a.1 then a.2 else 0) (definedPieces f.steps)
      = sumBy (fun vl => (fun v => if P v then (1 : Rat) else 0) vl.1 * vl.2) (definedPieces f.steps) := by
    apply sumBy_congr; intro a _; by_cases h : P a.1 <;> simp [h]
  rw [h1, h2]; exact sumBy_shares f (fun v => if P v then 1 else 0)

theorem shares_sorted (f : Stairs Rat) : ((shares f).map Prod.fst).Pairwise (· < ·) := ksorted_shares f

theorem shares_pos (f : Stairs Rat) (hf : f.WF) (e : Rat × Rat) (he : e ∈ shares f) : 0 < e.2 := by
  rw [shares_spec] at he
  obtain ⟨vl, hvl, rfl⟩ := List.mem_map.mp he
  have hne : definedPieces f.steps ≠ [] := by
    intro h
    rw [(valueSums_eq_nil_iff f).mpr h] at hvl; simp at hvl
  exact div_pos (valueSums_positive f hf vl hvl) (definedLength_pos f hf hne)

/-! ## 1. ecdf -/

/-- **ecdf(y) is the fraction of the defined length on which `f ≤ y`** (as shares, and over the pieces) -/
theorem ecdf_right (f : Stairs Rat) (y : Rat) :
    (ecdf f).limit .right y = some (sumBy (·.2) ((shares f).filter fun vs => vs.1 ≤ y)) := by
  show lim false (some 0) ((cumsum 0 (shares f)).map fun vc => (vc.1, some vc.2)) y = _
  rw [lim_cumsum false 0 _ (ksorted_shares f), zero_add]
  congr 2
  apply List.filter_congr
  intro a _
  rw [Bool.eq_iff_iff, reached_right_iff]; simp

/-- **its left limit is the fraction on which `f < y`** -/
theorem ecdf_left (f : Stairs Rat) (y : Rat) :
    (ecdf f).limit .left y = some (sumBy (·.2) ((shares f).filter fun vs => vs.1 < y)) := by
  show lim true (some 0) ((cumsum 0 (shares f)).map fun vc => (vc.1, some vc.2)) y = _
  rw [lim_cumsum true 0 _ (ksorted_shares f), zero_add]
  rfl

theorem ecdf_right_pieces (f : Stairs Rat) (y : Rat) :
    (ecdf f).limit .right y = some (lengthWhere f (fun v => v ≤ y) / definedLength f) := by
  rw [ecdf_right, ← shares_where f (fun v => v ≤ y)]

theorem ecdf_left_pieces (f : Stairs Rat) (y : Rat) :
    (ecdf f).limit .left y = some (lengthWhere f (fun v => v < y) / definedLength f) := by
  rw [ecdf_left, ← shares_where f (fun v => v < y)]

/-- the cumulative share stored with a value is the ecdf at that value: the rows `(v, c)` that the
percentile function is built from are the points `(v, ecdf v)` -/
theorem cum_eq_ecdf (f : Stairs Rat) (v c : Rat) (h : (v, c) ∈ cumsum 0 (shares f)) :
    (ecdf f).limit .right v = some c := by
  show lim false (some 0) ((cumsum 0 (shares f)).map fun vc => (vc.1, some vc.2)) v = _
  apply lim_at_key
  · unfold Sorted
    rw [List.map_map]
    have : (Prod.fst ∘ fun vc : Rat × Rat => (vc.1, some vc.2)) = Prod.fst := rfl
    rw [this, cumsum_keys]
    exact ksorted_shares f
  · exact List.mem_map.mpr ⟨(v, c), h, rfl⟩

/-- the ecdf is left-closed, i.e. `ecdf(y)` itself is the right limit -/
theorem ecdf_sample (f : Stairs Rat) (y : Rat) : (ecdf f).sample y = (ecdf f).limit .right y := rfl

/-- the ecdf reaches 1 from the largest value on (when there is defined length) -/
theorem ecdf_top (f : Stairs Rat) (h : definedLength f ≠ 0) (y : Rat)
    (hy : ∀ vl ∈ definedPieces f.steps, vl.1 ≤ y) : (ecdf f).limit .right y = some 1 := by
  rw [ecdf_right_pieces]
  have : lengthWhere f (fun v => v ≤ y) = definedLength f := by
    unfold lengthWhere definedLength
    rw [List.filter_eq_self.mpr]
    intro a ha; simpa using hy a ha
  rw [this, div_self h]

/-- and is 0 below the smallest value -/
theorem ecdf_bottom (f : Stairs Rat) (y : Rat)
    (hy : ∀ vl ∈ definedPieces f.steps, y < vl.1) : (ecdf f).limit .right y = some 0 := by
  rw [ecdf_right_pieces]
  have : lengthWhere f (fun v => v ≤ y) = 0 := by
    unfold lengthWhere
    rw [List.filter_eq_nil_iff.mpr]; rfl
    intro a ha; simpa using hy a ha
  rw [this, zero_div]


/-! ## 2. percentile / fractile / median / quantiles

`xtiles scale f` is the step function with rows `0 ↦ v₁, c₁·scale ↦ v₂, …, c_{k-1}·scale ↦ v_k, c_k·scale ↦ v_k`
(initial value `v₁`) where `c_i` are the cumulative shares; `percentile` samples `xtiles 100`, `fractile`
samples `xtiles 1`, each as the mean of the two one-sided limits.

* the **left limit** at `x` is the *lower* quantile: the first value `v_i` with `x ≤ c_i·scale`
* the **right limit** at `x` is the *upper* quantile: the first value `v_i` with `x < c_i·scale`
(the largest value if there is no such `i`): this is `firstUnreached`. -/

theorem median_eq (f : Stairs Rat) : median f = percentile f 50 := rfl

theorem quantiles_eq (f : Stairs Rat) (q : Nat) :
    quantiles f q = (List.range (q - 1)).map fun i => fractile f (((i + 1 : Nat) : Rat) / (q : Rat)) := rfl

theorem quantiles_length (f : Stairs Rat) (q : Nat) : (quantiles f q).length = q - 1 := by
  simp [quantiles]

/-- **percentile(p) = fractile(p/100)**, in the form `fractile p = percentile (100 p)` -/
theorem fractile_eq_percentile (f : Stairs Rat) (p : Rat) : fractile f p = percentile f (100 * p) := by
  unfold fractile percentile xtiles
  generalize cumsum 0 (shares f) = cs
  cases cs with
  | nil => rfl
  | cons a r =>
    obtain ⟨v, c⟩ := a
    have hrows : xtileRows 100 0 ((v, c) :: r) = (xtileRows 1 0 ((v, c) :: r)).map fun pv => (100 * pv.1, pv.2) := by
      have := xtileRows_scale 100 1 0 ((v, c) :: r)
      rwa [mul_one, mul_zero] at this
    show xtileSample _ p = xtileSample _ (100 * p)
    unfold xtileSample
    rw [limit_left, limit_right, limit_left, limit_right]
    unfold Den
    dsimp only
    rw [hrows, lim_scale true 100 (by decide +kernel), lim_scale false 100 (by decide +kernel)]

theorem percentile_eq_fractile (f : Stairs Rat) (p : Rat) : percentile f p = fractile f (p / 100) := by
  rw [fractile_eq_percentile]; congr 1; ring

/-- lower / upper quantile in plain order terms -/
theorem lowerQuantile_cons (scale x d v c : Rat) (r : List (Rat × Rat)) :
    firstUnreached true scale x d ((v, c) :: r) = if x ≤ c * scale then v else firstUnreached true scale x v r := by
  rw [show firstUnreached true scale x d ((v, c) :: r)
    = (if reached true (c * scale) x then firstUnreached true scale x v r else v) from rfl]
  by_cases h : x ≤ c * scale
  · rw [if_pos h, if_neg]; rw [reached_left_iff]; exact not_lt.mpr h
  · rw [if_neg h, if_pos]; rw [reached_left_iff]; exact not_le.mp h

theorem upperQuantile_cons (scale x d v c : Rat) (r : List (Rat × Rat)) :
    firstUnreached false scale x d ((v, c) :: r) = if x < c * scale then v else firstUnreached false scale x v r := by
  rw [show firstUnreached false scale x d ((v, c) :: r)
    = (if reached false (c * scale) x then firstUnreached false scale x v r else v) from rfl]
  by_cases h : x < c * scale
  · rw [if_pos h, if_neg]; rw [reached_right_iff]; exact not_le.mpr h
  · rw [if_neg h, if_pos]; rw [reached_right_iff]; exact not_lt.mp h

theorem cum_pos (f : Stairs Rat) (hf : f.WF) (e : Rat × Rat) (he : e ∈ cumsum 0 (shares f)) : 0 < e.2 :=
  cumsum_gt 0 _ (shares_pos f hf) e he

/-- **both one-sided limits of the xtile function are the lower / upper quantile** -/
theorem xtiles_limit (f : Stairs Rat) (hf : f.WF) (scale : Rat) (hs : 0 < scale) (T : Stairs Rat)
    (hT : xtiles scale f = some T) (side : Side) (x : Rat) :
    T.limit side x = some (firstUnreached (side == .left) scale x 0 (cumsum 0 (shares f))) := by
  have hpos := cum_pos f hf
  unfold xtiles at hT
  generalize cumsum 0 (shares f) = cs at hT hpos
  cases cs with
  | nil => simp at hT
  | cons a r =>
    obtain ⟨v, c⟩ := a
    simp only [Option.some.injEq] at hT
    subst hT
    show lim (side == .left) (some v) (xtileRows scale 0 ((v, c) :: r)) x = _
    rw [lim_xtileRows _ _ _ _ _ _ _ 0]
    cases hr : reached (side == .left) 0 x
    · have hc : reached (side == .left) (c * scale) x = false := by
        have h0 : 0 < c * scale := mul_pos (hpos (v, c) (by simp)) hs
        cases hh : reached (side == .left) (c * scale) x
        · rfl
        · have := reached_mono h0 hh; rw [hr] at this; exact absurd this (by simp)
      simp [firstUnreached, hc]
    · rfl

theorem xtiles_isSome (f : Stairs Rat) (scale : Rat) (h : shares f ≠ []) : ∃ T, xtiles scale f = some T := by
  unfold xtiles
  cases hsh : shares f with
  | nil => exact absurd hsh h
  | cons a r => obtain ⟨v, s⟩ := a; rw [cumsum_cons]; exact ⟨_, rfl⟩

theorem xtiles_none (f : Stairs Rat) (scale : Rat) (h : shares f = []) : xtiles scale f = none := by
  unfold xtiles; rw [h]; rfl

/-- percentile is the midpoint of the lower and the upper quantile -/
theorem percentile_eq_midpoint (f : Stairs Rat) (hf : f.WF) (h : shares f ≠ []) (p : Rat) :
    percentile f p = some ((firstUnreached true 100 p 0 (cumsum 0 (shares f))
                            + firstUnreached false 100 p 0 (cumsum 0 (shares f))) / 2) := by
  obtain ⟨T, hT⟩ := xtiles_isSome f 100 h
  have hl := xtiles_limit f hf 100 (by decide +kernel) T hT .left p
  have hr := xtiles_limit f hf 100 (by decide +kernel) T hT .right p
  unfold percentile
  rw [hT, Option.bind_some]
  unfold xtileSample
  rw [hl, hr]; rfl

theorem fractile_eq_midpoint (f : Stairs Rat) (hf : f.WF) (h : shares f ≠ []) (p : Rat) :
    fractile f p = some ((firstUnreached true 1 p 0 (cumsum 0 (shares f))
                            + firstUnreached false 1 p 0 (cumsum 0 (shares f))) / 2) := by
  obtain ⟨T, hT⟩ := xtiles_isSome f 1 h
  have hl := xtiles_limit f hf 1 (by decide +kernel) T hT .left p
  have hr := xtiles_limit f hf 1 (by decide +kernel) T hT .right p
  unfold fractile
  rw [hT, Option.bind_some]
  unfold xtileSample
  rw [hl, hr]; rfl

/-- without defined length there are no percentiles -/
theorem percentile_none (f : Stairs Rat) (h : shares f = []) (p : Rat) : percentile f p = none := by
  unfold percentile; rw [xtiles_none f 100 h]; rfl

/-! ### the quantiles, in terms of a decomposition `shares f = S₁ ++ (v, s) :: S₂`
with `lo = Σ S₁` the cumulative share below `v` and `lo + s` the cumulative share through `v` -/

private theorem sub_nonneg_shares (f : Stairs Rat) (hf : f.WF) (S₁ S₂ : List (Rat × Rat)) (h : shares f = S₁ ++ S₂) :
    (∀ e ∈ S₁, 0 ≤ e.2) ∧ (∀ e ∈ S₂, 0 < e.2) :=
  ⟨fun e he => le_of_lt (shares_pos f hf e (by rw [h]; simp [he])),
   fun e he => shares_pos f hf e (by rw [h]; simp [he])⟩

/-- strictly between the cumulative boundaries both quantiles are `v` -/
theorem quantile_interior (f : Stairs Rat) (hf : f.WF) (scale : Rat) (hs : 0 < scale) (st : Bool) (d : Rat)
    (S₁ S₂ : List (Rat × Rat)) (v s : Rat) (hsh : shares f = S₁ ++ (v, s) :: S₂) (x : Rat)
    (h1 : sumBy (·.2) S₁ * scale < x) (h2 : x < (sumBy (·.2) S₁ + s) * scale) :
    firstUnreached st scale x d (cumsum 0 (shares f)) = v := by
  have hp := sub_nonneg_shares f hf S₁ _ hsh
  rw [hsh, cumsum_append, cumsum_cons]
  apply firstUnreached_append
  · intro e he
    have := cumsum_le 0 S₁ hp.1 e he
    apply reached_of_lt
    have : e.2 * scale ≤ sumBy (·.2) S₁ * scale := mul_le_mul_of_nonneg_right (by linarith) (le_of_lt hs)
    linarith
  · apply not_reached_of_lt
    rw [zero_add]; exact h2

/-- below the first boundary both quantiles are the smallest value -/
theorem quantile_first (f : Stairs Rat) (hf : f.WF) (scale : Rat) (st : Bool) (d : Rat)
    (S₂ : List (Rat × Rat)) (v s : Rat) (hsh : shares f = (v, s) :: S₂) (x : Rat) (h2 : x < s * scale) :
    firstUnreached st scale x d (cumsum 0 (shares f)) = v := by
  rw [hsh, cumsum_cons]
  apply firstUnreached_append st scale x d v (0 + s) [] _ (by simp)
  apply not_reached_of_lt; rw [zero_add]; exact h2

/-- at a boundary the lower quantile is still `v` … -/
theorem quantile_boundary_lower (f : Stairs Rat) (hf : f.WF) (scale : Rat) (hs : 0 < scale) (d : Rat)
    (S₁ S₂ : List (Rat × Rat)) (v s : Rat) (hsh : shares f = S₁ ++ (v, s) :: S₂) :
    firstUnreached true scale ((sumBy (·.2) S₁ + s) * scale) d (cumsum 0 (shares f)) = v := by
  have hp := sub_nonneg_shares f hf S₁ _ hsh
  have hspos : 0 < s := hp.2 (v, s) (by simp)
  rw [hsh, cumsum_append, cumsum_cons]
  apply firstUnreached_append
  · intro e he
    have := cumsum_le 0 S₁ hp.1 e he
    apply reached_of_lt
    have h1 : e.2 * scale ≤ sumBy (·.2) S₁ * scale := mul_le_mul_of_nonneg_right (by linarith) (le_of_lt hs)
    have h2 : sumBy (·.2) S₁ * scale < (sumBy (·.2) S₁ + s) * scale := mul_lt_mul_of_pos_right (by linarith) hs
    linarith
  · rw [zero_add, Bool.eq_false_iff, Ne, reached_left_iff]; exact lt_irrefl _

/-- … and the upper quantile is the next value `v'` -/
theorem quantile_boundary_upper (f : Stairs Rat) (hf : f.WF) (scale : Rat) (hs : 0 < scale) (d : Rat)
    (S₁ S₂ : List (Rat × Rat)) (v s v' s' : Rat) (hsh : shares f = S₁ ++ (v, s) :: (v', s') :: S₂) :
    firstUnreached false scale ((sumBy (·.2) S₁ + s) * scale) d (cumsum 0 (shares f)) = v' := by
  have hsh' : shares f = (S₁ ++ [(v, s)]) ++ (v', s') :: S₂ := by rw [hsh]; simp
  have hp := sub_nonneg_shares f hf _ _ hsh'
  have hspos : 0 < s' := hp.2 (v', s') (by simp)
  have hsum : sumBy (·.2) (S₁ ++ [(v, s)]) = sumBy (·.2) S₁ + s := by simp [sumBy_append]
  rw [hsh', cumsum_append, cumsum_cons]
  apply firstUnreached_append
  · intro e he
    have := cumsum_le 0 _ hp.1 e he
    rw [hsum] at this
    rw [reached_right_iff]
    exact mul_le_mul_of_nonneg_right (by linarith) (le_of_lt hs)
  · apply not_reached_of_lt
    rw [hsum, zero_add]
    exact mul_lt_mul_of_pos_right (by linarith) hs

/-- from the last boundary on the upper quantile is the largest value -/
theorem quantile_top_upper (f : Stairs Rat) (hf : f.WF) (scale : Rat) (hs : 0 < scale) (d : Rat)
    (S₁ : List (Rat × Rat)) (v s : Rat) (hsh : shares f = S₁ ++ [(v, s)]) (x : Rat)
    (hx : (sumBy (·.2) S₁ + s) * scale ≤ x) :
    firstUnreached false scale x d (cumsum 0 (shares f)) = v := by
  have hp := sub_nonneg_shares f hf (S₁ ++ [(v, s)]) [] (by rw [hsh]; simp)
  have hsum : sumBy (·.2) (S₁ ++ [(v, s)]) = sumBy (·.2) S₁ + s := by simp [sumBy_append]
  have hc : cumsum 0 (S₁ ++ [(v, s)]) = cumsum 0 S₁ ++ [(v, 0 + sumBy (·.2) S₁ + s)] := by
    rw [cumsum_append, cumsum_cons, cumsum_nil]
  rw [hsh, hc]
  apply firstUnreached_all
  intro e he
  rw [← hc] at he
  have := cumsum_le 0 _ hp.1 e he
  rw [hsum] at this
  rw [reached_right_iff]
  have h1 : e.2 * scale ≤ (sumBy (·.2) S₁ + s) * scale := mul_le_mul_of_nonneg_right (by linarith) (le_of_lt hs)
  linarith

/-! ### percentile statements -/

/-- **strictly between two cumulative boundaries the percentile is the value `v`** -/
theorem percentile_interior (f : Stairs Rat) (hf : f.WF) (S₁ S₂ : List (Rat × Rat)) (v s : Rat)
    (hsh : shares f = S₁ ++ (v, s) :: S₂) (p : Rat)
    (h1 : sumBy (·.2) S₁ * 100 < p) (h2 : p < (sumBy (·.2) S₁ + s) * 100) : percentile f p = some v := by
  rw [percentile_eq_midpoint f hf (by rw [hsh]; simp),
    quantile_interior f hf 100 (by decide +kernel) true 0 S₁ S₂ v s hsh p h1 h2,
    quantile_interior f hf 100 (by decide +kernel) false 0 S₁ S₂ v s hsh p h1 h2]
  congr 1; ring

/-- **exactly at an interior boundary it is the midpoint of the two neighbouring values** -/
theorem percentile_boundary (f : Stairs Rat) (hf : f.WF) (S₁ S₂ : List (Rat × Rat)) (v s v' s' : Rat)
    (hsh : shares f = S₁ ++ (v, s) :: (v', s') :: S₂) :
    percentile f ((sumBy (·.2) S₁ + s) * 100) = some ((v + v') / 2) := by
  rw [percentile_eq_midpoint f hf (by rw [hsh]; simp),
    quantile_boundary_lower f hf 100 (by decide +kernel) 0 S₁ _ v s hsh,
    quantile_boundary_upper f hf 100 (by decide +kernel) 0 S₁ S₂ v s v' s' hsh]

/-- **percentile(0) is the minimum** (the first, i.e. smallest, value of `value_sums`); the same for any
`p` below the first boundary -/
theorem percentile_low (f : Stairs Rat) (hf : f.WF) (S₂ : List (Rat × Rat)) (v s : Rat)
    (hsh : shares f = (v, s) :: S₂) (p : Rat) (hp : p < s * 100) : percentile f p = some v := by
  rw [percentile_eq_midpoint f hf (by rw [hsh]; simp),
    quantile_first f hf 100 true 0 S₂ v s hsh p hp, quantile_first f hf 100 false 0 S₂ v s hsh p hp]
  congr 1; ring

theorem percentile_zero (f : Stairs Rat) (hf : f.WF) (S₂ : List (Rat × Rat)) (v s : Rat)
    (hsh : shares f = (v, s) :: S₂) : percentile f 0 = some v := by
  apply percentile_low f hf S₂ v s hsh
  have := shares_pos f hf (v, s) (by rw [hsh]; simp)
  exact mul_pos this (by decide +kernel)

/-- **percentile(100) is the maximum** (the last, i.e. largest, value of `value_sums`) -/
theorem percentile_hundred (f : Stairs Rat) (hf : f.WF) (S₁ : List (Rat × Rat)) (v s : Rat)
    (hsh : shares f = S₁ ++ [(v, s)]) : percentile f 100 = some v := by
  have hne : shares f ≠ [] := by rw [hsh]; simp
  have hD : definedLength f ≠ 0 := by
    intro h0
    apply hne
    have : definedPieces f.steps = [] := by
      by_contra hc
      exact absurd h0 (ne_of_gt (definedLength_pos f hf hc))
    rw [shares_spec, (valueSums_eq_nil_iff f).mpr this]; rfl
  have hone : sumBy (·.2) S₁ + s = 1 := by
    have := shares_sum_one f hD
    rw [hsh, sumBy_append] at this
    simpa using this
  have hb : (100 : Rat) = (sumBy (·.2) S₁ + s) * 100 := by rw [hone]; ring
  rw [percentile_eq_midpoint f hf hne]
  have hl := quantile_boundary_lower f hf 100 (by decide +kernel) 0 S₁ [] v s hsh
  have hu := quantile_top_upper f hf 100 (by decide +kernel) 0 S₁ v s hsh 100 (le_of_eq hb.symm)
  rw [← hb] at hl
  rw [hl, hu]
  congr 1; ring


/-- percentile(0) is the minimum of the values taken on defined finite pieces -/
theorem percentile_zero_is_min (f : Stairs Rat) (hf : f.WF) (hne : definedPieces f.steps ≠ []) :
    ∃ m, percentile f 0 = some m ∧ (∃ len, (m, len) ∈ definedPieces f.steps) ∧
      ∀ vl ∈ definedPieces f.steps, m ≤ vl.1 := by
  cases hsh : shares f with
  | nil =>
    have : valueSums f = [] := by
      have := congrArg (List.map Prod.fst) hsh
      rw [shares_keys] at this; simpa using this
    exact absurd ((valueSums_eq_nil_iff f).mp this) hne
  | cons a S₂ =>
    obtain ⟨v, s⟩ := a
    have hk : (valueSums f).map Prod.fst = v :: S₂.map Prod.fst := by rw [← shares_keys, hsh]; rfl
    refine ⟨v, percentile_zero f hf S₂ v s hsh, (valueSums_keys f v).mp (by rw [hk]; simp), ?_⟩
    intro vl hvl
    have hmem : vl.1 ∈ (valueSums f).map Prod.fst := (valueSums_keys f vl.1).mpr ⟨vl.2, hvl⟩
    have hs := valueSums_sorted f
    rw [hk] at hmem hs
    rcases List.mem_cons.mp hmem with h | h
    · exact le_of_eq h.symm
    · exact le_of_lt ((List.pairwise_cons.mp hs).1 _ h)

/-- percentile(100) is the maximum of the values taken on defined finite pieces -/
theorem percentile_hundred_is_max (f : Stairs Rat) (hf : f.WF) (hne : definedPieces f.steps ≠ []) :
    ∃ m, percentile f 100 = some m ∧ (∃ len, (m, len) ∈ definedPieces f.steps) ∧
      ∀ vl ∈ definedPieces f.steps, vl.1 ≤ m := by
  rcases List.eq_nil_or_concat (shares f) with hsh | ⟨S₁, a, hsh⟩
  · have : valueSums f = [] := by
      have := congrArg (List.map Prod.fst) hsh
      rw [shares_keys] at this; simpa using this
    exact absurd ((valueSums_eq_nil_iff f).mp this) hne
  · obtain ⟨v, s⟩ := a
    rw [List.concat_eq_append] at hsh
    have hk : (valueSums f).map Prod.fst = S₁.map Prod.fst ++ [v] := by rw [← shares_keys, hsh]; simp
    refine ⟨v, percentile_hundred f hf S₁ v s hsh, (valueSums_keys f v).mp (by rw [hk]; simp), ?_⟩
    intro vl hvl
    have hmem : vl.1 ∈ (valueSums f).map Prod.fst := (valueSums_keys f vl.1).mpr ⟨vl.2, hvl⟩
    have hs := valueSums_sorted f
    rw [hk] at hmem hs
    rcases List.mem_append.mp hmem with h | h
    · exact le_of_lt ((List.pairwise_append.mp hs).2.2 _ h v (by simp))
    · simp at h; exact le_of_eq h

/-! ## 3. mode -/

/-- **`modes f` is exactly the set of values of maximal total length** -/
theorem mem_modes_iff (f : Stairs Rat) (v : Rat) :
    v ∈ modes f ↔ ∃ l, (v, l) ∈ valueSums f ∧ ∀ wl ∈ valueSums f, wl.2 ≤ l := by
  cases hvs : valueSums f with
  | nil => rw [modes_nil f hvs]; simp
  | cons a r =>
    rw [modes_eq f a r hvs]
    have hle := le_maxLen a.2 r
    have hall : ∀ wl ∈ a :: r, wl.2 ≤ maxLen a.2 r := by
      intro wl hwl
      rcases List.mem_cons.mp hwl with h | h
      · rw [h]; exact hle.1
      · exact hle.2 wl h
    constructor
    · intro h
      obtain ⟨vl, hvl, rfl⟩ := List.mem_map.mp h
      obtain ⟨hm, hM⟩ := List.mem_filter.mp hvl
      have hM' : vl.2 = maxLen a.2 r := by simpa using hM
      exact ⟨vl.2, hm, fun wl hwl => by rw [hM']; exact hall wl hwl⟩
    · rintro ⟨l, hm, hmax⟩
      have hl : l = maxLen a.2 r := by
        apply le_antisymm (hall (v, l) hm)
        rcases maxLen_attained a.2 r with h | ⟨vl, hvl, h⟩
        · rw [h]; exact hmax a (by simp)
        · rw [← h]; exact hmax vl (by simp [hvl])
      exact List.mem_map.mpr ⟨(v, l), List.mem_filter.mpr ⟨hm, by simpa using hl⟩, rfl⟩

theorem modes_sorted (f : Stairs Rat) : (modes f).Pairwise (· < ·) := by
  cases hvs : valueSums f with
  | nil => rw [modes_nil f hvs]; exact List.Pairwise.nil
  | cons a r =>
    rw [modes_eq f a r hvs]
    have hs := valueSums_sorted f
    rw [hvs] at hs
    exact hs.sublist (List.filter_sublist.map Prod.fst)

/-- **mode is a value of maximal total length** (the smallest such, like `idxmax`) -/
theorem mode_spec (f : Stairs Rat) (v : Rat) (h : mode f = some v) :
    (∃ l, (v, l) ∈ valueSums f ∧ ∀ wl ∈ valueSums f, wl.2 ≤ l) ∧ ∀ w ∈ modes f, v ≤ w := by
  unfold mode at h
  cases hm : modes f with
  | nil => rw [hm] at h; simp at h
  | cons a t =>
    rw [hm] at h
    simp only [List.head?_cons, Option.some.injEq] at h
    subst h
    refine ⟨(mem_modes_iff f a).mp (by rw [hm]; simp), ?_⟩
    intro w hw
    have hs := modes_sorted f
    rw [hm] at hs
    rcases List.mem_cons.mp hw with h | h
    · exact le_of_eq h.symm
    · exact le_of_lt ((List.pairwise_cons.mp hs).1 w h)

theorem mode_mem_values (f : Stairs Rat) (v : Rat) (h : mode f = some v) : v ∈ (valueSums f).map (·.1) := by
  obtain ⟨⟨l, hl, _⟩, _⟩ := mode_spec f v h
  exact List.mem_map.mpr ⟨(v, l), hl, rfl⟩

/-- there is a mode as soon as there is a defined finite piece -/
theorem mode_isSome (f : Stairs Rat) (h : valueSums f ≠ []) : ∃ v, mode f = some v := by
  cases hvs : valueSums f with
  | nil => exact absurd hvs h
  | cons a r =>
    have : ∃ v, v ∈ modes f := by
      rcases maxLen_attained a.2 r with hM | ⟨vl, hvl, hM⟩
      · refine ⟨a.1, (mem_modes_iff f a.1).mpr ⟨a.2, by rw [hvs]; simp, ?_⟩⟩
        intro wl hwl
        rw [hvs] at hwl
        rw [← hM]
        rcases List.mem_cons.mp hwl with h' | h'
        · rw [h']; exact (le_maxLen a.2 r).1
        · exact (le_maxLen a.2 r).2 wl h'
      · refine ⟨vl.1, (mem_modes_iff f vl.1).mpr ⟨vl.2, by rw [hvs]; simp [hvl], ?_⟩⟩
        intro wl hwl
        rw [hvs] at hwl
        rw [hM]
        rcases List.mem_cons.mp hwl with h' | h'
        · rw [h']; exact (le_maxLen a.2 r).1
        · exact (le_maxLen a.2 r).2 wl h'
    obtain ⟨v, hv⟩ := this
    unfold mode
    cases hm : modes f with
    | nil => rw [hm] at hv; simp at hv
    | cons b t => exact ⟨b, rfl⟩

theorem mode_none (f : Stairs Rat) (h : valueSums f = []) : mode f = none := by
  unfold mode; rw [modes_nil f h]; rfl


/-! ## 4. hist -/

/-- the limit of the ecdf on the bins' closed side: `closed = left` uses left limits (`f < y`),
`closed = right` right limits (`f ≤ y`) -/
def cdfAt (f : Stairs Rat) (closed : Side) (y : Rat) : Rat :=
  match closed with
  | .left => sumBy (·.2) ((shares f).filter fun vs => vs.1 < y)
  | .right => sumBy (·.2) ((shares f).filter fun vs => vs.1 ≤ y)

theorem ecdf_limit (f : Stairs Rat) (closed : Side) (y : Rat) : (ecdf f).limit closed y = some (cdfAt f closed y) := by
  cases closed
  · exact ecdf_left f y
  · exact ecdf_right f y

/-- membership of a value in a bin `(l, r)` with the given closed side: `[l, r)` or `(l, r]` -/
def inBin (closed : Side) (lr : Rat × Rat) (v : Rat) : Bool :=
  match closed with
  | .left => decide (lr.1 ≤ v) && decide (v < lr.2)
  | .right => decide (lr.1 < v) && decide (v ≤ lr.2)

/-- fraction of the defined length on which the value falls in the bin -/
def binShare (f : Stairs Rat) (closed : Side) (lr : Rat × Rat) : Rat :=
  sumBy (·.2) ((shares f).filter fun vs => inBin closed lr vs.1)

/-- total length of the defined pieces whose value falls in the bin -/
def binLength (f : Stairs Rat) (closed : Side) (lr : Rat × Rat) : Rat := lengthWhere f (inBin closed lr)

theorem binShare_eq (f : Stairs Rat) (closed : Side) (lr : Rat × Rat) :
    binShare f closed lr = binLength f closed lr / definedLength f := shares_where f (inBin closed lr)

theorem binShare_mul (f : Stairs Rat) (h : definedLength f ≠ 0) (closed : Side) (lr : Rat × Rat) :
    binShare f closed lr * definedLength f = binLength f closed lr := by
  rw [binShare_eq]; field_simp

/-- for an ordered bin the ecdf-limit difference is the share of the values in the bin -/
theorem cdf_diff (f : Stairs Rat) (closed : Side) (lr : Rat × Rat) (h : lr.1 ≤ lr.2) :
    cdfAt f closed lr.2 - cdfAt f closed lr.1 = binShare f closed lr := by
  unfold cdfAt binShare
  cases closed
  · simp only [sumBy_filter]
    rw [← sumBy_sub]
    apply sumBy_congr
    intro a _
    by_cases h1 : a.1 < lr.1
    · have h2 : a.1 < lr.2 := lt_of_lt_of_le h1 h
      simp [inBin, h1, h2, not_le.mpr h1]
    · by_cases h2 : a.1 < lr.2
      · simp [inBin, h1, h2, not_lt.mp h1]
      · simp [inBin, h1, h2]
  · simp only [sumBy_filter]
    rw [← sumBy_sub]
    apply sumBy_congr
    intro a _
    by_cases h1 : a.1 ≤ lr.1
    · have h2 : a.1 ≤ lr.2 := le_trans h1 h
      simp [inBin, h1, h2, not_lt.mpr h1]
    · by_cases h2 : a.1 ≤ lr.2
      · simp [inBin, h1, h2, not_le.mp h1]
      · simp [inBin, h1, h2]

/-- `hist` in closed form, for arbitrary bins: every entry is built from the ecdf-limit difference
`raw = ecdf(r) − ecdf(l)` (limits on the bins' closed side) and the total defined length -/
theorem hist_unfold (f : Stairs Rat) (bins : List (Rat × Rat)) (closed : Side) (stat : HistStat) :
    hist f bins closed stat =
      match stat with
      | .probability => bins.map fun lr => some (cdfAt f closed lr.2 - cdfAt f closed lr.1)
      | .sum => bins.map fun lr => some ((cdfAt f closed lr.2 - cdfAt f closed lr.1) * definedLength f)
      | .frequency => bins.map fun lr =>
          vdiv (some ((cdfAt f closed lr.2 - cdfAt f closed lr.1) * definedLength f)) (some (lr.2 - lr.1))
      | .density => bins.map fun lr =>
          vdiv (some ((cdfAt f closed lr.2 - cdfAt f closed lr.1) * definedLength f))
            (some (sumBy (fun lr => (cdfAt f closed lr.2 - cdfAt f closed lr.1) * definedLength f * (lr.2 - lr.1)) bins)) := by
  unfold hist
  simp only [ecdf_limit, valueSums_total]
  cases stat
  · simp only [List.map_map]; rfl
  · simp only [zip_map_self, List.map_map]; rfl
  · simp only [List.map_map, zip_map_self]
    rfl
  · simp only [List.map_map]; rfl

/-- **probability**: the share of the defined length on which the value falls in the bin -/
theorem hist_probability (f : Stairs Rat) (bins : List (Rat × Rat)) (closed : Side)
    (hb : ∀ lr ∈ bins, lr.1 ≤ lr.2) :
    hist f bins closed .probability = bins.map fun lr => some (binShare f closed lr) := by
  rw [hist_unfold]
  apply List.map_congr_left
  intro lr hlr
  rw [cdf_diff f closed lr (hb lr hlr)]

/-- **sum**: the total length of the defined pieces whose value falls in the bin -/
theorem hist_sum (f : Stairs Rat) (bins : List (Rat × Rat)) (closed : Side)
    (hb : ∀ lr ∈ bins, lr.1 ≤ lr.2) (hD : definedLength f ≠ 0) :
    hist f bins closed .sum = bins.map fun lr => some (binLength f closed lr) := by
  rw [hist_unfold]
  apply List.map_congr_left
  intro lr hlr
  rw [cdf_diff f closed lr (hb lr hlr), binShare_mul f hD]

/-- **frequency**: that length divided by the bin width (undefined for an empty-width bin) -/
theorem hist_frequency (f : Stairs Rat) (bins : List (Rat × Rat)) (closed : Side)
    (hb : ∀ lr ∈ bins, lr.1 ≤ lr.2) (hD : definedLength f ≠ 0) :
    hist f bins closed .frequency = bins.map fun lr =>
      if lr.2 - lr.1 = 0 then none else some (binLength f closed lr / (lr.2 - lr.1)) := by
  rw [hist_unfold]
  apply List.map_congr_left
  intro lr hlr
  rw [cdf_diff f closed lr (hb lr hlr), binShare_mul f hD]; rfl

/-- the normaliser of `density`: Σ length-in-bin × bin width -/
def densityNorm (f : Stairs Rat) (bins : List (Rat × Rat)) (closed : Side) : Rat :=
  sumBy (fun lr => binLength f closed lr * (lr.2 - lr.1)) bins

/-- **density**: the length in the bin divided by the normaliser (all undefined when it is 0) -/
theorem hist_density (f : Stairs Rat) (bins : List (Rat × Rat)) (closed : Side)
    (hb : ∀ lr ∈ bins, lr.1 ≤ lr.2) (hD : definedLength f ≠ 0) :
    hist f bins closed .density = bins.map fun lr =>
      if densityNorm f bins closed = 0 then none else some (binLength f closed lr / densityNorm f bins closed) := by
  rw [hist_unfold]
  have hnorm : sumBy (fun lr => (cdfAt f closed lr.2 - cdfAt f closed lr.1) * definedLength f * (lr.2 - lr.1)) bins
      = densityNorm f bins closed := by
    unfold densityNorm
    apply sumBy_congr
    intro lr hlr
    rw [cdf_diff f closed lr (hb lr hlr), binShare_mul f hD]
  simp only [hnorm]
  apply List.map_congr_left
  intro lr hlr
  rw [cdf_diff f closed lr (hb lr hlr), binShare_mul f hD]; rfl

/-- **the density histogram integrates to 1**: Σ density × bin width = 1 -/
theorem hist_density_total (f : Stairs Rat) (bins : List (Rat × Rat)) (closed : Side)
    (hb : ∀ lr ∈ bins, lr.1 ≤ lr.2) (hD : definedLength f ≠ 0) (hN : densityNorm f bins closed ≠ 0) :
    ∃ dens : List Rat, hist f bins closed .density = dens.map some ∧ dens.length = bins.length ∧
      ((dens.zip bins).map fun (x, lr) => x * (lr.2 - lr.1)).sum = 1 := by
  refine ⟨bins.map fun lr => binLength f closed lr / densityNorm f bins closed, ?_, by simp, ?_⟩
  · rw [hist_density f bins closed hb hD, List.map_map]
    apply List.map_congr_left
    intro lr _
    simp [hN]
  · rw [zip_map_self, List.map_map]
    show sumBy (fun lr => binLength f closed lr / densityNorm f bins closed * (lr.2 - lr.1)) bins = 1
    have : sumBy (fun lr => binLength f closed lr / densityNorm f bins closed * (lr.2 - lr.1)) bins
        = sumBy (fun lr => binLength f closed lr * (lr.2 - lr.1) / densityNorm f bins closed) bins := by
      apply sumBy_congr; intro lr _; ring
    rw [this, sumBy_div]
    exact div_self hN

/-- the probabilities of disjoint bins covering all values add up to 1; here: one bin containing everything -/
theorem hist_probability_all (f : Stairs Rat) (closed : Side) (lr : Rat × Rat) (hD : definedLength f ≠ 0)
    (hall : ∀ vl ∈ definedPieces f.steps, inBin closed lr vl.1 = true) (h : lr.1 ≤ lr.2) :
    hist f [lr] closed .probability = [some 1] := by
  rw [hist_probability f [lr] closed (by simpa using h)]
  simp only [List.map_cons, List.map_nil]
  rw [binShare_eq]
  have : binLength f closed lr = definedLength f := by
    unfold binLength lengthWhere definedLength
    rw [List.filter_eq_self.mpr]
    intro a ha; exact hall a ha
  rw [this, div_self hD]

/-! ## 5. non-vacuity

`h₀`: value 1 on [0,1), 3 on [1,4)  —  shares 1/4 and 3/4.
`C08.f₀`: values 1,·,3,1 on lengths 1,1,2,1 (one undefined piece, value 1 on two non-adjacent pieces). -/
def h₀ : Stairs Rat := ⟨none, [(0, some 1), (1, some 3), (4, none)], .left⟩

example : h₀.WF := by decide +kernel
example : valueSums h₀ = [(1, 1), (3, 3)] := by decide +kernel
example : shares h₀ = [(1, 1/4), (3, 3/4)] := by decide +kernel
example : (ecdf h₀).limit .right 1 = some (1/4) ∧ (ecdf h₀).limit .left 1 = some 0 ∧
    (ecdf h₀).limit .right 2 = some (1/4) ∧ (ecdf h₀).limit .left 3 = some (1/4) ∧
    (ecdf h₀).limit .right 3 = some 1 := by decide +kernel
example : percentile h₀ 10 = some 1 := by decide +kernel
example : percentile h₀ 25 = some 2 := by decide +kernel          -- boundary: midpoint of 1 and 3
example : percentile h₀ 26 = some 3 := by decide +kernel
example : percentile h₀ 0 = some 1 ∧ percentile h₀ 100 = some 3 := by decide +kernel
example : median h₀ = some 3 := by decide +kernel
example : fractile h₀ (1/4) = some 2 := by decide +kernel
example : quantiles h₀ 4 = [some 2, some 3, some 3] := by decide +kernel
example : mode h₀ = some 3 ∧ modes h₀ = [3] := by decide +kernel
example : hist h₀ [(1, 2), (2, 3), (3, 4)] .left .probability = [some (1/4), some 0, some (3/4)] := by decide +kernel
example : hist h₀ [(0, 1), (1, 3)] .right .sum = [some 1, some 3] := by decide +kernel
example : hist h₀ [(0, 1), (1, 3)] .right .frequency = [some 1, some (3/2)] := by decide +kernel
example : hist h₀ [(0, 1), (1, 3)] .right .density = [some (1/7), some (3/7)] := by decide +kernel
/-- why the theorems above ask for ordered bins: a reversed bin yields a negative "probability" -/
example : hist h₀ [(3, 0)] .left .probability = [some (-1/4)] := by decide +kernel
example : unitBins h₀ .left = [(1, 2), (2, 3), (3, 4)] := by decide +kernel

example : shares C08.f₀ = [(1, 1/2), (3, 1/2)] := by decide +kernel
example : percentile C08.f₀ 50 = some 2 ∧ percentile C08.f₀ 49 = some 1 ∧ percentile C08.f₀ 51 = some 3 := by
  decide +kernel
example : modes C08.f₀ = [1, 3] ∧ mode C08.f₀ = some 1 := by decide +kernel    -- tie: the smaller value
example : (ecdf C08.f₀).limit .right 1 = some (1/2) ∧ (ecdf C08.f₀).limit .right 3 = some 1 := by decide +kernel
/-- no defined finite piece: no percentiles, no mode, the ecdf is constantly 0 -/
example : let g : Stairs Rat := ⟨some 2, [(0, none), (1, some 1)], .left⟩
    percentile g 50 = none ∧ mode g = none ∧ (ecdf g).limit .right 5 = some 0 ∧
    hist g [(0, 10)] .left .probability = [some 0] := by decide +kernel

end SC.Props.C09
