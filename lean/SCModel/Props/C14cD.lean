import SCModel.Props.C14cA
/-!
# C14cD — seeded cache defects (part D): `copy` producing an object whose distribution cache is shared with the original
-/
set_option linter.unusedSectionVars false
set_option linter.unusedVariables false
namespace SC.Props.C14c
open SC SC.Stairs SC.Obj SC.Props.C14 SC.Props.C14b

/-! ## 5. `copyShared`

A world with sharing: besides the objects, `share[k] = some r` records that object `k` was produced by the defective
`copy` and that its distribution accessor *is* the one of object `r` (the original; for a copy of a copy, the
original's original).  A distribution query on `k` is then answered from `r`'s distribution cache – filled, if empty,
from `r`'s current function – while the function, the (integral, mean) cache and everything else are `k`'s own. -/

abbrev SWorld := World × List (Option Nat)

def shareOf (sh : List (Option Nat)) (k : Nat) : Option Nat := (sh[k]?).getD none

/-- the owner of the distribution accessor of object `i` -/
def rootOf (sh : List (Option Nat)) (i : Nat) : Nat := (shareOf sh i).getD i

/-- every operation but `copy` and `query`: as in the reference world; a created object shares nothing -/
def stepSgen (s : SWorld) (op : WOp) : SWorld × Out :=
  (((stepO s.1 op).1, if (stepO s.1 op).1.length = s.1.length then s.2 else s.2 ++ [none]), (stepO s.1 op).2)

/-- a distribution query on a sharing object `k` with accessor owner `r` -/
def stepSshared (s : SWorld) (k r : Nat) (q : Query) : SWorld × Out :=
  match s.1[k]?, s.1[r]? with
  | some ok, some orig =>
    (((s.1.modify r (fun o => (ensureDist o).1)).modify k (fun o => if needsIM q then (ensureIM o).1 else o), s.2),
      .answer (answerFrom ok.f (if needsIM q then (ensureIM ok).2 else (integral ok.f, mean ok.f))
        (ensureDist orig).2 q))
  | _, _ => (s, .badIndex)

def stepS (s : SWorld) (op : WOp) : SWorld × Out :=
  match op with
  | .copy i =>
    match s.1[i]? with
    | some o => ((s.1 ++ [fresh o.f], s.2 ++ [some (rootOf s.2 i)]), .created s.1.length)
    | none => (s, .badIndex)
  | .query k q =>
    match shareOf s.2 k, needsDist q with
    | some r, true => stepSshared s k r q
    | _, _ => stepSgen s (.query k q)
  | op => stepSgen s op

def runS (s : SWorld) : List WOp → SWorld × List Out
  | [] => (s, [])
  | op :: r => ((runS (stepS s op).1 r).1, (stepS s op).2 :: (runS (stepS s op).1 r).2)

/-- `3` on `[0,2)`, `1` on `[2,4)`, `0` outside -/
def a₅ : Stairs Rat := ⟨some 0, [(0, some 3), (2, some 1), (4, some 0)], .left⟩
def histCS : List WOp := [.new a₅, .copy 0, .layer 1 [⟨some 0, some 4, 10⟩], .query 1 .median, .query 1 .mean,
  .query 1 (.percentile 100), .query 0 .median]
def histCS' : List WOp := [.new a₅, .copy 0, .layer 0 [⟨some 0, some 4, 10⟩], .query 1 .median, .query 0 .median]

/-- **refuted**: copy → layer on the copy → distribution query on the copy is answered with the original's
distribution (`median 2` instead of `12`, `percentile 100 = 3` instead of `13`); the copy's `mean` and the original's
own answers are right.  Likewise after a `layer` on the *original* (`histCS'`) -/
theorem copyShared_refuted :
    (runS ([], []) histCS).2 = [.created 0, .created 1, .done, .answer [some 2], .answer [some 12], .answer [some 3],
      .answer [some 2]] ∧
    (runPure [] histCS).2 = [.created 0, .created 1, .done, .answer [some 12], .answer [some 12], .answer [some 13],
      .answer [some 2]] ∧
    (runS ([], []) histCS').2 = [.created 0, .created 1, .done, .answer [some 12], .answer [some 12]] ∧
    (runPure [] histCS').2 = [.created 0, .created 1, .done, .answer [some 2], .answer [some 12]] := by
  decide +kernel

/-! ### the cache-free side: who shares with whom, and when the shared answer is the right one -/

/-- the sharing table after an operation, computed on the cache-free world -/
def shareStep (p : PWorld) (sh : List (Option Nat)) (op : WOp) : List (Option Nat) :=
  match op with
  | .copy i => if i < p.length then sh ++ [some (rootOf sh i)] else sh
  | op => if (stepPure p op).1.length = p.length then sh else sh ++ [none]

/-- the answer from the owner's distribution is the right answer -/
def shareOK (p : PWorld) (sh : List (Option Nat)) : WOp → Bool
  | .query k q =>
    match shareOf sh k with
    | some r =>
      match p[k]?, p[r]? with
      | some fk, some fr =>
        !needsDist q || decide (answerFrom fk (integral fk, mean fk) (cumShares fr) q = freshAnswer fk q)
      | _, _ => true
    | none => true
  | _ => true

/-- the class of histories: every distribution query on a sharing object gets the right answer from its owner -/
def safeShare (p : PWorld) (sh : List (Option Nat)) : List WOp → Bool
  | [] => true
  | op :: r => shareOK p sh op && safeShare (stepPure p op).1 (shareStep p sh op) r

/-- the sharing table is as long as the world and owners precede their sharers -/
def SInv (s : SWorld) : Prop := s.2.length = s.1.length ∧ ∀ k r, shareOf s.2 k = some r → r < k

section Helpers

theorem h14c_shareOf_lt (sh : List (Option Nat)) (k r : Nat) (h : shareOf sh k = some r) : k < sh.length := by
  unfold shareOf at h
  by_contra hk
  rw [List.getElem?_eq_none (by omega)] at h
  cases h

theorem h14c_shareOf_append_left (sh : List (Option Nat)) (x : Option Nat) (k : Nat) (hk : k < sh.length) :
    shareOf (sh ++ [x]) k = shareOf sh k := by
  unfold shareOf; rw [List.getElem?_append_left hk]

theorem h14c_shareOf_append_last (sh : List (Option Nat)) (x : Option Nat) : shareOf (sh ++ [x]) sh.length = x := by
  unfold shareOf; simp

theorem h14c_shareOf_append (sh : List (Option Nat)) (x : Option Nat) (k r : Nat)
    (h : shareOf (sh ++ [x]) k = some r) : (k < sh.length ∧ shareOf sh k = some r) ∨ (k = sh.length ∧ x = some r) := by
  have hk := h14c_shareOf_lt _ k r h
  simp only [List.length_append, List.length_cons, List.length_nil] at hk
  by_cases hlt : k < sh.length
  · left; rw [h14c_shareOf_append_left sh x k hlt] at h; exact ⟨hlt, h⟩
  · right
    have : k = sh.length := by omega
    subst this
    rw [h14c_shareOf_append_last] at h
    exact ⟨rfl, h⟩

theorem h14c_stepO_length (w : World) (op : WOp) :
    (stepO w op).1.length = w.length ∨ (stepO w op).1.length = w.length + 1 := by
  rw [stepO_fst]
  have := (step_length w op).1
  split at this
  · right; exact this
  · left; simpa using this

theorem h14c_sinv_gen (s : SWorld) (op : WOp) (h : SInv s) : SInv (stepSgen s op).1 := by
  unfold stepSgen SInv
  simp only
  rcases h14c_stepO_length s.1 op with hl | hl
  · rw [if_pos hl]; exact ⟨by rw [hl]; exact h.1, h.2⟩
  · rw [if_neg (by omega)]
    refine ⟨by simp [hl, h.1], fun k r hkr => ?_⟩
    rcases h14c_shareOf_append s.2 none k r hkr with ⟨_, h2⟩ | ⟨_, h2⟩
    · exact h.2 k r h2
    · cases h2

/-- the generic step refines the pure step and keeps every invariant -/
theorem h14c_gen_refines (s : SWorld) (op : WOp) (hw : WInv s.1) (hs : SInv s) (hop : ∀ i, op ≠ .copy i) :
    (stepSgen s op).2 = (stepPure (erase s.1) op).2 ∧ erase (stepSgen s op).1.1 = (stepPure (erase s.1) op).1 ∧
    (stepSgen s op).1.2 = shareStep (erase s.1) s.2 op ∧ WInv (stepSgen s op).1.1 ∧ SInv (stepSgen s op).1 := by
  obtain ⟨r1, r2, r3⟩ := step_refines_pure s.1 op hw
  refine ⟨r1, r2, ?_, r3, h14c_sinv_gen s op hs⟩
  have hlen : (stepO s.1 op).1.length = (stepPure (erase s.1) op).1.length := by
    rw [← r2, w14b_erase_length]
  have hsh : shareStep (erase s.1) s.2 op =
      if (stepPure (erase s.1) op).1.length = (erase s.1).length then s.2 else s.2 ++ [none] := by
    cases op <;> first | rfl | exact absurd rfl (hop _)
  rw [hsh, w14b_erase_length, ← hlen]
  rfl

theorem h14c_shared_refines (s : SWorld) (k r : Nat) (q : Query) (hw : WInv s.1) (hs : SInv s)
    (hsh : shareOf s.2 k = some r) (hd : needsDist q = true) :
    ((stepSshared s k r q).2 = (stepPure (erase s.1) (.query k q)).2 ↔ shareOK (erase s.1) s.2 (.query k q) = true) ∧
    erase (stepSshared s k r q).1.1 = erase s.1 ∧ (stepSshared s k r q).1.2 = s.2 ∧
    WInv (stepSshared s k r q).1.1 ∧ SInv (stepSshared s k r q).1 := by
  have hk : k < s.1.length := by rw [← hs.1]; exact h14c_shareOf_lt _ k r hsh
  have hr : r < s.1.length := lt_trans (hs.2 k r hsh) hk
  obtain ⟨ok, hok⟩ : ∃ ok, s.1[k]? = some ok := ⟨s.1[k], List.getElem?_eq_getElem hk⟩
  obtain ⟨orig, horig⟩ : ∃ orig, s.1[r]? = some orig := ⟨s.1[r], List.getElem?_eq_getElem hr⟩
  have cok : CacheInv ok := hw ok (List.mem_of_getElem? hok)
  have corig : CacheInv orig := hw orig (List.mem_of_getElem? horig)
  have him : (if needsIM q then (ensureIM ok).2 else (integral ok.f, mean ok.f)) = (integral ok.f, mean ok.f) := by
    split
    · exact (ensureIM_spec ok cok).1
    · rfl
  have hg : ∀ o : Obj, (if needsIM q then (ensureIM o).1 else o).f = o.f := by
    intro o; split
    · exact ensureIM_f o
    · rfl
  have hgi : ∀ o : Obj, CacheInv o → CacheInv (if needsIM q then (ensureIM o).1 else o) := by
    intro o ho; split
    · exact (ensureIM_spec o ho).2.2
    · exact ho
  unfold stepSshared
  rw [hok, horig]
  simp only [him, (ensureDist_spec orig corig).1]
  refine ⟨?_, ?_, trivial, ?_, ?_⟩
  · simp only [stepPure, shareOK, hsh, w14b_erase_get, hok, horig, Option.map_some, hd, Bool.not_true,
      Bool.false_or, decide_eq_true_eq]
    constructor
    · intro h; injection h
    · intro h; rw [h]
  · rw [w14b_erase_modify_id _ k _ hg, w14b_erase_modify_id _ r _ ensureDist_f]
  · exact w14b_winv_modify _ k _ (w14b_winv_modify _ r _ hw (fun o ho => (ensureDist_spec o ho).2.2)) hgi
  · exact ⟨by simp only [List.length_modify]; exact hs.1, hs.2⟩

/-- **one step of the sharing world against the cache-free step**: the output is right iff `shareOK`; functions,
sharing table and invariants follow the cache-free world in any case -/
theorem h14c_stepS_refines (s : SWorld) (op : WOp) (hw : WInv s.1) (hs : SInv s) :
    ((stepS s op).2 = (stepPure (erase s.1) op).2 ↔ shareOK (erase s.1) s.2 op = true) ∧
    erase (stepS s op).1.1 = (stepPure (erase s.1) op).1 ∧
    (stepS s op).1.2 = shareStep (erase s.1) s.2 op ∧ WInv (stepS s op).1.1 ∧ SInv (stepS s op).1 := by
  have gen : ∀ op : WOp, (∀ i, op ≠ .copy i) → shareOK (erase s.1) s.2 op = true →
      ((stepSgen s op).2 = (stepPure (erase s.1) op).2 ↔ shareOK (erase s.1) s.2 op = true) ∧
      erase (stepSgen s op).1.1 = (stepPure (erase s.1) op).1 ∧
      (stepSgen s op).1.2 = shareStep (erase s.1) s.2 op ∧ WInv (stepSgen s op).1.1 ∧ SInv (stepSgen s op).1 := by
    intro op hop hok
    obtain ⟨g1, g2, g3, g4, g5⟩ := h14c_gen_refines s op hw hs hop
    exact ⟨⟨fun _ => hok, fun _ => g1⟩, g2, g3, g4, g5⟩
  cases op with
  | copy i =>
    cases hwi : s.1[i]? with
    | none =>
      have hi : ¬ i < (erase s.1).length := by
        rw [w14b_erase_length]; intro hi
        rw [List.getElem?_eq_getElem hi] at hwi; cases hwi
      have hp : (erase s.1)[i]? = none := by rw [w14b_erase_get, hwi]; rfl
      simp only [stepS, hwi, stepPure, computeFn, PWorld.fn, hp, Option.map_none, shareStep, if_neg hi, shareOK]
      exact ⟨by simp, trivial, trivial, hw, hs⟩
    | some o =>
      have hi : i < s.1.length := by
        by_contra hi; rw [List.getElem?_eq_none (by omega)] at hwi; cases hwi
      have hp : (erase s.1)[i]? = some o.f := by rw [w14b_erase_get, hwi]; rfl
      simp only [stepS, hwi, stepPure, computeFn, PWorld.fn, hp, Option.map_some, shareStep, w14b_erase_length,
        if_pos hi, shareOK]
      refine ⟨by simp, by simp [erase, fresh], trivial, w14b_winv_append s.1 o.f hw, ?_, ?_⟩
      · simp [hs.1]
      · intro k r hkr
        rcases h14c_shareOf_append s.2 _ k r hkr with ⟨_, h2⟩ | ⟨h1, h2⟩
        · exact hs.2 k r h2
        · injection h2 with h2
          rw [h1, hs.1, ← h2]
          unfold rootOf
          cases hri : shareOf s.2 i with
          | none => exact hi
          | some r' => exact lt_trans (hs.2 i r' hri) hi
  | query k q =>
    cases hsh : shareOf s.2 k with
    | none =>
      have : stepS s (.query k q) = stepSgen s (.query k q) := by simp only [stepS, hsh]
      rw [this]
      exact gen _ (fun i h => by cases h) (by simp only [shareOK, hsh])
    | some r =>
      cases hd : needsDist q with
      | false =>
        have : stepS s (.query k q) = stepSgen s (.query k q) := by simp only [stepS, hsh, hd]
        rw [this]
        refine gen _ (fun i h => by cases h) ?_
        simp only [shareOK, hsh, hd]
        cases (erase s.1)[k]? <;> cases (erase s.1)[r]? <;> rfl
      | true =>
        have : stepS s (.query k q) = stepSshared s k r q := by simp only [stepS, hsh, hd]
        rw [this]
        obtain ⟨g1, g2, g3, g4, g5⟩ := h14c_shared_refines s k r q hw hs hsh hd
        refine ⟨g1, ?_, ?_, g4, g5⟩
        · rw [g2]; rfl
        · rw [g3]; simp [shareStep, stepPure]
  | _ => exact gen _ (fun i h => by cases h) rfl

end Helpers

/-- **EXACT CLASS, at the level of outputs**: the sharing world produces the output stream of the cache-free
semantics iff every distribution query on a sharing object is one for which its owner's distribution gives the right
answer; its functions are those of the cache-free world in any case (only `copy`'s *cache wiring* is wrong) -/
theorem share_class_iff (s : SWorld) (ops : List WOp) (hw : WInv s.1) (hs : SInv s) :
    ((runS s ops).2 = (runPure (erase s.1) ops).2 ↔ safeShare (erase s.1) s.2 ops = true) ∧
    erase (runS s ops).1.1 = (runPure (erase s.1) ops).1 := by
  induction ops generalizing s with
  | nil => exact ⟨⟨fun _ => rfl, fun _ => rfl⟩, rfl⟩
  | cons op r ih =>
    obtain ⟨g1, g2, g3, g4, g5⟩ := h14c_stepS_refines s op hw hs
    obtain ⟨i1, i2⟩ := ih (stepS s op).1 g4 g5
    rw [g2, g3] at i1
    rw [g2] at i2
    simp only [runS, runPure, safeShare, List.cons.injEq, Bool.and_eq_true]
    exact ⟨by rw [g1, i1], i2⟩

theorem share_class_from_empty (ops : List WOp) :
    (runS ([], []) ops).2 = (runPure [] ops).2 ↔ safeShare [] [] ops = true :=
  (share_class_iff ([], []) ops (fun _ h => nomatch h) ⟨rfl, fun k r h => by simp [shareOf] at h⟩).1

/-! ### the class in syntactic terms: "neither object is layered after the copy, or no distribution query follows" -/

/-- the sharing objects whose function may differ from their owner's after a `layer` on object `i`: those owned by
`i`, and `i` itself if it shares -/
def dirtyAfterLayer (sh : List (Option Nat)) (i : Nat) : List Nat :=
  (List.range sh.length).filter fun k => (shareOf sh k == some i) || (k == i && (shareOf sh k).isSome)

/-- `dirty` = sharing objects for which the object or its owner has been layered since the copy (a copy of a dirty
object is born dirty).  The history is accepted iff no distribution query is made on a dirty object. -/
def synSafe (p : PWorld) (sh : List (Option Nat)) (dirty : List Nat) : List WOp → Bool
  | [] => true
  | op :: r =>
    (match op with
      | .query k q => !(needsDist q && (shareOf sh k).isSome && dirty.contains k)
      | _ => true) &&
    synSafe (stepPure p op).1 (shareStep p sh op)
      (match op with
        | .layer i _ => dirty ++ dirtyAfterLayer sh i
        | .copy i => if dirty.contains i then dirty ++ [p.length] else dirty
        | _ => dirty) r

/-- sharers that are not dirty hold the function of their owner -/
def SyncInv (p : PWorld) (sh : List (Option Nat)) (dirty : List Nat) : Prop :=
  sh.length = p.length ∧ (∀ k r, shareOf sh k = some r → r < k) ∧
    ∀ k r, shareOf sh k = some r → k ∉ dirty → p[k]? = p[r]?

section Helpers

theorem h14c_stepPure_fst (p : PWorld) (op : WOp) (h : ∀ i ts, op ≠ .layer i ts) :
    (stepPure p op).1 = p ∨ ∃ f, (stepPure p op).1 = p ++ [f] := by
  cases op with
  | layer i ts => exact absurd rfl (h i ts)
  | query k q => exact Or.inl rfl
  | _ =>
    simp only [stepPure]
    generalize computeFn p.fn _ = c
    rcases c with _ | (e | r)
    · exact Or.inl rfl
    · exact Or.inl rfl
    · exact Or.inr ⟨r, rfl⟩

theorem h14c_stepPure_copy (p : PWorld) (i : Nat) :
    (stepPure p (.copy i)).1 = match p[i]? with | some f => p ++ [f] | none => p := by
  simp only [stepPure, computeFn, PWorld.fn]
  cases p[i]? <;> rfl

theorem h14c_syncInv_append_none (p : PWorld) (sh : List (Option Nat)) (dirty : List Nat) (f : Stairs Rat)
    (h : SyncInv p sh dirty) : SyncInv (p ++ [f]) (sh ++ [none]) dirty := by
  refine ⟨by simp [h.1], fun k r hkr => ?_, fun k r hkr hd => ?_⟩
  · rcases h14c_shareOf_append sh none k r hkr with ⟨_, h2⟩ | ⟨_, h2⟩
    · exact h.2.1 k r h2
    · cases h2
  · rcases h14c_shareOf_append sh none k r hkr with ⟨h1, h2⟩ | ⟨_, h2⟩
    · have hr := h.2.1 k r h2
      rw [List.getElem?_append_left (by rw [← h.1]; exact h1),
        List.getElem?_append_left (by rw [← h.1]; exact lt_trans hr h1)]
      exact h.2.2 k r h2 hd
    · cases h2

theorem h14c_mem_dirtyAfterLayer (sh : List (Option Nat)) (i k : Nat) :
    k ∈ dirtyAfterLayer sh i ↔ k < sh.length ∧ (shareOf sh k = some i ∨ (k = i ∧ (shareOf sh k).isSome = true)) := by
  unfold dirtyAfterLayer
  simp [List.mem_filter]

/-- one step keeps the synchronisation invariant -/
theorem h14c_syncInv_step (p : PWorld) (sh : List (Option Nat)) (dirty : List Nat) (op : WOp)
    (h : SyncInv p sh dirty) :
    SyncInv (stepPure p op).1 (shareStep p sh op)
      (match op with
        | .layer i _ => dirty ++ dirtyAfterLayer sh i
        | .copy i => if dirty.contains i then dirty ++ [p.length] else dirty
        | _ => dirty) := by
  have gen : ∀ op : WOp, (∀ i ts, op ≠ .layer i ts) → (∀ i, op ≠ .copy i) →
      SyncInv (stepPure p op).1 (shareStep p sh op) dirty := by
    intro op h1 h2
    have hsh : shareStep p sh op = if (stepPure p op).1.length = p.length then sh else sh ++ [none] := by
      cases op <;> first | rfl | exact absurd rfl (h2 _)
    rw [hsh]
    rcases h14c_stepPure_fst p op h1 with he | ⟨f, he⟩
    · rw [he, if_pos rfl]; exact h
    · rw [he, if_neg (by simp)]; exact h14c_syncInv_append_none p sh dirty f h
  cases op with
  | layer i ts =>
    have hsh : shareStep p sh (.layer i ts) = sh := by simp [shareStep, stepPure]
    rw [hsh]
    show SyncInv (p.modify i (layerF · ts)) sh (dirty ++ dirtyAfterLayer sh i)
    refine ⟨by simp [h.1], h.2.1, fun k r hkr hd => ?_⟩
    have hk := h14c_shareOf_lt sh k r hkr
    simp only [List.mem_append, not_or, h14c_mem_dirtyAfterLayer] at hd
    have hri : ¬ i = r := fun e => hd.2 ⟨hk, Or.inl (by rw [hkr, e])⟩
    have hki : ¬ i = k := fun e => hd.2 ⟨hk, Or.inr ⟨e.symm, by rw [hkr]; rfl⟩⟩
    have := h.2.2 k r hkr hd.1
    simpa [List.getElem?_modify, hri, hki] using this
  | copy i =>
    rw [h14c_stepPure_copy]
    cases hp : p[i]? with
    | none =>
      have hi : ¬ i < p.length := by
        intro hi; rw [List.getElem?_eq_getElem hi] at hp; cases hp
      simp only [shareStep, if_neg hi]
      refine ⟨h.1, h.2.1, fun k r hkr hd => h.2.2 k r hkr (fun hm => hd ?_)⟩
      split
      · exact List.mem_append_left _ hm
      · exact hm
    | some f =>
      have hi : i < p.length := by
        by_contra hi; rw [List.getElem?_eq_none (by omega)] at hp; cases hp
      simp only [shareStep, if_pos hi]
      refine ⟨by simp [h.1], fun k r hkr => ?_, fun k r hkr hd => ?_⟩
      · rcases h14c_shareOf_append sh _ k r hkr with ⟨_, h2⟩ | ⟨h1, h2⟩
        · exact h.2.1 k r h2
        · injection h2 with h2
          rw [h1, h.1, ← h2]
          unfold rootOf
          cases hri : shareOf sh i with
          | none => exact hi
          | some r' => exact lt_trans (h.2.1 i r' hri) hi
      · have hd0 : k ∉ dirty := fun hm => hd (by
          split
          · exact List.mem_append_left _ hm
          · exact hm)
        rcases h14c_shareOf_append sh _ k r hkr with ⟨h1, h2⟩ | ⟨h1, h2⟩
        · have hr := h.2.1 k r h2
          rw [List.getElem?_append_left (by rw [← h.1]; exact h1),
            List.getElem?_append_left (by rw [← h.1]; exact lt_trans hr h1)]
          exact h.2.2 k r h2 hd0
        · injection h2 with h2
          have hnd : i ∉ dirty := by
            intro hm
            apply hd
            rw [if_pos (by simpa using hm)]
            exact List.mem_append_right _ (by simp [h1, h.1])
          have hkl : k = p.length := by rw [h1, h.1]
          have hrl : r < p.length := by
            rw [← h2]; unfold rootOf
            cases hri : shareOf sh i with
            | none => exact hi
            | some r' => exact lt_trans (h.2.1 i r' hri) hi
          rw [hkl, List.getElem?_append_right (le_refl _), List.getElem?_append_left hrl]
          simp only [Nat.sub_self, List.getElem?_cons_zero]
          rw [← hp, ← h2]
          unfold rootOf
          cases hri : shareOf sh i with
          | none => rfl
          | some r' => exact h.2.2 i r' hri hnd
  | query k q => exact gen _ (fun i ts h => by cases h) (fun i h => by cases h)
  | _ => exact gen _ (fun i ts h => by cases h) (fun i h => by cases h)

end Helpers

/-- **SYNTACTIC CLASS (sufficient; why the tests passed)**: a history in which no distribution query is made on a
copy after the copy or its original was layered is answered correctly -/
theorem synSafe_sound (p : PWorld) (sh : List (Option Nat)) (dirty : List Nat) (ops : List WOp)
    (hi : SyncInv p sh dirty) (h : synSafe p sh dirty ops = true) : safeShare p sh ops = true := by
  induction ops generalizing p sh dirty with
  | nil => rfl
  | cons op r ih =>
    simp only [synSafe, Bool.and_eq_true] at h
    simp only [safeShare, Bool.and_eq_true]
    refine ⟨?_, ih _ _ _ (h14c_syncInv_step p sh dirty op hi) h.2⟩
    cases op with
    | query k q =>
      cases hsh : shareOf sh k with
      | none => simp only [shareOK, hsh]
      | some r' =>
        cases hk : p[k]? with
        | none => simp only [shareOK, hsh, hk]
        | some fk =>
          cases hr : p[r']? with
          | none => simp only [shareOK, hsh, hk, hr]
          | some fr =>
            cases hd : needsDist q with
            | false => simp only [shareOK, hsh, hk, hr, hd]; rfl
            | true =>
              have h1 := h.1
              simp only [hd, hsh, Option.isSome_some, Bool.true_and, Bool.not_eq_true',
                List.contains_eq_mem, decide_eq_false_iff_not] at h1
              have := hi.2.2 k r' hsh h1
              rw [hk, hr] at this
              injection this with this
              subst this
              simp only [shareOK, hsh, hk, hr, hd]
              simp [freshAnswer]
    | _ => rfl

theorem copyShared_correct_on_class (ops : List WOp) (h : synSafe [] [] [] ops = true) :
    (runS ([], []) ops).2 = (runPure [] ops).2 :=
  (share_class_from_empty ops).2
    (synSafe_sound [] [] [] ops ⟨rfl, fun k r h => by simp [shareOf] at h, fun k r h => by simp [shareOf] at h⟩ h)

/-- the syntactic class is not necessary for right outputs (the semantic class `safeShare` is): layering nothing on
the copy makes it dirty, yet its distribution is still the original's -/
theorem copyShared_outputs_can_agree_outside_class :
    synSafe [] [] [] [.new a₅, .copy 0, .layer 1 [], .query 1 .median] = false ∧
    safeShare [] [] [.new a₅, .copy 0, .layer 1 [], .query 1 .median] = true ∧
    (runS ([], []) [.new a₅, .copy 0, .layer 1 [], .query 1 .median]).2 =
      (runPure [] [.new a₅, .copy 0, .layer 1 [], .query 1 .median]).2 := by decide +kernel

/-! non-vacuity: copies queried before any layer; layers followed by non-distribution queries only; copy of a copy -/
def histCSok : List WOp :=
  [.new a₅, .copy 0, .query 1 .median, .copy 1, .query 2 (.percentile 100), .layer 2 [⟨some 0, some 4, 10⟩],
   .query 2 .mean, .query 2 .max, .query 1 .median, .query 0 (.ecdf .left 2), .layer 0 [⟨none, none, 1⟩],
   .query 0 .median, .query 1 .integral]
example : synSafe [] [] [] histCSok = true ∧ (runS ([], []) histCSok).1.2 = [none, some 0, some 0] ∧
    (runS ([], []) histCSok).2 = (runPure [] histCSok).2 := by decide +kernel
example : synSafe [] [] [] histCS = false ∧ safeShare [] [] histCS = false ∧
    synSafe [] [] [] histCS' = false ∧ safeShare [] [] histCS' = false := by decide +kernel

end SC.Props.C14c
