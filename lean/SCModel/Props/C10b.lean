import SCModel.Props.C08b
import SCModel.Props.C09
import SCModel.Props.C10
import SCModel.Props.C11
/-!
# C10b — laws of windowed extrema / `values_in_range` and of slicing

A window is `(lo, hi, c)`: optional bounds (`none` = unbounded) and the closedness `c : IClosed` of its end points;
`inInterval c lo hi x` is its point set (C10).  `fmaxV` / `fminV` are the NaN-ignoring `max` / `min` of the slicer.

1. **monotonicity** (`values_in_range_mono`, `max_min_mono`, `max_min_absorb`): for nested windows (`loLE`, `hiLE`,
   `closedLE`; no hypothesis on `f`) the values of the smaller window are a sublist of those of the larger, `max` grows,
   `min` shrinks; semantic form for arbitrary nested point sets `values_in_range_mono_of_subset`;
   `neither ⊆ left, right ⊆ both` (`values_in_range_closedness_chain`).
2. **union** of adjacent windows cut at `b` (`values_in_range_union`, `values_in_range_union_list`, `max_min_union`,
   `max_union_right/left/both/neither`): values of the union = union of the values, `max = fmaxV max₁ max₂`,
   `min = fminV min₁ min₂` — for *every* closedness of the two inner end points, `(a,b) ∪ (b,c)` included (a step function
   takes its value at `b` also next to `b`); the point sets themselves need a covered cut point (`inInterval_union`,
   `inInterval_union_needs_cover`); **refuted** for the NaN-propagating `max` (`max_union_needs_nan_ignoring`).
3. **bounds**: `min ≤ mean ≤ max` over a bounded window for all four closedness options (`mean_between_min_max`,
   `meanIn_between_min_max`) and without a window (`mean_between_min_max_whole`); the converse "extremes defined ⇒ mean
   defined" is **refuted** (`extremes_without_mean`); `min`, `max` defined together and `min ≤ max` (`min_max_together`);
   `min = max` iff at most one value (`min_eq_max_iff_values`) iff `f` constant on the defined part (`min_eq_max_iff_const`).
4. **whole line** (`values_whole`, `min_whole_eq`): `min() = fmin (init, percentile 0, last value)`, same for `max` / 100;
   `min ≤ p0 ≤ p100 ≤ max` (`min_le_percentiles_le_max`); `min() = percentile 0` **refuted** (`min_lt_percentile_zero`,
   `extremes_without_distribution`), corrected for bounded support / covered ends (`min_eq_percentile_zero_of_bounded`,
   `min_eq_percentile_zero_of_covered`) and for clipped windows (`percentile_window_eq_min`).
5. **slicer consistency**: `slicerExtreme = .ok (maxIn / minIn …)` (`slicer_extreme_eq_window`, `slicer_extremes_eq_windows`,
   `slices_extreme`), through the slice's distribution (`slicer_max_eq_percentile`, `slicer_extreme_own_side`), slicer
   `mean / integral / var` = C08b's windowed statistics (`slicer_stat_eq_window`, `slicer_mean_integral`),
   `slicer min ≤ mean ≤ max` (`slicer_mean_between`), adjacent slices (`slicer_extreme_union`); the equality needs a proper
   interval (`slicer_degenerate_differs`).
-/
set_option linter.unusedSectionVars false
set_option linter.unusedVariables false
namespace SC.Props.C10b
open SC SC.Stairs

/-! ## Helpers -/
section Helpers

/-- `lo' ≤ lo` for lower bounds (`none` = −∞) -/
def loLE : Option Rat → Option Rat → Prop
  | none, _ => True
  | some _, none => False
  | some a', some a => a' ≤ a
/-- `hi ≤ hi'` for upper bounds (`none` = +∞) -/
def hiLE : Option Rat → Option Rat → Prop
  | _, none => True
  | none, some _ => False
  | some b, some b' => b ≤ b'

instance (x y : Option Rat) : Decidable (loLE x y) := by
  cases x <;> cases y <;> unfold loLE <;> infer_instance
instance (x y : Option Rat) : Decidable (hiLE x y) := by
  cases x <;> cases y <;> unfold hiLE <;> infer_instance

/-- a strictly increasing list that is a subset of another one is a sublist of it -/
theorem w10b_sublist_of_subset (l₁ l₂ : List Rat) (h₁ : l₁.Pairwise (· < ·)) (h₂ : l₂.Pairwise (· < ·))
    (h : ∀ v ∈ l₁, v ∈ l₂) : l₁.Sublist l₂ := by
  induction l₂ generalizing l₁ with
  | nil =>
    cases l₁ with
    | nil => exact List.Sublist.slnil
    | cons a r => exact absurd (h a (by simp)) (by simp)
  | cons b r₂ ih =>
    rw [List.pairwise_cons] at h₂
    cases l₁ with
    | nil => exact List.nil_sublist _
    | cons a r₁ =>
      rw [List.pairwise_cons] at h₁
      by_cases hab : a = b
      · subst hab
        apply List.Sublist.cons_cons
        apply ih r₁ h₁.2 h₂.2
        intro v hv
        rcases List.mem_cons.mp (h v (List.mem_cons_of_mem _ hv)) with hva | hvr
        · exact absurd (h₁.1 v hv) (by rw [hva]; exact lt_irrefl _)
        · exact hvr
      · apply List.Sublist.cons
        apply ih (a :: r₁) (List.pairwise_cons.mpr h₁) h₂.2
        have ha : a ∈ r₂ := by
          rcases List.mem_cons.mp (h a (by simp)) with h' | h'
          · exact absurd h' hab
          · exact h'
        intro v hv
        rcases List.mem_cons.mp hv with hva | hvr
        · rw [hva]; exact ha
        · rcases List.mem_cons.mp (h v (List.mem_cons_of_mem _ hvr)) with h' | h'
          · have h1 : a < v := h₁.1 v hvr
            have h2 : b < a := h₂.1 a ha
            rw [h'] at h1
            exact absurd (lt_trans h1 h2) (lt_irrefl _)
          · exact h'

/-- two strictly increasing lists with the same members are equal -/
theorem w10b_sorted_ext (l₁ l₂ : List Rat) (h₁ : l₁.Pairwise (· < ·)) (h₂ : l₂.Pairwise (· < ·))
    (h : ∀ v, v ∈ l₁ ↔ v ∈ l₂) : l₁ = l₂ :=
  List.Sublist.antisymm (w10b_sublist_of_subset l₁ l₂ h₁ h₂ (fun v hv => (h v).mp hv))
    (w10b_sublist_of_subset l₂ l₁ h₂ h₁ (fun v hv => (h v).mpr hv))

theorem w10b_qLow_mono (side : Side) (lo' lo : Option Rat) (h : loLE lo' lo) (p : Rat)
    (hp : qLow side lo' p = true) : qLow side lo p = true := by
  cases lo' <;> cases lo <;> cases side <;> simp [qLow, loLE] at h hp ⊢ <;> linarith

theorem w10b_qUp_mono (side : Side) (hi hi' : Option Rat) (h : hiLE hi hi') (p : Rat)
    (hp : qUp side hi p = true) : qUp side hi' p = true := by
  cases hi <;> cases hi' <;> cases side <;> simp [qUp, hiLE] at h hp ⊢ <;> linarith

/-- `c ≤ c'`: every endpoint closed in `c` is closed in `c'` -/
def closedLE (c c' : IClosed) : Prop :=
  (loStrict c' = true → loStrict c = true) ∧ (hiStrict c' = true → hiStrict c = true)
instance (c c' : IClosed) : Decidable (closedLE c c') := by unfold closedLE; infer_instance

theorem w10b_qLow_closed (cl : Side) (c c' : IClosed) (h : closedLE c c') (lo : Option Rat) (p : Rat)
    (hp : qLow (getLims cl c').1 lo p = true) : qLow (getLims cl c).1 lo p = true := by
  cases lo with
  | none => simp [qLow] at hp
  | some a =>
    cases cl <;> cases c <;> cases c' <;>
      simp [closedLE, loStrict, hiStrict] at h <;>
      simp [qLow, getLims] at hp ⊢ <;> first | exact hp | exact le_of_lt hp

theorem w10b_qUp_closed (cl : Side) (c c' : IClosed) (h : closedLE c c') (hi : Option Rat) (p : Rat)
    (hp : qUp (getLims cl c).2 hi p = true) : qUp (getLims cl c').2 hi p = true := by
  cases hi with
  | none => simp [qUp]
  | some a =>
    cases cl <;> cases c <;> cases c' <;>
      simp [closedLE, loStrict, hiStrict] at h <;>
      simp [qUp, getLims] at hp ⊢ <;> first | exact hp | exact le_of_lt hp

/-- the counting core of monotonicity (no well-formedness needed) -/
theorem w10b_vir_subset_gen (f : Stairs Rat) (lo lo' hi hi' : Option Rat) (c c' : IClosed)
    (hL : ∀ p, qLow (getLims f.closed c').1 lo' p = true → qLow (getLims f.closed c).1 lo p = true)
    (hR : ∀ p, qUp (getLims f.closed c).2 hi p = true → qUp (getLims f.closed c').2 hi' p = true) (v : Rat)
    (hv : v ∈ valuesInRange f lo hi c) : v ∈ valuesInRange f lo' hi' c' := by
  rw [valuesInRange_eq, mem_uniqueDefined, mem_take_drop, bisect_lower, bisect_upper] at hv ⊢
  obtain ⟨j, h1, h2, h3⟩ := hv
  exact ⟨j, le_trans (cnt_mono _ _ _ (fun p _ => hL p)) h1, le_trans h2 (cnt_mono _ _ _ (fun p _ => hR p)), h3⟩

theorem w10b_listMax_mono (l₁ l₂ : List Rat) (h : ∀ v ∈ l₁, v ∈ l₂) (m : Rat) (hm : listMax l₁ = some m) :
    ∃ M, listMax l₂ = some M ∧ m ≤ M := by
  obtain ⟨h1, _⟩ := listMax_spec_w l₁ m hm
  cases hM : listMax l₂ with
  | none => rw [(listMax_eq_none l₂).mp hM] at h; exact absurd (h m h1) (by simp)
  | some M => exact ⟨M, rfl, (listMax_spec_w l₂ M hM).2 m (h m h1)⟩

theorem w10b_listMin_mono (l₁ l₂ : List Rat) (h : ∀ v ∈ l₁, v ∈ l₂) (m : Rat) (hm : listMin l₁ = some m) :
    ∃ M, listMin l₂ = some M ∧ M ≤ m := by
  obtain ⟨h1, _⟩ := listMin_spec_w l₁ m hm
  cases hM : listMin l₂ with
  | none => rw [(listMin_eq_none l₂).mp hM] at h; exact absurd (h m h1) (by simp)
  | some M => exact ⟨M, rfl, (listMin_spec_w l₂ M hM).2 m (h m h1)⟩

/-- `fmaxV a b = b` says "`a ≤ b` in the NaN-ignoring order" -/
theorem w10b_fmaxV_eq_right_iff (a b : Val) :
    fmaxV a b = b ↔ ∀ x, a = some x → ∃ y, b = some y ∧ x ≤ y := by
  cases a with
  | none => simp [fmaxV_none_left]
  | some x =>
    cases b with
    | none => simp [fmaxV_none_right]
    | some y => rw [fmaxV_some]; simp
theorem w10b_fminV_eq_right_iff (a b : Val) :
    fminV a b = b ↔ ∀ x, a = some x → ∃ y, b = some y ∧ y ≤ x := by
  cases a with
  | none => simp [fminV_none_left]
  | some x =>
    cases b with
    | none => simp [fminV_none_right]
    | some y => rw [fminV_some]; simp

theorem w10b_isGreatestVal_union (S₁ S₂ : Rat → Prop) (m₁ m₂ : Val) (h₁ : IsGreatestVal S₁ m₁)
    (h₂ : IsGreatestVal S₂ m₂) : IsGreatestVal (fun w => S₁ w ∨ S₂ w) (fmaxV m₁ m₂) := by
  cases m₂ with
  | none =>
    rw [fmaxV_none_right]
    exact isGreatestVal_congr S₁ _ m₁ (fun w => ⟨Or.inl, fun h => h.elim id (fun h' => absurd h' (h₂ w))⟩) h₁
  | some b =>
    have h3 := isGreatestVal_insert S₁ m₁ (some b) h₁
    cases hm : fmaxV m₁ (some b) with
    | none => cases m₁ <;> simp [fmaxV] at hm
    | some q =>
      rw [hm] at h3
      obtain ⟨h4, h5⟩ := h3
      refine ⟨?_, fun w hw => ?_⟩
      · rcases h4 with h4 | h4
        · exact Or.inl h4
        · rw [← Option.some.inj h4]; exact Or.inr h₂.1
      · rcases hw with hw | hw
        · exact h5 w (Or.inl hw)
        · exact le_trans (h₂.2 w hw) (h5 b (Or.inr rfl))

theorem w10b_isLeastVal_union (S₁ S₂ : Rat → Prop) (m₁ m₂ : Val) (h₁ : IsLeastVal S₁ m₁)
    (h₂ : IsLeastVal S₂ m₂) : IsLeastVal (fun w => S₁ w ∨ S₂ w) (fminV m₁ m₂) := by
  cases m₂ with
  | none =>
    rw [fminV_none_right]
    exact isLeastVal_congr S₁ _ m₁ (fun w => ⟨Or.inl, fun h => h.elim id (fun h' => absurd h' (h₂ w))⟩) h₁
  | some b =>
    have h3 := isLeastVal_insert S₁ m₁ (some b) h₁
    cases hm : fminV m₁ (some b) with
    | none => cases m₁ <;> simp [fminV] at hm
    | some q =>
      rw [hm] at h3
      obtain ⟨h4, h5⟩ := h3
      refine ⟨?_, fun w hw => ?_⟩
      · rcases h4 with h4 | h4
        · exact Or.inl h4
        · rw [← Option.some.inj h4]; exact Or.inr h₂.1
      · rcases hw with hw | hw
        · exact h5 w (Or.inl hw)
        · exact le_trans (h5 b (Or.inr rfl)) (h₂.2 w hw)

/-- the extreme of a union of lists is the NaN-ignoring combination of the extremes -/
theorem w10b_listMax_union (l l₁ l₂ : List Rat) (h : ∀ v, v ∈ l ↔ v ∈ l₁ ∨ v ∈ l₂) :
    listMax l = fmaxV (listMax l₁) (listMax l₂) :=
  isGreatestVal_unique (fun w => w ∈ l) _ _ (isGreatestVal_listMax _ l (fun _ => Iff.rfl))
    (isGreatestVal_congr _ _ _ (fun w => (h w).symm)
      (w10b_isGreatestVal_union _ _ _ _ (isGreatestVal_listMax (fun w => w ∈ l₁) l₁ (fun _ => Iff.rfl))
        (isGreatestVal_listMax (fun w => w ∈ l₂) l₂ (fun _ => Iff.rfl))))
theorem w10b_listMin_union (l l₁ l₂ : List Rat) (h : ∀ v, v ∈ l ↔ v ∈ l₁ ∨ v ∈ l₂) :
    listMin l = fminV (listMin l₁) (listMin l₂) :=
  isLeastVal_unique (fun w => w ∈ l) _ _ (isLeastVal_listMin _ l (fun _ => Iff.rfl))
    (isLeastVal_congr _ _ _ (fun w => (h w).symm)
      (w10b_isLeastVal_union _ _ _ _ (isLeastVal_listMin (fun w => w ∈ l₁) l₁ (fun _ => Iff.rfl))
        (isLeastVal_listMin (fun w => w ∈ l₂) l₂ (fun _ => Iff.rfl))))

/-- closedness options that `getLims` does not distinguish give the same list -/
theorem w10b_vir_congr_getLims (f : Stairs Rat) (lo hi : Option Rat) (c c' : IClosed)
    (h : getLims f.closed c = getLims f.closed c') : valuesInRange f lo hi c = valuesInRange f lo hi c' := by
  rw [valuesInRange_eq, valuesInRange_eq, h]

/-- sorted, duplicate-free union of two lists of values (`np.union1d`) -/
def sortedUnion (l₁ l₂ : List Rat) : List Rat := uniqueDefined ((l₁ ++ l₂).map some)

theorem mem_sortedUnion (l₁ l₂ : List Rat) (v : Rat) : v ∈ sortedUnion l₁ l₂ ↔ v ∈ l₁ ∨ v ∈ l₂ := by
  unfold sortedUnion; rw [mem_uniqueDefined]; simp

/-- a right limit taken inside `[lo, hi)` is a value of the window, whatever the closedness of the window and of `f` -/
theorem w10b_den_right_mem_vir (f : Stairs Rat) (hf : f.WF) (lo hi : Option Rat) (x : Rat) (c : IClosed)
    (hlo : ∀ a, lo = some a → a ≤ x) (hhi : ∀ b, hi = some b → x < b)
    (v : Rat) (h : Den f false x = some v) : v ∈ valuesInRange f lo hi c := by
  rw [valuesInRange_eq, mem_uniqueDefined, mem_take_drop, bisect_lower, bisect_upper]
  refine ⟨cnt (fun p => reached false p x) f.idx, ?_, ?_, ?_⟩
  · apply cnt_mono; intro p _ hp
    rw [reached_right_iff]
    cases lo with
    | none => simp [qLow] at hp
    | some a =>
      have := hlo a rfl
      cases hs : (getLims f.closed c).1 <;> simp [qLow, hs] at hp <;> linarith
  · apply cnt_mono; intro p _ hp
    rw [reached_right_iff] at hp
    cases hi with
    | none => simp [qUp]
    | some b =>
      have := hhi b rfl
      cases (getLims f.closed c).2 <;> simp [qUp] <;> linarith
  · have := lim_eq_getElem false f.init f.steps hf x
    rw [idx, this]; exact congrArg some h

/-- the whole line: every row value and the initial value -/
theorem w10b_mem_vir_whole (f : Stairs Rat) (c : IClosed) (v : Rat) :
    v ∈ valuesInRange f none none c ↔ f.init = some v ∨ some v ∈ f.steps.map Prod.snd := by
  rw [valuesInRange_eq, mem_uniqueDefined, bisect_lower, bisect_upper, cnt_qLow_none, cnt_qUp_none]
  have : (f.init :: f.steps.map Prod.snd).length = f.idx.length + 1 := by simp [idx]
  rw [List.drop_zero, List.take_of_length_le (by omega), List.mem_cons]
  constructor
  · rintro (h | h)
    · exact Or.inl h.symm
    · exact Or.inr h
  · rintro (h | h)
    · exact Or.inl h.symm
    · exact Or.inr h

theorem w10b_listMin_eq_listMax_iff (l : List Rat) : listMin l = listMax l ↔ ∀ v ∈ l, ∀ w ∈ l, v = w := by
  constructor
  · intro h v hv w hw
    cases hm : listMin l with
    | none => rw [(listMin_eq_none l).mp hm] at hv; simp at hv
    | some m =>
      obtain ⟨_, h1⟩ := listMin_spec_w l m hm
      obtain ⟨_, h2⟩ := listMax_spec_w l m (by rw [← h, hm])
      exact le_antisymm (le_trans (h2 v hv) (h1 w hw)) (le_trans (h2 w hw) (h1 v hv))
  · intro h
    cases hm : listMin l with
    | none => rw [(listMin_eq_none l).mp hm]; rfl
    | some m =>
      obtain ⟨h1, _⟩ := listMin_spec_w l m hm
      cases hM : listMax l with
      | none => rw [(listMax_eq_none l).mp hM] at h1; simp at h1
      | some M => rw [h m h1 M (listMax_spec_w l M hM).1]

theorem w10b_all_eq_iff_length (l : List Rat) (hs : l.Pairwise (· < ·)) :
    (∀ v ∈ l, ∀ w ∈ l, v = w) ↔ l.length ≤ 1 := by
  cases l with
  | nil => simp
  | cons a r =>
    cases r with
    | nil => simp
    | cons b r' =>
      simp only [List.length_cons]
      constructor
      · intro h
        have hab : a < b := (List.pairwise_cons.mp hs).1 b (by simp)
        exact absurd (h a (by simp) b (by simp)) (ne_of_lt hab)
      · intro h; omega

/-- the row values: those of the finite defined pieces, and the last one -/
theorem w10b_mem_vals_iff (a : Val) (s : List (Rat × Val)) (v : Rat) (hne : s ≠ []) :
    some v ∈ s.map Prod.snd ↔ (∃ len, (v, len) ∈ definedPieces s) ∨ lastVal a s = some v := by
  induction s generalizing a with
  | nil => exact absurd rfl hne
  | cons pv r ih =>
    obtain ⟨p, v0⟩ := pv
    cases r with
    | nil =>
      rw [definedPieces_of_length_lt_two _ (by simp)]
      simp [lastVal, eq_comm]
    | cons qw r' =>
      obtain ⟨q, w⟩ := qw
      have ih' := ih v0 (by simp)
      have hl : lastVal a ((p, v0) :: (q, w) :: r') = lastVal v0 ((q, w) :: r') := rfl
      rw [hl, List.map_cons, List.mem_cons, ih']
      cases v0 with
      | none =>
        rw [definedPieces_cons_none]
        simp
      | some x =>
        rw [definedPieces_cons_some]
        simp only [List.mem_cons, Prod.mk.injEq, Option.some.injEq]
        constructor
        · rintro (h | ⟨len, h⟩ | h)
          · exact Or.inl ⟨q - p, Or.inl ⟨h, rfl⟩⟩
          · exact Or.inl ⟨len, Or.inr h⟩
          · exact Or.inr h
        · rintro (⟨len, ⟨h, _⟩ | h⟩ | h)
          · exact Or.inl h
          · exact Or.inr (Or.inl ⟨len, h⟩)
          · exact Or.inr (Or.inr h)

end Helpers

/-! ## 1. monotonicity in the window

A window is `(lo, hi, c)`: bounds (`none` = unbounded) and the closedness of the two end points.  It is *nested*
in `(lo', hi', c')` when `lo' ≤ lo`, `hi ≤ hi'` and every end point closed in `c` is closed in `c'`
(`closedLE`).  Nothing else is needed: no well-formedness of `f`, no `lo < hi` — the statement is a fact about
the two bisect counts.  `values_in_range_mono_of_subset` is the semantic form (any two windows whose point sets are
nested, e.g. `[a, b] ⊆ (a', b')` with `a' < a`, `b < b'`). -/

theorem inInterval_of_nested (lo hi lo' hi' : Option Rat) (c c' : IClosed)
    (hlo : loLE lo' lo) (hhi : hiLE hi hi') (hc : closedLE c c') (x : Rat) (hx : inInterval c lo hi x) :
    inInterval c' lo' hi' x := by
  obtain ⟨h1, h2⟩ := hx
  obtain ⟨c1, c2⟩ := hc
  refine ⟨?_, ?_⟩
  · generalize loStrict c = s at h1 c1
    generalize loStrict c' = s' at c1
    cases lo <;> cases lo' <;> cases s <;> cases s' <;> simp [loLE] at hlo h1 c1 ⊢ <;> linarith
  · generalize hiStrict c = s at h2 c2
    generalize hiStrict c' = s' at c2
    cases hi <;> cases hi' <;> cases s <;> cases s' <;> simp [hiLE] at hhi h2 c2 ⊢ <;> linarith

/-- **monotonicity of `values_in_range`**: the values of the smaller window form a sublist (both lists are strictly
increasing, so: a sub-multiset, a subset) of the values of the larger one -/
theorem values_in_range_mono (f : Stairs Rat) (lo hi lo' hi' : Option Rat) (c c' : IClosed)
    (hlo : loLE lo' lo) (hhi : hiLE hi hi') (hc : closedLE c c') :
    (valuesInRange f lo hi c).Sublist (valuesInRange f lo' hi' c') ∧
    ∀ v ∈ valuesInRange f lo hi c, v ∈ valuesInRange f lo' hi' c' := by
  have hsub : ∀ v ∈ valuesInRange f lo hi c, v ∈ valuesInRange f lo' hi' c' := fun v hv =>
    w10b_vir_subset_gen f lo lo' hi hi' c c'
      (fun p hp => w10b_qLow_closed f.closed c c' hc lo p (w10b_qLow_mono _ lo' lo hlo p hp))
      (fun p hp => w10b_qUp_mono _ hi hi' hhi p (w10b_qUp_closed f.closed c c' hc hi p hp)) v hv
  exact ⟨w10b_sublist_of_subset _ _ (C10.values_in_range_sorted f lo hi c) (C10.values_in_range_sorted f lo' hi' c') hsub,
    hsub⟩

/-- **`max` grows, `min` shrinks when the window grows**; an undefined extreme of the larger window forces an
undefined extreme of the smaller one -/
theorem max_min_mono (f : Stairs Rat) (lo hi lo' hi' : Option Rat) (c c' : IClosed)
    (hlo : loLE lo' lo) (hhi : hiLE hi hi') (hc : closedLE c c') :
    (∀ m, maxIn f lo hi c = some m → ∃ M, maxIn f lo' hi' c' = some M ∧ m ≤ M) ∧
    (∀ m, minIn f lo hi c = some m → ∃ M, minIn f lo' hi' c' = some M ∧ M ≤ m) ∧
    (maxIn f lo' hi' c' = none → maxIn f lo hi c = none) ∧
    (minIn f lo' hi' c' = none → minIn f lo hi c = none) := by
  have hsub := (values_in_range_mono f lo hi lo' hi' c c' hlo hhi hc).2
  refine ⟨w10b_listMax_mono _ _ hsub, w10b_listMin_mono _ _ hsub, fun h => ?_, fun h => ?_⟩
  · cases hm : maxIn f lo hi c with
    | none => rfl
    | some m => obtain ⟨M, hM, _⟩ := w10b_listMax_mono _ _ hsub m hm; unfold maxIn at h; rw [h] at hM; cases hM
  · cases hm : minIn f lo hi c with
    | none => rfl
    | some m => obtain ⟨M, hM, _⟩ := w10b_listMin_mono _ _ hsub m hm; unfold minIn at h; rw [h] at hM; cases hM

/-- the same with the NaN-ignoring combination of the slicer: the larger window absorbs the smaller one -/
theorem max_min_absorb (f : Stairs Rat) (lo hi lo' hi' : Option Rat) (c c' : IClosed)
    (hlo : loLE lo' lo) (hhi : hiLE hi hi') (hc : closedLE c c') :
    fmaxV (maxIn f lo hi c) (maxIn f lo' hi' c') = maxIn f lo' hi' c' ∧
    fminV (minIn f lo hi c) (minIn f lo' hi' c') = minIn f lo' hi' c' := by
  obtain ⟨h1, h2, _, _⟩ := max_min_mono f lo hi lo' hi' c c' hlo hhi hc
  exact ⟨(w10b_fmaxV_eq_right_iff _ _).mpr h1, (w10b_fminV_eq_right_iff _ _).mpr h2⟩

/-- **semantic form**: any two (non-degenerate) windows whose point sets are nested -/
theorem values_in_range_mono_of_subset (f : Stairs Rat) (hf : f.WF) (lo hi lo' hi' : Option Rat) (c c' : IClosed)
    (hb : boundsOk lo hi = true) (hb' : boundsOk lo' hi' = true)
    (hsub : ∀ x, inInterval c lo hi x → inInterval c' lo' hi' x) :
    (valuesInRange f lo hi c).Sublist (valuesInRange f lo' hi' c') ∧
    (∀ m, maxIn f lo hi c = some m → ∃ M, maxIn f lo' hi' c' = some M ∧ m ≤ M) ∧
    (∀ m, minIn f lo hi c = some m → ∃ M, minIn f lo' hi' c' = some M ∧ M ≤ m) := by
  have hs : ∀ v ∈ valuesInRange f lo hi c, v ∈ valuesInRange f lo' hi' c' := by
    intro v hv
    obtain ⟨x, hx, hxv⟩ := (mem_valuesInRange f hf lo hi c hb v).mp hv
    exact (mem_valuesInRange f hf lo' hi' c' hb' v).mpr ⟨x, hsub x hx, hxv⟩
  exact ⟨w10b_sublist_of_subset _ _ (C10.values_in_range_sorted f lo hi c) (C10.values_in_range_sorted f lo' hi' c') hs,
    w10b_listMax_mono _ _ hs, w10b_listMin_mono _ _ hs⟩

/-- the four closedness options on the same bounds: `neither ⊆ left, right ⊆ both` -/
theorem values_in_range_closedness_chain (f : Stairs Rat) (lo hi : Option Rat) :
    (valuesInRange f lo hi .neither).Sublist (valuesInRange f lo hi .left) ∧
    (valuesInRange f lo hi .neither).Sublist (valuesInRange f lo hi .right) ∧
    (valuesInRange f lo hi .left).Sublist (valuesInRange f lo hi .both) ∧
    (valuesInRange f lo hi .right).Sublist (valuesInRange f lo hi .both) := by
  have r1 : ∀ o : Option Rat, loLE o o := fun o => by cases o <;> simp [loLE]
  have r2 : ∀ o : Option Rat, hiLE o o := fun o => by cases o <;> simp [hiLE]
  exact ⟨(values_in_range_mono f lo hi lo hi _ _ (r1 lo) (r2 hi) (by decide)).1,
    (values_in_range_mono f lo hi lo hi _ _ (r1 lo) (r2 hi) (by decide)).1,
    (values_in_range_mono f lo hi lo hi _ _ (r1 lo) (r2 hi) (by decide)).1,
    (values_in_range_mono f lo hi lo hi _ _ (r1 lo) (r2 hi) (by decide)).1⟩

/-- non-vacuity (C10's `fL`, `fR`): `[4, 6) ⊆ [2, 8]`, and the four closedness options on `[2, 6]` -/
example : loLE (some 2) (some 4) ∧ hiLE (some 6) (some 8) ∧ closedLE .left .both := by decide +kernel
example : valuesInRange C10.fR (some 4) (some 6) .left = [3] ∧ valuesInRange C10.fR (some 2) (some 8) .both = [1, 3, 5] ∧
    maxIn C10.fR (some 4) (some 6) .left = some 3 ∧ maxIn C10.fR (some 2) (some 8) .both = some 5 ∧
    minIn C10.fR (some 4) (some 6) .left = some 3 ∧ minIn C10.fR (some 2) (some 8) .both = some 1 := by decide +kernel
example : valuesInRange C10.fL (some 2) (some 6) .neither = [3] ∧ valuesInRange C10.fL (some 2) (some 6) .both = [3, 5] := by
  decide +kernel
/-- the hypothesis of the semantic form: `[2, 6] ⊆ (1, 8)` although `both ≰ neither` -/
example : ¬ closedLE .both .neither ∧ ∀ x, inInterval .both (some 2) (some 6) x → inInterval .neither (some 1) (some 8) x := by
  refine ⟨by decide, fun x hx => ?_⟩
  simp only [inInterval, loStrict, hiStrict] at hx ⊢
  obtain ⟨h1, h2⟩ := hx
  simp at h1 h2 ⊢
  constructor <;> linarith

/-! ## 2. adjacent windows: the union

A window from `lo` to `hi` is cut at an interior point `b` into a window `(lo, b, c₁)` and a window `(b, hi, c₂)`
whose outer end points are closed as in `c`.  When the pieces cover the cut point (`(a,b] ∪ (b,c]`, `[a,b) ∪ [b,c)`,
`[a,b] ∪ [b,c]`, …) the point sets add up (`inInterval_union`).  For *values* even that is not needed: a step function
takes the value at `b` also just right of `b` (left-closed) or just left of `b` (right-closed), so
`(a,b) ∪ (b,c)` has the same values as `(a,c)` (`values_in_range_union`, no condition on the inner end points). -/

theorem inInterval_union (lo hi : Option Rat) (b : Rat) (c c₁ c₂ : IClosed)
    (h1 : boundsOk lo (some b) = true) (h2 : boundsOk (some b) hi = true)
    (hlo : loStrict c₁ = loStrict c) (hhi : hiStrict c₂ = hiStrict c)
    (hcov : hiStrict c₁ = false ∨ loStrict c₂ = false) (x : Rat) :
    inInterval c lo hi x ↔ inInterval c₁ lo (some b) x ∨ inInterval c₂ (some b) hi x := by
  simp only [inInterval, hlo, hhi]
  generalize loStrict c = s
  generalize hiStrict c = t
  generalize hiStrict c₁ = u at hcov ⊢
  generalize loStrict c₂ = w at hcov ⊢
  cases lo <;> cases hi <;> cases s <;> cases t <;> cases u <;> cases w <;>
    simp [boundsOk] at h1 h2 hcov ⊢ <;> grind

theorem boundsOk_trans (lo hi : Option Rat) (b : Rat) (h1 : boundsOk lo (some b) = true)
    (h2 : boundsOk (some b) hi = true) : boundsOk lo hi = true := by
  cases lo <;> cases hi <;> simp [boundsOk] at h1 h2 ⊢
  exact lt_trans h1 h2

/-- the covering case, as sets of values -/
theorem values_in_range_union_cover (f : Stairs Rat) (hf : f.WF) (lo hi : Option Rat) (b : Rat) (c c₁ c₂ : IClosed)
    (h1 : boundsOk lo (some b) = true) (h2 : boundsOk (some b) hi = true)
    (hlo : loStrict c₁ = loStrict c) (hhi : hiStrict c₂ = hiStrict c)
    (hcov : hiStrict c₁ = false ∨ loStrict c₂ = false) (v : Rat) :
    v ∈ valuesInRange f lo hi c ↔ v ∈ valuesInRange f lo (some b) c₁ ∨ v ∈ valuesInRange f (some b) hi c₂ := by
  rw [mem_valuesInRange f hf lo hi c (boundsOk_trans lo hi b h1 h2), mem_valuesInRange f hf _ _ c₁ h1,
    mem_valuesInRange f hf _ _ c₂ h2]
  constructor
  · rintro ⟨x, hx, hv⟩
    rcases (inInterval_union lo hi b c c₁ c₂ h1 h2 hlo hhi hcov x).mp hx with h | h
    · exact Or.inl ⟨x, h, hv⟩
    · exact Or.inr ⟨x, h, hv⟩
  · rintro (⟨x, hx, hv⟩ | ⟨x, hx, hv⟩)
    · exact ⟨x, (inInterval_union lo hi b c c₁ c₂ h1 h2 hlo hhi hcov x).mpr (Or.inl hx), hv⟩
    · exact ⟨x, (inInterval_union lo hi b c c₁ c₂ h1 h2 hlo hhi hcov x).mpr (Or.inr hx), hv⟩

/-- **`values_in_range` of the union is the union** — every closedness of the two inner end points, `(a,b) ∪ (b,c)`
included -/
theorem values_in_range_union (f : Stairs Rat) (hf : f.WF) (lo hi : Option Rat) (b : Rat) (c c₁ c₂ : IClosed)
    (h1 : boundsOk lo (some b) = true) (h2 : boundsOk (some b) hi = true)
    (hlo : loStrict c₁ = loStrict c) (hhi : hiStrict c₂ = hiStrict c) (v : Rat) :
    v ∈ valuesInRange f lo hi c ↔ v ∈ valuesInRange f lo (some b) c₁ ∨ v ∈ valuesInRange f (some b) hi c₂ := by
  cases hcl : f.closed with
  | left =>
    -- a left-closed function: the closedness of a lower end point is immaterial
    obtain ⟨c₂', e1, e2, e3⟩ : ∃ c₂', getLims f.closed c₂ = getLims f.closed c₂' ∧ hiStrict c₂' = hiStrict c₂ ∧
        loStrict c₂' = false := by
      rw [hcl]; cases c₂
      · exact ⟨.left, rfl, rfl, rfl⟩
      · exact ⟨.both, rfl, rfl, rfl⟩
      · exact ⟨.both, rfl, rfl, rfl⟩
      · exact ⟨.left, rfl, rfl, rfl⟩
    rw [w10b_vir_congr_getLims f (some b) hi c₂ c₂' e1]
    exact values_in_range_union_cover f hf lo hi b c c₁ c₂' h1 h2 hlo (e2.trans hhi) (Or.inr e3) v
  | right =>
    -- a right-closed function: the closedness of an upper end point is immaterial
    obtain ⟨c₁', e1, e2, e3⟩ : ∃ c₁', getLims f.closed c₁ = getLims f.closed c₁' ∧ loStrict c₁' = loStrict c₁ ∧
        hiStrict c₁' = false := by
      rw [hcl]; cases c₁
      · exact ⟨.both, rfl, rfl, rfl⟩
      · exact ⟨.right, rfl, rfl, rfl⟩
      · exact ⟨.both, rfl, rfl, rfl⟩
      · exact ⟨.right, rfl, rfl, rfl⟩
    rw [w10b_vir_congr_getLims f lo (some b) c₁ c₁' e1]
    exact values_in_range_union_cover f hf lo hi b c c₁' c₂ h1 h2 (e2.trans hlo) hhi (Or.inl e3) v

/-- the same as an equation of lists: the sorted duplicate-free union -/
theorem values_in_range_union_list (f : Stairs Rat) (hf : f.WF) (lo hi : Option Rat) (b : Rat) (c c₁ c₂ : IClosed)
    (h1 : boundsOk lo (some b) = true) (h2 : boundsOk (some b) hi = true)
    (hlo : loStrict c₁ = loStrict c) (hhi : hiStrict c₂ = hiStrict c) :
    valuesInRange f lo hi c = sortedUnion (valuesInRange f lo (some b) c₁) (valuesInRange f (some b) hi c₂) :=
  w10b_sorted_ext _ _ (C10.values_in_range_sorted f lo hi c) (sorted_uniqueDefined _) (fun v => by
    rw [mem_sortedUnion]; exact values_in_range_union f hf lo hi b c c₁ c₂ h1 h2 hlo hhi v)

/-- **`max` / `min` of the union**: the NaN-ignoring combination (`fmaxV` / `fminV`, as used by the slicer) of the
extremes of the two parts -/
theorem max_min_union (f : Stairs Rat) (hf : f.WF) (lo hi : Option Rat) (b : Rat) (c c₁ c₂ : IClosed)
    (h1 : boundsOk lo (some b) = true) (h2 : boundsOk (some b) hi = true)
    (hlo : loStrict c₁ = loStrict c) (hhi : hiStrict c₂ = hiStrict c) :
    maxIn f lo hi c = fmaxV (maxIn f lo (some b) c₁) (maxIn f (some b) hi c₂) ∧
    minIn f lo hi c = fminV (minIn f lo (some b) c₁) (minIn f (some b) hi c₂) :=
  ⟨w10b_listMax_union _ _ _ (values_in_range_union f hf lo hi b c c₁ c₂ h1 h2 hlo hhi),
   w10b_listMin_union _ _ _ (values_in_range_union f hf lo hi b c c₁ c₂ h1 h2 hlo hhi)⟩

/-- the tilings named in the task: `(a,b] ∪ (b,c] = (a,c]`, `[a,b) ∪ [b,c) = [a,c)`, and `[a,b] ∪ [b,c] = [a,c]`,
`(a,b) ∪ (b,c) ~ (a,c)` -/
theorem max_union_right (f : Stairs Rat) (hf : f.WF) (a b c : Rat) (hab : a < b) (hbc : b < c) :
    maxIn f (some a) (some c) .right = fmaxV (maxIn f (some a) (some b) .right) (maxIn f (some b) (some c) .right) ∧
    minIn f (some a) (some c) .right = fminV (minIn f (some a) (some b) .right) (minIn f (some b) (some c) .right) :=
  max_min_union f hf _ _ b _ _ _ (by simpa [boundsOk] using hab) (by simpa [boundsOk] using hbc) rfl rfl
theorem max_union_left (f : Stairs Rat) (hf : f.WF) (a b c : Rat) (hab : a < b) (hbc : b < c) :
    maxIn f (some a) (some c) .left = fmaxV (maxIn f (some a) (some b) .left) (maxIn f (some b) (some c) .left) ∧
    minIn f (some a) (some c) .left = fminV (minIn f (some a) (some b) .left) (minIn f (some b) (some c) .left) :=
  max_min_union f hf _ _ b _ _ _ (by simpa [boundsOk] using hab) (by simpa [boundsOk] using hbc) rfl rfl
theorem max_union_both (f : Stairs Rat) (hf : f.WF) (a b c : Rat) (hab : a < b) (hbc : b < c) :
    maxIn f (some a) (some c) .both = fmaxV (maxIn f (some a) (some b) .both) (maxIn f (some b) (some c) .both) ∧
    minIn f (some a) (some c) .both = fminV (minIn f (some a) (some b) .both) (minIn f (some b) (some c) .both) :=
  max_min_union f hf _ _ b _ _ _ (by simpa [boundsOk] using hab) (by simpa [boundsOk] using hbc) rfl rfl
theorem max_union_neither (f : Stairs Rat) (hf : f.WF) (a b c : Rat) (hab : a < b) (hbc : b < c) :
    maxIn f (some a) (some c) .neither
      = fmaxV (maxIn f (some a) (some b) .neither) (maxIn f (some b) (some c) .neither) ∧
    minIn f (some a) (some c) .neither
      = fminV (minIn f (some a) (some b) .neither) (minIn f (some b) (some c) .neither) :=
  max_min_union f hf _ _ b _ _ _ (by simpa [boundsOk] using hab) (by simpa [boundsOk] using hbc) rfl rfl

/-- **the NaN-*propagating* combination is wrong**: with `NaN`-propagating `max` (numpy's `maximum`, here `vlift2`)
the union law fails as soon as `f` is undefined on one part — `fL` on `[2,4) ∪ [4,6)`: `max = 3`, second part undefined -/
theorem max_union_needs_nan_ignoring :
    C10.fL.WF ∧ maxIn C10.fL (some 2) (some 6) .left = some 3 ∧ maxIn C10.fL (some 2) (some 4) .left = some 3 ∧
    maxIn C10.fL (some 4) (some 6) .left = none ∧
    maxIn C10.fL (some 2) (some 6) .left
      ≠ vlift2 (fun x y => max x y) (maxIn C10.fL (some 2) (some 4) .left) (maxIn C10.fL (some 4) (some 6) .left) := by
  decide +kernel

/-- the point sets do *not* add up when both inner end points are open (the cut point is lost) … -/
theorem inInterval_union_needs_cover :
    inInterval .neither (some 2) (some 6) (4 : Rat) ∧
    ¬ (inInterval .neither (some 2) (some 4) (4 : Rat) ∨ inInterval .neither (some 4) (some 6) (4 : Rat)) := by
  decide +kernel

/-- non-vacuity: `fR` on `(2, 8]` cut at `6` (undefined on `(4, 6]`), half-bounded windows cut at `4` -/
example : valuesInRange C10.fR (some 2) (some 8) .right = [3, 5] ∧ valuesInRange C10.fR (some 2) (some 6) .right = [3] ∧
    valuesInRange C10.fR (some 6) (some 8) .right = [5] ∧ sortedUnion [3] [5] = [3, 5] ∧
    maxIn C10.fR (some 2) (some 8) .right = some 5 ∧ fmaxV (some 3) (some (5 : Rat)) = some 5 := by decide +kernel
example : valuesInRange C10.fL none none .both = [1, 2, 3, 5] ∧ valuesInRange C10.fL none (some 4) .neither = [1, 3] ∧
    valuesInRange C10.fL (some 4) none .neither = [2, 5] ∧ sortedUnion [1, 3] [2, 5] = [1, 2, 3, 5] := by decide +kernel

/-! ## 3. bounds: `min ≤ mean ≤ max`, `min ≤ max`, `min = max` iff constant

The mean over `[a, b]` is the mean of `window f a b = f.clip(a, b)` (C08b: `meanIn`).  It only sees the right limits of
`f` on `[a, b)`; each of them is a value `f` takes at a point of the **open** interval `(a, b)` (just right of the
point), so `min ≤ mean ≤ max` holds for **all four** closedness options — there is no wrong one to refute.  What does
fail is the converse "extremes defined ⇒ mean defined": a closed end point can be the only defined point
(`extremes_without_mean`). -/

/-- every value the mean averages over is a value of the window — any closedness, either closed side of `f` -/
theorem window_value_mem (f : Stairs Rat) (hf : f.WF) (a b x : Rat) (c : IClosed) (hax : a ≤ x) (hxb : x < b)
    (v : Rat) (h : Den f false x = some v) : v ∈ valuesInRange f (some a) (some b) c :=
  w10b_den_right_mem_vir f hf (some a) (some b) x c (fun a' ha => by injection ha with ha; rw [← ha]; exact hax)
    (fun b' hb => by injection hb with hb; rw [← hb]; exact hxb) v h

/-- **`min ≤ mean ≤ max` over a bounded window**, every closedness `c`; when the mean is defined so are both extremes -/
theorem mean_between_min_max (f : Stairs Rat) (hf : f.WF) (a b : Rat) (hab : a < b) (c : IClosed) (m : Rat)
    (hm : mean (window f a b) = some m) :
    ∃ lo hi, minIn f (some a) (some b) c = some lo ∧ maxIn f (some a) (some b) c = some hi ∧ lo ≤ m ∧ m ≤ hi := by
  have hL : lenOn f a b ≠ 0 := (C19b.mean_some _ m hm).1
  have hpos : 0 < lenOn f a b := lt_of_le_of_ne (C08b.lenOn_nonneg f hf a b hab) (Ne.symm hL)
  obtain ⟨x, hx1, hx2, hx3⟩ := (C08b.lenOn_pos_iff f hf a b hab).mp hpos
  obtain ⟨v, hv⟩ : ∃ v, Den f false x = some v := by
    cases hd : Den f false x with
    | none => exact absurd hd hx3
    | some v => exact ⟨v, rfl⟩
  have hmem := window_value_mem f hf a b x c hx1 hx2 v hv
  obtain ⟨lo, hlo⟩ : ∃ lo, minIn f (some a) (some b) c = some lo := by
    cases h : minIn f (some a) (some b) c with
    | none => unfold minIn at h; rw [(listMin_eq_none _).mp h] at hmem; simp at hmem
    | some lo => exact ⟨lo, rfl⟩
  obtain ⟨hi, hhi⟩ : ∃ hi, maxIn f (some a) (some b) c = some hi := by
    cases h : maxIn f (some a) (some b) c with
    | none => unfold maxIn at h; rw [(listMax_eq_none _).mp h] at hmem; simp at hmem
    | some hi => exact ⟨hi, rfl⟩
  have hb : ∀ x v, a ≤ x → x < b → Den f false x = some v → lo ≤ v ∧ v ≤ hi := fun x v h1 h2 h3 =>
    ⟨(listMin_spec_w _ lo hlo).2 v (window_value_mem f hf a b x c h1 h2 v h3),
     (listMax_spec_w _ hi hhi).2 v (window_value_mem f hf a b x c h1 h2 v h3)⟩
  obtain ⟨h1, h2⟩ := C08b.mean_bounds_window f hf a b hab lo hi hb m hm
  exact ⟨lo, hi, hlo, hhi, h1, h2⟩

/-- in the library's terms: `f.mean(where=(a, b))` lies between `f.min(where=(a, b), closed=c)` and `f.max(…)` -/
theorem meanIn_between_min_max (f : Stairs Rat) (hf : f.WF) (a b : Rat) (hab : a < b) (c : IClosed) (m : Rat)
    (hm : C08b.meanIn f (some a) (some b) = .ok (some m)) :
    ∃ lo hi, minIn f (some a) (some b) c = some lo ∧ maxIn f (some a) (some b) c = some hi ∧ lo ≤ m ∧ m ≤ hi := by
  rw [(C08b.statsIn_ok f a b hab).2.2.1] at hm
  injection hm with hm
  exact mean_between_min_max f hf a b hab c m hm

/-- **no window**: the plain mean (finite pieces only) lies between the extremes over the whole line -/
theorem mean_between_min_max_whole (f : Stairs Rat) (hf : f.WF) (c : IClosed) (m : Rat) (hm : mean f = some m) :
    ∃ lo hi, minIn f none none c = some lo ∧ maxIn f none none c = some hi ∧ lo ≤ m ∧ m ≤ hi := by
  have hD : definedLength f ≠ 0 := (C08.mean_isSome_iff f).mp (by rw [hm]; rfl)
  have hmemp : ∀ vl ∈ definedPieces f.steps, vl.1 ∈ valuesInRange f none none c := by
    intro vl hvl
    obtain ⟨p, q, hp, _⟩ := (mem_definedPieces_iff f.steps vl.1 vl.2).mp hvl
    obtain ⟨l, w, r, hs⟩ := (mem_pieces_iff f.steps p q (some vl.1)).mp hp
    rw [w10b_mem_vir_whole]
    right; rw [hs]; simp
  obtain ⟨vl, hvl⟩ : ∃ vl, vl ∈ definedPieces f.steps := by
    cases hd : definedPieces f.steps with
    | nil => exfalso; apply hD; unfold definedLength; rw [hd]; rfl
    | cons a r => exact ⟨a, by simp⟩
  have hmem := hmemp vl hvl
  obtain ⟨lo, hlo⟩ : ∃ lo, minIn f none none c = some lo := by
    cases h : minIn f none none c with
    | none => unfold minIn at h; rw [(listMin_eq_none _).mp h] at hmem; simp at hmem
    | some lo => exact ⟨lo, rfl⟩
  obtain ⟨hi, hhi⟩ : ∃ hi, maxIn f none none c = some hi := by
    cases h : maxIn f none none c with
    | none => unfold maxIn at h; rw [(listMax_eq_none _).mp h] at hmem; simp at hmem
    | some hi => exact ⟨hi, rfl⟩
  obtain ⟨h1, h2⟩ := C08.mean_bounds f hf lo hi m hm (fun vl hvl =>
    ⟨(listMin_spec_w _ lo hlo).2 _ (hmemp vl hvl), (listMax_spec_w _ hi hhi).2 _ (hmemp vl hvl)⟩)
  exact ⟨lo, hi, hlo, hhi, h1, h2⟩

/-- **the converse fails**: on `[4, 6]` the right-closed `fR` is defined at the closed end point `4` only — `min` and
`max` exist (`= 3`) but the mean is undefined; with the end point excluded all three are undefined -/
theorem extremes_without_mean :
    C10.fR.WF ∧ minIn C10.fR (some 4) (some 6) .both = some 3 ∧ maxIn C10.fR (some 4) (some 6) .both = some 3 ∧
    mean (window C10.fR 4 6) = none ∧ C08b.meanIn C10.fR (some 4) (some 6) = .ok none ∧
    minIn C10.fR (some 4) (some 6) .right = none := by decide +kernel

/-- `min` and `max` are defined together, and `min ≤ max` -/
theorem min_max_together (f : Stairs Rat) (lo hi : Option Rat) (c : IClosed) :
    (minIn f lo hi c = none ↔ maxIn f lo hi c = none) ∧
    (∀ m M, minIn f lo hi c = some m → maxIn f lo hi c = some M → m ≤ M) :=
  ⟨(listMin_eq_none _).trans (listMax_eq_none _).symm, fun m M hm hM => C10.min_le_max f lo hi c m M hm hM⟩

/-- **`min = max` iff at most one value is taken** (list form, no hypothesis) -/
theorem min_eq_max_iff_values (f : Stairs Rat) (lo hi : Option Rat) (c : IClosed) :
    minIn f lo hi c = maxIn f lo hi c ↔ (valuesInRange f lo hi c).length ≤ 1 := by
  unfold minIn maxIn
  rw [w10b_listMin_eq_listMax_iff, w10b_all_eq_iff_length _ (C10.values_in_range_sorted f lo hi c)]

/-- **`min = max` iff `f` is constant on the defined part of the window** -/
theorem min_eq_max_iff_const (f : Stairs Rat) (hf : f.WF) (lo hi : Option Rat) (c : IClosed)
    (hb : boundsOk lo hi = true) :
    minIn f lo hi c = maxIn f lo hi c ↔
      ∀ x y v w, inInterval c lo hi x → inInterval c lo hi y → f.sample x = some v → f.sample y = some w → v = w := by
  unfold minIn maxIn
  rw [w10b_listMin_eq_listMax_iff]
  constructor
  · intro h x y v w hx hy hv hw
    exact h v ((mem_valuesInRange f hf lo hi c hb v).mpr ⟨x, hx, hv⟩) w
      ((mem_valuesInRange f hf lo hi c hb w).mpr ⟨y, hy, hw⟩)
  · intro h v hv w hw
    obtain ⟨x, hx, hxv⟩ := (mem_valuesInRange f hf lo hi c hb v).mp hv
    obtain ⟨y, hy, hyw⟩ := (mem_valuesInRange f hf lo hi c hb w).mp hw
    exact h x y v w hx hy hxv hyw

/-- … in which case the mean (when defined) is that constant -/
theorem mean_of_min_eq_max (f : Stairs Rat) (hf : f.WF) (a b : Rat) (hab : a < b) (c : IClosed) (m : Rat)
    (hm : mean (window f a b) = some m) (h : minIn f (some a) (some b) c = maxIn f (some a) (some b) c) :
    minIn f (some a) (some b) c = some m := by
  obtain ⟨lo, hi, h1, h2, h3, h4⟩ := mean_between_min_max f hf a b hab c m hm
  rw [h1, h2] at h
  injection h with h
  rw [h1, le_antisymm h3 (by rw [h]; exact h4)]

/-- non-vacuity: C08's `f₀` over `[1/2, 9/2]` (mean `7/3`, values `1`, `3`); `fL` over `[2, 4)` is constant -/
example : C08.f₀.WF ∧ mean (window C08.f₀ (1/2) (9/2)) = some (7/3) ∧
    minIn C08.f₀ (some (1/2)) (some (9/2)) .neither = some 1 ∧ maxIn C08.f₀ (some (1/2)) (some (9/2)) .neither = some 3 ∧
    mean C08.f₀ = some 2 ∧ minIn C08.f₀ none none .left = some 1 ∧ maxIn C08.f₀ none none .left = some 3 := by
  decide +kernel
example : minIn C10.fL (some 2) (some 4) .left = some 3 ∧ maxIn C10.fL (some 2) (some 4) .left = some 3 ∧
    valuesInRange C10.fL (some 2) (some 4) .left = [3] ∧ mean (window C10.fL 2 4) = some 3 ∧
    minIn C10.fL (some 2) (some 6) .both ≠ maxIn C10.fL (some 2) (some 6) .both := by decide +kernel

/-! ## 4. the whole line: `min()` / `max()` without a window, and `percentile(0)` / `percentile(100)`

`f.min()` is `minIn f none none c` (any `c`; `Driver.lean` passes the default).  The value *distribution*
(`value_sums`, `percentile`, …) only sees the **finite** pieces; `min` / `max` also see the two **unbounded** pieces
(initial value, value after the last step point).  Exactly:

  `min = fmin (initial value, percentile 0, last value)`,  `max = fmax (initial value, percentile 100, last value)`

(`min_whole_eq`, NaN-ignoring `fmin`; `percentile` is NaN when there is no defined finite piece), hence
`min ≤ percentile 0 ≤ percentile 100 ≤ max` with strict inequalities possible (`min_lt_percentile_zero`), and
equality for functions undefined on both unbounded pieces, in particular for every slice / clipped window
(`min_eq_percentile_zero_of_bounded`, `percentile_window_eq_min`). -/

/-- the values over the whole line: initial value, values of the finite defined pieces, last value -/
theorem values_whole (f : Stairs Rat) (c : IClosed) (v : Rat) :
    v ∈ valuesInRange f none none c ↔
      f.init = some v ∨ (∃ len, (v, len) ∈ definedPieces f.steps) ∨ lastVal f.init f.steps = some v := by
  rw [w10b_mem_vir_whole]
  by_cases hne : f.steps = []
  · rw [hne]; simp [lastVal, definedPieces, pieces]
  · rw [w10b_mem_vals_iff f.init f.steps v hne]

/-- the closedness argument is immaterial without a window -/
theorem values_whole_closed_irrelevant (f : Stairs Rat) (c c' : IClosed) :
    valuesInRange f none none c = valuesInRange f none none c' :=
  w10b_sorted_ext _ _ (C10.values_in_range_sorted f _ _ c) (C10.values_in_range_sorted f _ _ c') (fun v => by
    rw [w10b_mem_vir_whole, w10b_mem_vir_whole])

/-- no defined finite piece: every percentile is NaN -/
theorem percentile_none (f : Stairs Rat) (h : definedPieces f.steps = []) (p : Rat) : percentile f p = none := by
  have hsh : shares f = [] := by
    rw [C08.shares_spec, (C08.valueSums_eq_nil_iff f).mpr h]; rfl
  simp [percentile, xtiles, hsh, cumsum]

/-- `percentile 0` / `percentile 100` are the least / greatest value of the finite defined pieces (NaN iff none) -/
theorem percentile_zero_isLeast (f : Stairs Rat) (hf : f.WF) :
    IsLeastVal (fun v => ∃ len, (v, len) ∈ definedPieces f.steps) (percentile f 0) := by
  by_cases hne : definedPieces f.steps = []
  · rw [percentile_none f hne]
    intro w ⟨len, h⟩; rw [hne] at h; simp at h
  · obtain ⟨m, hm, h1, h2⟩ := C09.percentile_zero_is_min f hf hne
    rw [hm]
    exact ⟨h1, fun w ⟨len, h⟩ => h2 (w, len) h⟩
theorem percentile_hundred_isGreatest (f : Stairs Rat) (hf : f.WF) :
    IsGreatestVal (fun v => ∃ len, (v, len) ∈ definedPieces f.steps) (percentile f 100) := by
  by_cases hne : definedPieces f.steps = []
  · rw [percentile_none f hne]
    intro w ⟨len, h⟩; rw [hne] at h; simp at h
  · obtain ⟨m, hm, h1, h2⟩ := C09.percentile_hundred_is_max f hf hne
    rw [hm]
    exact ⟨h1, fun w ⟨len, h⟩ => h2 (w, len) h⟩

/-- **`min()` / `max()` over the whole line versus the distribution** -/
theorem min_whole_eq (f : Stairs Rat) (hf : f.WF) (c : IClosed) :
    minIn f none none c = fminV f.init (fminV (percentile f 0) (lastVal f.init f.steps)) ∧
    maxIn f none none c = fmaxV f.init (fmaxV (percentile f 100) (lastVal f.init f.steps)) := by
  constructor
  · have h1 := isLeastVal_insert _ _ (lastVal f.init f.steps) (percentile_zero_isLeast f hf)
    have h2 := isLeastVal_insert _ _ f.init h1
    rw [fminV_comm] at h2
    refine isLeastVal_unique (fun w => w ∈ valuesInRange f none none c) _ _
      (isLeastVal_listMin _ _ (fun _ => Iff.rfl)) (isLeastVal_congr _ _ _ (fun w => ?_) h2)
    rw [values_whole]; tauto
  · have h1 := isGreatestVal_insert _ _ (lastVal f.init f.steps) (percentile_hundred_isGreatest f hf)
    have h2 := isGreatestVal_insert _ _ f.init h1
    rw [fmaxV_comm] at h2
    refine isGreatestVal_unique (fun w => w ∈ valuesInRange f none none c) _ _
      (isGreatestVal_listMax _ _ (fun _ => Iff.rfl)) (isGreatestVal_congr _ _ _ (fun w => ?_) h2)
    rw [values_whole]; tauto

/-- **`min ≤ percentile 0 ≤ percentile 100 ≤ max`** -/
theorem min_le_percentiles_le_max (f : Stairs Rat) (hf : f.WF) (c : IClosed) (p0 : Rat)
    (h0 : percentile f 0 = some p0) :
    ∃ m p100 M, minIn f none none c = some m ∧ percentile f 100 = some p100 ∧ maxIn f none none c = some M ∧
      m ≤ p0 ∧ p0 ≤ p100 ∧ p100 ≤ M := by
  have hne : definedPieces f.steps ≠ [] := fun h => by rw [percentile_none f h] at h0; cases h0
  obtain ⟨q0, hq0, ⟨l0, hl0⟩, hmin⟩ := C09.percentile_zero_is_min f hf hne
  obtain ⟨p100, h100, ⟨l1, hl1⟩, hmax⟩ := C09.percentile_hundred_is_max f hf hne
  rw [h0] at hq0; injection hq0 with hq0; subst hq0
  have m0 : p0 ∈ valuesInRange f none none c := (values_whole f c p0).mpr (Or.inr (Or.inl ⟨l0, hl0⟩))
  have m1 : p100 ∈ valuesInRange f none none c := (values_whole f c p100).mpr (Or.inr (Or.inl ⟨l1, hl1⟩))
  obtain ⟨m, hm⟩ : ∃ m, minIn f none none c = some m := by
    cases h : minIn f none none c with
    | none => unfold minIn at h; rw [(listMin_eq_none _).mp h] at m0; simp at m0
    | some m => exact ⟨m, rfl⟩
  obtain ⟨M, hM⟩ : ∃ M, maxIn f none none c = some M := by
    cases h : maxIn f none none c with
    | none => unfold maxIn at h; rw [(listMax_eq_none _).mp h] at m0; simp at m0
    | some M => exact ⟨M, rfl⟩
  exact ⟨m, p100, M, hm, h100, hM, (listMin_spec_w _ m hm).2 p0 m0, hmax (p0, l0) hl0, (listMax_spec_w _ M hM).2 p100 m1⟩

/-- `g₃`: `0` on the unbounded left piece, `5` on `[0,1)`, `7` on `[1,2)`, `100` on the unbounded right piece -/
def g₃ : Stairs Rat := ⟨some 0, [(0, some 5), (1, some 7), (2, some 100)], .left⟩

/-- **`min() = percentile(0)` and `max() = percentile(100)` are refuted**: the unbounded pieces count for the extremes
but not for the distribution -/
theorem min_lt_percentile_zero :
    g₃.Canonical ∧ minIn g₃ none none .left = some 0 ∧ percentile g₃ 0 = some 5 ∧ percentile g₃ 100 = some 7 ∧
    maxIn g₃ none none .left = some 100 ∧ minIn g₃ none none .left ≠ percentile g₃ 0 ∧
    maxIn g₃ none none .left ≠ percentile g₃ 100 := by decide +kernel

/-- a step-free or one-step function has extremes but an empty distribution -/
theorem extremes_without_distribution :
    minIn (⟨some 1, [(0, some 2)], .left⟩ : Stairs Rat) none none .left = some 1 ∧
    maxIn (⟨some 1, [(0, some 2)], .left⟩ : Stairs Rat) none none .left = some 2 ∧
    percentile (⟨some 1, [(0, some 2)], .left⟩ : Stairs Rat) 0 = none ∧
    percentile (⟨some 1, [(0, some 2)], .left⟩ : Stairs Rat) 100 = none := by decide +kernel

/-- **corrected statement**: for a function undefined on both unbounded pieces the two notions agree -/
theorem min_eq_percentile_zero_of_bounded (f : Stairs Rat) (hf : f.WF) (c : IClosed)
    (hb : f.init = none ∧ lastVal f.init f.steps = none) :
    minIn f none none c = percentile f 0 ∧ maxIn f none none c = percentile f 100 := by
  obtain ⟨h1, h2⟩ := min_whole_eq f hf c
  rw [h1, h2, hb.2, hb.1, fminV_none_left, fminV_none_right, fmaxV_none_left, fmaxV_none_right]
  exact ⟨rfl, rfl⟩

/-- more generally whenever the values of the two unbounded pieces also occur on finite pieces (or are undefined) -/
theorem min_eq_percentile_zero_of_covered (f : Stairs Rat) (hf : f.WF) (c : IClosed)
    (hi : ∀ v, f.init = some v → ∃ len, (v, len) ∈ definedPieces f.steps)
    (hl : ∀ v, lastVal f.init f.steps = some v → ∃ len, (v, len) ∈ definedPieces f.steps) :
    minIn f none none c = percentile f 0 ∧ maxIn f none none c = percentile f 100 := by
  have hiff : ∀ w, w ∈ valuesInRange f none none c ↔ ∃ len, (w, len) ∈ definedPieces f.steps := by
    intro w; rw [values_whole]
    constructor
    · rintro (h | h | h)
      · exact hi w h
      · exact h
      · exact hl w h
    · intro h; exact Or.inr (Or.inl h)
  exact ⟨isLeastVal_unique _ _ _ (isLeastVal_listMin _ _ hiff) (percentile_zero_isLeast f hf),
    isGreatestVal_unique _ _ _ (isGreatestVal_listMax _ _ hiff) (percentile_hundred_isGreatest f hf)⟩

/-- **a clipped window** (`f.clip(a, b)`, i.e. a slice): its `percentile 0 / 100` are its own `min() / max()` and equal
the windowed `min / max` of `f` over the interval closed on f's own side -/
theorem percentile_window_eq_min (f : Stairs Rat) (hf : f.WF) (a b : Rat) (hab : a < b) (c : IClosed) :
    percentile (window f a b) 0 = minIn (window f a b) none none c ∧
    percentile (window f a b) 100 = maxIn (window f a b) none none c ∧
    percentile (window f a b) 0 = minIn f (some a) (some b) (defaultIClosed f.closed) ∧
    percentile (window f a b) 100 = maxIn f (some a) (some b) (defaultIClosed f.closed) := by
  have hW := wf_window f a b hf hab
  have hb : boundsOk (some a) (some b) = true := boundsOk_of_lt hab
  obtain ⟨e1, e2⟩ := min_eq_percentile_zero_of_bounded (window f a b) hW c (window_bounded f a b hf hab)
  refine ⟨e1.symm, e2.symm, ?_, ?_⟩
  · rw [← e1]
    exact isLeastVal_unique _ _ _
      (isLeastVal_congr _ _ _ (valuesOn_clip f _ hf _ _ hb (clip_window f a b hab) c) (minIn_isLeast _ hW none none c rfl))
      (minIn_isLeast f hf _ _ _ hb)
  · rw [← e2]
    exact isGreatestVal_unique _ _ _
      (isGreatestVal_congr _ _ _ (valuesOn_clip f _ hf _ _ hb (clip_window f a b hab) c)
        (maxIn_isGreatest _ hW none none c rfl))
      (maxIn_isGreatest f hf _ _ _ hb)

/-- non-vacuity: `fR` cut to `(2, 8]` — values `3`, NaN, `5` -/
example : percentile (window C10.fR 2 8) 0 = some 3 ∧ percentile (window C10.fR 2 8) 100 = some 5 ∧
    minIn C10.fR (some 2) (some 8) .right = some 3 ∧ maxIn C10.fR (some 2) (some 8) .right = some 5 ∧
    minIn C10.fR (some 2) (some 8) .both = some 1 := by decide +kernel
example : g₃.WF ∧ fminV g₃.init (fminV (percentile g₃ 0) (lastVal g₃.init g₃.steps)) = some 0 ∧
    fmaxV g₃.init (fmaxV (percentile g₃ 100) (lastVal g₃.init g₃.steps)) = some 100 := by decide +kernel

/-! ## 5. slicer consistency

For every proper interval `I = (l, r)` of the slicing index and every closedness `c` of the index the slicer extreme is
literally the windowed extreme of the original function (`slicer_extreme_eq_window`, from the two specifications
`C11.slicer_max_spec` and `C10.max_isGreatest`), for the whole index at once (`slicer_extremes_eq_windows`), and in terms of the
slice `s = f.clip(l, r)` itself: `percentile(s, 100)` combined with the one end point the slice cannot see
(`slicer_max_eq_percentile`).  The slicer `mean` / `integral` / `var` are by definition the windowed statistics of C08b
(`slicer_stat_eq_window`), so `slicer min ≤ slicer mean ≤ slicer max` (`slicer_mean_between`).  A degenerate interval
`l = r` is where the two sides part: the slicer raises, the windowed extreme does not (`slicer_degenerate_differs`). -/

/-- **slicer extreme = windowed extreme** (both model functions, one proper interval) -/
theorem slicer_extreme_eq_window (f : Stairs Rat) (hf : f.WF) (c : IClosed) (iv : Iv) (h : iv.1 < iv.2) :
    slicerExtreme true f c iv = .ok (maxIn f (some iv.1) (some iv.2) c) ∧
    slicerExtreme false f c iv = .ok (minIn f (some iv.1) (some iv.2) c) :=
  C11.slicer_extreme_eq_window f hf c iv h

/-- … for the whole slicing index — unordered, overlapping or gapped alike -/
theorem slicer_extremes_eq_windows (f : Stairs Rat) (hf : f.WF) (c : IClosed) (ivs : List Iv) (hp : Proper ivs) :
    ivs.map (slicerExtreme true f c) = ivs.map (fun iv => .ok (maxIn f (some iv.1) (some iv.2) c)) ∧
    ivs.map (slicerExtreme false f c) = ivs.map (fun iv => .ok (minIn f (some iv.1) (some iv.2) c)) :=
  ⟨List.map_congr_left (fun iv hiv => (slicer_extreme_eq_window f hf c iv (hp iv hiv)).1),
   List.map_congr_left (fun iv hiv => (slicer_extreme_eq_window f hf c iv (hp iv hiv)).2)⟩

/-- … and slice by slice, as `slices` produces them -/
theorem slices_extreme (f : Stairs Rat) (hf : f.WF) (c : IClosed) (ivs : List Iv) (k : Nat) (hk : k < ivs.length)
    (h : ivs[k].1 < ivs[k].2) :
    ∃ s, (slices f ivs)[k]? = some (.ok s) ∧
      slicerExtreme true f c ivs[k] = .ok (fmaxV (maxIn s none none (defaultIClosed s.closed)) (endpointSample f c ivs[k])) ∧
      fmaxV (maxIn s none none (defaultIClosed s.closed)) (endpointSample f c ivs[k]) = maxIn f (some ivs[k].1) (some ivs[k].2) c ∧
      slicerExtreme false f c ivs[k] = .ok (fminV (minIn s none none (defaultIClosed s.closed)) (endpointSample f c ivs[k])) ∧
      fminV (minIn s none none (defaultIClosed s.closed)) (endpointSample f c ivs[k]) = minIn f (some ivs[k].1) (some ivs[k].2) c := by
  obtain ⟨s, hs, _, _, _⟩ := C11.slices_spec f hf ivs k hk h
  have hclip : clip f (some ivs[k].1) (some ivs[k].2) = .ok s := by
    rw [List.getElem?_eq_getElem (by rw [C11.slices_length]; exact hk), C11.slices_getElem f ivs k hk] at hs
    injection hs
  have e1 := slicerExtreme_eq true f s c ivs[k] hclip
  have e2 := slicerExtreme_eq false f s c ivs[k] hclip
  simp only [if_true, Bool.false_eq_true, if_false] at e1 e2
  obtain ⟨w1, w2⟩ := slicer_extreme_eq_window f hf c ivs[k] h
  refine ⟨s, hs, e1, ?_, e2, ?_⟩
  · rw [e1] at w1; injection w1
  · rw [e2] at w2; injection w2

/-- the slicer extreme through the slice's own distribution: `percentile 100 / 0` of the slice plus the missing end point -/
theorem slicer_max_eq_percentile (f : Stairs Rat) (hf : f.WF) (c : IClosed) (iv : Iv) (h : iv.1 < iv.2) :
    slicerExtreme true f c iv = .ok (fmaxV (percentile (window f iv.1 iv.2) 100) (endpointSample f c iv)) ∧
    slicerExtreme false f c iv = .ok (fminV (percentile (window f iv.1 iv.2) 0) (endpointSample f c iv)) := by
  have hclip := clip_window f iv.1 iv.2 h
  have e1 := slicerExtreme_eq true f _ c iv hclip
  have e2 := slicerExtreme_eq false f _ c iv hclip
  simp only [if_true, Bool.false_eq_true, if_false] at e1 e2
  obtain ⟨p1, p2, _, _⟩ := percentile_window_eq_min f hf iv.1 iv.2 h (defaultIClosed (window f iv.1 iv.2).closed)
  rw [e1, e2, p1, p2]
  exact ⟨rfl, rfl⟩

/-- when the index is closed like `f` (or open) nothing is added: slicer extreme = `percentile 100 / 0` of the slice -/
theorem slicer_extreme_own_side (f : Stairs Rat) (hf : f.WF) (c : IClosed) (iv : Iv) (h : iv.1 < iv.2)
    (hc : slicerEndpoint f.closed c = none) :
    slicerExtreme true f c iv = .ok (percentile (window f iv.1 iv.2) 100) ∧
    slicerExtreme false f c iv = .ok (percentile (window f iv.1 iv.2) 0) := by
  obtain ⟨h1, h2⟩ := slicer_max_eq_percentile f hf c iv h
  have he : endpointSample f c iv = none := by unfold endpointSample; rw [hc]
  rw [h1, h2, he, fmaxV_none_right, fminV_none_right]
  exact ⟨rfl, rfl⟩

/-- **slicer `mean` / `integral` / `var` are the windowed statistics of C08b** (same model function, by definition) … -/
theorem slicer_stat_eq_window (f : Stairs Rat) (iv : Iv) :
    C11.slicerStat mean f iv = C08b.meanIn f (some iv.1) (some iv.2) ∧
    C11.slicerStat integral f iv = C08b.integralIn f (some iv.1) (some iv.2) ∧
    C11.slicerStat var f iv = C08b.varIn f (some iv.1) (some iv.2) := ⟨rfl, rfl, rfl⟩

/-- … in closed form on a proper interval: NaN where `f` is undefined throughout, else integral sum (/ defined length) -/
theorem slicer_mean_integral (f : Stairs Rat) (hf : f.WF) (iv : Iv) (h : iv.1 < iv.2) :
    C11.slicerStat mean f iv
      = .ok (if lenOn f iv.1 iv.2 = 0 then none else some (intOn f iv.1 iv.2 / lenOn f iv.1 iv.2)) ∧
    C11.slicerStat integral f iv = .ok (if lenOn f iv.1 iv.2 = 0 then none else some (intOn f iv.1 iv.2)) := by
  obtain ⟨_, hi, hm, _⟩ := C08b.statsIn_ok f iv.1 iv.2 h
  rw [(slicer_stat_eq_window f iv).1, (slicer_stat_eq_window f iv).2.1, hi, hm, C08b.mean_window,
    C08b.integral_window f hf _ _ h]
  exact ⟨rfl, rfl⟩

/-- … for the whole index -/
theorem slicer_means_eq_windows (f : Stairs Rat) (ivs : List Iv) :
    ivs.map (C11.slicerStat mean f) = ivs.map (fun iv => C08b.meanIn f (some iv.1) (some iv.2)) ∧
    ivs.map (C11.slicerStat integral f) = ivs.map (fun iv => C08b.integralIn f (some iv.1) (some iv.2)) :=
  ⟨rfl, rfl⟩

/-- **slicer min ≤ slicer mean ≤ slicer max**, any closedness of the index -/
theorem slicer_mean_between (f : Stairs Rat) (hf : f.WF) (c : IClosed) (iv : Iv) (h : iv.1 < iv.2) (m : Rat)
    (hm : C11.slicerStat mean f iv = .ok (some m)) :
    ∃ lo hi, slicerExtreme false f c iv = .ok (some lo) ∧ slicerExtreme true f c iv = .ok (some hi) ∧ lo ≤ m ∧ m ≤ hi := by
  rw [(slicer_stat_eq_window f iv).1] at hm
  obtain ⟨lo, hi, h1, h2, h3, h4⟩ := meanIn_between_min_max f hf iv.1 iv.2 h c m hm
  obtain ⟨e1, e2⟩ := slicer_extreme_eq_window f hf c iv h
  exact ⟨lo, hi, by rw [e2, h1], by rw [e1, h2], h3, h4⟩

/-- adjacent slices: the extreme over `(a, c)` is the NaN-ignoring combination of the slicer extremes of `(a, b)`, `(b, c)` -/
theorem slicer_extreme_union (f : Stairs Rat) (hf : f.WF) (c : IClosed) (a b d : Rat) (hab : a < b) (hbd : b < d) :
    ∃ m₁ m₂ n₁ n₂, slicerExtreme true f c (a, b) = .ok m₁ ∧ slicerExtreme true f c (b, d) = .ok m₂ ∧
      slicerExtreme true f c (a, d) = .ok (fmaxV m₁ m₂) ∧
      slicerExtreme false f c (a, b) = .ok n₁ ∧ slicerExtreme false f c (b, d) = .ok n₂ ∧
      slicerExtreme false f c (a, d) = .ok (fminV n₁ n₂) := by
  obtain ⟨u1, u2⟩ := max_min_union f hf (some a) (some d) b c c c (boundsOk_of_lt hab) (boundsOk_of_lt hbd) rfl rfl
  refine ⟨_, _, _, _, (slicer_extreme_eq_window f hf c (a, b) hab).1, (slicer_extreme_eq_window f hf c (b, d) hbd).1, ?_,
    (slicer_extreme_eq_window f hf c (a, b) hab).2, (slicer_extreme_eq_window f hf c (b, d) hbd).2, ?_⟩
  · rw [(slicer_extreme_eq_window f hf c (a, d) (lt_trans hab hbd)).1]; exact congrArg _ u1
  · rw [(slicer_extreme_eq_window f hf c (a, d) (lt_trans hab hbd)).2]; exact congrArg _ u2

/-- **a degenerate interval `[4, 4]`**: the slicer raises `ValueError` (from `clip`), the windowed extreme is the value
at the point — the equality of the two model functions needs a proper interval -/
theorem slicer_degenerate_differs :
    slicerExtreme true C11.fR .both (4, 4) = .error .valueError ∧ maxIn C11.fR (some 4) (some 4) .both = some 3 ∧
    C11.slicerStat mean C11.fR (4, 4) = .error .valueError := by decide +kernel

/-- non-vacuity (C11's right-closed `fR`, 'both'-closed index with an overlapping and an all-NaN slice) -/
example : Proper [((2 : Rat), (6 : Rat)), (4, 8), (4, 6)] := by
  intro iv h
  simp only [List.mem_cons, List.not_mem_nil, or_false] at h
  rcases h with rfl | rfl | rfl <;> decide +kernel
example : [((2 : Rat), (6 : Rat)), (4, 8), (4, 6)].map (slicerExtreme true C11.fR .both)
      = [.ok (some 3), .ok (some 5), .ok (some 3)] ∧
    [((2 : Rat), (6 : Rat)), (4, 8), (4, 6)].map (fun iv => maxIn C11.fR (some iv.1) (some iv.2) .both)
      = [some 3, some 5, some 3] ∧
    [((2 : Rat), (6 : Rat)), (4, 8), (4, 6)].map (C11.slicerStat mean C11.fR) = [.ok (some 3), .ok (some 5), .ok none] ∧
    [((2 : Rat), (6 : Rat)), (4, 8), (4, 6)].map (slicerExtreme false C11.fR .both)
      = [.ok (some 1), .ok (some 3), .ok (some 3)] := by decide +kernel
example : percentile (window C11.fR 2 6) 100 = some 3 ∧ endpointSample C11.fR .both (2, 6) = some 1 ∧
    percentile (window C11.fR 2 6) 0 = some 3 ∧ slicerEndpoint C11.fR.closed .right = none := by decide +kernel

end SC.Props.C10b
