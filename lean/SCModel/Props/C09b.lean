import SCModel.Props.C09
import Mathlib.Data.Rat.Floor
/-!
# C09b — order laws of the distribution functions

With `shares f` = `(value, share of the defined length)` (C08/C09) and `cdfAt f side y` the one-sided limit of
the ecdf (`C09.ecdf_limit`: `(ecdf f).limit side y = some (cdfAt f side y)`; `side = left`: share of `f < y`,
`side = right`: share of `f ≤ y`):

1. **ecdf** – monotone in `y` for both limits and across the limits, values in `[0, 1]`, `0` below the
   minimum (the left limit still `0` *at* the minimum), `1` from the maximum on (the left limit only *above*
   it); the last two are equivalences.
2. **percentile** – monotone in `p` (for all `p`, in particular on `[0, 100]`), lies between any lower and
   upper bound of the values, in particular between `percentile 0` (the minimum) and `percentile 100` (the
   maximum); the same for `fractile`.
3. **shares** – (positivity is `C09.shares_pos`, Σ = 1 is `C08.shares_sum_one`) each share is ≤ 1, the total is
   1 for a well-formed function with a defined finite piece and 0 otherwise.
4. **hist** – every probability of an ordered bin lies in `[0, 1]`; the probabilities of bins such that every
   value lies in exactly one bin sum to 1 (`hist_probability_partition`, generalising
   `C09.hist_probability_all`); for the consecutive bins of a list of breaks the probabilities telescope
   (`hist_probability_breaks`), so they sum to 1 when the breaks span all values; the `sum` statistic over a
   partition adds up to the defined length; the default unit bins always cover all values, so the default
   probability histogram sums to 1 (`hist_unitBins_total`).
-/
set_option linter.unusedSectionVars false
namespace SC.Props.C09b
open SC SC.Stairs SC.Props.C08 SC.Props.C09

/-! ## Helpers -/
section Helpers

theorem a09b_shares_nonneg (f : Stairs Rat) (hf : f.WF) : ∀ e ∈ shares f, 0 ≤ e.2 :=
  fun e he => le_of_lt (shares_pos f hf e he)

/-- sums of non-negative entries over a smaller filter are smaller -/
theorem a09b_filter_mono (L : List (Rat × Rat)) (hL : ∀ e ∈ L, 0 ≤ e.2) (A B : Rat × Rat → Bool)
    (h : ∀ e ∈ L, A e = true → B e = true) :
    sumBy (·.2) (L.filter A) ≤ sumBy (·.2) (L.filter B) := by
  rw [sumBy_filter, sumBy_filter]
  apply sumBy_le_sumBy
  intro e he
  by_cases hA : A e = true
  · rw [if_pos hA, if_pos (h e he hA)]
  · rw [if_neg hA]
    by_cases hB : B e = true
    · rw [if_pos hB]; exact hL e he
    · rw [if_neg hB]

theorem a09b_filter_le_total (L : List (Rat × Rat)) (hL : ∀ e ∈ L, 0 ≤ e.2) (A : Rat × Rat → Bool) :
    sumBy (·.2) (L.filter A) ≤ sumBy (·.2) L := by
  have := a09b_filter_mono L hL A (fun _ => true) (fun _ _ _ => rfl)
  rwa [List.filter_true] at this

theorem a09b_filter_nonneg (L : List (Rat × Rat)) (hL : ∀ e ∈ L, 0 ≤ e.2) (A : Rat × Rat → Bool) :
    0 ≤ sumBy (·.2) (L.filter A) :=
  sumBy_nonneg _ _ fun e he => hL e (List.mem_filter.mp he).1

/-- with positive entries a filtered sum vanishes only for the empty filter -/
theorem a09b_filter_eq_zero_iff (L : List (Rat × Rat)) (hL : ∀ e ∈ L, 0 < e.2) (A : Rat × Rat → Bool) :
    sumBy (·.2) (L.filter A) = 0 ↔ ∀ e ∈ L, A e = false := by
  constructor
  · intro h e he
    by_contra hA
    have hA' : A e = true := by simpa using hA
    have hne : L.filter A ≠ [] := by
      intro hnil
      have : e ∈ L.filter A := List.mem_filter.mpr ⟨he, hA'⟩
      rw [hnil] at this; cases this
    have := sumBy_pos (fun e : Rat × Rat => e.2) _ hne fun a ha => hL a (List.mem_filter.mp ha).1
    linarith
  · intro h
    rw [List.filter_eq_nil_iff.mpr]
    · rfl
    · intro e he; rw [h e he]; simp

/-- a filter and its complement split the total -/
theorem a09b_filter_compl (L : List (Rat × Rat)) (A : Rat × Rat → Bool) :
    sumBy (·.2) (L.filter A) + sumBy (·.2) (L.filter fun e => !A e) = sumBy (·.2) L := by
  rw [sumBy_filter, sumBy_filter, ← sumBy_add]
  apply sumBy_congr
  intro e _
  cases A e <;> simp

theorem a09b_shares_eq_nil_iff (f : Stairs Rat) : shares f = [] ↔ definedPieces f.steps = [] := by
  rw [← valueSums_eq_nil_iff, shares_spec]
  exact List.map_eq_nil_iff

theorem a09b_definedLength_ne_zero (f : Stairs Rat) (hf : f.WF) (hne : definedPieces f.steps ≠ []) :
    definedLength f ≠ 0 := ne_of_gt (definedLength_pos f hf hne)

theorem a09b_mem_share_keys (f : Stairs Rat) (v : Rat) :
    v ∈ (shares f).map Prod.fst ↔ ∃ len, (v, len) ∈ definedPieces f.steps := by
  rw [shares_keys, valueSums_keys]

theorem a09b_share_key_of_mem (f : Stairs Rat) (e : Rat × Rat) (he : e ∈ shares f) :
    ∃ len, (e.1, len) ∈ definedPieces f.steps :=
  (a09b_mem_share_keys f e.1).mp (List.mem_map.mpr ⟨e, he, rfl⟩)

theorem a09b_share_of_piece (f : Stairs Rat) (vl : Rat × Rat) (h : vl ∈ definedPieces f.steps) :
    ∃ s, (vl.1, s) ∈ shares f := by
  obtain ⟨e, he, hk⟩ := List.mem_map.mp ((a09b_mem_share_keys f vl.1).mpr ⟨vl.2, h⟩)
  exact ⟨e.2, by rw [← hk]; exact he⟩

/-! ### the lower / upper quantile `firstUnreached` -/

theorem a09b_FU_mem (st : Bool) (scale x d : Rat) (cs : List (Rat × Rat)) :
    firstUnreached st scale x d cs ∈ d :: cs.map Prod.fst := by
  induction cs generalizing d with
  | nil => simp [firstUnreached]
  | cons a r ih =>
    obtain ⟨v, c⟩ := a
    simp only [firstUnreached]
    split
    · exact List.mem_cons_of_mem _ (by simpa using ih v)
    · simp

theorem a09b_FU_mem_keys (st : Bool) (scale x d : Rat) (cs : List (Rat × Rat)) (hne : cs ≠ []) :
    firstUnreached st scale x d cs ∈ cs.map Prod.fst := by
  cases cs with
  | nil => exact absurd rfl hne
  | cons a r =>
    obtain ⟨v, c⟩ := a
    simp only [firstUnreached]
    split
    · simpa using a09b_FU_mem st scale x v r
    · simp

theorem a09b_FU_ge (st : Bool) (scale x d : Rat) (cs : List (Rat × Rat))
    (h : ∀ k ∈ cs.map Prod.fst, d ≤ k) : d ≤ firstUnreached st scale x d cs := by
  rcases List.mem_cons.mp (a09b_FU_mem st scale x d cs) with h' | h'
  · rw [h']
  · exact h _ h'

/-- the quantile is monotone in the query point and in the limit side: if everything reached at `(st, x)` is
reached at `(st', x')`, the quantile can only grow (values sorted increasingly) -/
theorem a09b_FU_mono (st st' : Bool) (scale x x' : Rat)
    (hr : ∀ p, reached st p x = true → reached st' p x' = true) (d : Rat) (cs : List (Rat × Rat))
    (hs : (cs.map Prod.fst).Pairwise (· < ·)) :
    firstUnreached st scale x d cs ≤ firstUnreached st' scale x' d cs := by
  induction cs generalizing d with
  | nil => exact le_refl _
  | cons a r ih =>
    obtain ⟨v, c⟩ := a
    simp only [List.map_cons, List.pairwise_cons] at hs
    simp only [firstUnreached]
    cases h1 : reached st (c * scale) x
    · simp only [Bool.false_eq_true, if_false]
      split
      · exact a09b_FU_ge st' scale x' v r fun k hk => le_of_lt (hs.1 k hk)
      · exact le_refl _
    · rw [hr _ h1]
      simp only [if_true]
      exact ih v hs.2

theorem a09b_reached_mono_x (st : Bool) (x x' : Rat) (h : x ≤ x') (p : Rat) (hp : reached st p x = true) :
    reached st p x' = true := by
  cases st
  · rw [reached_right_iff] at hp ⊢; exact le_trans hp h
  · rw [reached_left_iff] at hp ⊢; exact lt_of_lt_of_le hp h

theorem a09b_cum_keys_sorted (f : Stairs Rat) : ((cumsum 0 (shares f)).map Prod.fst).Pairwise (· < ·) := by
  rw [cumsum_keys]; exact ksorted_shares f

theorem a09b_cum_ne_nil (f : Stairs Rat) (h : shares f ≠ []) : cumsum 0 (shares f) ≠ [] := by
  intro hc
  have := length_cumsum 0 (shares f)
  rw [hc] at this
  exact h (List.length_eq_zero_iff.mp this.symm)

/-- the quantile is a value taken on a defined finite piece -/
theorem a09b_FU_is_value (f : Stairs Rat) (h : shares f ≠ []) (st : Bool) (scale x d : Rat) :
    ∃ len, (firstUnreached st scale x d (cumsum 0 (shares f)), len) ∈ definedPieces f.steps := by
  have := a09b_FU_mem_keys st scale x d _ (a09b_cum_ne_nil f h)
  rw [cumsum_keys] at this
  exact (a09b_mem_share_keys f _).mp this

/-! ### double counting over bins -/

/-- Σ over bins of the filtered sums = Σ over entries of entry × number of bins containing it -/
theorem a09b_sum_swap {β : Type} (S : List (Rat × Rat)) (bins : List β) (R : β → Rat → Bool) :
    sumBy (fun b => sumBy (·.2) (S.filter fun vs => R b vs.1)) bins
      = sumBy (fun vs => vs.2 * ((bins.filter fun b => R b vs.1).length : Rat)) S := by
  induction bins with
  | nil =>
    simp only [sumBy_nil, List.filter_nil, List.length_nil, Nat.cast_zero, mul_zero]
    exact (sumBy_const_zero S).symm
  | cons b r ih =>
    rw [sumBy_cons, ih, sumBy_filter, ← sumBy_add]
    apply sumBy_congr
    intro vs _
    rw [List.filter_cons]
    cases R b vs.1
    · simp
    · simp only [if_true, List.length_cons, Nat.cast_add, Nat.cast_one]; ring

/-! ### integer bins -/

theorem a09b_ratFloor_eq (q : Rat) : ratFloor q = ⌊q⌋ := by
  unfold ratFloor; rw [Rat.floor_def']

theorem a09b_ratCeil_eq (q : Rat) : ratCeil q = ⌈q⌉ := by
  unfold ratCeil; rw [a09b_ratFloor_eq, Int.floor_neg, neg_neg]

theorem a09b_intBins_telescope (g : Rat → Rat) (a : Int) (n : Nat) :
    sumBy (fun lr => g lr.2 - g lr.1) (intBins a n) = g (((a + (n : Int) : Int)) : Rat) - g (a : Rat) := by
  induction n generalizing a with
  | zero => simp [intBins]
  | succ n ih =>
    rw [intBins, sumBy_cons, ih (a + 1)]
    have : a + 1 + (n : Int) = a + ((n + 1 : Nat) : Int) := by push_cast; ring
    rw [this]
    simp only
    ring

theorem a09b_le_getLast (l : List Rat) (hl : l ≠ []) (hs : l.Pairwise (· < ·)) : ∀ x ∈ l, x ≤ l.getLast hl := by
  intro x hx
  have hsplit := List.dropLast_append_getLast hl
  rw [← hsplit] at hx hs
  rcases List.mem_append.mp hx with h | h
  · exact le_of_lt ((List.pairwise_append.mp hs).2.2 x h _ (by simp))
  · simp at h; exact le_of_eq h

end Helpers

/-! ## 1. ecdf -/

/-- the ecdf is defined everywhere, with values in `[0, 1]` (both limits) -/
theorem cdfAt_range (f : Stairs Rat) (hf : f.WF) (side : Side) (y : Rat) :
    0 ≤ cdfAt f side y ∧ cdfAt f side y ≤ 1 := by
  have hnn := a09b_shares_nonneg f hf
  have htot : sumBy (·.2) (shares f) ≤ 1 := by
    by_cases hne : definedPieces f.steps = []
    · rw [(a09b_shares_eq_nil_iff f).mpr hne]; simp
    · exact le_of_eq (shares_sum_one f (a09b_definedLength_ne_zero f hf hne))
  cases side
  · exact ⟨a09b_filter_nonneg _ hnn _, le_trans (a09b_filter_le_total _ hnn _) htot⟩
  · exact ⟨a09b_filter_nonneg _ hnn _, le_trans (a09b_filter_le_total _ hnn _) htot⟩

/-- **monotone in `y`**, for each of the two limits -/
theorem cdfAt_mono (f : Stairs Rat) (hf : f.WF) (side : Side) (y y' : Rat) (h : y ≤ y') :
    cdfAt f side y ≤ cdfAt f side y' := by
  have hnn := a09b_shares_nonneg f hf
  cases side
  · exact a09b_filter_mono _ hnn _ _ fun e _ he => by
      simp only [decide_eq_true_eq] at he ⊢; exact lt_of_lt_of_le he h
  · exact a09b_filter_mono _ hnn _ _ fun e _ he => by
      simp only [decide_eq_true_eq] at he ⊢; exact le_trans he h

/-- the left limit is below the right limit at the same point … -/
theorem cdfAt_left_le_right (f : Stairs Rat) (hf : f.WF) (y : Rat) : cdfAt f .left y ≤ cdfAt f .right y :=
  a09b_filter_mono _ (a09b_shares_nonneg f hf) _ _ fun e _ he => by
    simp only [decide_eq_true_eq] at he ⊢; exact le_of_lt he

/-- … and the right limit at `y` is below the left limit at any later point -/
theorem cdfAt_right_le_left (f : Stairs Rat) (hf : f.WF) (y y' : Rat) (h : y < y') :
    cdfAt f .right y ≤ cdfAt f .left y' :=
  a09b_filter_mono _ (a09b_shares_nonneg f hf) _ _ fun e _ he => by
    simp only [decide_eq_true_eq] at he ⊢; exact lt_of_le_of_lt he h

/-- **C09b.1** the ecdf as an object: defined at every `y`, in `[0, 1]`, monotone – both limit sides -/
theorem ecdf_monotone (f : Stairs Rat) (hf : f.WF) (side : Side) (y y' : Rat) (h : y ≤ y') :
    ∃ a b, (ecdf f).limit side y = some a ∧ (ecdf f).limit side y' = some b ∧ 0 ≤ a ∧ a ≤ b ∧ b ≤ 1 :=
  ⟨_, _, ecdf_limit f side y, ecdf_limit f side y', (cdfAt_range f hf side y).1, cdfAt_mono f hf side y y' h,
    (cdfAt_range f hf side y').2⟩

/-- the sampled ecdf `ecdf(y)` (= the right limit, the ecdf being left-closed) likewise -/
theorem ecdf_sample_monotone (f : Stairs Rat) (hf : f.WF) (y y' : Rat) (h : y ≤ y') :
    ∃ a b, (ecdf f).sample y = some a ∧ (ecdf f).sample y' = some b ∧ 0 ≤ a ∧ a ≤ b ∧ b ≤ 1 := by
  rw [ecdf_sample, ecdf_sample]; exact ecdf_monotone f hf .right y y' h

/-- across the sides: left limit ≤ value ≤ left limit at any later point -/
theorem ecdf_sides (f : Stairs Rat) (hf : f.WF) (y y' : Rat) (h : y < y') :
    ∃ a b c, (ecdf f).limit .left y = some a ∧ (ecdf f).limit .right y = some b ∧
      (ecdf f).limit .left y' = some c ∧ a ≤ b ∧ b ≤ c :=
  ⟨_, _, _, ecdf_limit f .left y, ecdf_limit f .right y, ecdf_limit f .left y',
    cdfAt_left_le_right f hf y, cdfAt_right_le_left f hf y y' h⟩

/-- **0 below the minimum**: the right limit (= the value) is 0 exactly when every value exceeds `y` … -/
theorem ecdf_right_eq_zero_iff (f : Stairs Rat) (hf : f.WF) (y : Rat) :
    (ecdf f).limit .right y = some 0 ↔ ∀ vl ∈ definedPieces f.steps, y < vl.1 := by
  rw [ecdf_limit, Option.some.injEq]
  show sumBy (·.2) ((shares f).filter fun vs => decide (vs.1 ≤ y)) = 0 ↔ _
  rw [a09b_filter_eq_zero_iff _ (shares_pos f hf)]
  constructor
  · intro h vl hvl
    obtain ⟨s, hs⟩ := a09b_share_of_piece f vl hvl
    have := h _ hs
    simpa using this
  · intro h e he
    obtain ⟨len, hlen⟩ := a09b_share_key_of_mem f e he
    have := h _ hlen
    simpa using this

/-- … and the left limit is 0 exactly when no value is below `y` (so still 0 *at* the minimum) -/
theorem ecdf_left_eq_zero_iff (f : Stairs Rat) (hf : f.WF) (y : Rat) :
    (ecdf f).limit .left y = some 0 ↔ ∀ vl ∈ definedPieces f.steps, y ≤ vl.1 := by
  rw [ecdf_limit, Option.some.injEq]
  show sumBy (·.2) ((shares f).filter fun vs => decide (vs.1 < y)) = 0 ↔ _
  rw [a09b_filter_eq_zero_iff _ (shares_pos f hf)]
  constructor
  · intro h vl hvl
    obtain ⟨s, hs⟩ := a09b_share_of_piece f vl hvl
    have := h _ hs
    simpa using this
  · intro h e he
    obtain ⟨len, hlen⟩ := a09b_share_key_of_mem f e he
    have := h _ hlen
    simpa using this

/-- **1 from the maximum on** (non-empty distribution): the right limit is 1 exactly when no value exceeds `y` … -/
theorem ecdf_right_eq_one_iff (f : Stairs Rat) (hf : f.WF) (hne : definedPieces f.steps ≠ []) (y : Rat) :
    (ecdf f).limit .right y = some 1 ↔ ∀ vl ∈ definedPieces f.steps, vl.1 ≤ y := by
  rw [ecdf_limit, Option.some.injEq]
  show sumBy (·.2) ((shares f).filter fun vs => decide (vs.1 ≤ y)) = 1 ↔ _
  have hc := a09b_filter_compl (shares f) fun vs => decide (vs.1 ≤ y)
  rw [shares_sum_one f (a09b_definedLength_ne_zero f hf hne)] at hc
  have hz := a09b_filter_eq_zero_iff (shares f) (shares_pos f hf) fun vs => !decide (vs.1 ≤ y)
  constructor
  · intro h vl hvl
    obtain ⟨s, hs⟩ := a09b_share_of_piece f vl hvl
    have := hz.mp (by linarith) _ hs
    simpa using this
  · intro h
    have : sumBy (·.2) ((shares f).filter fun vs => !decide (vs.1 ≤ y)) = 0 := by
      apply hz.mpr
      intro e he
      obtain ⟨len, hlen⟩ := a09b_share_key_of_mem f e he
      have := h _ hlen
      simpa using this
    linarith

/-- … and the left limit is 1 exactly when every value is below `y` -/
theorem ecdf_left_eq_one_iff (f : Stairs Rat) (hf : f.WF) (hne : definedPieces f.steps ≠ []) (y : Rat) :
    (ecdf f).limit .left y = some 1 ↔ ∀ vl ∈ definedPieces f.steps, vl.1 < y := by
  rw [ecdf_limit, Option.some.injEq]
  show sumBy (·.2) ((shares f).filter fun vs => decide (vs.1 < y)) = 1 ↔ _
  have hc := a09b_filter_compl (shares f) fun vs => decide (vs.1 < y)
  rw [shares_sum_one f (a09b_definedLength_ne_zero f hf hne)] at hc
  have hz := a09b_filter_eq_zero_iff (shares f) (shares_pos f hf) fun vs => !decide (vs.1 < y)
  constructor
  · intro h vl hvl
    obtain ⟨s, hs⟩ := a09b_share_of_piece f vl hvl
    have := hz.mp (by linarith) _ hs
    simpa using this
  · intro h
    have : sumBy (·.2) ((shares f).filter fun vs => !decide (vs.1 < y)) = 0 := by
      apply hz.mpr
      intro e he
      obtain ⟨len, hlen⟩ := a09b_share_key_of_mem f e he
      have := h _ hlen
      simpa using this
    linarith

/-- an empty distribution has the zero ecdf (so the non-emptiness hypothesis above is needed) -/
theorem ecdf_empty (f : Stairs Rat) (h : definedPieces f.steps = []) (side : Side) (y : Rat) :
    (ecdf f).limit side y = some 0 := by
  rw [ecdf_limit]
  unfold cdfAt
  rw [(a09b_shares_eq_nil_iff f).mpr h]
  cases side <;> rfl

/-! ## 2. percentile -/

/-- lower quantile ≤ upper quantile, both monotone in `p`, and the upper quantile at `p` is below the lower
quantile at any later point -/
theorem quantile_mono (f : Stairs Rat) (st : Bool) (scale p p' d : Rat) (h : p ≤ p') :
    firstUnreached st scale p d (cumsum 0 (shares f)) ≤ firstUnreached st scale p' d (cumsum 0 (shares f)) :=
  a09b_FU_mono st st scale p p' (a09b_reached_mono_x st p p' h) d _ (a09b_cum_keys_sorted f)

theorem quantile_lower_le_upper (f : Stairs Rat) (scale p d : Rat) :
    firstUnreached true scale p d (cumsum 0 (shares f)) ≤ firstUnreached false scale p d (cumsum 0 (shares f)) :=
  a09b_FU_mono true false scale p p (fun q hq => by
    rw [reached_left_iff] at hq; rw [reached_right_iff]; exact le_of_lt hq) d _ (a09b_cum_keys_sorted f)

theorem quantile_upper_le_lower (f : Stairs Rat) (scale p p' d : Rat) (h : p < p') :
    firstUnreached false scale p d (cumsum 0 (shares f)) ≤ firstUnreached true scale p' d (cumsum 0 (shares f)) :=
  a09b_FU_mono false true scale p p' (fun q hq => by
    rw [reached_right_iff] at hq; rw [reached_left_iff]; exact lt_of_le_of_lt hq h) d _ (a09b_cum_keys_sorted f)

/-- **C09b.2 percentile is monotone in `p`** – for all `p ≤ p'`, in particular on `[0, 100]` -/
theorem percentile_mono (f : Stairs Rat) (hf : f.WF) (p p' : Rat) (h : p ≤ p') (a b : Rat)
    (ha : percentile f p = some a) (hb : percentile f p' = some b) : a ≤ b := by
  by_cases hsh : shares f = []
  · rw [percentile_none f hsh] at ha; cases ha
  · rw [percentile_eq_midpoint f hf hsh, Option.some.injEq] at ha hb
    have h1 := quantile_mono f true 100 p p' 0 h
    have h2 := quantile_mono f false 100 p p' 0 h
    rw [← ha, ← hb]; linarith

/-- percentiles exist for every `p` exactly when there is a defined finite piece -/
theorem percentile_isSome_iff (f : Stairs Rat) (hf : f.WF) (p : Rat) :
    (percentile f p).isSome = true ↔ definedPieces f.steps ≠ [] := by
  constructor
  · intro h hd; rw [percentile_none f ((a09b_shares_eq_nil_iff f).mpr hd)] at h; cases h
  · intro h
    rw [percentile_eq_midpoint f hf fun hs => h ((a09b_shares_eq_nil_iff f).mp hs)]; rfl

/-- **percentile lies between min and max**: any lower (upper) bound of the values taken on defined finite
pieces is a lower (upper) bound of every percentile -/
theorem percentile_between (f : Stairs Rat) (hf : f.WF) (p a : Rat) (ha : percentile f p = some a) (lo hi : Rat)
    (hlo : ∀ vl ∈ definedPieces f.steps, lo ≤ vl.1) (hhi : ∀ vl ∈ definedPieces f.steps, vl.1 ≤ hi) :
    lo ≤ a ∧ a ≤ hi := by
  by_cases hsh : shares f = []
  · rw [percentile_none f hsh] at ha; cases ha
  · rw [percentile_eq_midpoint f hf hsh, Option.some.injEq] at ha
    obtain ⟨l1, h1⟩ := a09b_FU_is_value f hsh true 100 p 0
    obtain ⟨l2, h2⟩ := a09b_FU_is_value f hsh false 100 p 0
    have a1 := hlo _ h1; have a2 := hlo _ h2
    have b1 := hhi _ h1; have b2 := hhi _ h2
    simp only at a1 a2 b1 b2
    rw [← ha]; constructor <;> linarith

/-- … in particular `percentile 0 ≤ percentile p ≤ percentile 100` for EVERY `p` (also outside `[0, 100]`) -/
theorem percentile_between_extremes (f : Stairs Rat) (hf : f.WF) (p a : Rat) (ha : percentile f p = some a) :
    ∃ m M, percentile f 0 = some m ∧ percentile f 100 = some M ∧ m ≤ a ∧ a ≤ M := by
  have hne : definedPieces f.steps ≠ [] :=
    (percentile_isSome_iff f hf p).mp (by rw [ha]; rfl)
  obtain ⟨m, hm, _, hmin⟩ := percentile_zero_is_min f hf hne
  obtain ⟨M, hM, _, hmax⟩ := percentile_hundred_is_max f hf hne
  obtain ⟨h1, h2⟩ := percentile_between f hf p a ha m M hmin hmax
  exact ⟨m, M, hm, hM, h1, h2⟩

/-- the percentile lies between the lower and the upper quantile at `p` -/
theorem percentile_between_quantiles (f : Stairs Rat) (hf : f.WF) (p a : Rat) (ha : percentile f p = some a) :
    firstUnreached true 100 p 0 (cumsum 0 (shares f)) ≤ a ∧
    a ≤ firstUnreached false 100 p 0 (cumsum 0 (shares f)) := by
  by_cases hsh : shares f = []
  · rw [percentile_none f hsh] at ha; cases ha
  · rw [percentile_eq_midpoint f hf hsh, Option.some.injEq] at ha
    have := quantile_lower_le_upper f 100 p 0
    rw [← ha]; constructor <;> linarith

/-- the same laws for `fractile` (= percentile at `100·p`) and the median -/
theorem fractile_mono (f : Stairs Rat) (hf : f.WF) (p p' : Rat) (h : p ≤ p') (a b : Rat)
    (ha : fractile f p = some a) (hb : fractile f p' = some b) : a ≤ b := by
  rw [fractile_eq_percentile] at ha hb
  exact percentile_mono f hf (100 * p) (100 * p') (by linarith) a b ha hb

theorem fractile_between (f : Stairs Rat) (hf : f.WF) (p a : Rat) (ha : fractile f p = some a) (lo hi : Rat)
    (hlo : ∀ vl ∈ definedPieces f.steps, lo ≤ vl.1) (hhi : ∀ vl ∈ definedPieces f.steps, vl.1 ≤ hi) :
    lo ≤ a ∧ a ≤ hi := by
  rw [fractile_eq_percentile] at ha
  exact percentile_between f hf _ a ha lo hi hlo hhi

theorem median_between (f : Stairs Rat) (hf : f.WF) (a : Rat) (ha : median f = some a) (lo hi : Rat)
    (hlo : ∀ vl ∈ definedPieces f.steps, lo ≤ vl.1) (hhi : ∀ vl ∈ definedPieces f.steps, vl.1 ≤ hi) :
    lo ≤ a ∧ a ≤ hi := percentile_between f hf 50 a ha lo hi hlo hhi

/-! ## 3. shares
positivity: `C09.shares_pos`;  Σ shares = 1 when `definedLength f ≠ 0`: `C08.shares_sum_one`. -/

/-- the total of the shares is 1 for a well-formed function with a defined finite piece, else 0 -/
theorem shares_total (f : Stairs Rat) (hf : f.WF) :
    sumBy (·.2) (shares f) = if definedPieces f.steps = [] then 0 else 1 := by
  by_cases hne : definedPieces f.steps = []
  · rw [if_pos hne, (a09b_shares_eq_nil_iff f).mpr hne]; rfl
  · rw [if_neg hne]; exact shares_sum_one f (a09b_definedLength_ne_zero f hf hne)

/-- every share lies in `(0, 1]` -/
theorem shares_le_one (f : Stairs Rat) (hf : f.WF) (e : Rat × Rat) (he : e ∈ shares f) : 0 < e.2 ∧ e.2 ≤ 1 := by
  refine ⟨shares_pos f hf e he, ?_⟩
  have hne : definedPieces f.steps ≠ [] := by
    intro h; rw [(a09b_shares_eq_nil_iff f).mpr h] at he; cases he
  have htot := shares_sum_one f (a09b_definedLength_ne_zero f hf hne)
  have hle : sumBy (·.2) ((shares f).filter fun x => decide (x = e)) ≤ sumBy (·.2) (shares f) :=
    a09b_filter_le_total _ (a09b_shares_nonneg f hf) _
  have hmem : e ∈ (shares f).filter fun x => decide (x = e) := List.mem_filter.mpr ⟨he, by simp⟩
  have hge : e.2 ≤ sumBy (·.2) ((shares f).filter fun x => decide (x = e)) := by
    obtain ⟨l₁, l₂, hsplit⟩ := List.append_of_mem hmem
    rw [hsplit, sumBy_append, sumBy_cons]
    have hnn : ∀ x ∈ (shares f).filter fun x => decide (x = e), 0 ≤ x.2 :=
      fun x hx => a09b_shares_nonneg f hf x (List.mem_filter.mp hx).1
    have h1 := sumBy_nonneg (fun x : Rat × Rat => x.2) l₁ fun x hx => hnn x (by rw [hsplit]; simp [hx])
    have h2 := sumBy_nonneg (fun x : Rat × Rat => x.2) l₂ fun x hx => hnn x (by rw [hsplit]; simp [hx])
    linarith
  linarith

/-- the values of the shares are exactly the values taken on defined finite pieces -/
theorem shares_values (f : Stairs Rat) (v : Rat) :
    v ∈ (shares f).map Prod.fst ↔ ∃ len, (v, len) ∈ definedPieces f.steps := a09b_mem_share_keys f v

/-- the last cumulative share (the top of the ecdf) is 1 -/
theorem cumsum_last_one (f : Stairs Rat) (hf : f.WF) (S₁ : List (Rat × Rat)) (v s : Rat)
    (hsh : shares f = S₁ ++ [(v, s)]) : ∃ C₁, cumsum 0 (shares f) = C₁ ++ [(v, 1)] := by
  have hne : definedPieces f.steps ≠ [] := by
    intro h; rw [(a09b_shares_eq_nil_iff f).mpr h] at hsh; simp at hsh
  have htot := shares_sum_one f (a09b_definedLength_ne_zero f hf hne)
  rw [hsh, sumBy_append] at htot
  simp only [sumBy_cons, sumBy_nil, add_zero] at htot
  refine ⟨cumsum 0 S₁, ?_⟩
  rw [hsh, cumsum_append, cumsum_cons, cumsum_nil, zero_add, htot]

/-! ## 4. hist -/

/-- every probability of an ordered bin is a share in `[0, 1]` -/
theorem binShare_range (f : Stairs Rat) (hf : f.WF) (closed : Side) (lr : Rat × Rat) :
    0 ≤ binShare f closed lr ∧ binShare f closed lr ≤ 1 := by
  have hnn := a09b_shares_nonneg f hf
  refine ⟨a09b_filter_nonneg _ hnn _, le_trans (a09b_filter_le_total _ hnn _) ?_⟩
  rw [shares_total f hf]; split <;> simp

theorem hist_probability_range (f : Stairs Rat) (hf : f.WF) (bins : List (Rat × Rat)) (closed : Side)
    (hb : ∀ lr ∈ bins, lr.1 ≤ lr.2) :
    ∃ ps : List Rat, hist f bins closed .probability = ps.map some ∧ ps.length = bins.length ∧
      ∀ x ∈ ps, 0 ≤ x ∧ x ≤ 1 := by
  refine ⟨bins.map (binShare f closed), ?_, by simp, ?_⟩
  · rw [hist_probability f bins closed hb, List.map_map]; rfl
  · intro x hx
    obtain ⟨lr, _, rfl⟩ := List.mem_map.mp hx
    exact binShare_range f hf closed lr

/-- Σ over arbitrary ordered bins of the probabilities = Σ over values of share × number of bins containing
the value -/
theorem hist_probability_count (f : Stairs Rat) (bins : List (Rat × Rat)) (closed : Side) :
    sumBy (binShare f closed) bins
      = sumBy (fun vs => vs.2 * ((bins.filter fun lr => inBin closed lr vs.1).length : Rat)) (shares f) :=
  a09b_sum_swap (shares f) bins (inBin closed)

/-- **C09b.4** the probabilities over ordered bins such that every value taken on a defined finite piece lies
in exactly one bin sum to 1 -/
theorem hist_probability_partition (f : Stairs Rat) (hf : f.WF) (hne : definedPieces f.steps ≠ [])
    (bins : List (Rat × Rat)) (closed : Side) (hb : ∀ lr ∈ bins, lr.1 ≤ lr.2)
    (hpart : ∀ vl ∈ definedPieces f.steps, (bins.filter fun lr => inBin closed lr vl.1).length = 1) :
    ∃ ps : List Rat, hist f bins closed .probability = ps.map some ∧ ps.length = bins.length ∧ ps.sum = 1 := by
  refine ⟨bins.map (binShare f closed), ?_, by simp, ?_⟩
  · rw [hist_probability f bins closed hb, List.map_map]; rfl
  · show sumBy (binShare f closed) bins = 1
    rw [hist_probability_count, ← shares_sum_one f (a09b_definedLength_ne_zero f hf hne)]
    apply sumBy_congr
    intro e he
    obtain ⟨len, hlen⟩ := a09b_share_key_of_mem f e he
    rw [hpart _ hlen]; simp

/-- … and the `sum` statistic over such a partition adds up to the total defined length -/
theorem hist_sum_partition (f : Stairs Rat) (hf : f.WF) (hne : definedPieces f.steps ≠ [])
    (bins : List (Rat × Rat)) (closed : Side) (hb : ∀ lr ∈ bins, lr.1 ≤ lr.2)
    (hpart : ∀ vl ∈ definedPieces f.steps, (bins.filter fun lr => inBin closed lr vl.1).length = 1) :
    ∃ ls : List Rat, hist f bins closed .sum = ls.map some ∧ ls.length = bins.length ∧
      ls.sum = definedLength f := by
  have hD := a09b_definedLength_ne_zero f hf hne
  refine ⟨bins.map (binLength f closed), ?_, by simp, ?_⟩
  · rw [hist_sum f bins closed hb hD, List.map_map]; rfl
  · show sumBy (binLength f closed) bins = definedLength f
    have h1 : sumBy (binLength f closed) bins = sumBy (fun lr => binShare f closed lr * definedLength f) bins :=
      sumBy_congr _ _ _ fun lr _ => (binShare_mul f hD closed lr).symm
    rw [h1, sumBy_mul_right]
    obtain ⟨ps, _, _, hsum⟩ := hist_probability_partition f hf hne bins closed hb hpart
    have h2 : sumBy (binShare f closed) bins = 1 := by
      rw [hist_probability_count, ← shares_sum_one f hD]
      apply sumBy_congr
      intro e he
      obtain ⟨len, hlen⟩ := a09b_share_key_of_mem f e he
      rw [hpart _ hlen]; simp
    rw [h2, one_mul]

/-- the consecutive bins `(b₀,b₁), (b₁,b₂), …` of a list of breaks -/
def consecutive : List Rat → List (Rat × Rat)
  | a :: b :: r => (a, b) :: consecutive (b :: r)
  | _ => []

theorem consecutive_cons_cons (a b : Rat) (r : List Rat) :
    consecutive (a :: b :: r) = (a, b) :: consecutive (b :: r) := rfl

/-- the probabilities of consecutive bins **telescope** (no ordering of the breaks is needed) -/
theorem consecutive_telescope (g : Rat → Rat) (b₀ : Rat) (rest : List Rat) :
    sumBy (fun lr => g lr.2 - g lr.1) (consecutive (b₀ :: rest)) = g ((b₀ :: rest).getLast (by simp)) - g b₀ := by
  induction rest generalizing b₀ with
  | nil => simp [consecutive]
  | cons b r ih =>
    rw [consecutive_cons_cons, sumBy_cons, ih b]
    simp only [List.getLast_cons_cons]
    ring

/-- **hist over breaks**: the probabilities over the consecutive bins of `b₀ :: rest` add up to
`ecdf(last) − ecdf(b₀)` (limits on the bins' closed side) -/
theorem hist_probability_breaks (f : Stairs Rat) (closed : Side) (b₀ : Rat) (rest : List Rat) :
    ∃ ps : List Rat, hist f (consecutive (b₀ :: rest)) closed .probability = ps.map some ∧
      ps.sum = cdfAt f closed ((b₀ :: rest).getLast (by simp)) - cdfAt f closed b₀ := by
  refine ⟨(consecutive (b₀ :: rest)).map fun lr => cdfAt f closed lr.2 - cdfAt f closed lr.1, ?_, ?_⟩
  · rw [hist_unfold, List.map_map]; rfl
  · exact consecutive_telescope (cdfAt f closed) b₀ rest

/-- … hence to 1 when the breaks span all values: every value in `[b₀, last)` for left-closed bins, in
`(b₀, last]` for right-closed bins -/
theorem hist_probability_breaks_total (f : Stairs Rat) (hf : f.WF) (hne : definedPieces f.steps ≠ [])
    (closed : Side) (b₀ : Rat) (rest : List Rat)
    (hall : ∀ vl ∈ definedPieces f.steps,
      inBin closed (b₀, (b₀ :: rest).getLast (by simp)) vl.1 = true) :
    ∃ ps : List Rat, hist f (consecutive (b₀ :: rest)) closed .probability = ps.map some ∧ ps.sum = 1 := by
  obtain ⟨ps, h1, h2⟩ := hist_probability_breaks f closed b₀ rest
  refine ⟨ps, h1, ?_⟩
  rw [h2]
  cases closed
  · have e1 := (ecdf_left_eq_one_iff f hf hne ((b₀ :: rest).getLast (by simp))).mpr fun vl hvl => by
      have := hall vl hvl; simp only [inBin, Bool.and_eq_true, decide_eq_true_eq] at this; exact this.2
    have e0 := (ecdf_left_eq_zero_iff f hf b₀).mpr fun vl hvl => by
      have := hall vl hvl; simp only [inBin, Bool.and_eq_true, decide_eq_true_eq] at this; exact this.1
    rw [ecdf_limit, Option.some.injEq] at e1 e0
    rw [e1, e0]; ring
  · have e1 := (ecdf_right_eq_one_iff f hf hne ((b₀ :: rest).getLast (by simp))).mpr fun vl hvl => by
      have := hall vl hvl; simp only [inBin, Bool.and_eq_true, decide_eq_true_eq] at this; exact this.2
    have e0 := (ecdf_right_eq_zero_iff f hf b₀).mpr fun vl hvl => by
      have := hall vl hvl; simp only [inBin, Bool.and_eq_true, decide_eq_true_eq] at this; exact this.1
    rw [ecdf_limit, Option.some.injEq] at e1 e0
    rw [e1, e0]; ring

/-! ### the default bins (`bins="unit"`) -/

/-- the probabilities over `n` consecutive unit bins starting at the integer `a` telescope -/
theorem hist_intBins (f : Stairs Rat) (closed : Side) (a : Int) (n : Nat) :
    ∃ ps : List Rat, hist f (intBins a n) closed .probability = ps.map some ∧
      ps.length = (intBins a n).length ∧
      ps.sum = cdfAt f closed ((a + (n : Int) : Int) : Rat) - cdfAt f closed (a : Rat) := by
  refine ⟨(intBins a n).map fun lr => cdfAt f closed lr.2 - cdfAt f closed lr.1, ?_, by simp, ?_⟩
  · rw [hist_unfold, List.map_map]; rfl
  · exact a09b_intBins_telescope (cdfAt f closed) a n

/-- **the default histogram sums to 1**: the unit bins `unitBins f closed` that `hist` uses by default
(`[⌊min⌋, ⌊max⌋+1)` in unit steps for left-closed, `(⌈min⌉−1, ⌈max⌉]` for right-closed bins) always cover
all values, so the probabilities add up to 1 -/
theorem hist_unitBins_total (f : Stairs Rat) (hf : f.WF) (hne : definedPieces f.steps ≠ []) (closed : Side) :
    ∃ ps : List Rat, hist f (unitBins f closed) closed .probability = ps.map some ∧
      ps.length = (unitBins f closed).length ∧ ps.sum = 1 := by
  cases hk : (valueSums f).map (·.1) with
  | nil =>
    exfalso
    apply hne
    rw [← valueSums_eq_nil_iff]
    exact List.map_eq_nil_iff.mp hk
  | cons v r =>
    have hsorted : (v :: r).Pairwise (· < ·) := by rw [← hk]; exact valueSums_sorted f
    have hmem : ∀ vl ∈ definedPieces f.steps, vl.1 ∈ v :: r := fun vl hvl => by
      rw [← hk]; exact (valueSums_keys f vl.1).mpr ⟨vl.2, hvl⟩
    have hlo : ∀ vl ∈ definedPieces f.steps, v ≤ vl.1 := fun vl hvl => by
      rcases List.mem_cons.mp (hmem vl hvl) with h | h
      · exact le_of_eq h.symm
      · exact le_of_lt ((List.pairwise_cons.mp hsorted).1 _ h)
    have hhi : ∀ vl ∈ definedPieces f.steps, vl.1 ≤ (v :: r).getLast (by simp) := fun vl hvl =>
      a09b_le_getLast (v :: r) (by simp) hsorted _ (hmem vl hvl)
    have hvhi : v ≤ (v :: r).getLast (by simp) := a09b_le_getLast (v :: r) (by simp) hsorted v (by simp)
    have hlast : (v :: r).getLast! = (v :: r).getLast (by simp) := rfl
    generalize (v :: r).getLast (by simp) = hi at hhi hvhi hlast
    cases closed
    · -- left-closed bins `[k, k+1)` from ⌊lo⌋ to ⌊hi⌋ + 1
      have hb : unitBins f .left = intBins ⌊v⌋ ((⌊hi⌋ + 1 - ⌊v⌋).toNat) := by
        unfold unitBins; rw [hk]; simp only [hlast, a09b_ratFloor_eq]
      have hn : ⌊v⌋ + ((⌊hi⌋ + 1 - ⌊v⌋).toNat : Int) = ⌊hi⌋ + 1 := by
        have : ⌊v⌋ ≤ ⌊hi⌋ := Int.floor_le_floor hvhi
        omega
      obtain ⟨ps, h1, h2, h3⟩ := hist_intBins f .left ⌊v⌋ ((⌊hi⌋ + 1 - ⌊v⌋).toNat)
      refine ⟨ps, by rw [hb]; exact h1, by rw [hb]; exact h2, ?_⟩
      rw [h3, hn]
      have e1 := (ecdf_left_eq_one_iff f hf hne ((⌊hi⌋ + 1 : Int) : Rat)).mpr fun vl hvl =>
        lt_of_le_of_lt (hhi vl hvl) (by push_cast; exact Int.lt_floor_add_one hi)
      have e0 := (ecdf_left_eq_zero_iff f hf (⌊v⌋ : Rat)).mpr fun vl hvl =>
        le_trans (Int.floor_le v) (hlo vl hvl)
      rw [ecdf_limit, Option.some.injEq] at e1 e0
      rw [e1, e0]; ring
    · -- right-closed bins `(k, k+1]` from ⌈lo⌉ − 1 to ⌈hi⌉
      have hb : unitBins f .right = intBins (⌈v⌉ - 1) ((⌈hi⌉ - (⌈v⌉ - 1)).toNat) := by
        unfold unitBins; rw [hk]; simp only [hlast, a09b_ratCeil_eq]
      have hn : (⌈v⌉ - 1) + ((⌈hi⌉ - (⌈v⌉ - 1)).toNat : Int) = ⌈hi⌉ := by
        have : ⌈v⌉ ≤ ⌈hi⌉ := Int.ceil_le_ceil hvhi
        omega
      obtain ⟨ps, h1, h2, h3⟩ := hist_intBins f .right (⌈v⌉ - 1) ((⌈hi⌉ - (⌈v⌉ - 1)).toNat)
      refine ⟨ps, by rw [hb]; exact h1, by rw [hb]; exact h2, ?_⟩
      rw [h3, hn]
      have e1 := (ecdf_right_eq_one_iff f hf hne ((⌈hi⌉ : Int) : Rat)).mpr fun vl hvl =>
        le_trans (hhi vl hvl) (Int.le_ceil hi)
      have e0 := (ecdf_right_eq_zero_iff f hf ((⌈v⌉ - 1 : Int) : Rat)).mpr fun vl hvl =>
        lt_of_lt_of_le (by push_cast; linarith [Int.ceil_lt_add_one v]) (hlo vl hvl)
      rw [ecdf_limit, Option.some.injEq] at e1 e0
      rw [e1, e0]; ring

/-! ## 5. non-vacuity
`C09.h₀`: value 1 on [0,1), 3 on [1,4) — shares 1/4, 3/4.  `C08.f₀`: values 1,·,3,1,(3) on lengths 1,1,2,1. -/

example : h₀.WF ∧ definedPieces h₀.steps ≠ [] := by decide +kernel
example : (ecdf h₀).limit .left 1 = some 0 ∧ (ecdf h₀).limit .right 1 = some (1/4) ∧
    (ecdf h₀).limit .left 3 = some (1/4) ∧ (ecdf h₀).limit .right 3 = some 1 ∧
    (ecdf h₀).limit .left (7/2) = some 1 ∧ (ecdf h₀).limit .right (1/2) = some 0 := by decide +kernel
example : ∃ a b, (ecdf h₀).limit .left 2 = some a ∧ (ecdf h₀).limit .left 3 = some b ∧ 0 ≤ a ∧ a ≤ b ∧ b ≤ 1 :=
  ecdf_monotone h₀ (by decide +kernel) .left 2 3 (by decide +kernel)
example : percentile h₀ 10 = some 1 ∧ percentile h₀ 25 = some 2 ∧ percentile h₀ 60 = some 3 ∧
    percentile h₀ (-5) = some 1 ∧ percentile h₀ 250 = some 3 := by decide +kernel
example : (1 : Rat) ≤ 2 := percentile_mono h₀ (by decide +kernel) 10 25 (by decide +kernel) 1 2
  (by decide +kernel) (by decide +kernel)
example : ∃ m M, percentile h₀ 0 = some m ∧ percentile h₀ 100 = some M ∧ m ≤ 2 ∧ 2 ≤ M :=
  percentile_between_extremes h₀ (by decide +kernel) 25 2 (by decide +kernel)
example : sumBy (·.2) (shares C08.f₀) = 1 ∧ shares C08.f₀ = [(1, 1/2), (3, 1/2)] := by decide +kernel
-- a partition that is not made of consecutive bins (and not sorted): every value in exactly one bin
example : hist h₀ [(2, 5), (0, 2)] .left .probability = [some (3/4), some (1/4)] ∧
    (∀ lr ∈ [((2 : Rat), (5 : Rat)), (0, 2)], lr.1 ≤ lr.2) ∧
    (∀ vl ∈ definedPieces h₀.steps,
      (([((2 : Rat), (5 : Rat)), (0, 2)]).filter fun lr => inBin .left lr vl.1).length = 1) := by decide +kernel
example : ∃ ps : List Rat, hist h₀ [(2, 5), (0, 2)] .left .probability = ps.map some ∧ ps.length = 2 ∧ ps.sum = 1 :=
  hist_probability_partition h₀ (by decide +kernel) (by decide +kernel) _ .left (by decide +kernel)
    (by decide +kernel)
-- overlapping bins: the hypothesis fails and so does the conclusion (value 3 is counted twice)
example : hist h₀ [(0, 4), (2, 5)] .left .probability = [some 1, some (3/4)] := by decide +kernel
-- breaks
example : consecutive [1, 2, 3, 4] = [(1, 2), (2, 3), (3, 4)] ∧
    hist h₀ (consecutive [1, 2, 3, 4]) .left .probability = [some (1/4), some 0, some (3/4)] ∧
    hist h₀ (consecutive [0, 1, 2, 3]) .right .probability = [some (1/4), some 0, some (3/4)] := by decide +kernel
-- right-closed bins must start strictly below the minimum: breaks 1,2,3 lose the value 1
example : hist h₀ (consecutive [1, 2, 3]) .right .probability = [some 0, some (3/4)] := by decide +kernel
-- default unit bins (the values 1 and 3 of `h₀`; 1/2 and 5/2 of the shifted copy)
def h₁ : Stairs Rat := ⟨none, [(0, some (1/2)), (1, some (5/2)), (4, none)], .left⟩
example : unitBins h₁ .left = [(0, 1), (1, 2), (2, 3)] ∧ unitBins h₁ .right = [(0, 1), (1, 2), (2, 3)] ∧
    unitBins h₀ .right = [(0, 1), (1, 2), (2, 3)] ∧ unitBins h₀ .left = [(1, 2), (2, 3), (3, 4)] ∧
    hist h₁ (unitBins h₁ .left) .left .probability = [some (1/4), some 0, some (3/4)] ∧
    hist h₀ (unitBins h₀ .right) .right .probability = [some (1/4), some 0, some (3/4)] := by decide +kernel
example : ∃ ps : List Rat, hist h₁ (unitBins h₁ .right) .right .probability = ps.map some ∧
    ps.length = (unitBins h₁ .right).length ∧ ps.sum = 1 :=
  hist_unitBins_total h₁ (by decide +kernel) (by decide +kernel) .right

end SC.Props.C09b
