import SCModel.Lemmas.Stats
/-!
# C08 — value_sums / integral / mean / var over the finite defined pieces

`pieces s` are the finite pieces `(left, right, value)` of a row list, `definedPieces s` the `(value, length)`
of those on which the function is defined.  Everything below is about `Stairs Rat` (`Model/Stats.lean`).
The model has no `std` (it is `sqrt (var)`, float glue outside ℚ).

`entry l k` is the total weight stored under key `k` in a `(key, weight)` list:
`entry l k = ((l.filter (·.1 = k)).map (·.2)).sum` (`entry_eq_sum`).
-/
set_option linter.unusedSectionVars false
set_option linter.unusedVariables false
namespace SC.Props.C08
open SC SC.Stairs

/-! ## 1. the finite pieces -/

/-- the finite pieces are exactly the consecutive pairs of rows -/
theorem pieces_consecutive (s : List (Rat × Val)) :
    pieces s = List.zipWith (fun a b => (a.1, b.1, a.2)) s s.tail := pieces_eq_zipWith s

theorem pieces_count (s : List (Rat × Val)) : (pieces s).length = s.length - 1 := length_pieces s

/-- `(p, q, v)` is a piece iff `(p, v)` and `(q, _)` are adjacent rows -/
theorem mem_pieces (s : List (Rat × Val)) (p q : Rat) (v : Val) :
    (p, q, v) ∈ pieces s ↔ ∃ l w r, s = l ++ (p, v) :: (q, w) :: r := mem_pieces_iff s p q v

/-- on a well-formed function a finite piece has positive length and carries the value the function takes
there: right limits on `[p, q)`, left limits on `(p, q]` -/
theorem piece_is_denotation (f : Stairs Rat) (hf : f.WF) (p q : Rat) (v : Val) (h : (p, q, v) ∈ pieces f.steps) :
    p < q ∧ (∀ x, p ≤ x → x < q → Den f false x = v) ∧ (∀ x, p < x → x ≤ q → Den f true x = v) := by
  refine ⟨pieces_lt _ hf p q v h, fun x h1 h2 => ?_, fun x h1 h2 => ?_⟩
  · exact lim_on_piece false f.init f.steps hf p q v h x ((reached_right_iff p x).mpr h1)
      (by rw [Bool.eq_false_iff, Ne, reached_right_iff]; exact not_le.mpr h2)
  · exact lim_on_piece true f.init f.steps hf p q v h x ((reached_left_iff p x).mpr h1)
      (by rw [Bool.eq_false_iff, Ne, reached_left_iff]; exact not_lt.mpr h2)

/-- the finite pieces lie between the first and the last step point, so the two unbounded pieces
(before the first step point, where the function is `init`, and after the last) are never among them -/
theorem pieces_between_first_and_last (f : Stairs Rat) (hf : f.WF) (p q : Rat) (v : Val)
    (h : (p, q, v) ∈ pieces f.steps) (first last : Rat)
    (h1 : f.steps.head?.map Prod.fst = some first) (h2 : f.steps.getLast?.map Prod.fst = some last) :
    first ≤ p ∧ q ≤ last := pieces_within f.steps hf p q v h first last h1 h2

/-- and they cover everything in between -/
theorem pieces_cover (f : Stairs Rat) (x first last : Rat)
    (h1 : f.steps.head?.map Prod.fst = some first) (h2 : f.steps.getLast?.map Prod.fst = some last)
    (hx1 : first ≤ x) (hx2 : x < last) : ∃ p q v, (p, q, v) ∈ pieces f.steps ∧ p ≤ x ∧ x < q :=
  exists_piece f.steps x first last h1 h2 hx1 hx2

/-- a defined piece is a finite piece with a defined value; it is recorded as `(value, length)` -/
theorem mem_definedPieces (s : List (Rat × Val)) (x len : Rat) :
    (x, len) ∈ definedPieces s ↔ ∃ p q, (p, q, some x) ∈ pieces s ∧ len = q - p := mem_definedPieces_iff s x len

/-- with fewer than two rows there is no finite piece at all -/
theorem definedPieces_lt_two (s : List (Rat × Val)) (h : s.length < 2) : definedPieces s = [] :=
  definedPieces_of_length_lt_two s h

/-- an undefined piece contributes nothing, a defined piece its `(value, length)` -/
theorem definedPieces_step (p q : Rat) (v w : Val) (r : List (Rat × Val)) :
    definedPieces ((p, v) :: (q, w) :: r) =
      match v with
      | none => definedPieces ((q, w) :: r)
      | some x => (x, q - p) :: definedPieces ((q, w) :: r) := by
  cases v with
  | none => exact definedPieces_cons_none p q w r
  | some x => exact definedPieces_cons_some p x q w r

/-- the unbounded piece on the left (the initial value) plays no role in any of the statistics … -/
theorem init_irrelevant (a a' : Val) (s : List (Rat × Val)) (c c' : Side) :
    valueSums ⟨a, s, c⟩ = valueSums ⟨a', s, c'⟩ ∧ integral ⟨a, s, c⟩ = integral ⟨a', s, c'⟩ ∧
    mean ⟨a, s, c⟩ = mean ⟨a', s, c'⟩ ∧ var ⟨a, s, c⟩ = var ⟨a', s, c'⟩ := ⟨rfl, rfl, rfl, rfl⟩

/-- … and neither does the unbounded piece on the right (the value of the last row) -/
theorem last_value_irrelevant (l : List (Rat × Val)) (p : Rat) (v v' : Val) :
    definedPieces (l ++ [(p, v)]) = definedPieces (l ++ [(p, v')]) := by
  unfold definedPieces; rw [pieces_last_irrelevant l p v v']

/-- in a well-formed function all defined pieces have positive length -/
theorem definedPieces_positive (f : Stairs Rat) (hf : f.WF) (vl : Rat × Rat) (h : vl ∈ definedPieces f.steps) :
    0 < vl.2 := definedPieces_pos f.steps hf vl h

/-! ## 2. `value_sums` -/

/-- **the entry for `v` is the total length of the defined pieces with value `v`** -/
theorem valueSums_entry (f : Stairs Rat) (v : Rat) :
    entry (valueSums f) v = (((definedPieces f.steps).filter (·.1 = v)).map (·.2)).sum := by
  rw [valueSums_eq, entry_vsFold]; simp [entry, sumBy]

/-- the list is strictly sorted by value (so the keys are distinct) -/
theorem valueSums_sorted (f : Stairs Rat) : ((valueSums f).map Prod.fst).Pairwise (· < ·) :=
  ksorted_vsFold [] _ ksorted_nil

theorem valueSums_keys_nodup (f : Stairs Rat) : ((valueSums f).map Prod.fst).Nodup :=
  (valueSums_sorted f).imp (fun h => ne_of_lt h)

/-- `v` appears iff some defined piece has value `v` -/
theorem valueSums_keys (f : Stairs Rat) (v : Rat) :
    v ∈ (valueSums f).map Prod.fst ↔ ∃ len, (v, len) ∈ definedPieces f.steps := by
  rw [valueSums_eq, keys_vsFold]; simp

/-- full characterisation of the rows of `value_sums` -/
theorem mem_valueSums (f : Stairs Rat) (v l : Rat) :
    (v, l) ∈ valueSums f ↔
      (∃ len, (v, len) ∈ definedPieces f.steps) ∧
      l = (((definedPieces f.steps).filter (·.1 = v)).map (·.2)).sum := by
  constructor
  · intro h
    refine ⟨(valueSums_keys f v).mp (List.mem_map.mpr ⟨(v, l), h, rfl⟩), ?_⟩
    rw [← valueSums_entry, entry_of_mem _ (valueSums_sorted f) v l h]
  · rintro ⟨hk, hl⟩
    obtain ⟨⟨v', l'⟩, hm, hv⟩ := List.mem_map.mp ((valueSums_keys f v).mpr hk)
    simp only at hv; subst hv
    have := entry_of_mem _ (valueSums_sorted f) v' l' hm
    rw [valueSums_entry, ← hl] at this
    rw [this]; exact hm

/-- the entries add up to the total defined length -/
theorem valueSums_total (f : Stairs Rat) : sumBy (·.2) (valueSums f) = definedLength f := by
  unfold definedLength
  rw [sumBy_snd_eq_weight, sumBy_snd_eq_weight (definedPieces f.steps), valueSums_eq,
    sumBy_vsFold (fun _ => 1)]; simp

/-- push-forward: any length-weighted sum of a function of the value can be computed from `value_sums` -/
theorem valueSums_weighted (f : Stairs Rat) (g : Rat → Rat) :
    sumBy (fun vl => g vl.1 * vl.2) (valueSums f) = sumBy (fun vl => g vl.1 * vl.2) (definedPieces f.steps) := by
  rw [valueSums_eq, sumBy_vsFold]; simp

/-- in a well-formed function every entry is positive -/
theorem valueSums_positive (f : Stairs Rat) (hf : f.WF) (vl : Rat × Rat) (h : vl ∈ valueSums f) : 0 < vl.2 := by
  obtain ⟨v, l⟩ := vl
  obtain ⟨⟨len, hlen⟩, hl⟩ := (mem_valueSums f v l).mp h
  subst hl
  show 0 < sumBy (fun x : Rat × Rat => x.2) ((definedPieces f.steps).filter (·.1 = v))
  apply sumBy_pos
  · intro hnil
    have : (v, len) ∈ (definedPieces f.steps).filter (·.1 = v) := by simp [hlen]
    rw [hnil] at this; simp at this
  · intro a ha
    exact definedPieces_pos f.steps hf a (List.mem_filter.mp ha).1

theorem valueSums_eq_nil_iff (f : Stairs Rat) : valueSums f = [] ↔ definedPieces f.steps = [] := by
  constructor
  · intro h
    cases hd : definedPieces f.steps with
    | nil => rfl
    | cons a r =>
      have := (valueSums_keys f a.1).mpr ⟨a.2, by rw [hd]; simp⟩
      rw [h] at this; simp at this
  · intro h; rw [valueSums_eq, h]; rfl

/-- for a well-formed function the defined length is positive as soon as there is a defined finite piece -/
theorem definedLength_pos (f : Stairs Rat) (hf : f.WF) (h : definedPieces f.steps ≠ []) : 0 < definedLength f :=
  sumBy_pos _ _ h (fun a ha => definedPieces_pos f.steps hf a ha)

/-! ## 3. integral and mean -/

/-- the piecewise integral equals the value-grouped sum `Σ v · value_sums[v]` -/
theorem integral_eq_valueSums (f : Stairs Rat) (h : 2 ≤ f.steps.length) :
    integral f = some (sumBy (fun vl => vl.1 * vl.2) (valueSums f)) := by
  unfold integral
  rw [if_neg (by omega), valueSums_weighted f (fun v => v)]

theorem integral_eq_pieces (f : Stairs Rat) (h : 2 ≤ f.steps.length) :
    integral f = some (sumBy (fun vl => vl.1 * vl.2) (definedPieces f.steps)) := by
  unfold integral; rw [if_neg (by omega)]

theorem integral_none (f : Stairs Rat) (h : f.steps.length < 2) : integral f = none := by
  unfold integral; rw [if_pos h]

/-- mean = integral / total defined length -/
theorem mean_eq (f : Stairs Rat) (h : definedLength f ≠ 0) :
    mean f = some (sumBy (fun vl => vl.1 * vl.2) (definedPieces f.steps) / definedLength f) ∧
    mean f = (integral f).map (· / definedLength f) := by
  have h2 : ¬ f.steps.length < 2 := by
    intro hlt
    apply h
    unfold definedLength; rw [definedPieces_of_length_lt_two _ hlt]; rfl
  unfold mean integral
  rw [if_neg h2, if_neg h, if_neg h2]
  exact ⟨rfl, rfl⟩

theorem mean_eq_valueSums (f : Stairs Rat) (h : definedLength f ≠ 0) :
    mean f = some (sumBy (fun vl => vl.1 * vl.2) (valueSums f) / sumBy (·.2) (valueSums f)) := by
  rw [(mean_eq f h).1, valueSums_total, valueSums_weighted f (fun v => v)]

/-- with no defined length the mean is undefined -/
theorem mean_none (f : Stairs Rat) (h : definedLength f = 0) : mean f = none := by
  unfold mean; rw [if_pos h]; simp

theorem mean_isSome_iff (f : Stairs Rat) : (mean f).isSome ↔ definedLength f ≠ 0 := by
  by_cases h : definedLength f = 0
  · simp [mean_none f h, h]
  · simp [(mean_eq f h).1, h]


/-! ## 4. locality: splitting a piece at an interior point changes nothing

`value_sums`, the defined length, the integral (hence mean and var, and everything derived from
`value_sums`) do not depend on how a piece is cut into rows.  NOTE that they are *not* functions of the
denotation alone: a redundant *first* or *last* row moves the boundary between the finite pieces and the
unbounded ones, see `first_row_matters` / `last_row_matters` below. -/

/-- the function obtained by inserting the redundant row `(m, v)` inside the piece `(p, q, v)` -/
def splitAt (a : Val) (c : Side) (l : List (Rat × Val)) (p m q : Rat) (v w : Val) (r : List (Rat × Val)) : Stairs Rat :=
  ⟨a, l ++ (p, v) :: (m, v) :: (q, w) :: r, c⟩
def unsplit (a : Val) (c : Side) (l : List (Rat × Val)) (p q : Rat) (v w : Val) (r : List (Rat × Val)) : Stairs Rat :=
  ⟨a, l ++ (p, v) :: (q, w) :: r, c⟩

/-- the split function is well-formed and denotes the same function (both one-sided limits) -/
theorem split_same_function (a : Val) (c : Side) (l : List (Rat × Val)) (p m q : Rat) (v w : Val)
    (r : List (Rat × Val)) (hf : (unsplit a c l p q v w r).WF) (hpm : p < m) (hmq : m < q) :
    (splitAt a c l p m q v w r).WF ∧
    ∀ st x, Den (splitAt a c l p m q v w r) st x = Den (unsplit a c l p q v w r) st x := by
  have ht : ∀ k ∈ ((q, w) :: r).map Prod.fst, m < k := by
    intro k hk
    unfold WF unsplit Sorted at hf
    simp only [List.map_append, List.map_cons, List.pairwise_append, List.pairwise_cons, List.mem_cons] at hf hk
    rcases hk with hk | hk
    · rw [hk]; exact hmq
    · exact lt_trans hmq (hf.2.1.2.1 k hk)
  exact ⟨sorted_insert_redundant l p m v v _ hf hpm ht, fun st x => lim_insert_redundant st a l p m v _ ht x⟩

theorem split_valueSums (a : Val) (c : Side) (l : List (Rat × Val)) (p m q : Rat) (v w : Val) (r : List (Rat × Val)) :
    valueSums (splitAt a c l p m q v w r) = valueSums (unsplit a c l p q v w r) :=
  vsFold_split l p m q v w r

/-- any length-weighted sum over the defined pieces is unchanged -/
theorem split_weighted (g : Rat → Rat) (a : Val) (c : Side) (l : List (Rat × Val)) (p m q : Rat) (v w : Val)
    (r : List (Rat × Val)) :
    sumBy (fun vl => g vl.1 * vl.2) (definedPieces (splitAt a c l p m q v w r).steps)
      = sumBy (fun vl => g vl.1 * vl.2) (definedPieces (unsplit a c l p q v w r).steps) :=
  sumBy_split g l p m q v w r

theorem split_definedLength (a : Val) (c : Side) (l : List (Rat × Val)) (p m q : Rat) (v w : Val) (r : List (Rat × Val)) :
    definedLength (splitAt a c l p m q v w r) = definedLength (unsplit a c l p q v w r) := by
  unfold definedLength
  rw [sumBy_snd_eq_weight, sumBy_snd_eq_weight (definedPieces (unsplit a c l p q v w r).steps)]
  exact split_weighted (fun _ => 1) a c l p m q v w r

theorem split_integral (a : Val) (c : Side) (l : List (Rat × Val)) (p m q : Rat) (v w : Val) (r : List (Rat × Val)) :
    integral (splitAt a c l p m q v w r) = integral (unsplit a c l p q v w r) := by
  rw [integral_eq_pieces _ (by simp [splitAt]; omega), integral_eq_pieces _ (by simp [unsplit]; omega)]
  exact congrArg some (split_weighted (fun x => x) a c l p m q v w r)

theorem split_mean (a : Val) (c : Side) (l : List (Rat × Val)) (p m q : Rat) (v w : Val) (r : List (Rat × Val)) :
    mean (splitAt a c l p m q v w r) = mean (unsplit a c l p q v w r) := by
  have h1 : ¬ (splitAt a c l p m q v w r).steps.length < 2 := by simp [splitAt]; omega
  have h2 : ¬ (unsplit a c l p q v w r).steps.length < 2 := by simp [unsplit]; omega
  unfold mean
  rw [if_neg h1, if_neg h2, split_definedLength]
  have := split_weighted (fun x => x) a c l p m q v w r
  exact congrArg (fun t => if definedLength (unsplit a c l p q v w r) = 0 then none
    else some (t / definedLength (unsplit a c l p q v w r))) this

theorem split_var (a : Val) (c : Side) (l : List (Rat × Val)) (p m q : Rat) (v w : Val) (r : List (Rat × Val)) :
    var (splitAt a c l p m q v w r) = var (unsplit a c l p q v w r) := by
  unfold var shares
  rw [split_mean, split_valueSums]

/-! ## 5. variance -/

/-- shares: each `value_sums` entry divided by the total defined length -/
theorem shares_spec (f : Stairs Rat) :
    shares f = (valueSums f).map fun vl => (vl.1, vl.2 / definedLength f) := by
  rw [shares_eq, valueSums_total]

theorem shares_sum_one (f : Stairs Rat) (h : definedLength f ≠ 0) : sumBy (·.2) (shares f) = 1 := by
  rw [shares_spec, sumBy_map]
  show sumBy (fun vl : Rat × Rat => vl.2 / definedLength f) (valueSums f) = 1
  rw [sumBy_div, valueSums_total, div_self h]

/-- share-weighted sums are length-weighted sums over the pieces divided by the total defined length -/
theorem sumBy_shares (f : Stairs Rat) (g : Rat → Rat) :
    sumBy (fun vs => vs.2 * g vs.1) (shares f)
      = sumBy (fun vl => g vl.1 * vl.2) (definedPieces f.steps) / definedLength f := by
  rw [shares_spec, sumBy_map, ← valueSums_weighted f g, ← sumBy_div]
  apply sumBy_congr; intro a _; ring

/-- **var is the share-weighted mean squared deviation from the mean** -/
theorem var_eq (f : Stairs Rat) (m : Rat) (hm : mean f = some m) :
    var f = some (sumBy (fun vs => vs.2 * ((vs.1 - m) * (vs.1 - m))) (shares f)) := by
  unfold var; rw [hm]

theorem var_none (f : Stairs Rat) (hm : mean f = none) : var f = none := by
  unfold var; rw [hm]

/-- the same over the pieces: length-weighted mean squared deviation -/
theorem var_eq_pieces (f : Stairs Rat) (m : Rat) (hm : mean f = some m) :
    var f = some (sumBy (fun vl => (vl.1 - m) * (vl.1 - m) * vl.2) (definedPieces f.steps) / definedLength f) := by
  rw [var_eq f m hm, sumBy_shares f (fun v => (v - m) * (v - m))]

/-- **var = E[v²] − mean²** -/
theorem var_eq_moment (f : Stairs Rat) (m : Rat) (hm : mean f = some m) :
    var f = some (sumBy (fun vs => vs.2 * (vs.1 * vs.1)) (shares f) - m * m) := by
  have hD : definedLength f ≠ 0 := (mean_isSome_iff f).mp (by rw [hm]; rfl)
  have hm' := (mean_eq f hD).1
  rw [hm] at hm'
  injection hm' with hm'
  rw [var_eq_pieces f m hm, sumBy_shares f (fun v => v * v), sumBy_sq_dev]
  congr 1
  have hS : sumBy (fun vl => vl.1 * vl.2) (definedPieces f.steps) = m * definedLength f := by
    rw [hm']; field_simp
  rw [hS]
  show (_ - 2 * m * (m * definedLength f) + m * m * definedLength f) / definedLength f = _
  field_simp
  ring

/-! ## 6. bounds -/

/-- the mean lies between any bounds on the values of the defined pieces -/
theorem mean_bounds (f : Stairs Rat) (hf : f.WF) (a b m : Rat) (hm : mean f = some m)
    (hab : ∀ vl ∈ definedPieces f.steps, a ≤ vl.1 ∧ vl.1 ≤ b) : a ≤ m ∧ m ≤ b := by
  have hD : definedLength f ≠ 0 := (mean_isSome_iff f).mp (by rw [hm]; rfl)
  have hm' := (mean_eq f hD).1
  rw [hm] at hm'
  injection hm' with hm'
  have hne : definedPieces f.steps ≠ [] := by
    intro h; apply hD; unfold definedLength; rw [h]; rfl
  have hpos : 0 < definedLength f := definedLength_pos f hf hne
  have h1 : a * definedLength f ≤ sumBy (fun vl => vl.1 * vl.2) (definedPieces f.steps) := by
    unfold definedLength
    rw [← sumBy_mul_left]
    apply sumBy_le_sumBy
    intro vl hvl
    exact mul_le_mul_of_nonneg_right (hab vl hvl).1 (le_of_lt (definedPieces_pos f.steps hf vl hvl))
  have h2 : sumBy (fun vl => vl.1 * vl.2) (definedPieces f.steps) ≤ b * definedLength f := by
    unfold definedLength
    rw [← sumBy_mul_left]
    apply sumBy_le_sumBy
    intro vl hvl
    exact mul_le_mul_of_nonneg_right (hab vl hvl).2 (le_of_lt (definedPieces_pos f.steps hf vl hvl))
  rw [hm']
  exact ⟨(le_div_iff₀ hpos).mpr h1, (div_le_iff₀ hpos).mpr h2⟩

/-- the variance of a well-formed function is non-negative -/
theorem var_nonneg (f : Stairs Rat) (hf : f.WF) (x : Rat) (hx : var f = some x) : 0 ≤ x := by
  cases hm : mean f with
  | none => rw [var_none f hm] at hx; exact absurd hx (by simp)
  | some m =>
    rw [var_eq_pieces f m hm] at hx
    injection hx with hx
    have hD : definedLength f ≠ 0 := (mean_isSome_iff f).mp (by rw [hm]; rfl)
    have hne : definedPieces f.steps ≠ [] := by
      intro h; apply hD; unfold definedLength; rw [h]; rfl
    rw [← hx]
    apply div_nonneg _ (le_of_lt (definedLength_pos f hf hne))
    apply sumBy_nonneg
    intro vl hvl
    exact mul_nonneg (mul_self_nonneg _) (le_of_lt (definedPieces_pos f.steps hf vl hvl))

/-- var is zero for a function with a single defined value -/
theorem var_const (f : Stairs Rat) (c m : Rat) (hm : mean f = some m)
    (hc : ∀ vl ∈ definedPieces f.steps, vl.1 = c) (hf : f.WF) : m = c ∧ var f = some 0 := by
  have hmc : m = c := by
    have := mean_bounds f hf c c m hm (fun vl hvl => by rw [hc vl hvl]; exact ⟨le_refl _, le_refl _⟩)
    exact le_antisymm this.2 this.1
  refine ⟨hmc, ?_⟩
  rw [var_eq_pieces f m hm]
  have : sumBy (fun vl => (vl.1 - m) * (vl.1 - m) * vl.2) (definedPieces f.steps) = 0 := by
    rw [sumBy_congr _ (fun _ => 0) _ (fun vl hvl => by rw [hc vl hvl, hmc]; ring), sumBy_const_zero]
  rw [this, zero_div]

/-! ## 7. non-vacuity

`f₀`: value 1 on [0,1), undefined on [1,2), 3 on [2,4), 1 on [4,5), 3 on the unbounded right piece,
2 on the unbounded left piece. -/
def f₀ : Stairs Rat := ⟨some 2, [(0, some 1), (1, none), (2, some 3), (4, some 1), (5, some 3)], .left⟩

example : f₀.WF := by decide +kernel
example : pieces f₀.steps = [(0, 1, some 1), (1, 2, none), (2, 4, some 3), (4, 5, some 1)] := by decide +kernel
example : definedPieces f₀.steps = [(1, 1), (3, 2), (1, 1)] := by decide +kernel
example : valueSums f₀ = [(1, 2), (3, 2)] := by decide +kernel
example : definedLength f₀ = 4 := by decide +kernel
example : integral f₀ = some 8 := by decide +kernel
example : mean f₀ = some 2 := by decide +kernel
example : shares f₀ = [(1, 1/2), (3, 1/2)] := by decide +kernel
example : var f₀ = some 1 := by decide +kernel
/-- splitting the piece [2,4) at 3 -/
example : valueSums ⟨some 2, [(0, some 1), (1, none), (2, some 3), (3, some 3), (4, some 1), (5, some 3)], .left⟩
    = valueSums f₀ := by decide +kernel
/-- fewer than two rows: no finite piece, everything undefined -/
example : let g : Stairs Rat := ⟨some 2, [(0, some 1)], .left⟩
    valueSums g = [] ∧ integral g = none ∧ mean g = none ∧ var g = none := by decide +kernel
/-- two rows but only an undefined piece: integral is 0, mean undefined -/
example : let g : Stairs Rat := ⟨some 2, [(0, none), (1, some 1)], .left⟩
    valueSums g = [] ∧ integral g = some 0 ∧ mean g = none ∧ var g = none := by decide +kernel

/-- **the statistics are not functions of the denotation alone**: a redundant first row (repeating the
initial value) turns part of the unbounded left piece into a finite piece. -/
def g₁ : Stairs Rat := ⟨some 1, [(0, some 1), (1, some 2), (2, some 5)], .left⟩
theorem first_row_matters :
    g₁.WF ∧ (∀ st x, Den g₁.canon st x = Den g₁ st x) ∧
    g₁.canon.steps = [(1, some 2), (2, some 5)] ∧
    valueSums g₁ = [(1, 1), (2, 1)] ∧ valueSums g₁.canon = [(2, 1)] ∧
    mean g₁ = some (3/2) ∧ mean g₁.canon = some 2 := by
  have hwf : g₁.WF := by decide +kernel
  refine ⟨hwf, fun st x => den_canon g₁ hwf st x, ?_, ?_, ?_, ?_, ?_⟩ <;> decide +kernel

/-- likewise a redundant last row extends the finite part to the right -/
def g₂ : Stairs Rat := ⟨some 1, [(0, some 2), (1, some 5), (3, some 5)], .left⟩
theorem last_row_matters :
    g₂.WF ∧ (∀ st x, Den g₂.canon st x = Den g₂ st x) ∧
    g₂.canon.steps = [(0, some 2), (1, some 5)] ∧
    valueSums g₂ = [(2, 1), (5, 2)] ∧ valueSums g₂.canon = [(2, 1)] ∧
    mean g₂ = some 4 ∧ mean g₂.canon = some 2 := by
  have hwf : g₂.WF := by decide +kernel
  refine ⟨hwf, fun st x => den_canon g₂ hwf st x, ?_, ?_, ?_, ?_, ?_⟩ <;> decide +kernel

end SC.Props.C08
