import SCModel.Props.C14cA
import SCModel.Props.C14cB
import SCModel.Props.C14cC
import SCModel.Props.C14cD
/-!
# C14c — cache defects characterised in the object world

Six realistic cache defects were seeded into the library.  Each is modelled here as a variant of the object / world
semantics of `Model/World.lean` (`Variant` = own `layer` + own query; `copyShared` needs a world with a sharing table),
refuted on a concrete history against the cache-free reference semantics `runPure` of C14b, and given its **exact
correctness class** – the histories on which it cannot be told from the reference implementation (why the tests passed).

* `C14cA` – variants, `Faithful` (after every prefix the variant holds the very object, caches included, the reference
  implementation holds), `faithful_iff`, `faithful_correct`, `faithfulW_correct`; the generic keep-variant `layerKeep`
  with `layerKeep_eq_iff` (one step), `faithful_keep_iff` (state machine `safeKeep`), `faithful_keep_words`;
  instances 1–3.
* `C14cB` – `InvRun` (caches valid after every prefix), `invRun_correct`, `invRun_iff`; variant 4 with the integral
  formula `layer_inside_span` (via the span lemma of `Lemmas/Cache14c`).
* `C14cC` – variant 6 (`mm_class_iff`, exact at the level of outputs; `min_eq_percentile_zero_iff`).
* `C14cD` – variant 5 (`share_class_iff`, exact at the level of outputs; `synSafe_sound`).

Two notions of "correct" are used, both exact:
*faithful / valid caches* for the `layer` defects 1–4 (outputs alone cannot characterise a class: a stale cache may hold
the right value by coincidence – `*_outputs_can_agree_outside_class`), *equal output streams* for the query-side
defects 5 and 6.

| variant | minimal exposing history | exact correctness class |
|---|---|---|
| 1 `layerNoResetMasked` (`maskedV`) | `new m₅; mean; layer [0,2)+2; mean` (`layerNoResetMasked_refuted`: `1` instead of `7/3`) | `masked_class_iff`: canonical receiver defined everywhere, or undefined everywhere, or no `integral`/`mean`/`var` query precedes a `layer` (`masked_class_words`); per step `layerKeep_eq_iff`: receiver unmasked ∨ all-undefined ∨ (integral, mean) cache empty; worlds `masked_world_correct` |
| 2 `layerNoResetStepFree` (`stepFreeV`, `stepFreeIMV`) | `new const 3; mean; layer [0,2)+2; mean; integral` (`layerNoResetStepFree_refuted`: NaN, NaN instead of `5`, `10`) | `stepFreeIM_class_iff` / `stepFree_class_iff`: no `integral`/`mean`/`var` (any cache-filling) query is made while the object is a step-free defined constant and followed – after queries only – by a `layer`; worlds `stepFree_world_correct` |
| 3 `layerUnboundedShortcut` (`shortcutV`) | `new a₁; mean; layer (None, None, 2); mean; integral` (`layerUnboundedShortcut_refuted`: `1`, `4` instead of `3`, `12`) | `layerUnboundedShortcut_eq_iff`: no cache filled at that moment (or receiver all-undefined); histories `shortcut_class_iff`, `shortcut_class_canonical`; worlds `shortcut_world_correct` |
| 4 `layerIncremental` (`incrV`) | `a₁; mean; layer [0,2)−1; mean` – first step cancelled, extent shrinks, mean `1/2` instead of `1` (`layerIncremental_refuted_extent`); `g₂` (value `2` outside): integral `10` instead of `6` (`layerIncremental_refuted_outside`); undefined stretch (`layerIncremental_refuted_undefined`) | `incr_class_iff`: caches stay valid iff every incremental step caches the right pair (`IncrRight`); `layer_inside_span`, `incr_integral_right_iff_defined`: with unchanged extent the integral update is right iff `v = 0` or `f` is defined throughout `[s, e)` (`lenOn_full_iff`); `incrRight_of_structural`: defined throughout `[s, e)` and extent unchanged suffice; worlds `incr_world_correct` |
| 5 `copyShared` (`stepS` / `runS`) | `new a₅; copy 0; layer 1 [0,4)+10; median 1` (`copyShared_refuted`: `2` instead of `12`; also after a layer on the original) | `share_class_iff` (outputs): every distribution query on a sharing object is one its owner's distribution answers correctly (`safeShare`); syntactically `synSafe_sound`: no distribution query on a copy after the copy or its original was layered |
| 6 `minMaxFromEcdf` (`mmV`) | `new g₃; median; min; max` (`minMaxFromEcdf_refuted`: `5`, `7` instead of `0`, `100`) | `mm_class_iff` (outputs): at every `min`/`max` query made while the distribution cache is filled the extreme is attained on a finite piece – `min_eq_percentile_zero_iff`, `max_eq_percentile_hundred_iff` (from C10b `min_whole_eq`), sufficient `mmOK_of_covered`; worlds `mm_world_correct` |
-/
set_option linter.unusedSectionVars false
set_option linter.unusedVariables false
namespace SC.Props.C14c
open SC SC.Stairs SC.Obj SC.Props.C14 SC.Props.C14b

/-- **every seeded variant is observably different from the cache-free semantics** on its exposing history … -/
theorem all_variants_refuted :
    (maskedV.runW [] hist₅).2 ≠ (runPure [] hist₅).2 ∧
    (stepFreeV.runW [] histSF).2 ≠ (runPure [] histSF).2 ∧
    (stepFreeIMV.runW [] histSF).2 ≠ (runPure [] histSF).2 ∧
    (shortcutV.runW [] histUS).2 ≠ (runPure [] histUS).2 ∧
    (incrV.runW [] [.new g₂, .query 0 .integral, .layer 0 [⟨some 0, some 2, -1⟩], .query 0 .integral]).2 ≠
      (runPure [] [.new g₂, .query 0 .integral, .layer 0 [⟨some 0, some 2, -1⟩], .query 0 .integral]).2 ∧
    (runS ([], []) histCS).2 ≠ (runPure [] histCS).2 ∧
    (mmV.runW [] histMM).2 ≠ (runPure [] histMM).2 := by decide +kernel

/-- … while the reference implementation passes all of them (C14b `run_refines_pure`) -/
theorem reference_passes (ops : List WOp) : (ref.runW [] ops).2 = (runPure [] ops).2 := by
  rw [h14c_ref_runW]; exact (run_refines_pure_from_empty ops).1

/-- each variant passes the exposing histories of the *other* `layer` defects where its own seeded branch is not
taken – the defects are independent -/
example : (maskedV.runW [] histSF).2 = (runPure [] histSF).2 ∧ (maskedV.runW [] histUS).2 = (runPure [] histUS).2 ∧
    (stepFreeV.runW [] hist₅).2 = (runPure [] hist₅).2 ∧ (stepFreeV.runW [] histUS).2 = (runPure [] histUS).2 ∧
    (shortcutV.runW [] hist₅).2 = (runPure [] hist₅).2 ∧ (shortcutV.runW [] histSF).2 = (runPure [] histSF).2 ∧
    (mmV.runW [] hist₅).2 = (runPure [] hist₅).2 ∧ (runS ([], []) hist₅).2 = (runPure [] hist₅).2 := by
  decide +kernel

/-! non-vacuity of `incr_world_correct`: `a₁` with `2` layered on `[1, 3)` after a `mean` query -/
def histIncrW : List WOp := [.new a₁, .query 0 .mean, .layer 0 [⟨some 1, some 3, 2⟩], .query 0 .mean, .query 0 .integral]
example : IncrRunW [] histIncrW ∧
    (incrV.runW [] histIncrW).2 = [.created 0, .answer [some 1], .done, .answer [some 2], .answer [some 8]] := by
  refine ⟨?_, by decide +kernel⟩
  have hwv : (incrV.stepW (incrV.stepW [] (.new a₁)).1 (.query 0 .mean)).1
      = [⟨a₁, some (some 4, some 1), none⟩] := by decide +kernel
  refine ⟨trivial, trivial, ?_, trivial, trivial, trivial⟩
  intro o ho s e v I hel
  rw [hwv] at ho
  injection ho with ho
  subst ho
  have : incrEligible ⟨a₁, some (some 4, some 1), none⟩ [⟨some 1, some 3, 2⟩] = some (1, 3, 2, 4) := by
    decide +kernel
  rw [this] at hel
  injection hel with hel; injection hel with h1 hel; injection hel with h2 hel; injection hel with h3 h4
  subst h1; subst h2; subst h3; subst h4
  decide +kernel

end SC.Props.C14c
