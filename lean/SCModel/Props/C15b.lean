import SCModel.Lemmas.Closed15b
import SCModel.Props.C12b
import SCModel.Props.C15
import SCModel.Props.C16
import SCModel.Props.C18c
import SCModel.Props.C19c
/-!
# C15b — the closed side, in depth

`C15` proves the two-operand rule (`binop_closed`, `mask_where_fillna_closed`), the unary table (`unary_closed`) and
the aggregate rule; `C16.eval_total` the absence of internal errors for consistently closed trees; `C18c.aggregate_error_iff`
the exact aggregate rule.  This file adds (helper lemmas: `Lemmas/Closed15b`, the invariant `SideOK s h` =
"`h` is closed on `s` or step-free", `¬ Mismatch f g ↔ ∃ s, SideOK s f ∧ SideOK s g`):

1. **cov / corr** (any window – bounded, unbounded, degenerate –, any lag, both clip modes).
   `cov_error_iff`: for CANONICAL operands `cov` raises `ClosedMismatch` iff both operands have steps and are closed on
   different sides; "raises ⇒ mismatch" holds for arbitrary objects (`cov_error_imp_mismatch`), "mismatch ⇒ raises" is
   REFUTED for non-canonical ones (`cov_error_iff_needs_canonical`: `hasSteps` is a property of the representation).
   `cov_outcome` is the complete outcome table (`ValueError` iff no mismatch and the lag-adjusted window is degenerate),
   `cov_same_side`: consistently closed operands never raise a mismatch.  Where it raises: `prepCore_mismatch`,
   `covPrep_error_iff` (in the mutual masking iff an operand is undefined somewhere – `isna_hasSteps_iff` –, otherwise
   in the product).  `corrParts_error_iff` / `corrParts_outcome`: EXACTLY the same for `corr` (the covariance is evaluated
   before the clips for the two variances, so the closed-side check also precedes the `ValueError` of a degenerate
   window); `corrParts_error_iff_cov_error`: `cov` and `corr` raise the same errors.
   The DEFECTIVE `corrEarly` (NaN before the covariance when a variance is zero) is refuted (`corrEarly_misses_mismatch`,
   `corrEarly_error_iff_false`) and shown to agree with `corrParts` whenever there is no mismatch (`corrEarly_agrees`,
   `corrSame_corrIs`).
2. **expression trees** (`C16.Expr`).  `eval_node_closed`: the side of every node from its children's values (`sideOf`);
   `eval_closed_mem`: the side of any value is the side of one of the leaves.  `eval_total_everywhere`: leaves all closed
   on `s` ⇒ EVERY intermediate result exists and is closed on `s`.  `eval_loose` / `eval_loose_everywhere`: leaves WITH
   STEPS closed on `s` (step-free leaves on either side), bounded clips only over consistently closed sub-trees ⇒ every
   intermediate result exists and is closed on `s` or step-free.  The clip guard is necessary
   (`eval_loose_needs_clip_guard`: a bounded clip gives a right-closed constant steps).  Converses:
   `eval_error_two_sides` (raises ⇒ two leaves closed on different sides – always true), `eval_error_mismatched_leaves`
   (… two leaves WITH STEPS, true without bounded clips), the naive converse with clips REFUTED (same witness), and
   "mismatching leaves ⇒ raises" REFUTED (`eval_mismatched_leaves_may_succeed`: `(l − l) + r`).
3. **the table of sides**: `binopO_closed` (Stairs/Stairs, Stairs/scalar, scalar/Stairs), `unary_closed_more`,
   `layer_closed`, `clip_closed` (incl. `(None, None)`), `clipW_closed`, `diff_closed` (never raises), `mask_own_isna`,
   `slices_closed`, `resample_closed`, `rollingMean_never_mismatches` (the model returns bare knots),
   `ecdf_closed` (value axis: always left-closed).  Three seeded defects refuted on a right-closed witness:
   `unopNoClosed_refuted`, `layerViaBlank_left_refuted` (with `layerViaBlank_ok`, `layerViaBlank_eq_layer` for the
   correct blank), `fillnaStairsBad_refuted` (with `fillnaStairsBad_same_side`: invisible on consistently closed input).
4. **step-free operands are neutral**: `combineChecked_stepfree_right/left`, `closedFor_stepfree`,
   `stepfree_side_irrelevant` (object equality for every operator / mask / where / fillna), REFUTED when the receiver
   is step-free too (`stepfree_side_left_matters`), `aggregate_stepfree_side_irrelevant`,
   `cov_congr_identical` / `corrParts_congr_identical` (cov / corr only see initial value and rows) with the corollaries
   `cov_stepfree_side_irrelevant`, `corrParts_stepfree_side_irrelevant`.
5. **folds**: `mismatch_symm`, `combineChecked_error_symm`, `foldBin_error_iff` (n-ary rule), `foldBin_error_imp_clash` /
   `foldBin_error_imp_aggregate_error` (fold raises ⇒ aggregate raises), the converse REFUTED
   (`aggregate_error_not_imp_foldBin_error`), and `foldBin_closed_eq_aggregate` (same side when both succeed).
-/
set_option linter.unusedSectionVars false
set_option linter.unusedVariables false
set_option linter.unnecessarySeqFocus false
namespace SC.Props.C15b
open SC SC.Stairs

/-! ## Helpers -/
section Helpers
variable {P : Type} [LinearOrder P]

/-- the denotation (both one-sided limits) is one constant -/
def c15b_Flat (h : Stairs P) : Prop := ∃ c, ∀ st x, Den h st x = c

/-- **a canonical function has steps iff it is not constant** -/
theorem c15b_hasSteps_iff_not_flat (h : Stairs P) (hc : h.Canonical) : h.hasSteps = true ↔ ¬ c15b_Flat h := by
  unfold c15b_Flat
  rw [← C12b.nsteps_zero_iff_const h hc, ← C12b.hasSteps_eq_false_iff]
  cases h.hasSteps <;> simp

theorem c15b_flat_congr (a b : Stairs P) (h : ∀ st x, Den a st x = Den b st x) : c15b_Flat a ↔ c15b_Flat b := by
  unfold c15b_Flat
  constructor
  · rintro ⟨c, hc⟩; exact ⟨c, fun st x => by rw [← h, hc]⟩
  · rintro ⟨c, hc⟩; exact ⟨c, fun st x => by rw [h, hc]⟩

/-- canonical objects denoting the same function both have steps or both have none -/
theorem c15b_hasSteps_congr (a b : Stairs P) (ha : a.Canonical) (hb : b.Canonical)
    (h : ∀ st x, Den a st x = Den b st x) : a.hasSteps = b.hasSteps := by
  have := c15b_flat_congr a b h
  have h1 := c15b_hasSteps_iff_not_flat a ha
  have h2 := c15b_hasSteps_iff_not_flat b hb
  cases ha' : a.hasSteps <;> cases hb' : b.hasSteps <;> simp_all

/-- a non-constant function whose `isna` is constant is defined everywhere -/
theorem c15b_defined_of_isna_flat (f : Stairs P) (hf : f.WF) (h1 : ¬ c15b_Flat f)
    (h2 : c15b_Flat (unop .isna f)) : ∀ st x, ∃ q, Den f st x = some q := by
  obtain ⟨c, hc⟩ := h2
  by_contra hne
  push Not at hne
  obtain ⟨st₀, x₀, h₀⟩ := hne
  have hn₀ : Den f st₀ x₀ = none := by
    cases hd : Den f st₀ x₀ with
    | none => rfl
    | some q => exact absurd hd (h₀ q)
  apply h1
  refine ⟨none, fun st x => ?_⟩
  have e1 := hc st x
  have e2 := hc st₀ x₀
  rw [den_unop _ f hf] at e1 e2
  rw [hn₀] at e2
  rw [← e2] at e1
  cases hd : Den f st x with
  | none => rfl
  | some q => rw [hd] at e1; revert e1; simp [UnOp.eval, b2r]

theorem c15b_or_isna_some_right (a : Val) (q : Rat) :
    (BinOp.logic .or).eval (UnOp.isna.eval a) (UnOp.isna.eval (some q)) = UnOp.isna.eval a := by
  cases a <;> simp [BinOp.eval, vlogic, UnOp.eval, b2r, truth, Logic.eval]

theorem c15b_or_isna_some_left (a : Val) (q : Rat) :
    (BinOp.logic .or).eval (UnOp.isna.eval (some q)) (UnOp.isna.eval a) = UnOp.isna.eval a := by
  cases a <;> simp [BinOp.eval, vlogic, UnOp.eval, b2r, truth, Logic.eval]

theorem c15b_mask_or_isna_some (a : Val) (p q : Rat) :
    maskOp a ((BinOp.logic .or).eval (UnOp.isna.eval (some p)) (UnOp.isna.eval (some q))) = a := by
  simp [maskOp, BinOp.eval, vlogic, UnOp.eval, b2r, truth, Logic.eval]

end Helpers

/-! ## 1. cov / corr -/
section cov

/-- the second operand after lag handling -/
def lagged (g : Stairs Rat) (lag : Rat) : Stairs Rat := if lag ≠ 0 then shift g (-lag) else g
/-- the upper end of the window after lag handling -/
def hiLag (hi : Option Rat) (lag : Rat) (clipPre : Bool) : Option Rat :=
  if lag ≠ 0 ∧ clipPre then hi.map (· - lag) else hi

theorem lagged_closed (g : Stairs Rat) (lag : Rat) : (lagged g lag).closed = g.closed := by
  unfold lagged; split <;> rfl
theorem lagged_hasSteps (g : Stairs Rat) (lag : Rat) : (lagged g lag).hasSteps = g.hasSteps := by
  unfold lagged; split
  · exact c15b_hasSteps_shift g _
  · rfl
theorem lagged_canonical (g : Stairs Rat) (lag : Rat) (hg : g.Canonical) : (lagged g lag).Canonical := by
  unfold lagged; split
  · exact canonical_shift g _ hg
  · exact hg
theorem lagged_mismatch (f g : Stairs Rat) (lag : Rat) : Mismatch f (lagged g lag) ↔ Mismatch f g := by
  unfold Mismatch; rw [lagged_closed, lagged_hasSteps]
theorem lagged_isna_hasSteps (g : Stairs Rat) (lag : Rat) :
    (unop .isna (lagged g lag)).hasSteps = (unop .isna g).hasSteps := by
  unfold lagged; split
  · rw [← C20c.shift_unop]; exact c15b_hasSteps_shift _ _
  · rfl

/-- the body of `covPrep` for an already lagged second operand -/
def prepCore (f g : Stairs Rat) : Except Err (Stairs Rat × Stairs Rat) :=
  binop (.logic .or) (unop .isna f) (unop .isna g) >>= fun m =>
  mask f m >>= fun f1 => mask g m >>= fun g1 => pure (f1, g1)

theorem covPrep_eq (f g : Stairs Rat) (lo hi : Option Rat) (lag : Rat) (cp : Bool) :
    covPrep f g lo hi lag cp =
      prepCore f (lagged g lag) >>= fun fg => pure (fg.1, fg.2, lo, hiLag hi lag cp) := by
  unfold covPrep prepCore
  simp only [bind_assoc, pure_bind]
  rfl

/-- under the invariant the preparation succeeds and keeps the invariant -/
theorem prepCore_sideOK (s : Side) (f g : Stairs Rat) (hf : SideOK s f) (hg : SideOK s g) :
    ∃ f1 g1, prepCore f g = .ok (f1, g1) ∧ SideOK s f1 ∧ SideOK s g1 := by
  have hnf : SideOK s (unop .isna f) := c15b_sideOK_map _ f hf
  have hng : SideOK s (unop .isna g) := c15b_sideOK_map _ g hg
  obtain ⟨e0, hm⟩ := c15b_sideOK_combineChecked (BinOp.logic .or).eval _ _ hnf hng
  obtain ⟨e1, hf1⟩ := c15b_sideOK_combineChecked maskOp f _ hf hm
  obtain ⟨e2, hg1⟩ := c15b_sideOK_combineChecked maskOp g _ hg hm
  refine ⟨_, _, ?_, hf1, hg1⟩
  unfold prepCore binop mask
  rw [e0]; simp only [bind, Except.bind]
  rw [e1]; simp only []
  rw [e2]; rfl

theorem clipW_of_bounds (f : Stairs Rat) (lo hi : Option Rat) :
    (boundsOk lo hi = true → ∃ r, clipW f lo hi = .ok r ∧ r.closed = f.closed) ∧
    (boundsOk lo hi = false → clipW f lo hi = .error .valueError) := by
  constructor
  · intro hb
    cases lo with
    | none =>
      cases hi with
      | none => exact ⟨f, rfl, rfl⟩
      | some b => exact ⟨_, clip_ok f none (some b) hb, rfl⟩
    | some a => exact ⟨_, clip_ok f (some a) hi hb, rfl⟩
  · intro hb
    cases lo with
    | none => cases hi <;> simp [boundsOk] at hb
    | some a => exact clip_error f (some a) hi hb

theorem clipW_error_only (f : Stairs Rat) (lo hi : Option Rat) (e : Err) (h : clipW f lo hi = .error e) :
    e = .valueError ∧ boundsOk lo hi = false := by
  cases hb : boundsOk lo hi with
  | true =>
    obtain ⟨r, hr, _⟩ := (clipW_of_bounds f lo hi).1 hb
    rw [hr] at h; cases h
  | false =>
    rw [(clipW_of_bounds f lo hi).2 hb] at h
    injection h with h; exact ⟨h.symm, rfl⟩

/-- the tail of `cov` after the preparation -/
def covTail (f1 g1 : Stairs Rat) (lo hi : Option Rat) : Except Err Val :=
  binop .mul f1 g1 >>= fun fg => clipW fg lo hi >>= fun a => clipW f1 lo hi >>= fun b =>
    clipW g1 lo hi >>= fun c => pure (vsub (mean a) (vmul (mean b) (mean c)))

theorem cov_eq (f g : Stairs Rat) (lo hi : Option Rat) (lag : Rat) (cp : Bool) :
    cov f g lo hi lag cp =
      prepCore f (lagged g lag) >>= fun fg => covTail fg.1 fg.2 lo (hiLag hi lag cp) := by
  unfold cov
  rw [covPrep_eq]
  cases prepCore f (lagged g lag) with
  | error e => rfl
  | ok fg => rfl

theorem covTail_of_not_mismatch (f1 g1 : Stairs Rat) (lo hi : Option Rat) (hm : ¬ Mismatch f1 g1) :
    (boundsOk lo hi = true → ∃ v, covTail f1 g1 lo hi = .ok v) ∧
    (boundsOk lo hi = false → covTail f1 g1 lo hi = .error .valueError) := by
  have e0 : binop .mul f1 g1 = .ok (combine (BinOp.mul).eval f1 g1 (sideOf f1 g1)) :=
    combineChecked_total _ f1 g1 hm
  constructor
  · intro hb
    obtain ⟨a, ha, _⟩ := (clipW_of_bounds (combine (BinOp.mul).eval f1 g1 (sideOf f1 g1)) lo hi).1 hb
    obtain ⟨b, hb', _⟩ := (clipW_of_bounds f1 lo hi).1 hb
    obtain ⟨c, hc, _⟩ := (clipW_of_bounds g1 lo hi).1 hb
    unfold covTail
    rw [e0]; simp only [bind, Except.bind]
    rw [ha]; simp only []
    rw [hb']; simp only []
    rw [hc]; exact ⟨_, rfl⟩
  · intro hb
    unfold covTail
    rw [e0]; simp only [bind, Except.bind]
    rw [(clipW_of_bounds _ lo hi).2 hb]

theorem covTail_of_mismatch (f1 g1 : Stairs Rat) (lo hi : Option Rat) (hm : Mismatch f1 g1) :
    covTail f1 g1 lo hi = .error .closedMismatch := by
  have e0 : binop .mul f1 g1 = .error .closedMismatch := (combineChecked_error_iff _ f1 g1).mpr hm
  unfold covTail
  rw [e0]; rfl

/-- **cov without a mismatch**: the only possible error is the `ValueError` of a degenerate window -/
theorem cov_of_not_mismatch (f g : Stairs Rat) (lo hi : Option Rat) (lag : Rat) (cp : Bool)
    (hm : ¬ Mismatch f g) :
    (boundsOk lo (hiLag hi lag cp) = true → ∃ v, cov f g lo hi lag cp = .ok v) ∧
    (boundsOk lo (hiLag hi lag cp) = false → cov f g lo hi lag cp = .error .valueError) := by
  obtain ⟨s, hf, hg⟩ := (c15b_not_mismatch_iff f (lagged g lag)).mp (fun h => hm ((lagged_mismatch f g lag).mp h))
  obtain ⟨f1, g1, hp, hf1, hg1⟩ := prepCore_sideOK s f (lagged g lag) hf hg
  have hm1 : ¬ Mismatch f1 g1 := (c15b_not_mismatch_iff f1 g1).mpr ⟨s, hf1, hg1⟩
  rw [cov_eq, hp]
  exact covTail_of_not_mismatch f1 g1 lo _ hm1

/-- **the preparation on canonical operands with a mismatch**: either it raises, or both masked operands come
out with steps and on different sides (this happens exactly when both operands are defined everywhere) -/
theorem prepCore_mismatch (f g : Stairs Rat) (hf : f.Canonical) (hg : g.Canonical) (hm : Mismatch f g) :
    (prepCore f g = .error .closedMismatch ∧
      ((unop .isna f).hasSteps = true ∨ (unop .isna g).hasSteps = true)) ∨
    (∃ f1 g1, prepCore f g = .ok (f1, g1) ∧ Mismatch f1 g1 ∧ f1.Canonical ∧ g1.Canonical ∧
      (unop .isna f).hasSteps = false ∧ (unop .isna g).hasSteps = false) := by
  obtain ⟨hsf, hsg, hne⟩ := hm
  have hFf : ¬ c15b_Flat f := (c15b_hasSteps_iff_not_flat f hf).mp hsf
  have hFg : ¬ c15b_Flat g := (c15b_hasSteps_iff_not_flat g hg).mp hsg
  have hnfc : (unop .isna f).Canonical := canonical_unop _ f hf.1
  have hngc : (unop .isna g).Canonical := canonical_unop _ g hg.1
  have hnf_cl : (unop .isna f).closed = f.closed := rfl
  have hng_cl : (unop .isna g).closed = g.closed := rfl
  -- the masker when the first check passes
  set m := combine (BinOp.logic .or).eval (unop .isna f) (unop .isna g) (sideOf (unop .isna f) (unop .isna g))
    with hmdef
  have hmc : m.Canonical := canonical_combine _ _ _ _ hnfc.1 hngc.1
  have hmden : ∀ st x, Den m st x =
      (BinOp.logic .or).eval (UnOp.isna.eval (Den f st x)) (UnOp.isna.eval (Den g st x)) := by
    intro st x
    rw [hmdef, den_combine _ _ _ _ hnfc.1 hngc.1, den_unop _ f hf.1, den_unop _ g hg.1]
  by_cases h1 : (unop .isna f).hasSteps = true
  · by_cases h2 : (unop .isna g).hasSteps = true
    · -- both `isna` have steps: the `or` raises
      left
      refine ⟨?_, Or.inl h1⟩
      have e0 : binop (.logic .or) (unop .isna f) (unop .isna g) = .error .closedMismatch :=
        (combineChecked_error_iff _ _ _).mpr ⟨h1, h2, hne⟩
      unfold prepCore; rw [e0]; rfl
    · -- only `isna f` has steps: the masker is closed like `f`, masking `g` raises
      left
      refine ⟨?_, Or.inl h1⟩
      have h2' : (unop .isna g).hasSteps = false := by simpa using h2
      have hgdef := c15b_defined_of_isna_flat g hg.1 hFg
        (by_contra fun hh => h2 ((c15b_hasSteps_iff_not_flat _ hngc).mpr hh))
      have hmcl : m.closed = f.closed := by
        rw [hmdef]; exact c15b_sideOf_stepfree_right _ _ h2'
      have hms : m.hasSteps = true := by
        rw [c15b_hasSteps_congr m (unop .isna f) hmc hnfc (fun st x => by
          obtain ⟨q, hq⟩ := hgdef st x
          rw [hmden, hq, c15b_or_isna_some_right, den_unop _ f hf.1])]
        exact h1
      have e0 : binop (.logic .or) (unop .isna f) (unop .isna g) = .ok m :=
        combineChecked_total _ _ _ (fun hh => h2 hh.2.1)
      have e1 : mask f m = .ok (combine maskOp f m (sideOf f m)) :=
        combineChecked_total _ _ _ (not_mismatch_of_closed_eq f m hmcl.symm)
      have e2 : mask g m = .error .closedMismatch :=
        (combineChecked_error_iff _ _ _).mpr ⟨hsg, hms, fun e => hne (by rw [e, hmcl])⟩
      unfold prepCore; rw [e0]; simp only [bind, Except.bind]; rw [e1]; simp only []; rw [e2]
  · have h1' : (unop .isna f).hasSteps = false := by simpa using h1
    have hfdef := c15b_defined_of_isna_flat f hf.1 hFf
      (by_contra fun hh => h1 ((c15b_hasSteps_iff_not_flat _ hnfc).mpr hh))
    by_cases h2 : (unop .isna g).hasSteps = true
    · -- only `isna g` has steps: the masker is closed like `g`, masking `f` raises
      left
      refine ⟨?_, Or.inr h2⟩
      have hmcl : m.closed = g.closed := by
        rw [hmdef, closed_combine, c15b_sideOf_stepfree_left _ _ h1', h2]; rfl
      have hms : m.hasSteps = true := by
        rw [c15b_hasSteps_congr m (unop .isna g) hmc hngc (fun st x => by
          obtain ⟨q, hq⟩ := hfdef st x
          rw [hmden, hq, c15b_or_isna_some_left, den_unop _ g hg.1])]
        exact h2
      have e0 : binop (.logic .or) (unop .isna f) (unop .isna g) = .ok m :=
        combineChecked_total _ _ _ (fun hh => h1 hh.1)
      have e1 : mask f m = .error .closedMismatch :=
        (combineChecked_error_iff _ _ _).mpr ⟨hsf, hms, fun e => hne (by rw [e, hmcl])⟩
      unfold prepCore; rw [e0]; simp only [bind, Except.bind]; rw [e1]
    · -- both operands are defined everywhere: the masker is the step-free 0, nothing raises yet
      right
      have h2' : (unop .isna g).hasSteps = false := by simpa using h2
      have hgdef := c15b_defined_of_isna_flat g hg.1 hFg
        (by_contra fun hh => h2 ((c15b_hasSteps_iff_not_flat _ hngc).mpr hh))
      have hms : m.hasSteps = false := c15b_combine_stepfree _ _ _ _ h1' h2'
      have e0 : binop (.logic .or) (unop .isna f) (unop .isna g) = .ok m :=
        combineChecked_total _ _ _ (fun hh => h1 hh.1)
      have nm1 : ¬ Mismatch f m := fun hh => by have := hh.2.1; rw [hms] at this; cases this
      have nm2 : ¬ Mismatch g m := fun hh => by have := hh.2.1; rw [hms] at this; cases this
      have e1 : mask f m = .ok (combine maskOp f m (sideOf f m)) := combineChecked_total _ _ _ nm1
      have e2 : mask g m = .ok (combine maskOp g m (sideOf g m)) := combineChecked_total _ _ _ nm2
      have c1 : (combine maskOp f m (sideOf f m)).Canonical := canonical_combine _ _ _ _ hf.1 hmc.1
      have c2 : (combine maskOp g m (sideOf g m)).Canonical := canonical_combine _ _ _ _ hg.1 hmc.1
      have d1 : ∀ st x, Den (combine maskOp f m (sideOf f m)) st x = Den f st x := by
        intro st x
        obtain ⟨p, hp⟩ := hfdef st x
        obtain ⟨q, hq⟩ := hgdef st x
        rw [den_combine _ _ _ _ hf.1 hmc.1, hmden, hp, hq, c15b_mask_or_isna_some]
      have d2 : ∀ st x, Den (combine maskOp g m (sideOf g m)) st x = Den g st x := by
        intro st x
        obtain ⟨p, hp⟩ := hfdef st x
        obtain ⟨q, hq⟩ := hgdef st x
        rw [den_combine _ _ _ _ hg.1 hmc.1, hmden, hp, hq, c15b_mask_or_isna_some]
      refine ⟨_, _, ?_, ⟨?_, ?_, ?_⟩, c1, c2, h1', h2'⟩
      · unfold prepCore; rw [e0]; simp only [bind, Except.bind]; rw [e1]; simp only []; rw [e2]; rfl
      · rw [c15b_hasSteps_congr _ f c1 hf d1]; exact hsf
      · rw [c15b_hasSteps_congr _ g c2 hg d2]; exact hsg
      · rw [closed_combine, closed_combine, c15b_sideOf_stepfree_right _ _ hms,
          c15b_sideOf_stepfree_right _ _ hms]
        exact hne


/-- when does `isna f` have steps?  For a canonical function with steps: iff `f` is undefined somewhere -/
theorem isna_hasSteps_iff (f : Stairs Rat) (hf : f.Canonical) (hs : f.hasSteps = true) :
    (unop .isna f).hasSteps = true ↔ ∃ st x, Den f st x = none := by
  have hFf : ¬ c15b_Flat f := (c15b_hasSteps_iff_not_flat f hf).mp hs
  have hnc : (unop .isna f).Canonical := canonical_unop _ f hf.1
  rw [c15b_hasSteps_iff_not_flat _ hnc]
  constructor
  · intro hnf
    by_contra hno
    push Not at hno
    apply hnf
    refine ⟨some 0, fun st x => ?_⟩
    rw [den_unop _ f hf.1]
    cases hd : Den f st x with
    | none => exact absurd hd (hno st x)
    | some q => simp [UnOp.eval, b2r]
  · rintro ⟨st, x, hx⟩ hflat
    obtain ⟨q, hq⟩ := c15b_defined_of_isna_flat f hf.1 hFf hflat st x
    rw [hx] at hq; cases hq

/-- so: on canonical operands with a mismatch the PREPARATION raises iff one of the operands is undefined somewhere;
when both are defined everywhere the error comes from the product `f₁ · g₁` -/
theorem covPrep_error_iff (f g : Stairs Rat) (lo hi : Option Rat) (lag : Rat) (cp : Bool)
    (hf : f.Canonical) (hg : g.Canonical) (hm : Mismatch f g) :
    covPrep f g lo hi lag cp = .error .closedMismatch ↔
      (∃ st x, Den f st x = none) ∨ (∃ st x, Den g st x = none) := by
  rw [← isna_hasSteps_iff f hf hm.1, ← isna_hasSteps_iff g hg hm.2.1, ← lagged_isna_hasSteps g lag, covPrep_eq]
  rcases prepCore_mismatch f (lagged g lag) hf (lagged_canonical g lag hg) ((lagged_mismatch f g lag).mpr hm)
    with ⟨he, hs⟩ | ⟨f1, g1, hp, _, _, _, s1, s2⟩
  · rw [he]
    exact ⟨fun _ => hs, fun _ => rfl⟩
  · rw [hp]
    constructor
    · intro h; cases h
    · rintro (h | h)
      · rw [s1] at h; cases h
      · rw [s2] at h; cases h

/-- **cov on canonical operands with a mismatch raises `ClosedMismatch`** – whatever the window (also a
degenerate one: the closed-side check comes first), the lag and the clip mode -/
theorem cov_of_mismatch (f g : Stairs Rat) (lo hi : Option Rat) (lag : Rat) (cp : Bool)
    (hf : f.Canonical) (hg : g.Canonical) (hm : Mismatch f g) :
    cov f g lo hi lag cp = .error .closedMismatch := by
  rw [cov_eq]
  rcases prepCore_mismatch f (lagged g lag) hf (lagged_canonical g lag hg) ((lagged_mismatch f g lag).mpr hm)
    with ⟨he, _⟩ | ⟨f1, g1, hp, hm1, _⟩
  · rw [he]; rfl
  · rw [hp]; exact covTail_of_mismatch f1 g1 lo _ hm1

/-- **`cov_error_iff`** – for canonical operands, ANY window, lag and clip mode: `cov` raises `ClosedMismatch`
iff both operands have steps and are closed on different sides -/
theorem cov_error_iff (f g : Stairs Rat) (lo hi : Option Rat) (lag : Rat) (cp : Bool)
    (hf : f.Canonical) (hg : g.Canonical) :
    cov f g lo hi lag cp = .error .closedMismatch ↔ Mismatch f g := by
  constructor
  · intro h
    by_contra hm
    obtain ⟨h1, h2⟩ := cov_of_not_mismatch f g lo hi lag cp hm
    cases hb : boundsOk lo (hiLag hi lag cp) with
    | true => obtain ⟨v, hv⟩ := h1 hb; rw [hv] at h; cases h
    | false => rw [h2 hb] at h; cases h
  · exact cov_of_mismatch f g lo hi lag cp hf hg

/-- the direction "raises ⇒ mismatch" needs no hypothesis on the operands at all -/
theorem cov_error_imp_mismatch (f g : Stairs Rat) (lo hi : Option Rat) (lag : Rat) (cp : Bool)
    (h : cov f g lo hi lag cp = .error .closedMismatch) : Mismatch f g := by
  by_contra hm
  obtain ⟨h1, h2⟩ := cov_of_not_mismatch f g lo hi lag cp hm
  cases hb : boundsOk lo (hiLag hi lag cp) with
  | true => obtain ⟨v, hv⟩ := h1 hb; rw [hv] at h; cases h
  | false => rw [h2 hb] at h; cases h

/-- the complete outcome table of `cov` on canonical operands -/
theorem cov_outcome (f g : Stairs Rat) (lo hi : Option Rat) (lag : Rat) (cp : Bool)
    (hf : f.Canonical) (hg : g.Canonical) (e : Err) :
    cov f g lo hi lag cp = .error e ↔
      (e = .closedMismatch ∧ Mismatch f g) ∨
      (e = .valueError ∧ ¬ Mismatch f g ∧ boundsOk lo (hiLag hi lag cp) = false) := by
  by_cases hm : Mismatch f g
  · rw [cov_of_mismatch f g lo hi lag cp hf hg hm]
    constructor
    · intro h; injection h with h; exact Or.inl ⟨h.symm, hm⟩
    · rintro (⟨h, _⟩ | ⟨_, h, _⟩)
      · rw [h]
      · exact absurd hm h
  · obtain ⟨h1, h2⟩ := cov_of_not_mismatch f g lo hi lag cp hm
    cases hb : boundsOk lo (hiLag hi lag cp) with
    | true =>
      obtain ⟨v, hv⟩ := h1 hb
      rw [hv]
      constructor
      · intro h; cases h
      · rintro (⟨_, h⟩ | ⟨_, _, h⟩)
        · exact absurd h hm
        · cases h
    | false =>
      rw [h2 hb]
      constructor
      · intro h; injection h with h; exact Or.inr ⟨h.symm, hm, rfl⟩
      · rintro (⟨_, h⟩ | ⟨h, _, _⟩)
        · exact absurd h hm
        · rw [h]

/-- **consistently closed operands never raise `ClosedMismatch`** (no hypothesis on the representation) -/
theorem cov_same_side (f g : Stairs Rat) (lo hi : Option Rat) (lag : Rat) (cp : Bool)
    (hc : f.closed = g.closed) :
    (boundsOk lo (hiLag hi lag cp) = true → ∃ v, cov f g lo hi lag cp = .ok v) ∧
    (boundsOk lo (hiLag hi lag cp) = false → cov f g lo hi lag cp = .error .valueError) :=
  cov_of_not_mismatch f g lo hi lag cp (not_mismatch_of_closed_eq f g hc)

/-- **REFUTED without canonicity**: `hasSteps` looks at the representation.  A right-closed representation of the
constant 1 with a redundant row "has steps", but it disappears in the first canonicalising step, so `cov` with a
left-closed function does not raise -/
theorem cov_error_iff_needs_canonical :
    ¬ ∀ (f g : Stairs Rat), f.WF → g.WF →
        (cov f g (some 0) (some 4) 0 true = .error .closedMismatch ↔ Mismatch f g) := by
  intro h
  have := (h ⟨some 1, [(2, some 1)], .right⟩ ⟨some 0, [(1, some 1)], .left⟩
    (by decide +kernel) (by decide +kernel)).mpr (by decide +kernel)
  revert this
  decide +kernel

/-! ### corr -/

/-- the tail of `corrParts` after the preparation: the covariance FIRST (and with it the closed-side check of the
product), then the two clips for the variances -/
def corrTail (f1 g1 : Stairs Rat) (lo hi : Option Rat) : Except Err (Val × Val × Val) :=
  cov f1 g1 lo hi 0 true >>= fun cv => clipW f1 lo hi >>= fun b => clipW g1 lo hi >>= fun c =>
    pure (cv, var b, var c)

theorem corrParts_eq (f g : Stairs Rat) (lo hi : Option Rat) (lag : Rat) (cp : Bool) :
    corrParts f g lo hi lag cp =
      prepCore f (lagged g lag) >>= fun fg => corrTail fg.1 fg.2 lo (hiLag hi lag cp) := by
  unfold corrParts
  rw [covPrep_eq]
  cases prepCore f (lagged g lag) with
  | error e => rfl
  | ok fg => rfl

theorem hiLag_zero (hi : Option Rat) (cp : Bool) : hiLag hi 0 cp = hi := by simp [hiLag]

theorem corrTail_of_not_mismatch (f1 g1 : Stairs Rat) (lo hi : Option Rat) (hm : ¬ Mismatch f1 g1) :
    (boundsOk lo hi = true → ∃ b c v, clipW f1 lo hi = .ok b ∧ clipW g1 lo hi = .ok c ∧
        cov f1 g1 lo hi 0 true = .ok v ∧ corrTail f1 g1 lo hi = .ok (v, var b, var c)) ∧
    (boundsOk lo hi = false → corrTail f1 g1 lo hi = .error .valueError) := by
  constructor
  · intro hb
    obtain ⟨b, hb', _⟩ := (clipW_of_bounds f1 lo hi).1 hb
    obtain ⟨c, hc, _⟩ := (clipW_of_bounds g1 lo hi).1 hb
    obtain ⟨v, hv⟩ := (cov_of_not_mismatch f1 g1 lo hi 0 true hm).1 (by rw [hiLag_zero]; exact hb)
    refine ⟨b, c, v, hb', hc, hv, ?_⟩
    unfold corrTail
    rw [hv]; simp only [bind, Except.bind]
    rw [hb']; simp only []
    rw [hc]; rfl
  · intro hb
    unfold corrTail
    rw [(cov_of_not_mismatch f1 g1 lo hi 0 true hm).2 (by rw [hiLag_zero]; exact hb)]; rfl

/-- the covariance comes first: a mismatch of the masked operands raises whatever the window -/
theorem corrTail_of_mismatch (f1 g1 : Stairs Rat) (lo hi : Option Rat)
    (c1 : f1.Canonical) (c2 : g1.Canonical) (hm : Mismatch f1 g1) :
    corrTail f1 g1 lo hi = .error .closedMismatch := by
  unfold corrTail
  rw [cov_of_mismatch f1 g1 lo hi 0 true c1 c2 hm]; rfl

/-- **corr without a mismatch**: the only possible error is the `ValueError` of a degenerate window -/
theorem corrParts_of_not_mismatch (f g : Stairs Rat) (lo hi : Option Rat) (lag : Rat) (cp : Bool)
    (hm : ¬ Mismatch f g) :
    (boundsOk lo (hiLag hi lag cp) = true → ∃ p, corrParts f g lo hi lag cp = .ok p) ∧
    (boundsOk lo (hiLag hi lag cp) = false → corrParts f g lo hi lag cp = .error .valueError) := by
  obtain ⟨s, hf, hg⟩ := (c15b_not_mismatch_iff f (lagged g lag)).mp (fun h => hm ((lagged_mismatch f g lag).mp h))
  obtain ⟨f1, g1, hp, hf1, hg1⟩ := prepCore_sideOK s f (lagged g lag) hf hg
  have hm1 : ¬ Mismatch f1 g1 := (c15b_not_mismatch_iff f1 g1).mpr ⟨s, hf1, hg1⟩
  rw [corrParts_eq, hp]
  obtain ⟨h1, h2⟩ := corrTail_of_not_mismatch f1 g1 lo (hiLag hi lag cp) hm1
  exact ⟨fun hb => by obtain ⟨b, c, v, _, _, _, h⟩ := h1 hb; exact ⟨_, h⟩, h2⟩

/-- **corr on canonical operands with a mismatch raises `ClosedMismatch`** – whatever the window (also a degenerate
one: the covariance, and with it the closed-side check, is evaluated before the clips for the two variances), the
lag and the clip mode; exactly like `cov_of_mismatch` -/
theorem corrParts_of_mismatch (f g : Stairs Rat) (lo hi : Option Rat) (lag : Rat) (cp : Bool)
    (hf : f.Canonical) (hg : g.Canonical) (hm : Mismatch f g) :
    corrParts f g lo hi lag cp = .error .closedMismatch := by
  rw [corrParts_eq]
  rcases prepCore_mismatch f (lagged g lag) hf (lagged_canonical g lag hg) ((lagged_mismatch f g lag).mpr hm)
    with ⟨he, _⟩ | ⟨f1, g1, hp, hm1, c1, c2, _⟩
  · rw [he]; rfl
  · rw [hp]; exact corrTail_of_mismatch f1 g1 lo _ c1 c2 hm1

/-- the direction "raises ⇒ mismatch" needs no hypothesis on the operands at all -/
theorem corrParts_error_imp_mismatch (f g : Stairs Rat) (lo hi : Option Rat) (lag : Rat) (cp : Bool)
    (h : corrParts f g lo hi lag cp = .error .closedMismatch) : Mismatch f g := by
  by_contra hm
  obtain ⟨h1, h2⟩ := corrParts_of_not_mismatch f g lo hi lag cp hm
  cases hb : boundsOk lo (hiLag hi lag cp) with
  | true => obtain ⟨v, hv⟩ := h1 hb; rw [hv] at h; cases h
  | false => rw [h2 hb] at h; cases h

/-- **`corrParts_error_iff`** – for canonical operands, ANY window (bounded, unbounded, degenerate), lag and clip
mode: `corr` raises `ClosedMismatch` iff both operands have steps and are closed on different sides – the same
characterisation as `cov_error_iff`, with no extra condition on the window -/
theorem corrParts_error_iff (f g : Stairs Rat) (lo hi : Option Rat) (lag : Rat) (cp : Bool)
    (hf : f.Canonical) (hg : g.Canonical) :
    corrParts f g lo hi lag cp = .error .closedMismatch ↔ Mismatch f g :=
  ⟨corrParts_error_imp_mismatch f g lo hi lag cp, corrParts_of_mismatch f g lo hi lag cp hf hg⟩

/-- … in particular for every non-degenerate window (a corollary; the hypothesis on the window is no longer needed) -/
theorem corrParts_error_iff_window (f g : Stairs Rat) (lo hi : Option Rat) (lag : Rat) (cp : Bool)
    (hf : f.Canonical) (hg : g.Canonical) (hb : boundsOk lo (hiLag hi lag cp) = true) :
    corrParts f g lo hi lag cp = .error .closedMismatch ↔ Mismatch f g :=
  corrParts_error_iff f g lo hi lag cp hf hg

/-- the complete outcome table of `corr` on canonical operands – the same as `cov_outcome` -/
theorem corrParts_outcome (f g : Stairs Rat) (lo hi : Option Rat) (lag : Rat) (cp : Bool)
    (hf : f.Canonical) (hg : g.Canonical) (e : Err) :
    corrParts f g lo hi lag cp = .error e ↔
      (e = .closedMismatch ∧ Mismatch f g) ∨
      (e = .valueError ∧ ¬ Mismatch f g ∧ boundsOk lo (hiLag hi lag cp) = false) := by
  by_cases hm : Mismatch f g
  · rw [corrParts_of_mismatch f g lo hi lag cp hf hg hm]
    constructor
    · intro h; injection h with h; exact Or.inl ⟨h.symm, hm⟩
    · rintro (⟨h, _⟩ | ⟨_, h, _⟩)
      · rw [h]
      · exact absurd hm h
  · obtain ⟨h1, h2⟩ := corrParts_of_not_mismatch f g lo hi lag cp hm
    cases hb : boundsOk lo (hiLag hi lag cp) with
    | true =>
      obtain ⟨v, hv⟩ := h1 hb
      rw [hv]
      constructor
      · intro h; cases h
      · rintro (⟨_, h⟩ | ⟨_, _, h⟩)
        · exact absurd h hm
        · cases h
    | false =>
      rw [h2 hb]
      constructor
      · intro h; injection h with h; exact Or.inr ⟨h.symm, hm, rfl⟩
      · rintro (⟨_, h⟩ | ⟨h, _, _⟩)
        · exact absurd h hm
        · rw [h]

/-- **`cov` and `corr` raise the same errors** (canonical operands, any window / lag / clip mode, any error) -/
theorem corrParts_error_iff_cov_error (f g : Stairs Rat) (lo hi : Option Rat) (lag : Rat) (cp : Bool)
    (hf : f.Canonical) (hg : g.Canonical) (e : Err) :
    corrParts f g lo hi lag cp = .error e ↔ cov f g lo hi lag cp = .error e := by
  rw [corrParts_outcome f g lo hi lag cp hf hg e, cov_outcome f g lo hi lag cp hf hg e]

/-- `corr` raises `ClosedMismatch` only if `cov` does (one half of `corrParts_error_iff_cov_error`; the converse now
holds as well, also for a degenerate window) -/
theorem corrParts_error_imp_cov_error (f g : Stairs Rat) (lo hi : Option Rat) (lag : Rat) (cp : Bool)
    (hf : f.Canonical) (hg : g.Canonical) (h : corrParts f g lo hi lag cp = .error .closedMismatch) :
    cov f g lo hi lag cp = .error .closedMismatch :=
  cov_of_mismatch f g lo hi lag cp hf hg ((corrParts_error_iff f g lo hi lag cp hf hg).mp h)

theorem corrParts_same_side (f g : Stairs Rat) (lo hi : Option Rat) (lag : Rat) (cp : Bool)
    (hc : f.closed = g.closed) :
    (boundsOk lo (hiLag hi lag cp) = true → ∃ p, corrParts f g lo hi lag cp = .ok p) ∧
    (boundsOk lo (hiLag hi lag cp) = false → corrParts f g lo hi lag cp = .error .valueError) :=
  corrParts_of_not_mismatch f g lo hi lag cp (not_mismatch_of_closed_eq f g hc)

/-! witnesses: `wl` left-closed, `wr` right-closed, both canonical, with steps, defined everywhere; `wr` is
constant inside the window `[0, 4)`; `wn` right-closed with an undefined region -/
def wl : Stairs Rat := ⟨some 0, [(1, some 2)], .left⟩
def wr : Stairs Rat := ⟨some 0, [(10, some 1)], .right⟩
def wn : Stairs Rat := ⟨some 0, [(2, some 1), (3, none)], .right⟩
def wl2 : Stairs Rat := ⟨some 1, [(2, some 4), (3, some 0)], .left⟩

example : wl.Canonical ∧ wr.Canonical ∧ wn.Canonical ∧ wl2.Canonical ∧ Mismatch wl wr ∧ Mismatch wl wn ∧
    ¬ Mismatch wl wl2 := by decide +kernel
example : cov wl wr (some 0) (some 4) 0 true = .error .closedMismatch ∧
    cov wl wr (some 4) (some 0) 0 true = .error .closedMismatch ∧
    cov wl wr none none 3 false = .error .closedMismatch ∧
    cov wl wn (some 0) (some 4) 0 true = .error .closedMismatch ∧
    cov wl wl2 (some 0) (some 4) 0 true = .ok (some (1/4)) ∧
    cov wl wl2 (some 4) (some 0) 0 true = .error .valueError := by decide +kernel
/-- where it raises: in the preparation when an operand is undefined somewhere, in the product otherwise -/
example : covPrep wl wn (some 0) (some 4) 0 true = .error .closedMismatch ∧
    covPrep wl wr (some 0) (some 4) 0 true = .ok (wl, wr, some 0, some 4) ∧
    binop .mul wl wr = .error .closedMismatch ∧
    (unop .isna wn).hasSteps = true ∧ (unop .isna wl).hasSteps = false := by decide +kernel
/-- degenerate window + mismatch: `cov` and `corr` raise the SAME error, `ClosedMismatch` (operands defined everywhere
or not); without a mismatch both report the `ValueError` of the window -/
example : cov wl wr (some 4) (some 0) 0 true = .error .closedMismatch ∧
    corrParts wl wr (some 4) (some 0) 0 true = .error .closedMismatch ∧
    cov wl wn (some 4) (some 0) 0 true = .error .closedMismatch ∧
    corrParts wl wn (some 4) (some 0) 0 true = .error .closedMismatch ∧
    cov wl wr (some 0) (some 4) 0 true = .error .closedMismatch ∧
    corrParts wl wr (some 0) (some 4) 0 true = .error .closedMismatch ∧
    cov wl wl2 (some 4) (some 0) 0 true = .error .valueError ∧
    corrParts wl wl2 (some 4) (some 0) 0 true = .error .valueError := by decide +kernel

/-- **the DEFECTIVE variant** (found in the library, repaired since): `corr` returned NaN as soon as one of the
variances over the window is zero – BEFORE the covariance (and with it the closed-side check of the product) was
evaluated -/
def corrEarly (f g : Stairs Rat) (lo hi : Option Rat) (lag : Rat) (clipPre : Bool) :
    Except Err (Val × Val × Val) := do
  let (f1, g1, lo', hi') ← covPrep f g lo hi lag clipPre
  let b ← clipW f1 lo' hi'
  let c ← clipW g1 lo' hi'
  if var b = some 0 ∨ var c = some 0 then pure (none, var b, var c)
  else do
    let cv ← cov f1 g1 lo' hi' 0 true
    pure (cv, var b, var c)

/-- **REFUTED for `corrEarly`**: opposite sides, both with steps, one operand constant inside the window – the
defective variant answers NaN instead of raising `ClosedMismatch` -/
theorem corrEarly_misses_mismatch :
    wl.Canonical ∧ wr.Canonical ∧ Mismatch wl wr ∧
    corrParts wl wr (some 0) (some 4) 0 true = .error .closedMismatch ∧
    corrEarly wl wr (some 0) (some 4) 0 true = .ok (none, some (3/4), some 0) := by decide +kernel

theorem corrEarly_error_iff_false :
    ¬ ∀ (f g : Stairs Rat) (lo hi : Option Rat), f.Canonical → g.Canonical → boundsOk lo hi = true →
        (corrEarly f g lo hi 0 true = .error .closedMismatch ↔ Mismatch f g) := by
  intro h
  have := (h wl wr (some 0) (some 4) (by decide +kernel) (by decide +kernel) (by decide +kernel)).mpr
    (by decide +kernel)
  revert this
  decide +kernel

/-- two outcomes of `corr` that the comparison cannot tell apart: the same error, or the same two variances and
either the same covariance or a zero variance (then the quotient is NaN whatever the covariance) -/
def CorrSame : Except Err (Val × Val × Val) → Except Err (Val × Val × Val) → Prop
  | .error e, .error e' => e = e'
  | .ok p, .ok p' => p.2 = p'.2 ∧ (p.1 = p'.1 ∨ p.2.1 = some 0 ∨ p.2.2 = some 0)
  | _, _ => False

/-- `CorrSame` outcomes represent the same correlation (`C19c.CorrIs`), NaN included -/
theorem corrSame_corrIs (p p' : Val × Val × Val) (h : CorrSame (.ok p) (.ok p')) (r : Rat) :
    C19c.CorrIs p r ↔ C19c.CorrIs p' r := by
  obtain ⟨h2, h1⟩ := h
  obtain ⟨cv, vf, vg⟩ := p
  obtain ⟨cv', vf', vg'⟩ := p'
  simp only [Prod.mk.injEq] at h2 h1
  obtain ⟨rfl, rfl⟩ := h2
  rcases h1 with h | h | h
  · rw [h]
  · subst h
    constructor <;>
    · rintro ⟨c, u, w, e, hu, _⟩
      simp only [Prod.mk.injEq, Option.some.injEq] at e
      rw [← e.2.1] at hu
      exact absurd hu (lt_irrefl 0)
  · subst h
    constructor <;>
    · rintro ⟨c, u, w, e, _, hw, _⟩
      simp only [Prod.mk.injEq, Option.some.injEq] at e
      rw [← e.2.2] at hw
      exact absurd hw (lt_irrefl 0)

/-- **why the tests passed**: without a mismatch (in particular on consistently closed operands) the defective
variant and `corrParts` give the same outcome – same error, or the same correlation -/
theorem corrEarly_agrees (f g : Stairs Rat) (lo hi : Option Rat) (lag : Rat) (cp : Bool)
    (hm : ¬ Mismatch f g) : CorrSame (corrParts f g lo hi lag cp) (corrEarly f g lo hi lag cp) := by
  obtain ⟨s, hf, hg⟩ := (c15b_not_mismatch_iff f (lagged g lag)).mp (fun h => hm ((lagged_mismatch f g lag).mp h))
  obtain ⟨f1, g1, hp, hf1, hg1⟩ := prepCore_sideOK s f (lagged g lag) hf hg
  have hm1 : ¬ Mismatch f1 g1 := (c15b_not_mismatch_iff f1 g1).mpr ⟨s, hf1, hg1⟩
  obtain ⟨h1, h2⟩ := corrTail_of_not_mismatch f1 g1 lo (hiLag hi lag cp) hm1
  have hprep : covPrep f g lo hi lag cp = .ok (f1, g1, lo, hiLag hi lag cp) := by
    rw [covPrep_eq, hp]; rfl
  rw [corrParts_eq, hp]
  unfold corrEarly
  rw [hprep]
  simp only [bind, Except.bind]
  cases hb : boundsOk lo (hiLag hi lag cp) with
  | false =>
    have := h2 hb
    rw [this, (clipW_of_bounds f1 lo _).2 hb]
    exact rfl
  | true =>
    obtain ⟨b, c, v, e1, e2, e3, e4⟩ := h1 hb
    rw [e4, e1]; simp only []
    rw [e2]; simp only []
    by_cases hz : var b = some 0 ∨ var c = some 0
    · rw [if_pos hz]
      exact ⟨rfl, Or.inr hz⟩
    · rw [if_neg hz, e3]
      exact ⟨rfl, Or.inl rfl⟩

theorem corrEarly_agrees_same_side (f g : Stairs Rat) (lo hi : Option Rat) (lag : Rat) (cp : Bool)
    (hc : f.closed = g.closed) : CorrSame (corrParts f g lo hi lag cp) (corrEarly f g lo hi lag cp) :=
  corrEarly_agrees f g lo hi lag cp (not_mismatch_of_closed_eq f g hc)

/-- the agreement is not vacuous: consistently closed operands, one of them constant inside the window -/
example : corrParts wl ⟨some 0, [(10, some 1)], .left⟩ (some 0) (some 4) 0 true = .ok (some 0, some (3/4), some 0) ∧
    corrEarly wl ⟨some 0, [(10, some 1)], .left⟩ (some 0) (some 4) 0 true = .ok (none, some (3/4), some 0) ∧
    corrParts wl wl2 (some 0) (some 4) 0 true = corrEarly wl wl2 (some 0) (some 4) 0 true := by decide +kernel

end cov
/-! ## 2. expression trees -/
section expr
variable {P : Type} [LinearOrder P]
open C16

/-- the leaves of a tree, left to right -/
def leaves : Expr P → List (Stairs P)
  | .leaf f => [f]
  | .un _ e | .binR _ e _ | .binL _ _ e | .clip e _ _ | .fillC e _ => leaves e
  | .bin _ a b | .mask a b | .wher a b | .fillS a b => leaves a ++ leaves b

/-- all sub-trees (the intermediate results are their values), the tree itself included -/
def subs : Expr P → List (Expr P)
  | .leaf f => [.leaf f]
  | .un u e => .un u e :: subs e
  | .binR o e c => .binR o e c :: subs e
  | .binL o c e => .binL o c e :: subs e
  | .clip e lo hi => .clip e lo hi :: subs e
  | .fillC e v => .fillC e v :: subs e
  | .bin o a b => .bin o a b :: (subs a ++ subs b)
  | .mask a b => .mask a b :: (subs a ++ subs b)
  | .wher a b => .wher a b :: (subs a ++ subs b)
  | .fillS a b => .fillS a b :: (subs a ++ subs b)

/-! ### the side of every node, in terms of the values of its children -/

theorem sideOf_const_right (x : Stairs P) (c : Val) : sideOf x (const c x.closed) = x.closed :=
  c15b_sideOf_stepfree_right x _ rfl
theorem sideOf_const_left (y : Stairs P) (c : Val) : sideOf (const c y.closed : Stairs P) y = y.closed :=
  c15b_sideOf_same _ _ rfl

theorem combineChecked_ok_closed (op : Val → Val → Val) (x y h : Stairs P) (hr : combineChecked op x y = .ok h) :
    ¬ Mismatch x y ∧ h.closed = sideOf x y := by
  rw [combineChecked_eq] at hr
  split at hr
  · cases hr
  · injection hr with hr; subst hr; exact ⟨by assumption, rfl⟩

/-- **the table of sides for the tree constructors**: a two-operand node carries `sideOf` of its children's values
(the side of the child WITH steps; the LEFT child's when neither has – also when the children are closed on
different sides), every other node the side of its only child -/
theorem eval_node_closed (h : Stairs P) :
    (∀ f, (Expr.leaf f).eval = .ok h → h.closed = f.closed) ∧
    (∀ u e, (Expr.un u e).eval = .ok h → ∃ x, e.eval = .ok x ∧ h.closed = x.closed) ∧
    (∀ o a b, (Expr.bin o a b).eval = .ok h →
        ∃ x y, a.eval = .ok x ∧ b.eval = .ok y ∧ ¬ Mismatch x y ∧ h.closed = sideOf x y) ∧
    (∀ o a c, (Expr.binR o a c).eval = .ok h → ∃ x, a.eval = .ok x ∧ h.closed = x.closed) ∧
    (∀ o c b, (Expr.binL o c b).eval = .ok h → ∃ y, b.eval = .ok y ∧ h.closed = y.closed) ∧
    (∀ e lo hi, (Expr.clip e lo hi).eval = .ok h → ∃ x, e.eval = .ok x ∧ h.closed = x.closed) ∧
    (∀ a m, (Expr.mask a m).eval = .ok h →
        ∃ x y, a.eval = .ok x ∧ m.eval = .ok y ∧ ¬ Mismatch x y ∧ h.closed = sideOf x y) ∧
    (∀ a m, (Expr.wher a m).eval = .ok h →
        ∃ x y, a.eval = .ok x ∧ m.eval = .ok y ∧ ¬ Mismatch x y ∧ h.closed = sideOf x y) ∧
    (∀ a b, (Expr.fillS a b).eval = .ok h →
        ∃ x y, a.eval = .ok x ∧ b.eval = .ok y ∧ ¬ Mismatch x y ∧ h.closed = sideOf x y) ∧
    (∀ a v, (Expr.fillC a v).eval = .ok h → ∃ x, a.eval = .ok x ∧ h.closed = x.closed) := by
  have two : ∀ (op : Val → Val → Val) (a b : Expr P),
      (a.eval >>= fun x => b.eval >>= fun y => combineChecked op x y) = .ok h →
      ∃ x y, a.eval = .ok x ∧ b.eval = .ok y ∧ ¬ Mismatch x y ∧ h.closed = sideOf x y := by
    intro op a b hr
    obtain ⟨x, hx, hr⟩ := c15b_bind_ok hr
    obtain ⟨y, hy, hr⟩ := c15b_bind_ok hr
    obtain ⟨h1, h2⟩ := combineChecked_ok_closed op x y h hr
    exact ⟨x, y, hx, hy, h1, h2⟩
  refine ⟨?_, ?_, ?_, ?_, ?_, ?_, ?_, ?_, ?_, ?_⟩
  · intro f hr; injection hr with hr; rw [hr]
  · intro u e hr
    obtain ⟨x, hx, hr⟩ := c15b_bind_ok hr
    injection hr with hr; subst hr
    exact ⟨x, hx, rfl⟩
  · intro o a b hr; exact two o.eval a b hr
  · intro o a c hr
    obtain ⟨x, hx, hr⟩ := c15b_bind_ok hr
    obtain ⟨_, h2⟩ := combineChecked_ok_closed o.eval x _ h hr
    exact ⟨x, hx, by rw [h2, sideOf_const_right]⟩
  · intro o c b hr
    obtain ⟨y, hy, hr⟩ := c15b_bind_ok hr
    obtain ⟨_, h2⟩ := combineChecked_ok_closed o.eval _ y h hr
    exact ⟨y, hy, by rw [h2, sideOf_const_left]⟩
  · intro e lo hi hr
    obtain ⟨x, hx, hr⟩ := c15b_bind_ok hr
    exact ⟨x, hx, c15b_closed_of_clip x h lo hi hr⟩
  · intro a m hr; exact two maskOp a m hr
  · intro a m hr; exact two whereOp a m hr
  · intro a b hr; exact two fillOp a b hr
  · intro a v hr
    obtain ⟨x, hx, hr⟩ := c15b_bind_ok hr
    injection hr with hr; subst hr
    exact ⟨x, hx, rfl⟩

/-- the side of the value of any tree is the side of one of its leaves -/
theorem eval_closed_mem (e : Expr P) (h : Stairs P) (hr : e.eval = .ok h) :
    ∃ f ∈ leaves e, h.closed = f.closed := by
  induction e generalizing h with
  | leaf f => exact ⟨f, by simp [leaves], ((eval_node_closed h).1 f hr)⟩
  | un u e ih =>
    obtain ⟨x, hx, hc⟩ := (eval_node_closed h).2.1 u e hr
    obtain ⟨f, hf, hfc⟩ := ih x hx
    exact ⟨f, hf, hc.trans hfc⟩
  | bin o a b iha ihb =>
    obtain ⟨x, y, hx, hy, _, hc⟩ := (eval_node_closed h).2.2.1 o a b hr
    obtain ⟨f, hf, hfc⟩ := iha x hx
    obtain ⟨g, hg, hgc⟩ := ihb y hy
    rcases c15b_sideOf_mem x y with h1 | h1
    · exact ⟨f, by simp [leaves, hf], by rw [hc, h1, hfc]⟩
    · exact ⟨g, by simp [leaves, hg], by rw [hc, h1, hgc]⟩
  | binR o a c ih =>
    obtain ⟨x, hx, hc⟩ := (eval_node_closed h).2.2.2.1 o a c hr
    obtain ⟨f, hf, hfc⟩ := ih x hx
    exact ⟨f, hf, hc.trans hfc⟩
  | binL o c b ih =>
    obtain ⟨x, hx, hc⟩ := (eval_node_closed h).2.2.2.2.1 o c b hr
    obtain ⟨f, hf, hfc⟩ := ih x hx
    exact ⟨f, hf, hc.trans hfc⟩
  | clip e lo hi ih =>
    obtain ⟨x, hx, hc⟩ := (eval_node_closed h).2.2.2.2.2.1 e lo hi hr
    obtain ⟨f, hf, hfc⟩ := ih x hx
    exact ⟨f, hf, hc.trans hfc⟩
  | mask a b iha ihb =>
    obtain ⟨x, y, hx, hy, _, hc⟩ := (eval_node_closed h).2.2.2.2.2.2.1 a b hr
    obtain ⟨f, hf, hfc⟩ := iha x hx
    obtain ⟨g, hg, hgc⟩ := ihb y hy
    rcases c15b_sideOf_mem x y with h1 | h1
    · exact ⟨f, by simp [leaves, hf], by rw [hc, h1, hfc]⟩
    · exact ⟨g, by simp [leaves, hg], by rw [hc, h1, hgc]⟩
  | wher a b iha ihb =>
    obtain ⟨x, y, hx, hy, _, hc⟩ := (eval_node_closed h).2.2.2.2.2.2.2.1 a b hr
    obtain ⟨f, hf, hfc⟩ := iha x hx
    obtain ⟨g, hg, hgc⟩ := ihb y hy
    rcases c15b_sideOf_mem x y with h1 | h1
    · exact ⟨f, by simp [leaves, hf], by rw [hc, h1, hfc]⟩
    · exact ⟨g, by simp [leaves, hg], by rw [hc, h1, hgc]⟩
  | fillS a b iha ihb =>
    obtain ⟨x, y, hx, hy, _, hc⟩ := (eval_node_closed h).2.2.2.2.2.2.2.2.1 a b hr
    obtain ⟨f, hf, hfc⟩ := iha x hx
    obtain ⟨g, hg, hgc⟩ := ihb y hy
    rcases c15b_sideOf_mem x y with h1 | h1
    · exact ⟨f, by simp [leaves, hf], by rw [hc, h1, hfc]⟩
    · exact ⟨g, by simp [leaves, hg], by rw [hc, h1, hgc]⟩
  | fillC a v ih =>
    obtain ⟨x, hx, hc⟩ := (eval_node_closed h).2.2.2.2.2.2.2.2.2 a v hr
    obtain ⟨f, hf, hfc⟩ := ih x hx
    exact ⟨f, hf, hc.trans hfc⟩

/-! ### the invariant -/

/-- **the weak condition**: every leaf WITH STEPS is closed on `s` (step-free leaves may be closed on either
side), clip bounds are valid, and a clip with an actual bound is only applied to a sub-tree all of whose leaves
are closed on `s` (a bounded clip gives a step-free function steps – with the side that function carries) -/
def Loose (s : Side) : Expr P → Prop
  | .leaf f => SideOK s f
  | .un _ e | .binR _ e _ | .binL _ _ e | .fillC e _ => Loose s e
  | .bin _ a b | .mask a b | .wher a b | .fillS a b => Loose s a ∧ Loose s b
  | .clip e lo hi => boundsOk lo hi = true ∧ (e.OK s ∨ (lo = none ∧ hi = none ∧ Loose s e))

/-- the strong condition of C16 (all leaves closed on `s`) implies the weak one -/
theorem loose_of_ok (s : Side) (e : Expr P) (he : e.OK s) : Loose s e := by
  induction e with
  | leaf f => exact c15b_sideOK_of_closed f he
  | un u e ih => exact ih he
  | bin o a b iha ihb => exact ⟨iha he.1, ihb he.2⟩
  | binR o a c ih => exact ih he
  | binL o c b ih => exact ih he
  | clip e lo hi ih => exact ⟨he.2, Or.inl he.1⟩
  | mask a b iha ihb => exact ⟨iha he.1, ihb he.2⟩
  | wher a b iha ihb => exact ⟨iha he.1, ihb he.2⟩
  | fillS a b iha ihb => exact ⟨iha he.1, ihb he.2⟩
  | fillC a v ih => exact ih he

/-- **the invariant**: under the weak condition evaluation never fails and the value is closed on `s` OR
step-free (`SideOK s`) -/
theorem eval_loose (s : Side) (e : Expr P) (he : Loose s e) : ∃ h, e.eval = .ok h ∧ SideOK s h := by
  have comb : ∀ (op : Val → Val → Val) (x y : Stairs P), SideOK s x → SideOK s y →
      ∃ h, combineChecked op x y = .ok h ∧ SideOK s h := fun op x y hx hy =>
    ⟨_, (c15b_sideOK_combineChecked op x y hx hy).1, (c15b_sideOK_combineChecked op x y hx hy).2⟩
  induction e with
  | leaf f => exact ⟨f, rfl, he⟩
  | un u e ih =>
    obtain ⟨x, hx, hc⟩ := ih he
    exact ⟨unop u x, by simp only [Expr.eval, hx]; rfl, c15b_sideOK_map _ x hc⟩
  | bin o a b iha ihb =>
    obtain ⟨x, hx, hcx⟩ := iha he.1
    obtain ⟨y, hy, hcy⟩ := ihb he.2
    obtain ⟨h, hh, hc⟩ := comb o.eval x y hcx hcy
    exact ⟨h, by simp only [Expr.eval, hx, hy]; exact hh, hc⟩
  | binR o a c iha =>
    obtain ⟨x, hx, hcx⟩ := iha he
    obtain ⟨h, hh, hc⟩ := comb o.eval x (const c x.closed) hcx (c15b_sideOK_const s c _)
    exact ⟨h, by simp only [Expr.eval, hx]; exact hh, hc⟩
  | binL o c b ihb =>
    obtain ⟨y, hy, hcy⟩ := ihb he
    obtain ⟨h, hh, hc⟩ := comb o.eval (const c y.closed) y (c15b_sideOK_const s c _) hcy
    exact ⟨h, by simp only [Expr.eval, hy]; exact hh, hc⟩
  | clip e lo hi ih =>
    obtain ⟨hb, hcase⟩ := he
    rcases hcase with hok | ⟨rfl, rfl, hl⟩
    · obtain ⟨h, hh, hc⟩ := eval_total s (.clip e lo hi) ⟨hok, hb⟩
      exact ⟨h, hh, c15b_sideOK_of_closed h hc⟩
    · obtain ⟨x, hx, hcx⟩ := ih hl
      exact ⟨_, by simp only [Expr.eval, hx]; exact clip_ok x none none rfl, c15b_sideOK_clip_none x hcx⟩
  | mask a m iha ihm =>
    obtain ⟨x, hx, hcx⟩ := iha he.1
    obtain ⟨y, hy, hcy⟩ := ihm he.2
    obtain ⟨h, hh, hc⟩ := comb maskOp x y hcx hcy
    exact ⟨h, by simp only [Expr.eval, hx, hy]; exact hh, hc⟩
  | wher a m iha ihm =>
    obtain ⟨x, hx, hcx⟩ := iha he.1
    obtain ⟨y, hy, hcy⟩ := ihm he.2
    obtain ⟨h, hh, hc⟩ := comb whereOp x y hcx hcy
    exact ⟨h, by simp only [Expr.eval, hx, hy]; exact hh, hc⟩
  | fillS a b iha ihb =>
    obtain ⟨x, hx, hcx⟩ := iha he.1
    obtain ⟨y, hy, hcy⟩ := ihb he.2
    obtain ⟨h, hh, hc⟩ := comb fillOp x y hcx hcy
    exact ⟨h, by simp only [Expr.eval, hx, hy]; exact hh, hc⟩
  | fillC a v iha =>
    obtain ⟨x, hx, hcx⟩ := iha he
    exact ⟨fillnaScalar x v, by simp only [Expr.eval, hx]; rfl, c15b_sideOK_map _ x hcx⟩

/-- both conditions are inherited by every sub-tree … -/
theorem ok_subs (s : Side) (e : Expr P) (he : e.OK s) : ∀ e' ∈ subs e, e'.OK s := by
  induction e with
  | leaf f => intro e' h; simp only [subs, List.mem_singleton] at h; rw [h]; exact he
  | un u e ih => intro e' h; rcases List.mem_cons.mp h with h | h; · rw [h]; exact he
                 · exact ih he e' h
  | binR o a c ih => intro e' h; rcases List.mem_cons.mp h with h | h; · rw [h]; exact he
                     · exact ih he e' h
  | binL o c b ih => intro e' h; rcases List.mem_cons.mp h with h | h; · rw [h]; exact he
                     · exact ih he e' h
  | fillC a v ih => intro e' h; rcases List.mem_cons.mp h with h | h; · rw [h]; exact he
                    · exact ih he e' h
  | clip e lo hi ih => intro e' h; rcases List.mem_cons.mp h with h | h; · rw [h]; exact he
                       · exact ih he.1 e' h
  | bin o a b iha ihb =>
    intro e' h; rcases List.mem_cons.mp h with h | h; · rw [h]; exact he
    · rcases List.mem_append.mp h with h | h
      · exact iha he.1 e' h
      · exact ihb he.2 e' h
  | mask a b iha ihb =>
    intro e' h; rcases List.mem_cons.mp h with h | h; · rw [h]; exact he
    · rcases List.mem_append.mp h with h | h
      · exact iha he.1 e' h
      · exact ihb he.2 e' h
  | wher a b iha ihb =>
    intro e' h; rcases List.mem_cons.mp h with h | h; · rw [h]; exact he
    · rcases List.mem_append.mp h with h | h
      · exact iha he.1 e' h
      · exact ihb he.2 e' h
  | fillS a b iha ihb =>
    intro e' h; rcases List.mem_cons.mp h with h | h; · rw [h]; exact he
    · rcases List.mem_append.mp h with h | h
      · exact iha he.1 e' h
      · exact ihb he.2 e' h

theorem loose_subs (s : Side) (e : Expr P) (he : Loose s e) : ∀ e' ∈ subs e, Loose s e' := by
  induction e with
  | leaf f => intro e' h; simp only [subs, List.mem_singleton] at h; rw [h]; exact he
  | un u e ih => intro e' h; rcases List.mem_cons.mp h with h | h; · rw [h]; exact he
                 · exact ih he e' h
  | binR o a c ih => intro e' h; rcases List.mem_cons.mp h with h | h; · rw [h]; exact he
                     · exact ih he e' h
  | binL o c b ih => intro e' h; rcases List.mem_cons.mp h with h | h; · rw [h]; exact he
                     · exact ih he e' h
  | fillC a v ih => intro e' h; rcases List.mem_cons.mp h with h | h; · rw [h]; exact he
                    · exact ih he e' h
  | clip e lo hi ih =>
    intro e' h; rcases List.mem_cons.mp h with h | h; · rw [h]; exact he
    · rcases he.2 with hok | ⟨_, _, hl⟩
      · exact loose_of_ok s e' (ok_subs s e hok e' h)
      · exact ih hl e' h
  | bin o a b iha ihb =>
    intro e' h; rcases List.mem_cons.mp h with h | h; · rw [h]; exact he
    · rcases List.mem_append.mp h with h | h
      · exact iha he.1 e' h
      · exact ihb he.2 e' h
  | mask a b iha ihb =>
    intro e' h; rcases List.mem_cons.mp h with h | h; · rw [h]; exact he
    · rcases List.mem_append.mp h with h | h
      · exact iha he.1 e' h
      · exact ihb he.2 e' h
  | wher a b iha ihb =>
    intro e' h; rcases List.mem_cons.mp h with h | h; · rw [h]; exact he
    · rcases List.mem_append.mp h with h | h
      · exact iha he.1 e' h
      · exact ihb he.2 e' h
  | fillS a b iha ihb =>
    intro e' h; rcases List.mem_cons.mp h with h | h; · rw [h]; exact he
    · rcases List.mem_append.mp h with h | h
      · exact iha he.1 e' h
      · exact ihb he.2 e' h

/-- … so **every intermediate result** exists and is closed on `s` (leaves all closed on `s`: extension of
`C16.eval_total` to the intermediate results) … -/
theorem eval_total_everywhere (s : Side) (e : Expr P) (he : e.OK s) :
    ∀ e' ∈ subs e, ∃ h, e'.eval = .ok h ∧ h.closed = s :=
  fun e' h => eval_total s e' (ok_subs s e he e' h)

/-- … respectively is closed on `s` or step-free (leaves with steps closed on `s`) -/
theorem eval_loose_everywhere (s : Side) (e : Expr P) (he : Loose s e) :
    ∀ e' ∈ subs e, ∃ h, e'.eval = .ok h ∧ SideOK s h :=
  fun e' h => eval_loose s e' (loose_subs s e he e' h)

/-! ### when does a tree raise? -/

theorem eval_two_error (op : Val → Val → Val) (a b : Expr P)
    (hr : (a.eval >>= fun x => b.eval >>= fun y => combineChecked op x y) = .error .closedMismatch) :
    a.eval = .error .closedMismatch ∨ b.eval = .error .closedMismatch ∨
      ∃ x y, a.eval = .ok x ∧ b.eval = .ok y ∧ Mismatch x y := by
  rcases c15b_bind_error hr with h | ⟨x, hx, hr⟩
  · exact Or.inl h
  · rcases c15b_bind_error hr with h | ⟨y, hy, hr⟩
    · exact Or.inr (Or.inl h)
    · exact Or.inr (Or.inr ⟨x, y, hx, hy, (combineChecked_error_iff op x y).mp hr⟩)

/-- **the true converse**: a tree that raises `ClosedMismatch` has two leaves closed on different sides
(no hypothesis on bounds or well-formedness) -/
theorem eval_error_two_sides (e : Expr P) (hr : e.eval = .error .closedMismatch) :
    ∃ f ∈ leaves e, ∃ g ∈ leaves e, f.closed ≠ g.closed := by
  have two : ∀ (op : Val → Val → Val) (a b : Expr P),
      (a.eval = .error .closedMismatch → ∃ f ∈ leaves a, ∃ g ∈ leaves a, f.closed ≠ g.closed) →
      (b.eval = .error .closedMismatch → ∃ f ∈ leaves b, ∃ g ∈ leaves b, f.closed ≠ g.closed) →
      (a.eval >>= fun x => b.eval >>= fun y => combineChecked op x y) = .error .closedMismatch →
      ∃ f ∈ leaves a ++ leaves b, ∃ g ∈ leaves a ++ leaves b, f.closed ≠ g.closed := by
    intro op a b iha ihb hr
    rcases eval_two_error op a b hr with h | h | ⟨x, y, hx, hy, hm⟩
    · obtain ⟨f, hf, g, hg, hne⟩ := iha h
      exact ⟨f, List.mem_append_left _ hf, g, List.mem_append_left _ hg, hne⟩
    · obtain ⟨f, hf, g, hg, hne⟩ := ihb h
      exact ⟨f, List.mem_append_right _ hf, g, List.mem_append_right _ hg, hne⟩
    · obtain ⟨f, hf, hfc⟩ := eval_closed_mem a x hx
      obtain ⟨g, hg, hgc⟩ := eval_closed_mem b y hy
      exact ⟨f, List.mem_append_left _ hf, g, List.mem_append_right _ hg, by rw [← hfc, ← hgc]; exact hm.2.2⟩
  induction e with
  | leaf f => cases hr
  | un u e ih =>
    rcases c15b_bind_error hr with h | ⟨x, _, h⟩
    · exact ih h
    · cases h
  | bin o a b iha ihb => exact two o.eval a b iha ihb hr
  | binR o a c ih =>
    rcases c15b_bind_error hr with h | ⟨x, _, h⟩
    · exact ih h
    · exact absurd ((combineChecked_error_iff _ _ _).mp h) (not_mismatch_const_right x c _)
  | binL o c b ih =>
    rcases c15b_bind_error hr with h | ⟨x, _, h⟩
    · exact ih h
    · exact absurd ((combineChecked_error_iff _ _ _).mp h) (not_mismatch_const_left x c _)
  | clip e lo hi ih =>
    rcases c15b_bind_error hr with h | ⟨x, _, h⟩
    · exact ih h
    · cases (c15b_clip_error_only x lo hi _ h).1
  | mask a b iha ihb => exact two maskOp a b iha ihb hr
  | wher a b iha ihb => exact two whereOp a b iha ihb hr
  | fillS a b iha ihb => exact two fillOp a b iha ihb hr
  | fillC a v ih =>
    rcases c15b_bind_error hr with h | ⟨x, _, h⟩
    · exact ih h
    · cases h

/-- every clip in the tree is the trivial `clip(None, None)` (in particular: no clip at all) -/
def TrivialClips : Expr P → Prop
  | .leaf _ => True
  | .un _ e | .binR _ e _ | .binL _ _ e | .fillC e _ => TrivialClips e
  | .bin _ a b | .mask a b | .wher a b | .fillS a b => TrivialClips a ∧ TrivialClips b
  | .clip e lo hi => lo = none ∧ hi = none ∧ TrivialClips e

theorem loose_of_leaves (s : Side) (e : Expr P) (ht : TrivialClips e) (hl : ∀ f ∈ leaves e, SideOK s f) :
    Loose s e := by
  induction e with
  | leaf f => exact hl f (by simp [leaves])
  | un u e ih => exact ih ht hl
  | binR o a c ih => exact ih ht hl
  | binL o c b ih => exact ih ht hl
  | fillC a v ih => exact ih ht hl
  | clip e lo hi ih =>
    obtain ⟨rfl, rfl, ht'⟩ := ht
    exact ⟨rfl, Or.inr ⟨rfl, rfl, ih ht' hl⟩⟩
  | bin o a b iha ihb =>
    exact ⟨iha ht.1 (fun f hf => hl f (List.mem_append_left _ hf)),
           ihb ht.2 (fun f hf => hl f (List.mem_append_right _ hf))⟩
  | mask a b iha ihb =>
    exact ⟨iha ht.1 (fun f hf => hl f (List.mem_append_left _ hf)),
           ihb ht.2 (fun f hf => hl f (List.mem_append_right _ hf))⟩
  | wher a b iha ihb =>
    exact ⟨iha ht.1 (fun f hf => hl f (List.mem_append_left _ hf)),
           ihb ht.2 (fun f hf => hl f (List.mem_append_right _ hf))⟩
  | fillS a b iha ihb =>
    exact ⟨iha ht.1 (fun f hf => hl f (List.mem_append_left _ hf)),
           ihb ht.2 (fun f hf => hl f (List.mem_append_right _ hf))⟩

/-- a family without a mismatching pair fits one side -/
theorem common_side (l : List (Stairs P)) (h : ∀ f ∈ l, ∀ g ∈ l, ¬ Mismatch f g) :
    ∃ s, ∀ f ∈ l, SideOK s f := by
  by_cases hex : ∃ f ∈ l, f.hasSteps = true
  · obtain ⟨f, hf, hs⟩ := hex
    refine ⟨f.closed, fun g hg hgs => ?_⟩
    by_contra hne
    exact h f hf g hg ⟨hs, hgs, fun e => hne e.symm⟩
  · refine ⟨.left, fun g hg hgs => ?_⟩
    exact absurd ⟨g, hg, hgs⟩ hex

/-- **the "naive converse" is TRUE for trees without bounded clips**: if such a tree fails (in any way), two of
its leaves WITH STEPS are closed on different sides -/
theorem eval_error_mismatched_leaves (e : Expr P) (ht : TrivialClips e) (err : Err) (hr : e.eval = .error err) :
    ∃ f ∈ leaves e, ∃ g ∈ leaves e, Mismatch f g := by
  by_contra hno
  push Not at hno
  obtain ⟨s, hs⟩ := common_side (leaves e) hno
  obtain ⟨h, hh, _⟩ := eval_loose s e (loose_of_leaves s e ht hs)
  rw [hh] at hr; cases hr

/-! witnesses (domain `Int`) -/
def xl : Stairs Int := ⟨some 0, [(1, some 2)], .left⟩
def xr : Stairs Int := ⟨some 0, [(1, some 2)], .right⟩
def xcr : Stairs Int := ⟨some 5, [], .right⟩
/-- a left-closed function plus the bounded clip of a right-closed CONSTANT -/
def tClip : Expr Int := .bin .add (.clip (.leaf xcr) (some 0) (some 3)) (.leaf xl)
/-- `(l − l) + r` -/
def tCancel : Expr Int := .bin .add (.bin .sub (.leaf xl) (.leaf xl)) (.leaf xr)
/-- `(l + 5) · clip(l, None, None)` with the right-closed constant as a leaf, too -/
def tLoose : Expr Int := .bin .mul (.bin .add (.leaf xl) (.leaf xcr)) (.clip (.mask (.leaf xl) (.leaf xcr)) none none)

example : Loose .left tLoose ∧ ¬ tLoose.OK .left ∧ ¬ tLoose.OK .right := by
  simp only [tLoose, Loose, Expr.OK]; decide +kernel
example : tLoose.eval = .ok ⟨none, [], .left⟩ := by decide +kernel
example : tCancel.eval = .ok ⟨some 0, [(1, some 2)], .right⟩ := by decide +kernel

example : (C16.t C16.a₀).OK .left ∧ (subs (C16.t C16.a₀)).length = 6 := by
  simp only [C16.t, Expr.OK, subs]; decide +kernel
/-- a tree without clips that raises: its leaves with steps mismatch (`eval_error_mismatched_leaves`), a fortiori two
leaves are closed on different sides (`eval_error_two_sides`) -/
example : (Expr.bin .add (.leaf xl) (.leaf xr)).eval = .error .closedMismatch ∧ Mismatch xl xr ∧
    TrivialClips (Expr.bin .add (.leaf xl) (.leaf xr)) := by
  simp only [TrivialClips]; decide +kernel

/-- **REFUTED: "leaves with steps all closed on `s` ⇒ no error"** – a bounded clip turns the right-closed constant
into a right-closed function WITH steps.  The same tree refutes **the naive converse** "a tree that raises has two
leaves with steps on different sides": only ONE of its leaves has steps -/
theorem eval_loose_needs_clip_guard :
    (∀ f ∈ leaves tClip, SideOK .left f) ∧ tClip.eval = .error .closedMismatch ∧
    ¬ ∃ f ∈ leaves tClip, ∃ g ∈ leaves tClip, Mismatch f g := by
  refine ⟨by decide +kernel, by decide +kernel, ?_⟩
  rintro ⟨f, hf, g, hg, hm⟩
  simp only [tClip, leaves, List.cons_append, List.nil_append, List.mem_cons, List.not_mem_nil, or_false] at hf hg
  rcases hf with rfl | rfl <;> rcases hg with rfl | rfl <;> revert hm <;> decide +kernel

/-- **REFUTED: "two leaves with steps on different sides ⇒ raises"** – an intermediate result can become step-free
(`l − l`), and a step-free result combines with either side (its own side, `left`, is dropped) -/
theorem eval_mismatched_leaves_may_succeed :
    (∃ f ∈ leaves tCancel, ∃ g ∈ leaves tCancel, Mismatch f g) ∧ TrivialClips tCancel ∧
    ∃ h, tCancel.eval = .ok h ∧ h.closed = .right :=
  ⟨⟨xl, by simp [tCancel, leaves], xr, by simp [tCancel, leaves], by decide +kernel⟩,
   by simp [tCancel, TrivialClips], ⟨some 0, [(1, some 2)], .right⟩, by decide +kernel, rfl⟩

end expr

/-! ## 3. the side of results – the complete table
(`C15.binop_closed`, `C15.mask_where_fillna_closed`, `C15.unary_closed`, `C15.shift_closed`, `C18c.aggregate_closed`
cover `Stairs ∘ Stairs` operators, masking / filling by a function, the unary operators incl. `isna` / `notna`,
scalar and method `fillna`, the tuple forms, `clip`, `shift` and the collection aggregations; the rest is here) -/
section table
variable {P : Type} [LinearOrder P]

/-- `Stairs ∘ scalar`: never raises, the side of the function -/
theorem binopO_scalar_right (o : BinOp) (f : Stairs P) (c : Val) :
    binopO o (.st f) (.sc c) = some (.ok (combine o.eval f (const c f.closed) f.closed)) := by
  show some (combineChecked o.eval f (const c f.closed)) = _
  rw [combineChecked_total _ _ _ (not_mismatch_const_right f c _), sideOf_const_right]

/-- `scalar ∘ Stairs`: never raises, the side of the function -/
theorem binopO_scalar_left (o : BinOp) (c : Val) (g : Stairs P) :
    binopO o (.sc c) (.st g) = some (.ok (combine o.eval (const c g.closed) g g.closed)) := by
  show some (combineChecked o.eval (const c g.closed) g) = _
  rw [combineChecked_total _ _ _ (not_mismatch_const_left g c _), sideOf_const_left]

/-- **binary operators, all operand kinds** -/
theorem binopO_closed (o : BinOp) (f g : Stairs P) (c d : Val) :
    (binopO o (.st f) (.st g) = some (binop o f g) ∧ ∀ h, binop o f g = .ok h → h.closed = sideOf f g) ∧
    (∃ h, binopO o (.st f) (.sc c) = some (.ok h) ∧ h.closed = f.closed) ∧
    (∃ h, binopO o (.sc c) (.st g) = some (.ok h) ∧ h.closed = g.closed) ∧
    binopO o (.sc c) (.sc d) = (none : Option (Except Err (Stairs P))) :=
  ⟨⟨rfl, fun h hr => (combineChecked_ok_closed o.eval f g h hr).2⟩,
   ⟨_, binopO_scalar_right o f c, rfl⟩, ⟨_, binopO_scalar_left o c g, rfl⟩, rfl⟩

/-- **one-operand constructions keep the side** (beyond `C15.unary_closed`): canonicalisation, re-labelling of the
domain, `layer`, `isna` / `notna` explicitly; the helper functions are built on the side they are given -/
theorem unary_closed_more {Q : Type} (f : Stairs P) (φ : P → Q) (t : Triple P) (lo hi : Option P)
    (s : Option P) (v : Rat) (c : Val) (cl : Side) :
    (canon f).closed = f.closed ∧ (mapPoints φ f).closed = f.closed ∧
    (unop .isna f).closed = f.closed ∧ (unop .notna f).closed = f.closed ∧
    (layer1 f t).closed = f.closed ∧
    (indicator lo hi cl).closed = cl ∧ (layerIndicator lo hi cl).closed = cl ∧
    (startRay s v cl).closed = cl ∧ (stopRay s v cl).closed = cl ∧ (const c cl : Stairs P).closed = cl := by
  refine ⟨rfl, rfl, rfl, rfl, rfl, rfl, ?_, ?_, ?_, rfl⟩
  · unfold layerIndicator
    rw [closed_canon]
    cases lo <;> cases hi <;> simp only [] <;> (try split) <;> (try split) <;> rfl
  · cases s <;> rfl
  · cases s <;> rfl

/-- **layer** (any number of intervals, any bounds) keeps the side of the receiver -/
theorem layer_closed (ts : List (Triple P)) : ∀ f : Stairs P, (layer f ts).closed = f.closed := by
  induction ts with
  | nil => intro f; rfl
  | cons t r ih => intro f; rw [layer_cons, ih]; rfl

/-- **clip**, including `clip(None, None)`: the side of the receiver; the only error is the `ValueError` -/
theorem clip_closed (f : Stairs P) (lo hi : Option P) :
    (∀ r, clip f lo hi = .ok r → r.closed = f.closed) ∧
    (∃ r, clip f none none = .ok r ∧ r.closed = f.closed) ∧
    (∀ e, clip f lo hi = .error e → e = .valueError) :=
  ⟨fun r hr => c15b_closed_of_clip f r lo hi hr, ⟨_, clip_ok f none none rfl, rfl⟩,
   fun e he => (c15b_clip_error_only f lo hi e he).1⟩

/-- **diff** never raises (the shifted copy is closed like the receiver) and keeps the side -/
theorem diff_closed [Add P] (f : Stairs P) (d : P) :
    diff f d = .ok (combine vsub f (shift f d) f.closed) ∧ (combine vsub f (shift f d) f.closed).closed = f.closed := by
  refine ⟨?_, rfl⟩
  show combineChecked vsub f (shift f d) = _
  rw [combineChecked_total _ _ _ (not_mismatch_of_closed_eq f (shift f d) rfl), c15b_sideOf_same f (shift f d) rfl]

/-- masking a function by its own `isna` / `notna` never raises -/
theorem mask_own_isna (f : Stairs P) (u : UnOp) :
    ∃ h, mask f (unop u f) = .ok h ∧ h.closed = f.closed := by
  refine ⟨_, combineChecked_total _ _ _ (not_mismatch_of_closed_eq f (unop u f) rfl), ?_⟩
  rw [closed_combine, c15b_sideOf_same f (unop u f) rfl]

end table

section tableRat

/-- the window clip used by the statistics: the side of the receiver -/
theorem clipW_closed (f : Stairs Rat) (lo hi : Option Rat) (r : Stairs Rat) (hr : clipW f lo hi = .ok r) :
    r.closed = f.closed := by
  cases hb : boundsOk lo hi with
  | true =>
    obtain ⟨r', hr', hc⟩ := (clipW_of_bounds f lo hi).1 hb
    rw [hr'] at hr; injection hr with hr; rw [← hr, hc]
  | false => rw [(clipW_of_bounds f lo hi).2 hb] at hr; cases hr

/-- **slices**: every slice is closed like the function; a slice can only fail with the `ValueError` -/
theorem slices_closed (f : Stairs Rat) (ivs : List Iv) :
    ∀ r ∈ slices f ivs, (∀ h, r = .ok h → h.closed = f.closed) ∧ (∀ e, r = .error e → e = .valueError) := by
  intro r hr
  obtain ⟨iv, _, rfl⟩ := List.mem_map.mp hr
  exact ⟨fun h hh => c15b_closed_of_clip f h _ _ hh, fun e he => (c15b_clip_error_only f _ _ e he).1⟩

/-- **resample**: the side of the function (and never a mismatch: `C15.resample_never_mismatches`) -/
theorem resample_closed (f : Stairs Rat) (ivs : List Iv) (vals : List Rat) (h : Stairs Rat)
    (hr : resampleWith f ivs vals = .ok h) : h.closed = f.closed := by
  unfold resampleWith at hr
  cases ivs with
  | nil => cases hr
  | cons iv0 rest =>
    simp only [] at hr
    generalize hlb : List.foldl _ iv0.1 (iv0 :: rest) = lb at hr
    generalize hrb : List.foldl _ iv0.2 (iv0 :: rest) = rb at hr
    obtain ⟨base, hbase, hr⟩ := c15b_bind_ok hr
    injection hr with hr
    rw [← hr, layer_closed]
    obtain ⟨_, hc⟩ := combineChecked_ok_closed maskOp _ _ base hbase
    rw [hc]
    exact c15b_sideOf_same (fillnaScalar (maskTuple f (some lb) (some rb)) (some 0))
      (fillnaScalar (maskTuple (unop .isna f) (some lb) (some rb)) (some 0)) rfl

/-- **rolling mean**: the model returns the knots `(x, mean)` only – no side is attached to them – and never
raises a mismatch (`ValueError` for a degenerate window, the assertion for a step-free function without bounds) -/
theorem rollingMean_never_mismatches (f : Stairs Rat) (l r : Rat) (lo hi : Option Rat) :
    rollingMean f l r lo hi ≠ .error .closedMismatch := by
  intro h
  cases hc : clipW f lo hi with
  | error e =>
    rw [rollingMean_clip_error f l r lo hi e hc, (clipW_error_only f lo hi e hc).1] at h
    cases h
  | ok c =>
    by_cases hs : c.steps = []
    · rw [rollingMean_stepfree f c l r lo hi hc hs] at h
      cases lo <;> cases hi <;> cases h
    · by_cases hlr : l < r
      · rw [rollingMean_ok f c l r lo hi hc hs hlr] at h; cases h
      · rw [rollingMean_degenerate f c l r lo hi hc hs hlr] at h; cases h

/-- **the distribution functions live on the VALUE axis and are always left-closed** – whatever the side of the
function (this is what the library does: `ECDFStairs` / percentiles are built with the default `closed`) -/
theorem ecdf_closed (f : Stairs Rat) (scale : Rat) :
    (ecdf f).closed = .left ∧ ∀ t, xtiles scale f = some t → t.closed = .left := by
  refine ⟨rfl, fun t ht => ?_⟩
  unfold xtiles at ht
  split at ht
  · cases ht
  · injection ht with ht; rw [← ht]

example : (ecdf wn).closed = .left ∧ wn.closed = .right ∧ (ecdf wn).hasSteps = true := by decide +kernel

/-! ### three seeded defects that dropped `closed=` -/

/-- DEFECT 1: `isna` / `notna` built without `closed=` (default `left`) -/
def unopNoClosed (u : UnOp) (f : Stairs Rat) : Stairs Rat := { unop u f with closed := .left }

/-- refuted on a right-closed function with an undefined region: wrong side, and the idiom
`f.mask(f.isna())` raises from inside the library although only ONE function is involved -/
theorem unopNoClosed_refuted :
    (unopNoClosed .isna wn).closed ≠ wn.closed ∧ (unopNoClosed .notna wn).closed ≠ wn.closed ∧
    mask wn (unopNoClosed .isna wn) = .error .closedMismatch ∧
    (∃ h, mask wn (unop .isna wn) = .ok h ∧ h.closed = .right) := by
  refine ⟨by decide +kernel, by decide +kernel, by decide +kernel, ?_⟩
  obtain ⟨h, hh, hc⟩ := mask_own_isna wn .isna
  exact ⟨h, hh, hc⟩

/-- `layer` written the way the library does it for a receiver with an undefined region: layer the intervals onto a
blank (zero, step-free) function and ADD the receiver.  `blank` is the side the blank is built on. -/
def layerViaBlank (blank : Side) (f : Stairs Rat) (ts : List (Triple Rat)) : Except Err (Stairs Rat) :=
  binop .add f (layer (const (some 0) blank) ts)

/-- with the blank built on the receiver's side: never raises, keeps the side, denotes `layer f ts` -/
theorem layerViaBlank_ok (f : Stairs Rat) (ts : List (Triple Rat)) (hf : f.WF) :
    ∃ h, layerViaBlank f.closed f ts = .ok h ∧ h.closed = f.closed ∧
      ∀ st x, Den h st x = Den (layer f ts) st x := by
  have hb : (layer (const (some 0) f.closed : Stairs Rat) ts).closed = f.closed := layer_closed ts _
  have hwb : (layer (const (some 0) f.closed : Stairs Rat) ts).WF := wf_layer _ ts (wf_const _ _)
  refine ⟨_, combineChecked_total _ _ _ (not_mismatch_of_closed_eq f _ hb.symm), ?_, ?_⟩
  · rw [closed_combine, c15b_sideOf_same f _ hb.symm]
  · intro st x
    rw [den_combine _ _ _ _ hf hwb, den_layer _ ts (wf_const _ _), den_layer f ts hf, den_const]
    cases Den f st x with
    | none => rfl
    | some a => simp [BinOp.eval, vadd, vlift2]

/-- … and for at least one interval it IS `layer f ts` (the same object) -/
theorem layerViaBlank_eq_layer (f : Stairs Rat) (ts : List (Triple Rat)) (hf : f.WF) (hts : ts ≠ []) :
    layerViaBlank f.closed f ts = .ok (layer f ts) := by
  have hb : (layer (const (some 0) f.closed : Stairs Rat) ts).closed = f.closed := layer_closed ts _
  have hwb : (layer (const (some 0) f.closed : Stairs Rat) ts).WF := wf_layer _ ts (wf_const _ _)
  obtain ⟨h, hh, hc, hd⟩ := layerViaBlank_ok f ts hf
  have hcan : h.Canonical := by
    have := combineChecked_ok (BinOp.add).eval f _ h hf hwb hh
    exact this.1
  rw [hh]
  congr 1
  exact canonical_ext h (layer f ts) hcan (canonical_layer f ts hf hts) (by rw [hc, layer_closed])
    (fun x => hd false x)

/-- DEFECT 2 (blank built with the default side) refuted: a legal `layer` on ONE right-closed function with an
undefined region raises `ClosedMismatch`; left-closed receivers and unbounded layers are unaffected (why the tests
passed) -/
theorem layerViaBlank_left_refuted :
    wn.Canonical ∧ layerViaBlank .left wn [⟨some 4, some 6, 1⟩] = .error .closedMismatch ∧
    (∃ h, layerViaBlank wn.closed wn [⟨some 4, some 6, 1⟩] = .ok h ∧ h.closed = .right) ∧
    (∃ h, layerViaBlank .left wn [⟨none, none, 1⟩] = .ok h ∧ h.closed = .right) ∧
    (∃ h, layerViaBlank .left wl2 [⟨some 4, some 6, 1⟩] = .ok h ∧ h.closed = .left) := by
  refine ⟨by decide +kernel, by decide +kernel, ?_, ?_, ?_⟩
  · obtain ⟨h, hh, hc, _⟩ := layerViaBlank_ok wn [⟨some 4, some 6, 1⟩] (by decide +kernel)
    exact ⟨h, hh, hc⟩
  · exact ⟨⟨some 1, [(2, some 2), (3, none)], .right⟩, by decide +kernel, rfl⟩
  · exact ⟨⟨some 1, [(2, some 4), (3, some 0), (4, some 1), (6, some 0)], .left⟩, by decide +kernel, rfl⟩

/-- DEFECT 3: `fillna(Stairs)` taking the FILLER's side -/
def fillnaStairsBad (f g : Stairs Rat) : Except Err (Stairs Rat) := do
  let _ ← closedFor f g
  pure (combine fillOp f g g.closed)

/-- refuted: filling a right-closed function by a step-free (default, left-closed) constant flips its side;
the same values, the wrong object -/
theorem fillnaStairsBad_refuted :
    fillnaStairs wn (const (some 7) .left) = .ok ⟨some 0, [(2, some 1), (3, some 7)], .right⟩ ∧
    fillnaStairsBad wn (const (some 7) .left) = .ok ⟨some 0, [(2, some 1), (3, some 7)], .left⟩ ∧
    ¬ ∀ (f g h : Stairs Rat), fillnaStairsBad f g = .ok h → h.closed = sideOf f g := by
  refine ⟨by decide +kernel, by decide +kernel, fun hall => ?_⟩
  have := hall wn (const (some 7) .left) _ (by decide +kernel :
    fillnaStairsBad wn (const (some 7) .left) = .ok ⟨some 0, [(2, some 1), (3, some 7)], .left⟩)
  revert this
  decide +kernel

/-- on consistently closed operands the defective `fillna` is indistinguishable (why the tests passed) -/
theorem fillnaStairsBad_same_side (f g : Stairs Rat) (hc : f.closed = g.closed) :
    fillnaStairsBad f g = fillnaStairs f g := by
  unfold fillnaStairsBad fillnaStairs combineChecked
  rw [closedFor_eq, if_neg (not_mismatch_of_closed_eq f g hc), c15b_sideOf_same f g hc, hc]
  rfl

/-! non-vacuity of the table: a right-closed function with an undefined region through the operations -/
example : binopO .add (.sc (some 1)) (.st wn) = some (.ok ⟨some 1, [(2, some 2), (3, none)], .right⟩) ∧
    diff wn 1 = .ok ⟨some 0, [(2, some 1), (3, none)], .right⟩ ∧
    layer wn [⟨some 4, some 6, 1⟩] = ⟨some 0, [(2, some 1), (3, none)], .right⟩ ∧
    resampleWith wn [(0, 1), (1, 2)] [5, 6] = .ok ⟨some 0, [(0, some 5), (1, some 6), (2, some 1), (3, none)], .right⟩ ∧
    slices wn [(0, 1), (2, 1)] = [.ok ⟨none, [(0, some 0), (1, none)], .right⟩, .error .valueError] ∧
    rollingMean wn (-1) 1 (some 0) (some 5) = .ok [(1, some 0), (2, some (1/2)), (3, some 1), (4, none)] := by
  decide +kernel

end tableRat

/-! ## 4. step-free operands are neutral -/
section neutral
variable {P : Type} [LinearOrder P]

/-- **a step-free SECOND operand**: never raises; the result is closed like the receiver (whether or not the
receiver has steps) -/
theorem combineChecked_stepfree_right (op : Val → Val → Val) (f c : Stairs P) (hc : c.hasSteps = false) :
    combineChecked op f c = .ok (combine op f c f.closed) := by
  rw [combineChecked_total op f c (fun h => by have := h.2.1; rw [hc] at this; cases this),
    c15b_sideOf_stepfree_right f c hc]

/-- **a step-free FIRST operand**: never raises; the result is closed like the other operand if that one has
steps, like the (step-free) receiver otherwise -/
theorem combineChecked_stepfree_left (op : Val → Val → Val) (c f : Stairs P) (hc : c.hasSteps = false) :
    combineChecked op c f = .ok (combine op c f (if f.hasSteps then f.closed else c.closed)) := by
  rw [combineChecked_total op c f (fun h => by have := h.1; rw [hc] at this; cases this),
    c15b_sideOf_stepfree_left c f hc]

/-- the same in terms of `closedFor` -/
theorem closedFor_stepfree (f c : Stairs P) (hc : c.hasSteps = false) :
    closedFor f c = .ok f.closed ∧ closedFor c f = .ok (if f.hasSteps then f.closed else c.closed) := by
  rw [closedFor_eq, closedFor_eq, if_neg (fun h => by have := h.2.1; rw [hc] at this; cases this),
    if_neg (fun h => by have := h.1; rw [hc] at this; cases this),
    c15b_sideOf_stepfree_right f c hc, c15b_sideOf_stepfree_left c f hc]
  exact ⟨rfl, rfl⟩

/-- the two-operand path never looks at the sides of its operands (only the check does) -/
theorem combine_operand_sides (op : Val → Val → Val) (f g f' g' : Stairs P) (cl : Side)
    (hf : identical f f' = true) (hg : identical g g' = true) : combine op f g cl = combine op f' g' cl := by
  rw [f7b_identical_iff] at hf hg
  unfold combine
  rw [hf.1, hf.2, hg.1, hg.2]

/-- **the side of a step-free second operand never matters**: the same constant closed on the other side gives the
SAME OBJECT – for every operator, masking and filling -/
theorem stepfree_side_irrelevant_right (op : Val → Val → Val) (f : Stairs P) (a : Val) (s₁ s₂ : Side) :
    combineChecked op f (const a s₁) = combineChecked op f (const a s₂) := by
  rw [combineChecked_stepfree_right op f _ rfl, combineChecked_stepfree_right op f _ rfl]
  rfl

/-- … nor that of a step-free first operand, as soon as the other operand has steps -/
theorem stepfree_side_irrelevant_left (op : Val → Val → Val) (f : Stairs P) (a : Val) (s₁ s₂ : Side)
    (hf : f.hasSteps = true) : combineChecked op (const a s₁) f = combineChecked op (const a s₂) f := by
  rw [combineChecked_stepfree_left op _ f rfl, combineChecked_stepfree_left op _ f rfl, hf]
  rfl

/-- all public instances at once -/
theorem stepfree_side_irrelevant (f : Stairs P) (a : Val) (s₁ s₂ : Side) (o : BinOp) :
    binop o f (const a s₁) = binop o f (const a s₂) ∧
    mask f (const a s₁) = mask f (const a s₂) ∧
    where_ f (const a s₁) = where_ f (const a s₂) ∧
    fillnaStairs f (const a s₁) = fillnaStairs f (const a s₂) ∧
    (f.hasSteps = true →
      binop o (const a s₁) f = binop o (const a s₂) f ∧
      mask (const a s₁) f = mask (const a s₂) f ∧
      where_ (const a s₁) f = where_ (const a s₂) f ∧
      fillnaStairs (const a s₁) f = fillnaStairs (const a s₂) f) :=
  ⟨stepfree_side_irrelevant_right _ f a s₁ s₂, stepfree_side_irrelevant_right _ f a s₁ s₂,
   stepfree_side_irrelevant_right _ f a s₁ s₂, stepfree_side_irrelevant_right _ f a s₁ s₂,
   fun hf => ⟨stepfree_side_irrelevant_left _ f a s₁ s₂ hf, stepfree_side_irrelevant_left _ f a s₁ s₂ hf,
     stepfree_side_irrelevant_left _ f a s₁ s₂ hf, stepfree_side_irrelevant_left _ f a s₁ s₂ hf⟩⟩

/-- **REFUTED for a step-free receiver combined with a step-free operand**: then the receiver's side is all there
is, and it shows in the result -/
theorem stepfree_side_left_matters :
    binop .add (const (some 1) .left : Stairs Int) (const (some 2) .right) = .ok (const (some 3) .left) ∧
    binop .add (const (some 1) .right : Stairs Int) (const (some 2) .right) = .ok (const (some 3) .right) ∧
    ¬ ∀ (f : Stairs Int) (a : Val) (s₁ s₂ : Side), binop .add (const a s₁) f = binop .add (const a s₂) f := by
  refine ⟨by decide +kernel, by decide +kernel, fun h => ?_⟩
  have := h (const (some 2) .right) (some 1) .left .right
  revert this
  decide +kernel

/-- **collections**: the side of a step-free member does not matter as soon as some member has steps -/
theorem aggregate_stepfree_side_irrelevant (F : AggFn) (ms₁ ms₂ : List (Stairs P)) (a : Val) (s₁ s₂ : Side)
    (hs : ∃ m ∈ ms₁ ++ ms₂, m.hasSteps = true) :
    aggregate F (ms₁ ++ const a s₁ :: ms₂) = aggregate F (ms₁ ++ const a s₂ :: ms₂) := by
  rw [aggregate_eq, aggregate_eq, C18c.closedOfMembers_insert_stepfree ms₁ ms₂ _ rfl hs,
    C18c.closedOfMembers_insert_stepfree ms₁ ms₂ _ rfl hs]
  have : ∀ cl, aggRaw F (ms₁ ++ const a s₁ :: ms₂) cl = aggRaw F (ms₁ ++ const a s₂ :: ms₂) cl := by
    intro cl
    simp [aggRaw, const, idx]
  simp only [this]

example : binop .mul wn (const (some 2) .left) = .ok ⟨some 0, [(2, some 2), (3, none)], .right⟩ ∧
    binop .mul (const (some 2) .left) wn = .ok ⟨some 0, [(2, some 2), (3, none)], .right⟩ ∧
    aggregate .sum [const (some 1) .left, wn] = aggregate .sum [const (some 1) .right, wn] ∧
    aggregate .sum [const (some 1) .left, wn] = .ok ⟨some 1, [(2, some 2), (3, none)], .right⟩ := by decide +kernel

end neutral

/-! ### cov / corr only look at the rows of their operands (when nothing raises) -/
section covNeutral

/-- the masker `isna f ∨ isna g` -/
def covMask (f g : Stairs Rat) : Stairs Rat :=
  combine (BinOp.logic .or).eval (unop .isna f) (unop .isna g) (sideOf (unop .isna f) (unop .isna g))

theorem prepCore_explicit (s : Side) (f g : Stairs Rat) (hf : SideOK s f) (hg : SideOK s g) :
    prepCore f g = .ok (combine maskOp f (covMask f g) (sideOf f (covMask f g)),
                        combine maskOp g (covMask f g) (sideOf g (covMask f g))) ∧
    SideOK s (combine maskOp f (covMask f g) (sideOf f (covMask f g))) ∧
    SideOK s (combine maskOp g (covMask f g) (sideOf g (covMask f g))) := by
  have hnf : SideOK s (unop .isna f) := c15b_sideOK_map _ f hf
  have hng : SideOK s (unop .isna g) := c15b_sideOK_map _ g hg
  obtain ⟨e0, hm⟩ := c15b_sideOK_combineChecked (BinOp.logic .or).eval _ _ hnf hng
  obtain ⟨e1, hf1⟩ := c15b_sideOK_combineChecked maskOp f _ hf hm
  obtain ⟨e2, hg1⟩ := c15b_sideOK_combineChecked maskOp g _ hg hm
  refine ⟨?_, hf1, hg1⟩
  unfold prepCore binop mask
  rw [e0]; simp only [bind, Except.bind]
  rw [e1]; simp only []
  rw [e2]; rfl

/-- the window clip as a total function (valid bounds) -/
def clipWres (f : Stairs Rat) (lo hi : Option Rat) : Stairs Rat :=
  match lo, hi with
  | none, none => f
  | _, _ => combine whereOp f (indicator lo hi f.closed) f.closed

theorem clipW_ok_eq (f : Stairs Rat) (lo hi : Option Rat) (hb : boundsOk lo hi = true) :
    clipW f lo hi = .ok (clipWres f lo hi) := by
  cases lo with
  | none =>
    cases hi with
    | none => rfl
    | some b => exact clip_ok f none (some b) hb
  | some a => exact clip_ok f (some a) hi hb

theorem clipWres_congr (f f' : Stairs Rat) (lo hi : Option Rat) (h : identical f f' = true) :
    identical (clipWres f lo hi) (clipWres f' lo hi) = true := by
  unfold clipWres
  cases lo with
  | none =>
    cases hi with
    | none => exact h
    | some b => exact C12b.combine_congr whereOp f f' _ _ _ _ h (by simp [identical, indicator])
  | some a => exact C12b.combine_congr whereOp f f' _ _ _ _ h (by simp [identical, indicator])

theorem mean_congr (f f' : Stairs Rat) (h : identical f f' = true) : mean f = mean f' := by
  rw [f7b_identical_iff] at h
  unfold mean definedLength
  rw [h.2]

theorem var_congr (f f' : Stairs Rat) (h : identical f f' = true) : var f = var f' := by
  have hm := mean_congr f f' h
  rw [f7b_identical_iff] at h
  unfold var shares valueSums
  rw [hm, h.2]

theorem covTail_congr (f1 g1 f1' g1' : Stairs Rat) (lo hi : Option Rat)
    (hf : identical f1 f1' = true) (hg : identical g1 g1' = true)
    (hm : ¬ Mismatch f1 g1) (hm' : ¬ Mismatch f1' g1') : covTail f1 g1 lo hi = covTail f1' g1' lo hi := by
  cases hb : boundsOk lo hi with
  | false =>
    rw [(covTail_of_not_mismatch f1 g1 lo hi hm).2 hb, (covTail_of_not_mismatch f1' g1' lo hi hm').2 hb]
  | true =>
    have e0 : binop .mul f1 g1 = .ok (combine (BinOp.mul).eval f1 g1 (sideOf f1 g1)) :=
      combineChecked_total _ f1 g1 hm
    have e0' : binop .mul f1' g1' = .ok (combine (BinOp.mul).eval f1' g1' (sideOf f1' g1')) :=
      combineChecked_total _ f1' g1' hm'
    unfold covTail
    rw [e0, e0']
    simp only [bind, Except.bind, clipW_ok_eq _ lo hi hb, pure, Except.pure]
    rw [mean_congr _ _ (clipWres_congr _ _ lo hi (C12b.combine_congr (BinOp.mul).eval f1 f1' g1 g1' _ _ hf hg)),
      mean_congr _ _ (clipWres_congr f1 f1' lo hi hf), mean_congr _ _ (clipWres_congr g1 g1' lo hi hg)]

/-- **`cov` depends on the rows of its operands only**: replacing the operands by objects with the same initial
value and rows (`identical`) but other closed sides changes nothing, as long as neither pair mismatches -/
theorem cov_congr_identical (f g f' g' : Stairs Rat) (lo hi : Option Rat) (lag : Rat) (cp : Bool)
    (hf : identical f f' = true) (hg : identical g g' = true)
    (hm : ¬ Mismatch f g) (hm' : ¬ Mismatch f' g') :
    cov f g lo hi lag cp = cov f' g' lo hi lag cp := by
  obtain ⟨s, h1, h2⟩ := (c15b_not_mismatch_iff f (lagged g lag)).mp (fun h => hm ((lagged_mismatch f g lag).mp h))
  obtain ⟨s', h1', h2'⟩ :=
    (c15b_not_mismatch_iff f' (lagged g' lag)).mp (fun h => hm' ((lagged_mismatch f' g' lag).mp h))
  obtain ⟨e, k1, k2⟩ := prepCore_explicit s f (lagged g lag) h1 h2
  obtain ⟨e', k1', k2'⟩ := prepCore_explicit s' f' (lagged g' lag) h1' h2'
  have hgl : identical (lagged g lag) (lagged g' lag) = true := by
    unfold lagged; split
    · exact C12b.shift_congr g g' _ hg
    · exact hg
  have hmask : identical (covMask f (lagged g lag)) (covMask f' (lagged g' lag)) = true :=
    C12b.combine_congr _ _ _ _ _ _ _ (C12b.unop_congr _ f f' hf) (C12b.unop_congr _ _ _ hgl)
  rw [cov_eq, cov_eq, e, e']
  exact covTail_congr _ _ _ _ lo _ (C12b.combine_congr maskOp f f' _ _ _ _ hf hmask)
    (C12b.combine_congr maskOp _ _ _ _ _ _ hgl hmask)
    ((c15b_not_mismatch_iff _ _).mpr ⟨s, k1, k2⟩) ((c15b_not_mismatch_iff _ _).mpr ⟨s', k1', k2'⟩)

/-- in particular **a step-free operand of `cov` may be closed on either side** -/
theorem cov_stepfree_side_irrelevant (f : Stairs Rat) (a : Val) (s₁ s₂ : Side) (lo hi : Option Rat) (lag : Rat)
    (cp : Bool) :
    cov f (const a s₁) lo hi lag cp = cov f (const a s₂) lo hi lag cp ∧
    cov (const a s₁) f lo hi lag cp = cov (const a s₂) f lo hi lag cp :=
  ⟨cov_congr_identical f _ f _ lo hi lag cp (C12.identical_refl f) (by simp [identical, const])
     (not_mismatch_const_right f a s₁) (not_mismatch_const_right f a s₂),
   cov_congr_identical _ f _ f lo hi lag cp (by simp [identical, const]) (C12.identical_refl f)
     (not_mismatch_const_left f a s₁) (not_mismatch_const_left f a s₂)⟩

theorem corrTail_congr (f1 g1 f1' g1' : Stairs Rat) (lo hi : Option Rat)
    (hf : identical f1 f1' = true) (hg : identical g1 g1' = true)
    (hm : ¬ Mismatch f1 g1) (hm' : ¬ Mismatch f1' g1') : corrTail f1 g1 lo hi = corrTail f1' g1' lo hi := by
  cases hb : boundsOk lo hi with
  | false =>
    rw [(corrTail_of_not_mismatch f1 g1 lo hi hm).2 hb, (corrTail_of_not_mismatch f1' g1' lo hi hm').2 hb]
  | true =>
    unfold corrTail
    simp only [bind, Except.bind, clipW_ok_eq _ lo hi hb, pure, Except.pure]
    rw [cov_congr_identical f1 g1 f1' g1' lo hi 0 true hf hg hm hm',
      var_congr _ _ (clipWres_congr f1 f1' lo hi hf), var_congr _ _ (clipWres_congr g1 g1' lo hi hg)]

/-- the same for `corr` -/
theorem corrParts_congr_identical (f g f' g' : Stairs Rat) (lo hi : Option Rat) (lag : Rat) (cp : Bool)
    (hf : identical f f' = true) (hg : identical g g' = true)
    (hm : ¬ Mismatch f g) (hm' : ¬ Mismatch f' g') :
    corrParts f g lo hi lag cp = corrParts f' g' lo hi lag cp := by
  obtain ⟨s, h1, h2⟩ := (c15b_not_mismatch_iff f (lagged g lag)).mp (fun h => hm ((lagged_mismatch f g lag).mp h))
  obtain ⟨s', h1', h2'⟩ :=
    (c15b_not_mismatch_iff f' (lagged g' lag)).mp (fun h => hm' ((lagged_mismatch f' g' lag).mp h))
  obtain ⟨e, k1, k2⟩ := prepCore_explicit s f (lagged g lag) h1 h2
  obtain ⟨e', k1', k2'⟩ := prepCore_explicit s' f' (lagged g' lag) h1' h2'
  have hgl : identical (lagged g lag) (lagged g' lag) = true := by
    unfold lagged; split
    · exact C12b.shift_congr g g' _ hg
    · exact hg
  have hmask : identical (covMask f (lagged g lag)) (covMask f' (lagged g' lag)) = true :=
    C12b.combine_congr _ _ _ _ _ _ _ (C12b.unop_congr _ f f' hf) (C12b.unop_congr _ _ _ hgl)
  rw [corrParts_eq, corrParts_eq, e, e']
  exact corrTail_congr _ _ _ _ lo _ (C12b.combine_congr maskOp f f' _ _ _ _ hf hmask)
    (C12b.combine_congr maskOp _ _ _ _ _ _ hgl hmask)
    ((c15b_not_mismatch_iff _ _).mpr ⟨s, k1, k2⟩) ((c15b_not_mismatch_iff _ _).mpr ⟨s', k1', k2'⟩)

theorem corrParts_stepfree_side_irrelevant (f : Stairs Rat) (a : Val) (s₁ s₂ : Side) (lo hi : Option Rat)
    (lag : Rat) (cp : Bool) :
    corrParts f (const a s₁) lo hi lag cp = corrParts f (const a s₂) lo hi lag cp ∧
    corrParts (const a s₁) f lo hi lag cp = corrParts (const a s₂) f lo hi lag cp :=
  ⟨corrParts_congr_identical f _ f _ lo hi lag cp (C12.identical_refl f) (by simp [identical, const])
     (not_mismatch_const_right f a s₁) (not_mismatch_const_right f a s₂),
   corrParts_congr_identical _ f _ f lo hi lag cp (by simp [identical, const]) (C12.identical_refl f)
     (not_mismatch_const_left f a s₁) (not_mismatch_const_left f a s₂)⟩

example : cov wl (const (some 3) .right) (some 0) (some 4) 0 true = .ok (some 0) ∧
    cov wn (const (some 3) .left) (some 0) (some 4) 1 false = .ok (some 0) := by decide +kernel

end covNeutral

/-! ## 5. decidability, symmetry, folds -/
section folds
variable {P : Type} [LinearOrder P]

/-- `Mismatch` is decidable (instance in `Lemmas/Pointwise`) and symmetric -/
theorem mismatch_symm (f g : Stairs P) : Mismatch f g ↔ Mismatch g f := c15b_mismatch_symm f g

example : Decidable (Mismatch xl xr) := inferInstance
example : Mismatch xl xr ∧ Mismatch xr xl ∧ ¬ Mismatch xcr xl := by decide +kernel

/-- the error of a checked operation is symmetric in the operands (the RESULT is not: `sideOf`) -/
theorem combineChecked_error_symm (op op' : Val → Val → Val) (f g : Stairs P) :
    combineChecked op f g = .error .closedMismatch ↔ combineChecked op' g f = .error .closedMismatch := by
  rw [combineChecked_error_iff, combineChecked_error_iff, mismatch_symm]

/-- `functools.reduce(operator, [f, g₁, g₂, …])` -/
def foldBin (o : BinOp) (f : Stairs P) (gs : List (Stairs P)) : Except Err (Stairs P) :=
  gs.foldlM (fun acc g => binop o acc g) f

theorem foldBin_nil (o : BinOp) (f : Stairs P) : foldBin o f [] = .ok f := rfl
theorem foldBin_cons (o : BinOp) (f g : Stairs P) (gs : List (Stairs P)) :
    foldBin o f (g :: gs) = binop o f g >>= fun a => foldBin o a gs := by
  unfold foldBin; rw [List.foldlM_cons]

/-- **the n-ary rule**: a fold of a binary operator raises iff at some stage the accumulated result has steps and
the next operand has steps with the other side; the error is always the closed mismatch -/
theorem foldBin_error_iff (o : BinOp) (gs : List (Stairs P)) : ∀ (f : Stairs P) (e : Err),
    foldBin o f gs = .error e ↔
      e = .closedMismatch ∧ ∃ k acc g, foldBin o f (gs.take k) = .ok acc ∧ gs[k]? = some g ∧ Mismatch acc g := by
  induction gs with
  | nil =>
    intro f e
    rw [foldBin_nil]
    constructor
    · intro h; cases h
    · rintro ⟨_, k, acc, g, _, hk, _⟩; simp at hk
  | cons g gs ih =>
    intro f e
    rw [foldBin_cons]
    constructor
    · intro h
      rcases c15b_bind_error h with h1 | ⟨a, ha, h2⟩
      · have he := combineChecked_error_only _ f g e h1
        subst he
        exact ⟨rfl, 0, f, g, rfl, rfl, (combineChecked_error_iff _ f g).mp h1⟩
      · obtain ⟨he, k, acc, g', hk, hg', hm⟩ := (ih a e).mp h2
        refine ⟨he, k + 1, acc, g', ?_, by simpa using hg', hm⟩
        rw [List.take_succ_cons, foldBin_cons, ha]
        exact hk
    · rintro ⟨he, k, acc, g', hk, hg', hm⟩
      subst he
      cases k with
      | zero =>
        simp only [List.take_zero, foldBin_nil] at hk
        injection hk with hk
        simp only [List.getElem?_cons_zero, Option.some.injEq] at hg'
        subst hk hg'
        have : binop o f g = .error .closedMismatch := (combineChecked_error_iff _ f g).mpr hm
        rw [this]; rfl
      | succ k =>
        rw [List.take_succ_cons, foldBin_cons] at hk
        obtain ⟨a, ha, hk⟩ := c15b_bind_ok hk
        rw [ha]
        exact (ih a .closedMismatch).mpr ⟨rfl, k, acc, g', hk, by simpa using hg', hm⟩

/-- an accumulated result with steps owes its side to a processed member with steps -/
theorem foldBin_witness (o : BinOp) (gs : List (Stairs P)) : ∀ (f acc : Stairs P) (ms : List (Stairs P)),
    (f.hasSteps = true → ∃ m ∈ ms, m.hasSteps = true ∧ m.closed = f.closed) →
    foldBin o f gs = .ok acc →
    (acc.hasSteps = true → ∃ m ∈ ms ++ gs, m.hasSteps = true ∧ m.closed = acc.closed) := by
  induction gs with
  | nil =>
    intro f acc ms hw hr
    rw [foldBin_nil] at hr; injection hr with hr; subst hr
    simpa using hw
  | cons g gs ih =>
    intro f acc ms hw hr
    rw [foldBin_cons] at hr
    obtain ⟨a, ha, hr⟩ := c15b_bind_ok hr
    obtain ⟨hnm, hac⟩ := combineChecked_ok_closed o.eval f g a ha
    have ha' : a = combine o.eval f g (sideOf f g) := by
      have := combineChecked_total o.eval f g hnm
      rw [show binop o f g = combineChecked o.eval f g from rfl] at ha
      rw [this] at ha; injection ha with ha; exact ha.symm
    have hw' : a.hasSteps = true → ∃ m ∈ ms ++ [g], m.hasSteps = true ∧ m.closed = a.closed := by
      intro has
      rw [hac]
      by_cases hfs : f.hasSteps = true
      · obtain ⟨m, hm, h1, h2⟩ := hw hfs
        exact ⟨m, List.mem_append_left _ hm, h1, by rw [h2]; unfold sideOf; simp [hfs]⟩
      · have hgs : g.hasSteps = true := by
          rw [ha'] at has
          rcases c15b_hasSteps_combine _ _ _ _ has with h | h
          · exact absurd h hfs
          · exact h
        exact ⟨g, by simp, hgs, by unfold sideOf; simp [hfs, hgs]⟩
    have := ih a acc (ms ++ [g]) hw' hr
    simpa using this

/-- **fold ⇒ aggregate**: whenever the fold raises, the collection `f :: gs` has two members with steps on
different sides, i.e. every aggregation of it raises as well -/
theorem foldBin_error_imp_clash (o : BinOp) (f : Stairs P) (gs : List (Stairs P)) (e : Err)
    (h : foldBin o f gs = .error e) : C18c.Clash (f :: gs) := by
  obtain ⟨_, k, acc, g, hk, hg, hm⟩ := (foldBin_error_iff o gs f e).mp h
  obtain ⟨m, hm', h1, h2⟩ := foldBin_witness o (gs.take k) f acc [f]
    (fun hs => ⟨f, by simp, hs, rfl⟩) hk hm.1
  have hmem : m ∈ f :: gs := by
    rcases List.mem_append.mp hm' with h | h
    · simp only [List.mem_singleton] at h; rw [h]; simp
    · exact List.mem_cons_of_mem _ (List.mem_of_mem_take h)
  have hgmem : g ∈ f :: gs := List.mem_cons_of_mem _ (List.mem_of_getElem? hg)
  exact ⟨m, hmem, g, hgmem, h1, hm.2.1, by rw [h2]; exact hm.2.2⟩

theorem foldBin_error_imp_aggregate_error (o : BinOp) (F : AggFn) (f : Stairs P) (gs : List (Stairs P)) (e : Err)
    (h : foldBin o f gs = .error e) : aggregate F (f :: gs) = .error .closedMismatch :=
  (C18c.aggregate_error_iff F (f :: gs) .closedMismatch).mpr ⟨rfl, foldBin_error_imp_clash o f gs e h⟩

/-- **aggregate ⇏ fold (REFUTED)**: `l + (−l) + r` – the intermediate `l + (−l)` is step-free, so the fold goes on
and ends right-closed, while `sum [l, −l, r]` looks at the members and raises -/
theorem aggregate_error_not_imp_foldBin_error :
    foldBin .add xl [unop .neg xl, xr] = .ok ⟨some 0, [(1, some 2)], .right⟩ ∧
    aggregate .sum [xl, unop .neg xl, xr] = .error .closedMismatch ∧
    C18c.Clash [xl, unop .neg xl, xr] := by
  refine ⟨by decide +kernel, by decide +kernel, ?_⟩
  exact ⟨xl, by simp, xr, by simp, by decide +kernel⟩

/-- when both succeed, the fold and the aggregate carry the same side -/
theorem foldBin_side_invariant (o : BinOp) (s : Side) (gs : List (Stairs P)) :
    ∀ (f acc : Stairs P) (ms : List (Stairs P)),
    (f.hasSteps = true → ∃ m ∈ ms, m.hasSteps = true) →
    ((∃ m ∈ ms, m.hasSteps = true) → f.closed = s) →
    (∀ g ∈ gs, g.hasSteps = true → g.closed = s) →
    foldBin o f gs = .ok acc →
    ((∃ m ∈ ms ++ gs, m.hasSteps = true) → acc.closed = s) ∧
    ((∀ m ∈ ms ++ gs, m.hasSteps = false) → acc.closed = f.closed) := by
  induction gs with
  | nil =>
    intro f acc ms hW hA hG hr
    rw [foldBin_nil] at hr; injection hr with hr; subst hr
    exact ⟨fun h => hA (by simpa using h), fun _ => rfl⟩
  | cons g gs ih =>
    intro f acc ms hW hA hG hr
    rw [foldBin_cons] at hr
    obtain ⟨a, ha, hr⟩ := c15b_bind_ok hr
    obtain ⟨hnm, hac⟩ := combineChecked_ok_closed o.eval f g a ha
    have ha' : a = combine o.eval f g (sideOf f g) := by
      have := combineChecked_total o.eval f g hnm
      rw [show binop o f g = combineChecked o.eval f g from rfl] at ha
      rw [this] at ha; injection ha with ha; exact ha.symm
    have hW' : a.hasSteps = true → ∃ m ∈ ms ++ [g], m.hasSteps = true := by
      intro has
      rw [ha'] at has
      rcases c15b_hasSteps_combine _ _ _ _ has with h | h
      · obtain ⟨m, hm, h1⟩ := hW h
        exact ⟨m, List.mem_append_left _ hm, h1⟩
      · exact ⟨g, by simp, h⟩
    have hA' : (∃ m ∈ ms ++ [g], m.hasSteps = true) → a.closed = s := by
      rintro ⟨m, hm, hms⟩
      rw [hac]
      by_cases hfs : f.hasSteps = true
      · have : sideOf f g = f.closed := by unfold sideOf; simp [hfs]
        rw [this]; exact hA (hW hfs)
      · by_cases hgs : g.hasSteps = true
        · have : sideOf f g = g.closed := by unfold sideOf; simp [hfs, hgs]
          rw [this]; exact hG g (by simp) hgs
        · have : sideOf f g = f.closed := by unfold sideOf; simp [hfs, hgs]
          rw [this]
          rcases List.mem_append.mp hm with h | h
          · exact hA ⟨m, h, hms⟩
          · simp only [List.mem_singleton] at h; rw [h] at hms; exact absurd hms hgs
    obtain ⟨r1, r2⟩ := ih a acc (ms ++ [g]) hW' hA' (fun g' hg' => hG g' (List.mem_cons_of_mem _ hg')) hr
    constructor
    · intro h; exact r1 (by simpa using h)
    · intro h
      rw [r2 (by simpa using h), hac]
      exact c15b_sideOf_stepfree_right f g (h g (by simp))

theorem foldBin_closed_eq_aggregate (o : BinOp) (F : AggFn) (f : Stairs P) (gs : List (Stairs P))
    (acc h : Stairs P) (hf : foldBin o f gs = .ok acc) (ha : aggregate F (f :: gs) = .ok h) :
    acc.closed = h.closed := by
  obtain ⟨a1, a2⟩ := C18c.aggregate_closed F (f :: gs) h ha
  obtain ⟨r1, r2⟩ := foldBin_side_invariant o h.closed gs f acc [f]
    (fun hs => ⟨f, by simp, hs⟩)
    (fun ⟨m, hm, hms⟩ => by
      simp only [List.mem_singleton] at hm; subst hm; exact a1 m (by simp) hms)
    (fun g hg hgs => a1 g (List.mem_cons_of_mem _ hg) hgs) hf
  by_cases hex : ∃ m ∈ f :: gs, m.hasSteps = true
  · exact r1 (by simpa using hex)
  · have hall : ∀ m ∈ f :: gs, m.hasSteps = false := by
      intro m hm
      cases hms : m.hasSteps with
      | false => rfl
      | true => exact absurd ⟨m, hm, hms⟩ hex
    rw [r2 (by simpa using hall), a2 hall]
    rfl

example : (foldBin .add xcr [xl, unop .neg xl]).toOption.map (·.closed) = some .left ∧
    (aggregate .sum [xcr, xl, unop .neg xl]).toOption.map (·.closed) = some .left := by decide +kernel

/-- the order matters for the fold, not for the aggregate: `l + r + (−l)` raises -/
example : foldBin .add xl [xr, unop .neg xl] = .error .closedMismatch := by decide +kernel

end folds

end SC.Props.C15b
