import SCModel.Lemmas.Masking
import SCModel.Model.Stats
import Mathlib.Algebra.Order.Ring.Unbundled.Rat
/-!
# C19 — cov and corr are the length-weighted moments over the common defined window

`cov` in the model follows the code: shift the second operand by `-lag`, mask both operands where either is
undefined, then `mean(f·g) − mean(f)·mean(g)` on the clipped window.  Proved here: the three means are taken
over one and the same region (the part of the window where both are defined), the lag rule, and the shape of
`corr`.  Symmetry, `cov(f,f) = var(f)` and `|corr| ≤ 1` are *not* proved (they need the representation
independence of the integral for products); they are checked by the correspondence harness on every run.
-/
set_option linter.unusedSectionVars false
namespace SC.Props.C19
open SC SC.Stairs

/-- both operands defined at `x` (as seen by the `st`-sided limit) -/
def BothDefined (f g : Stairs Rat) (st : Bool) (x : Rat) : Prop := Den f st x ≠ none ∧ Den g st x ≠ none

instance (f g : Stairs Rat) (st : Bool) (x : Rat) : Decidable (BothDefined f g st x) := by
  unfold BothDefined; infer_instance

theorem sideOf_same (f g : Stairs Rat) (cl : Side) (hf : f.closed = cl) (hg : g.closed = cl) :
    ¬ Mismatch f g ∧ sideOf f g = cl := by
  refine ⟨not_mismatch_of_closed_eq f g (hf.trans hg.symm), ?_⟩
  unfold sideOf; rw [hf, hg]; cases f.hasSteps <;> cases g.hasSteps <;> simp

/-- **mutual masking**: with no lag, the operands that enter the three means are `f` and `g` restricted to
the region where *both* are defined – one common domain for E[fg], E[f] and E[g] -/
theorem covPrep_common_domain (f g : Stairs Rat) (lo hi : Option Rat) (cl : Side)
    (hf : f.WF) (hg : g.WF) (hcf : f.closed = cl) (hcg : g.closed = cl) :
    ∃ f1 g1, covPrep f g lo hi 0 true = .ok (f1, g1, lo, hi) ∧ f1.WF ∧ g1.WF ∧
      f1.closed = cl ∧ g1.closed = cl ∧
      (∀ st x, Den f1 st x = if BothDefined f g st x then Den f st x else none) ∧
      (∀ st x, Den g1 st x = if BothDefined f g st x then Den g st x else none) := by
  have key : ∀ a b : Val,
      maskOp a ((BinOp.logic .or).eval (UnOp.isna.eval a) (UnOp.isna.eval b)) = (if a ≠ none ∧ b ≠ none then a else none) ∧
      maskOp b ((BinOp.logic .or).eval (UnOp.isna.eval a) (UnOp.isna.eval b)) = (if a ≠ none ∧ b ≠ none then b else none) := by
    intro a b
    cases a <;> cases b <;> simp [maskOp, BinOp.eval, vlogic, UnOp.eval, b2r, truth, Logic.eval]
  have hnf : (unop .isna f).WF := wf_unop _ f hf
  have hng : (unop .isna g).WF := wf_unop _ g hg
  obtain ⟨hm0, hs0⟩ := sideOf_same (unop .isna f) (unop .isna g) cl hcf hcg
  set m := combine (BinOp.logic .or).eval (unop .isna f) (unop .isna g) cl with hmdef
  have hmw : m.WF := wf_combine _ _ _ _ hnf hng
  have hmc : m.closed = cl := rfl
  obtain ⟨hm1, hs1⟩ := sideOf_same f m cl hcf hmc
  obtain ⟨hm2, hs2⟩ := sideOf_same g m cl hcg hmc
  refine ⟨combine maskOp f m cl, combine maskOp g m cl, ?_, wf_combine _ _ _ _ hf hmw,
    wf_combine _ _ _ _ hg hmw, rfl, rfl, ?_, ?_⟩
  · unfold covPrep
    simp only [ne_eq, not_true_eq_false, false_and, if_false]
    have e0 : binop (.logic .or) (unop .isna f) (unop .isna g) = .ok m := by
      unfold binop; rw [combineChecked_total _ _ _ hm0, hs0]
    have e1 : mask f m = .ok (combine maskOp f m cl) := by
      unfold mask; rw [combineChecked_total _ _ _ hm1, hs1]
    have e2 : mask g m = .ok (combine maskOp g m cl) := by
      unfold mask; rw [combineChecked_total _ _ _ hm2, hs2]
    rw [e0]; simp only [bind, Except.bind]; rw [e1]; simp only; rw [e2]; rfl
  · intro st x
    rw [den_combine _ _ _ _ hf hmw, den_combine _ _ _ _ hnf hng, den_unop _ f hf, den_unop _ g hg]
    exact (key (Den f st x) (Den g st x)).1
  · intro st x
    rw [den_combine _ _ _ _ hg hmw, den_combine _ _ _ _ hnf hng, den_unop _ f hf, den_unop _ g hg]
    exact (key (Den f st x) (Den g st x)).2

/-- **the covariance formula** (no lag): `E[f₁g₁] − E[f₁]·E[g₁]` with all three means over the same clipped,
mutually masked operands -/
theorem cov_formula (f g : Stairs Rat) (lo hi : Option Rat) (f1 g1 fg a b c : Stairs Rat)
    (hp : covPrep f g lo hi 0 true = .ok (f1, g1, lo, hi))
    (hfg : binop .mul f1 g1 = .ok fg) (ha : clipW fg lo hi = .ok a) (hb : clipW f1 lo hi = .ok b)
    (hc : clipW g1 lo hi = .ok c) :
    cov f g lo hi 0 true = .ok (vsub (mean a) (vmul (mean b) (mean c))) := by
  unfold cov
  rw [hp]; simp only [bind, Except.bind]
  rw [hfg]; simp only; rw [ha]; simp only; rw [hb]; simp only; rw [hc]; rfl

/-- **lag**: a non-zero lag is the same as replacing `g` by `g` shifted by `-lag`, with the window's upper end
reduced by `lag` for `clip='pre'` … -/
theorem cov_lag_pre (f g : Stairs Rat) (lo hi : Option Rat) (lag : Rat) (hl : lag ≠ 0) :
    cov f g lo hi lag true = cov f (shift g (-lag)) lo (hi.map (· - lag)) 0 true := by
  unfold cov covPrep
  simp [hl]

/-- … and unchanged for `clip='post'` -/
theorem cov_lag_post (f g : Stairs Rat) (lo hi : Option Rat) (lag : Rat) (hl : lag ≠ 0) :
    cov f g lo hi lag false = cov f (shift g (-lag)) lo hi 0 false := by
  unfold cov covPrep
  simp [hl]

/-- the lag-free covariance does not depend on the clip mode -/
theorem cov_nolag_mode (f g : Stairs Rat) (lo hi : Option Rat) : cov f g lo hi 0 true = cov f g lo hi 0 false := by
  unfold cov covPrep; simp

theorem corr_lag_pre (f g : Stairs Rat) (lo hi : Option Rat) (lag : Rat) (hl : lag ≠ 0) :
    corrParts f g lo hi lag true = corrParts f (shift g (-lag)) lo (hi.map (· - lag)) 0 true := by
  unfold corrParts covPrep
  simp [hl]

/-- **corr** is that covariance together with the two variances over the same region (the quotient
`cov / sqrt(var f · var g)`, NaN when a variance is 0, is formed by the comparison – square roots are float
glue) -/
theorem corr_parts (f g : Stairs Rat) (lo hi : Option Rat) (f1 g1 b c : Stairs Rat) (cv : Val)
    (hp : covPrep f g lo hi 0 true = .ok (f1, g1, lo, hi))
    (hb : clipW f1 lo hi = .ok b) (hc : clipW g1 lo hi = .ok c)
    (hcv : cov f1 g1 lo hi 0 true = .ok cv) :
    corrParts f g lo hi 0 true = .ok (cv, var b, var c) := by
  unfold corrParts
  rw [hp]; simp only [bind, Except.bind]
  rw [hb]; simp only; rw [hc]; simp only; rw [hcv]; rfl

/-! non-vacuity: operands with different, partially overlapping domains of definition -/
def f₀ : Stairs Rat := ⟨none, [(0, some 1), (2, some 3), (6, none)], .left⟩
def g₀ : Stairs Rat := ⟨some 0, [(1, some 2), (4, none), (5, some 1)], .left⟩
example : cov f₀ g₀ (some 0) (some 8) 0 true = .ok (some (8/25)) := by decide +kernel
example : cov f₀ g₀ (some 0) (some 8) 0 true = cov g₀ f₀ (some 0) (some 8) 0 true := by decide +kernel
example : cov f₀ f₀ (some 0) (some 8) 0 true = .ok (var (okOr f₀ (clip f₀ (some 0) (some 8)))) := by decide +kernel
example : cov f₀ g₀ (some 0) (some 8) 1 true = cov f₀ (shift g₀ (-1)) (some 0) (some 7) 0 true := by decide +kernel

end SC.Props.C19
