import SCModel.Lemmas.Arith1b
import SCModel.Props.C01
import SCModel.Props.C04b
import SCModel.Props.C18b
/-!
# C01b — arithmetic in depth

`Props/C01` says what `+ - * /` do at one point, `Props/C12` has commutativity / associativity / distributivity
(up to `identical`), `Props/C04b §3` the ring-style laws (`add_zero`, `mul_one`, `div_self`, `mul_div_cancel`,
`neg_neg`, …).  This file adds

1. **division**: the domain corollaries of C01 `arith_undefined_iff`; `f / g = f * (1 / g)`,
   `1 / (1 / f) = f.where(f)`, `(f / g) / h = f / (g * h)`, reciprocal of a product, fraction arithmetic,
   `0 / f` (exact law + refutation of the two seeded-defect variants "undefined everywhere" and "constant 0"),
   scalars on either side, NaN scalars;  `f / (g / h) = (f * h) / g` is **refuted** and corrected;
2. **n-ary sums and products**: folding `+` (`*`) over a list of operands is invariant under permutations of
   the operands (head included), equals the `sum` aggregate, and a factor distributes over n-ary sums;
3. **sign and order** on `Den`: monotonicity of `+ h`, `- h`, `k ·` (`k ≥ 0`, reversed for `k ≤ 0`), unary `-`,
   `/ k`; `f * f ≥ 0`; link to the relational operator `<=`; "≤ where both defined" is **not** transitive
   (refuted) unless the middle function is defined;
4. **scalars**: re-association laws through `binopO`, both scalar sides, NaN scalars, zero factors;
5. **the IEEE layer**: sign table of `divRaw`, `cleanBoth ∘ divRaw = vdiv` lifted to whole objects (initial
   value and rows), the scalar-numerator path, and the refutation of "clean the step values only" – with the
   exact condition under which that defect shows.

All object laws are equalities of objects (same initial value, rows, closed side) and hold on undefined
regions and zero divisors as well.  `scR o c f` / `scL o c f` are the objects returned by `f o c` / `c o f` for a
scalar `c` (`none` = NaN): `binopO_scR`, `binopO_scL`.
-/
set_option linter.unusedSectionVars false
namespace SC.Props.C01b
open SC SC.Stairs SC.Props.C01
open SC.Props.C04b (zeroOn oneOn den_zeroOn den_oneOn)
variable {P : Type} [LinearOrder P]

local notation "vneg" => UnOp.eval UnOp.neg
local notation "vzero" => g4b_vzero

/-! ## Helpers -/
section Helpers

/-- the object returned by `f o c` for a scalar `c` on the right -/
def scR (o : BinOp) (c : Val) (f : Stairs P) : Stairs P := combine o.eval f (const c f.closed) f.closed
/-- the object returned by `c o f` for a scalar `c` on the left (`radd`, `rsub`, `rmul`, `rdiv`) -/
def scL (o : BinOp) (c : Val) (f : Stairs P) : Stairs P := combine o.eval (const c f.closed) f f.closed

theorem binopO_scR (o : BinOp) (c : Val) (f : Stairs P) :
    binopO o (.st f) (.sc c) = some (.ok (scR o c f)) := g4b_binopO_right o f c
theorem binopO_scL (o : BinOp) (c : Val) (f : Stairs P) :
    binopO o (.sc c) (.st f) = some (.ok (scL o c f)) := g4b_binopO_left o f c

theorem den_scR (o : BinOp) (c : Val) (f : Stairs P) (hf : f.WF) (st : Bool) (x : P) :
    Den (scR o c f) st x = o.eval (Den f st x) c := den_combine _ _ _ _ hf (wf_const _ _) st x
theorem den_scL (o : BinOp) (c : Val) (f : Stairs P) (hf : f.WF) (st : Bool) (x : P) :
    Den (scL o c f) st x = o.eval c (Den f st x) := den_combine _ _ _ _ (wf_const _ _) hf st x
theorem wf_scR (o : BinOp) (c : Val) (f : Stairs P) (hf : f.WF) : (scR o c f).WF :=
  wf_combine _ _ _ _ hf (wf_const _ _)
theorem wf_scL (o : BinOp) (c : Val) (f : Stairs P) (hf : f.WF) : (scL o c f).WF :=
  wf_combine _ _ _ _ (wf_const _ _) hf
theorem canonical_scR (o : BinOp) (c : Val) (f : Stairs P) (hf : f.WF) : (scR o c f).Canonical :=
  canonical_combine _ _ _ _ hf (wf_const _ _)
theorem canonical_scL (o : BinOp) (c : Val) (f : Stairs P) (hf : f.WF) : (scL o c f).Canonical :=
  canonical_combine _ _ _ _ (wf_const _ _) hf
@[simp] theorem closed_scR (o : BinOp) (c : Val) (f : Stairs P) : (scR o c f).closed = f.closed := rfl
@[simp] theorem closed_scL (o : BinOp) (c : Val) (f : Stairs P) : (scL o c f).closed = f.closed := rfl

/-- extensionality for the scalar objects: unfold `scR` / `scL`, then `g4b_ext` -/
macro "r1b_ext" x:ident : tactic => `(tactic| ((try simp only [scR, scL]); g4b_ext $x))

end Helpers

/-! ## 1. division -/
section division

/-- **domain of `/`** (corollary of C01 `arith_undefined_iff`): undefined exactly where an operand is undefined
or the divisor is zero -/
theorem div_undefined_iff (f g h : Stairs P) (hf : f.WF) (hg : g.WF) (hres : binop .div f g = .ok h)
    (st : Bool) (x : P) :
    Den h st x = none ↔ Den f st x = none ∨ Den g st x = none ∨ Den g st x = some 0 := by
  rw [arith_undefined_iff .div (Or.inr (Or.inr (Or.inr rfl))) f g h hf hg hres st x]
  simp

/-- **domain of `+ - *`**: undefined exactly where an operand is undefined -/
theorem addsubmul_undefined_iff (o : BinOp) (ho : o = .add ∨ o = .sub ∨ o = .mul) (f g h : Stairs P)
    (hf : f.WF) (hg : g.WF) (hres : binop o f g = .ok h) (st : Bool) (x : P) :
    Den h st x = none ↔ Den f st x = none ∨ Den g st x = none := by
  have hA : IsArith o := by
    rcases ho with h | h | h
    · exact Or.inl h
    · exact Or.inr (Or.inl h)
    · exact Or.inr (Or.inr (Or.inl h))
  rw [arith_undefined_iff o hA f g h hf hg hres st x]
  have hnd : o ≠ .div := by rcases ho with h | h | h <;> rw [h] <;> decide
  simp [hnd]

/-- the quotient is defined exactly where both operands are defined and the divisor is non-zero, and there it
is the quotient of the values -/
theorem div_value_iff (f g h : Stairs P) (hf : f.WF) (hg : g.WF) (hres : binop .div f g = .ok h)
    (st : Bool) (x : P) (q : Rat) :
    Den h st x = some q ↔ ∃ a b, Den f st x = some a ∧ Den g st x = some b ∧ b ≠ 0 ∧ q = a / b := by
  rw [(arith_pointwise .div f g h hf hg hres).2 st x]
  exact r1b_v_div_some_iff _ _ q

theorem div_defined_iff (f g h : Stairs P) (hf : f.WF) (hg : g.WF) (hres : binop .div f g = .ok h)
    (st : Bool) (x : P) :
    (Den h st x).isSome ↔ ∃ a b, Den f st x = some a ∧ Den g st x = some b ∧ b ≠ 0 := by
  constructor
  · intro hs
    obtain ⟨q, hq⟩ := Option.isSome_iff_exists.mp hs
    obtain ⟨a, b, ha, hb, hb0, _⟩ := (div_value_iff f g h hf hg hres st x q).mp hq
    exact ⟨a, b, ha, hb, hb0⟩
  · rintro ⟨a, b, ha, hb, hb0⟩
    rw [(div_value_iff f g h hf hg hres st x (a / b)).mpr ⟨a, b, ha, hb, hb0, rfl⟩]; rfl

/-- the quotient is undefined on every zero of the divisor – whatever the numerator -/
theorem div_undefined_on_zero (f g h : Stairs P) (hf : f.WF) (hg : g.WF) (hres : binop .div f g = .ok h)
    (st : Bool) (x : P) (hz : Den g st x = some 0) : Den h st x = none :=
  (div_undefined_iff f g h hf hg hres st x).mpr (Or.inr (Or.inr hz))

/-- where the quotient is defined, multiplying back by the divisor gives the numerator -/
theorem div_mul_back (f g h : Stairs P) (hf : f.WF) (hg : g.WF) (hres : binop .div f g = .ok h)
    (st : Bool) (x : P) (q : Rat) (hq : Den h st x = some q) :
    ∃ a b, Den f st x = some a ∧ Den g st x = some b ∧ b ≠ 0 ∧ q * b = a := by
  rw [(arith_pointwise .div f g h hf hg hres).2 st x] at hq
  exact r1b_v_div_mul_back _ _ q hq

/-- the domain of `f / g` is contained in the domain of `f * g` (and of `f + g`, `f - g`) -/
theorem div_domain_subset (o : BinOp) (ho : o = .add ∨ o = .sub ∨ o = .mul) (f g h k : Stairs P)
    (hf : f.WF) (hg : g.WF) (hres : binop .div f g = .ok h) (hres' : binop o f g = .ok k)
    (st : Bool) (x : P) (hd : Den k st x = none) : Den h st x = none := by
  rcases (addsubmul_undefined_iff o ho f g k hf hg hres' st x).mp hd with e | e
  · exact (div_undefined_iff f g h hf hg hres st x).mpr (Or.inl e)
  · exact (div_undefined_iff f g h hf hg hres st x).mpr (Or.inr (Or.inl e))

section laws
variable [NoMinOrder P] [Nonempty P]

/-- **`f / g = f * (1 / g)`** as objects (`c'` is the side the scalar's constant carries – irrelevant) -/
theorem div_eq_mul_inv (f g : Stairs P) (cl c' : Side) (hf : f.WF) (hg : g.WF) :
    combine vdiv f g cl = combine vmul f (combine vdiv (const (some 1) c') g cl) cl := by
  g4b_ext x; exact r1b_v_div_eq_mul_inv _ _

/-- **`1 / (1 / f) = f.where(f)`**: `f` restricted to where it is defined and non-zero -/
theorem inv_inv (f : Stairs P) (cl c' c'' : Side) (hf : f.WF) :
    combine vdiv (const (some 1) c') (combine vdiv (const (some 1) c'') f cl) cl = combine whereOp f f cl := by
  g4b_ext x; exact r1b_v_inv_inv _

/-- … so it is `f` (in canonical form) exactly when `f` is defined and non-zero everywhere -/
theorem inv_inv_total (f : Stairs P) (c' c'' : Side) (hf : f.WF)
    (hd : ∀ x, ∃ q, Den f false x = some q ∧ q ≠ 0) :
    combine vdiv (const (some 1) c') (combine vdiv (const (some 1) c'') f f.closed) f.closed = f.canon := by
  g4b_ext x
  obtain ⟨q, hq, hq0⟩ := hd x
  rw [r1b_v_inv_inv, hq]; simp [whereOp, hq0]

/-- **`(f / g) / h = f / (g * h)`** -/
theorem div_div (f g h : Stairs P) (cl : Side) (hf : f.WF) (hg : g.WF) (hh : h.WF) :
    combine vdiv (combine vdiv f g cl) h cl = combine vdiv f (combine vmul g h cl) cl := by
  g4b_ext x; exact r1b_v_div_div _ _ _

/-- **`f / (g / h)`, corrected**: it is `(f * h) / g` only where `h ≠ 0`: `((f * h) / g).where(h)` -/
theorem div_div_right (f g h : Stairs P) (cl : Side) (hf : f.WF) (hg : g.WF) (hh : h.WF) :
    combine vdiv f (combine vdiv g h cl) cl
      = combine whereOp (combine vdiv (combine vmul f h cl) g cl) h cl := by
  g4b_ext x; exact r1b_v_div_div_right _ _ _

/-- **reciprocal of a product** -/
theorem inv_mul (f g : Stairs P) (cl c' : Side) (hf : f.WF) (hg : g.WF) :
    combine vdiv (const (some 1) c') (combine vmul f g cl) cl
      = combine vmul (combine vdiv (const (some 1) c') f cl) (combine vdiv (const (some 1) c') g cl) cl := by
  g4b_ext x; exact r1b_v_inv_mul _ _

/-- **`0 / f`** is 0 exactly where `f` is defined and non-zero, undefined elsewhere: `zeroOn (f.where(f))` -/
theorem zero_div (f : Stairs P) (c' : Side) (hf : f.WF) :
    combine vdiv (const (some 0) c') f f.closed = zeroOn (combine whereOp f f f.closed) := by
  unfold zeroOn; g4b_ext x; exact r1b_v_zero_div _

omit [NoMinOrder P] [Nonempty P] in
theorem zero_div_pointwise (f : Stairs P) (cl c' : Side) (hf : f.WF) (st : Bool) (x : P) :
    Den (combine vdiv (const (some 0) c') f cl) st x
      = match Den f st x with
        | some q => if q = 0 then none else some 0
        | none => none := by
  g4b_den
  cases Den f st x with
  | none => rfl
  | some q => by_cases hq : q = 0 <;> simp [vdiv, hq]

/-- `0 / f` is "undefined everywhere" **iff** `f` is nowhere defined-and-non-zero … -/
theorem zero_div_eq_nan_iff (f : Stairs P) (c' : Side) (hf : f.WF) :
    combine vdiv (const (some 0) c') f f.closed = const none f.closed
      ↔ ∀ x, Den f false x = none ∨ Den f false x = some 0 := by
  constructor
  · intro h x
    have := congrArg (fun k => Den k false x) h
    simp only [den_combine _ _ _ _ (wf_const _ _) hf, den_const] at this
    rcases (r1b_v_div_none_iff _ _).mp this with e | e | e
    · cases e
    · exact Or.inl e
    · exact Or.inr e
  · intro h
    g4b_ext x
    rcases h x with e | e <;> rw [e] <;> simp [vdiv]

/-- … and it is the constant 0 **iff** `f` is defined and non-zero everywhere -/
theorem zero_div_eq_zero_iff (f : Stairs P) (c' : Side) (hf : f.WF) :
    combine vdiv (const (some 0) c') f f.closed = const (some 0) f.closed
      ↔ ∀ x, ∃ q, Den f false x = some q ∧ q ≠ 0 := by
  constructor
  · intro h x
    have := congrArg (fun k => Den k false x) h
    simp only [den_combine _ _ _ _ (wf_const _ _) hf, den_const] at this
    obtain ⟨a, b, _, hb, hb0, _⟩ := (r1b_v_div_some_iff _ _ 0).mp this
    exact ⟨b, hb, hb0⟩
  · intro h
    g4b_ext x
    obtain ⟨q, hq, hq0⟩ := h x
    rw [hq]; simp [vdiv, hq0]

/-- fraction arithmetic -/
theorem add_div (f g h : Stairs P) (cl : Side) (hf : f.WF) (hg : g.WF) (hh : h.WF) :
    combine vadd (combine vdiv f h cl) (combine vdiv g h cl) cl = combine vdiv (combine vadd f g cl) h cl := by
  g4b_ext x; exact r1b_v_add_div _ _ _
theorem sub_div (f g h : Stairs P) (cl : Side) (hf : f.WF) (hg : g.WF) (hh : h.WF) :
    combine vsub (combine vdiv f h cl) (combine vdiv g h cl) cl = combine vdiv (combine vsub f g cl) h cl := by
  g4b_ext x; exact r1b_v_sub_div _ _ _
theorem div_add_div (f g h k : Stairs P) (cl : Side) (hf : f.WF) (hg : g.WF) (hh : h.WF) (hk : k.WF) :
    combine vadd (combine vdiv f g cl) (combine vdiv h k cl) cl
      = combine vdiv (combine vadd (combine vmul f k cl) (combine vmul h g cl) cl) (combine vmul g k cl) cl := by
  g4b_ext x; exact r1b_v_div_add_div _ _ _ _
theorem mul_div_assoc (f g h : Stairs P) (cl : Side) (hf : f.WF) (hg : g.WF) (hh : h.WF) :
    combine vdiv (combine vmul f g cl) h cl = combine vmul f (combine vdiv g h cl) cl := by
  g4b_ext x; exact r1b_v_mul_div_assoc _ _ _
theorem div_mul_div (f g h k : Stairs P) (cl : Side) (hf : f.WF) (hg : g.WF) (hh : h.WF) (hk : k.WF) :
    combine vmul (combine vdiv f g cl) (combine vdiv h k cl) cl
      = combine vdiv (combine vmul f h cl) (combine vmul g k cl) cl := by
  g4b_ext x; exact r1b_v_div_mul_div _ _ _ _
theorem neg_div (f g : Stairs P) (cl : Side) (hf : f.WF) (hg : g.WF) :
    combine vdiv (unop .neg f) g cl = unop .neg (combine vdiv f g cl) := by
  g4b_ext x; exact r1b_v_neg_div _ _
theorem div_neg (f g : Stairs P) (cl : Side) (hf : f.WF) (hg : g.WF) :
    combine vdiv f (unop .neg g) cl = unop .neg (combine vdiv f g cl) := by
  g4b_ext x; exact r1b_v_div_neg _ _

/-! ### scalars in a division (public scalar path `binopO`, see `binopO_scR` / `binopO_scL`) -/

/-- `f / c = f * (1/c)` for a real non-zero scalar `c` -/
theorem div_scalar (f : Stairs P) (c : Rat) (hc : c ≠ 0) (hf : f.WF) :
    scR .div (some c) f = scR .mul (some (1 / c)) f := by
  r1b_ext x; exact r1b_v_div_scalar _ c hc
/-- `f / 0` is undefined everywhere -/
theorem div_zero_scalar (f : Stairs P) (hf : f.WF) : scR .div (some 0) f = const none f.closed := by
  r1b_ext x; exact r1b_v_div_zero _
/-- `c / f = c * (1 / f)` for every scalar `c` (NaN included) -/
theorem scalar_div (f : Stairs P) (c : Val) (hf : f.WF) :
    scL .div c f = scL .mul c (scL .div (some 1) f) := by
  r1b_ext x; exact r1b_v_div_eq_mul_inv _ _
omit [NoMinOrder P] [Nonempty P] in
/-- `c / f` at one point: undefined where `f` is undefined or zero, `c / f(x)` elsewhere -/
theorem scalar_div_pointwise (f : Stairs P) (c : Rat) (hf : f.WF) (st : Bool) (x : P) :
    Den (scL .div (some c) f) st x
      = match Den f st x with
        | some q => if q = 0 then none else some (c / q)
        | none => none := by
  rw [den_scL _ _ _ hf]
  cases Den f st x with
  | none => rfl
  | some q => rfl
/-- `0 / f` on the scalar path -/
theorem zero_div_scalar (f : Stairs P) (hf : f.WF) :
    scL .div (some 0) f = zeroOn (combine whereOp f f f.closed) := zero_div f f.closed hf
/-- `1 / (1 / f)` on the scalar path -/
theorem inv_inv_scalar (f : Stairs P) (hf : f.WF) :
    scL .div (some 1) (scL .div (some 1) f) = combine whereOp f f f.closed :=
  inv_inv f f.closed f.closed f.closed hf

/-- **NaN scalars**: every arithmetic operator against a NaN scalar (either side) returns the step-free
undefined function with `f`'s closed side -/
theorem nan_scalar_right (o : BinOp) (ho : IsArith o) (f : Stairs P) (hf : f.WF) :
    scR o none f = const none f.closed := by
  r1b_ext x; exact r1b_v_arith_nan_right o ho _
theorem nan_scalar_left (o : BinOp) (ho : IsArith o) (f : Stairs P) (hf : f.WF) :
    scL o none f = const none f.closed := by
  r1b_ext x; exact r1b_v_arith_nan_left o ho _

/-! ### the same for the checked public operations (operands with equal closed side) -/

theorem api_div_eq_mul_inv (f g : Stairs P) (hf : f.WF) (hg : g.WF) (hc : f.closed = g.closed) :
    ∃ r, binopO .div (.sc (some 1)) (.st g) = some (.ok r) ∧ binop .div f g = binop .mul f r := by
  refine ⟨_, binopO_scL _ _ _, ?_⟩
  rw [g4b_binop_ok .div f g hc, g4b_binop_ok .mul f (scL .div (some 1) g) hc]
  unfold scL
  rw [← hc]
  exact congrArg Except.ok (div_eq_mul_inv f g _ _ hf hg)

theorem api_inv_inv (f : Stairs P) (hf : f.WF) :
    ∃ r, binopO .div (.sc (some 1)) (.st f) = some (.ok r) ∧
      binopO .div (.sc (some 1)) (.st r) = some (where_ f f) := by
  refine ⟨_, binopO_scL _ _ _, ?_⟩
  rw [binopO_scL, g4b_where_ok f f rfl]
  exact congrArg _ (congrArg _ (inv_inv_scalar f hf))

theorem api_div_div (f g h : Stairs P) (hf : f.WF) (hg : g.WF) (hh : h.WF)
    (hc : f.closed = g.closed) (hc' : g.closed = h.closed) :
    (do let q ← binop .div f g; binop .div q h) = (do let m ← binop .mul g h; binop .div f m) := by
  rw [g4b_binop_ok .div f g hc, g4b_binop_ok .mul g h hc']
  show binop .div (combine vdiv f g f.closed) h = binop .div f (combine vmul g h g.closed)
  rw [g4b_binop_ok .div (combine vdiv f g f.closed) h (hc.trans hc'), g4b_binop_ok .div f (combine vmul g h g.closed) hc]
  show Except.ok (combine vdiv (combine vdiv f g f.closed) h f.closed)
    = Except.ok (combine vdiv f (combine vmul g h g.closed) f.closed)
  rw [← hc, div_div f g h _ hf hg hh]

theorem api_zero_div (f : Stairs P) (hf : f.WF) :
    binopO .div (.sc (some 0)) (.st f) = some ((where_ f f).map zeroOn) := by
  rw [binopO_scL, g4b_where_ok f f rfl]
  exact congrArg _ (congrArg _ (zero_div_scalar f hf))

theorem api_div_zero (f : Stairs P) (hf : f.WF) :
    binopO .div (.st f) (.sc (some 0)) = some (.ok (const none f.closed)) := by
  rw [binopO_scR, div_zero_scalar f hf]

theorem api_nan_scalar (o : BinOp) (ho : IsArith o) (f : Stairs P) (hf : f.WF) :
    binopO o (.st f) (.sc none) = some (.ok (const none f.closed)) ∧
    binopO o (.sc none) (.st f) = some (.ok (const none f.closed)) := by
  rw [binopO_scR, binopO_scL, nan_scalar_right o ho f hf, nan_scalar_left o ho f hf]
  exact ⟨rfl, rfl⟩

end laws

/-! ### witnesses and refutations -/

/-- negative, zero, undefined and fractional pieces -/
def fA : Stairs Int := ⟨some (-2), [(1, some 0), (3, none), (5, some (1/2))], .left⟩
/-- zero towards −∞ -/
def gA : Stairs Int := ⟨some 0, [(2, some 7), (4, none), (6, some (1/2))], .left⟩
def hA : Stairs Int := ⟨some 3, [(0, some 0), (2, some (-1))], .left⟩
/-- defined and non-zero everywhere -/
def tA : Stairs Int := ⟨some 4, [(2, some (-1/3)), (7, some 2)], .left⟩

example : fA.Canonical ∧ gA.Canonical ∧ hA.Canonical ∧ tA.Canonical := by decide +kernel
example : binop .div fA gA = .ok ⟨none, [(2, some 0), (3, none), (6, some 1)], .left⟩ := by decide +kernel
example : combine vdiv fA gA .left
    = combine vmul fA (combine vdiv (const (some 1) .right) gA .left) .left := by decide +kernel
example : combine vdiv (const (some 1) .left) (combine vdiv (const (some 1) .left) fA .left) .left
      = ⟨some (-2), [(1, none), (5, some (1/2))], .left⟩ ∧
    combine whereOp fA fA .left = ⟨some (-2), [(1, none), (5, some (1/2))], .left⟩ := by decide +kernel
/-- **refuted**: `1 / (1 / f) = f` fails on f's zeros -/
theorem inv_inv_naive_false :
    combine vdiv (const (some 1) .left) (combine vdiv (const (some 1) .left) fA .left) .left ≠ fA := by
  decide +kernel
example : combine vdiv (const (some 1) .left) (combine vdiv (const (some 1) .left) tA .left) .left = tA := by
  decide +kernel
example : combine vdiv (combine vdiv fA tA .left) hA .left = combine vdiv fA (combine vmul tA hA .left) .left ∧
    combine vdiv (combine vdiv fA tA .left) hA .left
      = ⟨some (-1/6), [(0, none), (2, some 0), (3, none), (5, some (3/2)), (7, some (-1/4))], .left⟩ := by
  decide +kernel
/-- **refuted**: `f / (g / h) = (f * h) / g` fails where `h = 0` (left side undefined, right side 0) -/
theorem div_div_right_naive_false :
    combine vdiv fA (combine vdiv tA hA .left) .left ≠ combine vdiv (combine vmul fA hA .left) tA .left := by
  decide +kernel
example : combine vdiv fA (combine vdiv tA hA .left) .left
      = ⟨some (-3/2), [(0, none), (2, some 0), (3, none), (5, some (3/2)), (7, some (-1/4))], .left⟩ ∧
    combine vdiv (combine vmul fA hA .left) tA .left
      = ⟨some (-3/2), [(0, some 0), (3, none), (5, some (3/2)), (7, some (-1/4))], .left⟩ := by decide +kernel

/-- `0 / f` on the witness: 0 on `(-∞,1) ∪ [5,∞)`, undefined on `[1,5)` (zero piece and undefined piece) -/
example : binopO .div (.sc (some 0)) (.st fA) = some (.ok ⟨some 0, [(1, none), (5, some 0)], .left⟩) := by
  decide +kernel
/-- **refuted (seeded defect 1)**: `0 / f` is *not* undefined everywhere -/
theorem zero_div_not_nan : binopO .div (.sc (some 0)) (.st fA) ≠ some (.ok (const none .left)) := by
  decide +kernel
/-- **refuted (seeded defect 2)**: `0 / f` is *not* the constant 0 -/
theorem zero_div_not_zero : binopO .div (.sc (some 0)) (.st fA) ≠ some (.ok (const (some 0) .left)) := by
  decide +kernel
/-- **refuted**: `0 / f` is not `zeroOn f` either (undefined on f's zeros) -/
theorem zero_div_not_zeroOn : binopO .div (.sc (some 0)) (.st fA) ≠ some (.ok (zeroOn fA)) := by
  decide +kernel
/-- against an everywhere defined, non-zero operand `0 / f` *is* the constant 0 -/
example : binopO .div (.sc (some 0)) (.st tA) = some (.ok (const (some 0) .left)) := by decide +kernel
example : binopO .div (.st fA) (.sc (some 0)) = some (.ok (const none .left)) ∧
    binopO .div (.st fA) (.sc none) = some (.ok (const none .left)) ∧
    binopO .div (.sc none) (.st fA) = some (.ok (const none .left)) := by decide +kernel
example : binopO .div (.sc (some 3)) (.st fA)
    = some (.ok ⟨some (-3/2), [(1, none), (5, some 6)], .left⟩) := by decide +kernel
example : binopO .div (.st fA) (.sc (some 4)) = binopO .mul (.st fA) (.sc (some (1/4))) := by decide +kernel
/-- the hypotheses of `inv_inv_total` / `zero_div_eq_zero_iff` hold for `tA`, those of `zero_div_eq_nan_iff` for
a function with only zero and undefined pieces -/
example : ∀ x, ∃ q, Den tA false x = some q ∧ q ≠ 0 :=
  fun x => C04b.den_nonzero_of_nonZero tA (by decide +kernel) false x
example : ∀ x, Den (⟨some 0, [(1, none), (4, some 0)], .left⟩ : Stairs Int) false x = none ∨
    Den (⟨some 0, [(1, none), (4, some 0)], .left⟩ : Stairs Int) false x = some 0 :=
  fun x => C04b.g4b_lim_pred (fun v => v = none ∨ v = some 0) false _ _ x (by decide +kernel) (by decide +kernel)
example : binopO .div (.sc (some 0)) (.st (⟨some 0, [(1, none), (4, some 0)], .left⟩ : Stairs Int))
    = some (.ok (const none .left)) := by decide +kernel
example : (do let q ← binop .div fA tA; binop .div q hA) = (do let m ← binop .mul tA hA; binop .div fA m) := by
  decide +kernel
example : combine vdiv (const (some 1) .left) (combine vmul fA hA .left) .left
    = combine vmul (combine vdiv (const (some 1) .left) fA .left) (combine vdiv (const (some 1) .left) hA .left) .left := by
  decide +kernel
example : combine vadd (combine vdiv fA hA .left) (combine vdiv gA tA .left) .left
    = combine vdiv (combine vadd (combine vmul fA tA .left) (combine vmul gA hA .left) .left)
        (combine vmul hA tA .left) .left := by decide +kernel

end division

/-! ## 2. n-ary sums and products -/
section nary

/-- folding the two-operand path of `op` over the operands (`reduce(op, [m] + rest)`); for `op = vadd` this is
C18's `foldAdd` -/
def foldOp (op : Val → Val → Val) (m : Stairs P) (rest : List (Stairs P)) (cl : Side) : Stairs P :=
  rest.foldl (fun acc g => combine op acc g cl) m

theorem foldOp_add_eq (m : Stairs P) (rest : List (Stairs P)) (cl : Side) :
    foldOp vadd m rest cl = C18.foldAdd m rest cl := rfl

/-- the fold is pointwise the fold of the values, for both one-sided limits -/
theorem foldOp_spec (op : Val → Val → Val) (cl : Side) (rest : List (Stairs P)) (m : Stairs P) (hm : m.WF)
    (hr : ∀ g ∈ rest, g.WF) :
    (foldOp op m rest cl).WF ∧
    ∀ st x, Den (foldOp op m rest cl) st x = (rest.map fun g => Den g st x).foldl op (Den m st x) := by
  induction rest generalizing m with
  | nil => exact ⟨hm, fun _ _ => rfl⟩
  | cons g r ih =>
    have hg := hr g (by simp)
    obtain ⟨h1, h2⟩ := ih (combine op m g cl) (wf_combine _ _ _ _ hm hg)
      (fun g' hg' => hr g' (List.mem_cons_of_mem _ hg'))
    refine ⟨h1, fun st x => ?_⟩
    have := h2 st x
    rw [den_combine _ _ _ _ hm hg] at this
    simpa [foldOp] using this

/-- a fold over a canonical head is canonical and keeps the head's closed side if that is `cl` -/
theorem foldOp_canonical_head (op : Val → Val → Val) (cl : Side) (rest : List (Stairs P)) (m : Stairs P)
    (hm : m.Canonical) (hcl : m.closed = cl) (hr : ∀ g ∈ rest, g.WF) :
    (foldOp op m rest cl).Canonical ∧ (foldOp op m rest cl).closed = cl := by
  induction rest generalizing m with
  | nil => exact ⟨hm, hcl⟩
  | cons g r ih =>
    exact ih (combine op m g cl) (canonical_combine _ _ _ _ hm.1 (hr g (by simp))) rfl
      (fun g' hg' => hr g' (List.mem_cons_of_mem _ hg'))

/-- with at least two operands the fold is canonical with closed side `cl`, whatever the operands' form -/
theorem foldOp_canonical (op : Val → Val → Val) (cl : Side) (rest : List (Stairs P)) (m : Stairs P)
    (hm : m.WF) (hr : ∀ g ∈ rest, g.WF) (hne : rest ≠ []) :
    (foldOp op m rest cl).Canonical ∧ (foldOp op m rest cl).closed = cl := by
  cases rest with
  | nil => exact absurd rfl hne
  | cons g r =>
    exact foldOp_canonical_head op cl r (combine op m g cl) (canonical_combine _ _ _ _ hm (hr g (by simp))) rfl
      (fun g' hg' => hr g' (List.mem_cons_of_mem _ hg'))

/-- **permutation invariance (values)**: for a commutative, associative `op` the fold over any rearrangement
of the operands (the head may move) denotes the same function -/
theorem foldOp_perm_den (op : Val → Val → Val) (hc : ∀ a b, op a b = op b a)
    (ha : ∀ a b c, op (op a b) c = op a (op b c)) (cl cl' : Side) (m m' : Stairs P) (rest rest' : List (Stairs P))
    (hp : (m :: rest).Perm (m' :: rest')) (hwf : ∀ g ∈ m :: rest, g.WF) (st : Bool) (x : P) :
    Den (foldOp op m rest cl) st x = Den (foldOp op m' rest' cl') st x := by
  have hwf' : ∀ g ∈ m' :: rest', g.WF := fun g hg => hwf g (hp.symm.subset hg)
  rw [(foldOp_spec op cl rest m (hwf m (by simp)) (fun g hg => hwf g (List.mem_cons_of_mem _ hg))).2 st x,
      (foldOp_spec op cl' rest' m' (hwf' m' (by simp)) (fun g hg => hwf' g (List.mem_cons_of_mem _ hg))).2 st x]
  exact r1b_foldl_perm op hc ha _ _ _ _ (by simpa using hp.map (fun g => Den g st x))

/-- **permutation invariance (objects)**: with at least two operands the results are the same object -/
theorem foldOp_perm [NoMinOrder P] [Nonempty P] (op : Val → Val → Val) (hc : ∀ a b, op a b = op b a)
    (ha : ∀ a b c, op (op a b) c = op a (op b c)) (cl : Side) (m m' : Stairs P) (rest rest' : List (Stairs P))
    (hp : (m :: rest).Perm (m' :: rest')) (hwf : ∀ g ∈ m :: rest, g.WF) (hne : rest ≠ []) :
    foldOp op m rest cl = foldOp op m' rest' cl := by
  have hwf' : ∀ g ∈ m' :: rest', g.WF := fun g hg => hwf g (hp.symm.subset hg)
  have hne' : rest' ≠ [] := by
    intro e
    have := hp.length_eq
    rw [e] at this
    cases rest with
    | nil => exact hne rfl
    | cons _ _ => simp at this
  obtain ⟨h1, h2⟩ := foldOp_canonical op cl rest m (hwf m (by simp))
    (fun g hg => hwf g (List.mem_cons_of_mem _ hg)) hne
  obtain ⟨h1', h2'⟩ := foldOp_canonical op cl rest' m' (hwf' m' (by simp))
    (fun g hg => hwf' g (List.mem_cons_of_mem _ hg)) hne'
  exact canonical_ext _ _ h1 h1' (h2.trans h2'.symm)
    (fun x => foldOp_perm_den op hc ha cl cl m m' rest rest' hp hwf false x)

/-- n-ary sum: `reduce(+)` over any rearrangement of the operands -/
theorem sum_perm [NoMinOrder P] [Nonempty P] (cl : Side) (m m' : Stairs P) (rest rest' : List (Stairs P))
    (hp : (m :: rest).Perm (m' :: rest')) (hwf : ∀ g ∈ m :: rest, g.WF) (hne : rest ≠ []) :
    foldOp vadd m rest cl = foldOp vadd m' rest' cl :=
  foldOp_perm vadd r1b_v_add_comm r1b_v_add_assoc cl m m' rest rest' hp hwf hne
/-- n-ary product -/
theorem prod_perm [NoMinOrder P] [Nonempty P] (cl : Side) (m m' : Stairs P) (rest rest' : List (Stairs P))
    (hp : (m :: rest).Perm (m' :: rest')) (hwf : ∀ g ∈ m :: rest, g.WF) (hne : rest ≠ []) :
    foldOp vmul m rest cl = foldOp vmul m' rest' cl :=
  foldOp_perm vmul r1b_v_mul_comm r1b_v_mul_assoc cl m m' rest rest' hp hwf hne

/-- the single-operand case is excluded for a reason: `reduce(+, [m]) = m` is returned as is -/
theorem foldOp_single (op : Val → Val → Val) (m : Stairs P) (cl : Side) : foldOp op m [] cl = m := rfl

/-- **the n-ary sum is the `sum` aggregate** (object equality; C18 `sum_eq_fold` is the pointwise statement,
`sum_eq_reduce_add` the object statement for a canonical head) -/
theorem foldAdd_eq_aggregate [NoMinOrder P] [Nonempty P] (m : Stairs P) (rest : List (Stairs P)) (h : Stairs P)
    (hwf : ∀ g ∈ m :: rest, g.WF) (hne : rest ≠ []) (hr : aggregate .sum (m :: rest) = .ok h) :
    h = foldOp vadd m rest h.closed := by
  obtain ⟨h1, h2⟩ := foldOp_canonical vadd h.closed rest m (hwf m (by simp))
    (fun g hg => hwf g (List.mem_cons_of_mem _ hg)) hne
  exact canonical_ext _ _ (C18.den_aggregate .sum _ h hwf hr).1 h1 h2.symm
    (fun x => C18.sum_eq_fold m rest h.closed h hwf hr false x)

/-- the library's `reduce(operator.o, members)`: with a common closed side no step raises and the result is
the fold of the unchecked two-operand path (C18 `foldlM_add` for every operator) -/
theorem foldlM_binop (o : BinOp) (cl : Side) (rest : List (Stairs P)) (m : Stairs P) (hm : m.closed = cl)
    (hr : ∀ g ∈ rest, g.closed = cl) :
    rest.foldlM (binop o) m = .ok (foldOp o.eval m rest cl) := by
  induction rest generalizing m with
  | nil => rfl
  | cons g r ih =>
    have hg := hr g (by simp)
    have hstep : binop o m g = .ok (combine o.eval m g cl) := by
      rw [g4b_binop_ok o m g (hm.trans hg.symm), hm]
    rw [List.foldlM_cons, hstep]
    exact ih (combine o.eval m g cl) rfl (fun g' hg' => hr g' (List.mem_cons_of_mem _ hg'))

/-- **public form**: for operands with a common closed side, `reduce(+)` / `reduce(*)` over two or more
operands succeed and return the same object for every order of the operands -/
theorem reduce_perm [NoMinOrder P] [Nonempty P] (o : BinOp) (ho : o = .add ∨ o = .mul) (cl : Side)
    (m m' : Stairs P) (rest rest' : List (Stairs P)) (hp : (m :: rest).Perm (m' :: rest'))
    (hwf : ∀ g ∈ m :: rest, g.WF) (hcl : ∀ g ∈ m :: rest, g.closed = cl) (hne : rest ≠ []) :
    rest.foldlM (binop o) m = rest'.foldlM (binop o) m' ∧ ∃ r, rest.foldlM (binop o) m = .ok r := by
  have hcl' : ∀ g ∈ m' :: rest', g.closed = cl := fun g hg => hcl g (hp.symm.subset hg)
  rw [foldlM_binop o cl rest m (hcl m (by simp)) (fun g hg => hcl g (List.mem_cons_of_mem _ hg)),
      foldlM_binop o cl rest' m' (hcl' m' (by simp)) (fun g hg => hcl' g (List.mem_cons_of_mem _ hg))]
  refine ⟨?_, _, rfl⟩
  rcases ho with rfl | rfl
  · exact congrArg _ (sum_perm cl m m' rest rest' hp hwf hne)
  · exact congrArg _ (prod_perm cl m m' rest rest' hp hwf hne)

/-- **a factor distributes over an n-ary sum** (any number of operands, the factor may be any function) -/
theorem mul_foldAdd [NoMinOrder P] [Nonempty P] (k m : Stairs P) (rest : List (Stairs P)) (cl : Side)
    (hk : k.WF) (hm : m.WF) (hr : ∀ g ∈ rest, g.WF) :
    combine vmul k (foldOp vadd m rest cl) cl
      = foldOp vadd (combine vmul k m cl) (rest.map fun g => combine vmul k g cl) cl := by
  have hr' : ∀ g ∈ rest.map (fun g => combine vmul k g cl), g.WF := by
    intro g hg
    obtain ⟨g', hg', rfl⟩ := List.mem_map.mp hg
    exact wf_combine _ _ _ _ hk (hr g' hg')
  obtain ⟨h1, h2⟩ := foldOp_canonical_head vadd cl (rest.map fun g => combine vmul k g cl) (combine vmul k m cl)
    (canonical_combine _ _ _ _ hk hm) rfl hr'
  refine canonical_ext _ _ (canonical_combine _ _ _ _ hk (foldOp_spec vadd cl rest m hm hr).1) h1 h2.symm
    (fun x => ?_)
  rw [den_combine _ _ _ _ hk (foldOp_spec vadd cl rest m hm hr).1, (foldOp_spec vadd cl rest m hm hr).2,
      (foldOp_spec vadd cl _ _ (wf_combine _ _ _ _ hk hm) hr').2, den_combine _ _ _ _ hk hm,
      r1b_vmul_foldl_vadd, List.map_map, List.map_map]
  congr 1
  apply List.map_congr_left
  intro g hg
  exact (den_combine _ _ _ _ hk (hr g hg) false x).symm

/-- **scalar form** on the public scalar path: `c * (m + g₁ + … + gₙ) = c*m + c*g₁ + … + c*gₙ` for operands with
a common closed side; `c` may be NaN (both sides are then undefined everywhere) -/
theorem scalar_mul_foldAdd [NoMinOrder P] [Nonempty P] (c : Val) (m : Stairs P) (rest : List (Stairs P))
    (cl : Side) (hm : m.WF) (hr : ∀ g ∈ rest, g.WF) (hcl : ∀ g ∈ m :: rest, g.closed = cl) :
    binopO .mul (.sc c) (.st (foldOp vadd m rest cl))
      = some (.ok (foldOp vadd (scL .mul c m) (rest.map (scL .mul c)) cl)) := by
  have hfc : (foldOp vadd m rest cl).closed = cl := by
    have : ∀ (r : List (Stairs P)) (a : Stairs P), a.closed = cl → (foldOp vadd a r cl).closed = cl := by
      intro r
      induction r with
      | nil => intro a ha; exact ha
      | cons g' r' ih => intro a _; exact ih (combine vadd a g' cl) rfl
    exact this _ _ (hcl m (by simp))
  rw [binopO_scL]
  congr 2
  unfold scL
  rw [hfc]
  have := mul_foldAdd (const c cl) m rest cl (wf_const _ _) hm hr
  refine this.trans ?_
  have e1 : combine vmul (const c cl) m cl = combine BinOp.mul.eval (const c m.closed) m m.closed := by
    rw [hcl m (by simp)]; rfl
  have e2 : rest.map (fun g => combine vmul (const c cl) g cl)
      = rest.map (fun f => combine BinOp.mul.eval (const c f.closed) f f.closed) := by
    apply List.map_congr_left
    intro g hg
    rw [hcl g (List.mem_cons_of_mem _ hg)]; rfl
  rw [e1, e2]

/-! ### witnesses -/
def aA : Stairs Int := ⟨some 0, [(1, some 2), (4, some 0)], .left⟩
def bA : Stairs Int := ⟨some 1, [(2, some 3), (6, none)], .left⟩
def dA : Stairs Int := ⟨none, [(3, some (-1))], .left⟩
/-- well-formed, not canonical -/
def nA : Stairs Int := ⟨some 0, [(1, some 0), (2, some 5)], .left⟩

example : (∀ g ∈ [aA, bA, dA, nA], g.WF) ∧ ¬ nA.Canonical := by decide +kernel
example : ([aA, bA, dA, nA] : List (Stairs Int)).Perm [nA, dA, aA, bA] := by decide +kernel
example : foldOp vadd aA [bA, dA, nA] .left = foldOp vadd nA [dA, aA, bA] .left ∧
    foldOp vadd aA [bA, dA, nA] .left = ⟨none, [(3, some 9), (4, some 7), (6, none)], .left⟩ := by decide +kernel
example : foldOp vmul aA [bA, dA, nA] .left = foldOp vmul nA [dA, aA, bA] .left ∧
    foldOp vmul aA [bA, dA, nA] .left = ⟨none, [(3, some (-30)), (4, some 0), (6, none)], .left⟩ := by
  decide +kernel
/-- **refuted**: with a single operand the fold returns the operand as is, so "the fold of a permutation is
the same object" needs two operands or canonical operands; and subtraction is not permutation invariant -/
theorem foldOp_single_not_canonical : ¬ (foldOp vadd nA [] .left).Canonical := by decide +kernel
theorem foldOp_sub_perm_false : foldOp vsub aA [bA] .left ≠ foldOp vsub bA [aA] .left := by decide +kernel
example : aggregate .sum [aA, bA, dA, nA] = .ok (foldOp vadd aA [bA, dA, nA] .left) := by decide +kernel
example : [bA, dA, nA].foldlM (binop .add) aA = [dA, aA, bA].foldlM (binop .add) nA := by decide +kernel
example : binopO .mul (.sc (some (-3/2))) (.st (foldOp vadd aA [bA, dA, nA] .left))
    = some (.ok (foldOp vadd (scL .mul (some (-3/2)) aA) ([bA, dA, nA].map (scL .mul (some (-3/2)))) .left)) := by
  decide +kernel
/-- a non-scalar factor -/
example : combine vmul dA (foldOp vadd aA [bA, nA] .left) .left
    = foldOp vadd (combine vmul dA aA .left) ([bA, nA].map fun g => combine vmul dA g .left) .left := by
  decide +kernel
example : binopO .mul (.sc none) (.st (foldOp vadd aA [bA, nA] .left))
    = some (.ok (foldOp vadd (scL .mul none aA) ([bA, nA].map (scL .mul none)) .left)) := by decide +kernel

end nary

/-! ## 3. sign and order (on `Den`, i.e. for both one-sided limits) -/
section order

/-- `f ≤ g` at `(st, x)` where both are defined there (`r1b_vle`: no claim where one is undefined) -/
def LeAt (f g : Stairs P) (st : Bool) (x : P) : Prop := r1b_vle (Den f st x) (Den g st x)
/-- `f ≤ g` wherever both are defined -/
def LeOn (f g : Stairs P) : Prop := ∀ st x, LeAt f g st x

theorem leAt_iff (f g : Stairs P) (st : Bool) (x : P) :
    LeAt f g st x ↔ ∀ a b, Den f st x = some a → Den g st x = some b → a ≤ b := Iff.rfl

/-- **`f ≤ g ⇒ f + h ≤ g + h`** (`h` any function; the results are defined where `h` is) -/
theorem add_le_add_right_at (f g h r₁ r₂ : Stairs P) (hf : f.WF) (hg : g.WF) (hh : h.WF)
    (h1 : binop .add f h = .ok r₁) (h2 : binop .add g h = .ok r₂) (st : Bool) (x : P)
    (hle : LeAt f g st x) : LeAt r₁ r₂ st x := by
  unfold LeAt
  rw [(arith_pointwise .add f h r₁ hf hh h1).2 st x, (arith_pointwise .add g h r₂ hg hh h2).2 st x]
  exact r1b_vle_add_right _ _ _ hle
theorem add_le_add_left_at (f g h r₁ r₂ : Stairs P) (hf : f.WF) (hg : g.WF) (hh : h.WF)
    (h1 : binop .add h f = .ok r₁) (h2 : binop .add h g = .ok r₂) (st : Bool) (x : P)
    (hle : LeAt f g st x) : LeAt r₁ r₂ st x := by
  unfold LeAt
  rw [(arith_pointwise .add h f r₁ hh hf h1).2 st x, (arith_pointwise .add h g r₂ hh hg h2).2 st x]
  exact r1b_vle_add_left _ _ _ hle
/-- `f ≤ g ⇒ f − h ≤ g − h` and `h − g ≤ h − f` -/
theorem sub_le_sub_right_at (f g h r₁ r₂ : Stairs P) (hf : f.WF) (hg : g.WF) (hh : h.WF)
    (h1 : binop .sub f h = .ok r₁) (h2 : binop .sub g h = .ok r₂) (st : Bool) (x : P)
    (hle : LeAt f g st x) : LeAt r₁ r₂ st x := by
  unfold LeAt
  rw [(arith_pointwise .sub f h r₁ hf hh h1).2 st x, (arith_pointwise .sub g h r₂ hg hh h2).2 st x]
  exact r1b_vle_sub_right _ _ _ hle
theorem sub_le_sub_left_at (f g h r₁ r₂ : Stairs P) (hf : f.WF) (hg : g.WF) (hh : h.WF)
    (h1 : binop .sub h g = .ok r₁) (h2 : binop .sub h f = .ok r₂) (st : Bool) (x : P)
    (hle : LeAt f g st x) : LeAt r₁ r₂ st x := by
  unfold LeAt
  rw [(arith_pointwise .sub h g r₁ hh hg h1).2 st x, (arith_pointwise .sub h f r₂ hh hf h2).2 st x]
  exact r1b_vle_sub_left _ _ _ hle

/-- **`f ≤ g ⇒ −g ≤ −f`** -/
theorem neg_le_neg_at (f g : Stairs P) (hf : f.WF) (hg : g.WF) (st : Bool) (x : P) (hle : LeAt f g st x) :
    LeAt (unop .neg g) (unop .neg f) st x := by
  unfold LeAt
  rw [den_unop _ g hg, den_unop _ f hf]
  exact r1b_vle_neg _ _ hle

/-- **`f ≤ g ⇒ f * h ≤ g * h`** where `h ≥ 0`, reversed where `h ≤ 0` -/
theorem mul_le_mul_nonneg_at (f g h r₁ r₂ : Stairs P) (hf : f.WF) (hg : g.WF) (hh : h.WF)
    (h1 : binop .mul f h = .ok r₁) (h2 : binop .mul g h = .ok r₂) (st : Bool) (x : P)
    (hle : LeAt f g st x) (hpos : ∀ z, Den h st x = some z → 0 ≤ z) : LeAt r₁ r₂ st x := by
  unfold LeAt
  rw [(arith_pointwise .mul f h r₁ hf hh h1).2 st x, (arith_pointwise .mul g h r₂ hg hh h2).2 st x]
  exact r1b_vle_mul_nonneg _ _ _ hle hpos
theorem mul_le_mul_nonpos_at (f g h r₁ r₂ : Stairs P) (hf : f.WF) (hg : g.WF) (hh : h.WF)
    (h1 : binop .mul f h = .ok r₁) (h2 : binop .mul g h = .ok r₂) (st : Bool) (x : P)
    (hle : LeAt f g st x) (hneg : ∀ z, Den h st x = some z → z ≤ 0) : LeAt r₂ r₁ st x := by
  unfold LeAt
  rw [(arith_pointwise .mul f h r₁ hf hh h1).2 st x, (arith_pointwise .mul g h r₂ hg hh h2).2 st x]
  exact r1b_vle_mul_nonpos _ _ _ hle hneg
/-- division by a function that is `≥ 0` keeps the order (its zeros make both sides undefined) -/
theorem div_le_div_nonneg_at (f g h r₁ r₂ : Stairs P) (hf : f.WF) (hg : g.WF) (hh : h.WF)
    (h1 : binop .div f h = .ok r₁) (h2 : binop .div g h = .ok r₂) (st : Bool) (x : P)
    (hle : LeAt f g st x) (hpos : ∀ z, Den h st x = some z → 0 ≤ z) : LeAt r₁ r₂ st x := by
  unfold LeAt
  rw [(arith_pointwise .div f h r₁ hf hh h1).2 st x, (arith_pointwise .div g h r₂ hg hh h2).2 st x]
  exact r1b_vle_div_pos _ _ _ hle hpos

/-- **`f ≤ g ⇒ k·f ≤ k·g` for a scalar `k ≥ 0`** (scalar on either side) … -/
theorem smul_le_smul_nonneg_at (k : Rat) (hk : 0 ≤ k) (f g : Stairs P) (hf : f.WF) (hg : g.WF)
    (st : Bool) (x : P) (hle : LeAt f g st x) :
    LeAt (scL .mul (some k) f) (scL .mul (some k) g) st x ∧ LeAt (scR .mul (some k) f) (scR .mul (some k) g) st x := by
  unfold LeAt
  rw [den_scL _ _ f hf, den_scL _ _ g hg, den_scR _ _ f hf, den_scR _ _ g hg]
  refine ⟨?_, r1b_vle_mul_nonneg _ _ _ hle (fun z hz => by cases hz; exact hk)⟩
  show r1b_vle (vmul _ _) (vmul _ _)
  rw [r1b_v_mul_comm (some k), r1b_v_mul_comm (some k)]
  exact r1b_vle_mul_nonneg _ _ _ hle (fun z hz => by cases hz; exact hk)
/-- … **and `k·g ≤ k·f` for `k ≤ 0`** -/
theorem smul_le_smul_nonpos_at (k : Rat) (hk : k ≤ 0) (f g : Stairs P) (hf : f.WF) (hg : g.WF)
    (st : Bool) (x : P) (hle : LeAt f g st x) :
    LeAt (scL .mul (some k) g) (scL .mul (some k) f) st x ∧ LeAt (scR .mul (some k) g) (scR .mul (some k) f) st x := by
  unfold LeAt
  rw [den_scL _ _ f hf, den_scL _ _ g hg, den_scR _ _ f hf, den_scR _ _ g hg]
  refine ⟨?_, r1b_vle_mul_nonpos _ _ _ hle (fun z hz => by cases hz; exact hk)⟩
  show r1b_vle (vmul _ _) (vmul _ _)
  rw [r1b_v_mul_comm (some k), r1b_v_mul_comm (some k)]
  exact r1b_vle_mul_nonpos _ _ _ hle (fun z hz => by cases hz; exact hk)
/-- adding a scalar on either side keeps the order -/
theorem sadd_le_sadd_at (c : Val) (f g : Stairs P) (hf : f.WF) (hg : g.WF) (st : Bool) (x : P)
    (hle : LeAt f g st x) :
    LeAt (scR .add c f) (scR .add c g) st x ∧ LeAt (scL .add c f) (scL .add c g) st x := by
  unfold LeAt
  rw [den_scL _ _ f hf, den_scL _ _ g hg, den_scR _ _ f hf, den_scR _ _ g hg]
  exact ⟨r1b_vle_add_right _ _ _ hle, r1b_vle_add_left _ _ _ hle⟩

/-- **`f * f ≥ 0`** wherever it is defined, and it vanishes exactly on f's zeros -/
theorem mul_self_nonneg (f r : Stairs P) (hf : f.WF) (hr : binop .mul f f = .ok r) (st : Bool) (x : P)
    (q : Rat) (hq : Den r st x = some q) : 0 ≤ q := by
  rw [(arith_pointwise .mul f f r hf hf hr).2 st x] at hq
  exact r1b_v_mul_self_nonneg _ q hq
theorem mul_self_eq_zero_iff (f r : Stairs P) (hf : f.WF) (hr : binop .mul f f = .ok r) (st : Bool) (x : P) :
    Den r st x = some 0 ↔ Den f st x = some 0 := by
  rw [(arith_pointwise .mul f f r hf hf hr).2 st x]
  exact r1b_v_mul_self_eq_zero _
/-- `f * f` always exists (an operand never mismatches itself) -/
theorem mul_self_total (f : Stairs P) : ∃ r, binop .mul f f = .ok r :=
  arith_total .mul f f (not_mismatch_of_closed_eq f f rfl)

/-- the global forms -/
theorem add_le_add_right (f g h r₁ r₂ : Stairs P) (hf : f.WF) (hg : g.WF) (hh : h.WF)
    (h1 : binop .add f h = .ok r₁) (h2 : binop .add g h = .ok r₂) (hle : LeOn f g) : LeOn r₁ r₂ :=
  fun st x => add_le_add_right_at f g h r₁ r₂ hf hg hh h1 h2 st x (hle st x)
theorem neg_le_neg (f g : Stairs P) (hf : f.WF) (hg : g.WF) (hle : LeOn f g) :
    LeOn (unop .neg g) (unop .neg f) := fun st x => neg_le_neg_at f g hf hg st x (hle st x)
theorem smul_le_smul_nonneg (k : Rat) (hk : 0 ≤ k) (f g : Stairs P) (hf : f.WF) (hg : g.WF) (hle : LeOn f g) :
    LeOn (scL .mul (some k) f) (scL .mul (some k) g) ∧ LeOn (scR .mul (some k) f) (scR .mul (some k) g) :=
  ⟨fun st x => (smul_le_smul_nonneg_at k hk f g hf hg st x (hle st x)).1,
   fun st x => (smul_le_smul_nonneg_at k hk f g hf hg st x (hle st x)).2⟩
theorem smul_le_smul_nonpos (k : Rat) (hk : k ≤ 0) (f g : Stairs P) (hf : f.WF) (hg : g.WF) (hle : LeOn f g) :
    LeOn (scL .mul (some k) g) (scL .mul (some k) f) ∧ LeOn (scR .mul (some k) g) (scR .mul (some k) f) :=
  ⟨fun st x => (smul_le_smul_nonpos_at k hk f g hf hg st x (hle st x)).1,
   fun st x => (smul_le_smul_nonpos_at k hk f g hf hg st x (hle st x)).2⟩

/-- **link to the relational operator**: `f ≤ g` wherever both are defined iff `(f <= g)` never takes the
value 0 -/
theorem leOn_iff_rel (f g r : Stairs P) (hf : f.WF) (hg : g.WF) (hr : binop (.rel .le) f g = .ok r) :
    LeOn f g ↔ ∀ st x, Den r st x ≠ some 0 := by
  have hp := (arith_pointwise (.rel .le) f g r hf hg hr).2
  constructor
  · intro h st x; rw [hp st x]; exact (r1b_vle_iff_rel _ _).mp (h st x)
  · intro h st x; have := h st x; rw [hp st x] at this; exact (r1b_vle_iff_rel _ _).mpr this

theorem leOn_refl (f : Stairs P) : LeOn f f := fun _ _ => r1b_vle_refl _
/-- transitivity through a middle function that is defined everywhere -/
theorem leOn_trans (f g h : Stairs P) (hd : ∀ st x, Den g st x ≠ none) (h1 : LeOn f g) (h2 : LeOn g h) :
    LeOn f h := fun st x => r1b_vle_trans _ _ _ (hd st x) (h1 st x) (h2 st x)

/-! ### witnesses and refutations -/
def pA : Stairs Int := ⟨some (-2), [(1, some 0), (3, none), (5, some (1/2))], .left⟩
def qA : Stairs Int := ⟨some 1, [(2, some 3), (4, none), (6, some (1/2))], .left⟩
def sA : Stairs Int := ⟨some 3, [(0, none), (2, some (-1))], .left⟩

/-- `pA ≤ qA` wherever both are defined: `(pA <= qA)` has no 0 piece -/
example : binop (.rel .le) pA qA = .ok ⟨some 1, [(3, none), (6, some 1)], .left⟩ := by decide +kernel
theorem pA_le_qA : LeOn pA qA :=
  (leOn_iff_rel pA qA ⟨some 1, [(3, none), (6, some 1)], .left⟩ (by decide +kernel) (by decide +kernel)
    (by decide +kernel)).mpr
    (fun st x => C04b.g4b_lim_pred (fun v => v ≠ some 0) st _ _ x (by decide +kernel) (by decide +kernel))
example : binop (.rel .le) (scL .mul (some (-3)) qA) (scL .mul (some (-3)) pA)
    = .ok ⟨some 1, [(3, none), (6, some 1)], .left⟩ := by decide +kernel
/-- **refuted**: for a negative factor the order is *not* kept: `(−3·pA <= −3·qA)` has 0 pieces -/
theorem smul_neg_keeps_order_false :
    binop (.rel .le) (scL .mul (some (-3)) pA) (scL .mul (some (-3)) qA)
      = .ok ⟨some 0, [(3, none), (6, some 1)], .left⟩ := by decide +kernel
/-- **refuted**: "≤ where both are defined" is not transitive: `1 ≤ undefined ≤ 0` -/
theorem leOn_not_trans :
    LeOn (const (some 1) .left : Stairs Int) (const none .left) ∧
    LeOn (const none .left : Stairs Int) (const (some 0) .left) ∧
    ¬ LeOn (const (some 1) .left : Stairs Int) (const (some 0) .left) := by
  refine ⟨fun _ _ a b _ hb => (by cases hb), fun _ _ a b ha _ => (by cases ha), fun h => ?_⟩
  have := h false 0 1 0 rfl rfl
  exact absurd this (by decide +kernel)
example : (do let a ← binop .add pA sA; let b ← binop .add qA sA; binop (.rel .le) a b)
    = .ok ⟨some 1, [(0, none), (2, some 1), (3, none), (6, some 1)], .left⟩ := by decide +kernel
example : ∃ r, binop .mul pA pA = .ok r ∧ r = ⟨some 4, [(1, some 0), (3, none), (5, some (1/4))], .left⟩ :=
  ⟨_, by decide +kernel, rfl⟩

end order

/-! ## 4. scalars: re-association through `binopO` (both scalar sides, NaN scalars, zero factors)

`scR o c f` is the object returned by `binopO o (.st f) (.sc c)` and `scL o c f` the one returned by
`binopO o (.sc c) (.st f)` (`binopO_scR`, `binopO_scL`); the scalars range over `Val`, so every law covers NaN
scalars: `vadd a b`, `vmul a b` are NaN as soon as one of them is, and then both sides are `const none`
(`nan_scalar_right` / `nan_scalar_left`). -/
section scalars
variable [NoMinOrder P] [Nonempty P]

/-- **`(f + a) + b = f + (a + b)`** -/
theorem add_add_scalar (f : Stairs P) (a b : Val) (hf : f.WF) :
    scR .add b (scR .add a f) = scR .add (vadd a b) f := by
  r1b_ext x; exact r1b_v_add_assoc _ _ _
/-- `b + (a + f) = (b + a) + f` -/
theorem add_add_scalar_left (f : Stairs P) (a b : Val) (hf : f.WF) :
    scL .add b (scL .add a f) = scL .add (vadd b a) f := by
  r1b_ext x; exact (r1b_v_add_assoc _ _ _).symm
/-- mixed sides: `b + (f + a) = f + (a + b)`, and a scalar may change sides: `a + f = f + a` -/
theorem add_add_scalar_mixed (f : Stairs P) (a b : Val) (hf : f.WF) :
    scL .add b (scR .add a f) = scR .add (vadd a b) f := by
  r1b_ext x
  show vadd b (vadd _ a) = vadd _ (vadd a b)
  rw [r1b_v_add_comm b, r1b_v_add_assoc]
theorem add_scalar_comm (f : Stairs P) (a : Val) (hf : f.WF) : scL .add a f = scR .add a f := by
  r1b_ext x; exact r1b_v_add_comm _ _

/-- **`(f * a) * b = f * (a * b)`** -/
theorem mul_mul_scalar (f : Stairs P) (a b : Val) (hf : f.WF) :
    scR .mul b (scR .mul a f) = scR .mul (vmul a b) f := by
  r1b_ext x; exact r1b_v_mul_assoc _ _ _
theorem mul_mul_scalar_left (f : Stairs P) (a b : Val) (hf : f.WF) :
    scL .mul b (scL .mul a f) = scL .mul (vmul b a) f := by
  r1b_ext x; exact (r1b_v_mul_assoc _ _ _).symm
theorem mul_mul_scalar_mixed (f : Stairs P) (a b : Val) (hf : f.WF) :
    scL .mul b (scR .mul a f) = scR .mul (vmul a b) f := by
  r1b_ext x
  show vmul b (vmul _ a) = vmul _ (vmul a b)
  rw [r1b_v_mul_comm b, r1b_v_mul_assoc]
theorem mul_scalar_comm (f : Stairs P) (a : Val) (hf : f.WF) : scL .mul a f = scR .mul a f := by
  r1b_ext x; exact r1b_v_mul_comm _ _

/-- **`(f + a) * b = f * b + a * b`** -/
theorem add_mul_scalar (f : Stairs P) (a b : Val) (hf : f.WF) :
    scR .mul b (scR .add a f) = scR .add (vmul a b) (scR .mul b f) := by
  r1b_ext x; exact r1b_v_add_mul _ _ _
/-- `b * (a + f) = b * a + b * f` -/
theorem mul_add_scalar_left (f : Stairs P) (a b : Val) (hf : f.WF) :
    scL .mul b (scL .add a f) = scL .add (vmul b a) (scL .mul b f) := by
  r1b_ext x; exact r1b_v_mul_add _ _ _
/-- `(f − a) * b = f * b − a * b`, `(f − a) − b = f − (a + b)`, `(f + a) − b = f + (a − b)` -/
theorem sub_mul_scalar (f : Stairs P) (a b : Val) (hf : f.WF) :
    scR .mul b (scR .sub a f) = scR .sub (vmul a b) (scR .mul b f) := by
  r1b_ext x; exact r1b_v_sub_mul _ _ _
theorem sub_sub_scalar (f : Stairs P) (a b : Val) (hf : f.WF) :
    scR .sub b (scR .sub a f) = scR .sub (vadd a b) f := by
  r1b_ext x; exact r1b_v_sub_sub _ _ _
theorem add_sub_scalar (f : Stairs P) (a b : Val) (hf : f.WF) :
    scR .sub b (scR .add a f) = scR .add (vsub a b) f := by
  r1b_ext x; exact r1b_v_add_sub_assoc _ _ _
/-- `(f / a) / b = f / (a * b)` – zero scalars included (both sides undefined everywhere) -/
theorem div_div_scalar (f : Stairs P) (a b : Val) (hf : f.WF) :
    scR .div b (scR .div a f) = scR .div (vmul a b) f := by
  r1b_ext x; exact r1b_v_div_div _ _ _
/-- `(f + a) / b = f / b + a / b` -/
theorem add_div_scalar (f : Stairs P) (a b : Val) (hf : f.WF) :
    scR .div b (scR .add a f) = scR .add (vdiv a b) (scR .div b f) := by
  r1b_ext x; exact (r1b_v_add_div _ _ _).symm

/-- **zero factors**: `(f + a) * 0 = (f * a) * 0 = zeroOn f` for a real scalar `a` … -/
theorem add_mul_zero (f : Stairs P) (a : Rat) (hf : f.WF) :
    scR .mul (some 0) (scR .add (some a) f) = zeroOn f ∧ scR .mul (some 0) (scR .mul (some a) f) = zeroOn f ∧
    scL .mul (some 0) (scL .add (some a) f) = zeroOn f := by
  refine ⟨?_, ?_, ?_⟩
  · unfold zeroOn; r1b_ext x
    show vmul (vadd _ (some a)) (some 0) = _
    rw [r1b_v_add_mul_zero, r1b_v_vzero_add_some]
  · unfold zeroOn; r1b_ext x
    show vmul (vmul _ (some a)) (some 0) = _
    rw [g4b_v_mul_zero, r1b_v_vzero_mul_some]
  · unfold zeroOn; r1b_ext x
    show vmul (some 0) (vadd (some a) _) = _
    rw [g4b_v_zero_mul, r1b_v_add_comm, r1b_v_vzero_add_some]
/-- … and `(f * 0) + a = a` exactly on f's domain: `a.where`-free form `zeroOn f + a` -/
theorem mul_zero_add (f : Stairs P) (a : Val) (hf : f.WF) :
    scR .add a (scR .mul (some 0) f) = scR .add a (zeroOn f) := by
  unfold zeroOn; r1b_ext x
  show vadd (vmul _ (some 0)) a = vadd (g4b_vzero _) a
  rw [g4b_v_mul_zero]
/-- a zero factor inside: `(f * 0) * b = zeroOn f` for real `b`, `const none` for NaN `b` -/
theorem mul_zero_mul (f : Stairs P) (b : Rat) (hf : f.WF) :
    scR .mul (some b) (scR .mul (some 0) f) = zeroOn f ∧
    scR .mul none (scR .mul (some 0) f) = const none f.closed := by
  constructor
  · rw [mul_mul_scalar f _ _ hf]
    unfold zeroOn; r1b_ext x
    show vmul _ (vmul (some 0) (some b)) = _
    have : vmul (some 0) (some b) = some 0 := by simp [vmul, vlift2]
    rw [this, g4b_v_mul_zero]
  · exact nan_scalar_right .mul (Or.inr (Or.inr (Or.inl rfl))) _ (wf_scR _ _ f hf)

/-- **NaN scalars** inside a chain: the result is undefined everywhere, whatever the other scalar -/
theorem nan_chain (o o' : BinOp) (ho : IsArith o) (ho' : IsArith o') (f : Stairs P) (b : Val) (hf : f.WF) :
    scR o' b (scR o none f) = const none f.closed ∧ scL o' b (scL o none f) = const none f.closed ∧
    scR o none (scR o' b f) = const none f.closed := by
  refine ⟨?_, ?_, nan_scalar_right o ho _ (wf_scR _ _ f hf)⟩
  · rw [nan_scalar_right o ho f hf]
    r1b_ext x
    rw [r1b_v_arith_nan_left o' ho']
  · rw [nan_scalar_left o ho f hf]
    r1b_ext x
    rw [r1b_v_arith_nan_right o' ho']

/-- the public statements (every `binopO` below succeeds; the intermediate result is named `r`) -/
theorem api_add_add_scalar (f : Stairs P) (a b : Val) (hf : f.WF) :
    ∃ r, binopO .add (.st f) (.sc a) = some (.ok r) ∧
      binopO .add (.st r) (.sc b) = binopO .add (.st f) (.sc (vadd a b)) ∧
      binopO .add (.sc b) (.st r) = binopO .add (.st f) (.sc (vadd a b)) :=
  ⟨_, binopO_scR _ _ _, by rw [binopO_scR, binopO_scR, add_add_scalar f a b hf],
    by rw [binopO_scL, binopO_scR, add_add_scalar_mixed f a b hf]⟩
theorem api_mul_mul_scalar (f : Stairs P) (a b : Val) (hf : f.WF) :
    ∃ r, binopO .mul (.st f) (.sc a) = some (.ok r) ∧
      binopO .mul (.st r) (.sc b) = binopO .mul (.st f) (.sc (vmul a b)) ∧
      binopO .mul (.sc b) (.st r) = binopO .mul (.st f) (.sc (vmul a b)) :=
  ⟨_, binopO_scR _ _ _, by rw [binopO_scR, binopO_scR, mul_mul_scalar f a b hf],
    by rw [binopO_scL, binopO_scR, mul_mul_scalar_mixed f a b hf]⟩
theorem api_add_mul_scalar (f : Stairs P) (a b : Val) (hf : f.WF) :
    ∃ r s, binopO .add (.st f) (.sc a) = some (.ok r) ∧ binopO .mul (.st f) (.sc b) = some (.ok s) ∧
      binopO .mul (.st r) (.sc b) = binopO .add (.st s) (.sc (vmul a b)) :=
  ⟨_, _, binopO_scR _ _ _, binopO_scR _ _ _, by rw [binopO_scR, binopO_scR, add_mul_scalar f a b hf]⟩
theorem api_scalar_comm (f : Stairs P) (a : Val) (hf : f.WF) :
    binopO .add (.sc a) (.st f) = binopO .add (.st f) (.sc a) ∧
    binopO .mul (.sc a) (.st f) = binopO .mul (.st f) (.sc a) := by
  rw [binopO_scL, binopO_scR, binopO_scL, binopO_scR, add_scalar_comm f a hf, mul_scalar_comm f a hf]
  exact ⟨rfl, rfl⟩

/-! ### witnesses and refutations (`fA` has a negative, a zero, an undefined and a fractional piece) -/
example : binopO .add (.st (scR .add (some (3/2)) fA)) (.sc (some (-4)))
      = binopO .add (.st fA) (.sc (some (-5/2))) ∧
    binopO .add (.st fA) (.sc (some (-5/2)))
      = some (.ok ⟨some (-9/2), [(1, some (-5/2)), (3, none), (5, some (-2))], .left⟩) := by decide +kernel
example : binopO .mul (.st (scR .add (some (3/2)) fA)) (.sc (some (-4)))
      = binopO .add (.st (scR .mul (some (-4)) fA)) (.sc (some (-6))) := by decide +kernel
example : binopO .mul (.st (scR .add (some (3/2)) fA)) (.sc (some 0)) = some (.ok (zeroOn fA)) ∧
    zeroOn fA = ⟨some 0, [(3, none), (5, some 0)], .left⟩ := by decide +kernel
example : binopO .mul (.st (scR .add none fA)) (.sc (some 0)) = some (.ok (const none .left)) := by
  decide +kernel
/-- **refuted**: `(f + a) * 0` is not the constant 0 (f's undefined piece is kept) -/
theorem add_mul_zero_naive_false :
    binopO .mul (.st (scR .add (some (3/2)) fA)) (.sc (some 0)) ≠ some (.ok (const (some 0) .left)) := by
  decide +kernel
/-- **refuted**: subtraction with the scalar on the left does not commute with the right form:
`a − f ≠ f − a` -/
theorem sub_scalar_comm_false : scL .sub (some 1) fA ≠ scR .sub (some 1) fA := by decide +kernel
/-- **refuted**: `(f / a) * a = f` fails for `a = 0` (left side undefined everywhere) -/
theorem div_mul_scalar_zero_false : scR .mul (some 0) (scR .div (some 0) fA) ≠ fA := by decide +kernel

end scalars

/-! ## 5. the IEEE layer: raw division, then the clean-up of the infinities

`C01` models one IEEE division `divRaw : Val → Val → EVal` (`x / 0` is `±inf` by the sign of `x`, `0 / 0` is NaN)
and the clean-up `cleanBoth` (`.replace(±inf, nan)`) and proves `cleanBoth (divRaw a b) = vdiv a b` for all
operands (all sign combinations are covered by that statement; the sign table is spelled out below).  Here the
two steps are lifted to whole objects – initial value and rows – so that *where* the clean-up is applied
becomes visible: cleaning the rows but not the initial value is the seeded defect refuted at the end. -/
section ieee

/-- `±inf`? -/
def isInf : EVal → Bool
  | .pinf => true
  | .ninf => true
  | _ => false

/-! ### the sign table of one raw division -/
theorem divRaw_pos_zero (a : Rat) (ha : 0 < a) : divRaw (some a) (some 0) = .pinf := by
  simp [divRaw, ha, ha.ne']
theorem divRaw_neg_zero (a : Rat) (ha : a < 0) : divRaw (some a) (some 0) = .ninf := by
  simp [divRaw, ha.ne, not_lt.mpr ha.le]
theorem divRaw_zero_zero : divRaw (some 0) (some 0) = .nan := by simp [divRaw]
theorem divRaw_nonzero (a b : Rat) (hb : b ≠ 0) : divRaw (some a) (some b) = .fin (a / b) := by
  simp [divRaw, hb]
theorem divRaw_nan_left (b : Val) : divRaw none b = .nan := rfl
theorem divRaw_nan_right (a : Val) : divRaw a none = .nan := by cases a <;> rfl

/-- the raw quotient is infinite exactly for a non-zero (defined) numerator over a zero divisor -/
theorem divRaw_isInf_iff (a b : Val) :
    isInf (divRaw a b) = true ↔ b = some 0 ∧ ∃ x, a = some x ∧ x ≠ 0 := by
  cases a with
  | none => simp [divRaw, isInf]
  | some x =>
    cases b with
    | none => simp [divRaw, isInf]
    | some y =>
      by_cases hy : y = 0
      · subst hy
        rcases lt_trichotomy x 0 with h | h | h
        · simp [divRaw_neg_zero x h, isInf, h.ne]
        · subst h; simp [divRaw_zero_zero, isInf]
        · simp [divRaw_pos_zero x h, isInf, h.ne']
      · simp [divRaw_nonzero x y hy, isInf, hy]

/-- the clean-up removes exactly the non-finite results -/
theorem cleanBoth_eq_none_iff (v : EVal) : cleanBoth v = none ↔ v = .nan ∨ v = .pinf ∨ v = .ninf := by
  cases v <;> simp [cleanBoth]

/-- **all sign combinations at once** (restating C01 `cleanBoth_divRaw` as a table): `a / b` with `b = 0` is
cleaned to "undefined" for `a > 0` (`+inf`), `a < 0` (`−inf`) and `a = 0` (NaN) alike -/
theorem cleanBoth_divRaw_zero (a : Rat) : cleanBoth (divRaw (some a) (some 0)) = none ∧
    (0 < a → divRaw (some a) (some 0) = .pinf) ∧ (a < 0 → divRaw (some a) (some 0) = .ninf) ∧
    (a = 0 → divRaw (some a) (some 0) = .nan) := by
  refine ⟨by rw [cleanBoth_divRaw]; simp [vdiv], divRaw_pos_zero a, divRaw_neg_zero a, ?_⟩
  rintro rfl; exact divRaw_zero_zero

/-- the half clean-ups (`.replace(inf, nan)` only / `.replace(-inf, nan)` only) -/
def cleanPosOnly : EVal → EVal
  | .pinf => .nan
  | v => v
def cleanNegOnly : EVal → EVal
  | .ninf => .nan
  | v => v
/-- **refuted variant** (the defect repaired by commit 0e285ec, for every operand): cleaning `+inf` only leaks
an infinity exactly for a negative numerator over a zero divisor … -/
theorem cleanPosOnly_leaks_iff (a b : Val) :
    isInf (cleanPosOnly (divRaw a b)) = true ↔ b = some 0 ∧ ∃ x, a = some x ∧ x < 0 := by
  cases a with
  | none => simp [divRaw, isInf, cleanPosOnly]
  | some x =>
    cases b with
    | none => simp [divRaw, isInf, cleanPosOnly]
    | some y =>
      by_cases hy : y = 0
      · subst hy
        rcases lt_trichotomy x 0 with h | h | h
        · simp [divRaw_neg_zero x h, isInf, cleanPosOnly, h]
        · subst h; simp [divRaw_zero_zero, isInf, cleanPosOnly]
        · simp [divRaw_pos_zero x h, isInf, cleanPosOnly, not_lt.mpr h.le]
      · simp [divRaw_nonzero x y hy, isInf, cleanPosOnly, hy]
/-- … and cleaning `−inf` only leaks exactly for a positive numerator -/
theorem cleanNegOnly_leaks_iff (a b : Val) :
    isInf (cleanNegOnly (divRaw a b)) = true ↔ b = some 0 ∧ ∃ x, a = some x ∧ 0 < x := by
  cases a with
  | none => simp [divRaw, isInf, cleanNegOnly]
  | some x =>
    cases b with
    | none => simp [divRaw, isInf, cleanNegOnly]
    | some y =>
      by_cases hy : y = 0
      · subst hy
        rcases lt_trichotomy x 0 with h | h | h
        · simp [divRaw_neg_zero x h, isInf, cleanNegOnly, not_lt.mpr h.le]
        · subst h; simp [divRaw_zero_zero, isInf, cleanNegOnly]
        · simp [divRaw_pos_zero x h, isInf, cleanNegOnly, h]
      · simp [divRaw_nonzero x y hy, isInf, cleanNegOnly, hy]
/-- the two half clean-ups together are the full clean-up -/
theorem cleanBoth_eq_halves (v : EVal) : cleanBoth v = cleanBoth (cleanNegOnly (cleanPosOnly v)) ∧
    isInf (cleanNegOnly (cleanPosOnly v)) = false := by
  cases v <;> simp [cleanBoth, cleanNegOnly, cleanPosOnly, isInf]

/-! ### whole objects -/

/-- a step function whose values may still be infinite: the intermediate result of the IEEE division -/
structure EStairs (P : Type) where
  init : EVal
  steps : List (P × EVal)
  closed : Side
  deriving DecidableEq

/-- the raw two-operand division: union of the step points, one IEEE division per row and one for the
initial values; nothing cleaned yet -/
def rawDiv (f g : Stairs P) (cl : Side) : EStairs P :=
  ⟨divRaw f.init g.init, combineSteps divRaw f.init f.steps g.init g.steps, cl⟩

/-- the library's clean-up: `.replace(±inf, nan)` on the step values **and** on the initial value, then
`_remove_redundant_step_points` -/
def cleanAll (e : EStairs P) : Stairs P :=
  canon ⟨cleanBoth e.init, e.steps.map fun pv => (pv.1, cleanBoth pv.2), e.closed⟩

/-- **raw division + full clean-up is the model's `/`**, as objects, for all operands (no well-formedness
needed) -/
theorem cleanAll_rawDiv (f g : Stairs P) (cl : Side) : cleanAll (rawDiv f g cl) = combine vdiv f g cl := by
  simp [cleanAll, rawDiv, combine, combineSteps, List.map_map, Function.comp_def, cleanBoth_divRaw]

/-- … hence of the checked public `/` -/
theorem binop_div_eq_clean (f g : Stairs P) (h : ¬ Mismatch f g) :
    binop .div f g = .ok (cleanAll (rawDiv f g (sideOf f g))) := by
  rw [cleanAll_rawDiv]; exact combineChecked_total _ f g h

/-- **the scalar-numerator path `c / f` (`rdiv`)**: the scalar becomes a step-free operand with `f`'s closed
side, then the same raw division and clean-up -/
theorem rdiv_eq_clean (c : Val) (f : Stairs P) :
    binopO .div (.sc c) (.st f) = some (.ok (cleanAll (rawDiv (const c f.closed) f f.closed))) := by
  rw [cleanAll_rawDiv]; exact binopO_scL .div c f
/-- the scalar-denominator path `f / c` -/
theorem div_scalar_eq_clean (c : Val) (f : Stairs P) :
    binopO .div (.st f) (.sc c) = some (.ok (cleanAll (rawDiv f (const c f.closed) f.closed))) := by
  rw [cleanAll_rawDiv]; exact binopO_scR .div c f

/-- the value of the raw quotient at a point (both one-sided limits) is the IEEE quotient of the operands'
values there … -/
theorem lim_rawDiv (f g : Stairs P) (cl : Side) (hf : f.WF) (hg : g.WF) (st : Bool) (x : P) :
    lim st (rawDiv f g cl).init (rawDiv f g cl).steps x = divRaw (Den f st x) (Den g st x) :=
  lim_combineSteps st divRaw f.init f.steps g.init g.steps hf hg x

/-- … so for a scalar numerator `c` the raw value on a zero of `f` is `+inf`, `−inf`, NaN by the sign of `c`,
and all three are cleaned to "undefined" -/
theorem rdiv_raw_on_zero (c : Rat) (f : Stairs P) (hf : f.WF) (st : Bool) (x : P) (hz : Den f st x = some 0) :
    let e := rawDiv (const (some c) f.closed) f f.closed
    (0 < c → lim st e.init e.steps x = .pinf) ∧ (c < 0 → lim st e.init e.steps x = .ninf) ∧
    (c = 0 → lim st e.init e.steps x = .nan) ∧ Den (scL .div (some c) f) st x = none := by
  intro e
  have he : lim st e.init e.steps x = divRaw (some c) (some 0) := by
    rw [lim_rawDiv _ f _ (wf_const _ _) hf, hz]; rfl
  refine ⟨fun h => he.trans (divRaw_pos_zero c h), fun h => he.trans (divRaw_neg_zero c h),
    fun h => he.trans (h ▸ divRaw_zero_zero), ?_⟩
  rw [den_scL _ _ f hf, hz]
  show vdiv (some c) (some 0) = none
  simp [vdiv]

/-! ### the defective clean-up: step values only

The seeded defect cleaned `values` but not `initial_value`; its result still lives in `EStairs`. -/

/-- embedding of cleaned values -/
def ofVal : Val → EVal
  | some q => .fin q
  | none => .nan
def embed (f : Stairs P) : EStairs P := ⟨ofVal f.init, f.steps.map fun pv => (pv.1, ofVal pv.2), f.closed⟩

/-- the defective variant: `.replace(±inf, nan)` on the step values only -/
def cleanStepsOnly (e : EStairs P) : EStairs P :=
  ⟨e.init, e.steps.map fun pv => (pv.1, ofVal (cleanBoth pv.2)), e.closed⟩
/-- the correct clean-up, before removing redundant rows, in the same type -/
def cleanInitAndSteps (e : EStairs P) : EStairs P :=
  ⟨ofVal (cleanBoth e.init), e.steps.map fun pv => (pv.1, ofVal (cleanBoth pv.2)), e.closed⟩

/-- does the object hold an infinite value (initial value or a row)? -/
def hasInf (e : EStairs P) : Bool := isInf e.init || e.steps.any fun pv => isInf pv.2

theorem isInf_ofVal (v : Val) : isInf (ofVal v) = false := by cases v <;> rfl

/-- the correct clean-up never leaves an infinity; neither does any model object -/
theorem cleanInitAndSteps_finite (e : EStairs P) : hasInf (cleanInitAndSteps e) = false := by
  simp [hasInf, cleanInitAndSteps, isInf_ofVal]
theorem embed_finite (f : Stairs P) : hasInf (embed f) = false := by
  simp [hasInf, embed, isInf_ofVal]

/-- **exact failure condition of the defect**: after cleaning the step values only, the result of `f / g`
holds an infinity **iff** `g` is zero towards −∞ while `f` is defined and non-zero there; the infinity then sits
in the initial value -/
theorem cleanStepsOnly_hasInf_iff (f g : Stairs P) (cl : Side) :
    hasInf (cleanStepsOnly (rawDiv f g cl)) = true ↔ g.init = some 0 ∧ ∃ a, f.init = some a ∧ a ≠ 0 := by
  have : ((cleanStepsOnly (rawDiv f g cl)).steps.any fun pv => isInf pv.2) = false := by
    simp [cleanStepsOnly, isInf_ofVal]
  unfold hasInf
  rw [this, Bool.or_false]
  exact divRaw_isInf_iff f.init g.init
/-- away from that condition the defective variant agrees with the correct clean-up -/
theorem cleanStepsOnly_ok_iff (f g : Stairs P) (cl : Side) :
    cleanStepsOnly (rawDiv f g cl) = cleanInitAndSteps (rawDiv f g cl)
      ↔ ¬ (g.init = some 0 ∧ ∃ a, f.init = some a ∧ a ≠ 0) := by
  rw [← divRaw_isInf_iff]
  constructor
  · intro h hi
    have := congrArg EStairs.init h
    simp only [cleanStepsOnly, cleanInitAndSteps, rawDiv] at this
    rw [this, isInf_ofVal] at hi
    cases hi
  · intro h
    have : divRaw f.init g.init = ofVal (cleanBoth (divRaw f.init g.init)) := by
      cases hd : divRaw f.init g.init <;> simp_all [isInf, cleanBoth, ofVal]
    simp only [cleanStepsOnly, cleanInitAndSteps, rawDiv]
    rw [← this]

/-! ### witnesses -/
/-- divisor zero towards −∞ -/
def zA : Stairs Int := ⟨some 0, [(2, some 4), (5, some 0), (7, some (-1))], .left⟩
/-- numerator: negative towards −∞, positive on the other zero piece of `zA` -/
def mA : Stairs Int := ⟨some (-3), [(1, some 2), (6, some 0)], .left⟩

example : zA.Canonical ∧ mA.Canonical := by decide +kernel
/-- the raw rows: `−inf` as initial value, `+inf` on `[5,6)`, NaN (`0/0`) on `[6,7)` -/
example : rawDiv mA zA .left
    = ⟨.ninf, [(1, .pinf), (2, .fin (1/2)), (5, .pinf), (6, .nan), (7, .fin 0)], .left⟩ := by decide +kernel
example : cleanAll (rawDiv mA zA .left) = ⟨none, [(2, some (1/2)), (5, none), (7, some 0)], .left⟩ ∧
    binop .div mA zA = .ok ⟨none, [(2, some (1/2)), (5, none), (7, some 0)], .left⟩ := by decide +kernel
/-- **refuted (seeded defect)**: cleaning the step values only keeps `−inf` as the initial value of `mA / zA` … -/
theorem cleanStepsOnly_leaks : (cleanStepsOnly (rawDiv mA zA .left)).init = .ninf ∧
    hasInf (cleanStepsOnly (rawDiv mA zA .left)) = true ∧
    cleanStepsOnly (rawDiv mA zA .left) ≠ cleanInitAndSteps (rawDiv mA zA .left) := by decide +kernel
/-- … so its result is not (the embedding of) any model object, in particular not of the true quotient -/
theorem cleanStepsOnly_not_model (h : Stairs Int) : cleanStepsOnly (rawDiv mA zA .left) ≠ embed h := by
  intro e
  have := congrArg hasInf e
  rw [embed_finite, cleanStepsOnly_leaks.2.1] at this
  cases this
/-- `+inf` for a positive numerator (scalar-numerator path `1 / zA`), and the correct result -/
example : (cleanStepsOnly (rawDiv (const (some 1) .left) zA .left)).init = .pinf ∧
    binopO .div (.sc (some 1)) (.st zA) = some (.ok ⟨none, [(2, some (1/4)), (5, none), (7, some (-1))], .left⟩) := by
  decide +kernel
/-- with a divisor that is non-zero towards −∞ the defective variant is harmless -/
example : cleanStepsOnly (rawDiv zA mA .left) = cleanInitAndSteps (rawDiv zA mA .left) := by decide +kernel

end ieee

end SC.Props.C01b
