import SCModel.Lemmas.Algebra4b
import Mathlib.Data.Int.Order.Basic
/-!
# C04b — algebraic laws connecting the relational, logical, arithmetic and masking operators

`Props/C01`, `C04`, `C05` say what each operator does at one point; `Props/C12` has commutativity,
associativity, `*`/`+` distributivity, De Morgan, `f − f`, `~~f`, and `mask = where ∘ invert`.  This file adds
the laws that *connect* the operator families.  Every law is an **equality of objects** (same initial value,
same step rows, same closed side) between the canonical results, proved through `canonical_ext`, and holds
for all well-formed operands **including on their undefined regions** – where a text-book law fails on an
undefined region (or on a zero divisor) the right-hand side is corrected and the naive law is refuted on a
concrete witness.

Conventions.  `combine op f g cl` is the result of the two-operand path with closed side `cl` (the laws hold
for every `cl`; `§6` instantiates them for `binop` / `binopO` / `mask` / `where_` / `fillnaStairs` on operands
with equal closed side).  `zeroOn f` / `oneOn f` are 0 / 1 where `f` is defined and undefined elsewhere
(`= f * 0`, `= (f == f)`), `oneOn (f + g)` is the indicator of the common domain.
-/
set_option linter.unusedSectionVars false
namespace SC.Props.C04b
open SC SC.Stairs
variable {P : Type} [LinearOrder P]

local notation "vinv" => UnOp.eval UnOp.invert
local notation "vmb" => UnOp.eval UnOp.makeBoolean
local notation "vneg" => UnOp.eval UnOp.neg
local notation "visna" => UnOp.eval UnOp.isna
local notation "vnotna" => UnOp.eval UnOp.notna

/-! ## 0. the two "domain" objects used as right-hand sides -/

/-- 0 where `f` is defined, undefined elsewhere -/
def zeroOn (f : Stairs P) : Stairs P := map g4b_vzero f
/-- 1 where `f` is defined, undefined elsewhere -/
def oneOn (f : Stairs P) : Stairs P := map g4b_vone f

theorem den_zeroOn (f : Stairs P) (hf : f.WF) (st : Bool) (x : P) :
    Den (zeroOn f) st x = (Den f st x).map fun _ => (0 : Rat) := den_map _ f hf st x
theorem den_oneOn (f : Stairs P) (hf : f.WF) (st : Bool) (x : P) :
    Den (oneOn f) st x = (Den f st x).map fun _ => (1 : Rat) := den_map _ f hf st x
theorem canonical_zeroOn (f : Stairs P) (hf : f.WF) : (zeroOn f).Canonical := canonical_map _ f hf
theorem canonical_oneOn (f : Stairs P) (hf : f.WF) : (oneOn f).Canonical := canonical_map _ f hf
theorem wf_zeroOn (f : Stairs P) (hf : f.WF) : (zeroOn f).WF := wf_map _ f hf
theorem wf_oneOn (f : Stairs P) (hf : f.WF) : (oneOn f).WF := wf_map _ f hf
@[simp] theorem closed_zeroOn (f : Stairs P) : (zeroOn f).closed = f.closed := rfl
@[simp] theorem closed_oneOn (f : Stairs P) : (oneOn f).closed = f.closed := rfl

/-- the indicator of the common domain of `f` and `g` at one point -/
theorem den_oneOn_add (f g : Stairs P) (cl : Side) (hf : f.WF) (hg : g.WF) (st : Bool) (x : P) :
    Den (oneOn (combine vadd f g cl)) st x =
      if (Den f st x).isSome ∧ (Den g st x).isSome then some 1 else none := by
  unfold oneOn; g4b_den
  cases Den f st x <;> cases Den g st x <;> simp [vadd, vlift2, g4b_vone]

section laws
variable [NoMinOrder P] [Nonempty P]

/-! ## 1. relational operators -/

/-- `(f != g) = ~(f == g)` – undefined regions included (invert of undefined stays undefined) -/
theorem ne_eq_invert_eq (f g : Stairs P) (cl : Side) (hf : f.WF) (hg : g.WF) :
    combine (vrel .ne) f g cl = unop .invert (combine (vrel .eq) f g cl) := by
  g4b_ext x; exact g4b_v_ne_invert_eq _ _
theorem eq_eq_invert_ne (f g : Stairs P) (cl : Side) (hf : f.WF) (hg : g.WF) :
    combine (vrel .eq) f g cl = unop .invert (combine (vrel .ne) f g cl) := by
  g4b_ext x; exact g4b_v_eq_invert_ne _ _
/-- `(f >= g) = ~(f < g)` and the three companions -/
theorem ge_eq_invert_lt (f g : Stairs P) (cl : Side) (hf : f.WF) (hg : g.WF) :
    combine (vrel .ge) f g cl = unop .invert (combine (vrel .lt) f g cl) := by
  g4b_ext x; exact g4b_v_ge_invert_lt _ _
theorem lt_eq_invert_ge (f g : Stairs P) (cl : Side) (hf : f.WF) (hg : g.WF) :
    combine (vrel .lt) f g cl = unop .invert (combine (vrel .ge) f g cl) := by
  g4b_ext x; exact g4b_v_lt_invert_ge _ _
theorem gt_eq_invert_le (f g : Stairs P) (cl : Side) (hf : f.WF) (hg : g.WF) :
    combine (vrel .gt) f g cl = unop .invert (combine (vrel .le) f g cl) := by
  g4b_ext x; exact g4b_v_gt_invert_le _ _
theorem le_eq_invert_gt (f g : Stairs P) (cl : Side) (hf : f.WF) (hg : g.WF) :
    combine (vrel .le) f g cl = unop .invert (combine (vrel .gt) f g cl) := by
  g4b_ext x; exact g4b_v_le_invert_gt _ _

/-- `(f <= g) = (f < g) | (f == g)` -/
theorem le_eq_lt_or_eq (f g : Stairs P) (cl : Side) (hf : f.WF) (hg : g.WF) :
    combine (vrel .le) f g cl
      = combine (vlogic .or) (combine (vrel .lt) f g cl) (combine (vrel .eq) f g cl) cl := by
  g4b_ext x; exact g4b_v_le_lt_or_eq _ _
theorem ge_eq_gt_or_eq (f g : Stairs P) (cl : Side) (hf : f.WF) (hg : g.WF) :
    combine (vrel .ge) f g cl
      = combine (vlogic .or) (combine (vrel .gt) f g cl) (combine (vrel .eq) f g cl) cl := by
  g4b_ext x; exact g4b_v_ge_gt_or_eq _ _
/-- `(f != g) = (f < g) | (f > g)` -/
theorem ne_eq_lt_or_gt (f g : Stairs P) (cl : Side) (hf : f.WF) (hg : g.WF) :
    combine (vrel .ne) f g cl
      = combine (vlogic .or) (combine (vrel .lt) f g cl) (combine (vrel .gt) f g cl) cl := by
  g4b_ext x; exact g4b_v_ne_lt_or_gt _ _

/-- `>=` / `>` are `<=` / `<` with the operands swapped; `==` / `!=` are symmetric -/
theorem ge_swap (f g : Stairs P) (cl : Side) (hf : f.WF) (hg : g.WF) :
    combine (vrel .ge) f g cl = combine (vrel .le) g f cl := by
  g4b_ext x; exact g4b_v_ge_swap _ _
theorem gt_swap (f g : Stairs P) (cl : Side) (hf : f.WF) (hg : g.WF) :
    combine (vrel .gt) f g cl = combine (vrel .lt) g f cl := by
  g4b_ext x; exact g4b_v_gt_swap _ _
theorem eq_symm (f g : Stairs P) (cl : Side) (hf : f.WF) (hg : g.WF) :
    combine (vrel .eq) f g cl = combine (vrel .eq) g f cl := by
  g4b_ext x; exact g4b_v_eq_comm _ _
theorem ne_symm (f g : Stairs P) (cl : Side) (hf : f.WF) (hg : g.WF) :
    combine (vrel .ne) f g cl = combine (vrel .ne) g f cl := by
  g4b_ext x; exact g4b_v_ne_comm _ _

/-- `<` and `>` exclude each other: `(f < g) & (f > g)` is 0 on the common domain (undefined outside) -/
theorem lt_and_gt (f g : Stairs P) (cl : Side) (hf : f.WF) (hg : g.WF) :
    combine (vlogic .and) (combine (vrel .lt) f g cl) (combine (vrel .gt) f g cl) cl
      = zeroOn (combine vadd f g cl) := by
  unfold zeroOn; g4b_ext x; exact g4b_v_lt_and_gt _ _

omit [NoMinOrder P] [Nonempty P] in
/-- … pointwise, for both one-sided limits: never both 1 -/
theorem lt_gt_not_both (f g : Stairs P) (cl : Side) (hf : f.WF) (hg : g.WF) (st : Bool) (x : P) :
    ¬ (Den (combine (vrel .lt) f g cl) st x = some 1 ∧ Den (combine (vrel .gt) f g cl) st x = some 1) := by
  g4b_den
  cases Den f st x <;> cases Den g st x <;> simp [vrel, Rel.eval, b2r]
  rename_i a b
  by_cases h : a < b <;> simp [h, le_of_lt]

/-- **trichotomy**: `(f < g) + (f == g) + (f > g)` is the indicator of the common domain: 1 where both are
defined, undefined elsewhere (see `den_oneOn_add`) -/
theorem trichotomy (f g : Stairs P) (cl : Side) (hf : f.WF) (hg : g.WF) :
    combine vadd (combine vadd (combine (vrel .lt) f g cl) (combine (vrel .eq) f g cl) cl)
        (combine (vrel .gt) f g cl) cl
      = oneOn (combine vadd f g cl) := by
  unfold oneOn; g4b_ext x; exact g4b_v_trichotomy _ _

/-- the common-domain indicator written with library operators: `(f == f) & (g == g)` -/
theorem oneOn_add_eq (f g : Stairs P) (cl : Side) (hf : f.WF) (hg : g.WF) :
    oneOn (combine vadd f g cl)
      = combine (vlogic .and) (combine (vrel .eq) f f cl) (combine (vrel .eq) g g cl) cl := by
  unfold oneOn; g4b_ext x
  cases Den f false x <;> cases Den g false x <;> simp [vadd, vlift2, g4b_vone, vrel, Rel.eval, vlogic, Logic.eval, b2r, truth]
/-- … and as `1.where(notna f & notna g)` -/
theorem oneOn_add_eq_where (f g : Stairs P) (cl : Side) (hf : f.WF) (hg : g.WF) :
    oneOn (combine vadd f g cl)
      = combine whereOp (const (some 1) cl)
          (combine (vlogic .and) (unop .notna f) (unop .notna g) cl) cl := by
  unfold oneOn; g4b_ext x
  cases Den f false x <;> cases Den g false x <;>
    simp [vadd, vlift2, g4b_vone, vlogic, Logic.eval, b2r, truth, UnOp.eval, whereOp]

omit [NoMinOrder P] [Nonempty P] in
/-- trichotomy pointwise (both limits): where both are defined the three indicators add up to 1 -/
theorem trichotomy_pointwise (f g : Stairs P) (cl : Side) (hf : f.WF) (hg : g.WF) (st : Bool) (x : P)
    (a b : Rat) (ha : Den f st x = some a) (hb : Den g st x = some b) :
    vadd (vadd (Den (combine (vrel .lt) f g cl) st x) (Den (combine (vrel .eq) f g cl) st x))
      (Den (combine (vrel .gt) f g cl) st x) = some 1 := by
  g4b_den; rw [g4b_v_trichotomy, ha, hb]; rfl

/-- irreflexivity / reflexivity: `f < f`, `f > f`, `f != f` are 0, `f == f`, `f <= f`, `f >= f` are 1 –
exactly where `f` is defined -/
theorem lt_self (f : Stairs P) (hf : f.WF) : combine (vrel .lt) f f f.closed = zeroOn f := by
  unfold zeroOn; g4b_ext x; exact g4b_v_lt_self _
theorem gt_self (f : Stairs P) (hf : f.WF) : combine (vrel .gt) f f f.closed = zeroOn f := by
  unfold zeroOn; g4b_ext x; exact g4b_v_gt_self _
theorem ne_self (f : Stairs P) (hf : f.WF) : combine (vrel .ne) f f f.closed = zeroOn f := by
  unfold zeroOn; g4b_ext x; exact g4b_v_ne_self _
theorem eq_self (f : Stairs P) (hf : f.WF) : combine (vrel .eq) f f f.closed = oneOn f := by
  unfold oneOn; g4b_ext x; exact g4b_v_eq_self _
theorem le_self (f : Stairs P) (hf : f.WF) : combine (vrel .le) f f f.closed = oneOn f := by
  unfold oneOn; g4b_ext x; exact g4b_v_le_self _
theorem ge_self (f : Stairs P) (hf : f.WF) : combine (vrel .ge) f f f.closed = oneOn f := by
  unfold oneOn; g4b_ext x; exact g4b_v_ge_self _

/-- transitivity of `<, <=, >, >=, ==` as an identity of objects: `((f r g) & (g r h)) & (f r h)` is the
same object as `(f r g) & (g r h)` -/
theorem rel_trans (r : Rel) (hr : g4b_Trans r) (f g h : Stairs P) (cl : Side)
    (hf : f.WF) (hg : g.WF) (hh : h.WF) :
    combine (vlogic .and)
        (combine (vlogic .and) (combine (vrel r) f g cl) (combine (vrel r) g h cl) cl)
        (combine (vrel r) f h cl) cl
      = combine (vlogic .and) (combine (vrel r) f g cl) (combine (vrel r) g h cl) cl := by
  g4b_ext x; exact g4b_v_rel_trans r hr _ _ _

omit [NoMinOrder P] [Nonempty P] in
/-- transitivity at the pointwise level (both limits) -/
theorem rel_trans_pointwise (r : Rel) (hr : g4b_Trans r) (f g h : Stairs P) (cl : Side)
    (hf : f.WF) (hg : g.WF) (hh : h.WF) (st : Bool) (x : P)
    (h1 : Den (combine (vrel r) f g cl) st x = some 1) (h2 : Den (combine (vrel r) g h cl) st x = some 1) :
    Den (combine (vrel r) f h cl) st x = some 1 := by
  rw [den_combine _ _ _ _ hf hg] at h1
  rw [den_combine _ _ _ _ hg hh] at h2
  rw [den_combine _ _ _ _ hf hh]
  exact g4b_v_rel_trans_one r hr _ _ _ h1 h2

omit [NoMinOrder P] [Nonempty P] in
/-- `!=` is not transitive -/
theorem ne_not_trans : ¬ g4b_Trans .ne := by simp [g4b_Trans]

/-- antisymmetry and totality of `<=` -/
theorem le_antisymm (f g : Stairs P) (cl : Side) (hf : f.WF) (hg : g.WF) :
    combine (vlogic .and) (combine (vrel .le) f g cl) (combine (vrel .le) g f cl) cl
      = combine (vrel .eq) f g cl := by
  g4b_ext x; exact g4b_v_le_antisymm _ _
theorem le_total (f g : Stairs P) (cl : Side) (hf : f.WF) (hg : g.WF) :
    combine (vlogic .or) (combine (vrel .le) f g cl) (combine (vrel .le) g f cl) cl
      = oneOn (combine vadd f g cl) := by
  unfold oneOn; g4b_ext x; exact g4b_v_le_total _ _

/-- relational and logical results are boolean already: `make_boolean` does nothing to them -/
theorem mb_rel (r : Rel) (f g : Stairs P) (cl : Side) (hf : f.WF) (hg : g.WF) :
    unop .makeBoolean (combine (vrel r) f g cl) = combine (vrel r) f g cl := by
  g4b_ext x; exact g4b_v_mb_rel r _ _
theorem mb_logic (l : Logic) (f g : Stairs P) (cl : Side) (hf : f.WF) (hg : g.WF) :
    unop .makeBoolean (combine (vlogic l) f g cl) = combine (vlogic l) f g cl := by
  g4b_ext x; exact g4b_v_mb_logic l _ _

/-! ## 2. the logical lattice -/

/-- idempotence: `f & f = f | f = make_boolean f`, `f ^ f = 0` on f's domain -/
theorem and_self (f : Stairs P) (hf : f.WF) : combine (vlogic .and) f f f.closed = unop .makeBoolean f := by
  g4b_ext x; exact g4b_v_and_self _
theorem or_self (f : Stairs P) (hf : f.WF) : combine (vlogic .or) f f f.closed = unop .makeBoolean f := by
  g4b_ext x; exact g4b_v_or_self _
theorem xor_self (f : Stairs P) (hf : f.WF) : combine (vlogic .xor) f f f.closed = zeroOn f := by
  unfold zeroOn; g4b_ext x; exact g4b_v_xor_self _

/-- **absorption, corrected**: `f & (f | g)` and `f | (f & g)` are `make_boolean f` only where `g` is
defined: both equal `f & oneOn g` -/
theorem absorb_and_or (f g : Stairs P) (cl : Side) (hf : f.WF) (hg : g.WF) :
    combine (vlogic .and) f (combine (vlogic .or) f g cl) cl = combine (vlogic .and) f (oneOn g) cl := by
  unfold oneOn; g4b_ext x; exact g4b_v_absorb_and_or _ _
theorem absorb_or_and (f g : Stairs P) (cl : Side) (hf : f.WF) (hg : g.WF) :
    combine (vlogic .or) f (combine (vlogic .and) f g cl) cl = combine (vlogic .and) f (oneOn g) cl := by
  unfold oneOn; g4b_ext x; exact g4b_v_absorb_or_and _ _

/-- text-book absorption holds when `g` is defined everywhere -/
theorem absorb_and_or_total (f g : Stairs P) (hf : f.WF) (hg : g.WF) (hd : ∀ x, Den g false x ≠ none) :
    combine (vlogic .and) f (combine (vlogic .or) f g f.closed) f.closed = unop .makeBoolean f := by
  g4b_ext x; rw [g4b_v_absorb_and_or, g4b_v_and_vone _ _ (hd x)]
theorem absorb_or_and_total (f g : Stairs P) (hf : f.WF) (hg : g.WF) (hd : ∀ x, Den g false x ≠ none) :
    combine (vlogic .or) f (combine (vlogic .and) f g f.closed) f.closed = unop .makeBoolean f := by
  g4b_ext x; rw [g4b_v_absorb_or_and, g4b_v_and_vone _ _ (hd x)]

/-- `f ^ g = (f | g) & ~(f & g)` -/
theorem xor_def (f g : Stairs P) (cl : Side) (hf : f.WF) (hg : g.WF) :
    combine (vlogic .xor) f g cl
      = combine (vlogic .and) (combine (vlogic .or) f g cl)
          (unop .invert (combine (vlogic .and) f g cl)) cl := by
  g4b_ext x; exact g4b_v_xor_def _ _

/-- `make_boolean` is idempotent and is absorbed by `~` on either side; `~~~f = ~f` -/
theorem mb_idem (f : Stairs P) (hf : f.WF) :
    unop .makeBoolean (unop .makeBoolean f) = unop .makeBoolean f := by
  g4b_ext x; exact g4b_v_mb_idem _
theorem invert_mb (f : Stairs P) (hf : f.WF) : unop .invert (unop .makeBoolean f) = unop .invert f := by
  g4b_ext x; exact g4b_v_invert_mb _
theorem mb_invert (f : Stairs P) (hf : f.WF) : unop .makeBoolean (unop .invert f) = unop .invert f := by
  g4b_ext x; exact g4b_v_mb_invert _
theorem invert3 (f : Stairs P) (hf : f.WF) :
    unop .invert (unop .invert (unop .invert f)) = unop .invert f := by
  g4b_ext x; exact g4b_v_invert3 _

/-- scalar cases (`c'` is the side the scalar's constant carries – irrelevant).  A non-zero scalar is "true". -/
theorem and_true (f : Stairs P) (c : Rat) (hc : c ≠ 0) (c' : Side) (hf : f.WF) :
    combine (vlogic .and) f (const (some c) c') f.closed = unop .makeBoolean f := by
  g4b_ext x; exact g4b_v_and_true _ c hc
theorem and_false (f : Stairs P) (c' : Side) (hf : f.WF) :
    combine (vlogic .and) f (const (some 0) c') f.closed = zeroOn f := by
  unfold zeroOn; g4b_ext x; exact g4b_v_and_false _
theorem or_false (f : Stairs P) (c' : Side) (hf : f.WF) :
    combine (vlogic .or) f (const (some 0) c') f.closed = unop .makeBoolean f := by
  g4b_ext x; exact g4b_v_or_false _
theorem or_true (f : Stairs P) (c : Rat) (hc : c ≠ 0) (c' : Side) (hf : f.WF) :
    combine (vlogic .or) f (const (some c) c') f.closed = oneOn f := by
  unfold oneOn; g4b_ext x; exact g4b_v_or_true _ c hc
theorem xor_false (f : Stairs P) (c' : Side) (hf : f.WF) :
    combine (vlogic .xor) f (const (some 0) c') f.closed = unop .makeBoolean f := by
  g4b_ext x; exact g4b_v_xor_false _
theorem xor_true (f : Stairs P) (c : Rat) (hc : c ≠ 0) (c' : Side) (hf : f.WF) :
    combine (vlogic .xor) f (const (some c) c') f.closed = unop .invert f := by
  g4b_ext x; exact g4b_v_xor_true _ c hc

/-- complement laws: `f & ~f = 0`, `f | ~f = f ^ ~f = 1` on f's domain -/
theorem and_not_self (f : Stairs P) (hf : f.WF) :
    combine (vlogic .and) f (unop .invert f) f.closed = zeroOn f := by
  unfold zeroOn; g4b_ext x; exact g4b_v_and_not_self _
theorem or_not_self (f : Stairs P) (hf : f.WF) :
    combine (vlogic .or) f (unop .invert f) f.closed = oneOn f := by
  unfold oneOn; g4b_ext x; exact g4b_v_or_not_self _
theorem xor_not_self (f : Stairs P) (hf : f.WF) :
    combine (vlogic .xor) f (unop .invert f) f.closed = oneOn f := by
  unfold oneOn; g4b_ext x; exact g4b_v_xor_not_self _

/-- the lattice is distributive (both ways), undefined regions included -/
theorem and_or_distrib (f g k : Stairs P) (cl : Side) (hf : f.WF) (hg : g.WF) (hk : k.WF) :
    combine (vlogic .and) f (combine (vlogic .or) g k cl) cl
      = combine (vlogic .or) (combine (vlogic .and) f g cl) (combine (vlogic .and) f k cl) cl := by
  g4b_ext x; exact g4b_v_and_or_distrib _ _ _
theorem or_and_distrib (f g k : Stairs P) (cl : Side) (hf : f.WF) (hg : g.WF) (hk : k.WF) :
    combine (vlogic .or) f (combine (vlogic .and) g k cl) cl
      = combine (vlogic .and) (combine (vlogic .or) f g cl) (combine (vlogic .or) f k cl) cl := by
  g4b_ext x; exact g4b_v_or_and_distrib _ _ _

/-- logical operators expressed by relational / arithmetic ones -/
theorem mb_eq_ne_zero (f : Stairs P) (c' : Side) (hf : f.WF) :
    unop .makeBoolean f = combine (vrel .ne) f (const (some 0) c') f.closed := by
  g4b_ext x; exact g4b_v_mb_ne_zero _
theorem invert_eq_eq_zero (f : Stairs P) (c' : Side) (hf : f.WF) :
    unop .invert f = combine (vrel .eq) f (const (some 0) c') f.closed := by
  g4b_ext x; exact g4b_v_invert_eq_zero _
theorem invert_eq_one_sub (f : Stairs P) (c' : Side) (hf : f.WF) :
    unop .invert f = combine vsub (const (some 1) c') (unop .makeBoolean f) f.closed := by
  g4b_ext x; exact g4b_v_invert_sub _
theorem and_eq_mul (f g : Stairs P) (cl : Side) (hf : f.WF) (hg : g.WF) :
    combine (vlogic .and) f g cl = combine vmul (unop .makeBoolean f) (unop .makeBoolean g) cl := by
  g4b_ext x; exact g4b_v_and_mul _ _
theorem or_eq_arith (f g : Stairs P) (cl : Side) (hf : f.WF) (hg : g.WF) :
    combine (vlogic .or) f g cl
      = combine vsub (combine vadd (unop .makeBoolean f) (unop .makeBoolean g) cl)
          (combine (vlogic .and) f g cl) cl := by
  g4b_ext x; exact g4b_v_or_arith _ _
theorem xor_eq_ne (f g : Stairs P) (cl : Side) (hf : f.WF) (hg : g.WF) :
    combine (vlogic .xor) f g cl = combine (vrel .ne) (unop .makeBoolean f) (unop .makeBoolean g) cl := by
  g4b_ext x; exact g4b_v_xor_ne _ _

/-- `make_boolean` fixes exactly the canonical functions with values in {0, 1} -/
theorem mb_fixed_iff (f : Stairs P) (hf : f.Canonical) :
    unop .makeBoolean f = f ↔ ∀ x, Den f false x = none ∨ Den f false x = some 0 ∨ Den f false x = some 1 := by
  have hw := hf.1
  constructor
  · intro h x
    have := den_unop .makeBoolean f hw false x
    rw [h] at this
    cases hx : Den f false x with
    | none => exact Or.inl rfl
    | some q =>
      rw [hx] at this
      by_cases hq : q = 0
      · right; left; rw [hq]
      · right; right; simp [UnOp.eval, truth, b2r, hq] at this; rw [← this]
  · intro h
    g4b_ext x
    rcases h x with e | e | e <;> rw [e] <;> simp [UnOp.eval, truth, b2r]

/-! ## 3. arithmetic -/

/-- neutral elements: the result is `f` in canonical form (so `f` itself when `f` is canonical) -/
theorem add_zero (f : Stairs P) (c' : Side) (hf : f.WF) :
    combine vadd f (const (some 0) c') f.closed = f.canon := by
  g4b_ext x; exact g4b_v_add_zero _
theorem zero_add (f : Stairs P) (c' : Side) (hf : f.WF) :
    combine vadd (const (some 0) c') f f.closed = f.canon := by
  g4b_ext x; exact g4b_v_zero_add _
theorem sub_zero (f : Stairs P) (c' : Side) (hf : f.WF) :
    combine vsub f (const (some 0) c') f.closed = f.canon := by
  g4b_ext x; exact g4b_v_sub_zero _
theorem mul_one (f : Stairs P) (c' : Side) (hf : f.WF) :
    combine vmul f (const (some 1) c') f.closed = f.canon := by
  g4b_ext x; exact g4b_v_mul_one _
theorem one_mul (f : Stairs P) (c' : Side) (hf : f.WF) :
    combine vmul (const (some 1) c') f f.closed = f.canon := by
  g4b_ext x; exact g4b_v_one_mul _
theorem div_one (f : Stairs P) (c' : Side) (hf : f.WF) :
    combine vdiv f (const (some 1) c') f.closed = f.canon := by
  g4b_ext x; exact g4b_v_div_one _

/-- for a canonical `f` the neutral operations return `f` itself -/
theorem add_zero_canonical (f : Stairs P) (c' : Side) (hf : f.Canonical) :
    combine vadd f (const (some 0) c') f.closed = f ∧ combine vmul f (const (some 1) c') f.closed = f := by
  rw [add_zero f c' hf.1, mul_one f c' hf.1, canon_of_minimal f hf.2]; exact ⟨rfl, rfl⟩

/-- `f * 0` keeps the undefined regions; and it is the same object as `f − f` -/
theorem mul_zero (f : Stairs P) (c' : Side) (hf : f.WF) :
    combine vmul f (const (some 0) c') f.closed = zeroOn f := by
  unfold zeroOn; g4b_ext x; exact g4b_v_mul_zero _
theorem zero_mul (f : Stairs P) (c' : Side) (hf : f.WF) :
    combine vmul (const (some 0) c') f f.closed = zeroOn f := by
  unfold zeroOn; g4b_ext x; exact g4b_v_zero_mul _
theorem sub_self_eq (f : Stairs P) (hf : f.WF) : combine vsub f f f.closed = zeroOn f := by
  unfold zeroOn; g4b_ext x; exact g4b_v_sub_self _

/-- **`f / f`** is 1 exactly where `f` is defined and non-zero, undefined elsewhere: `1.where(f)` -/
theorem div_self (f : Stairs P) (c' : Side) (hf : f.WF) :
    combine vdiv f f f.closed = combine whereOp (const (some 1) c') f f.closed := by
  g4b_ext x; exact g4b_v_div_self _
omit [NoMinOrder P] [Nonempty P] in
theorem div_self_pointwise (f : Stairs P) (cl : Side) (hf : f.WF) (st : Bool) (x : P) :
    Den (combine vdiv f f cl) st x
      = match Den f st x with
        | some q => if q = 0 then none else some 1
        | none => none := by
  g4b_den
  cases Den f st x with
  | none => rfl
  | some q => by_cases hq : q = 0 <;> simp [vdiv, hq]

/-- negation is an involution; subtraction is adding the negation; and friends -/
theorem neg_neg (f : Stairs P) (hf : f.WF) : unop .neg (unop .neg f) = f.canon := by
  g4b_ext x; exact g4b_v_neg_neg _
theorem sub_eq_add_neg (f g : Stairs P) (cl : Side) (hf : f.WF) (hg : g.WF) :
    combine vsub f g cl = combine vadd f (unop .neg g) cl := by
  g4b_ext x; exact g4b_v_sub_eq_add_neg _ _
theorem neg_sub (f g : Stairs P) (cl : Side) (hf : f.WF) (hg : g.WF) :
    unop .neg (combine vsub f g cl) = combine vsub g f cl := by
  g4b_ext x; exact g4b_v_neg_sub _ _
theorem neg_add (f g : Stairs P) (cl : Side) (hf : f.WF) (hg : g.WF) :
    unop .neg (combine vadd f g cl) = combine vadd (unop .neg f) (unop .neg g) cl := by
  g4b_ext x; exact g4b_v_neg_add _ _
theorem neg_eq_mul (f : Stairs P) (c' : Side) (hf : f.WF) :
    unop .neg f = combine vmul f (const (some (-1)) c') f.closed := by
  g4b_ext x; exact g4b_v_neg_eq_mul _
theorem neg_mul (f g : Stairs P) (cl : Side) (hf : f.WF) (hg : g.WF) :
    combine vmul (unop .neg f) g cl = unop .neg (combine vmul f g cl) := by
  g4b_ext x; exact g4b_v_neg_mul _ _
theorem zero_sub (f : Stairs P) (c' : Side) (hf : f.WF) :
    combine vsub (const (some 0) c') f f.closed = unop .neg f := by
  g4b_ext x; exact g4b_v_zero_sub _
theorem add_self (f : Stairs P) (c' : Side) (hf : f.WF) :
    combine vadd f f f.closed = combine vmul (const (some 2) c') f f.closed := by
  g4b_ext x; exact g4b_v_add_self _

/-- **`(f * g) / g`** and **`(f / g) * g`** are `f` exactly where `g` is defined and non-zero: `f.where(g)` -/
theorem mul_div_cancel (f g : Stairs P) (cl : Side) (hf : f.WF) (hg : g.WF) :
    combine vdiv (combine vmul f g cl) g cl = combine whereOp f g cl := by
  g4b_ext x; exact g4b_v_mul_div_cancel _ _
theorem div_mul_cancel (f g : Stairs P) (cl : Side) (hf : f.WF) (hg : g.WF) :
    combine vmul (combine vdiv f g cl) g cl = combine whereOp f g cl := by
  g4b_ext x; exact g4b_v_div_mul_cancel _ _
/-- … so it is `f` when `g` is defined and non-zero everywhere -/
theorem mul_div_cancel_total (f g : Stairs P) (hf : f.WF) (hg : g.WF)
    (hd : ∀ x, ∃ q, Den g false x = some q ∧ q ≠ 0) :
    combine vdiv (combine vmul f g f.closed) g f.closed = f.canon := by
  g4b_ext x
  obtain ⟨q, hq, hq0⟩ := hd x
  rw [g4b_v_mul_div_cancel, hq]; simp [whereOp, hq0]

/-- **`(f + g) − g`** and **`(f − g) + g`** are `f` exactly where `g` is defined: `f.mask(g.isna())` -/
theorem add_sub_cancel (f g : Stairs P) (cl : Side) (hf : f.WF) (hg : g.WF) :
    combine vsub (combine vadd f g cl) g cl = combine maskOp f (unop .isna g) cl := by
  g4b_ext x; exact g4b_v_add_sub_cancel _ _
theorem sub_add_cancel (f g : Stairs P) (cl : Side) (hf : f.WF) (hg : g.WF) :
    combine vadd (combine vsub f g cl) g cl = combine maskOp f (unop .isna g) cl := by
  g4b_ext x; exact g4b_v_sub_add_cancel _ _
theorem add_sub_cancel_total (f g : Stairs P) (hf : f.WF) (hg : g.WF) (hd : ∀ x, Den g false x ≠ none) :
    combine vsub (combine vadd f g f.closed) g f.closed = f.canon := by
  g4b_ext x; rw [g4b_v_add_sub_cancel, g4b_v_mask_isna_defined _ _ (hd x)]
/-- `(f + c) − c = f` for a real scalar `c` -/
theorem add_sub_cancel_scalar (f : Stairs P) (c : Rat) (c' : Side) (hf : f.WF) :
    combine vsub (combine vadd f (const (some c) c') f.closed) (const (some c) c') f.closed = f.canon := by
  g4b_ext x; rw [g4b_v_add_sub_cancel]; exact g4b_v_mask_isna_defined _ _ (by simp)
/-- `(f * c) / c = f` for a non-zero real scalar `c` -/
theorem mul_div_cancel_scalar (f : Stairs P) (c : Rat) (hc : c ≠ 0) (c' : Side) (hf : f.WF) :
    combine vdiv (combine vmul f (const (some c) c') f.closed) (const (some c) c') f.closed = f.canon := by
  g4b_ext x; rw [g4b_v_mul_div_cancel]; simp [whereOp, hc]

/-- cancellation: `f + h = g + h` with `h` defined everywhere forces `f = g` (as canonical objects) -/
theorem add_right_cancel (f g h : Stairs P) (cl : Side) (hf : f.WF) (hg : g.WF) (hh : h.WF)
    (hc : f.closed = g.closed) (hd : ∀ x, Den h false x ≠ none)
    (he : combine vadd f h cl = combine vadd g h cl) : f.canon = g.canon := by
  g4b_ext x
  have := congrArg (fun k => Den k false x) he
  simp only [den_combine _ _ _ _ hf hh, den_combine _ _ _ _ hg hh] at this
  exact g4b_v_add_right_cancel _ _ _ (hd x) this
/-- `f * h = g * h` with `h` defined and non-zero everywhere forces `f = g` -/
theorem mul_right_cancel (f g h : Stairs P) (cl : Side) (hf : f.WF) (hg : g.WF) (hh : h.WF)
    (hc : f.closed = g.closed) (hd : ∀ x, Den h false x ≠ none) (hz : ∀ x, Den h false x ≠ some 0)
    (he : combine vmul f h cl = combine vmul g h cl) : f.canon = g.canon := by
  g4b_ext x
  have := congrArg (fun k => Den k false x) he
  simp only [den_combine _ _ _ _ hf hh, den_combine _ _ _ _ hg hh] at this
  exact g4b_v_mul_right_cancel _ _ _ (hd x) (hz x) this

/-! ## 4. relational operators against arithmetic -/

/-- `(f r g) = ((f − g) r 0)` for all six relations -/
theorem rel_sub_zero (r : Rel) (f g : Stairs P) (cl c' : Side) (hf : f.WF) (hg : g.WF) :
    combine (vrel r) f g cl = combine (vrel r) (combine vsub f g cl) (const (some 0) c') cl := by
  g4b_ext x; exact g4b_v_rel_sub_zero r _ _

/-- **`(f + h) r (g + h)`** is `f r g` exactly where `h` is defined: `(f r g).mask(h.isna())` -/
theorem rel_add_right (r : Rel) (f g h : Stairs P) (cl : Side) (hf : f.WF) (hg : g.WF) (hh : h.WF) :
    combine (vrel r) (combine vadd f h cl) (combine vadd g h cl) cl
      = combine maskOp (combine (vrel r) f g cl) (unop .isna h) cl := by
  g4b_ext x; exact g4b_v_rel_add_right r _ _ _
theorem rel_add_right_total (r : Rel) (f g h : Stairs P) (cl : Side) (hf : f.WF) (hg : g.WF) (hh : h.WF)
    (hd : ∀ x, Den h false x ≠ none) :
    combine (vrel r) (combine vadd f h cl) (combine vadd g h cl) cl = combine (vrel r) f g cl := by
  g4b_ext x; rw [g4b_v_rel_add_right, g4b_v_mask_isna_defined _ _ (hd x)]
theorem rel_add_scalar (r : Rel) (f g : Stairs P) (c : Rat) (cl c' : Side) (hf : f.WF) (hg : g.WF) :
    combine (vrel r) (combine vadd f (const (some c) c') cl) (combine vadd g (const (some c) c') cl) cl
      = combine (vrel r) f g cl := by
  g4b_ext x; rw [g4b_v_rel_add_right]; exact g4b_v_mask_isna_defined _ _ (by simp)

/-- scaling both sides by a positive scalar keeps every comparison, by a negative one swaps its operands
(`k·f < k·g  =  g < f`); negation is the case `k = −1` -/
theorem rel_mul_pos (r : Rel) (k : Rat) (hk : 0 < k) (f g : Stairs P) (cl c' : Side) (hf : f.WF) (hg : g.WF) :
    combine (vrel r) (combine vmul (const (some k) c') f cl) (combine vmul (const (some k) c') g cl) cl
      = combine (vrel r) f g cl := by
  g4b_ext x; exact g4b_v_rel_mul_pos r k hk _ _
theorem rel_mul_neg (r : Rel) (k : Rat) (hk : k < 0) (f g : Stairs P) (cl c' : Side) (hf : f.WF) (hg : g.WF) :
    combine (vrel r) (combine vmul (const (some k) c') f cl) (combine vmul (const (some k) c') g cl) cl
      = combine (vrel r) g f cl := by
  g4b_ext x; exact g4b_v_rel_mul_neg r k hk _ _
theorem rel_neg (r : Rel) (f g : Stairs P) (cl : Side) (hf : f.WF) (hg : g.WF) :
    combine (vrel r) (unop .neg f) (unop .neg g) cl = combine (vrel r) g f cl := by
  g4b_ext x; exact g4b_v_rel_neg r _ _
/-- the remaining case `k = 0`: `0·f < 0·g` is 0 and `0·f <= 0·g` is 1 on the common domain -/
theorem lt_mul_zero (f g : Stairs P) (cl c' : Side) (hf : f.WF) (hg : g.WF) :
    combine (vrel .lt) (combine vmul (const (some 0) c') f cl) (combine vmul (const (some 0) c') g cl) cl
      = zeroOn (combine vadd f g cl) := by
  unfold zeroOn; g4b_ext x; exact g4b_v_lt_mul_zero _ _
theorem le_mul_zero (f g : Stairs P) (cl c' : Side) (hf : f.WF) (hg : g.WF) :
    combine (vrel .le) (combine vmul (const (some 0) c') f cl) (combine vmul (const (some 0) c') g cl) cl
      = oneOn (combine vadd f g cl) := by
  unfold oneOn; g4b_ext x; exact g4b_v_le_mul_zero _ _
/-- in particular `(k·f < k·g) = (f > g)` for `k < 0` -/
theorem lt_mul_neg (k : Rat) (hk : k < 0) (f g : Stairs P) (cl c' : Side) (hf : f.WF) (hg : g.WF) :
    combine (vrel .lt) (combine vmul (const (some k) c') f cl) (combine vmul (const (some k) c') g cl) cl
      = combine (vrel .gt) f g cl := by
  rw [rel_mul_neg .lt k hk f g cl c' hf hg, gt_swap f g cl hf hg]

/-! ## 5. masking -/

/-- `f.where(g) = f.mask(~g)` – on the whole line, for every masker (companion of C12 `mask_where_duality`) -/
theorem where_eq_mask_invert (f g : Stairs P) (cl : Side) (hf : f.WF) (hg : g.WF) :
    combine whereOp f g cl = combine maskOp f (unop .invert g) cl := by
  g4b_ext x; exact g4b_v_where_mask_invert _ _

/-- masking by the own domain: `f.mask(f == f)`, `f.where(isna f)`, `f.mask(notna f)` are undefined everywhere;
`f.where(f == f)`, `f.mask(isna f)`, `f.where(notna f)` give `f` back -/
theorem mask_eq_self (f : Stairs P) (hf : f.WF) :
    combine maskOp f (combine (vrel .eq) f f f.closed) f.closed = const none f.closed := by
  g4b_ext x; exact g4b_v_mask_eq_self _
theorem where_eq_self (f : Stairs P) (hf : f.WF) :
    combine whereOp f (combine (vrel .eq) f f f.closed) f.closed = f.canon := by
  g4b_ext x; exact g4b_v_where_eq_self _
theorem mask_isna_self (f : Stairs P) (hf : f.WF) :
    combine maskOp f (unop .isna f) f.closed = f.canon := by
  g4b_ext x; exact g4b_v_mask_isna_self _
theorem where_notna_self (f : Stairs P) (hf : f.WF) :
    combine whereOp f (unop .notna f) f.closed = f.canon := by
  g4b_ext x; exact g4b_v_where_notna_self _
theorem where_isna_self (f : Stairs P) (hf : f.WF) :
    combine whereOp f (unop .isna f) f.closed = const none f.closed := by
  g4b_ext x; exact g4b_v_where_isna_self _
theorem mask_notna_self (f : Stairs P) (hf : f.WF) :
    combine maskOp f (unop .notna f) f.closed = const none f.closed := by
  g4b_ext x; exact g4b_v_mask_notna_self _

/-- **`fillna(mask f g, f) = f`** – for *every* masker `g`, not only for everywhere-defined ones -/
theorem fill_mask (f g : Stairs P) (hf : f.WF) (hg : g.WF) :
    combine fillOp (combine maskOp f g f.closed) f f.closed = f.canon := by
  g4b_ext x; exact g4b_v_fill_mask _ _
theorem fill_where (f g : Stairs P) (hf : f.WF) (hg : g.WF) :
    combine fillOp (combine whereOp f g f.closed) f f.closed = f.canon := by
  g4b_ext x; exact g4b_v_fill_where _ _

/-- the masked and the kept part glue back to `f` exactly where the masker is defined -/
theorem fill_mask_where (f g : Stairs P) (cl : Side) (hf : f.WF) (hg : g.WF) :
    combine fillOp (combine maskOp f g cl) (combine whereOp f g cl) cl
      = combine maskOp f (unop .isna g) cl := by
  g4b_ext x; exact g4b_v_fill_mask_where _ _
theorem fill_mask_where_total (f g : Stairs P) (hf : f.WF) (hg : g.WF) (hd : ∀ x, Den g false x ≠ none) :
    combine fillOp (combine maskOp f g f.closed) (combine whereOp f g f.closed) f.closed = f.canon := by
  g4b_ext x; rw [g4b_v_fill_mask_where, g4b_v_mask_isna_defined _ _ (hd x)]

/-- masking twice by the same masker; masking what `where` kept leaves nothing -/
theorem mask_idem (f g : Stairs P) (cl : Side) (hf : f.WF) (hg : g.WF) :
    combine maskOp (combine maskOp f g cl) g cl = combine maskOp f g cl := by
  g4b_ext x; exact g4b_v_mask_idem _ _
theorem where_idem (f g : Stairs P) (cl : Side) (hf : f.WF) (hg : g.WF) :
    combine whereOp (combine whereOp f g cl) g cl = combine whereOp f g cl := by
  g4b_ext x; exact g4b_v_where_idem _ _
theorem where_mask (f g : Stairs P) (cl : Side) (hf : f.WF) (hg : g.WF) :
    combine whereOp (combine maskOp f g cl) g cl = const none cl := by
  g4b_ext x; exact g4b_v_where_mask _ _
theorem mask_where (f g : Stairs P) (cl : Side) (hf : f.WF) (hg : g.WF) :
    combine maskOp (combine whereOp f g cl) g cl = const none cl := by
  g4b_ext x; exact g4b_v_mask_where _ _

/-- a function used as its own masker: `f.where(f) = f.where(f != 0)`, `f.mask(f) = f.where(f == 0)` -/
theorem where_self (f : Stairs P) (c' : Side) (hf : f.WF) :
    combine whereOp f f f.closed
      = combine whereOp f (combine (vrel .ne) f (const (some 0) c') f.closed) f.closed := by
  g4b_ext x; exact g4b_v_where_self _
theorem mask_self (f : Stairs P) (c' : Side) (hf : f.WF) :
    combine maskOp f f f.closed
      = combine whereOp f (combine (vrel .eq) f (const (some 0) c') f.closed) f.closed := by
  g4b_ext x; exact g4b_v_mask_self _


/-! ## 6. the same laws for the checked public operations (operands with equal closed side)

`binop` / `mask` / `where_` / `fillnaStairs` succeed on operands with the same closed side
(`g4b_binop_ok` …) and a scalar operand is the step-free constant (`g4b_binopO_right`), so every law above
is a law about them; the most used ones are spelled out (`do` = sequencing of the `Except` results). -/

theorem api_ne_eq_invert_eq (f g : Stairs P) (hf : f.WF) (hg : g.WF) (hc : f.closed = g.closed) :
    binop (.rel .ne) f g = (binop (.rel .eq) f g).map (unop .invert) := by
  rw [g4b_binop_ok _ f g hc, g4b_binop_ok _ f g hc]
  show Except.ok (combine (vrel .ne) f g f.closed) = Except.ok (unop .invert (combine (vrel .eq) f g f.closed))
  rw [ne_eq_invert_eq f g _ hf hg]

theorem api_le_eq_lt_or_eq (f g : Stairs P) (hf : f.WF) (hg : g.WF) (hc : f.closed = g.closed) :
    binop (.rel .le) f g
      = (do let a ← binop (.rel .lt) f g; let b ← binop (.rel .eq) f g; binop (.logic .or) a b) := by
  rw [g4b_binop_ok (.rel .le) f g hc, g4b_binop_ok (.rel .lt) f g hc, g4b_binop_ok (.rel .eq) f g hc]
  show _ = binop (.logic .or) (combine (vrel .lt) f g f.closed) (combine (vrel .eq) f g f.closed)
  rw [g4b_binop_ok (.logic .or) (combine (vrel .lt) f g f.closed) (combine (vrel .eq) f g f.closed) rfl]
  show Except.ok (combine (vrel .le) f g f.closed) = Except.ok (combine (vlogic .or) _ _ f.closed)
  rw [le_eq_lt_or_eq f g _ hf hg]

theorem api_ge_swap (f g : Stairs P) (hf : f.WF) (hg : g.WF) (hc : f.closed = g.closed) :
    binop (.rel .ge) f g = binop (.rel .le) g f ∧ binop (.rel .gt) f g = binop (.rel .lt) g f := by
  rw [g4b_binop_ok _ f g hc, g4b_binop_ok _ g f hc.symm, g4b_binop_ok _ f g hc, g4b_binop_ok _ g f hc.symm,
      ← hc]
  exact ⟨congrArg Except.ok (ge_swap f g _ hf hg), congrArg Except.ok (gt_swap f g _ hf hg)⟩

theorem api_trichotomy (f g : Stairs P) (hf : f.WF) (hg : g.WF) (hc : f.closed = g.closed) :
    (do let a ← binop (.rel .lt) f g; let b ← binop (.rel .eq) f g; let c ← binop (.rel .gt) f g
        let ab ← binop .add a b; binop .add ab c)
      = (binop .add f g).map oneOn := by
  rw [g4b_binop_ok (.rel .lt) f g hc, g4b_binop_ok (.rel .eq) f g hc, g4b_binop_ok (.rel .gt) f g hc,
      g4b_binop_ok .add f g hc]
  show (do let ab ← binop .add (combine (vrel .lt) f g f.closed) (combine (vrel .eq) f g f.closed)
           binop .add ab (combine (vrel .gt) f g f.closed)) = _
  rw [g4b_binop_ok .add (combine (vrel .lt) f g f.closed) (combine (vrel .eq) f g f.closed) rfl]
  show binop .add (combine vadd (combine (vrel .lt) f g f.closed) (combine (vrel .eq) f g f.closed) f.closed)
      (combine (vrel .gt) f g f.closed) = _
  rw [g4b_binop_ok .add (combine vadd (combine (vrel .lt) f g f.closed) (combine (vrel .eq) f g f.closed) f.closed)
      (combine (vrel .gt) f g f.closed) rfl]
  exact congrArg Except.ok (trichotomy f g _ hf hg)

theorem api_self (f : Stairs P) (hf : f.WF) :
    binop (.rel .lt) f f = .ok (zeroOn f) ∧ binop (.rel .eq) f f = .ok (oneOn f) ∧
    binop (.logic .and) f f = .ok (unop .makeBoolean f) ∧ binop (.logic .or) f f = .ok (unop .makeBoolean f) ∧
    binop (.logic .xor) f f = .ok (zeroOn f) ∧ binop .sub f f = .ok (zeroOn f) ∧
    binop .div f f = where_ (const (some 1) f.closed) f := by
  rw [g4b_where_ok (const (some 1) f.closed) f rfl]
  simp only [g4b_binop_ok _ f f rfl]
  exact ⟨congrArg _ (lt_self f hf), congrArg _ (eq_self f hf), congrArg _ (and_self f hf),
    congrArg _ (or_self f hf), congrArg _ (xor_self f hf), congrArg _ (sub_self_eq f hf),
    congrArg _ (div_self f f.closed hf)⟩

/-- the scalar cases of the task list, on the public scalar path -/
theorem api_scalar (f : Stairs P) (hf : f.WF) :
    binopO (.logic .and) (.st f) (.sc (some 1)) = some (.ok (unop .makeBoolean f)) ∧
    binopO (.logic .or) (.st f) (.sc (some 0)) = some (.ok (unop .makeBoolean f)) ∧
    binopO (.logic .xor) (.st f) (.sc (some 0)) = some (.ok (unop .makeBoolean f)) ∧
    binopO (.logic .xor) (.st f) (.sc (some 1)) = some (.ok (unop .invert f)) ∧
    binopO .add (.st f) (.sc (some 0)) = some (.ok f.canon) ∧
    binopO .mul (.st f) (.sc (some 1)) = some (.ok f.canon) ∧
    binopO .mul (.st f) (.sc (some 0)) = some (.ok (zeroOn f)) := by
  simp only [g4b_binopO_right]
  exact ⟨congrArg _ (congrArg _ (and_true f 1 (by norm_num) _ hf)), congrArg _ (congrArg _ (or_false f _ hf)),
    congrArg _ (congrArg _ (xor_false f _ hf)), congrArg _ (congrArg _ (xor_true f 1 (by norm_num) _ hf)),
    congrArg _ (congrArg _ (add_zero f _ hf)), congrArg _ (congrArg _ (mul_one f _ hf)),
    congrArg _ (congrArg _ (mul_zero f _ hf))⟩

theorem api_sub_eq_add_neg (f g : Stairs P) (hf : f.WF) (hg : g.WF) (hc : f.closed = g.closed) :
    binop .sub f g = binop .add f (unop .neg g) := by
  rw [g4b_binop_ok _ f g hc, g4b_binop_ok _ f (unop .neg g) hc]
  exact congrArg Except.ok (sub_eq_add_neg f g _ hf hg)

theorem api_mul_div_cancel (f g : Stairs P) (hf : f.WF) (hg : g.WF) (hc : f.closed = g.closed) :
    (do let m ← binop .mul f g; binop .div m g) = where_ f g := by
  rw [g4b_binop_ok .mul f g hc, g4b_where_ok f g hc]
  show binop .div (combine vmul f g f.closed) g = _
  rw [g4b_binop_ok .div (combine vmul f g f.closed) g hc]
  exact congrArg Except.ok (mul_div_cancel f g _ hf hg)

theorem api_add_sub_cancel (f g : Stairs P) (hf : f.WF) (hg : g.WF) (hc : f.closed = g.closed) :
    (do let s ← binop .add f g; binop .sub s g) = mask f (unop .isna g) := by
  rw [g4b_binop_ok .add f g hc, g4b_mask_ok f (unop .isna g) hc]
  show binop .sub (combine vadd f g f.closed) g = _
  rw [g4b_binop_ok .sub (combine vadd f g f.closed) g hc]
  exact congrArg Except.ok (add_sub_cancel f g _ hf hg)

theorem api_rel_sub_zero (r : Rel) (f g : Stairs P) (hf : f.WF) (hg : g.WF) (hc : f.closed = g.closed) :
    binop (.rel r) f g = (do let d ← binop .sub f g; binop (.rel r) d (const (some 0) d.closed)) := by
  rw [g4b_binop_ok (.rel r) f g hc, g4b_binop_ok .sub f g hc]
  show _ = binop (.rel r) (combine vsub f g f.closed) (const (some 0) f.closed)
  rw [g4b_binop_ok (.rel r) (combine vsub f g f.closed) (const (some 0) f.closed) rfl]
  exact congrArg Except.ok (rel_sub_zero r f g _ _ hf hg)

theorem api_where_eq_mask_invert (f g : Stairs P) (hf : f.WF) (hg : g.WF) (hc : f.closed = g.closed) :
    where_ f g = mask f (unop .invert g) := by
  rw [g4b_where_ok f g hc, g4b_mask_ok f (unop .invert g) hc]
  exact congrArg Except.ok (where_eq_mask_invert f g _ hf hg)

theorem api_fill_mask (f g : Stairs P) (hf : f.WF) (hg : g.WF) (hc : f.closed = g.closed) :
    (do let m ← mask f g; fillnaStairs m f) = .ok f.canon := by
  rw [g4b_mask_ok f g hc]
  show fillnaStairs (combine maskOp f g f.closed) f = _
  rw [g4b_fillna_ok (combine maskOp f g f.closed) f rfl]
  exact congrArg Except.ok (fill_mask f g hf hg)

theorem api_mask_isna_self (f : Stairs P) (hf : f.WF) :
    mask f (unop .isna f) = .ok f.canon ∧ where_ f (unop .notna f) = .ok f.canon := by
  rw [g4b_mask_ok f (unop .isna f) rfl, g4b_where_ok f (unop .notna f) rfl]
  exact ⟨congrArg Except.ok (mask_isna_self f hf), congrArg Except.ok (where_notna_self f hf)⟩

end laws

/-! ## 7. the "defined everywhere" hypotheses are checkable on the rows -/

/-- every value taken by a one-sided limit is the initial value or one of the row values -/
theorem g4b_lim_pred {V : Type} (Q : V → Prop) (st : Bool) (a : V) (s : List (P × V)) (x : P)
    (ha : Q a) (hs : ∀ pv ∈ s, Q pv.2) : Q (lim st a s x) := by
  induction s generalizing a with
  | nil => exact ha
  | cons pv r ih =>
    obtain ⟨p, v⟩ := pv
    rw [lim_cons]
    split
    · exact ih v (hs (p, v) (by simp)) (fun q hq => hs q (List.mem_cons_of_mem _ hq))
    · exact ha

/-- all values (initial and rows) are defined -/
def Total (f : Stairs P) : Bool := f.init.isSome && f.steps.all fun pv => pv.2.isSome
/-- all values are defined and non-zero -/
def NonZero (f : Stairs P) : Bool :=
  (f.init.isSome && f.init != some 0) && f.steps.all fun pv => pv.2.isSome && pv.2 != some 0

theorem den_ne_none_of_total (f : Stairs P) (h : Total f = true) (st : Bool) (x : P) : Den f st x ≠ none := by
  simp only [Total, Bool.and_eq_true, List.all_eq_true] at h
  refine g4b_lim_pred (fun v => v ≠ none) st f.init f.steps x ?_ ?_
  · intro e; rw [e] at h; simp at h
  · intro pv hpv e; have := h.2 pv hpv; rw [e] at this; simp at this

theorem den_nonzero_of_nonZero (f : Stairs P) (h : NonZero f = true) (st : Bool) (x : P) :
    ∃ q, Den f st x = some q ∧ q ≠ 0 := by
  simp only [NonZero, Bool.and_eq_true, List.all_eq_true, bne_iff_ne] at h
  refine g4b_lim_pred (fun v => ∃ q, v = some q ∧ q ≠ 0) st f.init f.steps x ?_ ?_
  · cases hi : f.init with
    | none => rw [hi] at h; simp at h
    | some q => exact ⟨q, rfl, fun e => h.1.2 (by rw [hi, e])⟩
  · intro pv hpv
    have := h.2 pv hpv
    cases hv : pv.2 with
    | none => rw [hv] at this; simp at this
    | some q => exact ⟨q, rfl, fun e => this.2 (by rw [hv, e])⟩

/-! ## 8. non-vacuity and refutations on concrete inputs

`f₀` has a negative, a zero, an undefined and a fractional piece; `g₀`, `h₀` are undefined on other
intervals; `t₀` is defined and non-zero everywhere; `n₀` is well-formed but not canonical. -/

instance g4b_noMinInt : NoMinOrder Int := ⟨fun a => ⟨a - 1, by omega⟩⟩

def f₀ : Stairs Int := ⟨some (-2), [(1, some 0), (3, none), (5, some (1/2))], .left⟩
def g₀ : Stairs Int := ⟨some 0, [(2, some 7), (4, none), (6, some (1/2))], .left⟩
def h₀ : Stairs Int := ⟨some 3, [(0, none), (2, some (-1))], .left⟩
def t₀ : Stairs Int := ⟨some 4, [(2, some (-1/3)), (7, some 2)], .left⟩
def n₀ : Stairs Int := ⟨some 0, [(1, some 0), (2, some 5)], .left⟩

example : f₀.Canonical ∧ g₀.Canonical ∧ h₀.Canonical ∧ t₀.Canonical ∧ n₀.WF ∧ ¬ n₀.Canonical := by decide +kernel
example : Total t₀ = true ∧ NonZero t₀ = true ∧ Total g₀ = false := by decide +kernel
example : ∀ x, Den t₀ false x ≠ none := fun x => den_ne_none_of_total t₀ (by decide +kernel) false x
example : ∀ x, ∃ q, Den t₀ false x = some q ∧ q ≠ 0 := fun x => den_nonzero_of_nonZero t₀ (by decide +kernel) false x

/-! ### 1. relational -/
example : combine (vrel .ne) f₀ g₀ .left = ⟨some 1, [(1, some 0), (2, some 1), (3, none), (6, some 0)], .left⟩ ∧
    unop .invert (combine (vrel .eq) f₀ g₀ .left) = ⟨some 1, [(1, some 0), (2, some 1), (3, none), (6, some 0)], .left⟩ := by
  decide +kernel
example : combine (vrel .le) f₀ g₀ .left
    = combine (vlogic .or) (combine (vrel .lt) f₀ g₀ .left) (combine (vrel .eq) f₀ g₀ .left) .left := by decide +kernel
example : combine (vrel .ge) f₀ g₀ .left = combine (vrel .le) g₀ f₀ .left ∧
    combine (vrel .gt) f₀ g₀ .left = combine (vrel .lt) g₀ f₀ .left := by decide +kernel
example : combine (vlogic .and) (combine (vrel .lt) f₀ g₀ .left) (combine (vrel .gt) f₀ g₀ .left) .left
    = ⟨some 0, [(3, none), (6, some 0)], .left⟩ := by decide +kernel
/-- the trichotomy sum on the witnesses: 1 on the common domain `(-∞,3) ∪ [6,∞)`, undefined on `[3,6)` -/
example : combine vadd (combine vadd (combine (vrel .lt) f₀ g₀ .left) (combine (vrel .eq) f₀ g₀ .left) .left)
      (combine (vrel .gt) f₀ g₀ .left) .left = ⟨some 1, [(3, none), (6, some 1)], .left⟩ ∧
    oneOn (combine vadd f₀ g₀ .left) = ⟨some 1, [(3, none), (6, some 1)], .left⟩ := by decide +kernel
/-- **refuted**: the trichotomy sum is *not* the constant 1 when an operand has an undefined piece -/
theorem trichotomy_naive_false :
    combine vadd (combine vadd (combine (vrel .lt) f₀ g₀ .left) (combine (vrel .eq) f₀ g₀ .left) .left)
      (combine (vrel .gt) f₀ g₀ .left) .left ≠ const (some 1) .left := by decide +kernel
/-- **refuted**: `f < f` is not the constant 0 and `f == f` not the constant 1 (undefined piece kept) -/
theorem lt_self_naive_false : combine (vrel .lt) f₀ f₀ .left ≠ const (some 0) .left ∧
    combine (vrel .eq) f₀ f₀ .left ≠ const (some 1) .left := by decide +kernel
example : combine (vrel .lt) f₀ f₀ .left = ⟨some 0, [(3, none), (5, some 0)], .left⟩ ∧
    combine (vrel .eq) f₀ f₀ .left = ⟨some 1, [(3, none), (5, some 1)], .left⟩ := by decide +kernel
example : g4b_Trans .lt ∧ g4b_Trans .le ∧ g4b_Trans .eq := by simp [g4b_Trans]
example : combine (vlogic .and)
      (combine (vlogic .and) (combine (vrel .lt) f₀ t₀ .left) (combine (vrel .lt) t₀ g₀ .left) .left)
      (combine (vrel .lt) f₀ g₀ .left) .left
    = combine (vlogic .and) (combine (vrel .lt) f₀ t₀ .left) (combine (vrel .lt) t₀ g₀ .left) .left := by
  decide +kernel

/-! ### 2. logical -/
/-- **refuted**: text-book absorption `f & (f | g) = make_boolean f` fails where `g` is undefined -/
theorem absorb_naive_false :
    combine (vlogic .and) f₀ (combine (vlogic .or) f₀ g₀ .left) .left ≠ unop .makeBoolean f₀ := by decide +kernel
example : combine (vlogic .and) f₀ (combine (vlogic .or) f₀ g₀ .left) .left
      = ⟨some 1, [(1, some 0), (3, none), (6, some 1)], .left⟩ ∧
    unop .makeBoolean f₀ = ⟨some 1, [(1, some 0), (3, none), (5, some 1)], .left⟩ := by decide +kernel
/-- … and holds against the everywhere-defined `t₀` -/
example : combine (vlogic .and) f₀ (combine (vlogic .or) f₀ t₀ .left) .left = unop .makeBoolean f₀ := by
  decide +kernel
/-- **refuted**: idempotence gives `make_boolean f`, not `f`; and `~f` is `1 − make_boolean f`, not `1 − f` -/
theorem and_self_naive_false : combine (vlogic .and) f₀ f₀ .left ≠ f₀ := by decide +kernel
theorem invert_naive_false : unop .invert f₀ ≠ combine vsub (const (some 1) .left) f₀ .left := by decide +kernel
example : combine (vlogic .xor) f₀ g₀ .left
    = combine (vlogic .and) (combine (vlogic .or) f₀ g₀ .left)
        (unop .invert (combine (vlogic .and) f₀ g₀ .left)) .left := by decide +kernel
example : binopO (.logic .xor) (.st f₀) (.sc (some 1)) = some (.ok (unop .invert f₀)) ∧
    binopO (.logic .and) (.st f₀) (.sc (some 1)) = some (.ok (unop .makeBoolean f₀)) := by decide +kernel
example : unop .makeBoolean (combine (vrel .lt) f₀ g₀ .left) = combine (vrel .lt) f₀ g₀ .left := by decide +kernel

/-! ### 3. arithmetic -/
/-- **refuted**: `f + 0 = f` as objects needs a canonical `f` (the result is always in minimal form) -/
theorem add_zero_noncanonical_false : combine vadd n₀ (const (some 0) .left) .left ≠ n₀ := by decide +kernel
example : combine vadd n₀ (const (some 0) .left) .left = n₀.canon ∧ n₀.canon = ⟨some 0, [(2, some 5)], .left⟩ := by
  decide +kernel
example : binopO .add (.st f₀) (.sc (some 0)) = some (.ok f₀) ∧ binopO .mul (.st f₀) (.sc (some 1)) = some (.ok f₀) := by
  decide +kernel
/-- **refuted**: `f * 0` is not the constant 0 -/
theorem mul_zero_naive_false : combine vmul f₀ (const (some 0) .left) .left ≠ const (some 0) .left := by
  decide +kernel
/-- **refuted**: `f / f` is neither the constant 1 nor 1-on-the-domain (it is undefined on f's zeros) -/
theorem div_self_naive_false : combine vdiv f₀ f₀ .left ≠ const (some 1) .left ∧
    combine vdiv f₀ f₀ .left ≠ oneOn f₀ := by decide +kernel
example : combine vdiv f₀ f₀ .left = ⟨some 1, [(1, none), (5, some 1)], .left⟩ := by decide +kernel
/-- **refuted**: `(f * g) / g = f` and `(f + g) − g = f` fail on g's zeros / undefined pieces -/
theorem mul_div_cancel_naive_false : combine vdiv (combine vmul f₀ g₀ .left) g₀ .left ≠ f₀ := by decide +kernel
theorem add_sub_cancel_naive_false : combine vsub (combine vadd f₀ g₀ .left) g₀ .left ≠ f₀ := by decide +kernel
example : combine vdiv (combine vmul f₀ g₀ .left) g₀ .left
      = ⟨none, [(2, some 0), (3, none), (6, some (1/2))], .left⟩ ∧
    combine vsub (combine vadd f₀ g₀ .left) g₀ .left
      = ⟨some (-2), [(1, some 0), (3, none), (6, some (1/2))], .left⟩ := by decide +kernel
/-- … and hold against the everywhere-defined non-zero `t₀` -/
example : combine vdiv (combine vmul f₀ t₀ .left) t₀ .left = f₀ ∧
    combine vsub (combine vadd f₀ t₀ .left) t₀ .left = f₀ := by decide +kernel
example : unop .neg (unop .neg f₀) = f₀ ∧
    combine vsub f₀ g₀ .left = combine vadd f₀ (unop .neg g₀) .left := by decide +kernel

/-! ### 4. relational against arithmetic -/
example : combine (vrel .lt) f₀ g₀ .left
    = combine (vrel .lt) (combine vsub f₀ g₀ .left) (const (some 0) .left) .left := by decide +kernel
/-- **refuted**: `(f + h < g + h) = (f < g)` fails where `h` is undefined -/
theorem rel_add_right_naive_false :
    combine (vrel .lt) (combine vadd f₀ h₀ .left) (combine vadd g₀ h₀ .left) .left
      ≠ combine (vrel .lt) f₀ g₀ .left := by decide +kernel
example : combine (vrel .lt) (combine vadd f₀ h₀ .left) (combine vadd g₀ h₀ .left) .left
      = ⟨some 1, [(0, none), (2, some 1), (3, none), (6, some 0)], .left⟩ ∧
    combine (vrel .lt) f₀ g₀ .left = ⟨some 1, [(1, some 0), (2, some 1), (3, none), (6, some 0)], .left⟩ := by
  decide +kernel
example : combine (vrel .lt) (combine vadd f₀ t₀ .left) (combine vadd g₀ t₀ .left) .left
    = combine (vrel .lt) f₀ g₀ .left := by decide +kernel
example : combine (vrel .lt) (combine vmul (const (some (-3/2)) .left) f₀ .left)
      (combine vmul (const (some (-3/2)) .left) g₀ .left) .left = combine (vrel .gt) f₀ g₀ .left ∧
    combine (vrel .le) (combine vmul (const (some (5/2)) .left) f₀ .left)
      (combine vmul (const (some (5/2)) .left) g₀ .left) .left = combine (vrel .le) f₀ g₀ .left := by
  decide +kernel

/-! ### 5. masking -/
example : combine whereOp f₀ g₀ .left = combine maskOp f₀ (unop .invert g₀) .left := by decide +kernel
example : combine maskOp f₀ (combine (vrel .eq) f₀ f₀ .left) .left = const none .left ∧
    combine maskOp f₀ (unop .isna f₀) .left = f₀ := by decide +kernel
/-- `fillna(mask f g, f) = f` although `g₀` is undefined on `[4,6)` -/
example : combine fillOp (combine maskOp f₀ g₀ .left) f₀ .left = f₀ := by decide +kernel
/-- **refuted**: gluing `mask` and `where` back together does *not* give `f` when the masker has an undefined piece -/
theorem fill_mask_where_naive_false :
    combine fillOp (combine maskOp f₀ g₀ .left) (combine whereOp f₀ g₀ .left) .left ≠ f₀ := by decide +kernel
example : combine fillOp (combine maskOp f₀ t₀ .left) (combine whereOp f₀ t₀ .left) .left = f₀ := by decide +kernel

/-! ### 6. public operations -/
example : f₀.closed = g₀.closed := rfl
example : binop (.rel .ne) f₀ g₀ = (binop (.rel .eq) f₀ g₀).map (unop .invert) := by decide +kernel
example : (do let m ← binop .mul f₀ g₀; binop .div m g₀) = where_ f₀ g₀ := by decide +kernel
example : (do let m ← mask f₀ g₀; fillnaStairs m f₀) = .ok f₀ := by decide +kernel

end SC.Props.C04b
