import SCModel.Lemmas.Window
/-!
# C10 — `values_in_range`, `min`, `max` over a window

"values_in_range(where, closed) is exactly the set of values the function takes at defined points of the
interval `where` with the requested endpoint closedness ('left', 'right', 'both', 'neither'), the value at
an endpoint being the one given by the function's own closed convention; min, max and
agg('min'/'max', where, closed) are the least and greatest element of that set.  Without a window the two
unbounded pieces are included."

The domain is ℚ (dense, unbounded).  `f.sample x` is the value *at* `x` under f's own closed convention.
`min`, `max`, `agg('min')`, `agg('max')` all run through `minIn` / `maxIn` (see `Driver.lean`).
-/
set_option linter.unusedSectionVars false
namespace SC.Props.C10
open SC SC.Stairs

/-! ## the specification: membership of the interval -/

/-- `x` lies in the interval from `lo` to `hi` (`none` = unbounded) with endpoint closedness `c` -/
abbrev inInterval (c : IClosed) (lo hi : Option Rat) (x : Rat) : Prop := Stairs.inInterval c lo hi x

theorem inInterval_left (a b x : Rat) : inInterval .left (some a) (some b) x ↔ a ≤ x ∧ x < b := by
  simp [inInterval, Stairs.inInterval, loStrict, hiStrict]
theorem inInterval_right (a b x : Rat) : inInterval .right (some a) (some b) x ↔ a < x ∧ x ≤ b := by
  simp [inInterval, Stairs.inInterval, loStrict, hiStrict]
theorem inInterval_both (a b x : Rat) : inInterval .both (some a) (some b) x ↔ a ≤ x ∧ x ≤ b := by
  simp [inInterval, Stairs.inInterval, loStrict, hiStrict]
theorem inInterval_neither (a b x : Rat) : inInterval .neither (some a) (some b) x ↔ a < x ∧ x < b := by
  simp [inInterval, Stairs.inInterval, loStrict, hiStrict]
/-- a missing bound does not restrict -/
theorem inInterval_unbounded (c : IClosed) (x : Rat) : inInterval c none none x := by
  simp [inInterval, Stairs.inInterval]
theorem inInterval_lower_only (c : IClosed) (a x : Rat) :
    inInterval c (some a) none x ↔ if loStrict c then a < x else a ≤ x := by
  simp [inInterval, Stairs.inInterval]
theorem inInterval_upper_only (c : IClosed) (b x : Rat) :
    inInterval c none (some b) x ↔ if hiStrict c then x < b else x ≤ b := by
  simp [inInterval, Stairs.inInterval]

/-- the value at `x`: the right limit for a left-closed function, the left limit for a right-closed one -/
theorem sample_left_closed (f : Stairs Rat) (h : f.closed = .left) (x : Rat) : f.sample x = f.limit .right x := by
  unfold sample sampleSide; rw [h]
theorem sample_right_closed (f : Stairs Rat) (h : f.closed = .right) (x : Rat) : f.sample x = f.limit .left x := by
  unfold sample sampleSide; rw [h]

/-! ## 1. `values_in_range` is exactly the set of values taken at defined points of the interval -/

/-- **Main theorem** — all 8 rows of `getLims` (function side × interval closedness), all `lo < hi`
including missing bounds. -/
theorem values_in_range_spec (f : Stairs Rat) (hf : f.WF) (lo hi : Option Rat) (c : IClosed)
    (hb : boundsOk lo hi = true) (v : Rat) :
    v ∈ valuesInRange f lo hi c ↔ ∃ x, inInterval c lo hi x ∧ f.sample x = some v :=
  mem_valuesInRange f hf lo hi c hb v

/-- the result is strictly increasing (sorted, no duplicates) -/
theorem values_in_range_sorted (f : Stairs Rat) (lo hi : Option Rat) (c : IClosed) :
    (valuesInRange f lo hi c).Pairwise (· < ·) := by
  rw [valuesInRange_eq]; exact sorted_uniqueDefined _

/-- **no window**: every value the function takes anywhere, the two unbounded pieces included -/
theorem values_in_range_no_window (f : Stairs Rat) (hf : f.WF) (c : IClosed) (v : Rat) :
    v ∈ valuesInRange f none none c ↔ ∃ x, f.sample x = some v := by
  rw [values_in_range_spec f hf none none c rfl]
  simp [inInterval, Stairs.inInterval]

/-- in particular the initial value (the piece towards −∞) and the last value (the piece towards +∞) -/
theorem init_mem_no_window (f : Stairs Rat) (c : IClosed) (v : Rat) (h : f.init = some v) :
    v ∈ valuesInRange f none none c := by
  rw [valuesInRange_eq, mem_uniqueDefined, mem_take_drop, bisect_lower, bisect_upper]
  exact ⟨0, by rw [cnt_qLow_none], Nat.zero_le _, by simp [h]⟩

theorem last_mem_no_window (f : Stairs Rat) (c : IClosed) (v : Rat)
    (h : (f.init :: f.steps.map Prod.snd).getLast? = some (some v)) :
    v ∈ valuesInRange f none none c := by
  rw [valuesInRange_eq, mem_uniqueDefined, mem_take_drop, bisect_lower, bisect_upper]
  refine ⟨f.idx.length, by rw [cnt_qLow_none]; exact Nat.zero_le _, by rw [cnt_qUp_none], ?_⟩
  rw [List.getLast?_eq_getElem?] at h
  simpa [idx] using h

/-- the four closedness options for a bounded window, spelled out -/
theorem values_in_range_bounded (f : Stairs Rat) (hf : f.WF) (a b : Rat) (hab : a < b) (v : Rat) :
    (v ∈ valuesInRange f (some a) (some b) .left ↔ ∃ x, (a ≤ x ∧ x < b) ∧ f.sample x = some v) ∧
    (v ∈ valuesInRange f (some a) (some b) .right ↔ ∃ x, (a < x ∧ x ≤ b) ∧ f.sample x = some v) ∧
    (v ∈ valuesInRange f (some a) (some b) .both ↔ ∃ x, (a ≤ x ∧ x ≤ b) ∧ f.sample x = some v) ∧
    (v ∈ valuesInRange f (some a) (some b) .neither ↔ ∃ x, (a < x ∧ x < b) ∧ f.sample x = some v) := by
  have hb : boundsOk (some a) (some b) = true := by simp [boundsOk, hab]
  refine ⟨?_, ?_, ?_, ?_⟩
  · rw [values_in_range_spec f hf _ _ _ hb]; simp only [inInterval_left]
  · rw [values_in_range_spec f hf _ _ _ hb]; simp only [inInterval_right]
  · rw [values_in_range_spec f hf _ _ _ hb]; simp only [inInterval_both]
  · rw [values_in_range_spec f hf _ _ _ hb]; simp only [inInterval_neither]

/-- the eight rows one by one (left-closed function: value at `x` = right limit) -/
theorem vir_left_left (f : Stairs Rat) (hf : f.WF) (hc : f.closed = .left) (a b : Rat) (hab : a < b) (v : Rat) :
    v ∈ valuesInRange f (some a) (some b) .left ↔ ∃ x, a ≤ x ∧ x < b ∧ f.limit .right x = some v := by
  rw [(values_in_range_bounded f hf a b hab v).1]; simp only [sample_left_closed f hc, and_assoc]
theorem vir_left_right (f : Stairs Rat) (hf : f.WF) (hc : f.closed = .left) (a b : Rat) (hab : a < b) (v : Rat) :
    v ∈ valuesInRange f (some a) (some b) .right ↔ ∃ x, a < x ∧ x ≤ b ∧ f.limit .right x = some v := by
  rw [(values_in_range_bounded f hf a b hab v).2.1]; simp only [sample_left_closed f hc, and_assoc]
theorem vir_left_both (f : Stairs Rat) (hf : f.WF) (hc : f.closed = .left) (a b : Rat) (hab : a < b) (v : Rat) :
    v ∈ valuesInRange f (some a) (some b) .both ↔ ∃ x, a ≤ x ∧ x ≤ b ∧ f.limit .right x = some v := by
  rw [(values_in_range_bounded f hf a b hab v).2.2.1]; simp only [sample_left_closed f hc, and_assoc]
theorem vir_left_neither (f : Stairs Rat) (hf : f.WF) (hc : f.closed = .left) (a b : Rat) (hab : a < b) (v : Rat) :
    v ∈ valuesInRange f (some a) (some b) .neither ↔ ∃ x, a < x ∧ x < b ∧ f.limit .right x = some v := by
  rw [(values_in_range_bounded f hf a b hab v).2.2.2]; simp only [sample_left_closed f hc, and_assoc]
/-- (right-closed function: value at `x` = left limit) -/
theorem vir_right_left (f : Stairs Rat) (hf : f.WF) (hc : f.closed = .right) (a b : Rat) (hab : a < b) (v : Rat) :
    v ∈ valuesInRange f (some a) (some b) .left ↔ ∃ x, a ≤ x ∧ x < b ∧ f.limit .left x = some v := by
  rw [(values_in_range_bounded f hf a b hab v).1]; simp only [sample_right_closed f hc, and_assoc]
theorem vir_right_right (f : Stairs Rat) (hf : f.WF) (hc : f.closed = .right) (a b : Rat) (hab : a < b) (v : Rat) :
    v ∈ valuesInRange f (some a) (some b) .right ↔ ∃ x, a < x ∧ x ≤ b ∧ f.limit .left x = some v := by
  rw [(values_in_range_bounded f hf a b hab v).2.1]; simp only [sample_right_closed f hc, and_assoc]
theorem vir_right_both (f : Stairs Rat) (hf : f.WF) (hc : f.closed = .right) (a b : Rat) (hab : a < b) (v : Rat) :
    v ∈ valuesInRange f (some a) (some b) .both ↔ ∃ x, a ≤ x ∧ x ≤ b ∧ f.limit .left x = some v := by
  rw [(values_in_range_bounded f hf a b hab v).2.2.1]; simp only [sample_right_closed f hc, and_assoc]
theorem vir_right_neither (f : Stairs Rat) (hf : f.WF) (hc : f.closed = .right) (a b : Rat) (hab : a < b) (v : Rat) :
    v ∈ valuesInRange f (some a) (some b) .neither ↔ ∃ x, a < x ∧ x < b ∧ f.limit .left x = some v := by
  rw [(values_in_range_bounded f hf a b hab v).2.2.2]; simp only [sample_right_closed f hc, and_assoc]

/-! ### the ingredients: what `bisect` counts, what `uniqueDefined` keeps -/

/-- `bisect_left` = number of points `< x`, `bisect_right` = number of points `≤ x` -/
theorem bisect_left_counts (idx : List Rat) (x : Rat) (u : Bool) :
    bisect .left idx (some x) u = (idx.filter fun p => decide (p < x)).length := rfl
theorem bisect_right_counts (idx : List Rat) (x : Rat) (u : Bool) :
    bisect .right idx (some x) u = (idx.filter fun p => decide (p ≤ x)).length := rfl
/-- the −∞ / +∞ sentinels -/
theorem bisect_sentinels (side : Side) (idx : List Rat) :
    bisect side idx none false = 0 ∧ bisect side idx none true = idx.length := ⟨rfl, rfl⟩

/-- on a strictly increasing index the points `< x` (resp. `≤ x`) are exactly the first `bisect` ones -/
theorem bisect_left_spec (idx : List Rat) (hs : idx.Pairwise (· < ·)) (x : Rat) (u : Bool) (i : Nat)
    (hi : i < idx.length) : idx[i] < x ↔ i < bisect .left idx (some x) u := by
  have := cnt_spec (qLow .left (some x)) (downClosed_qLow _ _) idx hs i hi
  have e : (qLow .left (some x) idx[i] = true) = (idx[i] < x) := by simp [qLow]
  rw [e] at this; exact this
theorem bisect_right_spec (idx : List Rat) (hs : idx.Pairwise (· < ·)) (x : Rat) (u : Bool) (i : Nat)
    (hi : i < idx.length) : idx[i] ≤ x ↔ i < bisect .right idx (some x) u := by
  have := cnt_spec (qLow .right (some x)) (downClosed_qLow _ _) idx hs i hi
  have e : (qLow .right (some x) idx[i] = true) = (idx[i] ≤ x) := by simp [qLow]
  rw [e] at this; exact this

theorem unique_defined_mem (vs : List Val) (v : Rat) : v ∈ uniqueDefined vs ↔ some v ∈ vs := mem_uniqueDefined vs v
theorem unique_defined_sorted (vs : List Val) : (uniqueDefined vs).Pairwise (· < ·) := sorted_uniqueDefined vs

/-! ## 2. `min` / `max` (and `agg('min')`, `agg('max')`) are the least / greatest element of that set -/

theorem list_min_spec (l : List Rat) :
    (listMin l = none ↔ l = []) ∧ ∀ m, listMin l = some m ↔ m ∈ l ∧ ∀ y ∈ l, m ≤ y :=
  ⟨listMin_eq_none l, listMin_eq_some_iff l⟩
theorem list_max_spec (l : List Rat) :
    (listMax l = none ↔ l = []) ∧ ∀ m, listMax l = some m ↔ m ∈ l ∧ ∀ y ∈ l, y ≤ m :=
  ⟨listMax_eq_none l, listMax_eq_some_iff l⟩

theorem min_is_least_of_values (f : Stairs Rat) (lo hi : Option Rat) (c : IClosed) (m : Rat) :
    minIn f lo hi c = some m ↔ m ∈ valuesInRange f lo hi c ∧ ∀ y ∈ valuesInRange f lo hi c, m ≤ y :=
  listMin_eq_some_iff _ m
theorem max_is_greatest_of_values (f : Stairs Rat) (lo hi : Option Rat) (c : IClosed) (m : Rat) :
    maxIn f lo hi c = some m ↔ m ∈ valuesInRange f lo hi c ∧ ∀ y ∈ valuesInRange f lo hi c, y ≤ m :=
  listMax_eq_some_iff _ m

/-- **min**: attained at a defined point of the interval and ≤ the value at every defined point of it -/
theorem min_spec (f : Stairs Rat) (hf : f.WF) (lo hi : Option Rat) (c : IClosed) (hb : boundsOk lo hi = true) (m : Rat) :
    minIn f lo hi c = some m ↔
      (∃ x, inInterval c lo hi x ∧ f.sample x = some m) ∧
      ∀ x w, inInterval c lo hi x → f.sample x = some w → m ≤ w := by
  rw [min_is_least_of_values, values_in_range_spec f hf lo hi c hb]
  constructor
  · rintro ⟨h1, h2⟩
    exact ⟨h1, fun x w hx hw => h2 w ((values_in_range_spec f hf lo hi c hb w).mpr ⟨x, hx, hw⟩)⟩
  · rintro ⟨h1, h2⟩
    refine ⟨h1, fun y hy => ?_⟩
    obtain ⟨x, hx, hw⟩ := (values_in_range_spec f hf lo hi c hb y).mp hy
    exact h2 x y hx hw

/-- **max** -/
theorem max_spec (f : Stairs Rat) (hf : f.WF) (lo hi : Option Rat) (c : IClosed) (hb : boundsOk lo hi = true) (m : Rat) :
    maxIn f lo hi c = some m ↔
      (∃ x, inInterval c lo hi x ∧ f.sample x = some m) ∧
      ∀ x w, inInterval c lo hi x → f.sample x = some w → w ≤ m := by
  rw [max_is_greatest_of_values, values_in_range_spec f hf lo hi c hb]
  constructor
  · rintro ⟨h1, h2⟩
    exact ⟨h1, fun x w hx hw => h2 w ((values_in_range_spec f hf lo hi c hb w).mpr ⟨x, hx, hw⟩)⟩
  · rintro ⟨h1, h2⟩
    refine ⟨h1, fun y hy => ?_⟩
    obtain ⟨x, hx, hw⟩ := (values_in_range_spec f hf lo hi c hb y).mp hy
    exact h2 x y hx hw

/-- min / max are undefined exactly when the function is undefined on the whole interval -/
theorem min_max_undefined_iff (f : Stairs Rat) (hf : f.WF) (lo hi : Option Rat) (c : IClosed) (hb : boundsOk lo hi = true) :
    (minIn f lo hi c = none ↔ ∀ x, inInterval c lo hi x → f.sample x = none) ∧
    (maxIn f lo hi c = none ↔ ∀ x, inInterval c lo hi x → f.sample x = none) := by
  have key : valuesInRange f lo hi c = [] ↔ ∀ x, inInterval c lo hi x → f.sample x = none := by
    rw [List.eq_nil_iff_forall_not_mem]
    constructor
    · intro h x hx
      cases hv : f.sample x with
      | none => rfl
      | some v => exact absurd ((values_in_range_spec f hf lo hi c hb v).mpr ⟨x, hx, hv⟩) (h v)
    · intro h v hv
      obtain ⟨x, hx, hs⟩ := (values_in_range_spec f hf lo hi c hb v).mp hv
      rw [h x hx] at hs; cases hs
  exact ⟨(listMin_eq_none _).trans key, (listMax_eq_none _).trans key⟩

/-- the same, packaged: `minIn` / `maxIn` is *the* least / greatest element (`none` iff there is none) -/
theorem min_isLeast (f : Stairs Rat) (hf : f.WF) (lo hi : Option Rat) (c : IClosed) (hb : boundsOk lo hi = true) :
    IsLeastVal (ValuesOn f c lo hi) (minIn f lo hi c) := minIn_isLeast f hf lo hi c hb
theorem max_isGreatest (f : Stairs Rat) (hf : f.WF) (lo hi : Option Rat) (c : IClosed) (hb : boundsOk lo hi = true) :
    IsGreatestVal (ValuesOn f c lo hi) (maxIn f lo hi c) := maxIn_isGreatest f hf lo hi c hb

/-- min ≤ max whenever they exist -/
theorem min_le_max (f : Stairs Rat) (lo hi : Option Rat) (c : IClosed) (m M : Rat)
    (hm : minIn f lo hi c = some m) (hM : maxIn f lo hi c = some M) : m ≤ M :=
  ((min_is_least_of_values f lo hi c m).mp hm).2 M ((max_is_greatest_of_values f lo hi c M).mp hM).1

/-! ## 3. the `getLims` table (`util._get_lims`) -/

theorem getLims_left_both : getLims .left .both = (.right, .right) := rfl
theorem getLims_left_left : getLims .left .left = (.right, .left) := rfl
theorem getLims_left_right : getLims .left .right = (.right, .right) := rfl
theorem getLims_left_neither : getLims .left .neither = (.right, .left) := rfl
theorem getLims_right_both : getLims .right .both = (.left, .left) := rfl
theorem getLims_right_left : getLims .right .left = (.left, .left) := rfl
theorem getLims_right_right : getLims .right .right = (.right, .left) := rfl
theorem getLims_right_neither : getLims .right .neither = (.right, .left) := rfl

/-- the table as one list, for comparison with a generated table -/
theorem getLims_table :
    [Side.left, Side.right].flatMap (fun cl =>
      [IClosed.both, IClosed.left, IClosed.right, IClosed.neither].map fun c => (cl, c, getLims cl c)) =
    [(.left, .both, .right, .right), (.left, .left, .right, .left),
     (.left, .right, .right, .right), (.left, .neither, .right, .left),
     (.right, .both, .left, .left), (.right, .left, .left, .left),
     (.right, .right, .right, .left), (.right, .neither, .right, .left)] := by decide

/-- the table in words: the lower bisect is `left` (count points `< lo`) exactly when the function is
right-closed and the interval contains `lo`; the upper bisect is `right` (count points `≤ hi`) exactly when
the function is left-closed and the interval contains `hi` -/
theorem getLims_rule (cl : Side) (c : IClosed) :
    ((getLims cl c).1 = .left ↔ cl = .right ∧ loStrict c = false) ∧
    ((getLims cl c).2 = .right ↔ cl = .left ∧ hiStrict c = false) := by
  cases cl <;> cases c <;> decide

/-! ## 4. non-vacuity: a window endpoint exactly on a step point, both closed conventions -/

def fL : Stairs Rat := ⟨some 1, [(2, some 3), (4, none), (6, some 5), (8, some 2)], .left⟩
def fR : Stairs Rat := ⟨some 1, [(2, some 3), (4, none), (6, some 5), (8, some 2)], .right⟩

example : fL.WF ∧ fR.WF := by decide +kernel
-- left-closed: pieces (-∞,2)↦1, [2,4)↦3, [4,6)↦NaN, [6,8)↦5, [8,∞)↦2
example : valuesInRange fL (some 2) (some 6) .both = [3, 5] := by decide +kernel
example : valuesInRange fL (some 2) (some 6) .left = [3] := by decide +kernel
example : valuesInRange fL (some 2) (some 6) .right = [3, 5] := by decide +kernel
example : valuesInRange fL (some 2) (some 6) .neither = [3] := by decide +kernel
example : valuesInRange fL (some 1) (some 2) .left = [1] := by decide +kernel
example : valuesInRange fL (some 1) (some 2) .both = [1, 3] := by decide +kernel
-- right-closed: pieces (-∞,2]↦1, (2,4]↦3, (4,6]↦NaN, (6,8]↦5, (8,∞)↦2
example : valuesInRange fR (some 2) (some 6) .both = [1, 3] := by decide +kernel
example : valuesInRange fR (some 2) (some 6) .left = [1, 3] := by decide +kernel
example : valuesInRange fR (some 2) (some 6) .right = [3] := by decide +kernel
example : valuesInRange fR (some 2) (some 6) .neither = [3] := by decide +kernel
example : valuesInRange fR (some 6) (some 8) .both = [5] := by decide +kernel
example : valuesInRange fR (some 6) (some 9) .left = [2, 5] := by decide +kernel
-- no window: both unbounded pieces included, NaN dropped, sorted and de-duplicated
example : valuesInRange fL none none .left = [1, 2, 3, 5] := by decide +kernel
example : valuesInRange fR none none .right = [1, 2, 3, 5] := by decide +kernel
-- half-bounded windows
example : valuesInRange fL (some 8) none .right = [2] := by decide +kernel
example : valuesInRange fR none (some 2) .both = [1] := by decide +kernel
example : valuesInRange fR none (some 2) .left = [1] := by decide +kernel
-- min / max; a window on which the function is undefined has neither
example : minIn fL (some 2) (some 6) .both = some 3 ∧ maxIn fL (some 2) (some 6) .both = some 5 := by decide +kernel
example : minIn fR (some 2) (some 6) .both = some 1 ∧ maxIn fR (some 2) (some 6) .both = some 3 := by decide +kernel
example : minIn fL (some 4) (some 6) .left = none ∧ maxIn fR (some 4) (some 6) .right = none := by decide +kernel
example : minIn fL none none .left = some 1 ∧ maxIn fL none none .left = some 5 := by decide +kernel
-- the witnesses demanded by the specification exist, e.g. 5 = fL(6) with 6 ∈ [2,6], and 1 = fR(2) with 2 ∈ [2,6]
example : inInterval .both (some 2) (some 6) 6 ∧ fL.sample 6 = some 5 := by
  refine ⟨by simp [inInterval, Stairs.inInterval, loStrict, hiStrict]; decide +kernel, by decide +kernel⟩
example : fR.sample 2 = some 1 ∧ fL.sample 2 = some 3 := by decide +kernel

end SC.Props.C10
