import SCModel.Props.C14
/-!
# C13 — Only layer mutates: operands are never changed and results never alias them

In the object model every public operation other than `layer` *appends* a fresh object and touches nothing
else; `layer i` replaces object `i` only; a query keeps every function (it may fill its receiver's caches,
C14).  Hence operands denote the same function with the same closed side after any operation, and layering
onto a result / operand changes no other object.  That the real library's pandas calls copy rather than alias
is the assumption this model encodes; it is what the write-after-operation histories of the correspondence
check validate.
-/
namespace SC.Props.C13
open SC SC.Stairs

/-- the operation is a mutation of object `i` -/
def isLayerOn (op : WOp) (i : Nat) : Prop := ∃ ts, op = .layer i ts

theorem step_layer (w : World) (i : Nat) (ts : List (Triple Rat)) :
    w.step (.layer i ts) = w.modify i (·.layer ts) := rfl
theorem step_query (w : World) (i : Nat) (q : Query) :
    w.step (.query i q) = w.modify i (fun o => (o.query q).1) := rfl

/-- a creating operation either appends one fresh object or (on an error / bad index) changes nothing -/
theorem step_creating (w : World) (op : WOp) (h1 : ∀ i ts, op ≠ .layer i ts) (h2 : ∀ i q, op ≠ .query i q) :
    (∃ r, w.compute op = some (.ok r) ∧ w.step op = w ++ [Obj.fresh r]) ∨ w.step op = w := by
  cases op with
  | layer i ts => exact absurd rfl (h1 i ts)
  | query i q => exact absurd rfl (h2 i q)
  | _ =>
    simp only [World.step]
    split
    · rename_i r hr; exact Or.inl ⟨r, hr, rfl⟩
    · exact Or.inr rfl

/-- **no operation ever removes or reorders objects** -/
theorem step_length_le (w : World) (op : WOp) : w.length ≤ (w.step op).length := by
  cases op with
  | layer i ts => simp [World.step]
  | query i q => simp [World.step]
  | _ =>
    simp only [World.step]
    split <;> simp

/-- **every operation other than `layer` leaves every existing object's function and closed side
unchanged** (a query may fill caches of its receiver, nothing more) -/
theorem nonlayer_keeps_functions (w : World) (op : WOp) (h : ∀ i ts, op ≠ .layer i ts) (k : Nat) (hk : k < w.length) :
    ((w.step op)[k]?).map (·.f) = (w[k]?).map (·.f) := by
  cases op with
  | layer i ts => exact absurd rfl (h i ts)
  | query i q =>
    simp only [World.step, List.getElem?_modify]
    by_cases hik : i = k
    · subst hik
      cases hw : w[i]? with
      | none => simp
      | some o =>
        simp only [if_true, Option.map_some]
        simp [C14.query_keeps_function]
    · simp [hik]
  | _ =>
    simp only [World.step]
    split
    · rw [List.getElem?_append_left hk]
    · rfl

/-- existing objects are not even touched by creating operations -/
theorem creating_keeps_objects (w : World) (op : WOp) (h1 : ∀ i ts, op ≠ .layer i ts) (h2 : ∀ i q, op ≠ .query i q)
    (k : Nat) (hk : k < w.length) : (w.step op)[k]? = w[k]? := by
  rcases step_creating w op h1 h2 with ⟨r, _, hs⟩ | hs
  · rw [hs, List.getElem?_append_left hk]
  · rw [hs]

/-- **results are fresh**: the object a creating operation returns is a new one, with empty caches, placed
after all existing objects – it shares nothing with its operands -/
theorem result_is_fresh (w : World) (op : WOp) (r : Stairs Rat) (h1 : ∀ i ts, op ≠ .layer i ts)
    (h2 : ∀ i q, op ≠ .query i q) (hc : w.compute op = some (.ok r)) :
    w.step op = w ++ [Obj.fresh r] ∧ (w.step op)[w.length]? = some (Obj.fresh r) := by
  rcases step_creating w op h1 h2 with ⟨r', hr', hs⟩ | hs
  · rw [hc] at hr'; injection hr' with hr'; injection hr' with hr'; subst hr'
    exact ⟨hs, by rw [hs]; simp⟩
  · cases op <;> simp_all [World.step]

/-- **`layer` changes its receiver and nothing else**: layering onto a result never changes an operand or a
sibling result, layering onto an operand never changes an earlier result -/
theorem layer_only_changes_receiver (w : World) (i : Nat) (ts : List (Triple Rat)) (k : Nat) (hk : k ≠ i) :
    (w.step (.layer i ts))[k]? = w[k]? := by
  simp [World.step, List.getElem?_modify, Ne.symm hk]

theorem layer_changes_receiver_as_specified (w : World) (i : Nat) (ts : List (Triple Rat)) :
    ((w.step (.layer i ts))[i]?).map (·.f) = (w[i]?).map (fun o => C14.layerF o.f ts) := by
  simp only [World.step, List.getElem?_modify, if_true]
  cases w[i]? with
  | none => rfl
  | some o => simp [C14.layer_f]

/-- **histories**: after any sequence of operations, an object that was never the receiver of a `layer`
call still denotes the function (and closed side) it had when it was created -/
theorem untouched_object_is_unchanged (w : World) (ops : List WOp) (k : Nat) (hk : k < w.length)
    (h : ∀ op ∈ ops, ∀ ts, op ≠ .layer k ts) :
    ((w.run ops)[k]?).map (·.f) = (w[k]?).map (·.f) := by
  induction ops generalizing w with
  | nil => rfl
  | cons op r ih =>
    simp only [World.run, List.foldl_cons]
    have hlen : k < (w.step op).length := Nat.lt_of_lt_of_le hk (step_length_le w op)
    have := ih (w.step op) hlen (fun o ho => h o (List.mem_cons_of_mem _ ho))
    simp only [World.run] at this
    rw [this]
    by_cases hl : ∃ i ts, op = .layer i ts
    · obtain ⟨i, ts, hop⟩ := hl
      subst hop
      have hik : k ≠ i := fun hki => h (.layer i ts) (by simp) ts (by rw [hki])
      rw [layer_only_changes_receiver w i ts k hik]
    · exact nonlayer_keeps_functions w op (fun i ts hop => hl ⟨i, ts, hop⟩) k hk

/-! non-vacuity: operate, then layer onto the result and onto an operand -/
def a₀ : Stairs Rat := ⟨some 0, [(1, some 2), (3, some 0)], .left⟩
def b₀ : Stairs Rat := ⟨some 1, [(2, none)], .left⟩
def w₀ : World := [Obj.fresh a₀, Obj.fresh b₀]
example : ((w₀.run [.bin .add 0 1, .clip 0 none none, .layer 2 [⟨some 0, some 5, 7⟩], .layer 0 [⟨none, none, 1⟩],
                    .query 1 .mean]).map (·.f))
    = [⟨some 1, [(1, some 3), (3, some 1)], .left⟩, b₀,
       ⟨some 1, [(0, some 8), (1, some 10), (2, none)], .left⟩, a₀] := by decide +kernel

end SC.Props.C13
