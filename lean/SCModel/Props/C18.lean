import SCModel.Lemmas.Agg
import SCModel.Props.C12
import Mathlib.Data.Int.Order.Basic
/-!
# C18 — Collection aggregations are pointwise; `sum` equals folding `+`

For a collection `ms` of step functions, `aggregate F ms` (F ∈ sum, mean, median, min, max, logical_or,
logical_and) returns the canonical step function whose value at each point is `F` of the members' values
there, undefined where any member is undefined.  `Den h st x` is the one-sided limit (`st = true`: left).
-/
set_option linter.unusedSectionVars false
namespace SC.Props.C18
open SC SC.Stairs
variable {P : Type} [LinearOrder P]

/-! ## the common index -/

/-- the union of the members' step points contains exactly the members' points … -/
theorem mem_unionAll (ls : List (List P)) (z : P) : z ∈ unionAll ls ↔ ∃ l ∈ ls, z ∈ l :=
  Stairs.mem_unionAll ls z
/-- … and is strictly increasing -/
theorem pairwise_unionAll (ls : List (List P)) (h : ∀ l ∈ ls, l.Pairwise (· < ·)) :
    (unionAll ls).Pairwise (· < ·) := Stairs.pairwise_unionAll ls h

theorem member_points_in_union (ms : List (Stairs P)) (m : Stairs P) (hm : m ∈ ms) (q : P) (hq : q ∈ m.idx) :
    q ∈ unionAll (ms.map (·.idx)) := mem_unionAll_of_member ms m hm q hq

/-! ## C18: the aggregate is pointwise -/

/-- **C18.** value of the aggregate at `x` = the reduction of the members' values at `x` (both limits);
the result is canonical -/
theorem den_aggregate (F : AggFn) (ms : List (Stairs P)) (h : Stairs P) (hms : ∀ m ∈ ms, m.WF)
    (hr : aggregate F ms = .ok h) :
    h.Canonical ∧ ∀ st x, Den h st x = F.eval (ms.map fun m => Den m st x) :=
  Stairs.den_aggregate F ms h hms hr

/-- members sharing a closed side always aggregate, with that side -/
theorem aggregate_total (F : AggFn) (ms : List (Stairs P)) (cl : Side) (hne : ms ≠ [])
    (h : ∀ m ∈ ms, m.closed = cl) : ∃ r, aggregate F ms = .ok r ∧ r.closed = cl :=
  ⟨_, aggregate_same_closed F ms cl hne h, rfl⟩

/-- **domain**: undefined exactly where some member is undefined -/
theorem aggregate_undefined_iff (F : AggFn) (ms : List (Stairs P)) (h : Stairs P) (hms : ∀ m ∈ ms, m.WF)
    (hne : ms ≠ []) (hr : aggregate F ms = .ok h) (st : Bool) (x : P) :
    Den h st x = none ↔ ∃ m ∈ ms, Den m st x = none := by
  rw [(den_aggregate F ms h hms hr).2 st x, eval_none_iff F _ (by simpa using hne)]
  simp only [List.mem_map]

/-- where every member is defined, with values `vals`, the aggregate is the reduction of `vals` -/
theorem aggregate_defined (F : AggFn) (ms : List (Stairs P)) (h : Stairs P) (hms : ∀ m ∈ ms, m.WF)
    (hr : aggregate F ms = .ok h) (st : Bool) (x : P) (vals : List Rat)
    (hv : ms.map (fun m => Den m st x) = vals.map some) :
    Den h st x = F.eval (vals.map some) := by
  rw [(den_aggregate F ms h hms hr).2 st x, hv]

/-! ## the reductions at one point -/

/-- undefined iff some member value is undefined (non-empty collections) -/
theorem eval_undefined_iff (F : AggFn) (vs : List Val) (hne : vs ≠ []) : F.eval vs = none ↔ none ∈ vs :=
  eval_none_iff F vs hne

/-- the aggregate of no values: 0 for sum, undefined for mean / median / min / max -/
theorem eval_empty :
    AggFn.sum.eval [] = some 0 ∧ AggFn.mean.eval [] = none ∧ AggFn.median.eval [] = none ∧
    AggFn.min.eval [] = none ∧ AggFn.max.eval [] = none ∧
    AggFn.logicalOr.eval [] = some 0 ∧ AggFn.logicalAnd.eval [] = some 1 := eval_nil

theorem eval_sum (xs : List Rat) : AggFn.sum.eval (xs.map some) = some xs.sum := eval_map_some .sum xs

theorem eval_mean (xs : List Rat) (hne : xs ≠ []) :
    AggFn.mean.eval (xs.map some) = some (xs.sum / (xs.length : Rat)) := by
  rw [eval_map_some]
  simp [hne]

/-- `min` is the least of the member values -/
theorem eval_min (xs : List Rat) (hne : xs ≠ []) :
    ∃ m, AggFn.min.eval (xs.map some) = some m ∧ m ∈ xs ∧ ∀ y ∈ xs, m ≤ y := by
  rw [eval_map_some]
  simp only
  cases hm : listMin xs with
  | none => have := listMin_isSome xs hne; rw [hm] at this; cases this
  | some m => exact ⟨m, rfl, listMin_spec xs m hm⟩

/-- `max` is the greatest of the member values -/
theorem eval_max (xs : List Rat) (hne : xs ≠ []) :
    ∃ m, AggFn.max.eval (xs.map some) = some m ∧ m ∈ xs ∧ ∀ y ∈ xs, y ≤ m := by
  rw [eval_map_some]
  simp only
  cases hm : listMax xs with
  | none => have := listMax_isSome xs hne; rw [hm] at this; cases this
  | some m => exact ⟨m, rfl, listMax_spec xs m hm⟩

/-- `logical_or` is 1 iff some member value is non-zero, else 0 -/
theorem eval_logicalOr (xs : List Rat) :
    AggFn.logicalOr.eval (xs.map some) = some (if ∃ y ∈ xs, y ≠ 0 then 1 else 0) := by
  rw [eval_map_some]
  simp only [Option.some.injEq]
  by_cases h : ∃ y ∈ xs, y ≠ 0
  · rw [if_pos h]
    have : xs.any truth = true := by
      obtain ⟨y, hy, hy0⟩ := h
      exact List.any_eq_true.mpr ⟨y, hy, by simp [truth, hy0]⟩
    rw [this]; rfl
  · rw [if_neg h]
    have : xs.any truth = false := by
      rw [Bool.eq_false_iff]
      intro ht
      obtain ⟨y, hy, hy0⟩ := List.any_eq_true.mp ht
      exact h ⟨y, hy, by simpa [truth] using hy0⟩
    rw [this]; rfl

/-- `logical_and` is 1 iff every member value is non-zero, else 0 -/
theorem eval_logicalAnd (xs : List Rat) :
    AggFn.logicalAnd.eval (xs.map some) = some (if ∀ y ∈ xs, y ≠ 0 then 1 else 0) := by
  rw [eval_map_some]
  simp only [Option.some.injEq]
  by_cases h : ∀ y ∈ xs, y ≠ 0
  · rw [if_pos h]
    have : xs.all truth = true := List.all_eq_true.mpr fun y hy => by simp [truth, h y hy]
    rw [this]; rfl
  · rw [if_neg h]
    have : xs.all truth = false := by
      rw [Bool.eq_false_iff]
      intro ht
      exact h fun y hy => by simpa [truth] using List.all_eq_true.mp ht y hy
    rw [this]; rfl

/-! ### median: the middle of the sorted values -/

theorem insertSorted_perm (v : Rat) (l : List Rat) : (insertSorted v l).Perm (v :: l) := by
  induction l with
  | nil => exact List.Perm.refl _
  | cons w r ih =>
    simp only [insertSorted]
    split
    · exact List.Perm.refl _
    · exact (List.Perm.cons w ih).trans (List.Perm.swap v w r)

theorem insertSorted_sorted (v : Rat) (l : List Rat) (h : l.Pairwise (· ≤ ·)) :
    (insertSorted v l).Pairwise (· ≤ ·) := by
  induction l with
  | nil => simp [insertSorted]
  | cons w r ih =>
    rw [List.pairwise_cons] at h
    simp only [insertSorted]
    split
    · rename_i hvw
      rw [List.pairwise_cons]
      refine ⟨?_, List.pairwise_cons.mpr h⟩
      intro y hy
      rcases List.mem_cons.mp hy with h' | h'
      · rw [h']; exact hvw
      · exact le_trans hvw (h.1 y h')
    · rename_i hvw
      rw [List.pairwise_cons]
      refine ⟨?_, ih h.2⟩
      intro y hy
      rcases List.mem_cons.mp ((insertSorted_perm v r).subset hy) with h' | h'
      · rw [h']; exact le_of_lt (not_le.mp hvw)
      · exact h.1 y h'

theorem foldl_insertSorted (l acc : List Rat) (hacc : acc.Pairwise (· ≤ ·)) :
    (l.foldl (fun acc v => insertSorted v acc) acc).Perm (l ++ acc) ∧
    (l.foldl (fun acc v => insertSorted v acc) acc).Pairwise (· ≤ ·) := by
  induction l generalizing acc with
  | nil => exact ⟨List.Perm.refl _, hacc⟩
  | cons v r ih =>
    obtain ⟨h1, h2⟩ := ih (insertSorted v acc) (insertSorted_sorted v acc hacc)
    refine ⟨h1.trans ?_, h2⟩
    refine ((List.perm_append_left_iff r).mpr (insertSorted_perm v acc)).trans ?_
    simp

/-- `sortRat` is a sorted rearrangement of the values -/
theorem sortRat_spec (l : List Rat) : (sortRat l).Perm l ∧ (sortRat l).Pairwise (· ≤ ·) := by
  have := foldl_insertSorted l [] List.Pairwise.nil
  simpa [sortRat] using this

/-- `median`: with the values sorted as `s` (`s` a sorted rearrangement of the member values), the middle
element for an odd count, the mean of the two middle elements for an even count -/
theorem eval_median (xs : List Rat) (hne : xs ≠ []) :
    ∃ s : List Rat, s.Perm xs ∧ s.Pairwise (· ≤ ·) ∧
      ((s.length % 2 = 1 ∧ AggFn.median.eval (xs.map some) = s[s.length / 2]?) ∨
       (s.length % 2 = 0 ∧ ∃ a b, s[s.length / 2 - 1]? = some a ∧ s[s.length / 2]? = some b ∧
          AggFn.median.eval (xs.map some) = some ((a + b) / 2))) := by
  refine ⟨sortRat xs, (sortRat_spec xs).1, (sortRat_spec xs).2, ?_⟩
  rw [eval_map_some]
  have hn : (sortRat xs).length ≠ 0 := by
    rw [length_sortRat]; exact fun h' => hne (List.length_eq_zero_iff.mp h')
  simp only [medianOf, hn, if_false]
  generalize sortRat xs = s at hn
  by_cases hodd : s.length % 2 = 1
  · left; exact ⟨hodd, by rw [if_pos hodd]⟩
  · right
    refine ⟨by omega, s[s.length / 2 - 1]'(by omega), s[s.length / 2]'(by omega), ?_, ?_, ?_⟩
    · exact List.getElem?_eq_getElem _
    · exact List.getElem?_eq_getElem _
    · rw [if_neg hodd, List.getElem?_eq_getElem (show s.length / 2 - 1 < s.length by omega),
          List.getElem?_eq_getElem (show s.length / 2 < s.length by omega)]

/-! ## sum equals folding `+` -/

/-- at one point -/
theorem eval_sum_fold (v : Val) (vs : List Val) : AggFn.sum.eval (v :: vs) = vs.foldl vadd v :=
  eval_sum_eq_foldl v vs

/-- folding the two-operand `+` over the members -/
def foldAdd (m : Stairs P) (rest : List (Stairs P)) (cl : Side) : Stairs P :=
  rest.foldl (fun acc g => combine vadd acc g cl) m

theorem foldAdd_spec (cl : Side) (rest : List (Stairs P)) (m : Stairs P) (hm : m.WF) (hr : ∀ g ∈ rest, g.WF) :
    (foldAdd m rest cl).WF ∧
    ∀ st x, Den (foldAdd m rest cl) st x = (rest.map fun g => Den g st x).foldl vadd (Den m st x) := by
  induction rest generalizing m with
  | nil => exact ⟨hm, fun _ _ => rfl⟩
  | cons g r ih =>
    have hg := hr g (by simp)
    obtain ⟨h1, h2⟩ := ih (combine vadd m g cl) (wf_combine _ _ _ _ hm hg)
      (fun g' hg' => hr g' (List.mem_cons_of_mem _ hg'))
    refine ⟨h1, fun st x => ?_⟩
    have := h2 st x
    rw [den_combine _ _ _ _ hm hg] at this
    simpa [foldAdd] using this

theorem foldAdd_canonical (cl : Side) (rest : List (Stairs P)) (m : Stairs P) (hm : m.Canonical)
    (hr : ∀ g ∈ rest, g.WF) : (foldAdd m rest cl).Canonical := by
  induction rest generalizing m with
  | nil => exact hm
  | cons g r ih =>
    exact ih (combine vadd m g cl) (canonical_combine _ _ _ _ hm.1 (hr g (by simp)))
      (fun g' hg' => hr g' (List.mem_cons_of_mem _ hg'))

/-- the library's `reduce(operator.add, members)`: with a common closed side no step raises and the result
is the fold of the unchecked two-operand path -/
theorem foldlM_add (cl : Side) (rest : List (Stairs P)) (m : Stairs P) (hm : m.closed = cl)
    (hr : ∀ g ∈ rest, g.closed = cl) :
    rest.foldlM (binop .add) m = .ok (foldAdd m rest cl) := by
  induction rest generalizing m with
  | nil => rfl
  | cons g r ih =>
    have hg := hr g (by simp)
    have hstep : binop .add m g = .ok (combine vadd m g cl) := by
      show combineChecked vadd m g = _
      rw [combineChecked_total _ _ _ (not_mismatch_of_closed_eq m g (hm.trans hg.symm))]
      have : sideOf m g = cl := by unfold sideOf; rw [hm, hg]; simp
      rw [this]
    rw [List.foldlM_cons, hstep]
    exact ih (combine vadd m g cl) rfl (fun g' hg' => hr g' (List.mem_cons_of_mem _ hg'))

/-- **sum = folding +** (denotations, both limits) -/
theorem sum_eq_fold (m : Stairs P) (rest : List (Stairs P)) (cl : Side) (h : Stairs P)
    (hwf : ∀ g ∈ m :: rest, g.WF) (hr : aggregate .sum (m :: rest) = .ok h) (st : Bool) (x : P) :
    Den h st x = Den (foldAdd m rest cl) st x := by
  rw [(den_aggregate .sum _ h hwf hr).2 st x,
      (foldAdd_spec cl rest m (hwf m (by simp)) (fun g hg => hwf g (List.mem_cons_of_mem _ hg))).2 st x]
  exact eval_sum_fold _ _

/-- … hence the two results are `identical` (both being canonical) -/
theorem sum_identical_fold [NoMinOrder P] [Nonempty P] (m : Stairs P) (rest : List (Stairs P)) (cl : Side)
    (h : Stairs P) (hm : m.Canonical) (hwf : ∀ g ∈ rest, g.WF)
    (hr : aggregate .sum (m :: rest) = .ok h) :
    identical h (foldAdd m rest cl) = true := by
  have hwf' : ∀ g ∈ m :: rest, g.WF := by
    intro g hg
    rcases List.mem_cons.mp hg with h' | h'
    · rw [h']; exact hm.1
    · exact hwf g h'
  exact C12.identical_of_pointwise _ _ (den_aggregate .sum _ h hwf' hr).1 (foldAdd_canonical cl rest m hm hwf)
    (fun x => sum_eq_fold m rest cl h hwf' hr false x)

/-- for members with a common closed side both computations succeed and give the same object -/
theorem sum_eq_reduce_add [NoMinOrder P] [Nonempty P] (m : Stairs P) (rest : List (Stairs P)) (cl : Side)
    (hm : m.Canonical) (hwf : ∀ g ∈ rest, g.WF) (hcl : ∀ g ∈ m :: rest, g.closed = cl) :
    ∃ h, aggregate .sum (m :: rest) = .ok h ∧ rest.foldlM (binop .add) m = .ok h := by
  obtain ⟨h, hr, hhcl⟩ := aggregate_total .sum (m :: rest) cl (by simp) hcl
  refine ⟨h, hr, ?_⟩
  rw [foldlM_add cl rest m (hcl m (by simp)) (fun g hg => hcl g (List.mem_cons_of_mem _ hg))]
  have hwf' : ∀ g ∈ m :: rest, g.WF := by
    intro g hg
    rcases List.mem_cons.mp hg with h' | h'
    · rw [h']; exact hm.1
    · exact hwf g h'
  have hfc : (foldAdd m rest cl).closed = cl := by
    cases rest with
    | nil => exact hcl m (by simp)
    | cons g r =>
      have : ∀ (r : List (Stairs P)) (a : Stairs P), a.closed = cl → (foldAdd a r cl).closed = cl := by
        intro r
        induction r with
        | nil => intro a ha; exact ha
        | cons g' r' ih => intro a _; exact ih (combine vadd a g' cl) rfl
      exact this _ _ (hcl m (by simp))
  congr 1
  exact (canonical_ext _ _ (den_aggregate .sum _ h hwf' hr).1 (foldAdd_canonical cl rest m hm hwf)
    (hhcl.trans hfc.symm) (fun x => sum_eq_fold m rest cl h hwf' hr false x)).symm

/-! ## non-vacuity over `Stairs Int` -/
def a₀ : Stairs Int := ⟨some 0, [(1, some 2), (4, some 0)], .left⟩
def b₀ : Stairs Int := ⟨some 1, [(2, some 3), (6, none)], .left⟩
def c₀ : Stairs Int := ⟨some 5, [], .right⟩          -- step-free, other closed side
def d₀ : Stairs Int := ⟨none, [(3, some (-1))], .left⟩  -- undefined before 3

example : aggregate .sum [a₀, b₀, c₀] =
    .ok ⟨some 6, [(1, some 8), (2, some 10), (4, some 8), (6, none)], .left⟩ := by decide +kernel
-- a duplicate member counts twice
example : aggregate .sum [a₀, a₀, b₀] =
    .ok ⟨some 1, [(1, some 5), (2, some 7), (4, some 3), (6, none)], .left⟩ := by decide +kernel
example : aggregate .mean [a₀, a₀, b₀] =
    .ok ⟨some (1/3), [(1, some (5/3)), (2, some (7/3)), (4, some 1), (6, none)], .left⟩ := by decide +kernel
-- a partly undefined member makes the result undefined there
example : aggregate .max [a₀, b₀, d₀] =
    .ok ⟨none, [(3, some 3), (6, none)], .left⟩ := by decide +kernel
example : aggregate .min [a₀, b₀, c₀] =
    .ok ⟨some 0, [(1, some 1), (2, some 2), (4, some 0), (6, none)], .left⟩ := by decide +kernel
example : aggregate .median [a₀, b₀, c₀] =
    .ok ⟨some 1, [(1, some 2), (2, some 3), (6, none)], .left⟩ := by decide +kernel
example : aggregate .median [a₀, b₀] =
    .ok ⟨some (1/2), [(1, some (3/2)), (2, some (5/2)), (4, some (3/2)), (6, none)], .left⟩ := by decide +kernel
example : aggregate .logicalOr [a₀, a₀] = .ok ⟨some 0, [(1, some 1), (4, some 0)], .left⟩ := by decide +kernel
example : aggregate .logicalAnd [a₀, b₀] = .ok ⟨some 0, [(1, some 1), (4, some 0), (6, none)], .left⟩ := by
  decide +kernel
-- sum = reduce(+)
example : aggregate .sum [a₀, b₀, d₀] = [b₀, d₀].foldlM (binop .add) a₀ := by decide +kernel
example : aggregate .mean ([] : List (Stairs Int)) = .ok ⟨none, [], .left⟩ := by decide +kernel

end SC.Props.C18
