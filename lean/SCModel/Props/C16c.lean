import SCModel.Props.Forms
import SCModel.Lemmas.Forms16c
/-!
# C16c — shortcuts on the second internal form (step CHANGES / "deltas"): exactly when are they sound?

The library caches two columns per object (step values, step changes).  A maintainer may be tempted to run
cheap operations on the change column only.  `Lemmas/Forms16c` defines the candidate shortcuts; here each
is proved sound on its exact domain and refuted outside it.

Every shortcut comes in two flavours:

* **raw** (`scaleDeltas`, `negDeltas`, `addConstDeltas`, `rsubDeltas`, `shiftDeltas`): touch the initial
  value / the change column only;
* **path** (`scalePath`, `negPath`, `addConstPath`, `rsubPath`): the raw shortcut followed by
  `_remove_redundant_step_points` *on the change column* (`DStairs.removeRedundant`: drop zero changes and
  NaN-after-NaN), as the existing delta-wise `+`/`-` (`opDeltas`) does.

Findings (all proved below):

0. the model's `f*k`, `k*f`, `f+c`, `c+f`, `f-c`, `c-f`, `-f` are `canon` of the pointwise image
   `affVals k c f` (`v ↦ k·v + c`, same step points);
1. the **raw** shortcuts for `*k`, unary `-` are correct for EVERY function that survives the plain round
   trip (`HeadOk`: every canonical function, every function with a defined initial value) — undefined
   pieces included; `+c` and `c-f` are correct iff the initial value is defined (or `c = 0`, or the function
   is nowhere defined): with an undefined initial value the constant is silently lost;
2. `removeRedundantDeltas` agrees with the value-path `removeRedundant` **iff** the round trip proviso holds
   and no zero change sits at a genuine step point (`zeroDeltaAtStep`), equivalently (`hasGapReentry`) the
   function never re-enters, after an undefined piece, the value it had before it (`0` if nothing was
   defined before); otherwise even the *function* changes.  `noNa` is a decidable sufficient condition;
3. hence the **paths** are the model operators for all NaN-free functions (every `k`, `k = 0` included:
   all changes `0` ⇒ everything is redundant), and for `k ≠ 0` they are correct iff `f` has no zero change at
   a genuine step point; refuted on `0 | 2 on [1,2) | NaN on [2,3) | 2 on [3,6) | 0` and on a function
   undefined towards −∞ whose first defined value is `0`; for `k = 0` the path is correct iff `f` never
   becomes defined again after being undefined (`returnsFromNa`);
4. `shift` (any re-labelling of the points) commutes with both conversions and with the delta clean-up
   unconditionally: it is exactly as sound as the plain round trip;
5. `deltaForm_eq_iff`: two NaN-free delta forms denote the same function iff they have the same initial
   value and the same non-zero changes; the normal forms are exactly the delta forms of canonical NaN-free
   functions, and the representation is unique.
-/
set_option linter.unusedSectionVars false
namespace SC.Props.C16c
open SC SC.Stairs SC.Props.Forms
variable {P : Type} [LinearOrder P]

/-! ## 0. the model's scalar operators are `canon` of the pointwise image -/

/-- `f * k` -/
theorem mul_scalar_right (f : Stairs P) (hf : f.WF) (k : Rat) :
    binopO .mul (.st f) (.sc (some k)) = some (.ok (affVals k 0 f).canon) := by
  rw [g4b_binopO_right]
  show some (Except.ok (combine vmul f (const (some k) f.closed) f.closed)) = _
  rw [f16c_combine_const_right vmul f hf]
  congr 2
  refine f16c_canon_image_congr (fun a => vmul a (some k)) (Option.map fun v => k * v + 0) (fun a => ?_) f f.closed
  cases a with
  | none => rfl
  | some a => show some (a * k) = some (k * a + 0); congr 1; ring

/-- `k * f` -/
theorem mul_scalar_left (f : Stairs P) (hf : f.WF) (k : Rat) :
    binopO .mul (.sc (some k)) (.st f) = some (.ok (affVals k 0 f).canon) := by
  rw [g4b_binopO_left]
  show some (Except.ok (combine vmul (const (some k) f.closed) f f.closed)) = _
  rw [f16c_combine_const_left vmul f hf]
  congr 2
  refine f16c_canon_image_congr (fun a => vmul (some k) a) (Option.map fun v => k * v + 0) (fun a => ?_) f f.closed
  cases a with
  | none => rfl
  | some a => show some (k * a) = some (k * a + 0); congr 1; ring

/-- `f + c` -/
theorem add_scalar_right (f : Stairs P) (hf : f.WF) (c : Rat) :
    binopO .add (.st f) (.sc (some c)) = some (.ok (affVals 1 c f).canon) := by
  rw [g4b_binopO_right]
  show some (Except.ok (combine vadd f (const (some c) f.closed) f.closed)) = _
  rw [f16c_combine_const_right vadd f hf]
  congr 2
  refine f16c_canon_image_congr (fun a => vadd a (some c)) (Option.map fun v => 1 * v + c) (fun a => ?_) f f.closed
  cases a with
  | none => rfl
  | some a => show some (a + c) = some (1 * a + c); congr 1; ring

/-- `c + f` -/
theorem add_scalar_left (f : Stairs P) (hf : f.WF) (c : Rat) :
    binopO .add (.sc (some c)) (.st f) = some (.ok (affVals 1 c f).canon) := by
  rw [g4b_binopO_left]
  show some (Except.ok (combine vadd (const (some c) f.closed) f f.closed)) = _
  rw [f16c_combine_const_left vadd f hf]
  congr 2
  refine f16c_canon_image_congr (fun a => vadd (some c) a) (Option.map fun v => 1 * v + c) (fun a => ?_) f f.closed
  cases a with
  | none => rfl
  | some a => show some (c + a) = some (1 * a + c); congr 1; ring

/-- `f - c` -/
theorem sub_scalar_right (f : Stairs P) (hf : f.WF) (c : Rat) :
    binopO .sub (.st f) (.sc (some c)) = some (.ok (affVals 1 (-c) f).canon) := by
  rw [g4b_binopO_right]
  show some (Except.ok (combine vsub f (const (some c) f.closed) f.closed)) = _
  rw [f16c_combine_const_right vsub f hf]
  congr 2
  refine f16c_canon_image_congr (fun a => vsub a (some c)) (Option.map fun v => 1 * v + -c) (fun a => ?_) f f.closed
  cases a with
  | none => rfl
  | some a => show some (a - c) = some (1 * a + -c); congr 1; ring

/-- `c - f` -/
theorem sub_scalar_left (f : Stairs P) (hf : f.WF) (c : Rat) :
    binopO .sub (.sc (some c)) (.st f) = some (.ok (affVals (-1) c f).canon) := by
  rw [g4b_binopO_left]
  show some (Except.ok (combine vsub (const (some c) f.closed) f f.closed)) = _
  rw [f16c_combine_const_left vsub f hf]
  congr 2
  refine f16c_canon_image_congr (fun a => vsub (some c) a) (Option.map fun v => -1 * v + c) (fun a => ?_) f f.closed
  cases a with
  | none => rfl
  | some a => show some (c - a) = some (-1 * a + c); congr 1; ring

/-- `-f` (no well-formedness needed) -/
theorem neg_eq (f : Stairs P) : unop .neg f = (affVals (-1) 0 f).canon := by
  show canon ⟨UnOp.neg.eval f.init, f.steps.map (fun pv => (pv.1, UnOp.neg.eval pv.2)), f.closed⟩ = _
  refine f16c_canon_image_congr UnOp.neg.eval (Option.map fun v => -1 * v + 0) (fun a => ?_) f f.closed
  cases a with
  | none => rfl
  | some a => show some (-a) = some (-1 * a + 0); congr 1; ring

/-- for `k ≠ 0` the image of a canonical function is canonical: `canon` does nothing -/
theorem canon_affVals (k c : Rat) (hk : k ≠ 0) (f : Stairs P) (hf : f.IsMinimal) :
    (affVals k c f).canon = affVals k c f :=
  canon_of_minimal _ ((f16c_minimal_affVals k c hk f).mpr hf)

/-! ## 1. the RAW shortcuts -/

/-- the special shortcuts are instances of the affine one -/
theorem scaleDeltas_eq_aff (k : Rat) (d : DStairs P) : scaleDeltas k d = affDeltas k 0 d := by
  simp [scaleDeltas, affDeltas]

theorem negDeltas_eq_aff (d : DStairs P) : negDeltas d = affDeltas (-1) 0 d := by
  simp [negDeltas, affDeltas]

theorem addConstDeltas_eq_aff (c : Rat) (d : DStairs P) : addConstDeltas c d = affDeltas 1 c d := by
  cases d with
  | mk i ds cl => simp [addConstDeltas, affDeltas]

theorem rsubDeltas_eq_aff (c : Rat) (d : DStairs P) : rsubDeltas c d = affDeltas (-1) c d := by
  have h1 : (fun v : Rat => c - v) = fun v => -1 * v + c := by funext v; ring
  have h2 : (fun v : Rat => -v) = fun v => -1 * v := by funext v; ring
  unfold rsubDeltas affDeltas
  rw [h1, h2]

/-- **the change column of the image is the scaled change column** — for every `f` whatsoever when `c = 0`,
and whenever the initial value is defined -/
theorem toDeltaForm_affVals (k c : Rat) (f : Stairs P) (h : f.init ≠ none ∨ c = 0) :
    toDeltaForm (affVals k c f) = affDeltas k c (toDeltaForm f) := by
  have := f16c_recolumn_aff k c f.init f.steps h
  simp only [toDeltaForm, affDeltas, stepChanges, affVals, this]

/-- **the value column of the scaled delta form is the image of the value column** -/
theorem fromDeltaForm_affDeltas (k c : Rat) (d : DStairs P) (h : d.init ≠ none ∨ c = 0) :
    fromDeltaForm (affDeltas k c d) = affVals k c (fromDeltaForm d) := by
  have := f16c_recolumn_aff_vals k c d.init d.deltas h
  simp only [DStairs.toValueForm, DStairs.stepValues, affDeltas, affVals, this]

/-- **raw affine shortcut = pointwise image**, undefined pieces allowed; needs only the round-trip proviso
`HeadOk` and (initial value defined or `c = 0`) -/
theorem affDeltas_raw (k c : Rat) (f : Stairs P) (hh : HeadOk f.init f.steps) (h : f.init ≠ none ∨ c = 0) :
    fromDeltaForm (affDeltas k c (toDeltaForm f)) = affVals k c f := by
  rw [fromDeltaForm_affDeltas k c _ h, show fromDeltaForm (toDeltaForm f) = f from toValueForm_toDeltaForm f hh]

/-- on a canonical function and `k ≠ 0` the raw shortcut yields the canonical result -/
theorem affDeltas_canonical (k c : Rat) (hk : k ≠ 0) (f : Stairs P) (hf : f.IsMinimal)
    (h : f.init ≠ none ∨ c = 0) :
    fromDeltaForm (affDeltas k c (toDeltaForm f)) = (affVals k c f).canon := by
  rw [affDeltas_raw k c f (headOk_of_minimal _ _ hf) h, canon_affVals k c hk f hf]

/-- **1a. `k * f`, raw**: sound on EVERY canonical function (undefined pieces included) when `k ≠ 0` -/
theorem scaleDeltas_canonical (f : Stairs P) (hf : f.Canonical) (k : Rat) (hk : k ≠ 0) :
    binopO .mul (.sc (some k)) (.st f) = some (.ok (fromDeltaForm (scaleDeltas k (toDeltaForm f)))) ∧
    binopO .mul (.st f) (.sc (some k)) = some (.ok (fromDeltaForm (scaleDeltas k (toDeltaForm f)))) := by
  rw [mul_scalar_left f hf.1, mul_scalar_right f hf.1, scaleDeltas_eq_aff,
    affDeltas_canonical k 0 hk f hf.2 (Or.inr rfl)]
  exact ⟨rfl, rfl⟩

/-- the NaN-free special case asked for by maintainers: canonical, no undefined value, `k ≠ 0` -/
theorem scaleDeltas_noNa (f : Stairs P) (hf : f.Canonical) (_hn : f.noNa = true) (k : Rat) (hk : k ≠ 0) :
    binopO .mul (.sc (some k)) (.st f) = some (.ok (fromDeltaForm (scaleDeltas k (toDeltaForm f)))) :=
  (scaleDeltas_canonical f hf k hk).1

/-- … in general (non-canonical `f`, or `k = 0`) it is the right function in non-canonical form -/
theorem scaleDeltas_canon (f : Stairs P) (hf : f.WF) (hh : HeadOk f.init f.steps) (k : Rat) :
    binopO .mul (.st f) (.sc (some k)) = some (.ok (fromDeltaForm (scaleDeltas k (toDeltaForm f))).canon) := by
  rw [mul_scalar_right f hf, scaleDeltas_eq_aff, affDeltas_raw k 0 f hh (Or.inr rfl)]

/-- the raw scaled delta form denotes `k · f`, both limits -/
theorem den_scaleDeltas (f : Stairs P) (hh : HeadOk f.init f.steps) (k : Rat) (st : Bool) (x : P) :
    Den (fromDeltaForm (scaleDeltas k (toDeltaForm f))) st x = (Den f st x).map fun v => k * v := by
  rw [scaleDeltas_eq_aff, affDeltas_raw k 0 f hh (Or.inr rfl), f16c_den_affVals]
  cases Den f st x <;> simp

/-- **2a. `-f`, raw**: sound on every canonical function -/
theorem negDeltas_canonical (f : Stairs P) (hf : f.IsMinimal) :
    fromDeltaForm (negDeltas (toDeltaForm f)) = unop .neg f := by
  rw [neg_eq, negDeltas_eq_aff, affDeltas_canonical (-1) 0 (by norm_num) f hf (Or.inr rfl)]

theorem negDeltas_canon (f : Stairs P) (hh : HeadOk f.init f.steps) :
    (fromDeltaForm (negDeltas (toDeltaForm f))).canon = unop .neg f := by
  rw [neg_eq, negDeltas_eq_aff, affDeltas_raw (-1) 0 f hh (Or.inr rfl)]

/-- **2b. `f + c`, raw** (only the initial value changes): sound on every canonical function whose initial
value is defined — undefined pieces further right do not matter -/
theorem addConstDeltas_canonical (f : Stairs P) (hf : f.Canonical) (hi : f.init ≠ none) (c : Rat) :
    binopO .add (.st f) (.sc (some c)) = some (.ok (fromDeltaForm (addConstDeltas c (toDeltaForm f)))) ∧
    binopO .add (.sc (some c)) (.st f) = some (.ok (fromDeltaForm (addConstDeltas c (toDeltaForm f)))) := by
  rw [add_scalar_left f hf.1, add_scalar_right f hf.1, addConstDeltas_eq_aff,
    affDeltas_canonical 1 c (by norm_num) f hf.2 (Or.inl hi)]
  exact ⟨rfl, rfl⟩

theorem addConstDeltas_canon (f : Stairs P) (hf : f.WF) (hi : f.init ≠ none) (c : Rat) :
    binopO .add (.st f) (.sc (some c)) = some (.ok (fromDeltaForm (addConstDeltas c (toDeltaForm f))).canon) := by
  rw [add_scalar_right f hf, addConstDeltas_eq_aff, affDeltas_raw 1 c f (headOk_of_some _ _ hi) (Or.inl hi)]

/-- **2c. `c - f`, raw** (negate the changes, initial value `c - init`) -/
theorem rsubDeltas_canonical (f : Stairs P) (hf : f.Canonical) (hi : f.init ≠ none) (c : Rat) :
    binopO .sub (.sc (some c)) (.st f) = some (.ok (fromDeltaForm (rsubDeltas c (toDeltaForm f)))) := by
  rw [sub_scalar_left f hf.1, rsubDeltas_eq_aff, affDeltas_canonical (-1) c (by norm_num) f hf.2 (Or.inl hi)]

theorem rsubDeltas_canon (f : Stairs P) (hf : f.WF) (hi : f.init ≠ none) (c : Rat) :
    binopO .sub (.sc (some c)) (.st f) = some (.ok (fromDeltaForm (rsubDeltas c (toDeltaForm f))).canon) := by
  rw [sub_scalar_left f hf, rsubDeltas_eq_aff, affDeltas_raw (-1) c f (headOk_of_some _ _ hi) (Or.inl hi)]

/-- **undefined initial value: the constant is silently lost** — the affine shortcut with any `c` does
what the one with `c = 0` does -/
theorem affDeltas_undefined_init (k c : Rat) (f : Stairs P) (hi : f.init = none) :
    affDeltas k c (toDeltaForm f) = affDeltas k 0 (toDeltaForm f) := by
  simp [affDeltas, toDeltaForm, hi]

/-- … so on a canonical function with undefined initial value `f + c`, `c - f` via the deltas are right
**iff** `c = 0` or the function is nowhere defined -/
theorem affDeltas_undefined_init_iff (k c : Rat) (f : Stairs P) (hf : f.IsMinimal) (hi : f.init = none) :
    fromDeltaForm (affDeltas k c (toDeltaForm f)) = affVals k c f ↔ c = 0 ∨ f.steps = [] := by
  rw [affDeltas_undefined_init k c f hi, affDeltas_raw k 0 f (headOk_of_minimal _ _ hf) (Or.inr rfl)]
  constructor
  · intro h
    cases hs : f.steps with
    | nil => exact Or.inr rfl
    | cons pv r =>
      obtain ⟨p, v⟩ := pv
      left
      have hm := hf
      rw [IsMinimal, hi, hs] at hm
      cases v with
      | none => exact absurd rfl hm.1
      | some v =>
        have h2 := congrArg Stairs.steps h
        simp only [affVals, hs, List.map_cons, Option.map_some, List.cons.injEq, Prod.mk.injEq,
          Option.some.injEq, true_and] at h2
        linarith [h2.1]
  · rintro (rfl | hs)
    · rfl
    · simp [affVals, hs, hi]

/-- `f + c` via the deltas on a canonical function that is undefined towards −∞ -/
theorem addConstDeltas_undefined_init_iff (f : Stairs P) (hf : f.Canonical) (hi : f.init = none) (c : Rat) :
    binopO .add (.st f) (.sc (some c)) = some (.ok (fromDeltaForm (addConstDeltas c (toDeltaForm f)))) ↔
      c = 0 ∨ f.steps = [] := by
  rw [add_scalar_right f hf.1, canon_affVals 1 c (by norm_num) f hf.2, addConstDeltas_eq_aff,
    ← affDeltas_undefined_init_iff 1 c f hf.2 hi]
  simp only [Option.some.injEq, Except.ok.injEq]
  exact eq_comm

/-- `c - f` via the deltas on a canonical function that is undefined towards −∞ -/
theorem rsubDeltas_undefined_init_iff (f : Stairs P) (hf : f.Canonical) (hi : f.init = none) (c : Rat) :
    binopO .sub (.sc (some c)) (.st f) = some (.ok (fromDeltaForm (rsubDeltas c (toDeltaForm f)))) ↔
      c = 0 ∨ f.steps = [] := by
  rw [sub_scalar_left f hf.1, canon_affVals (-1) c (by norm_num) f hf.2, rsubDeltas_eq_aff,
    ← affDeltas_undefined_init_iff (-1) c f hf.2 hi]
  simp only [Option.some.injEq, Except.ok.injEq]
  exact eq_comm

/-! ## 2. redundancy removal on the change column: the exact characterisation -/

/-- **the delta-column removal agrees with the value-column removal iff the round trip proviso holds and no
zero change sits at a genuine step point** -/
theorem fromDeltaForm_removeRedundant_eq (f : Stairs P) :
    fromDeltaForm (toDeltaForm f).removeRedundant
      = ⟨f.init, recolumn (removeRedundantDeltas (stepChanges f)) (cumsumSkip (baseOf f.init)), f.closed⟩ := by
  show (⟨f.init, DStairs.stepValues _, f.closed⟩ : Stairs P) = _
  rw [DStairs.stepValues_eq]; rfl

theorem removeRedundant_agrees_iff (f : Stairs P) (hf : f.WF) :
    fromDeltaForm (toDeltaForm f).removeRedundant = f.canon ↔
      HeadOk f.init f.steps ∧ f.zeroDeltaAtStep = false := by
  have e0 := fromDeltaForm_removeRedundant_eq f
  by_cases h : HeadOk f.init f.steps
  · obtain ⟨l, prev, hp, hi, hb, hsc, hrem⟩ := f16c_state f h
    subst hi
    have key := f16c_removal_iff f.steps hf l f.init hp
    rw [e0, hrem, hb]
    unfold canon zeroDeltaAtStep
    rw [hsc]
    simp only [Stairs.mk.injEq, true_and, and_true, h]
    exact key
  · -- NaN first row after a NaN initial value: the delta path keeps that row, `canon` drops it
    simp only [h, false_and, iff_false]
    have hi : f.init = none := by
      by_contra hne; exact h (headOk_of_some _ _ hne)
    intro heq
    rw [e0] at heq
    have hsteps := congrArg Stairs.steps heq
    simp only [canon] at hsteps
    cases hs : f.steps with
    | nil => exact h (fun _ => by simp [hs])
    | cons pv r =>
      obtain ⟨p, v⟩ := pv
      cases v with
      | some v => exact h (fun _ => by simp [hs])
      | none =>
        have hm : Minimal f.init (removeRedundant f.init f.steps) := minimal_removeRedundant _ _
        rw [← hsteps, hi] at hm
        unfold stepChanges at hm
        rw [hi, hs] at hm
        simp [recolumn, deltasFromVals_none_none, removeRedundantDeltas, removeRedundantDeltasFrom,
          cumsumSkip, Minimal] at hm

/-- the same on the delta side: the cleaned change column is the change column of the canonical form -/
theorem removeRedundant_delta_form_iff (f : Stairs P) (hf : f.WF) (hh : HeadOk f.init f.steps) :
    (toDeltaForm f).removeRedundant = toDeltaForm f.canon ↔ f.zeroDeltaAtStep = false := by
  constructor
  · intro h
    have := (removeRedundant_agrees_iff f hf).mp (by rw [h]; exact fromDeltaForm_toDeltaForm f.canon (minimal_canon f))
    exact this.2
  · intro h
    have := (removeRedundant_agrees_iff f hf).mpr ⟨hh, h⟩
    rw [← this]
    refine (toDeltaForm_fromDeltaForm _ ?_).symm
    -- the cleaned change column still satisfies the proviso
    intro hi
    have hi' : f.init = none := hi
    show ((removeRedundantDeltas (stepChanges f)).map Prod.snd).head? ≠ some none
    unfold stepChanges
    rw [hi']
    cases hs : f.steps with
    | nil => simp [recolumn, removeRedundantDeltas, removeRedundantDeltasFrom]
    | cons pv r =>
      obtain ⟨p, v⟩ := pv
      cases v with
      | none => exact absurd (by rw [hs]; rfl) (hh hi')
      | some v =>
        have hz : f.zeroDeltaAtStep = false := h
        unfold zeroDeltaAtStep stepChanges at hz
        rw [hi', hs] at hz
        simp only [recolumn, List.map_cons, deltasFromVals_none_some, List.zip_cons_cons, zeroAtStep,
          Bool.or_eq_false_iff, Bool.and_eq_false_iff, decide_eq_false_iff_not, Option.some.injEq] at hz
        have hv : v ≠ 0 := by
          rcases hz.1 with h1 | h1
          · exact h1
          · simp at h1
        simp [recolumn, deltasFromVals_none_some, removeRedundantDeltas, removeRedundantDeltasFrom, hv]

/-- **it is the FUNCTION that changes**, not merely the rows: under the round-trip proviso the cleaned delta
form denotes `f` (both limits) iff no zero change sits at a genuine step point -/
theorem removeRedundant_den_iff (f : Stairs P) (hf : f.WF) (hh : HeadOk f.init f.steps) :
    (∀ st x, Den (fromDeltaForm (toDeltaForm f).removeRedundant) st x = Den f st x) ↔
      f.zeroDeltaAtStep = false := by
  constructor
  · intro h
    by_contra hz
    have hz' : f.zeroDeltaAtStep = true := by simpa using hz
    obtain ⟨l, prev, hp, hi, hb, hsc, hrem⟩ := f16c_state f hh
    subst hi
    unfold zeroDeltaAtStep at hz'
    rw [hsc] at hz'
    obtain ⟨x, hx⟩ := f16c_removal_den_ne f.steps hf l f.init hp hz'
    apply hx
    have := h false x
    rw [fromDeltaForm_removeRedundant_eq f, hrem, hb, hsc] at this
    exact this
  · intro hz st x
    rw [(removeRedundant_agrees_iff f hf).mpr ⟨hh, hz⟩, den_canon f hf]

/-- **decidable sufficient condition**: a NaN-free function has no zero change at a genuine step point … -/
theorem noNa_zeroDeltaAtStep (f : Stairs P) (hn : f.noNa = true) : f.zeroDeltaAtStep = false := by
  rw [noNa_iff] at hn
  cases h : f.init with
  | none => exact absurd h hn.1
  | some a =>
    unfold zeroDeltaAtStep
    rw [stepChanges_eq f a h, h]
    exact f16c_zeroAtStep_allDef f.steps hn.2 a

/-- … so this re-derives `Props.Forms.fromDeltaForm_removeRedundant` from the characterisation -/
theorem removeRedundant_agrees_noNa (f : Stairs P) (hf : f.WF) (hn : f.noNa = true) :
    fromDeltaForm (toDeltaForm f).removeRedundant = f.canon :=
  (removeRedundant_agrees_iff f hf).mpr
    ⟨headOk_of_some _ _ ((noNa_iff f).mp hn).1, noNa_zeroDeltaAtStep f hn⟩

/-- **delta-free description**: a zero change sits at a genuine step point iff `f` re-enters, after an
undefined piece, the value it had before it (`0` when nothing was defined before) -/
theorem zeroDeltaAtStep_eq_gapReentry (f : Stairs P) (hh : HeadOk f.init f.steps) :
    f.zeroDeltaAtStep = f.hasGapReentry := by
  obtain ⟨l, prev, hp, hi, hb, hsc, -⟩ := f16c_state f hh
  unfold zeroDeltaAtStep hasGapReentry
  rw [hsc, hi, f16c_zeroAtStep_eq_gapReentry f.steps l prev hp]
  cases hprev : prev with
  | none =>
    have : l = 0 := by rw [← hb, hi, hprev]; rfl
    rw [this, f16c_gapReentry_none]
  | some a =>
    have : l = a := by rw [← hb, hi, hprev]; rfl
    rw [this]

/-- a non-zero affine change of values keeps the predicate -/
theorem zeroDeltaAtStep_affVals (k c : Rat) (hk : k ≠ 0) (f : Stairs P) (h : f.init ≠ none ∨ c = 0) :
    (affVals k c f).zeroDeltaAtStep = f.zeroDeltaAtStep := by
  have hd := congrArg DStairs.deltas (toDeltaForm_affVals k c f h)
  have hd' : stepChanges (affVals k c f) = (stepChanges f).map fun pd => (pd.1, pd.2.map fun v => k * v) := hd
  unfold zeroDeltaAtStep
  rw [hd']
  exact f16c_zeroAtStep_aff k c hk f.init f.steps (stepChanges f)

/-! ## 3. the PATHS (shortcut + clean-up on the change column) -/

theorem affPath_eq (k c : Rat) (f : Stairs P) (h : f.init ≠ none ∨ c = 0) :
    affPath k c (toDeltaForm f) = (toDeltaForm (affVals k c f)).removeRedundant := by
  rw [affPath, toDeltaForm_affVals k c f h]

/-- **NaN-free: the path is the model operator**, every `k` and `c` (no well-formedness needed here) -/
theorem affPath_noNa (k c : Rat) (f : Stairs P) (hn : f.noNa = true) :
    fromDeltaForm (affPath k c (toDeltaForm f)) = (affVals k c f).canon := by
  rw [affPath_eq k c f (Or.inl ((noNa_iff f).mp hn).1)]
  exact fromDeltaForm_removeRedundant _ (by rw [f16c_noNa_affVals]; exact hn)

/-- … and BOTH cached columns are right: the path returns the delta form of the canonical result -/
theorem affPath_delta_noNa (k c : Rat) (f : Stairs P) (hn : f.noNa = true) :
    affPath k c (toDeltaForm f) = toDeltaForm (affVals k c f).canon := by
  rw [affPath_eq k c f (Or.inl ((noNa_iff f).mp hn).1)]
  exact removeRedundant_delta_form _ (by rw [f16c_noNa_affVals]; exact hn)

/-- **exact domain of the path**: right rows iff round-trip proviso and no zero change at a genuine step
point of the image -/
theorem affPath_iff (k c : Rat) (f : Stairs P) (hf : f.WF) (h : f.init ≠ none ∨ c = 0) :
    fromDeltaForm (affPath k c (toDeltaForm f)) = (affVals k c f).canon ↔
      HeadOk f.init f.steps ∧ (affVals k c f).zeroDeltaAtStep = false := by
  rw [affPath_eq k c f h, removeRedundant_agrees_iff _ (f16c_wf_affVals k c f hf), f16c_headOk_affVals]

/-- for `k ≠ 0` that is a condition on `f` itself -/
theorem affPath_iff_of_ne_zero (k c : Rat) (hk : k ≠ 0) (f : Stairs P) (hf : f.WF) (h : f.init ≠ none ∨ c = 0) :
    fromDeltaForm (affPath k c (toDeltaForm f)) = (affVals k c f).canon ↔
      HeadOk f.init f.steps ∧ f.zeroDeltaAtStep = false := by
  rw [affPath_iff k c f hf h, zeroDeltaAtStep_affVals k c hk f h]

/-- and it is the function that is wrong, not only the rows -/
theorem affPath_den_iff (k c : Rat) (hk : k ≠ 0) (f : Stairs P) (hf : f.WF) (hh : HeadOk f.init f.steps)
    (h : f.init ≠ none ∨ c = 0) :
    (∀ st x, Den (fromDeltaForm (affPath k c (toDeltaForm f))) st x = (Den f st x).map fun v => k * v + c) ↔
      f.zeroDeltaAtStep = false := by
  rw [affPath_eq k c f h, ← zeroDeltaAtStep_affVals k c hk f h,
    ← removeRedundant_den_iff _ (f16c_wf_affVals k c f hf) ((f16c_headOk_affVals k c f).mpr hh)]
  simp only [f16c_den_affVals]

/-- **1b. `k * f`, path**: the model's product for every NaN-free well-formed `f` and EVERY `k` -/
theorem scalePath_noNa (f : Stairs P) (hf : f.WF) (hn : f.noNa = true) (k : Rat) :
    binopO .mul (.sc (some k)) (.st f) = some (.ok (fromDeltaForm (scalePath k (toDeltaForm f)))) ∧
    binopO .mul (.st f) (.sc (some k)) = some (.ok (fromDeltaForm (scalePath k (toDeltaForm f)))) := by
  have : scalePath k (toDeltaForm f) = affPath k 0 (toDeltaForm f) := by rw [scalePath, scaleDeltas_eq_aff]; rfl
  rw [mul_scalar_left f hf, mul_scalar_right f hf, this, affPath_noNa k 0 f hn]
  exact ⟨rfl, rfl⟩

/-- **`k = 0`**: all changes are `0`, every row is redundant, the result is the step-free `0` -/
theorem scalePath_zero (f : Stairs P) (hn : f.noNa = true) :
    scalePath 0 (toDeltaForm f) = ⟨some 0, [], f.closed⟩ := by
  obtain ⟨hi, hs⟩ := (noNa_iff f).mp hn
  cases h : f.init with
  | none => exact absurd h hi
  | some a =>
    have hall : ∀ pd ∈ (stepChanges f).map (fun pd => (pd.1, pd.2.map fun v => (0 : Rat) * v)), pd.2 = some 0 := by
      intro pd hpd
      obtain ⟨qd, hqd, rfl⟩ := List.mem_map.mp hpd
      have hdef : qd.2 ≠ none := by
        have := allDef_recolumn_diffSkip f.steps a hs
        rw [← stepChanges_eq f a h] at this
        exact this qd hqd
      cases hq : qd.2 with
      | none => exact absurd hq hdef
      | some w => simp
    have e : scalePath 0 (toDeltaForm f) = ⟨f.init.map (fun v => 0 * v), removeRedundantDeltasFrom false
        ((stepChanges f).map (fun pd => (pd.1, pd.2.map fun v => (0 : Rat) * v))), f.closed⟩ := rfl
    rw [e, f16c_removeFrom_all_zero false _ hall, h]
    simp

/-- the image under `v ↦ 0·v + c` re-enters its old value as soon as `f` becomes defined again at all -/
theorem hasGapReentry_affVals_zero (c : Rat) (f : Stairs P) (h : f.init ≠ none ∨ c = 0) :
    (affVals 0 c f).hasGapReentry = f.returnsFromNa := by
  unfold hasGapReentry returnsFromNa
  show gapReentry (f.init.map _) (f.init.map _) (f.steps.map _) = _
  apply f16c_gapReentry_const c f.init (f.init.map fun v => 0 * v + c)
  · intro hl
    cases hi : f.init with
    | none => exact h.resolve_left (fun h' => h' hi)
    | some a => rw [hi] at hl; simp at hl
  · intro a ha
    cases hi : f.init with
    | none => rw [hi] at ha; simp at ha
    | some b => rw [hi] at ha; simp at ha; exact ha.symm

/-- **`k = 0`, exact domain**: `0 * f` via the path is right iff (round-trip proviso and) `f` never becomes
defined again after being undefined -/
theorem scalePath_zero_iff (f : Stairs P) (hf : f.WF) :
    binopO .mul (.st f) (.sc (some 0)) = some (.ok (fromDeltaForm (scalePath 0 (toDeltaForm f)))) ↔
      HeadOk f.init f.steps ∧ f.returnsFromNa = false := by
  have : scalePath 0 (toDeltaForm f) = affPath 0 0 (toDeltaForm f) := by rw [scalePath, scaleDeltas_eq_aff]; rfl
  rw [mul_scalar_right f hf, this]
  have key := affPath_iff 0 0 f hf (Or.inr rfl)
  have h2 : (HeadOk f.init f.steps ∧ (affVals 0 0 f).zeroDeltaAtStep = false) ↔
      (HeadOk f.init f.steps ∧ f.returnsFromNa = false) := by
    refine and_congr_right (fun hh => ?_)
    rw [zeroDeltaAtStep_eq_gapReentry _ ((f16c_headOk_affVals 0 0 f).mpr hh),
      hasGapReentry_affVals_zero 0 f (Or.inr rfl)]
  rw [← h2, ← key]
  simp only [Option.some.injEq, Except.ok.injEq]
  exact eq_comm

/-- **1c. `k * f`, path, `k ≠ 0`, arbitrary well-formed `f`**: sound iff round-trip proviso and no zero change
at a genuine step point -/
theorem scalePath_iff (f : Stairs P) (hf : f.WF) (k : Rat) (hk : k ≠ 0) :
    binopO .mul (.st f) (.sc (some k)) = some (.ok (fromDeltaForm (scalePath k (toDeltaForm f)))) ↔
      HeadOk f.init f.steps ∧ f.zeroDeltaAtStep = false := by
  have : scalePath k (toDeltaForm f) = affPath k 0 (toDeltaForm f) := by rw [scalePath, scaleDeltas_eq_aff]; rfl
  rw [mul_scalar_right f hf, this, ← affPath_iff_of_ne_zero k 0 hk f hf (Or.inr rfl)]
  simp only [Option.some.injEq, Except.ok.injEq]
  exact eq_comm

/-- **2a'. `-f`, path** -/
theorem negPath_noNa (f : Stairs P) (hn : f.noNa = true) :
    fromDeltaForm (negPath (toDeltaForm f)) = unop .neg f := by
  have : negPath (toDeltaForm f) = affPath (-1) 0 (toDeltaForm f) := by rw [negPath, negDeltas_eq_aff]; rfl
  rw [neg_eq, this, affPath_noNa (-1) 0 f hn]

theorem negPath_iff (f : Stairs P) (hf : f.WF) :
    fromDeltaForm (negPath (toDeltaForm f)) = unop .neg f ↔ HeadOk f.init f.steps ∧ f.zeroDeltaAtStep = false := by
  have : negPath (toDeltaForm f) = affPath (-1) 0 (toDeltaForm f) := by rw [negPath, negDeltas_eq_aff]; rfl
  rw [neg_eq, this, affPath_iff_of_ne_zero (-1) 0 (by norm_num) f hf (Or.inr rfl)]

/-- **2b'. `f + c`, path** -/
theorem addConstPath_noNa (f : Stairs P) (hf : f.WF) (hn : f.noNa = true) (c : Rat) :
    binopO .add (.st f) (.sc (some c)) = some (.ok (fromDeltaForm (addConstPath c (toDeltaForm f)))) ∧
    binopO .add (.sc (some c)) (.st f) = some (.ok (fromDeltaForm (addConstPath c (toDeltaForm f)))) := by
  have : addConstPath c (toDeltaForm f) = affPath 1 c (toDeltaForm f) := by
    rw [addConstPath, addConstDeltas_eq_aff]; rfl
  rw [add_scalar_left f hf, add_scalar_right f hf, this, affPath_noNa 1 c f hn]
  exact ⟨rfl, rfl⟩

theorem addConstPath_iff (f : Stairs P) (hf : f.WF) (hi : f.init ≠ none) (c : Rat) :
    binopO .add (.st f) (.sc (some c)) = some (.ok (fromDeltaForm (addConstPath c (toDeltaForm f)))) ↔
      f.zeroDeltaAtStep = false := by
  have : addConstPath c (toDeltaForm f) = affPath 1 c (toDeltaForm f) := by
    rw [addConstPath, addConstDeltas_eq_aff]; rfl
  rw [add_scalar_right f hf, this]
  have := affPath_iff_of_ne_zero 1 c (by norm_num) f hf (Or.inl hi)
  simp only [headOk_of_some _ _ hi, true_and] at this
  rw [← this]
  simp only [Option.some.injEq, Except.ok.injEq]
  exact eq_comm

/-- **2c'. `c - f`, path** -/
theorem rsubPath_noNa (f : Stairs P) (hf : f.WF) (hn : f.noNa = true) (c : Rat) :
    binopO .sub (.sc (some c)) (.st f) = some (.ok (fromDeltaForm (rsubPath c (toDeltaForm f)))) := by
  have : rsubPath c (toDeltaForm f) = affPath (-1) c (toDeltaForm f) := by
    rw [rsubPath, rsubDeltas_eq_aff]; rfl
  rw [sub_scalar_left f hf, this, affPath_noNa (-1) c f hn]

theorem rsubPath_iff (f : Stairs P) (hf : f.WF) (hi : f.init ≠ none) (c : Rat) :
    binopO .sub (.sc (some c)) (.st f) = some (.ok (fromDeltaForm (rsubPath c (toDeltaForm f)))) ↔
      f.zeroDeltaAtStep = false := by
  have : rsubPath c (toDeltaForm f) = affPath (-1) c (toDeltaForm f) := by
    rw [rsubPath, rsubDeltas_eq_aff]; rfl
  rw [sub_scalar_left f hf, this]
  have := affPath_iff_of_ne_zero (-1) c (by norm_num) f hf (Or.inl hi)
  simp only [headOk_of_some _ _ hi, true_and] at this
  rw [← this]
  simp only [Option.some.injEq, Except.ok.injEq]
  exact eq_comm

/-! ## 4. `shift` (any re-labelling of the step points) on the delta form -/
section relabel
variable {Q : Type} [LinearOrder Q]

/-- the change column of the re-labelled function is the re-labelled change column — for EVERY `f`,
NaN markers included, no hypothesis at all -/
theorem toDeltaForm_mapPoints (φ : P → Q) (f : Stairs P) :
    toDeltaForm (mapPoints φ f) = relabelDeltas φ (toDeltaForm f) := by
  have := f16c_recolumn_map_fst f.steps φ (deltasFromVals f.init)
  simp only [toDeltaForm, relabelDeltas, stepChanges, mapPoints, this]

theorem fromDeltaForm_relabelDeltas (φ : P → Q) (d : DStairs P) :
    fromDeltaForm (relabelDeltas φ d) = mapPoints φ (fromDeltaForm d) := by
  have := f16c_recolumn_map_fst d.deltas φ (valsFromDeltas d.init)
  simp only [DStairs.toValueForm, DStairs.stepValues, relabelDeltas, mapPoints, this]

/-- re-labelling commutes with the delta-form clean-up -/
theorem relabelDeltas_removeRedundant (φ : P → Q) (d : DStairs P) :
    (relabelDeltas φ d).removeRedundant = relabelDeltas φ d.removeRedundant := by
  simp only [DStairs.removeRedundant, relabelDeltas, removeRedundantDeltas, f16c_removeRedundantDeltasFrom_relabel]

/-- the shortcut is exactly the plain round trip followed by the value-form re-labelling … -/
theorem relabelDeltas_roundtrip (φ : P → Q) (f : Stairs P) :
    fromDeltaForm (relabelDeltas φ (toDeltaForm f)) = mapPoints φ (fromDeltaForm (toDeltaForm f)) :=
  fromDeltaForm_relabelDeltas φ _

/-- … hence sound whenever the round trip is (every canonical `f`, every `f` with defined initial value) -/
theorem relabelDeltas_sound (φ : P → Q) (f : Stairs P) (hh : HeadOk f.init f.steps) :
    fromDeltaForm (relabelDeltas φ (toDeltaForm f)) = mapPoints φ f := by
  rw [relabelDeltas_roundtrip, show fromDeltaForm (toDeltaForm f) = f from toValueForm_toDeltaForm f hh]

theorem mapPoints_injective (φ : P → Q) (hφ : Function.Injective φ) :
    Function.Injective (mapPoints φ : Stairs P → Stairs Q) := by
  intro f g h
  cases f with
  | mk fi fs fc =>
    cases g with
    | mk gi gs gc =>
      simp only [mapPoints, Stairs.mk.injEq] at h ⊢
      refine ⟨h.1, ?_, h.2.2⟩
      refine List.map_injective_iff.mpr ?_ h.2.1
      intro a b hab
      simp only [Prod.mk.injEq] at hab
      exact Prod.ext (hφ hab.1) hab.2

/-- … and, for an injective re-labelling, ONLY then -/
theorem relabelDeltas_sound_iff (φ : P → Q) (hφ : Function.Injective φ) (f : Stairs P) :
    fromDeltaForm (relabelDeltas φ (toDeltaForm f)) = mapPoints φ f ↔ fromDeltaForm (toDeltaForm f) = f := by
  rw [relabelDeltas_roundtrip]
  exact (mapPoints_injective φ hφ).eq_iff

theorem zeroDeltaAtStep_mapPoints (φ : P → Q) (f : Stairs P) :
    (mapPoints φ f).zeroDeltaAtStep = f.zeroDeltaAtStep := by
  have hd : stepChanges (mapPoints φ f) = (stepChanges f).map fun pd => (φ pd.1, pd.2) :=
    congrArg DStairs.deltas (toDeltaForm_mapPoints φ f)
  unfold zeroDeltaAtStep
  rw [hd]
  exact f16c_zeroAtStep_relabel φ f.init f.steps (stepChanges f)

end relabel

section shift
variable [Add P]

theorem shiftDeltas_eq_relabel (d : DStairs P) (δ : P) : shiftDeltas d δ = relabelDeltas (· + δ) d := rfl
theorem shift_eq_mapPoints (f : Stairs P) (δ : P) : shift f δ = mapPoints (· + δ) f := rfl

/-- **3. shift on the delta form** (points moved, changes untouched): both conversions commute with it,
for every `f` / `d` whatsoever, NaN markers included -/
theorem toDeltaForm_shift (f : Stairs P) (δ : P) : toDeltaForm (shift f δ) = shiftDeltas (toDeltaForm f) δ :=
  toDeltaForm_mapPoints (· + δ) f

theorem fromDeltaForm_shiftDeltas (d : DStairs P) (δ : P) :
    fromDeltaForm (shiftDeltas d δ) = shift (fromDeltaForm d) δ :=
  fromDeltaForm_relabelDeltas (· + δ) d

theorem shiftDeltas_removeRedundant (d : DStairs P) (δ : P) :
    (shiftDeltas d δ).removeRedundant = shiftDeltas d.removeRedundant δ :=
  relabelDeltas_removeRedundant (· + δ) d

/-- sound for every function that survives the plain round trip: every canonical function (undefined pieces
and undefined initial value included), every function with a defined initial value -/
theorem shiftDeltas_sound (f : Stairs P) (hh : HeadOk f.init f.steps) (δ : P) :
    fromDeltaForm (shiftDeltas (toDeltaForm f) δ) = shift f δ :=
  relabelDeltas_sound (· + δ) f hh

theorem shiftDeltas_canonical (f : Stairs P) (hf : f.IsMinimal) (δ : P) :
    fromDeltaForm (shiftDeltas (toDeltaForm f) δ) = shift f δ :=
  shiftDeltas_sound f (headOk_of_minimal _ _ hf) δ

/-- it fails exactly when the round trip itself fails (the only such inputs: NaN first row after a NaN
initial value – never canonical) -/
theorem shiftDeltas_sound_iff [IsRightCancelAdd P] (f : Stairs P) (δ : P) :
    fromDeltaForm (shiftDeltas (toDeltaForm f) δ) = shift f δ ↔ fromDeltaForm (toDeltaForm f) = f :=
  relabelDeltas_sound_iff (· + δ) (add_left_injective δ) f

/-- shifting neither creates nor destroys a zero change at a genuine step point: the delta clean-up after a
shift is as (un)sound as before it -/
theorem zeroDeltaAtStep_shift (f : Stairs P) (δ : P) : (shift f δ).zeroDeltaAtStep = f.zeroDeltaAtStep :=
  zeroDeltaAtStep_mapPoints (· + δ) f

end shift

/-! ## 5. when do two delta forms denote the same function? -/

/-- the delta-form clean-up keeps the function (NaN-free delta forms) -/
theorem den_removeRedundant_good (d : DStairs P) (hd : d.Good) (st : Bool) (x : P) :
    Den (fromDeltaForm d.removeRedundant) st x = Den (fromDeltaForm d) st x := by
  rw [DStairs.den_toValueForm _ (DStairs.good_removeRedundant d hd), DStairs.den_toValueForm d hd]
  show some (baseOf d.init + reachedSum st x (removeRedundantDeltas d.deltas)) = _
  rw [reachedSum_removeRedundantDeltas]

/-- **normal forms**: defined initial value, strictly increasing points, every change defined and non-zero —
exactly the delta forms whose value form is canonical and NaN-free -/
theorem deltaForm_normal_iff (d : DStairs P) :
    (d.Good ∧ NoZero d.deltas) ↔ ((fromDeltaForm d).Canonical ∧ (fromDeltaForm d).noNa = true) := by
  constructor
  · rintro ⟨hd, hz⟩
    refine ⟨DStairs.canonical_toValueForm d hd hz, (noNa_iff _).mpr ⟨hd.1, ?_⟩⟩
    show AllDef d.stepValues
    rw [DStairs.stepValues_eq]
    exact f16c_allDef_recolumn_cumsumSkip _ _ hd.2.2
  · rintro ⟨hc, hn⟩
    have hi : d.init ≠ none := ((noNa_iff _).mp hn).1
    have hd : toDeltaForm (fromDeltaForm d) = d := toDeltaForm_fromDeltaForm d (fun h' => absurd h' hi)
    have h1 := good_toDeltaForm (fromDeltaForm d) hn hc.1
    have h2 := (canonical_noZero (fromDeltaForm d) hn hc.2).1
    rw [hd] at h1 h2
    exact ⟨h1, h2⟩

/-- the delta form of a canonical NaN-free function is a normal form, and the clean-up normalises any NaN-free
delta form without changing the function -/
theorem toDeltaForm_normal (f : Stairs P) (hf : f.Canonical) (hn : f.noNa = true) :
    (toDeltaForm f).Good ∧ NoZero (toDeltaForm f).deltas :=
  ⟨good_toDeltaForm f hn hf.1, (canonical_noZero f hn hf.2).1⟩

theorem removeRedundant_normal (d : DStairs P) (hd : d.Good) :
    d.removeRedundant.Good ∧ NoZero d.removeRedundant.deltas ∧
      ∀ st x, Den (fromDeltaForm d.removeRedundant) st x = Den (fromDeltaForm d) st x :=
  ⟨DStairs.good_removeRedundant d hd, noZero_removeRedundantDeltas _, den_removeRedundant_good d hd⟩

/-- **`deltaForm_eq_iff`**: two NaN-free delta forms denote the same function iff they have the same initial
value and the same non-zero changes (i.e. the same normal form) -/
theorem deltaForm_eq_iff [NoMinOrder P] [Nonempty P] (d e : DStairs P) (hd : d.Good) (he : e.Good) :
    (∀ x, Den (fromDeltaForm d) false x = Den (fromDeltaForm e) false x) ↔
      d.init = e.init ∧ removeRedundantDeltas d.deltas = removeRedundantDeltas e.deltas := by
  constructor
  · intro h
    have hd' := DStairs.good_removeRedundant d hd
    have he' := DStairs.good_removeRedundant e he
    have cd := DStairs.canonical_toValueForm _ hd' (noZero_removeRedundantDeltas d.deltas)
    have ce := DStairs.canonical_toValueForm _ he' (noZero_removeRedundantDeltas e.deltas)
    have hden : ∀ x, Den (fromDeltaForm d.removeRedundant) false x = Den (fromDeltaForm e.removeRedundant) false x :=
      fun x => by rw [den_removeRedundant_good d hd, den_removeRedundant_good e he, h x]
    obtain ⟨hi, hs⟩ := canonical_unique _ _ _ _ cd.1 ce.1 cd.2 ce.2 hden
    have hi' : d.init = e.init := hi
    refine ⟨hi', ?_⟩
    have hs' : (fromDeltaForm d.removeRedundant).steps = (fromDeltaForm e.removeRedundant).steps := hs
    have : fromDeltaForm (⟨d.init, removeRedundantDeltas d.deltas, d.closed⟩ : DStairs P)
        = fromDeltaForm ⟨e.init, removeRedundantDeltas e.deltas, d.closed⟩ := by
      show (⟨d.init, (fromDeltaForm d.removeRedundant).steps, d.closed⟩ : Stairs P)
        = ⟨e.init, (fromDeltaForm e.removeRedundant).steps, d.closed⟩
      rw [hi', hs']
    exact congrArg DStairs.deltas (fromDeltaForm_injective
      ⟨d.init, removeRedundantDeltas d.deltas, d.closed⟩ ⟨e.init, removeRedundantDeltas e.deltas, d.closed⟩ hd.1 he.1 this)
  · rintro ⟨hi, hs⟩ x
    rw [DStairs.den_toValueForm d hd, DStairs.den_toValueForm e he,
      ← reachedSum_removeRedundantDeltas false x d.deltas, hs, reachedSum_removeRedundantDeltas, hi]

/-- … and then both one-sided limits agree everywhere -/
theorem deltaForm_eq_both_limits [NoMinOrder P] [Nonempty P] (d e : DStairs P) (hd : d.Good) (he : e.Good)
    (h : ∀ x, Den (fromDeltaForm d) false x = Den (fromDeltaForm e) false x) (st : Bool) (x : P) :
    Den (fromDeltaForm d) st x = Den (fromDeltaForm e) st x := by
  obtain ⟨hi, hs⟩ := (deltaForm_eq_iff d e hd he).mp h
  rw [DStairs.den_toValueForm d hd, DStairs.den_toValueForm e he,
    ← reachedSum_removeRedundantDeltas st x d.deltas, hs, reachedSum_removeRedundantDeltas, hi]

/-- **uniqueness of the normal form**: two normal forms with the same closed side that denote the same
function are the same object -/
theorem deltaForm_unique [NoMinOrder P] [Nonempty P] (d e : DStairs P) (hd : d.Good) (he : e.Good)
    (zd : NoZero d.deltas) (ze : NoZero e.deltas) (hc : d.closed = e.closed)
    (h : ∀ x, Den (fromDeltaForm d) false x = Den (fromDeltaForm e) false x) : d = e := by
  obtain ⟨hi, hs⟩ := (deltaForm_eq_iff d e hd he).mp h
  rw [removeRedundantDeltas, removeRedundantDeltas, removeRedundantDeltasFrom_of_noZero false _ hd.2.2 zd,
    removeRedundantDeltasFrom_of_noZero false _ he.2.2 ze] at hs
  cases d; cases e; simp_all

/-- **uniqueness of the delta representation of a canonical NaN-free function** -/
theorem toDeltaForm_unique [NoMinOrder P] [Nonempty P] (f : Stairs P) (hf : f.Canonical) (hn : f.noNa = true)
    (d : DStairs P) (hd : d.Good) (zd : NoZero d.deltas) (hc : d.closed = f.closed)
    (h : ∀ x, Den (fromDeltaForm d) false x = Den f false x) : d = toDeltaForm f := by
  obtain ⟨g1, g2⟩ := toDeltaForm_normal f hf hn
  refine deltaForm_unique d (toDeltaForm f) hd g1 zd g2 hc (fun x => ?_)
  rw [h x, fromDeltaForm_toDeltaForm_noNa f hn]

/-- without the non-zero requirement the representation is NOT unique: a zero change can be inserted anywhere -/
theorem deltaForm_not_unique :
    ∃ d e : DStairs Int, d.Good ∧ e.Good ∧ d.closed = e.closed ∧ d ≠ e ∧
      ∀ st x, Den (fromDeltaForm d) st x = Den (fromDeltaForm e) st x := by
  have g1 : (⟨some 1, [(2, some 3)], .left⟩ : DStairs Int).Good :=
    ⟨by decide, by simp [Sorted], by simp [AllDef]⟩
  have g2 : (⟨some 1, [(2, some 3), (5, some 0)], .left⟩ : DStairs Int).Good :=
    ⟨by decide, by simp [Sorted], by simp [AllDef]⟩
  refine ⟨_, _, g1, g2, rfl, by decide, fun st x => ?_⟩
  rw [← den_removeRedundant_good _ g2]
  rfl

/-! ## 6. refutations and non-vacuity over `Stairs Int` -/

/-- `0 | 2 on [1,2) | undefined on [2,3) | 2 on [3,6) | 0`: an undefined piece flanked by equal values -/
def r₁ : Stairs Int := ⟨some 0, [(1, some 2), (2, none), (3, some 2), (6, some 0)], .left⟩
/-- undefined towards −∞, first defined value `0` -/
def r₂ : Stairs Int := ⟨none, [(1, some 0), (4, some 5), (7, none)], .right⟩
/-- undefined pieces and undefined initial value, but no re-entry -/
def r₃ : Stairs Int := ⟨none, [(1, some 2), (3, none), (5, some 4), (8, some 1)], .left⟩
/-- NaN first row after a NaN initial value (well-formed, not canonical): the plain round trip fails -/
def bad : Stairs Int := ⟨none, [(0, none), (1, some 3), (2, some 5)], .left⟩

example : r₁.Canonical ∧ r₁.noNa = false ∧ r₁.zeroDeltaAtStep = true ∧ r₁.hasGapReentry = true := by decide +kernel
example : r₂.Canonical ∧ r₂.noNa = false ∧ r₂.zeroDeltaAtStep = true ∧ r₂.hasGapReentry = true := by decide +kernel
example : r₃.Canonical ∧ r₃.noNa = false ∧ r₃.zeroDeltaAtStep = false ∧ r₃.hasGapReentry = false := by decide +kernel
example : bad.WF ∧ ¬ bad.IsMinimal ∧ ¬ HeadOk bad.init bad.steps := by decide +kernel
example : f₀.WF ∧ f₀.noNa = true ∧ ¬ f₀.IsMinimal ∧ f₀.zeroDeltaAtStep = false := by decide +kernel

/-- the zero change at the genuine step point 3 (re-entry to `2`), resp. at 1 (first defined value `0`) -/
example : toDeltaForm r₁ = ⟨some 0, [(1, some 2), (2, none), (3, some 0), (6, some (-2))], .left⟩ := by decide +kernel
example : toDeltaForm r₂ = ⟨none, [(1, some 0), (4, some 5), (7, none)], .right⟩ := by decide +kernel

-- 1. `k * f`: the RAW shortcut is right on all three NaN functions …
example : binopO .mul (.st r₁) (.sc (some 3)) = some (.ok (fromDeltaForm (scaleDeltas 3 (toDeltaForm r₁)))) ∧
    binopO .mul (.sc (some 3)) (.st r₂) = some (.ok (fromDeltaForm (scaleDeltas 3 (toDeltaForm r₂)))) ∧
    binopO .mul (.st r₃) (.sc (some (-2))) = some (.ok (fromDeltaForm (scaleDeltas (-2) (toDeltaForm r₃)))) := by
  decide +kernel
-- … the PATH (with delta clean-up) is REFUTED on the two shapes …
example : binopO .mul (.st r₁) (.sc (some 3)) ≠ some (.ok (fromDeltaForm (scalePath 3 (toDeltaForm r₁)))) := by
  decide +kernel
example : binopO .mul (.st r₂) (.sc (some 3)) ≠ some (.ok (fromDeltaForm (scalePath 3 (toDeltaForm r₂)))) := by
  decide +kernel
example : fromDeltaForm (scalePath 3 (toDeltaForm r₁)) = ⟨some 0, [(1, some 6), (2, none), (6, some 0)], .left⟩ ∧
    binopO .mul (.st r₁) (.sc (some 3)) = some (.ok ⟨some 0, [(1, some 6), (2, none), (3, some 6), (6, some 0)], .left⟩) := by
  decide +kernel
example : fromDeltaForm (scalePath 3 (toDeltaForm r₂)) = ⟨none, [(4, some 15), (7, none)], .right⟩ ∧
    binopO .mul (.st r₂) (.sc (some 3)) = some (.ok ⟨none, [(1, some 0), (4, some 15), (7, none)], .right⟩) := by
  decide +kernel
/-- the function is wrong: undefined on `[3,6)` instead of `6`, resp. undefined on `[1,4)` instead of `0` -/
example : Den (fromDeltaForm (scalePath 3 (toDeltaForm r₁))) false 3 = none ∧
    Den (fromDeltaForm (scaleDeltas 3 (toDeltaForm r₁))) false 3 = some 6 ∧
    Den (fromDeltaForm (scalePath 3 (toDeltaForm r₂))) false 2 = none ∧
    Den (fromDeltaForm (scaleDeltas 3 (toDeltaForm r₂))) false 2 = some 0 := by decide +kernel
-- … and right on NaN functions without re-entry, and on NaN-free ones (canonical or not)
example : binopO .mul (.st r₃) (.sc (some 3)) = some (.ok (fromDeltaForm (scalePath 3 (toDeltaForm r₃)))) ∧
    binopO .mul (.st f₀) (.sc (some 3)) = some (.ok (fromDeltaForm (scalePath 3 (toDeltaForm f₀)))) ∧
    binopO .mul (.sc (some (-1))) (.st g₀) = some (.ok (fromDeltaForm (scalePath (-1) (toDeltaForm g₀)))) := by
  decide +kernel
-- non-canonical receiver: the raw shortcut keeps the redundant row (same function, `canon` restores the rows)
example : binopO .mul (.st f₀) (.sc (some 3)) ≠ some (.ok (fromDeltaForm (scaleDeltas 3 (toDeltaForm f₀)))) ∧
    binopO .mul (.st f₀) (.sc (some 3)) = some (.ok (fromDeltaForm (scaleDeltas 3 (toDeltaForm f₀))).canon) := by
  decide +kernel
-- `k = 0`: everything is redundant; with an undefined piece the path loses the re-entry, the raw one does not
example : scalePath 0 (toDeltaForm f₀) = ⟨some 0, [], .left⟩ ∧
    binopO .mul (.st f₀) (.sc (some 0)) = some (.ok (fromDeltaForm (scalePath 0 (toDeltaForm f₀)))) := by decide +kernel
example : r₁.returnsFromNa = true ∧ f₀.returnsFromNa = false ∧
    (⟨some 1, [(2, some 3), (4, none)], .left⟩ : Stairs Int).returnsFromNa = false := by decide +kernel
example : binopO .mul (.st r₁) (.sc (some 0)) = some (.ok ⟨some 0, [(2, none), (3, some 0)], .left⟩) ∧
    fromDeltaForm (scalePath 0 (toDeltaForm r₁)) = ⟨some 0, [(2, none)], .left⟩ ∧
    (fromDeltaForm (scaleDeltas 0 (toDeltaForm r₁))).canon = ⟨some 0, [(2, none), (3, some 0)], .left⟩ := by
  decide +kernel

-- 2a. `-f`
example : fromDeltaForm (negDeltas (toDeltaForm r₁)) = unop .neg r₁ ∧
    fromDeltaForm (negDeltas (toDeltaForm r₂)) = unop .neg r₂ ∧
    fromDeltaForm (negPath (toDeltaForm r₃)) = unop .neg r₃ ∧
    fromDeltaForm (negPath (toDeltaForm f₀)) = unop .neg f₀ := by decide +kernel
example : fromDeltaForm (negPath (toDeltaForm r₁)) ≠ unop .neg r₁ ∧
    fromDeltaForm (negPath (toDeltaForm r₂)) ≠ unop .neg r₂ := by decide +kernel

-- 2b. `f + c`: defined initial value ⇒ raw shortcut right even with undefined pieces; the path is not
example : binopO .add (.st r₁) (.sc (some 5)) = some (.ok (fromDeltaForm (addConstDeltas 5 (toDeltaForm r₁)))) ∧
    binopO .add (.st r₁) (.sc (some 5)) ≠ some (.ok (fromDeltaForm (addConstPath 5 (toDeltaForm r₁)))) ∧
    binopO .add (.st f₀) (.sc (some 5)) = some (.ok (fromDeltaForm (addConstPath 5 (toDeltaForm f₀)))) := by
  decide +kernel
/-- **refutation**: undefined initial value ⇒ the constant is lost altogether (the result is `f` itself) -/
example : fromDeltaForm (addConstDeltas 5 (toDeltaForm r₃)) = r₃ ∧
    binopO .add (.st r₃) (.sc (some 5)) = some (.ok ⟨none, [(1, some 7), (3, none), (5, some 9), (8, some 6)], .left⟩) ∧
    binopO .add (.st r₃) (.sc (some 5)) ≠ some (.ok (fromDeltaForm (addConstDeltas 5 (toDeltaForm r₃)))) := by
  decide +kernel

-- 2c. `c - f`
example : binopO .sub (.sc (some 5)) (.st r₁) = some (.ok (fromDeltaForm (rsubDeltas 5 (toDeltaForm r₁)))) ∧
    binopO .sub (.sc (some 5)) (.st r₁) ≠ some (.ok (fromDeltaForm (rsubPath 5 (toDeltaForm r₁)))) ∧
    binopO .sub (.sc (some 5)) (.st g₀) = some (.ok (fromDeltaForm (rsubPath 5 (toDeltaForm g₀)))) := by
  decide +kernel
example : fromDeltaForm (rsubDeltas 5 (toDeltaForm r₃)) = unop .neg r₃ ∧
    binopO .sub (.sc (some 5)) (.st r₃) ≠ some (.ok (fromDeltaForm (rsubDeltas 5 (toDeltaForm r₃)))) := by
  decide +kernel

-- 3. shift: right on every canonical function; wrong only where the round trip itself is
example : fromDeltaForm (shiftDeltas (toDeltaForm r₁) 10) = shift r₁ 10 ∧
    fromDeltaForm (shiftDeltas (toDeltaForm r₂) (-3)) = shift r₂ (-3) ∧
    toDeltaForm (shift bad 10) = shiftDeltas (toDeltaForm bad) 10 := by decide +kernel
example : fromDeltaForm (shiftDeltas (toDeltaForm bad) 10) ≠ shift bad 10 ∧ fromDeltaForm (toDeltaForm bad) ≠ bad ∧
    fromDeltaForm (shiftDeltas (toDeltaForm bad) 10) = shift (fromDeltaForm (toDeltaForm bad)) 10 := by
  decide +kernel

-- 4. the characterisation at work
example : fromDeltaForm (toDeltaForm r₃).removeRedundant = r₃.canon ∧
    fromDeltaForm (toDeltaForm f₀).removeRedundant = f₀.canon ∧
    fromDeltaForm (toDeltaForm r₁).removeRedundant ≠ r₁.canon ∧
    fromDeltaForm (toDeltaForm bad).removeRedundant ≠ bad.canon := by decide +kernel
example : fromDeltaForm (toDeltaForm r₃).removeRedundant = r₃.canon :=
  (removeRedundant_agrees_iff r₃ (by decide +kernel)).mpr ⟨by decide +kernel, by decide +kernel⟩
example : Den (fromDeltaForm (toDeltaForm r₁).removeRedundant) false 3 ≠ Den r₁ false 3 := by decide +kernel
example : ¬ ∀ st x, Den (fromDeltaForm (toDeltaForm r₁).removeRedundant) st x = Den r₁ st x :=
  (removeRedundant_den_iff r₁ (by decide +kernel) (by decide +kernel)).not.mpr (by decide +kernel)

-- 5. same function, different NaN-free delta forms: same initial value and same non-zero changes
example : (toDeltaForm f₀).Good ∧ (toDeltaForm f₀.canon).Good ∧ toDeltaForm f₀ ≠ toDeltaForm f₀.canon ∧
    (toDeltaForm f₀).init = (toDeltaForm f₀.canon).init ∧
    removeRedundantDeltas (toDeltaForm f₀).deltas = removeRedundantDeltas (toDeltaForm f₀.canon).deltas :=
  ⟨good_toDeltaForm f₀ (by decide +kernel) (by decide +kernel),
   good_toDeltaForm f₀.canon (by decide +kernel) (by decide +kernel), by decide +kernel, by decide +kernel,
   by decide +kernel⟩
example : (toDeltaForm g₀).Good ∧ NoZero (toDeltaForm g₀).deltas :=
  toDeltaForm_normal g₀ (by decide +kernel) (by decide +kernel)

end SC.Props.C16c
