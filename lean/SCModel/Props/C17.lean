import SCModel.Lemmas.Masking
import SCModel.Model.Relabel
import Mathlib.Algebra.Order.Ring.Unbundled.Rat
import Mathlib.Tactic.Ring
import Mathlib.Tactic.Linarith
import Mathlib.Tactic.FieldSimp
/-!
# C17 — Numeric, Timestamp and Timedelta domains behave identically

Re-labelling the domain by an order-preserving map `φ` commutes with every operation: the result computed in
the image domain *is* the image of the result (`mapPoints φ (op f g) = op (mapPoints φ f) (mapPoints φ g)`,
an equality of objects: step points re-labelled, values equal).  For an affine `φ x = o + u·x`, `u > 0`,
lengths and integrals scale by the unit `u`, while mean, shares (hence ecdf, percentiles, var) are invariant.
What the theorems cannot see is the implementation's per-dtype glue; that is what the cross-domain replay of
the correspondence check exercises.
-/
set_option linter.unusedSectionVars false
namespace SC.Props.C17
open SC SC.Stairs
variable {P Q : Type} [LinearOrder P] [LinearOrder Q]

/-- order-preserving (strictly monotone) re-labelling -/
def OrderPreserving (φ : P → Q) : Prop := ∀ a b, a < b ↔ φ a < φ b

theorem reached_map (φ : P → Q) (hφ : OrderPreserving φ) (st : Bool) (p x : P) :
    reached st (φ p) (φ x) = reached st p x := by
  cases st <;> simp [reached, ← hφ p x, ← hφ x p]

theorem lim_mapPoints {V : Type} (φ : P → Q) (hφ : OrderPreserving φ) (st : Bool) (a : V) (s : List (P × V)) (x : P) :
    lim st a (s.map fun pv => (φ pv.1, pv.2)) (φ x) = lim st a s x := by
  induction s generalizing a with
  | nil => rfl
  | cons pv r ih =>
    obtain ⟨p, v⟩ := pv
    simp only [List.map_cons, lim_cons, reached_map φ hφ, ih]

/-- **evaluation commutes**: the image function at the image point has the same one-sided limits … -/
theorem den_mapPoints (φ : P → Q) (hφ : OrderPreserving φ) (f : Stairs P) (st : Bool) (x : P) :
    Den (mapPoints φ f) st (φ x) = Den f st x := lim_mapPoints φ hφ st f.init f.steps x

/-- … and the same value under the same closed convention -/
theorem sample_mapPoints (φ : P → Q) (hφ : OrderPreserving φ) (f : Stairs P) (x : P) :
    (mapPoints φ f).sample (φ x) = f.sample x := by
  rw [sample_eq_den, sample_eq_den]
  exact den_mapPoints φ hφ f _ x

theorem pairwise_map (φ : P → Q) (hφ : OrderPreserving φ) (l : List P) (h : l.Pairwise (· < ·)) :
    (l.map φ).Pairwise (· < ·) := by
  induction l with
  | nil => simp
  | cons a r ih =>
    rw [List.pairwise_cons] at h
    simp only [List.map_cons, List.pairwise_cons, List.mem_map]
    exact ⟨fun b ⟨c, hc, hcb⟩ => hcb ▸ (hφ a c).mp (h.1 c hc), ih h.2⟩

theorem wf_mapPoints (φ : P → Q) (hφ : OrderPreserving φ) (f : Stairs P) (hf : f.WF) : (mapPoints φ f).WF := by
  unfold WF Sorted mapPoints
  simp only [List.map_map]
  have : (f.steps.map (Prod.fst ∘ fun pv : P × Val => (φ pv.1, pv.2))) = (f.steps.map Prod.fst).map φ := by
    simp [List.map_map, Function.comp_def]
  rw [this]
  exact pairwise_map φ hφ _ hf

theorem unionIdx_map (φ : P → Q) (hφ : OrderPreserving φ) (xs ys : List P) :
    unionIdx (xs.map φ) (ys.map φ) = (unionIdx xs ys).map φ := by
  fun_induction unionIdx xs ys with
  | case1 ys => simp [unionIdx]
  | case2 xs h => cases xs with
    | nil => exact absurd rfl h
    | cons a r => simp [unionIdx]
  | case3 x xs y ys hxy ih =>
    simp only [List.map_cons] at ih ⊢
    rw [unionIdx, if_pos ((hφ x y).mp hxy), ih]
  | case4 x xs y ys hxy hyx ih =>
    simp only [List.map_cons] at ih ⊢
    rw [unionIdx, if_neg (fun h => hxy ((hφ x y).mpr h)), if_pos ((hφ y x).mp hyx), ih]
  | case5 x xs y ys hxy hyx ih =>
    simp only [List.map_cons] at ih ⊢
    rw [unionIdx, if_neg (fun h => hxy ((hφ x y).mpr h)), if_neg (fun h => hyx ((hφ y x).mpr h)), ih]

theorem removeRedundant_map {V : Type} [DecidableEq V] (φ : P → Q) (a : V) (s : List (P × V)) :
    removeRedundant a (s.map fun pv => (φ pv.1, pv.2)) = (removeRedundant a s).map fun pv => (φ pv.1, pv.2) := by
  induction s generalizing a with
  | nil => rfl
  | cons pv r ih =>
    obtain ⟨p, v⟩ := pv
    simp only [List.map_cons, removeRedundant]
    split
    · exact ih a
    · simp [ih v]

theorem canon_mapPoints (φ : P → Q) (f : Stairs P) : (mapPoints φ f).canon = mapPoints φ f.canon := by
  simp [canon, mapPoints, removeRedundant_map]

/-- **every pointwise two-operand operation commutes with re-labelling – as an equality of objects** -/
theorem combine_mapPoints (φ : P → Q) (hφ : OrderPreserving φ) (op : Val → Val → Val) (f g : Stairs P) (cl : Side) :
    combine op (mapPoints φ f) (mapPoints φ g) cl = mapPoints φ (combine op f g cl) := by
  unfold combine
  rw [← canon_mapPoints]
  congr 1
  simp only [mapPoints, combineSteps, List.map_map, Function.comp_def]
  have hidx : unionIdx (f.steps.map fun pv => φ pv.1) (g.steps.map fun pv => φ pv.1)
      = (unionIdx (f.steps.map Prod.fst) (g.steps.map Prod.fst)).map φ := by
    rw [← unionIdx_map φ hφ]; simp [List.map_map, Function.comp_def]
  simp only [Stairs.mk.injEq, true_and, and_true]
  rw [hidx, List.map_map]
  apply List.map_congr_left
  intro p _
  simp only [Function.comp_def]
  rw [lim_mapPoints φ hφ, lim_mapPoints φ hφ]

theorem hasSteps_mapPoints (φ : P → Q) (f : Stairs P) : (mapPoints φ f).hasSteps = f.hasSteps := by
  simp [hasSteps, mapPoints]

theorem closedFor_mapPoints (φ : P → Q) (f g : Stairs P) :
    closedFor (mapPoints φ f) (mapPoints φ g) = closedFor f g := by
  simp [closedFor, hasSteps_mapPoints]; rfl

/-- arithmetic, relational and logical operators, mask / where / fillna by a function: the result in the
image domain is the image of the result, and an error is the same error -/
theorem combineChecked_mapPoints (φ : P → Q) (hφ : OrderPreserving φ) (op : Val → Val → Val) (f g : Stairs P) :
    combineChecked op (mapPoints φ f) (mapPoints φ g) = (combineChecked op f g).map (mapPoints φ) := by
  unfold combineChecked
  rw [closedFor_mapPoints]
  cases closedFor f g with
  | error e => rfl
  | ok cl => simp [Except.map, combine_mapPoints φ hφ]

theorem binop_mapPoints (φ : P → Q) (hφ : OrderPreserving φ) (o : BinOp) (f g : Stairs P) :
    binop o (mapPoints φ f) (mapPoints φ g) = (binop o f g).map (mapPoints φ) :=
  combineChecked_mapPoints φ hφ o.eval f g

/-- unary operations and scalar fills commute -/
theorem map_mapPoints (φ : P → Q) (u : Val → Val) (f : Stairs P) :
    Stairs.map u (mapPoints φ f) = mapPoints φ (Stairs.map u f) := by
  unfold Stairs.map
  rw [← canon_mapPoints]
  simp [mapPoints, List.map_map, Function.comp_def]

/-- clip with re-labelled bounds commutes -/
theorem clip_mapPoints (φ : P → Q) (hφ : OrderPreserving φ) (f : Stairs P) (lo hi : Option P) :
    clip (mapPoints φ f) (lo.map φ) (hi.map φ) = (clip f lo hi).map (mapPoints φ) := by
  have hb : boundsOk (lo.map φ) (hi.map φ) = boundsOk lo hi := by
    cases lo with
    | none => cases hi <;> rfl
    | some a =>
      cases hi with
      | none => rfl
      | some b => simp only [boundsOk, Option.map_some]; exact decide_eq_decide.mpr (hφ a b).symm
  have hind : ∀ cl, indicator (lo.map φ) (hi.map φ) cl = mapPoints φ (indicator lo hi cl) := by
    intro cl; cases lo <;> cases hi <;> simp [indicator, mapPoints]
  unfold clip
  rw [hb]
  split
  · simp only [Except.map]
    have : (mapPoints φ f).closed = f.closed := rfl
    rw [this, hind, combine_mapPoints φ hφ]
  · rfl

/-! ## affine re-labelling of a numeric domain: lengths and integrals scale by the unit -/

/-- `x ↦ origin + unit · x` with a positive unit -/
def affine (o u : Rat) (x : Rat) : Rat := o + u * x

theorem affine_orderPreserving (o u : Rat) (hu : 0 < u) : OrderPreserving (affine o u) := by
  intro a b
  unfold affine
  constructor
  · intro h; nlinarith
  · intro h; nlinarith

theorem pieces_affine (o u : Rat) (s : List (Rat × Val)) :
    pieces (s.map fun pv => (affine o u pv.1, pv.2)) =
      (pieces s).map fun t => (affine o u t.1, affine o u t.2.1, t.2.2) := by
  induction s with
  | nil => rfl
  | cons pv r ih =>
    obtain ⟨p, v⟩ := pv
    cases r with
    | nil => rfl
    | cons qw r' =>
      obtain ⟨q, w⟩ := qw
      simp only [List.map_cons, pieces] at ih ⊢
      rw [ih]

/-- the finite defined pieces keep their values and have their lengths multiplied by the unit -/
theorem definedPieces_affine (o u : Rat) (f : Stairs Rat) :
    definedPieces (mapPoints (affine o u) f).steps = (definedPieces f.steps).map fun vl => (vl.1, u * vl.2) := by
  unfold definedPieces mapPoints
  simp only []
  rw [pieces_affine, List.filterMap_map, List.map_filterMap]
  apply List.filterMap_congr
  intro t _
  obtain ⟨p, q, v⟩ := t
  cases v with
  | none => rfl
  | some x => simp [affine]; ring

theorem sumBy_scaled (u : Rat) (l : List (Rat × Rat)) :
    sumBy (fun vl => vl.1 * vl.2) (l.map fun vl => (vl.1, u * vl.2)) = u * sumBy (fun vl => vl.1 * vl.2) l ∧
    sumBy (·.2) (l.map fun vl => (vl.1, u * vl.2)) = u * sumBy (·.2) l := by
  induction l with
  | nil => simp [sumBy]
  | cons a r ih =>
    simp only [sumBy, List.map_cons, List.sum_cons] at ih ⊢
    constructor
    · rw [ih.1]; ring
    · rw [ih.2]; ring

/-- **total defined length and integral scale by the unit** -/
theorem definedLength_affine (o u : Rat) (f : Stairs Rat) :
    definedLength (mapPoints (affine o u) f) = u * definedLength f := by
  unfold definedLength; rw [definedPieces_affine]; exact (sumBy_scaled u _).2

theorem integral_affine (o u : Rat) (f : Stairs Rat) :
    integral (mapPoints (affine o u) f) = (integral f).map (u * ·) := by
  unfold integral
  have hl : (mapPoints (affine o u) f).steps.length = f.steps.length := by simp [mapPoints]
  rw [hl]
  split
  · rfl
  · rw [definedPieces_affine, (sumBy_scaled u _).1]; rfl

/-- **the mean is invariant** -/
theorem mean_affine (o u : Rat) (hu : 0 < u) (f : Stairs Rat) :
    mean (mapPoints (affine o u) f) = mean f := by
  unfold mean
  have hl : (mapPoints (affine o u) f).steps.length = f.steps.length := by simp [mapPoints]
  rw [hl, definedLength_affine, definedPieces_affine, (sumBy_scaled u _).1]
  split
  · rfl
  · have hne : u ≠ 0 := ne_of_gt hu
    by_cases hz : definedLength f = 0
    · simp [hz]
    · have : u * definedLength f ≠ 0 := mul_ne_zero hne hz
      simp only [hz, this, if_false]
      congr 1
      field_simp

/-! non-vacuity: ticks ↦ "quarter hours after an origin" -/
def f₀ : Stairs Rat := ⟨some 1, [(0, some 3), (2, none), (3, some 5), (7, some 0)], .left⟩
def g₀ : Stairs Rat := ⟨some 0, [(1, some 2), (3, some 0)], .left⟩
example : binop .mul (mapPoints (affine 100 (1/4)) f₀) (mapPoints (affine 100 (1/4)) g₀)
    = (binop .mul f₀ g₀).map (mapPoints (affine 100 (1/4))) := by decide +kernel
example : integral (mapPoints (affine 100 (1/4)) f₀) = some (26 / 4) ∧ integral f₀ = some 26 ∧
    mean (mapPoints (affine 100 (1/4)) f₀) = mean f₀ := by decide +kernel

end SC.Props.C17
